------------------------------ MODULE Envelope ------------------------------
(***************************************************************************)
(* C18 - the description sweep and the supported envelope of the readelf    *)
(* comparison.  The TEXT GNU readelf prints is not modelled (transcribing    *)
(* binutils' formatting would be a second readelf, not a specification);     *)
(* this module is the generator: for every description table of the clone    *)
(* it steps through the entries the clone has (the vocabulary Vocab, names   *)
(* only, read from the tree under test) and writes one image that differs    *)
(* from a base image in exactly that field, with the code taken from the     *)
(* specification's registry.  Images stay inside Supported (features both    *)
(* tools implement): e.g. the base is ET_EXEC (an ET_DYN without .dynamic is *)
(* refused by the clone's type description), special section types carry     *)
(* minimal valid content, SHF_COMPRESSED is never set.                       *)
(*                                                                         *)
(* Sweeps: e_machine, EI_OSABI, e_type, class/byte order (option -h);        *)
(* sh_type per machine overlay and every sh_flags bit (-S); p_type per       *)
(* overlay and p_flags 0..7 (-l); symbol type, binding, visibility, other    *)
(* bits and section index (-s); dynamic tags incl. DT_FLAGS / DT_FLAGS_1     *)
(* bits (-d).                                                                *)
(*                                                                         *)
(* The structures behind the tables (version chains, notes, dynamic         *)
(* objects, symbol and relocation tables, attribute sections, line          *)
(* programs, call-frame sections, entry trees) are not generated here: the  *)
(* cross-writer sweep feeds the images of the other properties' writers to  *)
(* both tools (ReadelfEnvelopeV.tla: loadable rendering of the Versions     *)
(* writer; ReadelfEnvelope.tla: ELF container of the DWARF-level writers'   *)
(* section contents; vf/c18_writers.py: sources, envelope predicates).      *)
(***************************************************************************)
EXTENDS Elf, Json, CSV, IOUtils

\* names the clone's description tables have (vocabulary only; codes come from the registry)
Vocab == JsonDeserialize(IOEnv.VOCAB)
Known(fam) == {n \in fam : n \in DOMAIN Reg}
V(key) == Known({Vocab[key][i] : i \in 1..Len(Vocab[key])})

VARIABLES item
vars == <<item>>

ClsLe == {<<32, TRUE>>, <<32, FALSE>>, <<64, TRUE>>, <<64, FALSE>>}
Dot(s) == <<46>> \o s
TextSec(cls) == Sec(Dot(<<116, 101, 120, 116>>), N(1), N(6), N(4198400), <<144, 144, 144, 195>>, N(4), Z, Z, N(16), Z)
DataSecN == Dot(<<100, 97, 116, 97>>)
Load == Seg(N(1), N(5), Z, N(4194304), N(4194304), N(256), N(256), N(4096))
\* e_flags decoding is not a description table: each machine gets the flag word the toolchains of the regression corpus emit
\* (ARM: EABI5 soft-float; MIPS: o32 mips32r2 noreorder pic cpic; RISC-V: RVC double-float; LoongArch: double-float obj-v1)
MachFlags(m) == CASE m = Code("EM_ARM") -> W(<<0, 2, 0, 5>>) [] m = Code("EM_MIPS") -> W(<<7, 16, 0, 112>>)
                  [] m = Code("EM_RISCV") -> N(5) [] m = Code("EM_LOONGARCH") -> N(67) [] OTHER -> Z
Base(cl, m) == [Im0 EXCEPT !.cls = cl[1], !.le = cl[2], !.machine = m, !.etype = N(2), !.eflags = MachFlags(m),
                           !.secs = <<TextSec(cl[1])>>, !.segs = <<Load>>]
X64 == 62
D4(d) == W(DTrunc(d, 4))
Small2(d) == NatOf(d)

\* section types that call for a specialised object (and valid content): swept with minimal valid content elsewhere
Special == {"SHT_STRTAB", "SHT_SYMTAB", "SHT_DYNSYM", "SHT_SUNW_LDYNSYM", "SHT_SYMTAB_SHNDX", "SHT_SUNW_syminfo", "SHT_GNU_verneed",
            "SHT_GNU_verdef", "SHT_GNU_versym", "SHT_DYNAMIC", "SHT_HASH", "SHT_GNU_HASH", "SHT_ARM_ATTRIBUTES", "SHT_RISCV_ATTRIBUTES",
            "SHT_REL", "SHT_RELA", "SHT_RELR", "SHT_NOTE", "SHT_NULL", "SHT_NOBITS", "SHT_AARCH64_ATTRIBUTES", "SHT_GNU_ATTRIBUTES",
            "SHT_MIPS_ABIFLAGS", "SHT_GROUP", "SHT_GNU_LIBLIST", "SHT_MIPS_LIBLIST"}
MachOf(n) == CASE n \in Fam("SHT", "ARM") \cup Fam("PT", "ARM") -> Code("EM_ARM")
               [] n \in Fam("SHT", "AARCH64") \cup Fam("PT", "AARCH64") -> Code("EM_AARCH64")
               [] n \in Fam("SHT", "MIPS") \cup Fam("PT", "MIPS") -> Code("EM_MIPS")
               [] n \in Fam("SHT", "RISCV") \cup Fam("PT", "RISCV") -> Code("EM_RISCV")
               [] OTHER -> X64
ClOf(m) == IF m = Code("EM_ARM") \/ m = Code("EM_MIPS") THEN <<32, TRUE>> ELSE <<64, TRUE>>

\* one symbol in a .symtab (linked to a .strtab with the name "sym")
SymSize(cls) == IF cls = 32 THEN 16 ELSE 24
SymRec(name, info, other, shndx) == [st_name |-> N(name), st_value |-> N(4198400), st_size |-> N(4), st_info |-> N(info),
                                     st_other |-> N(other), st_shndx |-> N(shndx)]
SymImage(cl, info, other, shndx) ==
  LET cls == cl[1]
      strtab == <<0, 115, 121, 109, 0>>
      syms == Rep(0, SymSize(cls)) \o Ser(SymF(cls), SymRec(1, info, other, shndx), cls, cl[2])
      b == Base(cl, IF cls = 32 THEN 3 ELSE X64)
  IN [b EXCEPT !.secs = <<TextSec(cls),
                          Sec(Dot(<<115, 116, 114, 116, 97, 98>>), N(3), Z, Z, strtab, N(Len(strtab)), Z, Z, N(1), Z),
                          Sec(Dot(<<115, 121, 109, 116, 97, 98>>), N(2), Z, Z, syms, N(Len(syms)), N(2), N(1), N(8), N(SymSize(cls)))>>]

\* a dynamic section with one entry of the swept tag followed by DT_NULL; strings in .dynstr
DynSize(cls) == IF cls = 32 THEN 8 ELSE 16
DynImage(cl, m, tag, val) ==
  LET cls == cl[1]
      dynstr == <<0, 108, 105, 98, 120, 46, 115, 111, 0>>                    \* "", "libx.so"
      ent(t, v) == Ser(DynF, [d_tag |-> t, d_val |-> v], cls, cl[2])
      dyn == ent(tag, val) \o ent(Z, Z)
      b == [Base(cl, m) EXCEPT !.etype = N(3)]
      im1 == [b EXCEPT !.secs = <<TextSec(cls),
                          Sec(Dot(<<100, 121, 110, 115, 116, 114>>), N(3), N(2), N(4198656), dynstr, N(Len(dynstr)), Z, Z, N(1), Z),
                          Sec(Dot(<<100, 121, 110, 97, 109, 105, 99>>), N(6), N(3), N(4198912), dyn, N(Len(dyn)), N(2), Z, N(8), N(DynSize(cls)))>>,
                        !.segs = <<Load, Seg(N(2), N(6), Z, N(4198912), N(4198912), N(Len(dyn)), N(Len(dyn)), N(8))>>]
  \* the PT_DYNAMIC segment designates the .dynamic section's file bytes (GNU readelf finds the table through it)
  IN [im1 EXCEPT !.segs[2].offset = N(SecOff(im1, 3))]
\* tags whose value is printed as a string-table reference or needs another table: given a harmless value
StrTags == {"DT_NEEDED", "DT_SONAME", "DT_RPATH", "DT_RUNPATH", "DT_AUXILIARY", "DT_FILTER", "DT_CONFIG", "DT_DEPAUDIT", "DT_AUDIT",
            "DT_SUNW_AUXILIARY", "DT_SUNW_FILTER"}

\* one relocation of the swept type against no symbol, in a .rel/.rela section over .text (ET_REL)
RelImage(cl, m, rela, typ) ==
  LET cls == cl[1]
      info == IF cls = 32 THEN N(typ) ELSE N(typ)                       \* symbol index 0: r_info = type (both classes)
      ent == IF rela THEN Ser(RelaF, [r_offset |-> N(16), r_info |-> info, r_addend |-> N(5)], cls, cl[2])
             ELSE Ser(RelF, [r_offset |-> N(16), r_info |-> info], cls, cl[2])
      strtab == <<0>>
      syms == Rep(0, SymSize(cls))
      b == [Base(cl, m) EXCEPT !.etype = N(1), !.segs = <<>>]
      rname == IF rela THEN Dot(<<114, 101, 108, 97, 46, 116, 101, 120, 116>>) ELSE Dot(<<114, 101, 108, 46, 116, 101, 120, 116>>)
  IN [b EXCEPT !.secs = <<[TextSec(cls) EXCEPT !.data = Rep(144, 32), !.size = N(32)],
                          Sec(Dot(<<115, 116, 114, 116, 97, 98>>), N(3), Z, Z, strtab, N(1), Z, Z, N(1), Z),
                          Sec(Dot(<<115, 121, 109, 116, 97, 98>>), N(2), Z, Z, syms, N(Len(syms)), N(2), N(1), N(8), N(SymSize(cls))),
                          Sec(rname, N(IF rela THEN 4 ELSE 9), N(64), Z, ent, N(Len(ent)), N(3), N(1), N(cls \div 8), N(Len(ent)))>>]
\* machine -> <<vocabulary key, class/order, RELA?>> (psABI: REL on i386/ARM/MIPS o32, RELA elsewhere)
RelMachines == << <<"EM_386", "RELOC_386", <<32, TRUE>>, FALSE>>, <<"EM_X86_64", "RELOC_X64", <<64, TRUE>>, TRUE>>,
                  <<"EM_ARM", "RELOC_ARM", <<32, TRUE>>, FALSE>>, <<"EM_AARCH64", "RELOC_AARCH64", <<64, TRUE>>, TRUE>>,
                  <<"EM_PPC64", "RELOC_PPC64", <<64, FALSE>>, TRUE>>, <<"EM_PPC", "RELOC_PPC", <<32, FALSE>>, TRUE>>,
                  <<"EM_S390", "RELOC_S390", <<64, FALSE>>, TRUE>>, <<"EM_MIPS", "RELOC_MIPS", <<32, TRUE>>, FALSE>>,
                  <<"EM_LOONGARCH", "RELOC_LARCH", <<64, TRUE>>, TRUE>> >>

\* ---- call-frame instructions (DWARF5 6.4.2, 7.24): a DWARF32 .debug_frame with one CIE (version 1, code alignment 1, data
\* alignment -8, return address column 16, initial rules CFA = r7+8, r16 at cfa-8) and one FDE whose program is the swept
\* instruction between two advances.  Bytes are written here; the dumps are GNU readelf's and the clone's.
CfaItems == <<
  <<"advance_loc", <<68>>>>, <<"advance_loc1", <<2, 8>>>>, <<"advance_loc2", <<3, 16, 0>>>>, <<"advance_loc4", <<4, 32, 0, 0, 0>>>>,
  <<"set_loc", <<1, 64, 16, 64, 0, 0, 0, 0, 0>>>>,
  <<"set_loc_then_advance", <<1, 64, 16, 64, 0, 0, 0, 0, 0, 72, 14, 24>>>>,
  <<"offset", <<134, 2>>>>, <<"offset_extended", <<5, 17, 3>>>>, <<"restore", <<134, 2, 68, 198>>>>, <<"restore_extended", <<5, 17, 3, 68, 6, 17>>>>,
  <<"undefined", <<7, 3>>>>, <<"same_value", <<8, 3>>>>, <<"register", <<9, 3, 12>>>>,
  <<"remember_restore_state", <<10, 14, 16, 68, 11>>>>,
  <<"def_cfa", <<12, 6, 16>>>>, <<"def_cfa_register", <<13, 6>>>>, <<"def_cfa_offset", <<14, 32>>>>,
  <<"def_cfa_expression", <<15, 2, 119, 8>>>>, <<"expression", <<16, 3, 2, 119, 8>>>>,
  <<"offset_extended_sf", <<17, 17, 126>>>>, <<"def_cfa_sf", <<18, 6, 126>>>>, <<"def_cfa_offset_sf", <<19, 125>>>>,
  <<"val_offset", <<20, 3, 2>>>>, <<"val_offset_sf", <<21, 3, 126>>>>, <<"val_expression", <<22, 3, 2, 119, 8>>>>,
  <<"GNU_args_size", <<46, 16>>>>, <<"nop", <<0>>>> >>
PadNops(bs, m) == bs \o Rep(0, (m - (Len(bs) % m)) % m)
FrameSec(prog) ==
  LET cieb == PadNops(<<255, 255, 255, 255, 1, 0, 1, 120, 16, 12, 7, 8, 144, 1>>, 8)
      fdeb == PadNops(LEn(0, 4) \o LEn(4198400, 8) \o LEn(256, 8) \o <<68>> \o prog \o <<72>>, 8)
  IN LEn(Len(cieb), 4) \o cieb \o LEn(Len(fdeb), 4) \o fdeb
FrameImage(prog) ==
  [Base(<<64, TRUE>>, X64) EXCEPT !.secs = <<TextSec(64),
      Sec(Dot(<<100, 101, 98, 117, 103, 95, 102, 114, 97, 109, 101>>), N(1), Z, Z, FrameSec(prog), N(Len(FrameSec(prog))), Z, Z, N(8), Z),
      \* a minimal .debug_info / .debug_abbrev (one DWARF4 unit with an attribute-less compile unit entry): the clone only dumps
      \* frames of files that have debugging information
      Sec(Dot(<<100, 101, 98, 117, 103, 95, 105, 110, 102, 111>>), N(1), Z, Z, <<8, 0, 0, 0, 4, 0, 0, 0, 0, 0, 8, 1>>, N(12), Z, Z, N(1), Z),
      Sec(Dot(<<100, 101, 98, 117, 103, 95, 97, 98, 98, 114, 101, 118>>), N(1), Z, Z, <<1, 17, 0, 0, 0, 0>>, N(6), Z, Z, N(1), Z)>>]

\* ---- location expression operations (DWARF5 2.5, 7.7.1): a DWARF4 unit whose only variable carries DW_AT_location (exprloc)
\* with a one-operation expression.  Operand bytes written here (ULEB/SLEB by hand).
OpItems == <<
  <<"addr", <<3, 0, 16, 64, 0, 0, 0, 0, 0>>>>, <<"deref", <<6>>>>, <<"const1u", <<8, 200>>>>, <<"const1s", <<9, 200>>>>,
  <<"const2u", <<10, 1, 128>>>>, <<"const2s", <<11, 1, 128>>>>, <<"const4u", <<12, 1, 0, 0, 128>>>>, <<"const4s", <<13, 1, 0, 0, 128>>>>,
  <<"const8u", <<14, 1, 0, 0, 0, 0, 0, 0, 128>>>>, <<"const8s", <<15, 1, 0, 0, 0, 0, 0, 0, 128>>>>,
  <<"constu", <<16, 229, 142, 38>>>>, <<"consts", <<17, 155, 241, 89>>>>, <<"dup", <<18>>>>, <<"drop", <<19>>>>, <<"over", <<20>>>>,
  <<"pick", <<21, 3>>>>, <<"swap", <<22>>>>, <<"rot", <<23>>>>, <<"xderef", <<24>>>>, <<"abs", <<25>>>>, <<"and", <<26>>>>, <<"div", <<27>>>>,
  <<"minus", <<28>>>>, <<"mod", <<29>>>>, <<"mul", <<30>>>>, <<"neg", <<31>>>>, <<"not", <<32>>>>, <<"or", <<33>>>>, <<"plus", <<34>>>>,
  <<"plus_uconst", <<35, 128, 1>>>>, <<"shl", <<36>>>>, <<"shr", <<37>>>>, <<"shra", <<38>>>>, <<"xor", <<39>>>>,
  <<"bra", <<40, 4, 0>>>>, <<"eq", <<41>>>>, <<"ge", <<42>>>>, <<"gt", <<43>>>>, <<"le", <<44>>>>, <<"lt", <<45>>>>, <<"ne", <<46>>>>,
  <<"skip", <<47, 252, 255>>>>, <<"lit0", <<48>>>>, <<"lit17", <<65>>>>, <<"lit31", <<79>>>>, <<"reg0", <<80>>>>, <<"reg6", <<86>>>>, <<"reg31", <<111>>>>,
  <<"breg0", <<112, 8>>>>, <<"breg7", <<119, 120>>>>, <<"breg31", <<143, 128, 127>>>>, <<"regx", <<144, 33>>>>,
  <<"bregx", <<146, 33, 124>>>>, <<"piece", <<80, 147, 4>>>>, <<"deref_size", <<148, 4>>>>, <<"xderef_size", <<149, 2>>>>, <<"nop", <<150>>>>,
  <<"push_object_address", <<151>>>>, <<"call2", <<152, 11, 0>>>>, <<"call4", <<153, 11, 0, 0, 0>>>>, <<"call_ref", <<154, 11, 0, 0, 0>>>>,
  <<"form_tls_address", <<155>>>>, <<"call_frame_cfa", <<156>>>>, <<"bit_piece", <<80, 157, 8, 2>>>>, <<"implicit_value", <<158, 2, 1, 2>>>>,
  <<"stack_value", <<48, 159>>>>, <<"GNU_push_tls_address", <<224>>>>, <<"GNU_uninit", <<80, 240>>>>,
  <<"GNU_entry_value", <<243, 1, 85>>>>, <<"entry_value", <<163, 1, 85>>>>, <<"GNU_implicit_pointer", <<242, 11, 0, 0, 0, 4>>>>,
  <<"implicit_pointer", <<160, 11, 0, 0, 0, 4>>>>, <<"GNU_parameter_ref", <<250, 11, 0, 0, 0>>>> >>
OpInfo(expr) == LET body == <<4, 0, 0, 0, 0, 0, 8, 1, 2, Len(expr)>> \o expr \o <<0>> IN LEn(Len(body), 4) \o body
OpImage(expr) ==
  [Base(<<64, TRUE>>, X64) EXCEPT !.secs = <<TextSec(64),
      Sec(Dot(<<100, 101, 98, 117, 103, 95, 105, 110, 102, 111>>), N(1), Z, Z, OpInfo(expr), N(Len(OpInfo(expr))), Z, Z, N(1), Z),
      \* abbreviations: 1 DW_TAG_compile_unit with children, no attributes; 2 DW_TAG_variable, DW_AT_location DW_FORM_exprloc
      Sec(Dot(<<100, 101, 98, 117, 103, 95, 97, 98, 98, 114, 101, 118>>), N(1), Z, Z, <<1, 17, 1, 0, 0, 2, 52, 0, 2, 24, 0, 0, 0>>, N(13), Z, Z, N(1), Z)>>]

\* ---- DWARF description tables printed by --debug-dump=info: a DWARF4 unit with one child entry of tag T carrying one attribute
\* (DW_FORM_data2) - every tag the clone names, and every coded attribute value it describes (language, base type encoding,
\* inline, accessibility, visibility, virtuality, identifier case, calling convention, array ordering).  The numeric codes the
\* clone has descriptions for are vocabulary (Vocab.DWVALS: <<attribute, value>> pairs; Vocab.DWTAGS).
AttrInfo(t, at, v) == LET body == <<4, 0, 0, 0, 0, 0, 8, 1, 2>> \o LEn(v, 2) \o <<0>> IN LEn(Len(body), 4) \o body
AttrAbbrev(t, at) == <<1, 17, 1, 0, 0, 2>> \o UlebOfNat(t) \o <<0>> \o UlebOfNat(at) \o <<5, 0, 0, 0>>
AttrImage(t, at, v) ==
  [Base(<<64, TRUE>>, X64) EXCEPT !.secs = <<TextSec(64),
      Sec(Dot(<<100, 101, 98, 117, 103, 95, 105, 110, 102, 111>>), N(1), Z, Z, AttrInfo(t, at, v), N(Len(AttrInfo(t, at, v))), Z, Z, N(1), Z),
      Sec(Dot(<<100, 101, 98, 117, 103, 95, 97, 98, 98, 114, 101, 118>>), N(1), Z, Z, AttrAbbrev(t, at), N(Len(AttrAbbrev(t, at))), Z, Z, N(1), Z)>>]

Items ==
  {[tag |-> "dw_value", name |-> ToString(Vocab.DWVALS[i][1]) \o "=" \o ToString(Vocab.DWVALS[i][2]), opt |-> "--debug-dump=info",
    im |-> AttrImage(36, Vocab.DWVALS[i][1], Vocab.DWVALS[i][2])] : i \in 1..Len(Vocab.DWVALS)}
  \cup {[tag |-> "dw_tag", name |-> ToString(Vocab.DWTAGS[i]), opt |-> "--debug-dump=info", im |-> AttrImage(Vocab.DWTAGS[i], 11, 4)] :
           i \in 1..Len(Vocab.DWTAGS)}
  \cup
  {[tag |-> "dw_op", name |-> OpItems[i][1], opt |-> "--debug-dump=info", im |-> OpImage(OpItems[i][2])] : i \in 1..Len(OpItems)}
  \cup
  {[tag |-> "dw_cfa", name |-> CfaItems[i][1], opt |-> o, im |-> FrameImage(CfaItems[i][2])] :
      i \in 1..Len(CfaItems), o \in {"--debug-dump=frames", "--debug-dump=frames-interp"}}
  \cup
  \* ---- option -r: every relocation type name the clone has, under its machine
  UNION {{[tag |-> "r_type", name |-> n, opt |-> "-r", im |-> RelImage(RelMachines[i][3], Code(RelMachines[i][1]), RelMachines[i][4], Small2(Reg[n]))] :
            n \in V(RelMachines[i][2])} : i \in 1..Len(RelMachines)}
  \cup
  \* ---- option -h
  {[tag |-> "e_machine", name |-> n, opt |-> "-e", im |-> Base(IF Small2(Reg[n]) \in {Code("EM_ARM"), Code("EM_MIPS")} THEN <<32, TRUE>> ELSE <<64, TRUE>>, Small2(Reg[n]))] : n \in V("EM")}
  \cup {[tag |-> "ei_osabi", name |-> n, opt |-> "-e", im |-> [Base(<<32, TRUE>>, 3) EXCEPT !.osabi = Small2(Reg[n])]] :
          \* OS ABI codes from 64 up are processor specific (GNU readelf names them only under the matching machine): not swept
          n \in {x \in V("OSABI") : Small2(Reg[x]) < 64}}
  \cup {[tag |-> "e_type", name |-> n, opt |-> "-e", im |-> [Base(<<64, FALSE>>, X64) EXCEPT !.etype = N(Small2(Reg[n]))]] : n \in V("ET") \ {"ET_DYN"}}
  \cup {[tag |-> "class_data", name |-> "ELFCLASS", opt |-> "-e", im |-> Base(cl, IF cl[1] = 32 THEN 3 ELSE X64)] : cl \in ClsLe}
  \* ---- option -S
  \cup {[tag |-> "sh_type", name |-> n, opt |-> "-e",
         im |-> [Base(ClOf(MachOf(n)), MachOf(n)) EXCEPT !.secs = Append(@, Sec(DataSecN, D4(Reg[n]), N(2), N(8192), <<>>, Z, Z, Z, N(4), Z))]] :
          n \in V("SHT") \ Special}
  \cup {[tag |-> "sh_flags", name |-> "SHF", opt |-> "-e",
         im |-> [Base(cl, X64) EXCEPT !.secs = Append(@, Sec(DataSecN, N(1), f, N(8192), <<>>, Z, Z, Z, N(4), Z))]] :
          cl \in {<<64, TRUE>>, <<32, FALSE>>},
          f \in {N(1), N(2), N(4), N(16), N(32), N(48), N(64), N(128), N(256), N(512), N(1024), N(7), N(1 + 2 + 4 + 16 + 32 + 64 + 128 + 256 + 512),
                 W(<<0, 0, 0, 128>>), W(<<0, 0, 16, 0>>), W(<<0, 0, 0, 64>>)}}
  \* ---- option -l
  \cup {[tag |-> "p_type", name |-> n, opt |-> "-e",
         im |-> [Base(ClOf(MachOf(n)), MachOf(n)) EXCEPT !.segs = Append(@, Seg(D4(Reg[n]), N(4), N(64), N(4194368), N(4194368), N(8), N(8), N(4)))]] :
          n \in V("PT") \ {"PT_INTERP", "PT_DYNAMIC", "PT_NOTE"}}
  \cup {[tag |-> "p_flags", name |-> "PF", opt |-> "-e",
         im |-> [Base(<<64, TRUE>>, X64) EXCEPT !.segs = Append(@, Seg(N(1), f, N(64), N(8388672), N(8388672), N(8), N(8), N(4)))]] :
          f \in {N(k) : k \in 0..7} \cup {W(<<0, 0, 16, 0>>), W(<<0, 0, 0, 16>>)}}
  \* ---- option -s
  \cup {[tag |-> "st_type", name |-> n, opt |-> "-s", im |-> SymImage(cl, 16 + Small2(Reg[n]), 0, 1)] : n \in V("STT"), cl \in {<<64, TRUE>>, <<32, FALSE>>}}
  \cup {[tag |-> "st_bind", name |-> n, opt |-> "-s", im |-> SymImage(<<64, TRUE>>, 16 * Small2(Reg[n]) + 1, 0, 1)] : n \in V("STB")}
  \cup {[tag |-> "st_visibility", name |-> n, opt |-> "-s", im |-> SymImage(<<64, TRUE>>, 17, Small2(Reg[n]), 1)] : n \in V("STV")}
  \cup {[tag |-> "st_shndx", name |-> n, opt |-> "-s", im |-> SymImage(cl, 17, 0, Small2(Reg[n]))] : n \in V("SHN"), cl \in {<<64, TRUE>>, <<32, TRUE>>}}
  \* ---- option -d
  \cup {[tag |-> "d_tag", name |-> n, opt |-> "-d", im |-> DynImage(cl, IF cl[1] = 32 THEN 3 ELSE X64, D4(Reg[n]), N(1))] :
          n \in (V("DT") \cap Fam("DT", "BASE")) \ {"DT_NULL"}, cl \in {<<64, TRUE>>, <<32, FALSE>>}}
  \* machine-specific tags under their machine
  \cup {[tag |-> "d_tag", name |-> n, opt |-> "-d", im |-> DynImage(<<32, TRUE>>, Code("EM_MIPS"), D4(Reg[n]), N(1))] : n \in V("DT") \cap Fam("DT", "MIPS")}
  \cup {[tag |-> "d_tag", name |-> n, opt |-> "-d", im |-> DynImage(<<64, TRUE>>, Code("EM_AARCH64"), D4(Reg[n]), N(1))] : n \in V("DT") \cap Fam("DT", "AARCH64")}
  \cup {[tag |-> "dt_flags", name |-> "DT_FLAGS", opt |-> "-d", im |-> DynImage(<<64, TRUE>>, X64, N(30), N(b))] : b \in {1, 2, 4, 8, 16, 31}}
  \cup {[tag |-> "dt_flags_1", name |-> "DT_FLAGS_1", opt |-> "-d", im |-> DynImage(<<64, TRUE>>, X64, W(<<251, 255, 255, 111>>), W(LEn(b, 4)))] :
          b \in {1, 2, 4, 8, 16, 32, 64, 128, 256, 512, 1024, 2048, 4096, 8192, 16384, 32768, 65536, 131072, 262144, 524288,
                 1048576, 2097152, 4194304, 8388608, 16777216, 33554432, 67108864, 134217728, 134217729}}

Init == item \in Items
Next == UNCHANGED vars
Spec == Init /\ [][Next]_vars

\* inside the envelope: chunks never overlap and the reader's count procedure recovers the writer's counts
Supported == ChunksDisjoint(item.im) /\ ReaderRecoversCounts(item.im)
Emit == CSVWrite("%1$s", <<ToJson([tag |-> item.tag, name |-> item.name, opt |-> item.opt, chunks |-> Chunks(item.im)])>>, IOEnv.OUT)
=============================================================================
