------------------------------ MODULE DieTree ------------------------------
(***************************************************************************)
(* C04 - debugging-information entries are decoded into exactly the        *)
(* encoded tree.  DWARF 2-5: 7.5.1 unit headers, 7.5.2 entries, 7.5.3      *)
(* abbreviations, 7.5.4-7.5.6 forms (DwarfForms.tla), 2.3 relationship of   *)
(* entries (sibling lists closed by null entries).                          *)
(*                                                                         *)
(* A unit is [ctx, utype, abbrevs, dies]: `dies` is the flattened (prefix)  *)
(* tree, a die with code 0 is a null entry.  The environment is a writer:   *)
(*   mode "forms"  - one unit (root + one child + null); the child carries  *)
(*                   one attribute in the form under test followed by a     *)
(*                   sentinel attribute; full product form x value class x  *)
(*                   version x format x address size x byte order;          *)
(*   mode "shapes" - token writer Push/Close/NextUnit building every tree   *)
(*                   shape in bounds over 1-2 units of different contexts,  *)
(*                   with DW_AT_sibling in several forms, intra- and        *)
(*                   cross-unit references, non-minimal null entries;       *)
(*   mode "units"  - every unit-header kind, abbreviation-table sharing,    *)
(*                   sparse codes, unknown tag / attribute numbers, v4      *)
(*                   type units in .debug_types.                            *)
(* TLC checks on the specification: Tiling (the byte-level reader, walking  *)
(* with FormLen, lands exactly on the writer's offsets and ends at the      *)
(* unit's declared length), NestingMatches (parent by backward scan =       *)
(* parent by the writer's stack), SiblingShortcutSound, RefResolves.        *)
(***************************************************************************)
EXTENDS DieEnc, Json, CSV, IOUtils

CONSTANTS Modes, MaxTok, MaxUnits

VARIABLES mode, units, depth, fin, tag
vars == <<mode, units, depth, fin, tag>>

Init ==
  /\ mode \in Modes
  /\ depth = 0
  /\ CASE mode = "forms" -> \E x \in FormsSet : units = x[2] /\ tag = x[1] /\ fin = TRUE
       [] mode = "units" -> \E x \in UnitsSet : units = x[2] /\ tag = x[1] /\ fin = TRUE
       [] mode = "types" -> \E x \in TypesSet : units = x[2] /\ tag = x[1] /\ fin = TRUE
       [] mode = "shapes" -> \E c \in ShapeCtxs : units = <<[ctx |-> c[1], sf |-> c[2], toks |-> <<>>, firstroot |-> ShapeHdr(c[1])]>>
                                                  /\ tag = "shapes" /\ fin = FALSE

Cur == units[Len(units)]
TotalToks == LET RECURSIVE T(_) T(k) == IF k = 0 THEN 0 ELSE Len(units[k].toks) + T(k - 1) IN T(Len(units))
UnitClosed == Cur.toks # <<>> /\ depth = 0
Push(k) ==
  /\ mode = "shapes" /\ ~fin /\ TotalToks < MaxTok
  /\ (Cur.toks = <<>> => TokHasKids(k) \/ k = "leaf")         \* the first entry of a unit is its root
  /\ (Cur.toks # <<>> => depth > 0)
  /\ (k = "opensib" => Cur.toks # <<>>)                         \* the root itself has no sibling attribute
  /\ units' = [units EXCEPT ![Len(units)].toks = Append(@, k)]
  /\ depth' = IF TokHasKids(k) THEN depth + 1 ELSE depth
  /\ UNCHANGED <<mode, fin, tag>>
Close(k) ==
  /\ mode = "shapes" /\ ~fin /\ depth > 0 /\ TotalToks < MaxTok
  /\ units' = [units EXCEPT ![Len(units)].toks = Append(@, k)]
  /\ depth' = depth - 1
  /\ UNCHANGED <<mode, fin, tag>>
NextUnit ==
  /\ mode = "shapes" /\ ~fin /\ UnitClosed /\ Len(units) < MaxUnits /\ TotalToks < MaxTok
  /\ \E c \in ShapeCtxs : /\ c[1].le = units[1].ctx.le          \* one byte order per file
                            /\ units' = Append(units, [ctx |-> c[1], sf |-> c[2], toks |-> <<>>, firstroot |-> units[1].firstroot])
  /\ UNCHANGED <<mode, depth, fin, tag>>
Finish ==
  /\ mode = "shapes" /\ ~fin /\ UnitClosed
  /\ fin' = TRUE
  /\ UNCHANGED <<mode, units, depth, tag>>
Next == Finish \/ NextUnit \/ (\E k \in TokKinds : Push(k)) \/ (\E k \in {"null", "null2"} : Close(k))
Spec == Init /\ [][Next]_vars

(* ------------------------------ emission ------------------------------- *)
Final(us) == FinalOf(us, mode = "shapes")
AbbrevSec(us) == AbbrevSecOf(us, mode = "shapes")
\* mode "types": the last unit of the list is the referring compile unit, alone in .debug_info (`cuinfo`); the others are .debug_types
Case ==
  LET f0 == Final(units)   c1 == f0[1].ctx
      f == IF mode = "types" THEN SubSeq(f0, 1, Len(f0) - 1) ELSE f0
      cu == f0[Len(f0)]
      cuv == UnitView(cu, 0)
      \* a signature designates the type entry of the unit that carries it: [referring entry, designated unit, designated entry]
      sigrefs == [i \in 2..3 |-> LET k == CHOOSE k \in 1..Len(f) : f[k].sig = cu.dies[i].attrs[1].v IN
                                  [from |-> cuv.dies[i].off, unit |-> UnitOffs(f, k), die |-> UnitOffs(f, k) + f[k].typeoff]]
  IN
  [tag |-> tag, mode |-> mode, le |-> c1.le,
   info |-> InfoBytes(f), abbrev |-> AbbrevSec(units),
   str |-> StrSec, line_str |-> LineStrSec, str_offsets |-> StrOffsetsSec(c1), addr |-> AddrSec(c1), lists |-> ListsSec(c1),
   units |-> [k \in 1..Len(f) |-> UnitView(f[k], UnitOffs(f, k))],
   cuinfo |-> IF mode = "types" THEN UnitBytes(cu) ELSE <<>>,
   cu |-> IF mode = "types" THEN <<cuv>> ELSE <<>>,
   sigrefs |-> IF mode = "types" THEN [i \in 1..2 |-> sigrefs[i + 1]] ELSE <<>>]
Emit == fin => CSVWrite("%1$s", <<ToJson(Case)>>, IOEnv.OUT)

(* ------------------------------ properties ----------------------------- *)
\* entries tile each unit: the byte-level reader lands exactly on the writer's offsets and the last entry ends at the declared length
Tiling ==
  fin => LET f == Final(units) IN
         \A k \in 1..Len(f) :
           LET u == f[k]   bs == UnitBytes(u)   v == UnitView(u, 0)
               starts == ReadDies(bs, HeaderSize(u) + 1, u, <<>>)
           IN /\ Len(starts) = Len(u.dies)
              /\ \A i \in 1..Len(starts) : starts[i] = v.dies[i].off
              /\ v.dies[Len(u.dies)].off + v.dies[Len(u.dies)].size = v.size
              /\ v.size = Len(bs)
\* parent/children relations equal the encoded nesting: declarative backward scan = writer's stack discipline
NestingMatches ==
  fin => LET f == Final(units) IN
         \A k \in 1..Len(f) : LET ks == KindsOf(f[k]) IN
           \A i \in 1..Len(ks) : ParentIx(ks, i) = ParentByStack(ks, i)
\* nulls close exactly the sibling lists they terminate: each entry with children has its terminator, and depth returns to 0 at the end
NullsClose ==
  fin => LET f == Final(units) IN
         \A k \in 1..Len(f) : LET ks == KindsOf(f[k]) IN
           /\ \A i \in 1..Len(ks) : ks[i] = "kids" => (TermIx(ks, i) <= Len(ks) /\ ks[TermIx(ks, i)] = "null" /\ ParentIx(ks, TermIx(ks, i)) = i)
           /\ StackRun(ks, Len(ks) + 1, <<>>) = <<>>
\* a DW_AT_sibling value designates exactly the entry that follows the subtree (what descending would find)
SiblingShortcutSound ==
  (fin /\ mode = "shapes") =>
     LET f == Final(units) IN
     \A k \in 1..Len(f) : LET u == f[k]   uoff == UnitOffs(f, k)   v == UnitView(u, uoff)   ks == KindsOf(u) IN
       \A i \in 1..Len(u.dies) :
          u.dies[i].code = 3 =>
             LET a == u.dies[i].attrs[1]
                 tgt == IF a.form = "DW_FORM_ref_udata" THEN uoff + GroupsNat(LebDec(a.v.b, FALSE).val.g)
                        ELSE IF a.form = "DW_FORM_ref_addr" THEN a.v.n ELSE uoff + a.v.n
             IN tgt = (IF After(ks, i) <= Len(ks) THEN v.dies[After(ks, i)].off ELSE uoff + v.size)
=============================================================================
