-------------------------- MODULE ReadelfEnvelopeR --------------------------
(***************************************************************************)
(* C18, cross-writer sweep, option -r (relocation tables).                 *)
(*                                                                         *)
(* The tables of the Reloc writer (C08, decode mode: <= MaxEntries entries  *)
(* out of the six of DecodePool per class, and a seventh added here: a      *)
(* symbol with addend 0 - extremes of every field,                          *)
(* NEGATIVE addends -1, -2, -2^31 / -2^63, the largest positive addend,    *)
(* asymmetric byte patterns - REL and RELA) rendered inside the envelope   *)
(* both tools implement.  The writer's own images are outside of it for a  *)
(* whole-file dump: its symbols are unnamed SHN_ABS STT_NOTYPE symbols,    *)
(* its symbol indices (0x123456, 0xffffff, ...) are far beyond the symbol  *)
(* table (GNU readelf: "bad symbol index") and its type codes (0x78, 0x80, *)
(* 0xff) have no name under most machines - only the all-zero entry could  *)
(* be compared.  Here (EnvObj), like ReadelfEnvelopeV does for the version *)
(* indices:                                                                *)
(*   - r_offset and r_addend are the writer's, unchanged;                  *)
(*   - the symbol index is reduced into the symbol table (PickSym), so     *)
(*     every entry designates a symbol of the table (index 0 stays 0);     *)
(*   - the type code selects one of the relocation types the processor     *)
(*     supplement defines for the machine (TypeSeq: the codes of Reloc's    *)
(*     recipe table, PowerPC 32-bit: Power Architecture 32-bit ABI          *)
(*     supplement table 4-8); the MIPS64 r_type2 / r_type3 likewise;       *)
(*   - the symbol table is one a link editor would write (gABI ch.4        *)
(*     "Symbol Table"): null symbol, locals first (a STT_SECTION symbol     *)
(*     without a name for section 1, a local object), then a global        *)
(*     object, a global function, a weak undefined symbol, a global        *)
(*     SHN_ABS object whose name is longer than the 22 characters the      *)
(*     narrow dump shows; sh_info = index of the first global; st_value    *)
(*     are the writer's values (0, 1, 2^31, 2^32-1, 2^63, -1, ...           *)
(*     truncated to the class);                                            *)
(*   - configurations: Reloc's DecodeConfigs (i386, MIPS o32/n32 big       *)
(*     endian, x86-64, 64-bit PowerPC, MIPS64 LE/BE) and PowerPC 32-bit    *)
(*     big endian, ARM, AArch64, zSeries, LoongArch: both byte orders in   *)
(*     both classes, with both flavours.                                   *)
(*                                                                         *)
(* Checked by TLC: EnvRoundTrip (the gABI reader recovers the rendered     *)
(* entries from the table bytes; offsets and addends are the writer's),    *)
(* EnvSymbolsResolve (every entry names a symbol of the table; every       *)
(* st_name resolves to the symbol's name in .strtab; locals precede        *)
(* globals and sh_info is the first global), EnvImageOK (chunks disjoint,  *)
(* sh_link / sh_info of the relocation section designate the symbol table  *)
(* and the relocated section), and the ASSUMEs: the pools have a negative  *)
(* addend in every class, the literal type codes are the registry's.       *)
(***************************************************************************)
EXTENDS Reloc

EM_PPC == 20
EnvConfigs == DecodeConfigs \cup {<<32, FALSE, EM_PPC>>, <<32, TRUE, EM_ARM>>, <<64, TRUE, EM_AARCH64>>, <<64, FALSE, EM_S390>>,
                                  <<64, TRUE, EM_LOONGARCH>>}

\* relocation types defined for a machine, ascending (ELF32: codes below 256)
TypeSet(m, cls) == IF m = EM_PPC THEN {0, 1, 26}                                  \* R_PPC_NONE, R_PPC_ADDR32, R_PPC_REL32
                   ELSE {r.t : r \in {x \in Rows : x.m = m /\ (cls = 64 \/ x.t < 256)}}
TypeSeq(m, cls) == AscSeq(TypeSet(m, cls))
ASSUME /\ Reg["R_PPC_NONE"] = <<0>> /\ Reg["R_PPC_ADDR32"] = <<1>> /\ Reg["R_PPC_REL32"] = <<26>> /\ Reg["EM_PPC"] = <<EM_PPC>>
ASSUME \A cf \in EnvConfigs : TypeSet(cf[3], cf[1]) # {}
\* the writer's pools reach the sign of the addend in both classes
Negative(d) == d[Len(d)] >= 128
ASSUME /\ \E i \in 1..Len(Pool32) : Negative(Pool32[i].add) /\ Pool32[i].sym # DZero(4)
       /\ \E i \in 1..Len(Pool64) : Negative(Pool64[i].add) /\ Pool64[i].sym # DZero(4)
       /\ \E i \in 1..Len(PoolMips64) : Negative(PoolMips64[i].add)

(* ------------------------------ symbols -------------------------------- *)
\* <<name, st_info, st_shndx>>; index 0 is the null symbol
SymSpec == << <<<<>>, 0, 0>>,
              <<<<>>, 3, 1>>,                                                   \* STB_LOCAL STT_SECTION, section 1 (.debug_info)
              <<<<108, 118, 97, 114>>, 1, 1>>,                                  \* "lvar"   STB_LOCAL STT_OBJECT
              <<<<103, 111, 98, 106>>, 17, 1>>,                                 \* "gobj"   STB_GLOBAL STT_OBJECT
              <<<<103, 102, 117, 110, 99>>, 18, 1>>,                            \* "gfunc"  STB_GLOBAL STT_FUNC
              <<<<119, 101, 97, 107>>, 32, 0>>,                                 \* "weak"   STB_WEAK STT_NOTYPE, undefined
              <<<<97, 95, 115, 121, 109, 98, 111, 108, 95, 119, 105, 116, 104, 95, 97, 95, 108, 111, 110, 103, 95, 110, 97, 109, 101>>,
                17, 65521>> >>                                                  \* "a_symbol_with_a_long_name" STB_GLOBAL STT_OBJECT SHN_ABS
NS == Len(SymSpec)
ASSUME NS = NV
FirstGlobal == 3
EnvStrtab == <<0>> \o Flat([i \in 1..NS |-> IF SymSpec[i][1] = <<>> THEN <<>> ELSE SymSpec[i][1] \o <<0>>])
NameOffOf(i) == IF SymSpec[i][1] = <<>> THEN 0
                ELSE 1 + SumR([j \in 1..NS |-> IF SymSpec[j][1] = <<>> THEN 0 ELSE Len(SymSpec[j][1]) + 1], 1, i - 1)
EnvSymRec(i, v) == [st_name |-> N(NameOffOf(i)), st_value |-> W(v), st_size |-> N(IF i = 1 THEN 0 ELSE 4), st_info |-> N(SymSpec[i][2]),
                    st_other |-> Z, st_shndx |-> N(SymSpec[i][3])]
EnvSymBytes(o) == Flat([i \in 1..NS |-> Ser(SymF(o.cls), EnvSymRec(i, o.syms[i]), o.cls, o.le)])

(* ------------------------------ entries -------------------------------- *)
PickType(m, cls, b) == LET ts == TypeSeq(m, cls) IN ts[(b % Len(ts)) + 1]
\* symbol index: STN_UNDEF stays STN_UNDEF; any other index designates one of the symbols 1..NS-1 (chosen by the digits of the writer's
\* index and the position j of the entry, so that the tables reach every symbol)
PickSym(d, j) == IF d = DZero(Len(d)) THEN 0 ELSE 1 + ((SumR(d, 1, Len(d)) + 2 * (j - 1)) % (NS - 1))
EnvEntry(o, e, j) ==
  [e EXCEPT !.sym = LEn(PickSym(e.sym, j), 4),
            !.type = LEn(PickType(o.machine, o.cls, e.type[1]), 4),
            !.type2 = IF IsMips64(o.cls, o.machine) THEN PickType(o.machine, o.cls, @) ELSE @,
            !.type3 = IF IsMips64(o.cls, o.machine) THEN PickType(o.machine, o.cls, @) ELSE @]
EnvObj(o) == [o EXCEPT !.relocs = [j \in 1..Len(o.relocs) |-> EnvEntry(o, o.relocs[j], j)]]

\* ET_REL image: 1 .debug_info, 2 .rel[a].debug_info (sh_link 3, sh_info 1, SHF_INFO_LINK), 3 .symtab (sh_link 4, sh_info FirstGlobal), 4 .strtab
EnvImage(o) ==
  LET tb == TableBytes(o)
      sy == EnvSymBytes(o)
      ws == Wsz(o.cls)
  IN [Im0 EXCEPT !.cls = o.cls, !.le = o.le, !.machine = o.machine, !.etype = N(1),
        !.secs = << Sec(DotDebugInfo, N(1), Z, Z, o.data, N(Len(o.data)), Z, Z, N(1), Z),
                    Sec((IF o.rela THEN DotRela ELSE DotRel) \o DotDebugInfo, N(IF o.rela THEN 4 ELSE 9), N(64), Z, tb, N(Len(tb)),
                        N(3), N(1), N(ws), N(EntSize(o.cls, o.rela))),
                    Sec(DotSymtab, N(2), Z, Z, sy, N(Len(sy)), N(4), N(FirstGlobal), N(ws), N(SizeOf(SymF(o.cls), o.cls))),
                    Sec(DotStrtab, N(3), Z, Z, EnvStrtab, N(Len(EnvStrtab)), Z, Z, N(1), Z) >>]

(* ------------------------------- machine -------------------------------- *)
\* the decode writer of Reloc over the configurations of the envelope
InitR ==
  /\ Mode = "decode"
  /\ \E cf \in EnvConfigs, rela \in BOOLEAN :
       obj = [cls |-> cf[1], le |-> cf[2], machine |-> cf[3], rela |-> rela, data |-> Filler(8), syms |-> Syms(cf[1]), relocs |-> <<>>, sub |-> "decode"]
  /\ phase = "write" /\ st = Idle
\* the writer's pool and one more entry: a symbol with addend 0 (the pools have addend 0 only without a symbol)
EnvPool(cls, m) == DecodePool(cls, m) \o <<Entry(LEn(32, Wsz(cls)), <<2, 0, 0, 0>>, <<1, 0, 0, 0>>, DZero(Wsz(cls)), 0, 0, 0)>>
AddEntryR ==
  /\ phase = "write" /\ Len(obj.relocs) < MaxEntries
  /\ \E x \in 1..Len(EnvPool(obj.cls, obj.machine)) : obj' = [obj EXCEPT !.relocs = Append(@, EnvPool(obj.cls, obj.machine)[x])]
  /\ UNCHANGED <<Mode, phase, st>>
NextR == AddEntryR \/ Finish
SpecR == InitR /\ [][NextR]_vars

PoolIndex(o, e) == CHOOSE x \in 1..Len(EnvPool(o.cls, o.machine)) : EnvPool(o.cls, o.machine)[x] = e
KeyR == ToString(<<obj.machine, obj.cls, obj.le, obj.rela, [j \in 1..Len(obj.relocs) |-> PoolIndex(obj, obj.relocs[j])]>>)
TagR == "m" \o ToString(obj.machine) \o "-" \o ToString(obj.cls) \o (IF obj.le THEN "le" ELSE "be") \o (IF obj.rela THEN "/rela" ELSE "/rel")
\* class of the table: does an entry with a symbol carry a negative addend / is there an entry without a symbol
ClassR(o) == (IF o.rela /\ \E j \in 1..Len(o.relocs) : Negative(o.relocs[j].add) /\ o.relocs[j].sym # DZero(4) THEN "/neg" ELSE "")
             \o (IF \E j \in 1..Len(o.relocs) : o.relocs[j].sym = DZero(4) THEN "/nosym" ELSE "")
EmitR ==
  (phase = "done" /\ obj.relocs # <<>>) =>
    LET o == EnvObj(obj)
        cs == Chunks(EnvImage(o))
    IN CSVWrite("%1$s", <<ToJson([k |-> KeyR, n |-> 1, i |-> 1, tag |-> TagR \o ClassR(o), vs |-> cs])>>, IOEnv.OUT)

(* ------------------------------ properties ------------------------------ *)
EnvRoundTrip ==
  phase = "done" =>
    LET o == EnvObj(obj)
        bs == TableBytes(o)
    IN /\ NumEntries(bs, o.cls, o.rela) = Len(obj.relocs)
       /\ \A j \in 1..Len(o.relocs) :
            LET e == ReadEntry(bs, j - 1, o.cls, o.le, o.machine, o.rela) IN
            /\ e = [o.relocs[j] EXCEPT !.add = IF o.rela THEN @ ELSE DZero(Wsz(o.cls))]
            /\ e.off = obj.relocs[j].off /\ (o.rela => e.add = obj.relocs[j].add)
            /\ NatOf(e.type) \in TypeSet(o.machine, o.cls)
EnvSymbolsResolve ==
  phase = "done" =>
    LET o == EnvObj(obj) IN
    /\ \A j \in 1..Len(o.relocs) : NatOf(o.relocs[j].sym) < NS
    /\ \A i \in 1..NS : CStrAt(EnvStrtab, NameOffOf(i)).ok /\ CStrAt(EnvStrtab, NameOffOf(i)).s = SymSpec[i][1]
    /\ \A i \in 1..NS : ((SymSpec[i][2] \div 16) = 0) <=> (i <= FirstGlobal)
    /\ Len(EnvSymBytes(o)) = NS * SizeOf(SymF(o.cls), o.cls)
EnvImageOK ==
  phase = "done" =>
    LET im == EnvImage(EnvObj(obj))
        v == View(im)
    IN /\ ChunksDisjoint(im) /\ ReaderRecoversCounts(im)
       /\ v.sections[3].hdr.sh_link = N(3) /\ v.sections[3].hdr.sh_info = N(1)
       /\ v.sections[4].name = DotSymtab /\ v.sections[4].hdr.sh_link = N(4) /\ v.sections[5].name = DotStrtab
       /\ v.sections[2].name = DotDebugInfo
=============================================================================
