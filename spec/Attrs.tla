------------------------------- MODULE Attrs -------------------------------
(***************************************************************************)
(* C20 (first half) - ARM / RISC-V build attributes are decoded exactly.    *)
(*                                                                         *)
(* Transcribed from                                                        *)
(*   - Addenda to, and Errata in, the ABI for the Arm Architecture          *)
(*     (IHI 0045, "ABI addenda"), section 3 "Build attributes": 3.2 formal  *)
(*     syntax of the section, 3.3 the public Tag_* table with each tag's    *)
(*     parameter type, 3.3.7 Tag_compatibility / Tag_also_compatible_with;  *)
(*   - RISC-V ELF psABI, chapter "Attributes" (same container syntax, tag   *)
(*     table Tag_RISCV_xxx).                                                   *)
(*                                                                         *)
(*   section      ::= 'A' subsection*                                       *)
(*   subsection   ::= <uint32 length> NTBS vendor-name sub-subsection+      *)
(*   subsubsection::= Tag_File(1)    <uint32 size>                attribute* *)
(*                  | Tag_Section(2) <uint32 size> uleb128* 0     attribute* *)
(*                  | Tag_Symbol(3)  <uint32 size> uleb128* 0     attribute* *)
(*   attribute    ::= uleb128 tag, then by the tag's kind                   *)
(*                      uleb   : uleb128                                    *)
(*                      ntbs   : NUL-terminated byte string                 *)
(*                      compat : uleb128 flag, NTBS vendor (Tag_compatibility)*)
(*                      also   : a nested attribute; a nested uleb value is  *)
(*                               followed by the NUL that ends the enclosing *)
(*                               NTBS (Tag_also_compatible_with)             *)
(* The payload of Tag_also_compatible_with is decoded ACCORDING TO THE       *)
(* NESTED TAG'S KIND (ABI addenda 3.3.7.3: a ULEB128-encoded tag followed by *)
(* a ULEB128 or NTBS value depending on that tag, then the terminator):      *)
(* the nested value is delimited by its own encoding, not by a search for   *)
(* the first zero byte, so a nested integer value 0 (Tag_CPU_arch = Pre-v4,  *)
(* bytes 65 6 0 0) or a non-minimal one ending in a zero group (0x81 0x00)   *)
(* is an ordinary letter of the alphabet and the attribute that follows     *)
(* starts right after the terminator (AlsoTerminated, EveryAttributeOnce).   *)
(* Both lengths count from the first byte of their own record (the length   *)
(* field / the scope tag) to the first byte of the next record.             *)
(*                                                                         *)
(* (A) abstract section `obj`  (B) writer actions + Enc  (C) the reader: a  *)
(* three-level walker machine, one action per loop iteration, each level    *)
(* advancing from the CURRENT record's start by that record's length        *)
(* (D) invariants checked by TLC on the specification itself:               *)
(*   EverySubsectionOnce / EverySubsubsectionOnce / EveryAttributeOnce -    *)
(*       the records the walker visits (level, start offset, length) are a  *)
(*       prefix of, and finally equal to, the records the writer declared;  *)
(*   ExtentConsumed - no cursor ever passes the end of its extent, every    *)
(*       level closes exactly on its end, lengths tile the section;         *)
(*   ReaderAgrees  - what the walker decoded is the abstract section        *)
(*       (Dec(Enc(obj)) = obj, non-minimal LEB128 groups included).         *)
(*                                                                         *)
(* Client sessions (strengthening round 4).  What an object yields is a      *)
(* function of the bytes of its extent, so it must not depend on what the    *)
(* same object was asked before - in particular not on an iteration that was *)
(* started and abandoned.  After the walk a client picks ONE object (`tgt`:  *)
(* the section, subsection i, or sub-subsection (i, j)) and issues a         *)
(* sequence of public calls on it, one action (ClientCall) per call, the     *)
(* expected answer (the positions of the children yielded, or a count)       *)
(* being logged with the call:                                               *)
(*   take(k)   a new iteration, abandoned after k items (k = 0: created,     *)
(*             never advanced; k = n: all items, end not signalled)          *)
(*   all       a complete iteration        list   the list property          *)
(*   num       the num_* property                                            *)
(*   filt(p)   a complete iteration filtered by the key (vendor / scope /    *)
(*             tag) of child p (p = 0: a key no child has)                   *)
(*   ftake(p)  ... abandoned after its first item                            *)
(*   open / step   one long-lived iteration advanced between other calls     *)
(* Disciplines: "free" (every sequence of MaxCalls calls, on a small         *)
(* population of objects: FreeOK), scripted "sweep"                          *)
(* and "probe" (two orders of abandon / re-enumerate / count / filter with   *)
(* one iteration kept open throughout).  Checked on the specification:       *)
(* SessionAnswers (the logged answer = what the walker machine decoded from  *)
(* the bytes of the target's extent yields, whatever preceded),              *)
(* AnswersHistoryFree (equal calls have equal answers), SessIterInOrder,     *)
(* SessionFrame.  Every finished session is emitted and replayed on one      *)
(* fresh object of one fresh file.                                           *)
(*                                                                         *)
(* Not asserted (the standards do not fix them): unknown tags (the property *)
(* quantifies over the two tag tables only); the                            *)
(* content of vendor-private subsections (all subsections generated here    *)
(* carry public-format content); how the scope header is counted by         *)
(* num_attributes (harness accepts n or n+1, consistently with .attributes).*)
(*                                                                         *)
(* Deviations of the unchanged tree found by this check (clause:tag), all   *)
(* repaired by fixes/C20-attribute-walkers.patch:                           *)
(*   subsections.flat:n>=2, subsections.interleaved:n>=2 - _make_subsections *)
(*     seeks to the FIRST record's start + this record's length and takes    *)
(*     the next start from stream.tell(); only nested-full consumption puts  *)
(*     the shared stream where the walk needs it (equal lengths: endless).   *)
(*   subsubsections.flat:n>=2, subsubsections.interleaved:n>=2 - the same in *)
(*     _make_subsubsections.                                                 *)
(*   attributes.interleaved:n>=2 - _make_attributes steers by stream.tell(): *)
(*     a suspended iterator resumed after another one ran stops early.       *)
(***************************************************************************)
EXTENDS Elf, TLC, Json, CSV, IOUtils

CONSTANTS Modes,         \* subset of {"tags", "numbers", "lists", "shape"}
          MaxAttrs,      \* "lists": attributes per sub-subsection
          MaxSubsub,     \* "shape": sub-subsections per subsection (two-subsection sections)
          MaxSubsub1,    \* "shape": sub-subsections in a single-subsection section
          SessEnvs,      \* client sessions: on "shape" objects of these environments ...
          SessMaxSubs,   \* ... with at most this many subsections (0: no sessions)
          SessMaxTotal,  \* ... and at most this many sub-subsections in all
          MaxCalls,      \* length of the "free" sessions (population: FreeOK)
          FreeEnvs,      \* ... in these environments
          FreeMaxSubsub  \* "free" sessions on sub-subsection objects: only when the subsection has at most this many of them

VARIABLES Mode, env, obj, phase, bytes, decl, rd,
          sess           \* client session: [tgt (the object addressed), disc, log of answered calls, it (items the open iterator has yielded; -1: none)]
vars == <<Mode, env, obj, phase, bytes, decl, rd, sess>>
AllModes == {"tags", "numbers", "lists", "shape"}
NoSess == [tgt |-> <<0, 0, 0>>, disc |-> "none", log |-> <<>>, it |-> -1]

(* ----------------------------- tag tables ------------------------------ *)
\* ABI addenda 3.3, table "Public aeabi attribute tags": parameter type per tag
ArmNtbs == {4, 5, 67}                      \* Tag_CPU_raw_name, Tag_CPU_name, Tag_conformance
ArmUleb == (6..31) \cup {34, 36, 38, 42, 44, 46, 48, 50, 52, 64, 66, 68, 70, 72, 74, 76}
ArmTagSet == ArmNtbs \cup ArmUleb \cup {32, 65}
\* RISC-V psABI, table "RISC-V attributes"
RvUleb == {4, 6, 8, 10, 12, 14, 16}
RvTagSet == RvUleb \cup {5}                \* Tag_RISCV_arch is the only NTBS

KindOf(table, tag) ==
  IF table = "arm"
  THEN CASE tag \in ArmNtbs -> "ntbs" [] tag = 32 -> "compat" [] tag = 65 -> "also" [] OTHER -> "uleb"
  ELSE IF tag = 5 THEN "ntbs" ELSE "uleb"

\* the standards' names (upper-cased; former names of renamed tags are aliases)
ArmNames == TLCEval(
  4 :> {"TAG_CPU_RAW_NAME"} @@ 5 :> {"TAG_CPU_NAME"} @@ 6 :> {"TAG_CPU_ARCH"} @@ 7 :> {"TAG_CPU_ARCH_PROFILE"} @@
  8 :> {"TAG_ARM_ISA_USE"} @@ 9 :> {"TAG_THUMB_ISA_USE"} @@ 10 :> {"TAG_FP_ARCH", "TAG_VFP_ARCH"} @@
  11 :> {"TAG_WMMX_ARCH"} @@ 12 :> {"TAG_ADVANCED_SIMD_ARCH"} @@ 13 :> {"TAG_PCS_CONFIG"} @@
  14 :> {"TAG_ABI_PCS_R9_USE"} @@ 15 :> {"TAG_ABI_PCS_RW_DATA"} @@ 16 :> {"TAG_ABI_PCS_RO_DATA"} @@
  17 :> {"TAG_ABI_PCS_GOT_USE"} @@ 18 :> {"TAG_ABI_PCS_WCHAR_T"} @@ 19 :> {"TAG_ABI_FP_ROUNDING"} @@
  20 :> {"TAG_ABI_FP_DENORMAL"} @@ 21 :> {"TAG_ABI_FP_EXCEPTIONS"} @@ 22 :> {"TAG_ABI_FP_USER_EXCEPTIONS"} @@
  23 :> {"TAG_ABI_FP_NUMBER_MODEL"} @@ 24 :> {"TAG_ABI_ALIGN_NEEDED", "TAG_ABI_ALIGN8_NEEDED"} @@
  25 :> {"TAG_ABI_ALIGN_PRESERVED", "TAG_ABI_ALIGN8_PRESERVED"} @@ 26 :> {"TAG_ABI_ENUM_SIZE"} @@
  27 :> {"TAG_ABI_HARDFP_USE"} @@ 28 :> {"TAG_ABI_VFP_ARGS"} @@ 29 :> {"TAG_ABI_WMMX_ARGS"} @@
  30 :> {"TAG_ABI_OPTIMIZATION_GOALS"} @@ 31 :> {"TAG_ABI_FP_OPTIMIZATION_GOALS"} @@ 32 :> {"TAG_COMPATIBILITY"} @@
  34 :> {"TAG_CPU_UNALIGNED_ACCESS"} @@ 36 :> {"TAG_FP_HP_EXTENSION", "TAG_VFP_HP_EXTENSION"} @@
  38 :> {"TAG_ABI_FP_16BIT_FORMAT"} @@ 42 :> {"TAG_MPEXTENSION_USE"} @@ 44 :> {"TAG_DIV_USE"} @@
  46 :> {"TAG_DSP_EXTENSION"} @@ 48 :> {"TAG_MVE_ARCH"} @@ 50 :> {"TAG_PAC_EXTENSION"} @@ 52 :> {"TAG_BTI_EXTENSION"} @@
  64 :> {"TAG_NODEFAULTS"} @@ 65 :> {"TAG_ALSO_COMPATIBLE_WITH"} @@ 66 :> {"TAG_T2EE_USE"} @@ 67 :> {"TAG_CONFORMANCE"} @@
  68 :> {"TAG_VIRTUALIZATION_USE"} @@ 70 :> {"TAG_MPEXTENSION_USE", "TAG_MPEXTENSION_USE_OLD", "TAG_MPEXTENSION_USE_LEGACY"} @@
  72 :> {"TAG_FRAMEPOINTER_USE"} @@ 74 :> {"TAG_BTI_USE"} @@ 76 :> {"TAG_PACRET_USE"})
RvNames == TLCEval(
  4 :> {"TAG_RISCV_STACK_ALIGN", "TAG_STACK_ALIGN"} @@ 5 :> {"TAG_RISCV_ARCH", "TAG_ARCH"} @@
  6 :> {"TAG_RISCV_UNALIGNED_ACCESS", "TAG_UNALIGNED_ACCESS"} @@ 8 :> {"TAG_RISCV_PRIV_SPEC", "TAG_PRIV_SPEC"} @@
  10 :> {"TAG_RISCV_PRIV_SPEC_MINOR", "TAG_PRIV_SPEC_MINOR"} @@ 12 :> {"TAG_RISCV_PRIV_SPEC_REVISION", "TAG_PRIV_SPEC_REVISION"} @@
  14 :> {"TAG_RISCV_ATOMIC_ABI", "TAG_ATOMIC_ABI"} @@ 16 :> {"TAG_RISCV_X3_REG_USAGE", "TAG_X3_REG_USAGE"})
NamesOf(table, tag) == IF table = "arm" THEN ArmNames[tag] ELSE RvNames[tag]
ScopeNames == <<{"TAG_FILE"}, {"TAG_SECTION"}, {"TAG_SYMBOL"}>>

(* --------------------------- abstract objects -------------------------- *)
\* numbers are kept as LEB128 group strings (7-bit groups, little end first, possibly non-minimal)
AU(tag, g) == [tag |-> tag, kind |-> "uleb", g |-> g, s |-> <<>>, sub |-> <<>>]
AS(tag, s) == [tag |-> tag, kind |-> "ntbs", g |-> <<>>, s |-> s, sub |-> <<>>]
AC(tag, g, s) == [tag |-> tag, kind |-> "compat", g |-> g, s |-> s, sub |-> <<>>]
AN(tag, inner) == [tag |-> tag, kind |-> "also", g |-> <<>>, s |-> <<>>, sub |-> <<inner>>]
SubSub(scope, numbers, attrs) == [scope |-> scope, numbers |-> numbers, attrs |-> attrs]
SubSec(vendor, subsubs) == [vendor |-> vendor, subsubs |-> subsubs]

WellFormedAttr(table, a) ==
  /\ a.kind = KindOf(table, a.tag)
  /\ a.tag \in (IF table = "arm" THEN ArmTagSet ELSE RvTagSet)
  /\ (a.kind = "also" => /\ a.sub[1].kind \in {"uleb", "ntbs"} /\ a.sub[1].kind = KindOf(table, a.sub[1].tag)
                         /\ a.sub[1].tag \in ArmTagSet
                         /\ \A i \in 1..Len(a.sub[1].s) : a.sub[1].s[i] # 0)
WellFormed(table, o) ==
  /\ Len(o) >= 1
  /\ \A i \in 1..Len(o) :
       /\ Len(o[i].subsubs) >= 1 /\ \A k \in 1..Len(o[i].vendor) : o[i].vendor[k] # 0
       /\ \A j \in 1..Len(o[i].subsubs) :
            LET ss == o[i].subsubs[j] IN
            /\ ss.scope \in 1..3 /\ (ss.scope = 1 => ss.numbers = <<>>)
            /\ \A k \in 1..Len(ss.numbers) : \E x \in 1..Len(ss.numbers[k]) : ss.numbers[k][x] # 0     \* numbers are non-zero
            /\ \A k \in 1..Len(ss.attrs) : WellFormedAttr(table, ss.attrs[k])

(* ------------------------------ (B) Enc -------------------------------- *)
Leb(g) == LebOfGroups(g)
RECURSIVE EncAttr(_)
EncAttr(a) ==
  UlebOfNat(a.tag) \o
  (CASE a.kind = "uleb" -> Leb(a.g)
     [] a.kind = "ntbs" -> a.s \o <<0>>
     [] a.kind = "compat" -> Leb(a.g) \o a.s \o <<0>>
     [] a.kind = "also" -> EncAttr(a.sub[1]) \o (IF a.sub[1].kind = "uleb" THEN <<0>> ELSE <<>>))
NumList(ns) == Flat([i \in 1..Len(ns) |-> Leb(ns[i])]) \o <<0>>
SubsubBody(ss) == (IF ss.scope = 1 THEN <<>> ELSE NumList(ss.numbers)) \o Flat([k \in 1..Len(ss.attrs) |-> EncAttr(ss.attrs[k])])
SubsubSize(ss) == 1 + 4 + Len(SubsubBody(ss))                    \* the size counts the tag and itself
EncSubsub(ss, le) == <<ss.scope>> \o Fix(N(SubsubSize(ss)), 4, le) \o SubsubBody(ss)
SubBody(s, le) == s.vendor \o <<0>> \o Flat([j \in 1..Len(s.subsubs) |-> EncSubsub(s.subsubs[j], le)])
SubLen(s, le) == 4 + Len(SubBody(s, le))                          \* the length counts itself
EncSub(s, le) == Fix(N(SubLen(s, le)), 4, le) \o SubBody(s, le)
Enc(o, le) == <<65>> \o Flat([i \in 1..Len(o) |-> EncSub(o[i], le)])

\* the records the writer declares, in walk order: <<level, start offset in the section, length>>
RECURSIVE DeclAttrs(_, _), DeclSubsubs(_, _), DeclSubs(_, _, _)
DeclAttrs(as, at) == IF as = <<>> THEN <<>>
                     ELSE <<<<3, at, Len(EncAttr(Head(as)))>>>> \o DeclAttrs(Tail(as), at + Len(EncAttr(Head(as))))
DeclSubsubs(sss, at) ==
  IF sss = <<>> THEN <<>>
  ELSE LET ss == Head(sss)
           hd == 5 + (IF ss.scope = 1 THEN 0 ELSE Len(NumList(ss.numbers)))
       IN <<<<2, at, SubsubSize(ss)>>>> \o DeclAttrs(ss.attrs, at + hd) \o DeclSubsubs(Tail(sss), at + SubsubSize(ss))
DeclSubs(o, at, le) ==
  IF o = <<>> THEN <<>>
  ELSE LET s == Head(o) IN
       <<<<1, at, SubLen(s, le)>>>> \o DeclSubsubs(s.subsubs, at + 4 + Len(s.vendor) + 1) \o DeclSubs(Tail(o), at + SubLen(s, le), le)
Declared(o, le) == DeclSubs(o, 1, le)

(* ------------------------------- view ---------------------------------- *)
\* value of a group string as little-endian base-256 digits (any length)
GBit(g, i) == IF (i \div 7) + 1 > Len(g) THEN 0 ELSE (g[(i \div 7) + 1] \div Pow(2, (i % 7))) % 2
GroupsDigits(g) ==
  [k \in 1..((7 * Len(g) + 7) \div 8) |->
     LET b(j) == GBit(g, 8 * (k - 1) + j) IN
     b(0) + 2 * b(1) + 4 * b(2) + 8 * b(3) + 16 * b(4) + 32 * b(5) + 64 * b(6) + 128 * b(7)]
Num(g) == W(GroupsDigits(g))

RECURSIVE AttrView(_, _)
AttrView(table, a) ==
  [tag |-> a.tag, names |-> NamesOf(table, a.tag), kind |-> a.kind, u |-> Num(a.g), s |-> a.s,
   sub |-> IF a.sub = <<>> THEN <<>> ELSE <<AttrView(table, a.sub[1])>>]
AttrsView(table, o, le) ==
  [i \in 1..Len(o) |->
     [vendor |-> o[i].vendor, length |-> SubLen(o[i], le),
      subsubs |-> [j \in 1..Len(o[i].subsubs) |->
                     LET ss == o[i].subsubs[j] IN
                     [scope |-> ss.scope, names |-> ScopeNames[ss.scope], size |-> SubsubSize(ss),
                      numbers |-> [k \in 1..Len(ss.numbers) |-> Num(ss.numbers[k])],
                      attrs |-> [k \in 1..Len(ss.attrs) |-> AttrView(table, ss.attrs[k])]]]]]

(* --------------------------- (C) the reader ---------------------------- *)
\* primitive reads at a 0-based offset p of the section bytes
U32At(bs, p, le) == NatOf(IF le THEN Slice(bs, p + 1, 4) ELSE Rev(Slice(bs, p + 1, 4)))
LebAt(bs, p) == LebDec(SubSeq(bs, p + 1, Min({Len(bs), p + 12})), FALSE)
RECURSIVE NumsAt(_, _)
NumsAt(bs, p) == LET v == LebAt(bs, p) IN          \* uleb128* 0
  IF \A i \in 1..Len(v.val.g) : v.val.g[i] = 0 THEN [ns |-> <<>>, used |-> v.used]
  ELSE LET r == NumsAt(bs, p + v.used) IN [ns |-> <<v.val.g>> \o r.ns, used |-> v.used + r.used]
RECURSIVE AttrAt(_, _, _)
AttrAt(table, bs, p) ==
  LET t == LebAt(bs, p)
      tag == GroupsNat(t.val.g)
      q == p + t.used
      k == KindOf(table, tag)
  IN CASE k = "uleb" -> LET v == LebAt(bs, q) IN [a |-> AU(tag, v.val.g), used |-> t.used + v.used]
       [] k = "ntbs" -> LET c == CStrAt(bs, q) IN [a |-> AS(tag, c.s), used |-> t.used + c.used]
       [] k = "compat" -> LET v == LebAt(bs, q)   c == CStrAt(bs, q + v.used) IN
                          [a |-> AC(tag, v.val.g, c.s), used |-> t.used + v.used + c.used]
       [] k = "also" -> LET n == AttrAt(table, bs, q) IN
                        [a |-> AN(tag, n.a), used |-> t.used + n.used + (IF n.a.kind = "uleb" THEN 1 ELSE 0)]

\* walker state: level being iterated, one cursor and one end per level, what was decoded, what was visited
Rd0 == [lvl |-> 1, p1 |-> 1, p2 |-> 0, e2 |-> 0, p3 |-> 0, e3 |-> 0, out |-> <<>>, log |-> <<>>, closed |-> 0]
End1 == Len(bytes)
AppendSubsub(out, ss) == [out EXCEPT ![Len(out)].subsubs = Append(@, ss)]
AppendAttr(out, a) == [out EXCEPT ![Len(out)].subsubs = [@ EXCEPT ![Len(@)].attrs = Append(@, a)]]

\* subsection loop: one record per iteration; the next record starts at this record's start + its length
WalkSubsection ==
  /\ phase = "walk" /\ rd.lvl = 1 /\ rd.p1 # End1
  /\ LET L == U32At(bytes, rd.p1, env.le)
         v == CStrAt(bytes, rd.p1 + 4)
     IN rd' = [rd EXCEPT !.lvl = 2, !.p2 = rd.p1 + 4 + v.used, !.e2 = rd.p1 + L,
                         !.out = Append(@, SubSec(v.s, <<>>)), !.log = Append(@, <<1, rd.p1, L>>)]
  /\ UNCHANGED <<Mode, env, obj, phase, bytes, decl, sess>>
EndSection ==
  /\ phase = "walk" /\ rd.lvl = 1 /\ rd.p1 = End1
  /\ phase' = "done"
  /\ UNCHANGED <<Mode, env, obj, bytes, decl, rd, sess>>
\* sub-subsection loop of the current subsection
WalkSubsubsection ==
  /\ phase = "walk" /\ rd.lvl = 2 /\ rd.p2 # rd.e2
  /\ LET t == LebAt(bytes, rd.p2)
         scope == GroupsNat(t.val.g)
         size == U32At(bytes, rd.p2 + t.used, env.le)
         hd == rd.p2 + t.used + 4
         ns == IF scope = 1 THEN [ns |-> <<>>, used |-> 0] ELSE NumsAt(bytes, hd)
     IN rd' = [rd EXCEPT !.lvl = 3, !.p3 = hd + ns.used, !.e3 = rd.p2 + size,
                         !.out = AppendSubsub(@, SubSub(scope, ns.ns, <<>>)), !.log = Append(@, <<2, rd.p2, size>>)]
  /\ UNCHANGED <<Mode, env, obj, phase, bytes, decl, sess>>
EndSubsection ==
  /\ phase = "walk" /\ rd.lvl = 2 /\ rd.p2 = rd.e2
  /\ rd' = [rd EXCEPT !.lvl = 1, !.p1 = rd.e2, !.closed = @ + 1]            \* e2 = start of this subsection + its length
  /\ UNCHANGED <<Mode, env, obj, phase, bytes, decl, sess>>
\* attribute loop of the current sub-subsection
WalkAttribute ==
  /\ phase = "walk" /\ rd.lvl = 3 /\ rd.p3 # rd.e3
  /\ LET r == AttrAt(env.table, bytes, rd.p3) IN
     rd' = [rd EXCEPT !.p3 = @ + r.used, !.out = AppendAttr(@, r.a), !.log = Append(@, <<3, rd.p3, r.used>>)]
  /\ UNCHANGED <<Mode, env, obj, phase, bytes, decl, sess>>
EndSubsubsection ==
  /\ phase = "walk" /\ rd.lvl = 3 /\ rd.p3 = rd.e3
  /\ rd' = [rd EXCEPT !.lvl = 2, !.p2 = rd.e3, !.closed = @ + 1]            \* e3 = start of this sub-subsection + its size
  /\ UNCHANGED <<Mode, env, obj, phase, bytes, decl, sess>>

(* ---------------------------- (B) the writer --------------------------- *)
Str(s) == s
Aeabi == <<97, 101, 97, 98, 105>>
Gnu == <<103, 110, 117>>
Riscv == <<114, 105, 115, 99, 118>>
Vx == <<120>>
\* a private vendor name with a two-byte UTF-8 letter ("x" + U+00E9): substituted for Vx by C20's own cfgs (the name is an NTBS, lengths count bytes)
VxAccent == <<120, 195, 169>>
Arm7 == <<65, 82, 77, 55, 84, 68, 77, 73, 45, 83>>          \* "ARM7TDMI-S"
Rv32i == <<114, 118, 51, 50, 105, 50, 112, 49>>               \* "rv32i2p1"
Utf == <<195, 169, 49>>                                       \* "e-acute 1" (UTF-8)
Vendor(table, i) == IF i = 1 THEN (IF table = "arm" THEN Aeabi ELSE Riscv) ELSE IF i = 2 THEN Gnu ELSE Vx

Envs == {[table |-> "arm", cls |-> 32, le |-> TRUE], [table |-> "arm", cls |-> 32, le |-> FALSE],
         [table |-> "riscv", cls |-> 64, le |-> TRUE], [table |-> "riscv", cls |-> 32, le |-> FALSE]}
EnvsAll == Envs \cup {[table |-> "riscv", cls |-> 32, le |-> TRUE], [table |-> "riscv", cls |-> 64, le |-> FALSE]}

\* value classes: 1-, 2-, 3-, 5-, 10-group encodings, boundaries, non-minimal forms
UVals == {<<0>>, <<1>>, <<127>>, <<0, 1>>, <<127, 127>>, <<0, 0, 1>>, <<127, 127, 127, 127, 15>>, <<0, 0, 0, 0, 16>>,
          <<1, 0>>, <<0, 0>>, <<127, 127, 127, 127, 127, 127, 127, 127, 127, 1>>}
SVals(table) == {<<>>, <<97>>, IF table = "arm" THEN Arm7 ELSE Rv32i, Utf}
\* nested (tag, value) pairs of Tag_also_compatible_with: integer-valued tags x {0, small, 1-group maximum, 2-group,
\* non-minimal forms whose last byte is 0x00 (value 1 as 0x81 0x00, value 0 as 0x80 0x00)}, every NTBS-valued tag x strings
NestedUlebTags == {6, 7, 10, 34, 68}
NestedUVals == {<<0>>, <<1>>, <<14>>, <<127>>, <<2, 1>>, <<0, 1>>, <<1, 0>>, <<0, 0>>}
Sentinel(table) == IF table = "arm" THEN AU(6, <<9>>) ELSE AU(4, <<16>>)
SweepAttrs(table) ==
  IF table = "arm"
  THEN {AU(t, g) : t \in ArmUleb, g \in UVals} \cup {AS(t, s) : t \in ArmNtbs, s \in SVals(table)}
       \cup {AC(32, g, s) : g \in {<<0>>, <<1>>, <<0, 1>>, <<1, 0>>}, s \in {<<>>, Gnu}}
       \cup {AN(65, AU(t, g)) : t \in NestedUlebTags, g \in NestedUVals} \cup {AN(65, AU(7, <<65>>))}
       \cup {AN(65, AS(t, s)) : t \in ArmNtbs, s \in SVals(table)}
  ELSE {AU(t, g) : t \in RvUleb, g \in UVals} \cup {AS(5, s) : s \in SVals(table)}
NumLists == {<<>>, <<<<1>>>>, <<<<127>>>>, <<<<0, 1>>>>, <<<<1>>, <<2>>, <<3>>>>, <<<<0, 0, 1>>, <<1>>>>,
             <<<<0, 0, 0, 0, 0, 1>>>>, <<<<1, 0>>, <<44, 2>>>>}
DefaultNums(scope) == IF scope = 1 THEN <<>> ELSE IF scope = 2 THEN <<<<1>>>> ELSE <<<<5>>, <<44, 2>>>>
ListAlphabet(table) ==
  IF table = "arm"
  THEN {AU(6, <<10>>), AU(34, <<0, 1>>), AS(5, <<97>>), AS(67, <<>>), AC(32, <<1>>, Gnu), AN(65, AU(6, <<2>>)),
        AN(65, AS(5, <<98>>)), AU(64, <<0>>), AN(65, AU(6, <<0>>))}
  ELSE {AU(4, <<16>>), AS(5, Rv32i), AU(6, <<1>>), AU(16, <<0, 1>>)}
\* "shape": whole sub-subsections of different sizes
ShapeVariant(table, v) ==
  CASE v = 1 -> SubSub(1, <<>>, <<>>)
    [] v = 2 -> SubSub(2, <<<<1>>>>, <<AS(5, <<97, 98>>)>>)
    [] v = 3 -> SubSub(3, <<<<5>>, <<44, 2>>>>, IF table = "arm" THEN <<AC(32, <<1>>, Gnu), AN(65, AU(6, <<0>>)), AN(65, AS(5, <<>>)),
                                                                            AN(65, AU(6, <<2>>))>>
                                                 ELSE <<AU(4, <<16>>), AS(5, Rv32i), AU(6, <<1>>)>>)
    [] v = 4 -> SubSub(1, <<>>, <<Sentinel(table)>>)
Light(s) == Len(s.subsubs) <= 2 /\ \A j \in 1..Len(s.subsubs) : s.subsubs[j].scope # 3

One(table, ss) == <<SubSec(Vendor(table, 1), <<ss>>)>>
Init ==
  /\ Mode \in Modes /\ rd = Rd0 /\ sess = NoSess
  /\ CASE Mode = "tags" ->
            \E e \in EnvsAll : \E a \in SweepAttrs(e.table) :
               /\ env = e /\ obj = One(e.table, SubSub(1, <<>>, <<a, Sentinel(e.table)>>)) /\ phase = "walk"
       [] Mode = "numbers" ->
            \E e \in Envs, sc \in {2, 3}, ns \in NumLists :
               /\ env = e /\ obj = One(e.table, SubSub(sc, ns, <<Sentinel(e.table)>>)) /\ phase = "walk"
       [] Mode = "lists" ->
            \E e \in Envs, sc \in 1..3 : /\ env = e /\ obj = One(e.table, SubSub(sc, DefaultNums(sc), <<>>)) /\ phase = "build"
       [] Mode = "shape" ->
            \E e \in Envs : /\ env = e /\ obj = <<>> /\ phase = "build"
  /\ bytes = (IF phase = "walk" THEN Enc(obj, env.le) ELSE <<>>)
  /\ decl = (IF phase = "walk" THEN Declared(obj, env.le) ELSE <<>>)

NewSubsection ==
  /\ phase = "build" /\ Mode = "shape" /\ Len(obj) < 3
  /\ (Len(obj) >= 1 => Len(obj[Len(obj)].subsubs) >= 1)
  /\ (Len(obj) = 1 => Len(obj[1].subsubs) <= MaxSubsub)
  /\ (Len(obj) = 2 => Light(obj[1]) /\ Light(obj[2]))                  \* three subsections: light ones only (bounds the product)
  /\ obj' = Append(obj, SubSec(Vendor(env.table, Len(obj) + 1), <<>>))
  /\ UNCHANGED <<Mode, env, phase, bytes, decl, rd, sess>>
NewSubsubsection(v) ==
  /\ phase = "build" /\ Mode = "shape" /\ Len(obj) >= 1
  /\ Len(obj[Len(obj)].subsubs) < (IF Len(obj) = 1 THEN MaxSubsub1 ELSE IF Len(obj) = 2 THEN MaxSubsub ELSE 2)
  /\ (Len(obj) = 3 => v # 3)
  /\ (v = 4 => Len(obj) = 1)
  /\ obj' = [obj EXCEPT ![Len(obj)].subsubs = Append(@, ShapeVariant(env.table, v))]
  /\ UNCHANGED <<Mode, env, phase, bytes, decl, rd, sess>>
AddAttribute(a) ==
  /\ phase = "build" /\ Mode = "lists" /\ Len(obj[1].subsubs[1].attrs) < MaxAttrs
  /\ obj' = [obj EXCEPT ![1].subsubs[1].attrs = Append(@, a)]
  /\ UNCHANGED <<Mode, env, phase, bytes, decl, rd, sess>>
Finish ==
  /\ phase = "build" /\ Len(obj) >= 1 /\ Len(obj[Len(obj)].subsubs) >= 1
  /\ phase' = "walk"
  /\ bytes' = Enc(obj, env.le)
  /\ decl' = Declared(obj, env.le)
  /\ UNCHANGED <<Mode, env, obj, rd, sess>>

(* --------------------------- client sessions --------------------------- *)
\* the object a session addresses: <<1, 0, 0>> the section, <<2, i, 0>> subsection i, <<3, i, j>> sub-subsection j of subsection i
KidsIn(o, t) == CASE t[1] = 1 -> o [] t[1] = 2 -> o[t[2]].subsubs [] t[1] = 3 -> o[t[2]].subsubs[t[3]].attrs
Kids(t) == KidsIn(obj, t)
\* the key an iteration can be filtered by: vendor name / scope / tag
KeyIn(o, t, k) == LET c == KidsIn(o, t)[k] IN CASE t[1] = 1 -> c.vendor [] t[1] = 2 -> <<c.scope>> [] t[1] = 3 -> <<c.tag>>
Targets == {<<1, 0, 0>>} \cup {<<2, i, 0>> : i \in 1..Len(obj)}
           \cup UNION {{<<3, i, j>> : j \in 1..Len(obj[i].subsubs)} : i \in 1..Len(obj)}
Upto(n) == [k \in 1..n |-> k]
MatchingIn(o, t, p) == IF p = 0 THEN <<>> ELSE SelectSeq(Upto(Len(KidsIn(o, t))), LAMBDA k : KeyIn(o, t, k) = KeyIn(o, t, p))
\* the first child of each key
FiltPos(t) == {p \in 1..Len(Kids(t)) : \A k \in 1..(p - 1) : KeyIn(obj, t, k) # KeyIn(obj, t, p)}
RECURSIVE AscSeq(_)
AscSeq(S) == IF S = {} THEN <<>> ELSE LET m == Min(S) IN <<m>> \o AscSeq(S \ {m})
Letter(op, q) == [op |-> op, q |-> q]
Call(op, q, a) == [op |-> op, q |-> q, a |-> a]
\* the answer the property fixes: the positions (among the target's children, in order) of what the call yields; num: the count
AnswerIn(o, t, l, it) ==
  LET n == Len(KidsIn(o, t)) IN
  CASE l.op = "take" -> Upto(Min({l.q, n}))
    [] l.op \in {"all", "list"} -> Upto(n)
    [] l.op = "num" -> <<n>>
    [] l.op = "filt" -> MatchingIn(o, t, l.q)
    [] l.op = "ftake" -> LET m == MatchingIn(o, t, l.q) IN IF m = <<>> THEN <<>> ELSE <<m[1]>>
    [] l.op = "open" -> <<>>
    [] l.op = "step" -> IF it < n THEN <<it + 1>> ELSE <<>>
NextIt(t, l, it) == CASE l.op = "open" -> 0 [] l.op = "step" -> (IF it < Len(Kids(t)) THEN it + 1 ELSE it) [] OTHER -> it
FreeLetters(t, it) ==
  {Letter("take", k) : k \in {1, 2}} \cup {Letter(o, 0) : o \in {"all", "num", "list", "open"}}
  \cup {Letter("filt", p) : p \in FiltPos(t)} \cup {Letter("ftake", p) : p \in FiltPos(t)}
  \cup (IF it >= 0 THEN {Letter("step", 0)} ELSE {})
Script(t, disc) ==
  LET n == Len(Kids(t))   fp == AscSeq(FiltPos(t))
      steps(m) == [i \in 1..m |-> Letter("step", 0)]
  IN CASE disc = "sweep" ->
            <<Letter("open", 0), Letter("take", 1), Letter("step", 0), Letter("num", 0), Letter("take", 0), Letter("list", 0)>>
            \o Flat([i \in 1..Len(fp) |-> <<Letter("ftake", fp[i]), Letter("filt", fp[i])>>])
            \o <<Letter("filt", 0), Letter("take", n), Letter("all", 0)>> \o steps(n) \o <<Letter("num", 0)>>
       [] disc = "probe" ->
            (IF fp = <<>> THEN <<>> ELSE <<Letter("ftake", fp[Len(fp)])>>)
            \o <<Letter("all", 0), Letter("take", 2), Letter("list", 0), Letter("open", 0), Letter("take", 1), Letter("num", 0)>>
            \o steps(n + 1)
            \o Flat([i \in 1..Len(fp) |-> <<Letter("filt", fp[Len(fp) + 1 - i])>>]) \o <<Letter("all", 0)>>
RECURSIVE SumLens(_)
SumLens(o) == IF o = <<>> THEN 0 ELSE Len(Head(o).subsubs) + SumLens(Tail(o))
SessOK(t) == Mode = "shape" /\ env \in SessEnvs /\ Len(obj) <= SessMaxSubs /\ SumLens(obj) <= SessMaxTotal
\* "free" sessions: the section of two-subsection objects with one sub-subsection each; the subsection of single-subsection
\* objects; their sub-subsections when there are at most FreeMaxSubsub
FreeOK(t) == /\ Mode = "shape" /\ MaxCalls > 0 /\ env \in FreeEnvs
             /\ CASE t[1] = 1 -> Len(obj) = 2 /\ \A i \in 1..2 : Len(obj[i].subsubs) = 1
                  [] t[1] = 2 -> Len(obj) = 1
                  [] t[1] = 3 -> Len(obj) = 1 /\ Len(obj[1].subsubs) <= FreeMaxSubsub
StartSession(t, disc) ==
  /\ phase = "done" /\ (IF disc = "free" THEN FreeOK(t) ELSE SessOK(t))
  /\ sess' = [tgt |-> t, disc |-> disc, log |-> <<>>, it |-> -1]
  /\ phase' = "sess" /\ UNCHANGED <<Mode, env, obj, bytes, decl, rd>>
SessLen == IF sess.disc = "free" THEN MaxCalls ELSE Len(Script(sess.tgt, sess.disc))
ClientCall ==
  /\ phase = "sess" /\ Len(sess.log) < SessLen
  /\ \E l \in (IF sess.disc = "free" THEN FreeLetters(sess.tgt, sess.it) ELSE {Script(sess.tgt, sess.disc)[Len(sess.log) + 1]}) :
       sess' = [sess EXCEPT !.log = Append(@, Call(l.op, l.q, AnswerIn(obj, sess.tgt, l, sess.it))), !.it = NextIt(sess.tgt, l, sess.it)]
  /\ UNCHANGED <<Mode, env, obj, phase, bytes, decl, rd>>
SessNext == (\E t \in Targets, disc \in {"free", "sweep", "probe"} : StartSession(t, disc)) \/ ClientCall

Next ==
  \/ SessNext
  \/ NewSubsection \/ (\E v \in 1..4 : NewSubsubsection(v)) \/ (\E a \in ListAlphabet(env.table) : AddAttribute(a)) \/ Finish
  \/ WalkSubsection \/ WalkSubsubsection \/ WalkAttribute \/ EndSubsubsection \/ EndSubsection \/ EndSection
Spec == Init /\ [][Next]_vars

(* ------------------------- the ELF container --------------------------- *)
DotText == <<46, 116, 101, 120, 116>>
DotData == <<46, 100, 97, 116, 97>>
DotArmAttr == <<46, 65, 82, 77, 46, 97, 116, 116, 114, 105, 98, 117, 116, 101, 115>>               \* ".ARM.attributes"
DotRvAttr == <<46, 114, 105, 115, 99, 118, 46, 97, 116, 116, 114, 105, 98, 117, 116, 101, 115>>    \* ".riscv.attributes"
SecName(table) == IF table = "arm" THEN DotArmAttr ELSE DotRvAttr
\* AAELF32 / RISC-V psABI: SHT_ARM_ATTRIBUTES = SHT_RISCV_ATTRIBUTES = 0x70000003; EM_ARM = 40, EM_RISCV = 243
AttrImage(e, data) ==
  [Im0 EXCEPT !.cls = e.cls, !.le = e.le, !.machine = (IF e.table = "arm" THEN 40 ELSE 243),
              !.secs = << Sec(DotText, N(1), N(6), N(4096), <<0, 0, 160, 225, 30, 255, 47, 225>>, N(8), Z, Z, N(4), Z),
                          Sec(SecName(e.table), W(<<3, 0, 0, 112>>), Z, Z, data, N(Len(data)), Z, Z, N(1), Z),
                          Sec(DotData, N(1), N(3), N(8192), <<65, 4, 0, 0, 0, 255, 255>>, N(7), Z, Z, N(1), Z) >>]

(* ------------------------------ emission ------------------------------- *)
Shape(o) == [i \in 1..Len(o) |-> [j \in 1..Len(o[i].subsubs) |-> Len(o[i].subsubs[j].attrs)]]
\* identity of a "shape" object (its sessions are lines of their own): environment + variant of every sub-subsection
VariantOf(ss) == IF \E v \in 1..4 : ShapeVariant(env.table, v) = ss THEN CHOOSE v \in 1..4 : ShapeVariant(env.table, v) = ss ELSE 0
ObjKey == IF Mode = "shape" THEN ToString(<<env.table, env.cls, env.le, [i \in 1..Len(obj) |-> [j \in 1..Len(obj[i].subsubs) |-> VariantOf(obj[i].subsubs[j])]]>>)
          ELSE ""
SessLine == [t |-> "sess", key |-> ObjKey, tgt |-> sess.tgt, disc |-> sess.disc,
             log |-> [i \in 1..Len(sess.log) |-> <<sess.log[i].op, sess.log[i].q, sess.log[i].a>>]]
Emit ==
  /\ phase = "done" =>
       CSVWrite("%1$s", <<ToJson([t |-> "case", key |-> ObjKey, mode |-> Mode, table |-> env.table, cls |-> env.cls, le |-> env.le,
                                  secname |-> SecName(env.table), shape |-> Shape(obj), size |-> Len(bytes),
                                  chunks |-> Chunks(AttrImage(env, bytes)),
                                  view |-> AttrsView(env.table, obj, env.le)])>>, IOEnv.OUT)
  /\ (phase = "sess" /\ Len(sess.log) = SessLen => CSVWrite("%1$s", <<ToJson(SessLine)>>, IOEnv.OUT))

(* --------------------------- (D) properties ---------------------------- *)
IsPrefix(a, b) == Len(a) <= Len(b) /\ \A i \in 1..Len(a) : a[i] = b[i]
Level(l, sq) == SelectSeq(sq, LAMBDA x : x[1] = l)
Visited(l) == phase \in {"walk", "done"} =>
                /\ IsPrefix(Level(l, rd.log), Level(l, decl))
                /\ (phase = "done" => Level(l, rd.log) = Level(l, decl))
EverySubsectionOnce == Visited(1)
EverySubsubsectionOnce == Visited(2)
EveryAttributeOnce == Visited(3)
\* the walk order itself (pre-order) is the declared one
WalkOrder == phase \in {"walk", "done"} => IsPrefix(rd.log, decl)
ExtentConsumed ==
  phase \in {"walk", "done"} =>
    /\ rd.p1 <= End1
    /\ (rd.lvl >= 2 => rd.p2 <= rd.e2 /\ rd.e2 <= End1)
    /\ (rd.lvl = 3 => rd.p3 <= rd.e3 /\ rd.e3 <= rd.e2)
    /\ \A i \in 1..Len(rd.log) : rd.log[i][3] > 0                      \* every step makes progress
    /\ (phase = "done" => /\ rd.p1 = End1
                          /\ rd.closed = Len(Level(1, decl)) + Len(Level(2, decl))     \* every extent was closed on its end
                          /\ LET subs == Level(1, decl) IN
                             \A i \in 1..Len(subs) : subs[i][2] + subs[i][3] = (IF i < Len(subs) THEN subs[i + 1][2] ELSE End1))
ReaderAgrees == phase = "done" => rd.out = obj
\* Tag_also_compatible_with is an NTBS around the nested pair: its record ends with the terminating NUL, the nested pair
\* fills exactly the bytes between the outer tag and that NUL (a nested NTBS value shares it), whatever the nested value is
AllAttrs(o) == UNION {UNION {{o[i].subsubs[j].attrs[k] : k \in 1..Len(o[i].subsubs[j].attrs)} : j \in 1..Len(o[i].subsubs)} : i \in 1..Len(o)}
AlsoTerminated ==
  phase = "done" =>
    \A a \in AllAttrs(obj) : a.kind = "also" =>
       LET e == EncAttr(a)
           t == Len(UlebOfNat(a.tag))
           r == AttrAt(env.table, e, t)                                    \* the nested pair, decoded by its tag's kind
       IN /\ e[Len(e)] = 0
          /\ r.a = a.sub[1]
          /\ t + r.used + (IF r.a.kind = "uleb" THEN 1 ELSE 0) = Len(e)
\* sessions.  The answer logged for the latest call is what the walker machine's reading of the bytes (rd.out: what it decoded
\* inside the target's extent) yields when asked afresh, whatever calls preceded it on the same object
SessionAnswers ==
  phase = "sess" /\ sess.log # <<>> =>
    LET c == sess.log[Len(sess.log)]   t == sess.tgt   n == Len(KidsIn(rd.out, t)) IN
    CASE c.op = "take" -> c.a = Upto(Min({c.q, n}))
      [] c.op \in {"all", "list"} -> c.a = Upto(n)
      [] c.op = "num" -> c.a = <<n>>
      \* sound and complete: exactly the children that carry the key of child q, in order
      [] c.op = "filt" -> /\ \A x \in 1..Len(c.a) : c.a[x] \in 1..n /\ KeyIn(rd.out, t, c.a[x]) = KeyIn(rd.out, t, c.q)
                          /\ \A x \in 1..(Len(c.a) - 1) : c.a[x] < c.a[x + 1]
                          /\ (c.q > 0 => \A k \in 1..n : KeyIn(rd.out, t, k) = KeyIn(rd.out, t, c.q) => \E x \in 1..Len(c.a) : c.a[x] = k)
                          /\ (c.q = 0 => c.a = <<>>)
      [] c.op = "ftake" -> c.a = <<Min({k \in 1..n : KeyIn(rd.out, t, k) = KeyIn(rd.out, t, c.q)})>>
      [] OTHER -> TRUE
\* equal calls have equal answers, wherever they stand in the session (step excepted: it is the one call with a memory)
AnswersHistoryFree ==
  phase = "sess" =>
    \A i, j \in 1..Len(sess.log) : (sess.log[i].op = sess.log[j].op /\ sess.log[i].q = sess.log[j].q /\ sess.log[i].op # "step")
                                     => sess.log[i].a = sess.log[j].a
\* the open iteration yields the children in order, each once, then stays exhausted - whatever is called in between
LastOpen(log) == Max({0} \cup {i \in 1..Len(log) : log[i].op = "open"})
SessIterInOrder ==
  phase = "sess" =>
    /\ (\A i \in 1..Len(sess.log) : sess.log[i].op = "step" => LastOpen(SubSeq(sess.log, 1, i)) > 0)
    /\ LET st == SelectSeq(SubSeq(sess.log, LastOpen(sess.log) + 1, Len(sess.log)), LAMBDA c : c.op = "step") IN
       \A i \in 1..Len(st) : st[i].a = (IF i <= Len(Kids(sess.tgt)) THEN <<i>> ELSE <<>>)
SessionFrame == [][phase = "sess" => phase' = "sess" /\ UNCHANGED <<Mode, env, obj, bytes, decl, rd>> /\ sess'.tgt = sess.tgt
                                     /\ Len(sess'.log) = Len(sess.log) + 1]_vars
SessEnvsQuick == {[table |-> "arm", cls |-> 32, le |-> TRUE], [table |-> "riscv", cls |-> 32, le |-> FALSE]}
SessEnvsOne == {[table |-> "arm", cls |-> 32, le |-> FALSE]}
Generated == phase \in {"walk", "done"} => WellFormed(env.table, obj) /\ bytes[1] = 65
\* the two tables cover exactly the tags the standards' tables list (kinds partition each table)
ASSUME /\ ArmTagSet = DOMAIN ArmNames /\ RvTagSet = DOMAIN RvNames
       /\ ArmNtbs \cap ArmUleb = {} /\ ~(32 \in ArmUleb \cup ArmNtbs) /\ ~(65 \in ArmUleb \cup ArmNtbs)
       /\ \A g \in UVals : Len(g) <= 4 => NatOf(GroupsDigits(g)) = GroupsNat(g)
=============================================================================
