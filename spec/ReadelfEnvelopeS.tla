-------------------------- MODULE ReadelfEnvelopeS --------------------------
(***************************************************************************)
(* C18, options -x (hex dump) and -p (string dump) of one section.         *)
(*                                                                         *)
(* The property names "hex and string dumps" among the supported options;  *)
(* the regression corpus dumps .text and .shstrtab only (sections that end *)
(* in a NUL / whose length the link editor rounded).  This module is the   *)
(* writer of the sections that are dumped:                                 *)
(*   strings : every byte string over Alphabet up to MaxLen bytes (NUL,    *)
(*             printable characters incl. the first and the last of ISO    *)
(*             646, space, control characters, DEL, a byte >= 0x80): ends   *)
(*             with / without NUL, empty strings, runs of NULs, the empty  *)
(*             section, one-byte sections;                                 *)
(*   hex     : sections of the lengths HexLens (0, 1, around the multiples *)
(*             of the 16 bytes a dump line holds; the longest ones contain *)
(*             every byte value) at the addresses HexAddrs (0, a multiple  *)
(*             of 16, not a multiple of 16, beyond 2^32 in ELF64) in every *)
(*             class / byte order, SHT_PROGBITS or SHT_NOBITS (no data to  *)
(*             dump), with / without a relocation section that applies to  *)
(*             it (both tools print a note then).                          *)
(* Every image is dumped under -x and -p, the section designated by name   *)
(* and by number.  The TEXT is GNU readelf's (see Envelope.tla); what is    *)
(* specified here is the STRUCTURE of the two dumps, as the manual of GNU  *)
(* readelf states it ("-x: displays the contents of the indicated section  *)
(* as a hexadecimal bytes", 16 to a line; "-p: displays the contents of    *)
(* the indicated section as printable strings"): a string starts at the    *)
(* first printable character after the section start / a NUL and runs to   *)
(* the next NUL or to the end of the section.  The scanner (actions Skip,  *)
(* Open, Take, Close, End - one step per byte, as the loop of a dumper)    *)
(* and the line cutter (HexLine) are checked against their declarative     *)
(* denotations by TLC:                                                     *)
(*   ScanIsDenotation, NothingPrintableDropped (every printable byte of    *)
(*   the section lies in exactly one reported string), StringsWellFormed   *)
(*   (ascending, disjoint, no NUL inside, first byte printable, only the   *)
(*   last string may lack its NUL and does so iff it ends the section),    *)
(*   HexTiles (the lines tile the section: 16 bytes each but the last).    *)
(* The structure gives the CLASS of a case (tag); the driver's envelope    *)
(* predicate is stated on it.  ImageCarries: the dumped section is found   *)
(* at index 1 under the name .vdump with the writer's bytes.               *)
(***************************************************************************)
EXTENDS Elf, Json, CSV, IOUtils

CONSTANTS Modes,        \* subset of {"strings", "hex"}
          Alphabet,     \* strings mode: the bytes the writer appends
          MaxLen,       \* strings mode: longest section
          HexLens,      \* hex mode: section lengths
          HexAddrs,     \* hex mode: sh_addr values (little-endian base-256 digit strings, 4 or 8 digits)
          Containers    \* hex mode: <<class, little-endian>> pairs

VARIABLES Mode, obj, phase, st
vars == <<Mode, obj, phase, st>>

Printable(b) == b >= 32 /\ b <= 126                 \* ISO 646: the characters with a graphic (and space)
Idle == [pos |-> 1, open |-> 0, out |-> <<>>, lines |-> <<>>]

(* ------------------------------- writer -------------------------------- *)
Pattern(n) == [i \in 1..n |-> ((i - 1) * 7 + 29) % 256]        \* 7 is a unit modulo 256: 256 consecutive bytes are all different
Init ==
  /\ Mode \in Modes
  /\ st = Idle
  /\ CASE Mode = "strings" ->
            /\ obj = [bytes |-> <<>>, cls |-> 64, le |-> TRUE, addr |-> <<0, 0, 0, 0>>, stype |-> 1, reloc |-> FALSE]
            /\ phase = "write"
       [] Mode = "hex" ->
            \E n \in HexLens, a \in HexAddrs, cl \in Containers, ty \in {1, 8}, rl \in BOOLEAN :
               /\ Len(a) <= cl[1] \div 8
               /\ obj = [bytes |-> Pattern(n), cls |-> cl[1], le |-> cl[2], addr |-> a, stype |-> ty, reloc |-> rl]
               /\ phase = "scan"
AddByte ==
  /\ phase = "write" /\ Len(obj.bytes) < MaxLen
  /\ \E b \in Alphabet : obj' = [obj EXCEPT !.bytes = Append(@, b)]
  /\ UNCHANGED <<Mode, phase, st>>
Finish ==
  /\ phase = "write" /\ phase' = "scan"
  /\ UNCHANGED <<Mode, obj, st>>

(* ------------------------ the string scanner --------------------------- *)
\* st.pos: next byte (1-based); st.open: 1-based start of the string being read, 0 between strings;
\* st.out: <<offset (0-based), length, terminated>> per string
N0 == Len(obj.bytes)
Cur == obj.bytes[st.pos]
Skip  == /\ phase = "scan" /\ st.pos <= N0 /\ st.open = 0 /\ ~Printable(Cur)
         /\ st' = [st EXCEPT !.pos = @ + 1] /\ UNCHANGED <<Mode, obj, phase>>
Open  == /\ phase = "scan" /\ st.pos <= N0 /\ st.open = 0 /\ Printable(Cur)
         /\ st' = [st EXCEPT !.pos = @ + 1, !.open = st.pos] /\ UNCHANGED <<Mode, obj, phase>>
Take  == /\ phase = "scan" /\ st.pos <= N0 /\ st.open > 0 /\ Cur # 0
         /\ st' = [st EXCEPT !.pos = @ + 1] /\ UNCHANGED <<Mode, obj, phase>>
Close == /\ phase = "scan" /\ st.pos <= N0 /\ st.open > 0 /\ Cur = 0
         /\ st' = [st EXCEPT !.pos = @ + 1, !.open = 0, !.out = Append(@, <<st.open - 1, st.pos - st.open, TRUE>>)]
         /\ UNCHANGED <<Mode, obj, phase>>
End   == /\ phase = "scan" /\ st.pos = N0 + 1
         /\ st' = [st EXCEPT !.pos = 1, !.open = 0,
                             !.out = IF st.open > 0 THEN Append(@, <<st.open - 1, N0 + 1 - st.open, FALSE>>) ELSE @]
         /\ phase' = "lines" /\ UNCHANGED <<Mode, obj>>
(* -------------------------- the line cutter ---------------------------- *)
\* st.lines: <<offset (0-based), number of bytes>> per dump line
HexLine == /\ phase = "lines" /\ st.pos <= N0
           /\ LET k == Min({16, N0 + 1 - st.pos}) IN st' = [st EXCEPT !.pos = @ + k, !.lines = Append(@, <<st.pos - 1, k>>)]
           /\ UNCHANGED <<Mode, obj, phase>>
HexEnd  == /\ phase = "lines" /\ st.pos = N0 + 1 /\ phase' = "done" /\ UNCHANGED <<Mode, obj, st>>

Next == AddByte \/ Finish \/ Skip \/ Open \/ Take \/ Close \/ End \/ HexLine \/ HexEnd
Spec == Init /\ [][Next]_vars

(* ---------------------------- denotations ------------------------------ *)
LastNulBefore(bs, s) == Max({0} \cup {z \in 1..(s - 1) : bs[z] = 0})
IsStart(bs, s) == Printable(bs[s]) /\ \A k \in (LastNulBefore(bs, s) + 1)..(s - 1) : ~Printable(bs[k])
EndOf(bs, s) == Min({e \in s..Len(bs) : bs[e] = 0} \cup {Len(bs) + 1})
StringSet(bs) == {<<s - 1, EndOf(bs, s) - s, EndOf(bs, s) <= Len(bs)>> : s \in {x \in 1..Len(bs) : IsStart(bs, x)}}
Scanned == phase \in {"lines", "done"}
ScanIsDenotation ==
  Scanned => /\ {st.out[i] : i \in 1..Len(st.out)} = StringSet(obj.bytes)
             /\ Len(st.out) = Cardinality(StringSet(obj.bytes))
InString(k) == \E i \in 1..Len(st.out) : k > st.out[i][1] /\ k <= st.out[i][1] + st.out[i][2]       \* k: 1-based position
NothingPrintableDropped ==
  Scanned => \A k \in 1..N0 : Printable(obj.bytes[k]) => Cardinality({i \in 1..Len(st.out) : k > st.out[i][1] /\ k <= st.out[i][1] + st.out[i][2]}) = 1
StringsWellFormed ==
  Scanned =>
    /\ \A i \in 1..Len(st.out) :
         LET s == st.out[i] IN
         /\ s[2] >= 1 /\ Printable(obj.bytes[s[1] + 1])
         /\ \A k \in (s[1] + 1)..(s[1] + s[2]) : obj.bytes[k] # 0
         /\ (s[3] <=> s[1] + s[2] < N0) /\ (s[3] => obj.bytes[s[1] + s[2] + 1] = 0)
         /\ (~s[3] => i = Len(st.out))
         /\ (i < Len(st.out) => s[1] + s[2] < st.out[i + 1][1])
HexTiles ==
  phase = "done" =>
    /\ Len(st.lines) = (N0 + 15) \div 16
    /\ \A i \in 1..Len(st.lines) : /\ st.lines[i][1] = 16 * (i - 1)
                                   /\ st.lines[i][2] = (IF i < Len(st.lines) THEN 16 ELSE N0 - 16 * (i - 1))
                                   /\ st.lines[i][2] >= 1

(* ------------------------------- image --------------------------------- *)
DumpName == <<46, 118, 100, 117, 109, 112>>                              \* ".vdump"
DotSymtab == <<46, 115, 121, 109, 116, 97, 98>>
DotStrtab == <<46, 115, 116, 114, 116, 97, 98>>
\* class / byte order -> machine and the relocation flavour its processor supplement has (i386: REL; PowerPC, x86-64, 64-bit PowerPC: RELA)
MachineOf(o) == CASE o.cls = 32 /\ o.le -> 3 [] o.cls = 32 -> 20 [] o.le -> 62 [] OTHER -> 21
RelaOf(o) == ~(o.cls = 32 /\ o.le)
\* index 1 .vdump; with o.reloc: 2 .rel[a].vdump (sh_link 3, sh_info 1, SHF_INFO_LINK), 3 .symtab (null symbol only), 4 .strtab
Image(o) ==
  LET n == Len(o.bytes)
      ws == o.cls \div 8
      alloc == o.addr # DZero(Len(o.addr))
      dump == Sec(DumpName, N(o.stype), IF alloc \/ o.stype = 8 THEN N(3) ELSE Z, W(o.addr), IF o.stype = 8 THEN <<>> ELSE o.bytes, N(n), Z, Z, N(1), Z)
      rela == RelaOf(o)
      ent == IF rela THEN Ser(RelaF, [r_offset |-> Z, r_info |-> N(1), r_addend |-> N(4)], o.cls, o.le)
             ELSE Ser(RelF, [r_offset |-> Z, r_info |-> N(1)], o.cls, o.le)
      sy == Rep(0, SizeOf(SymF(o.cls), o.cls))
      rsecs == << Sec((IF rela THEN <<46, 114, 101, 108, 97>> ELSE <<46, 114, 101, 108>>) \o DumpName, N(IF rela THEN 4 ELSE 9), N(64), Z,
                      ent, N(Len(ent)), N(3), N(1), N(ws), N(Len(ent))),
                  Sec(DotSymtab, N(2), Z, Z, sy, N(Len(sy)), N(4), N(1), N(ws), N(Len(sy))),
                  Sec(DotStrtab, N(3), Z, Z, <<0>>, N(1), Z, Z, N(1), Z) >>
  IN [Im0 EXCEPT !.cls = o.cls, !.le = o.le, !.machine = MachineOf(o), !.etype = N(1),
                 !.secs = <<dump>> \o (IF o.reloc THEN rsecs ELSE <<>>)]

ImageCarries ==
  phase = "done" =>
    LET im == Image(obj)
        v == View(im)
        hd == v.sections[2]                       \* (sections[1] is the null header)
    IN /\ ChunksDisjoint(im) /\ ReaderRecoversCounts(im)
       /\ hd.index = 1 /\ hd.name = DumpName /\ hd.hdr.sh_size = N(N0)
       /\ (obj.stype # 8 => \E x \in 1..Len(Chunks(im)) : Chunks(im)[x][1] = hd.hdr.sh_offset.n /\ Chunks(im)[x][2] = obj.bytes)
       /\ Cardinality({x \in 1..Len(v.sections) : v.sections[x].name = DumpName}) = 1

(* --------------------------- configurations --------------------------- *)
AddrsAll == {<<0, 0, 0, 0>>, <<0, 16, 64, 0>>, <<103, 69, 35, 1>>, <<0, 0, 0, 128>>, <<9, 0, 0, 0, 1, 0, 0, 0>>}     \* 0, 0x401000, 0x1234567, 2^31, 2^32 + 9
AddrsQuick == {<<0, 0, 0, 0>>, <<103, 69, 35, 1>>, <<9, 0, 0, 0, 1, 0, 0, 0>>}
ContainersAll == {<<32, TRUE>>, <<32, FALSE>>, <<64, TRUE>>, <<64, FALSE>>}

(* ------------------------------ emission ------------------------------- *)
\* the class of a case, from the structure
\* (which kinds of non-printable bytes occur, and where: inside a string / before one)
Ctl(b) == b >= 1 /\ b <= 31
NonPrintInside == \E i \in 1..Len(st.out) : \E k \in (st.out[i][1] + 1)..(st.out[i][1] + st.out[i][2]) : ~Printable(obj.bytes[k])
CtlInside == \E i \in 1..Len(st.out) : \E k \in (st.out[i][1] + 1)..(st.out[i][1] + st.out[i][2]) : Ctl(obj.bytes[k])
Skipped == \E k \in 1..N0 : obj.bytes[k] # 0 /\ ~Printable(obj.bytes[k]) /\ ~InString(k)
CtlSkipped == \E k \in 1..N0 : Ctl(obj.bytes[k]) /\ ~InString(k)
HasDel == \E k \in 1..N0 : obj.bytes[k] = 127
HasHigh == \E k \in 1..N0 : obj.bytes[k] >= 128
StrClass == (IF N0 = 0 THEN "empty"
             ELSE IF st.out = <<>> THEN "nostrings"
             ELSE (IF st.out[Len(st.out)][3] THEN "terminated" ELSE "unterminated") \o (IF Len(st.out) > 1 THEN "+many" ELSE ""))
            \o (IF CtlInside THEN "+ctl" ELSE "") \o (IF CtlSkipped THEN "+skip" ELSE "") \o (IF HasDel THEN "+del" ELSE "") \o (IF HasHigh THEN "+hi" ELSE "")
HexClass == (IF obj.stype = 8 THEN "nobits" ELSE IF N0 = 0 THEN "empty" ELSE IF (N0 % 16) = 0 THEN "full" ELSE "partial")
            \o (IF obj.addr = DZero(Len(obj.addr)) THEN "/a0" ELSE IF (obj.addr[1] % 16) = 0 THEN "/a16" ELSE "/odd")
            \o (IF Len(obj.addr) > 4 THEN "w" ELSE "") \o (IF obj.reloc THEN "/reloc" ELSE "")
Case ==
  [mode |-> Mode, tag |-> IF Mode = "strings" THEN StrClass ELSE HexClass, cls |-> obj.cls, le |-> obj.le, n |-> N0, stype |-> obj.stype,
   bytes |-> obj.bytes, strs |-> st.out, nlines |-> Len(st.lines), inside |-> NonPrintInside, skipped |-> Skipped,
   \* (the section is designated by name, in hex mode also by number)
   opts |-> IF Mode = "hex" THEN <<"-x.vdump", "-p.vdump", "-x 1", "-p 1">> ELSE <<"-x.vdump", "-p.vdump">>, chunks |-> Chunks(Image(obj))]
Emit == phase = "done" => CSVWrite("%1$s", <<ToJson(Case)>>, IOEnv.OUT)
=============================================================================
