-------------------------------- MODULE Expr --------------------------------
(***************************************************************************)
(* C12 - DWARF expressions are split into exactly their operations and     *)
(* operands.                                                               *)
(*                                                                         *)
(* Transcribed: the operation encodings of DWARF 5 section 7.7.1, Table    *)
(* 7.9 (a superset of DWARF 2 fig. 22-24, DWARF 3 fig. 24, DWARF 4 fig.    *)
(* 24: codes were only ever added), operand descriptions of 2.5.1.1-2.5.1.7*)
(* and 2.6.1.1-2.6.1.3; the GNU extensions as documented by GCC            *)
(* (include/dwarf2.def, the DW_OP_GNU_* proposals that became DWARF 5      *)
(* 0xa0, 0xa3-0xa8 with identical operands; DW_OP_GNU_parameter_ref: one   *)
(* 4-byte unsigned CU-relative offset regardless of the DWARF format) and  *)
(* DW_OP_WASM_location of "DWARF for WebAssembly" (one byte 0..3, then a   *)
(* ULEB128 index for 0..2, a 4-byte unsigned index for 3).                 *)
(* DW_OP_lo_user / DW_OP_hi_user are range markers, not operations: they   *)
(* are outside the table and outside the bijection clause.                 *)
(*                                                                         *)
(* The environment is an abstract writer: it picks a context (address      *)
(* size, offset size = DWARF format, byte order, version the parser was    *)
(* told: 2..5, or 0 = none stated), then appends operations                *)
(* to an abstract expression or wraps the whole expression into an         *)
(* entry-value operation, and finally hands Enc(expr) to the reader.       *)
(* The reader is the decoder the standard implies, one action per step:    *)
(* ReadOpcode, ReadOperand, Descend (into an entry-value block), Ascend.   *)
(*                                                                         *)
(* Numbers: operand values are never TLC integers.  Fixed-width operands   *)
(* are little-endian base-256 digit strings [d, s] (Bytes!W / WS), LEB128  *)
(* operands are base-128 group strings [g, s] (possibly non-minimal);      *)
(* only lengths, offsets and opcodes are Small.                            *)
(*                                                                         *)
(* TLC checks on the specification itself:                                 *)
(*   RoundTrip    the reader's result on Enc(e) is e annotated with        *)
(*                offsets = cumulative encoded lengths, recursively        *)
(*                (offsets inside an entry-value block count from the      *)
(*                start of that block: it is a DWARF expression itself);   *)
(*   ReEncode     Enc(reader result) = the input bytes;                    *)
(*   Tiling       consecutive operations tile the input exactly;           *)
(*   DecAgrees    the run-to-completion operator Dec (used by the trace    *)
(*                specification) is the action machine;                    *)
(*   FramesNest, NeverStuck, Deterministic, Terminates (action property:   *)
(*                every reader step decreases a variant);                  *)
(*   NamesBijective, CodesUnique, MarkersApart (ASSUME, constant level).   *)
(*                                                                         *)
(*   SettledExact (ASSUME): the operations left out of a context are       *)
(*                exactly those on which the two published operand-size    *)
(*                conventions disagree there (see below);                  *)
(*   VersionFree  the encoding of an expression does not depend on the     *)
(*                version of the context (in any context where all its     *)
(*                operations are settled); WidthVersionFree (ASSUME) is    *)
(*                its constant-level core (the big thorough grid checks    *)
(*                only that one: VersionFree re-encodes five times).       *)
(*                                                                         *)
(* The version dimension.  Operand sizes are a function of address size    *)
(* and DWARF format only (the property; DWARF 3 2.5.1.5/7.7.1, DWARF 4     *)
(* 2.5.1.5, DWARF 5 2.5.1.5, 2.6.1.1.4: the DIE reference of DW_OP_call_ref*)
(* / DW_OP_implicit_pointer is 4 bytes in the 32-bit and 8 bytes in the    *)
(* 64-bit format).  That holds for a parser that was given version 3, 4,   *)
(* 5 or *no* version (ver = 0: there is no unit that could say "2"; this   *)
(* is how call-frame and location-list clients get their parser, and the   *)
(* constructor default must not change operand sizes).  DWARF 2 itself has *)
(* neither DW_OP_call_ref (added in 3) nor DW_OP_implicit_pointer (5) nor  *)
(* the GNU form of the latter; producers that emit them in version 2 units *)
(* (GCC: DWARF_REF_SIZE) size the reference like DW_FORM_ref_addr of       *)
(* DWARF 2, i.e. by the address size, whereas the DWARF 3+ text knows only *)
(* the format.  Where the two readings differ (ver = 2 and address size #  *)
(* offset size) the three operations are NOT SETTLED: the writer does not  *)
(* produce them and the reader (trace direction) treats them as outside    *)
(* the table.  Everywhere else they are asserted.                          *)
(*                                                                         *)
(* Not asserted (the property/standard does not fix it): the Python        *)
(* representation of a block (list of ints or bytes); the unsettled        *)
(* operations above; vendor opcodes outside the table.                     *)
(***************************************************************************)
EXTENDS Bytes, TLC, Json, CSV, IOUtils

CONSTANTS Mode,        \* "grid": exhaustive product / "walk": long random expressions (simulation)
          Ctxs,        \* contexts [asz, osz, le, ver, lvl]: ver 2..5 or 0 (none stated); lvl 2 = every operand class of
                       \* every operation + sequences, 1 = classes of context-sensitive operations + sequences,
                       \* 0 = representatives, no flat sequences (single operations and their entry-value wrappings)
          LebLens,     \* lengths (in groups) of LEB128 operands
          GroupCls,    \* classes of the first and last 7-bit group
          FillCls,     \* classes of the groups in between
          ByteCls,     \* classes of the lowest / middle / highest byte of 2..8-byte operands
          U1Vals,      \* values of 1-byte operands
          BlobLens,    \* lengths of DW_OP_implicit_value blocks
          TBlobLens,   \* lengths of typed constants (DW_OP_const_type), 0..255
          MaxLen,      \* grid: operations per level; walk: operations in total
          MaxDepth,    \* nesting depth of entry-value blocks
          WrapLen,     \* grid: longest flat sequence that gets wrapped into an entry-value block
          NestSteps,   \* grid: writer steps of the deep-nesting part
          NestForms    \* <<entry-value opcode, padding groups of its length field>>

VARIABLES ctx, expr, phase, rd
vars == <<ctx, expr, phase, rd>>

(* ======================================================================= *)
(* (A) The operation table                                                 *)
(* ======================================================================= *)
\* operand kinds:
\*   u1 s1 u2 s2 u4 s4 u8 s8   fixed width, unsigned / two's complement, target byte order
\*   addr                      address-size unsigned (unit header address_size)
\*   off                       4 (32-bit DWARF) or 8 (64-bit DWARF) byte unsigned offset
\*   uleb sleb                 LEB128
\*   blk                       ULEB128 length, then that many bytes
\*   tblob                     1-byte unsigned length, then that many bytes (typed constant value)
\*   expr                      ULEB128 length, then a DWARF expression of that many bytes
\*   wasm                      1 byte k in 0..3, then ULEB128 (k <= 2) or 4-byte unsigned (k = 3)
Fixed == <<
  <<  3, "DW_OP_addr", <<"addr">>>>,                           \* 0x03
  <<  6, "DW_OP_deref", <<>>>>,                                \* 0x06
  <<  8, "DW_OP_const1u", <<"u1">>>>,                          \* 0x08
  <<  9, "DW_OP_const1s", <<"s1">>>>,                          \* 0x09
  << 10, "DW_OP_const2u", <<"u2">>>>,                          \* 0x0a
  << 11, "DW_OP_const2s", <<"s2">>>>,                          \* 0x0b
  << 12, "DW_OP_const4u", <<"u4">>>>,                          \* 0x0c
  << 13, "DW_OP_const4s", <<"s4">>>>,                          \* 0x0d
  << 14, "DW_OP_const8u", <<"u8">>>>,                          \* 0x0e
  << 15, "DW_OP_const8s", <<"s8">>>>,                          \* 0x0f
  << 16, "DW_OP_constu", <<"uleb">>>>,                         \* 0x10
  << 17, "DW_OP_consts", <<"sleb">>>>,                         \* 0x11
  << 18, "DW_OP_dup", <<>>>>,                                  \* 0x12
  << 19, "DW_OP_drop", <<>>>>,                                 \* 0x13
  << 20, "DW_OP_over", <<>>>>,                                 \* 0x14
  << 21, "DW_OP_pick", <<"u1">>>>,                             \* 0x15
  << 22, "DW_OP_swap", <<>>>>,                                 \* 0x16
  << 23, "DW_OP_rot", <<>>>>,                                  \* 0x17
  << 24, "DW_OP_xderef", <<>>>>,                               \* 0x18
  << 25, "DW_OP_abs", <<>>>>,                                  \* 0x19
  << 26, "DW_OP_and", <<>>>>,                                  \* 0x1a
  << 27, "DW_OP_div", <<>>>>,                                  \* 0x1b
  << 28, "DW_OP_minus", <<>>>>,                                \* 0x1c
  << 29, "DW_OP_mod", <<>>>>,                                  \* 0x1d
  << 30, "DW_OP_mul", <<>>>>,                                  \* 0x1e
  << 31, "DW_OP_neg", <<>>>>,                                  \* 0x1f
  << 32, "DW_OP_not", <<>>>>,                                  \* 0x20
  << 33, "DW_OP_or", <<>>>>,                                   \* 0x21
  << 34, "DW_OP_plus", <<>>>>,                                 \* 0x22
  << 35, "DW_OP_plus_uconst", <<"uleb">>>>,                    \* 0x23
  << 36, "DW_OP_shl", <<>>>>,                                  \* 0x24
  << 37, "DW_OP_shr", <<>>>>,                                  \* 0x25
  << 38, "DW_OP_shra", <<>>>>,                                 \* 0x26
  << 39, "DW_OP_xor", <<>>>>,                                  \* 0x27
  << 40, "DW_OP_bra", <<"s2">>>>,                              \* 0x28
  << 41, "DW_OP_eq", <<>>>>,                                   \* 0x29
  << 42, "DW_OP_ge", <<>>>>,                                   \* 0x2a
  << 43, "DW_OP_gt", <<>>>>,                                   \* 0x2b
  << 44, "DW_OP_le", <<>>>>,                                   \* 0x2c
  << 45, "DW_OP_lt", <<>>>>,                                   \* 0x2d
  << 46, "DW_OP_ne", <<>>>>,                                   \* 0x2e
  << 47, "DW_OP_skip", <<"s2">>>>,                             \* 0x2f
  <<144, "DW_OP_regx", <<"uleb">>>>,                           \* 0x90
  <<145, "DW_OP_fbreg", <<"sleb">>>>,                          \* 0x91
  <<146, "DW_OP_bregx", <<"uleb", "sleb">>>>,                  \* 0x92
  <<147, "DW_OP_piece", <<"uleb">>>>,                          \* 0x93
  <<148, "DW_OP_deref_size", <<"u1">>>>,                       \* 0x94
  <<149, "DW_OP_xderef_size", <<"u1">>>>,                      \* 0x95
  <<150, "DW_OP_nop", <<>>>>,                                  \* 0x96
  <<151, "DW_OP_push_object_address", <<>>>>,                  \* 0x97
  <<152, "DW_OP_call2", <<"u2">>>>,                            \* 0x98
  <<153, "DW_OP_call4", <<"u4">>>>,                            \* 0x99
  <<154, "DW_OP_call_ref", <<"off">>>>,                        \* 0x9a
  <<155, "DW_OP_form_tls_address", <<>>>>,                     \* 0x9b
  <<156, "DW_OP_call_frame_cfa", <<>>>>,                       \* 0x9c
  <<157, "DW_OP_bit_piece", <<"uleb", "uleb">>>>,              \* 0x9d
  <<158, "DW_OP_implicit_value", <<"blk">>>>,                  \* 0x9e
  <<159, "DW_OP_stack_value", <<>>>>,                          \* 0x9f
  <<160, "DW_OP_implicit_pointer", <<"off", "sleb">>>>,        \* 0xa0
  <<161, "DW_OP_addrx", <<"uleb">>>>,                          \* 0xa1
  <<162, "DW_OP_constx", <<"uleb">>>>,                         \* 0xa2
  <<163, "DW_OP_entry_value", <<"expr">>>>,                    \* 0xa3
  <<164, "DW_OP_const_type", <<"uleb", "tblob">>>>,            \* 0xa4
  <<165, "DW_OP_regval_type", <<"uleb", "uleb">>>>,            \* 0xa5
  <<166, "DW_OP_deref_type", <<"u1", "uleb">>>>,               \* 0xa6
  <<167, "DW_OP_xderef_type", <<"u1", "uleb">>>>,              \* 0xa7
  <<168, "DW_OP_convert", <<"uleb">>>>,                        \* 0xa8
  <<169, "DW_OP_reinterpret", <<"uleb">>>>,                    \* 0xa9
  <<224, "DW_OP_GNU_push_tls_address", <<>>>>,                 \* 0xe0
  <<237, "DW_OP_WASM_location", <<"wasm">>>>,                  \* 0xed
  <<240, "DW_OP_GNU_uninit", <<>>>>,                           \* 0xf0
  <<242, "DW_OP_GNU_implicit_pointer", <<"off", "sleb">>>>,    \* 0xf2
  <<243, "DW_OP_GNU_entry_value", <<"expr">>>>,                \* 0xf3
  <<244, "DW_OP_GNU_const_type", <<"uleb", "tblob">>>>,        \* 0xf4
  <<245, "DW_OP_GNU_regval_type", <<"uleb", "uleb">>>>,        \* 0xf5
  <<246, "DW_OP_GNU_deref_type", <<"u1", "uleb">>>>,           \* 0xf6
  <<247, "DW_OP_GNU_convert", <<"uleb">>>>,                    \* 0xf7
  <<250, "DW_OP_GNU_parameter_ref", <<"u4">>>>                 \* 0xfa
>>
\* DW_OP_lit0..31 = 0x30.., DW_OP_reg0..31 = 0x50.., DW_OP_breg0..31 = 0x70.. (SLEB128 offset)
Ranges == << <<48, "DW_OP_lit", <<>>>>, <<80, "DW_OP_reg", <<>>>>, <<112, "DW_OP_breg", <<"sleb">>>> >>
\* range markers (DWARF 5 Table 7.9, last two rows): names that are not operations
Markers == << <<224, "DW_OP_lo_user">>, <<255, "DW_OP_hi_user">> >>

Entries == {[code |-> Fixed[i][1], name |-> Fixed[i][2], kinds |-> Fixed[i][3]] : i \in 1..Len(Fixed)}
           \cup {[code |-> Ranges[r][1] + n, name |-> Ranges[r][2] \o ToString(n), kinds |-> Ranges[r][3]]
                   : r \in 1..3, n \in 0..31}
Codes == {e.code : e \in Entries}
OpTable == TLCEval([c \in Codes |-> CHOOSE e \in Entries : e.code = c])
KindsOf(c) == OpTable[c].kinds
NameOf(c) == OpTable[c].name
NestCodes == {163, 243}            \* DW_OP_entry_value, DW_OP_GNU_entry_value
FlatCodes == Codes \ NestCodes

CodesUnique == Cardinality(Codes) = Cardinality(Entries) /\ Codes \subseteq 0..255
NamesBijective == /\ \A a \in Codes : \A b \in Codes : NameOf(a) = NameOf(b) => a = b
                  /\ Cardinality({NameOf(c) : c \in Codes}) = Cardinality(Codes)
MarkersApart == \A i \in 1..Len(Markers) : \A c \in Codes : NameOf(c) # Markers[i][2]
ASSUME CodesUnique
ASSUME NamesBijective
ASSUME MarkersApart

\* ---- which operations have settled operand sizes in a context (header: "The version dimension")
Versions == {0, 2, 3, 4, 5}
RefCodes == {c \in Codes : \E i \in 1..Len(KindsOf(c)) : KindsOf(c)[i] = "off"}     \* call_ref, (GNU_)implicit_pointer
RefWidthStd(c) == c.osz                                         \* DWARF 3-5: by format
RefWidthProducer(c) == IF c.ver = 2 THEN c.asz ELSE c.osz       \* GCC DWARF_REF_SIZE: like DW_FORM_ref_addr
Settled(code, c) == ~(code \in RefCodes /\ c.ver = 2 /\ c.asz # c.osz)
CodesIn(c) == {code \in Codes : Settled(code, c)}
SettledExact == \A a \in {4, 8} : \A o \in {4, 8} : \A v \in Versions :
                  LET c == [asz |-> a, osz |-> o, ver |-> v] IN
                  /\ \A code \in RefCodes : Settled(code, c) <=> RefWidthStd(c) = RefWidthProducer(c)
                  /\ \A code \in Codes \ RefCodes : Settled(code, c)
ASSUME SettledExact
ASSUME RefCodes = {154, 160, 242}

IsFix(k) == k \in {"u1", "s1", "u2", "s2", "u4", "s4", "u8", "s8", "addr", "off"}
IsLeb(k) == k \in {"uleb", "sleb"}
SignedK(k) == k \in {"s1", "s2", "s4", "s8", "sleb"}
Width(k, c) == CASE k \in {"u1", "s1"} -> 1 [] k \in {"u2", "s2"} -> 2 [] k \in {"u4", "s4"} -> 4
                 [] k \in {"u8", "s8"} -> 8 [] k = "addr" -> c.asz [] k = "off" -> c.osz
\* no operand width depends on the version (constant-level core of VersionFree below)
WidthVersionFree == \A k \in {"u1", "s1", "u2", "s2", "u4", "s4", "u8", "s8", "addr", "off"} :
                      \A a \in {4, 8} : \A o \in {4, 8} : \A v \in Versions :
                        Width(k, [asz |-> a, osz |-> o, ver |-> v]) = Width(k, [asz |-> a, osz |-> o, ver |-> 0])
ASSUME WidthVersionFree

(* ======================================================================= *)
(* (B) Abstract expressions and their encoding                             *)
(* An expression is a sequence of operations [code, args]; an argument is   *)
(*   fixed: [d: LE digits (exactly Width), s]     leb: [g: groups, s]       *)
(*   blk: [b: bytes, lp: padding groups of the length]   tblob: [b: bytes]  *)
(*   expr: [e: expression, lp]     wasm: [wk: 0..3, i: leb or 4-digit value] *)
(* ======================================================================= *)
RECURSIVE EncExpr(_, _), EncOp(_, _), EncArg(_, _, _)
EncArg(k, a, c) ==
  CASE IsFix(k) -> Fix(a, Width(k, c), c.le)
    [] IsLeb(k) -> LebOfGroups(a.g)
    [] k = "blk" -> UlebPadded(Len(a.b), a.lp) \o a.b
    [] k = "tblob" -> <<Len(a.b)>> \o a.b
    [] k = "expr" -> LET body == EncExpr(a.e, c) IN UlebPadded(Len(body), a.lp) \o body
    [] k = "wasm" -> <<a.wk>> \o (IF a.wk = 3 THEN Fix(a.i, 4, c.le) ELSE LebOfGroups(a.i.g))
EncOp(o, c) == LET ks == KindsOf(o.code) IN
               <<o.code>> \o Flat([i \in 1..Len(ks) |-> EncArg(ks[i], o.args[i], c)])
EncExpr(e, c) == Flat([i \in 1..Len(e) |-> EncOp(e[i], c)])

\* the declarative view: every operation with its offset, recursively
RECURSIVE AnnotFrom(_, _, _)
AnnotFrom(e, off, c) ==
  IF e = <<>> THEN <<>>
  ELSE LET o == Head(e)   ks == KindsOf(o.code) IN
       <<[code |-> o.code,
          args |-> [i \in 1..Len(ks) |-> IF ks[i] = "expr"
                                          THEN [e |-> AnnotFrom(o.args[i].e, 0, c), lp |-> o.args[i].lp]
                                          ELSE o.args[i]],
          off |-> off]>> \o AnnotFrom(Tail(e), off + Len(EncOp(o, c)), c)
Annot(e, c) == AnnotFrom(e, 0, c)

RECURSIVE Depth(_), Steps(_)
Depth(e) == IF e = <<>> THEN 0
            ELSE Max({IF e[i].code \in NestCodes THEN 1 + Depth(e[i].args[1].e) ELSE 0 : i \in 1..Len(e)})
Steps(e) == IF e = <<>> THEN 0
            ELSE (IF Head(e).code \in NestCodes THEN 1 + Steps(Head(e).args[1].e) ELSE 1) + Steps(Tail(e))

(* ======================================================================= *)
(* (C) The writer's alphabet                                               *)
(* ======================================================================= *)
Pat(w, lo, mid, hi) == [i \in 1..w |-> IF i = 1 THEN lo ELSE IF i = w THEN hi ELSE mid]
Ramp(w, k) == [i \in 1..w |-> (k + 17 * i) % 256]                   \* pairwise distinct bytes
GPat(n, a, m, z) == [i \in 1..n |-> IF i = 1 THEN a ELSE IF i = n THEN z ELSE m]
Blob(n, f) == IF f < 0 THEN [i \in 1..n |-> (i * 37 + 126) % 256] ELSE Rep(f, n)
BlobFills == {-1, 0, 128, 255}       \* a ramp (passes through opcodes and LEB continuation bytes), constants

\* a 10-group LEB128 stays within 64 bits: the last group is 0/1 (unsigned), 0/0x7f (signed)
LastCls(n, signed) == IF n = 10 THEN (IF signed THEN {0, 127} ELSE {0, 1}) ELSE GroupCls
LebGroups(signed) == UNION {{GPat(n, a, m, z) : a \in GroupCls, m \in FillCls, z \in LastCls(n, signed)} : n \in LebLens}
FixDigits(w) == IF w = 1 THEN {<<b>> : b \in U1Vals}
                ELSE {Pat(w, lo, mid, hi) : lo \in ByteCls, mid \in ByteCls, hi \in ByteCls}
                     \cup {Ramp(w, 129), Ramp(w, 3)}

\* the representative of a kind (sequences, co-operands)
OneRep(k, c) ==
  CASE IsFix(k) -> [d |-> Ramp(Width(k, c), 129), s |-> SignedK(k)]
    [] IsLeb(k) -> [g |-> <<127, 127, 64>>, s |-> SignedK(k)]
    [] k = "blk" -> [b |-> Blob(3, -1), lp |-> 0]
    [] k = "tblob" -> [b |-> Blob(4, -1)]
    [] k = "wasm" -> [wk |-> 3, i |-> [d |-> Ramp(4, 129), s |-> FALSE]]
ArgRep(k, c) ==
  {OneRep(k, c)} \cup
  CASE IsFix(k) -> {[d |-> Rep(255, Width(k, c)), s |-> SignedK(k)]}
    [] IsLeb(k) -> {[g |-> <<5>>, s |-> SignedK(k)], [g |-> <<0, 0>>, s |-> SignedK(k)]}
    [] k = "tblob" -> {[b |-> <<>>]}
    [] k = "wasm" -> {[wk |-> 1, i |-> [g |-> <<127, 1>>, s |-> FALSE]]}
    [] OTHER -> {}
ArgFull(k, c) ==
  CASE IsFix(k) -> {[d |-> ds, s |-> SignedK(k)] : ds \in FixDigits(Width(k, c))}
    [] IsLeb(k) -> {[g |-> gs, s |-> SignedK(k)] : gs \in LebGroups(k = "sleb")}
    [] k = "blk" -> {[b |-> Blob(n, f), lp |-> p] : n \in BlobLens, f \in BlobFills, p \in {0, 1}}
    [] k = "tblob" -> {[b |-> Blob(n, f)] : n \in TBlobLens, f \in BlobFills}
    [] k = "wasm" -> {[wk |-> w, i |-> [g |-> gs, s |-> FALSE]] : w \in 0..2, gs \in LebGroups(FALSE)}
                     \cup {[wk |-> 3, i |-> [d |-> ds, s |-> FALSE]] : ds \in FixDigits(4)}
ArgAll(k, c) == ArgFull(k, c) \cup ArgRep(k, c)

\* operand tuples of one operation: one operand sweeps its whole class, the others stay on representatives
Tuples(ks, c, full) ==
  CASE Len(ks) = 0 -> {<<>>}
    [] Len(ks) = 1 -> {<<a>> : a \in (IF full THEN ArgAll(ks[1], c) ELSE ArgRep(ks[1], c))}
    [] Len(ks) = 2 -> IF full THEN {<<a, b>> : a \in ArgAll(ks[1], c), b \in ArgRep(ks[2], c)}
                                    \cup {<<a, b>> : a \in ArgRep(ks[1], c), b \in ArgAll(ks[2], c)}
                      ELSE {<<a, b>> : a \in ArgRep(ks[1], c), b \in ArgRep(ks[2], c)}
\* operations whose encoding depends on the context get their full classes in every context
Sens(code) == \E i \in 1..Len(KindsOf(code)) : KindsOf(code)[i] \in {"u2", "s2", "u4", "s4", "u8", "s8", "addr", "off", "wasm"}

\* one operation per operand shape, for sequences:
\* lit0, addr, const1s, pick, call2, skip, const4u, const4s, const8u, const8s, regx, fbreg, bregx,
\* call_ref, implicit_value, implicit_pointer, const_type, deref_type, WASM_location, breg31
SeqCodes == {48, 3, 9, 21, 152, 47, 12, 13, 14, 15, 144, 145, 146, 154, 158, 160, 164, 166, 237, 143}
TinyCodes == {145, 159}            \* DW_OP_fbreg, DW_OP_stack_value
PostCode == 145
SeqArgs(code, c) == [i \in 1..Len(KindsOf(code)) |-> OneRep(KindsOf(code)[i], c)]
IsSeqOp(o, c) == o.code \in SeqCodes \cup TinyCodes /\ o.args = SeqArgs(o.code, c)
AllSeq(e, c) == \A i \in 1..Len(e) : IsSeqOp(e[i], c)
RECURSIVE Tiny(_, _)
Tiny(e, c) == \A i \in 1..Len(e) : IF e[i].code \in NestCodes THEN Tiny(e[i].args[1].e, c)
                                   ELSE e[i].code \in TinyCodes /\ IsSeqOp(e[i], c)

NestBudget == IF ctx.lvl = 0 THEN Min({NestSteps, 3}) ELSE NestSteps      \* level 0: shallow nesting only
Stage == IF Mode = "walk" THEN (IF Steps(expr) < MaxLen THEN "walk" ELSE "stop")
         ELSE IF Len(expr) >= MaxLen THEN "stop"
         ELSE IF expr = <<>> THEN "first"
         ELSE IF Depth(expr) = 0 THEN (IF AllSeq(expr, ctx) /\ ctx.lvl > 0 THEN "seq" ELSE "stop")
         ELSE IF Tiny(expr, ctx) /\ Steps(expr) < NestBudget THEN "tiny"
         ELSE IF Depth(expr) = 1 /\ Len(expr) = 1 THEN "post"
         ELSE "stop"
AppendAny(st) == CASE st = "walk" -> SeqCodes \cup TinyCodes [] st = "first" -> FlatCodes [] st = "seq" -> SeqCodes \cup TinyCodes
                   [] st = "tiny" -> TinyCodes [] st = "post" -> {PostCode} [] OTHER -> {}
AppendCodes(st) == AppendAny(st) \cap CodesIn(ctx)
AppendArgs(st, code) == CASE st = "walk" -> Tuples(KindsOf(code), ctx, FALSE)
                          [] st = "first" -> Tuples(KindsOf(code), ctx, ctx.lvl = 2 \/ (ctx.lvl = 1 /\ Sens(code)))
                          [] OTHER -> {SeqArgs(code, ctx)}
\* walk: wrapping and handing over are offered only now and then (the simulator picks among the enabled
\* actions uniformly, not among the successors), so that expressions grow long and nest at several places
CanWrap == IF Mode = "walk" THEN Depth(expr) < MaxDepth /\ Steps(expr) < MaxLen /\ (Steps(expr) % 7) = 3
           ELSE \/ Depth(expr) = 0 /\ MaxDepth > 0 /\ Len(expr) <= WrapLen /\ AllSeq(expr, ctx)
                \/ Depth(expr) >= 1 /\ Depth(expr) < MaxDepth /\ Tiny(expr, ctx) /\ Steps(expr) < NestBudget

(* ======================================================================= *)
(* (D) The reader machine                                                  *)
(* A frame is one expression being read: [base, end) in the input, the      *)
(* operations completed so far, the operation in progress.                  *)
(* ======================================================================= *)
NoOp == [code |-> -1, args |-> <<>>, off |-> 0]
Frame(base, end, lp) == [base |-> base, end |-> end, out |-> <<>>, cur |-> NoOp, lp |-> lp]
Idle == [bytes |-> <<>>, pos |-> 0, stack |-> <<>>]
RInit(bs) == [bytes |-> bs, pos |-> 0, stack |-> <<Frame(0, Len(bs), 0)>>]
Top(r) == r.stack[Len(r.stack)]
SetTop(r, f) == [r EXCEPT !.stack[Len(r.stack)] = f]
Pending(f) == f.cur.code # -1
NextKind(f) == KindsOf(f.cur.code)[Len(f.cur.args) + 1]
Window(r) == SubSeq(r.bytes, r.pos + 1, Top(r).end)          \* what is left of the current expression
\* an operation with all its operands joins the result
Settle(f) == IF Pending(f) /\ Len(f.cur.args) = Len(KindsOf(f.cur.code))
             THEN [f EXCEPT !.out = Append(f.out, f.cur), !.cur = NoOp] ELSE f

Bad == [ok |-> FALSE, used |-> 0, val |-> <<>>]
\* a ULEB128 length that the specification can compute with (<= 4 groups)
BlockLen(bs) == LET d == LebDec(bs, FALSE) IN
                IF ~d.ok \/ d.used > 4 THEN [ok |-> FALSE, used |-> 0, n |-> 0, lp |-> 0]
                ELSE LET n == GroupsNat(d.val.g) IN [ok |-> TRUE, used |-> d.used, n |-> n, lp |-> d.used - Len(UlebOfNat(n))]
RECURSIVE ReadArg(_, _, _)
ReadArg(k, bs, c) ==
  CASE IsFix(k) -> LET w == Width(k, c) IN
                   IF Len(bs) < w THEN Bad
                   ELSE [ok |-> TRUE, used |-> w, val |-> FixDec(SubSeq(bs, 1, w), c.le, SignedK(k))]
    [] IsLeb(k) -> LET d == LebDec(bs, SignedK(k)) IN IF d.ok THEN [ok |-> TRUE, used |-> d.used, val |-> d.val] ELSE Bad
    [] k = "blk" -> LET l == BlockLen(bs) IN
                    IF ~l.ok \/ Len(bs) < l.used + l.n THEN Bad
                    ELSE [ok |-> TRUE, used |-> l.used + l.n, val |-> [b |-> SubSeq(bs, l.used + 1, l.used + l.n), lp |-> l.lp]]
    [] k = "tblob" -> IF bs = <<>> \/ Len(bs) < 1 + bs[1] THEN Bad
                      ELSE [ok |-> TRUE, used |-> 1 + bs[1], val |-> [b |-> SubSeq(bs, 2, 1 + bs[1])]]
    [] k = "wasm" -> IF bs = <<>> \/ bs[1] > 3 THEN Bad
                     ELSE LET a == ReadArg(IF bs[1] = 3 THEN "u4" ELSE "uleb", Tail(bs), c) IN
                          IF ~a.ok THEN Bad ELSE [ok |-> TRUE, used |-> 1 + a.used, val |-> [wk |-> bs[1], i |-> a.val]]
    [] OTHER -> Bad

CanReadOpcode(r, c) == LET f == Top(r) IN ~Pending(f) /\ r.pos < f.end /\ r.bytes[r.pos + 1] \in Codes /\ Settled(r.bytes[r.pos + 1], c)
DoReadOpcode(r) ==
  LET f == Top(r)   code == r.bytes[r.pos + 1] IN
  [SetTop(r, Settle([f EXCEPT !.cur = [code |-> code, args |-> <<>>, off |-> r.pos - f.base]])) EXCEPT !.pos = r.pos + 1]

CanReadOperand(r, c) == LET f == Top(r) IN Pending(f) /\ NextKind(f) # "expr" /\ ReadArg(NextKind(f), Window(r), c).ok
DoReadOperand(r, c) ==
  LET f == Top(r)   a == ReadArg(NextKind(f), Window(r), c) IN
  [SetTop(r, Settle([f EXCEPT !.cur.args = Append(@, a.val)])) EXCEPT !.pos = r.pos + a.used]

CanDescend(r) == LET f == Top(r) IN
                 Pending(f) /\ NextKind(f) = "expr" /\ LET l == BlockLen(Window(r)) IN l.ok /\ l.used + l.n <= f.end - r.pos
DoDescend(r) ==
  LET l == BlockLen(Window(r))   b == r.pos + l.used IN
  [r EXCEPT !.pos = b, !.stack = Append(@, Frame(b, b + l.n, l.lp))]

CanAscend(r) == Len(r.stack) > 1 /\ ~Pending(Top(r)) /\ r.pos = Top(r).end
DoAscend(r) ==
  LET f == Top(r)   n == Len(r.stack)   p == r.stack[n - 1] IN
  [r EXCEPT !.stack = Append(SubSeq(r.stack, 1, n - 2), Settle([p EXCEPT !.cur.args = Append(@, [e |-> f.out, lp |-> f.lp])]))]

Finished(r) == Len(r.stack) = 1 /\ ~Pending(Top(r)) /\ r.pos = Top(r).end

\* run to completion (the trace specification decodes recorded byte strings with this)
RStep(r, c) == CASE CanReadOpcode(r, c) -> DoReadOpcode(r) [] CanReadOperand(r, c) -> DoReadOperand(r, c)
                 [] CanDescend(r) -> DoDescend(r) [] CanAscend(r) -> DoAscend(r) [] OTHER -> r
RECURSIVE RunR(_, _)
RunR(r, c) == IF Finished(r) THEN r ELSE LET n == RStep(r, c) IN IF n = r THEN r ELSE RunR(n, c)
Dec(bs, c) == LET r == RunR(RInit(bs), c) IN
              IF Finished(r) THEN [ok |-> TRUE, out |-> r.stack[1].out, pos |-> r.pos]
              ELSE [ok |-> FALSE, out |-> <<>>, pos |-> r.pos]

(* ======================================================================= *)
(* (E) The state machine                                                   *)
(* ======================================================================= *)
Init == ctx \in Ctxs /\ expr = <<>> /\ phase = "write" /\ rd = Idle

AppendOp == /\ phase = "write"
            /\ LET st == Stage IN
               \E code \in AppendCodes(st) : \E t \in AppendArgs(st, code) :
                  expr' = Append(expr, [code |-> code, args |-> t])
            /\ UNCHANGED <<ctx, phase, rd>>
Wrap == /\ phase = "write" /\ CanWrap
        /\ \E nf \in NestForms : expr' = <<[code |-> nf[1], args |-> <<[e |-> expr, lp |-> nf[2]]>>]>>
        /\ UNCHANGED <<ctx, phase, rd>>
CanClose == Mode = "walk" => ((Steps(expr) % 25) = 24 \/ Steps(expr) >= MaxLen)
Close == /\ phase = "write" /\ CanClose
         /\ phase' = "read" /\ rd' = RInit(EncExpr(expr, ctx))
         /\ UNCHANGED <<ctx, expr>>

ReadOpcode == phase = "read" /\ CanReadOpcode(rd, ctx) /\ rd' = DoReadOpcode(rd) /\ UNCHANGED <<ctx, expr, phase>>
ReadOperand == phase = "read" /\ CanReadOperand(rd, ctx) /\ rd' = DoReadOperand(rd, ctx) /\ UNCHANGED <<ctx, expr, phase>>
Descend == phase = "read" /\ CanDescend(rd) /\ rd' = DoDescend(rd) /\ UNCHANGED <<ctx, expr, phase>>
Ascend == phase = "read" /\ CanAscend(rd) /\ rd' = DoAscend(rd) /\ UNCHANGED <<ctx, expr, phase>>
Finish == phase = "read" /\ Finished(rd) /\ phase' = "done" /\ UNCHANGED <<ctx, expr, rd>>

Next == AppendOp \/ Wrap \/ Close \/ ReadOpcode \/ ReadOperand \/ Descend \/ Ascend \/ Finish
Spec == Init /\ [][Next]_vars

(* ======================================================================= *)
(* (F) Properties                                                          *)
(* ======================================================================= *)
Result == rd.stack[1].out
RoundTrip == phase = "done" => Result = Annot(expr, ctx)
ReEncode == phase = "done" => EncExpr(Result, ctx) = rd.bytes
Tiling == phase = "done" =>
            LET out == Result   n == Len(out) IN
            /\ n > 0 => out[1].off = 0
            /\ \A i \in 1..n : out[i].off + Len(EncOp(out[i], ctx)) = (IF i < n THEN out[i + 1].off ELSE Len(rd.bytes))
            /\ n = 0 => rd.bytes = <<>>
DecAgrees == phase = "done" => Dec(rd.bytes, ctx) = [ok |-> TRUE, out |-> Result, pos |-> Len(rd.bytes)]
FramesNest == phase # "write" =>
                /\ Len(rd.stack) >= 1 /\ Len(rd.stack) <= 1 + Depth(expr)
                /\ \A i \in 1..Len(rd.stack) : /\ rd.stack[i].base <= rd.stack[i].end
                                               /\ i > 1 => /\ rd.stack[i - 1].base < rd.stack[i].base
                                                           /\ rd.stack[i].end <= rd.stack[i - 1].end
                                                           /\ Pending(rd.stack[i - 1])
                /\ Top(rd).base <= rd.pos /\ rd.pos <= Top(rd).end
Enabled == <<CanReadOpcode(rd, ctx), CanReadOperand(rd, ctx), CanDescend(rd), CanAscend(rd), Finished(rd)>>
NeverStuck == phase = "read" => \E i \in 1..5 : Enabled[i]
Deterministic == phase = "read" => LET en == Enabled IN Cardinality({i \in 1..5 : en[i]}) <= 1
\* every reader step consumes input or leaves a frame
Variant(r) == 2 * (Len(r.bytes) - r.pos) + Len(r.stack)
Terminates == [][(phase = "read" /\ phase' = "read") => Variant(rd') < Variant(rd)]_vars
\* the bytes of an expression do not depend on the version, wherever all its operations are settled
RECURSIVE AllSettled(_, _)
AllSettled(e, c) == \A i \in 1..Len(e) : /\ Settled(e[i].code, c)
                                          /\ e[i].code \in NestCodes => AllSettled(e[i].args[1].e, c)
VersionFree == phase = "done" =>
                 /\ AllSettled(expr, ctx)
                 /\ \A v \in Versions : LET c == [ctx EXCEPT !.ver = v] IN
                                         AllSettled(expr, c) => EncExpr(expr, c) = rd.bytes /\ Annot(expr, c) = Result

(* ======================================================================= *)
(* (G) Emission: the bytes and what a correct parser returns               *)
(* op = <<opcode, name, args, offset>>; arg = [d, s] | [g, s] | [b] | [e, n = byte length of the block] *)
(* ======================================================================= *)
RECURSIVE Present(_, _)
PresentArg(k, a, c) == CASE k = "expr" -> <<[e |-> Present(a.e, c), n |-> Len(EncExpr(a.e, c))]>>
                         [] k \in {"blk", "tblob"} -> <<[b |-> a.b]>>
                         [] k = "wasm" -> <<[d |-> <<a.wk>>, s |-> FALSE], a.i>>
                         [] OTHER -> <<a>>
Present(out, c) == IF out = <<>> THEN <<>>
                   ELSE LET o == Head(out)   ks == KindsOf(o.code) IN
                        <<<<o.code, NameOf(o.code), Flat([j \in 1..Len(ks) |-> PresentArg(ks[j], o.args[j], c)]), o.off>>>>
                        \o Present(Tail(out), c)
Tag == IF expr = <<>> THEN "empty" ELSE IF Depth(expr) > 0 THEN "nest" ELSE IF Len(expr) > 1 THEN "seq" ELSE "op"
NameTable == [names |-> {<<c, NameOf(c)>> : c \in Codes}, markers |-> {Markers[i] : i \in 1..Len(Markers)}]
Emit ==
  /\ (phase = "write" /\ expr = <<>>) => CSVWrite("%1$s", <<ToJson([t |-> "table", tab |-> NameTable])>>, IOEnv.OUT)
  /\ phase = "done" =>
       CSVWrite("%1$s", <<ToJson([t |-> Tag, c |-> <<ctx.asz, ctx.osz, IF ctx.le THEN 1 ELSE 0, ctx.ver>>,
                                  b |-> rd.bytes, x |-> Present(Annot(expr, ctx), ctx)])>>, IOEnv.OUT)

(* ======================================================================= *)
(* Configurations (cfg files select these)                                 *)
(* ======================================================================= *)
\* every (address size, offset size, byte order) has one primary version that gets the big sweep (level hi, or 2 in
\* the two corner contexts); the other four versions get level lo.  The primaries are spread so that "none stated"
\* and every unit version is primary somewhere, 2 only where address size = offset size.
Primary(a, o, l) == CASE a = 4 /\ o = 4 -> (IF l THEN 5 ELSE 3)
                      [] a = 8 /\ o = 8 -> (IF l THEN 4 ELSE 2)
                      [] a = 8 /\ o = 4 -> (IF l THEN 0 ELSE 4)
                      [] a = 4 /\ o = 8 -> (IF l THEN 3 ELSE 0)
CtxOf(hi, lo) == {[asz |-> a, osz |-> o, le |-> l, ver |-> v,
                   lvl |-> IF v # Primary(a, o, l) THEN lo
                           ELSE IF (a = 4 /\ o = 4 /\ l) \/ (a = 8 /\ o = 8 /\ ~l) THEN 2 ELSE hi]
                    : a \in {4, 8}, o \in {4, 8}, l \in BOOLEAN, v \in Versions}
CtxQuick == CtxOf(1, 0)
CtxAll == CtxOf(2, 0)                                           \* simulation (levels play no part in walk mode)
CtxThorough == {c \in CtxOf(2, 0) : c.lvl = 2}                  \* thorough grid: the 8 primaries in full ...
CtxVersions == {c \in CtxOf(2, 1) : c.lvl = 1}                  \* ... and (Expr_versions.cfg) the other 32 at level 1
ASSUME CtxThorough \cap CtxVersions = {} /\ Cardinality(CtxThorough) = 8 /\ Cardinality(CtxVersions) = 32
ASSUME {[asz |-> c.asz, osz |-> c.osz, le |-> c.le, ver |-> c.ver] : c \in CtxThorough \cup CtxVersions}
       = {[asz |-> c.asz, osz |-> c.osz, le |-> c.le, ver |-> c.ver] : c \in CtxAll}
Bytes5 == {0, 1, 127, 128, 255}
Bytes7 == {0, 1, 85, 127, 128, 254, 255}
Bytes256 == 0..255
Groups5 == {0, 1, 63, 64, 127}
Groups8 == {0, 1, 2, 63, 64, 65, 126, 127}
Fill2 == {0, 127}
Fill3 == {0, 85, 127}
LensQuick == {1, 2, 3, 10}
LensThorough == {1, 2, 3, 4, 5, 9, 10}
BlobLensQuick == {0, 1, 127, 128, 300}
BlobLensThorough == {0, 1, 2, 127, 128, 255, 256, 300, 1000}
TBlobLensQuick == {0, 1, 2, 8, 16, 127, 128, 255}
FormsQuick == {<<163, 0>>, <<243, 1>>}
FormsAll == {<<163, 0>>, <<163, 1>>, <<243, 0>>, <<243, 1>>}
=============================================================================
