--------------------------- MODULE RegistryTrace ---------------------------
(***************************************************************************)
(* Validates the library's exported (table, name, value) pairs, recorded    *)
(* from the tree under test, against the specification's registry.          *)
(* Event kinds:                                                            *)
(*   "fwd"  name -> value  (a standard name selects the standard code)      *)
(*   "rev"  value -> name  (a code found in a file is reported under one of *)
(*                          its standard names)                            *)
(*   "dec"  value -> name through the library's Enum adapter, with all the  *)
(*          names its table has for the code: aliased codes are reported    *)
(*          under a proper standard name, not a range bound or misspelling  *)
(* Total verdict: a failing event is recorded in `bad`, never a deadlock.   *)
(***************************************************************************)
EXTENDS Integers, Sequences, TLC, Json, CSV, IOUtils
INSTANCE RegistryData

Log == ndJsonDeserialize(IOEnv.TRACE)

StdNames(pairs, code) == LET hits == {i \in 1..Len(pairs) : pairs[i][1] = code} IN
                         IF hits = {} THEN {} ELSE pairs[CHOOSE i \in hits : TRUE][2]

\* vendor extension ranges (DWARF5 7.7.1 DW_OP_lo_user 0xe0..0xff, 7.24 DW_CFA_lo_user 0x1c..0x3f, 7.5.6 DW_FORM vendor forms from
\* 0x1f00): several vendors name the same code differently there, the registry (LLVM's names) is not authoritative
VendorRange(family, d) ==
  CASE family = "DW_OP_BASE" -> Len(d) > 1 \/ d[1] >= 224
    [] family = "DW_CFA_BASE" -> Len(d) > 1 \/ (d[1] >= 28 /\ d[1] <= 63)
    [] family = "DW_FORM_BASE" -> Len(d) > 1
    [] OTHER -> TRUE

VARIABLES l, bad, checked, unknown
vars == <<l, bad, checked, unknown>>

Init == l = 1 /\ bad = {} /\ checked = 0 /\ unknown = 0

Step ==
  /\ l <= Len(Log)
  /\ l' = l + 1
  /\ LET e == Log[l] IN
     IF e.kind = "dec"
     THEN \* decoding direction through the library's own enum adapter: the reported name is one of the table's names for the code, and
          \* when the code has proper standard names among them (registry names of that value that are not range bounds) it is one of those
          LET al == {e.aliases[i] : i \in 1..Len(e.aliases)}
              std == {a \in al : a \in DOMAIN Reg /\ a \notin RegAmbiguous /\ a \notin RegMarkers /\ Reg[a] = e.value}
          IN IF e.name \notin al
             THEN checked' = checked + 1 /\ UNCHANGED unknown /\ bad' = bad \cup {<<e.table, e.name, e.value, e.value, "dec_not_a_name_of_the_code">>}
             ELSE IF std = {} THEN unknown' = unknown + 1 /\ UNCHANGED <<bad, checked>>
             ELSE /\ checked' = checked + 1 /\ UNCHANGED unknown
                  /\ IF e.name \in std THEN UNCHANGED bad
                     ELSE bad' = bad \cup {<<e.table, e.name, e.value, e.value, "dec_nonstandard_name">>}
     ELSE IF e.name \in RegAmbiguous \/ e.name \notin DOMAIN Reg
     THEN \* a name the registry does not define.  In the decoding direction (code -> name) that is still wrong when the
          \* registry HAS a name for this code in the table's family: a code found in a file must be reported under one
          \* of its standard names.
          IF e.kind = "rev" /\ e.family \in DOMAIN RegByCode /\ ~VendorRange(e.family, e.value) /\ StdNames(RegByCode[e.family], e.value) # {}
          THEN /\ checked' = checked + 1 /\ UNCHANGED unknown
               /\ bad' = bad \cup {<<e.table, e.name, e.value, e.value, "rev_nonstandard_name">>}
          ELSE unknown' = unknown + 1 /\ UNCHANGED <<bad, checked>>
     ELSE /\ checked' = checked + 1
          /\ UNCHANGED unknown
          /\ IF Reg[e.name] = e.value THEN UNCHANGED bad
             ELSE bad' = bad \cup {<<e.table, e.name, e.value, Reg[e.name], e.kind>>}

Spec == Init /\ [][Step]_vars

Done == l = Len(Log) + 1
Report == Done => CSVWrite("%1$s", <<ToJson([checked |-> checked, unknown |-> unknown, bad |-> bad])>>, IOEnv.OUT)
Consumed == TLCGet("stats").diameter - 1 = Len(Log)
=============================================================================
