--------------------------- MODULE RegistryTrace ---------------------------
(***************************************************************************)
(* Validates the library's exported (table, name, value) pairs, recorded    *)
(* from the tree under test, against the specification's registry.          *)
(* Event kinds:                                                            *)
(*   "fwd"  name -> value  (a standard name selects the standard code)      *)
(*   "rev"  value -> name  (a code found in a file is reported under one of *)
(*                          its standard names)                            *)
(* Total verdict: a failing event is recorded in `bad`, never a deadlock.   *)
(***************************************************************************)
EXTENDS Integers, Sequences, TLC, Json, CSV, IOUtils
INSTANCE RegistryData

Log == ndJsonDeserialize(IOEnv.TRACE)

VARIABLES l, bad, checked, unknown
vars == <<l, bad, checked, unknown>>

Init == l = 1 /\ bad = {} /\ checked = 0 /\ unknown = 0

Step ==
  /\ l <= Len(Log)
  /\ l' = l + 1
  /\ LET e == Log[l] IN
     IF e.name \in RegAmbiguous \/ e.name \notin DOMAIN Reg
     THEN unknown' = unknown + 1 /\ UNCHANGED <<bad, checked>>
     ELSE /\ checked' = checked + 1
          /\ UNCHANGED unknown
          /\ IF Reg[e.name] = e.value THEN UNCHANGED bad
             ELSE bad' = bad \cup {<<e.table, e.name, e.value, Reg[e.name], e.kind>>}

Spec == Init /\ [][Step]_vars

Done == l = Len(Log) + 1
Report == Done => CSVWrite("%1$s", <<ToJson([checked |-> checked, unknown |-> unknown, bad |-> bad])>>, IOEnv.OUT)
Consumed == TLCGet("stats").diameter - 1 = Len(Log)
=============================================================================
