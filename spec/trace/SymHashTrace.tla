---------------------------- MODULE SymHashTrace ----------------------------
(***************************************************************************)
(* C03, trace validation.  For every SHT_HASH / SHT_GNU_HASH section of the *)
(* corpus files the driver records the raw bytes of the hash section, of    *)
(* the linked symbol table and of its string table, then what the library   *)
(* answered for every queried name (every name of the symbol table and      *)
(* absent names derived from them) and for the symbol count.  This module   *)
(* runs the byte-level reader machines of HashWalk.tla (the same operators   *)
(* SymHash.tla model-checks) on those bytes and judges every answer.         *)
(*                                                                         *)
(* Events (every field has one type in all events):                        *)
(*   k="tab"  t = table id, kind = "gnu" | "sysv", cls, le, h / sym / str =  *)
(*            the three sections' bytes, ent = sh_entsize of the symbol table*)
(*   k="q"    name = the queried bytes, res = the symbol table indices whose *)
(*            entry equals the returned symbol (<<>>: nothing was returned)  *)
(*   k="cnt"  n = get_number_of_symbols()                                   *)
(* Verdicts.  A lookup is accepted when it is the machine's answer, or       *)
(* another hashed symbol bearing the name (the property asks for "a symbol  *)
(* with the requested name"); "missed": the machine finds the name, the     *)
(* library nothing; "phantom": the library returns a symbol where the table *)
(* holds none; "wrong": the returned symbol does not bear the name.  Tables  *)
(* whose header is ill-formed, walks that leave the section (fault) and     *)
(* SysV names whose figure 5-13 value depends on the width of unsigned long *)
(* are not judged (counted in `skip`).  A count is judged when the table     *)
(* determines it: SysV nchain, GNU chain end of the highest bucket or        *)
(* symoffset = table length; GNU tables without a populated bucket whose     *)
(* symoffset is not the table length are listed in `undet` and not judged.   *)
(* Total verdict: failures are collected in `bad`; nothing deadlocks.        *)
(***************************************************************************)
EXTENDS HashWalk, FiniteSets, TLC, Json, CSV, IOUtils

Log == ndJsonDeserialize(IOEnv.TRACE)

VARIABLES l, cur, okq, okc, bad, skip, undet, illt
vars == <<l, cur, okq, okc, bad, skip, undet, illt>>

Init == l = 1 /\ cur = 0 /\ okq = 0 /\ okc = 0 /\ bad = {} /\ skip = 0 /\ undet = {} /\ illt = {}

Mem(e) == [cls |-> e.cls, le |-> e.le, h |-> e.h, sym |-> e.sym, str |-> e.str, ent |-> e.ent]
TabOK(e) == e.ent >= 8 /\ (IF e.kind = "gnu" THEN GnuHdrOK(Mem(e)) ELSE SysVHdrOK(Mem(e)))
Elems(s) == {s[i] : i \in 1..Len(s)}

TabStep(e) ==
  /\ cur' = l
  /\ illt' = IF TabOK(e) THEN illt ELSE illt \cup {e.t}
  /\ UNCHANGED <<okq, okc, bad, skip, undet>>

QStep(e) ==
  LET T == Log[cur]   m == Mem(T) IN
  IF e.t \in illt \/ (T.kind = "sysv" /\ ElfAmbiguous(e.name)) THEN skip' = skip + 1 /\ UNCHANGED <<cur, okq, okc, bad, undet, illt>>
  ELSE LET r == IF T.kind = "gnu" THEN GnuLookup(m, e.name) ELSE SysVLookup(m, e.name)
           from == IF T.kind = "gnu" THEN GnuHdr(m).so ELSE 1
           got == Elems(e.res) IN
       IF r.pc = "fault" THEN skip' = skip + 1 /\ UNCHANGED <<cur, okq, okc, bad, undet, illt>>
       ELSE LET why == IF got = {} THEN (IF r.res = -1 THEN "ok" ELSE "missed")
                       ELSE IF r.res = -1 THEN "phantom"
                       ELSE IF r.res \in got THEN "ok"
                       ELSE IF \E c \in got : c >= from /\ c < NSyms(m) /\ NameIs(m, c, e.name) THEN "ok"
                       ELSE "wrong" IN
            /\ okq' = IF why = "ok" THEN okq + 1 ELSE okq
            /\ bad' = IF why = "ok" THEN bad ELSE bad \cup {<<e.t, l, why, r.res>>}
            /\ UNCHANGED <<cur, okc, skip, undet, illt>>

CStep(e) ==
  LET T == Log[cur]   m == Mem(T) IN
  IF e.t \in illt THEN skip' = skip + 1 /\ UNCHANGED <<cur, okq, okc, bad, undet, illt>>
  ELSE IF T.kind = "sysv"
       THEN IF SysVCount(m) # NSyms(m) THEN skip' = skip + 1 /\ UNCHANGED <<cur, okq, okc, bad, undet, illt>>     \* the table itself is off
            ELSE /\ okc' = IF e.n = NSyms(m) THEN okc + 1 ELSE okc
                 /\ bad' = IF e.n = NSyms(m) THEN bad ELSE bad \cup {<<e.t, l, "count", NSyms(m)>>}
                 /\ UNCHANGED <<cur, okq, skip, undet, illt>>
       ELSE LET c == GnuCount(m) IN
            IF c.pc = "fault" THEN skip' = skip + 1 /\ UNCHANGED <<cur, okq, okc, bad, undet, illt>>
            ELSE IF ~c.flag /\ c.res # NSyms(m)
                 THEN undet' = undet \cup {<<e.t, e.n, NSyms(m)>>} /\ UNCHANGED <<cur, okq, okc, bad, skip, illt>>
            ELSE IF c.res # NSyms(m) THEN skip' = skip + 1 /\ UNCHANGED <<cur, okq, okc, bad, undet, illt>>        \* the table itself is off
            ELSE /\ okc' = IF e.n = c.res THEN okc + 1 ELSE okc
                 /\ bad' = IF e.n = c.res THEN bad ELSE bad \cup {<<e.t, l, "count", c.res>>}
                 /\ UNCHANGED <<cur, okq, skip, undet, illt>>

Step ==
  /\ l <= Len(Log)
  /\ l' = l + 1
  /\ LET e == Log[l] IN
     CASE e.k = "tab" -> TabStep(e)
       [] e.k = "q" -> QStep(e)
       [] e.k = "cnt" -> CStep(e)

Spec == Init /\ [][Step]_vars

Done == l = Len(Log) + 1
Report == Done => CSVWrite("%1$s", <<ToJson([okq |-> okq, okc |-> okc, skip |-> skip, bad |-> bad, undet |-> undet, ill |-> illt])>>, IOEnv.OUT)
Consumed == TLCGet("stats").diameter - 1 = Len(Log)
=============================================================================
