---------------------------- MODULE RelocTrace ----------------------------
(***************************************************************************)
(* C08, T direction.  Events recorded from the library on corpus files:     *)
(*   k = "reloc": one cluster of relocations of a loaded debug section of a *)
(*       relocatable object: m (e_machine), cls, le, rela, lo (section      *)
(*       offset of the cluster), before / after (the bytes [lo, hi) of the  *)
(*       unrelocated / relocated stream), chain = the relocations in table  *)
(*       order: <<type, S (8 digits), A (wordsize digits, two's complement; *)
(*       zeros for REL), r_offset, thumbfunc>>;                            *)
(*   k = "rest": number of bytes outside every cluster that differ between  *)
(*       the two streams of one section (must be 0);                        *)
(*   k = "relr": words of a SHT_RELR section and the yielded addresses.     *)
(* A cluster is validated by folding Reloc!ApplyStep (the recipe table)     *)
(* over `before`: the result must be `after`, byte for byte - the field(s)  *)
(* and the bytes around them.  Chains that use a (machine, type, flavour)   *)
(* the specification does not assert (Recipe kind # "ok", ARM function      *)
(* symbols) are counted as `outside`.  Total verdict: failures are          *)
(* collected in `bad`; TLC never deadlocks on a mismatch.                   *)
(***************************************************************************)
EXTENDS Reloc

Log == ndJsonDeserialize(IOEnv.TRACE)

VARIABLES l, bad, agree, outside
tvars == <<l, bad, agree, outside, Mode, obj, phase, st>>

TInit == /\ l = 1 /\ bad = <<>> /\ agree = 0 /\ outside = 0
         /\ Mode = "trace" /\ obj = <<>> /\ phase = "trace" /\ st = Idle

RECURSIVE Fold(_, _, _)
Fold(ev, buf, j) ==
  IF j > Len(ev.chain) THEN [buf |-> buf, err |-> ""]
  ELSE LET c == ev.chain[j]
           o == [cls |-> ev.cls, le |-> ev.le, machine |-> ev.m, rela |-> ev.rela, syms |-> <<c[2]>>]
           e == Entry(LEn(c[4], 8), <<0, 0, 0, 0>>, LEn(c[1], 4), c[3], 0, 0, 0)
           r == IF c[5] THEN [buf |-> buf, err |-> "unspecified"] ELSE ApplyStep(o, buf, ev.lo, e)
       IN IF r.err # "" THEN r ELSE Fold(ev, r.buf, j + 1)

Verdict(ev) ==
  CASE ev.k = "reloc" -> LET r == Fold(ev, ev.before, 1) IN
                         IF r.err # "" THEN <<"outside">>
                         ELSE IF r.buf = ev.after THEN <<"agree">>
                         ELSE <<"bad", <<ev.tid, "reloc", <<r.buf, ev.after>>>>>>
    [] ev.k = "rest" -> IF ev.rest = 0 THEN <<"agree">> ELSE <<"bad", <<ev.tid, "rest", <<<<0>>, <<ev.rest>>>>>>>>
    [] ev.k = "relr" -> IF ev.words # <<>> /\ ~Even(ev.words[1]) THEN <<"outside">>
                        ELSE LET out == RelrRun(RelrInit, ev.words, ev.cls \div 8).out IN
                             IF out = ev.addrs THEN <<"agree">> ELSE <<"bad", <<ev.tid, "relr", <<out, ev.addrs>>>>>>
    [] OTHER -> <<"bad", <<ev.tid, "unknown-event", <<<<>>, <<>>>>>>>>

Step ==
  /\ l <= Len(Log)
  /\ l' = l + 1
  /\ UNCHANGED <<Mode, obj, phase, st>>
  /\ \E v \in {Verdict(Log[l])} :                  \* (a singleton: the verdict is evaluated once)
     /\ agree' = IF v[1] = "agree" THEN agree + 1 ELSE agree
     /\ outside' = IF v[1] = "outside" THEN outside + 1 ELSE outside
     /\ bad' = IF v[1] = "bad" THEN Append(bad, v[2]) ELSE bad

TSpec == TInit /\ [][Step]_tvars

TDone == l = Len(Log) + 1
Report == TDone => CSVWrite("%1$s", <<ToJson([agree |-> agree, outside |-> outside, bad |-> bad])>>, IOEnv.OUT)
Consumed == TLCGet("stats").diameter - 1 = Len(Log)
=============================================================================
