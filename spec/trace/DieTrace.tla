------------------------------ MODULE DieTrace ------------------------------
(***************************************************************************)
(* C04, T direction: the entry streams recorded from the real code on       *)
(* compiler-produced units must be behaviours of the reader machine of      *)
(* DieTree: entries tile the unit (each starts where the previous one       *)
(* ended, the first at the end of the unit header), a null entry closes     *)
(* exactly the innermost open sibling list, an entry with children opens    *)
(* one, the parent the library reports is the innermost open entry, and     *)
(* the nesting depth is back to 0 when the walk ends inside the unit's      *)
(* declared length.  Total verdict: failures are collected, the machine     *)
(* resynchronises at the next unit.                                         *)
(* Events: unit [tid, off, die_off, end]; die [tid, off, size, null, kids,  *)
(* parent]; end [tid].  Offsets are Small (sections < 2^30 bytes).          *)
(***************************************************************************)
EXTENDS Integers, Sequences, TLC, Json, CSV, IOUtils

Log == ndJsonDeserialize(IOEnv.TRACE)

VARIABLES l, pos, stack, uend, dead, bad, ok, padded
vars == <<l, pos, stack, uend, dead, bad, ok, padded>>

Init == l = 1 /\ pos = 0 /\ stack = <<>> /\ uend = 0 /\ dead = TRUE /\ bad = {} /\ ok = 0 /\ padded = 0

Fail(e, why) == /\ bad' = bad \cup {<<e.tid, l, why>>} /\ dead' = TRUE /\ UNCHANGED <<pos, stack, uend, ok, padded>>
Top == IF stack = <<>> THEN -1 ELSE stack[Len(stack)]

Step ==
  /\ l <= Len(Log) /\ l' = l + 1
  /\ LET e == Log[l] IN
     CASE e.ev = "unit" -> /\ pos' = e.die_off /\ stack' = <<>> /\ uend' = e.end /\ dead' = FALSE /\ UNCHANGED <<bad, ok, padded>>
       [] dead -> UNCHANGED <<pos, stack, uend, dead, bad, ok, padded>>
       [] e.ev = "die" ->
            IF e.off # pos THEN Fail(e, "tiling: entry does not start where the previous one ended")
            ELSE IF e.off + e.size > uend THEN Fail(e, "entry runs past the unit's declared length")
            ELSE IF e.size <= 0 THEN Fail(e, "empty entry")
            ELSE IF e.parent # Top THEN Fail(e, "parent is not the innermost open entry")
            ELSE IF e.null /\ stack = <<>> THEN Fail(e, "null entry closes nothing")
            ELSE /\ pos' = e.off + e.size
                 /\ stack' = IF e.null THEN SubSeq(stack, 1, Len(stack) - 1) ELSE IF e.kids THEN Append(stack, e.off) ELSE stack
                 /\ UNCHANGED <<uend, dead, bad, ok, padded>>
       [] e.ev = "end" ->
            IF stack # <<>> THEN Fail(e, "walk ended with open sibling lists")
            ELSE /\ ok' = ok + 1 /\ padded' = padded + (IF pos < uend THEN 1 ELSE 0) /\ dead' = TRUE
                 /\ UNCHANGED <<pos, stack, uend, bad>>

Spec == Init /\ [][Step]_vars
Done == l = Len(Log) + 1
Report == Done => CSVWrite("%1$s", <<ToJson([ok |-> ok, padded |-> padded, bad |-> bad])>>, IOEnv.OUT)
Consumed == TLCGet("stats").diameter - 1 = Len(Log)
=============================================================================
