------------------------------ MODULE CFITrace ------------------------------
(***************************************************************************)
(* C06, binding T: traces recorded from the library on real ELF files are  *)
(* validated against spec/CFI.tla.  The interpreter operators (C!Exec ->   *)
(* C!Do_<opcode>), the instruction table (C!OpByByte), the well-formedness *)
(* guard (C!Pre) and the scan rules (C!ClassifyById, C!DesignatedCie) are  *)
(* the ones binding G uses: single source of truth.                        *)
(*                                                                         *)
(* Events of one section, in this order:                                   *)
(*   sec     section kind ("eh" | "debug") and size                        *)
(*   entry*  in section order: off, len, is64, idf (CIE_id / CIE_pointer   *)
(*           field, 8 LE digits), kind, cieoff (offset of the linked CIE)  *)
(*   endsec                                                                *)
(*   (begin instr* end)*  one trace per CIE, then per FDE: begin carries   *)
(*           off, caf/daf (CIE) or cieoff and the initial location pc      *)
(*           (FDE); instr carries the opcode byte and the operands of one  *)
(*           element of the public instruction list; end carries the rows  *)
(*           of get_decoded().table (exc = get_decoded() raised).          *)
(* Checked: entries tile the section (up to its end, or - the other reading  *)
(* of LSB 10.6.1.1 "processing shall end", see the header of CFI.tla - up   *)
(* to and including a zero terminator); kind agrees with the id field; the  *)
(* linked CIE is the designated one and is a CIE of the section; the       *)
(* library's table equals the model's table as a function location ->      *)
(* (CFA rule, register rules) (the comparison of binding G: later row at   *)
(* the same location wins, an empty row may be left out).  FDE traces      *)
(* start from the *model's* final state of their CIE trace.                *)
(*                                                                         *)
(* Total verdict: a failing event marks the trace dead and is recorded in  *)
(* `bad` (<<tid, event index, reason>>); traces the model cannot judge     *)
(* (operands beyond TLC integers, ill-formed programs, CIE unavailable)    *)
(* are recorded in `skipped`; nothing deadlocks.  The reasons              *)
(* def_cfa_sf_code_alignment, cfa_expression_only and                      *)
(* restore_without_initial_rules isolate the known deviations.             *)
(***************************************************************************)
EXTENDS Bytes, TLC, Json, CSV, IOUtils

C == INSTANCE CFI WITH Mode <- "trace", Pars <- {}, MaxEnts <- 0, Letters <- {}, CieProgs <- {}, CafDaf <- {},
                       MaxProg <- 0, par <- 0, sec <- <<>>, ist <- 0, dv <- 0

Log == ndJsonDeserialize(IOEnv.TRACE)

VARIABLES l,        \* next event
          scan,     \* [sk, nxt, cies, want]: scan state of the current section
          fin,      \* offset of a CIE of the current section -> its final model states and alignment factors
          cur,      \* the running trace
          bad, skipped, stats
vars == <<l, scan, fin, cur, bad, skipped, stats>>

ToSet(s) == {s[i] : i \in DOMAIN s}
Z8 == LEn(0, 8)
Idle == [tid |-> 0, kind |-> "", off |-> 0, sr |-> [st |-> C!St0(Z8), rows |-> <<>>], srd |-> [st |-> C!St0(Z8), rows |-> <<>>],
         ctx |-> C!Ctx(1, 1, {}, FALSE, FALSE), ctxd |-> C!Ctx(1, 1, {}, FALSE, TRUE), caf |-> 1, daf |-> 1,
         dead |-> TRUE, restored |-> FALSE]
Init == /\ l = 1 /\ scan = [sk |-> "", nxt |-> 0, cies |-> {}, want |-> {}, z |-> FALSE] /\ fin = <<>>
        /\ cur = Idle /\ bad = {} /\ skipped = {}
        /\ stats = [entries |-> 0, traces |-> 0, rows |-> 0, instrs |-> 0]

\* ------------------------------------------------------------------ scan
SecBegin(e) == /\ scan' = [sk |-> e.sk, nxt |-> 0, cies |-> {}, want |-> {}, z |-> FALSE] /\ fin' = <<>> /\ cur' = Idle
               /\ UNCHANGED <<bad, skipped, stats>>
SmallField(ds) == \A i \in DOMAIN ds : (i >= 4 => ds[i] = 0)          \* < 2^24: safe for NatOf
Entry(e) ==
  LET hdr == IF e.is64 THEN 12 ELSE 4
      ow == IF e.is64 THEN 8 ELSE 4
      idd == SubSeq(e.idf, 1, ow)
      iscie == C!ClassifyById(scan.sk, idd)
      okKind == CASE e.kind = "ZERO" -> scan.sk = "eh" /\ e.len = 0
                  [] e.kind = "CIE" -> iscie
                  [] e.kind = "FDE" -> ~iscie
                  [] OTHER -> FALSE
      judgeLink == e.kind = "FDE" /\ SmallField(e.idf)
      okLink == judgeLink => e.cieoff = C!DesignatedCie(scan.sk, e.off + hdr, NatOf(idd))
      fails == (IF e.off # scan.nxt THEN {<<e.tid, l, "scan.tiling">>} ELSE {})
               \cup (IF ~okKind THEN {<<e.tid, l, "scan.kind">>} ELSE {})
               \cup (IF ~okLink THEN {<<e.tid, l, "scan.cie_link">>} ELSE {})
  IN /\ bad' = bad \cup fails
     /\ skipped' = IF e.kind = "FDE" /\ ~judgeLink THEN skipped \cup {<<e.tid, l, "cie_pointer_beyond_model_range">>} ELSE skipped
     /\ scan' = [scan EXCEPT !.nxt = e.off + (IF e.kind = "ZERO" THEN 4 ELSE hdr + e.len),
                             !.z = (e.kind = "ZERO"),          \* the last entry reported so far is a terminator
                             !.cies = IF e.kind = "CIE" THEN @ \cup {e.off} ELSE @,
                             !.want = IF e.kind = "FDE" THEN @ \cup {e.cieoff} ELSE @]
     /\ stats' = [stats EXCEPT !.entries = @ + 1]
     /\ UNCHANGED <<fin, cur>>
SecEnd(e) ==
  /\ bad' = bad \cup (IF scan.nxt # e.size /\ ~scan.z THEN {<<e.tid, l, "scan.section_end">>} ELSE {})
                \cup (IF ~(scan.want \subseteq scan.cies) THEN {<<e.tid, l, "scan.linked_cie_not_in_section">>} ELSE {})
  /\ UNCHANGED <<scan, fin, cur, skipped, stats>>

\* ------------------------------------------------------------------ interpreter traces
Skip(e, why) == /\ skipped' = skipped \cup {<<e.tid, l, why>>} /\ cur' = [cur EXCEPT !.dead = TRUE]
                /\ UNCHANGED <<bad, fin, stats>>
FactorsOK(caf, daf) == caf >= 0 /\ caf <= 1048576 /\ daf >= -1024 /\ daf <= 1024
NoRows(st) == [st |-> st, rows |-> <<>>]
Begin(e) ==
  IF e.kind = "CIE" THEN
       /\ cur' = [tid |-> e.tid, kind |-> "CIE", off |-> e.off, sr |-> NoRows(C!St0(Z8)), srd |-> NoRows(C!St0(Z8)),
                  ctx |-> C!Ctx(e.caf, e.daf, {}, FALSE, FALSE), ctxd |-> C!Ctx(e.caf, e.daf, {}, FALSE, TRUE),
                  caf |-> e.caf, daf |-> e.daf, dead |-> ~FactorsOK(e.caf, e.daf), restored |-> FALSE]
       /\ skipped' = IF FactorsOK(e.caf, e.daf) THEN skipped ELSE skipped \cup {<<e.tid, l, "alignment_factor_beyond_model_range">>}
       /\ stats' = [stats EXCEPT !.traces = @ + 1]
       /\ UNCHANGED <<bad, fin>>
  ELSE IF e.cieoff \notin DOMAIN fin THEN
       /\ cur' = [Idle EXCEPT !.tid = e.tid]
       /\ skipped' = skipped \cup {<<e.tid, l, "cie_trace_unavailable">>}
       /\ stats' = [stats EXCEPT !.traces = @ + 1]
       /\ UNCHANGED <<bad, fin>>
  ELSE LET c == fin[e.cieoff] IN
       /\ cur' = [tid |-> e.tid, kind |-> "FDE", off |-> e.off,
                  sr |-> NoRows(C!FdeSt0(c.st, e.pc)), srd |-> NoRows(C!FdeSt0(c.sd, e.pc)),
                  ctx |-> C!Ctx(c.caf, c.daf, c.st.rules, TRUE, FALSE), ctxd |-> C!Ctx(c.caf, c.daf, c.sd.rules, TRUE, TRUE),
                  caf |-> c.caf, daf |-> c.daf, dead |-> FALSE, restored |-> FALSE]
       /\ stats' = [stats EXCEPT !.traces = @ + 1]
       /\ UNCHANGED <<bad, skipped, fin>>

Lim == 1048576
ArgOK(kind, v) ==
  CASE kind \in {"uleb", "sleb", "low6", "u1", "u2"} -> "n" \in DOMAIN v /\ v.n >= -Lim /\ v.n <= Lim
    [] kind = "block" -> "b" \in DOMAIN v
    [] OTHER -> "n" \in DOMAIN v \/ "d" \in DOMAIN v
ArgsOK(o, a) == Len(a) = Len(o.k) /\ \A i \in 1..Len(a) : ArgOK(o.k[i], a[i])
\* Well-formedness as in binding G, with one de-facto reading that compilers rely on (GNU as for RISC-V, MIPS,
\* LoongArch CIEs): DW_CFA_def_cfa_register before any CFA definition is taken as register + offset 0, the
\* zero-initialised state of every known consumer (libgcc, libunwind, binutils, LLVM).  Never generated by G.
PreT(st, ins, ctx) == C!Pre(st, ins, ctx, 8) \/ (ins.op = "DW_CFA_def_cfa_register" /\ st.cfa.k = "none")
\* one instruction of the public instruction list: the same step the G writer takes (C!StepRows -> C!Exec)
Instr(e) ==
  LET o == C!OpByByte[e.opc]
      ins == [op |-> o.n, a |-> e.args] IN
  IF o.n = "unknown" THEN Skip(e, "opcode_outside_the_table")
  ELSE IF ~ArgsOK(o, e.args) THEN Skip(e, "operands_beyond_model_range")
  ELSE IF ~PreT(cur.sr.st, ins, cur.ctx) THEN Skip(e, "ill_formed_program")
  ELSE /\ cur' = [cur EXCEPT !.sr = C!StepRows(@, ins, cur.ctx), !.srd = C!StepRows(@, ins, cur.ctxd),
                             !.restored = @ \/ o.n \in C!RestoreOps]
       /\ stats' = [stats EXCEPT !.instrs = @ + 1]
       /\ UNCHANGED <<bad, skipped, fin>>

\* The library's table against the model's, as functions location -> (CFA rule, register rules): a later row at
\* the same location replaces the earlier one, an empty row may be left out, a CIE's table has no location column.
RowEq(row, r, withpc) ==
  /\ withpc => row.pc = r.loc
  /\ row.cfa = <<r.cfa.k, r.cfa.reg, r.cfa.off, r.cfa.expr>>
  /\ ToSet(row.rules) = r.rules
Agrees(L, sr, isfde) ==
  LET t == C!Table(sr) IN
  IF ~isfde THEN /\ Len(L) <= 1
                 /\ (L = <<>> => t[Len(t)].e)
                 /\ (Len(L) = 1 => RowEq(L[1], t[Len(t)], FALSE))
  ELSE /\ \A j \in DOMAIN t : LET M == {i \in DOMAIN L : L[i].pc = t[j].loc} IN
                              IF M = {} THEN t[j].e ELSE RowEq(L[Max(M)], t[j], TRUE)
       /\ \A i \in DOMAIN L : \E j \in DOMAIN t : t[j].loc = L[i].pc
End(e) ==
  LET isfde == cur.kind = "FDE"
      fs == cur.sr.st
      why == IF e.exc THEN (IF cur.restored /\ cur.ctx.init = {} /\ cur.ctx.fde THEN "table.decode:restore_without_initial_rules"
                            ELSE "table.decode")
             ELSE IF Agrees(e.rows, cur.sr, isfde) THEN ""
             ELSE IF Agrees(e.rows, cur.srd, isfde) THEN "table.rows:def_cfa_sf_code_alignment"
             ELSE IF \E r \in ToSet(C!Table(cur.sr)) : r.cfa.k = "expr" /\ r.rules = {} THEN "table.rows:cfa_expression_only"
             ELSE "table.rows"
  IN IF e.big THEN Skip(e, "row_values_beyond_model_range")
     ELSE /\ bad' = IF why = "" THEN bad ELSE bad \cup {<<e.tid, l, why>>}
          \* the model's own final state of a CIE is what its FDEs start from, whatever the library did
          /\ fin' = IF cur.kind = "CIE"
                    THEN (cur.off :> [st |-> fs, sd |-> cur.srd.st, caf |-> cur.caf, daf |-> cur.daf]) @@ fin ELSE fin
          /\ cur' = [cur EXCEPT !.dead = TRUE]
          /\ stats' = [stats EXCEPT !.rows = @ + Len(e.rows)]
          /\ UNCHANGED skipped

Step ==
  /\ l <= Len(Log)
  /\ l' = l + 1
  /\ LET e == Log[l] IN
     CASE e.ev = "sec" -> SecBegin(e)
       [] e.ev = "entry" -> Entry(e)
       [] e.ev = "endsec" -> SecEnd(e)
       [] e.ev = "begin" -> Begin(e) /\ UNCHANGED scan
       [] e.ev = "instr" -> (IF cur.dead THEN UNCHANGED <<fin, cur, bad, skipped, stats>> ELSE Instr(e)) /\ UNCHANGED scan
       [] e.ev = "end" -> (IF cur.dead THEN UNCHANGED <<fin, cur, bad, skipped, stats>> ELSE End(e)) /\ UNCHANGED scan

Spec == Init /\ [][Step]_vars

Done == l = Len(Log) + 1
Report == Done => CSVWrite("%1$s", <<ToJson([bad |-> bad, skipped |-> skipped, stats |-> stats])>>, IOEnv.OUT)
Consumed == TLCGet("stats").diameter - 1 = Len(Log)
=============================================================================
