--------------------------- MODULE VersionsTrace ---------------------------
(***************************************************************************)
(* C15, binding T.  Validates what the library yields for the version      *)
(* sections of real files against the chain machine of Versions.tla run on *)
(* the raw bytes of those sections.                                        *)
(*                                                                         *)
(* One trace per section (field `id`).  Events, in the order the library   *)
(* yielded them:                                                           *)
(*   "open"   sec in {"def", "need", "sym"}, le, count (sh_info, or the    *)
(*            reported number of symbols), bytes (the section), strtab     *)
(*            (the linked string table; for "sym" the string table of the  *)
(*            linked symbol table), symtab + syment (for "sym")            *)
(*   "entry"  f = <<field name, LE digits>> pairs, name (file name of a    *)
(*            requirement entry)                                           *)
(*   "aux"    f, name                                                      *)
(*   "sym"    f = <<"ndx", digits>> or ename = the symbolic name reported  *)
(*            for a reserved value; name = the symbol's name               *)
(*   "end"    the library's iteration finished                             *)
(*   "raise"  the library raised                                           *)
(* An "entry" event must be the machine's FollowNext (if pending) followed *)
(* by ReadEntry, an "aux" event FollowAuxNext (if pending) + ReadAux, and  *)
(* "end" must find the machine finished; the fields and the resolved name  *)
(* of the record the machine read from the raw bytes must be the logged    *)
(* ones.  Total verdict: a failing event puts <<id, line, why>> into `bad` *)
(* and the rest of that trace is skipped; raw bytes on which the machine   *)
(* itself leaves the section are reported as `malformed` (not asserted).   *)
(***************************************************************************)
EXTENDS Integers, Sequences, FiniteSets, TLC, Json, CSV, IOUtils

VARIABLES l, src, m, skip, bad, malformed, ok
vars == <<l, src, m, skip, bad, malformed, ok>>

\* only the constant-level operators of Versions are used (layouts, Parse, the Do* steps of the machine)
V == INSTANCE Versions WITH Modes <- {}, Patterns <- {}, IAs <- {}, Containers <- {}, MaxEntries <- 0, MaxAux <- 0,
                            SmallEntries <- 0, SmallAux <- 0, BigCombos <- {}, NeedMode <- "rev", VsLens <- {},
                            Disciplines <- {}, SessPatterns <- {}, MaxCalls <- 0, FreeCombos <- {}, FreeIAs <- {},
                            FileDisciplines <- {}, FileIAs <- {}, MaxFileCalls <- 0,
                            phase <- l, ch <- l, obj <- l, img <- l, exp <- l, sec <- l, wk <- l, sess <- l

Log == ndJsonDeserialize(IOEnv.TRACE)

Cx(o) == [kind |-> o.sec, bytes |-> o.bytes, str |-> o.strtab, le |-> o.le, count |-> o.count]

\* the logged <<name, digits>> pairs are exactly the fields of layout F with the values of rec
FieldsMatch(F, rec, f) ==
  /\ Len(f) = Len(F)
  /\ {f[i][1] : i \in 1..Len(f)} = V!FieldNames(F)
  /\ \A i \in 1..Len(f) : V!CodeDigits(rec[f[i][1]]) = f[i][2]

Init == l = 1 /\ src = 0 /\ m = <<>> /\ skip = TRUE /\ bad = {} /\ malformed = {} /\ ok = 0

Fail(why) == /\ bad' = bad \cup {<<Log[l].id, l, why>>} /\ skip' = TRUE
             /\ UNCHANGED <<src, m, malformed, ok>>
Malf(why) == /\ malformed' = malformed \cup {<<Log[l].id, l, why>>} /\ skip' = TRUE
             /\ UNCHANGED <<src, m, bad, ok>>
Take(m2) == m' = m2 /\ UNCHANGED <<src, skip, bad, malformed, ok>>
Good == ok' = ok + 1 /\ skip' = TRUE /\ UNCHANGED <<src, m, bad, malformed>>

OnEntry(e, cx) ==
  LET w1 == IF m.pc = "next" THEN V!DoFollowNext(cx, m) ELSE m IN
  IF w1.pc # "entry" THEN Fail("entry_unexpected")
  ELSE IF ~V!EntryFits(cx, w1) THEN Malf("entry_outside_section")
  ELSE LET w2 == V!DoReadEntry(cx, w1) IN
       IF w2.cnt = 0 THEN Malf("entry_without_auxiliaries")
       ELSE IF ~FieldsMatch(V!EntF(cx.kind), w2.cur.r, e.f) THEN Fail("entry_fields")
       ELSE IF cx.kind = "need" /\ w2.cur.name # e.name THEN Fail("entry_name")
       ELSE Take(w2)

OnAux(e, cx) ==
  LET w1 == IF m.pc = "auxnext" THEN V!DoFollowAux(m) ELSE m IN
  IF w1.pc # "aux" THEN Fail("aux_unexpected")
  ELSE IF ~V!AuxFits(cx, w1) THEN Malf("aux_outside_section")
  ELSE LET w2 == V!DoReadAux(cx, w1) IN
       IF ~FieldsMatch(V!AuxF(cx.kind), w2.cur.r, e.f) THEN Fail("aux_fields")
       ELSE IF w2.cur.name # e.name THEN Fail("aux_name")
       ELSE Take(w2)

OnSym(e, o) ==
  IF o.count # V!SymCount(o.bytes) THEN Fail("sym_count")
  ELSE IF m.i >= o.count THEN Fail("sym_unexpected")
  ELSE IF (m.i + 1) * o.syment > Len(o.symtab) \/ o.syment < 4 THEN Malf("symbol_table_short")
  ELSE LET s == V!SymAt(o.bytes, o.symtab, o.syment, o.strtab, o.le, m.i) IN
       IF e.ename # "" /\ e.ename \notin V!VerNdxNames(s.ndx) THEN Fail("sym_ndx_name")
       ELSE IF e.ename = "" /\ e.f # << <<"ndx", V!CodeDigits(V!N(s.ndx))>> >> THEN Fail("sym_ndx")
       ELSE IF s.sym # e.name THEN Fail("sym_name")
       ELSE Take([i |-> m.i + 1])

OnEnd(o, cx) ==
  IF o.sec = "sym" THEN (IF m.i = o.count /\ o.count = V!SymCount(o.bytes) THEN Good ELSE Fail("sym_ended_early"))
  ELSE LET w1 == IF m.pc = "next" THEN V!DoFollowNext(cx, m) ELSE m IN
       IF w1.pc = "end" THEN Good ELSE Fail("ended_early")

Step ==
  /\ l <= Len(Log)
  /\ l' = l + 1
  /\ LET e == Log[l] IN
     IF e.ev = "open"
     THEN /\ src' = l /\ skip' = FALSE
          /\ m' = IF e.sec = "sym" THEN [i |-> 0] ELSE V!W0(Cx(e))
          /\ UNCHANGED <<bad, malformed, ok>>
     ELSE IF skip THEN UNCHANGED <<src, m, skip, bad, malformed, ok>>
     ELSE LET o == Log[src] IN
          CASE e.ev = "entry" /\ o.sec # "sym" -> OnEntry(e, Cx(o))
            [] e.ev = "aux" /\ o.sec # "sym" -> OnAux(e, Cx(o))
            [] e.ev = "sym" /\ o.sec = "sym" -> OnSym(e, o)
            [] e.ev = "end" -> OnEnd(o, Cx(o))
            [] OTHER -> Fail(e.ev)

Spec == Init /\ [][Step]_vars

Done == l = Len(Log) + 1
Report == Done => CSVWrite("%1$s", <<ToJson([events |-> Len(Log), ok |-> ok, bad |-> bad, malformed |-> malformed])>>, IOEnv.OUT)
Consumed == TLCGet("stats").diameter - 1 = Len(Log)
=============================================================================
