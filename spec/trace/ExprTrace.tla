----------------------------- MODULE ExprTrace -----------------------------
(***************************************************************************)
(* C12, T direction.  Each event is one location expression recorded from  *)
(* a DIE of a corpus file: the unit's context, the bytes, and what the      *)
(* library's parser returned.  The bytes are decoded again with the         *)
(* specification's reader machine (Expr!Dec) and the two are compared.      *)
(*                                                                         *)
(* event: [tid, c: <<asz, osz, le, ver>>, b: bytes, ok: parsed w/o raising,  *)
(*         ops: Seq([c: opcode, n: name, a: Seq(arg), o: offset])]          *)
(* arg:   [k: "i" | "b" | "e" | "z", v, e]   i: v = 16 LE two's complement   *)
(*        digits; b: v = the bytes; e: e = nested ops; z: empty block/expr  *)
(*                                                                         *)
(* ver is the version of the unit the expression was found in (the parser  *)
(* was built from that unit's structs).                                     *)
(*                                                                         *)
(* Total verdict: an expression the spec's decoder cannot finish (opcode    *)
(* outside the table or not settled in this context - Expr!Settled -,       *)
(* truncated operand: not well-formed in the sense of                       *)
(* the property) is counted as `outside`; a decodable one must have been    *)
(* parsed (ok) with exactly Canon(Dec(bytes)); failures go to `bad`.        *)
(***************************************************************************)
EXTENDS Expr

Log == ndJsonDeserialize(IOEnv.TRACE)

VARIABLES l, bad, agree, outside
tvars == <<l, bad, agree, outside, ctx, expr, phase, rd>>

\* 16 little-endian two's complement digits of an operand value
BitOf(a, j) == IF j < 7 * Len(a.g) THEN (a.g[(j \div 7) + 1] \div Pow(2, (j % 7))) % 2
               ELSE IF a.s /\ a.g[Len(a.g)] >= 64 THEN 1 ELSE 0
Val16(a) == IF "d" \in DOMAIN a THEN (IF a.s THEN DSext(a.d, 16) ELSE DTrunc(a.d, 16))
            ELSE [i \in 1..16 |-> LET j == 8 * (i - 1) IN
                    BitOf(a, j) + 2 * BitOf(a, j + 1) + 4 * BitOf(a, j + 2) + 8 * BitOf(a, j + 3) + 16 * BitOf(a, j + 4)
                    + 32 * BitOf(a, j + 5) + 64 * BitOf(a, j + 6) + 128 * BitOf(a, j + 7)]

IntArg(a) == [k |-> "i", v |-> Val16(a), e |-> <<>>]
Empty == [k |-> "z", v |-> <<>>, e |-> <<>>]
RECURSIVE Canon(_)
CanonArg(k, a) == CASE k = "expr" -> IF a.e = <<>> THEN <<Empty>> ELSE <<[k |-> "e", v |-> <<>>, e |-> Canon(a.e)]>>
                    [] k \in {"blk", "tblob"} -> IF a.b = <<>> THEN <<Empty>> ELSE <<[k |-> "b", v |-> a.b, e |-> <<>>]>>
                    [] k = "wasm" -> <<IntArg([d |-> <<a.wk>>, s |-> FALSE]), IntArg(a.i)>>
                    [] OTHER -> <<IntArg(a)>>
Canon(out) == IF out = <<>> THEN <<>>
              ELSE LET o == Head(out)   ks == KindsOf(o.code) IN
                   <<[c |-> o.code, n |-> NameOf(o.code), a |-> Flat([j \in 1..Len(ks) |-> CanonArg(ks[j], o.args[j])]),
                      o |-> o.off]>> \o Canon(Tail(out))

TInit == /\ l = 1 /\ bad = {} /\ agree = 0 /\ outside = 0
         /\ ctx = [asz |-> 4, osz |-> 4, le |-> TRUE, ver |-> 0, lvl |-> 0] /\ expr = <<>> /\ phase = "trace" /\ rd = Idle

Step ==
  /\ l <= Len(Log)
  /\ l' = l + 1
  /\ UNCHANGED <<ctx, expr, phase, rd>>
  /\ LET ev == Log[l]
         c == [asz |-> ev.c[1], osz |-> ev.c[2], le |-> ev.c[3] = 1, ver |-> ev.c[4], lvl |-> 0]
         d == Dec(ev.b, c)
     IN IF ~d.ok THEN outside' = outside + 1 /\ UNCHANGED <<bad, agree>>
        ELSE LET want == Canon(d.out)
                 names == [i \in 1..Len(want) |-> want[i].n]
                 offs == [i \in 1..Len(want) |-> want[i].o]
             IN IF ev.ok /\ ev.ops = want THEN agree' = agree + 1 /\ UNCHANGED <<bad, outside>>
                ELSE /\ UNCHANGED <<agree, outside>>
                     /\ LET diff == {i \in 1..Len(want) : i > Len(ev.ops) \/ ev.ops[i] # want[i]}
                            at == IF ~ev.ok THEN 0 ELSE IF diff = {} THEN Len(want) + 1 ELSE Min(diff)
                        IN bad' = bad \cup {<<ev.tid, IF ev.ok THEN "differs" ELSE "raises", at, names, offs>>}

TSpec == TInit /\ [][Step]_tvars

Done == l = Len(Log) + 1
Report == Done => CSVWrite("%1$s", <<ToJson([agree |-> agree, outside |-> outside, bad |-> bad])>>, IOEnv.OUT)
Consumed == TLCGet("stats").diameter - 1 = Len(Log)
=============================================================================
