----------------------------- MODULE NotesTrace -----------------------------
(***************************************************************************)
(* C14, trace validation.  The driver records, for every SHT_NOTE section   *)
(* and PT_NOTE segment of the corpus files, what the library's iterator     *)
(* reported; this module replays the walker of Notes.tla (same arithmetic,  *)
(* NoteWalk.tla) against the record.  Events (all fields integers but k):   *)
(*   k="ext"   a = extent start, b = extent end           (a new trace, id t)*)
(*   k="note"  a = n_offset, b = n_namesz, c = n_descsz, d = n_size          *)
(*   k="huge"  a note whose sizes do not fit the model's integers (it cannot *)
(*             fit the extent either)                                       *)
(*   k="end"   the iterator is exhausted; b, c = the namesz/descsz words at  *)
(*             the place where the walker stands (0 when no header fits)     *)
(* A trace is accepted when it is a behaviour of the walker: every note      *)
(* starts where the walker stands (ReadHdr enabled there), its size is       *)
(* header + padded name + padded descriptor, and when the iterator stops no  *)
(* further header fits (the extent is consumed up to padding).  Extents      *)
(* whose notes overrun them are not well-formed inputs: counted in `ill`,    *)
(* not judged.  Total verdict: failures are collected in `bad`, the walk     *)
(* resynchronises at the next "ext" event.                                   *)
(***************************************************************************)
EXTENDS NoteWalk, Sequences, TLC, Json, CSV, IOUtils

Log == ndJsonDeserialize(IOEnv.TRACE)

VARIABLES l, off, end, st, bad, ok, ill, nnotes
vars == <<l, off, end, st, bad, ok, ill, nnotes>>

Init == l = 1 /\ off = 0 /\ end = 0 /\ st = "idle" /\ bad = {} /\ ok = 0 /\ ill = {} /\ nnotes = 0

Fail(e, why) == bad' = bad \cup {<<e.t, l, why>>} /\ st' = "failed" /\ UNCHANGED <<off, end, ok, ill, nnotes>>
IllFormed(e) == ill' = ill \cup {e.t} /\ st' = "ill" /\ UNCHANGED <<off, end, ok, bad, nnotes>>

Begin(e) == off' = e.a /\ end' = e.b /\ st' = "walking" /\ UNCHANGED <<bad, ok, ill, nnotes>>
\* ReadHdr / SkipName / SkipDesc / Yield of the model, in one step per yielded note
NoteStep(e) ==
  IF st # "walking" THEN UNCHANGED <<off, end, st, bad, ok, ill, nnotes>>
  ELSE IF ~HdrFits(off, end) THEN Fail(e, "note-where-no-header-fits")
  ELSE IF e.a # off THEN Fail(e, "n_offset")
  ELSE IF e.d # NoteSize(e.b, e.c) THEN Fail(e, "n_size")
  ELSE IF off + e.d > end THEN IllFormed(e)
  ELSE off' = off + e.d /\ nnotes' = nnotes + 1 /\ UNCHANGED <<end, st, bad, ok, ill>>
\* Halt of the model: enabled only when no header fits any more
EndStep(e) ==
  IF st # "walking" THEN st' = "idle" /\ UNCHANGED <<off, end, bad, ok, ill, nnotes>>
  ELSE IF HdrFits(off, end)
       THEN IF off + NoteSize(e.b, e.c) > end THEN IllFormed(e)
            ELSE Fail(e, IF e.b = 0 /\ e.c = 0 /\ off + NhdrSize = end THEN "bare-final" ELSE "missed-note")
       ELSE ok' = ok + 1 /\ st' = "idle" /\ UNCHANGED <<off, end, bad, ill, nnotes>>

Step ==
  /\ l <= Len(Log)
  /\ l' = l + 1
  /\ LET e == Log[l] IN
     CASE e.k = "ext" -> Begin(e)
       [] e.k = "note" -> NoteStep(e)
       [] e.k = "huge" -> IF st = "walking" THEN IllFormed(e) ELSE UNCHANGED <<off, end, st, bad, ok, ill, nnotes>>
       [] e.k = "end" -> EndStep(e)

Spec == Init /\ [][Step]_vars

Done == l = Len(Log) + 1
Report == Done => CSVWrite("%1$s", <<ToJson([ok |-> ok, ill |-> ill, notes |-> nnotes, bad |-> bad])>>, IOEnv.OUT)
Consumed == TLCGet("stats").diameter - 1 = Len(Log)
=============================================================================
