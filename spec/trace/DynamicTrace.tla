---------------------------- MODULE DynamicTrace ----------------------------
(***************************************************************************)
(* C09, trace validation.  For every corpus file with a PT_DYNAMIC segment  *)
(* the driver records what the library reported for the dynamic array seen  *)
(* through the .dynamic section ("section"), through the PT_DYNAMIC segment *)
(* ("segment") and through the PT_DYNAMIC segment of a copy of the file      *)
(* whose section header table was removed ("stripped": e_shoff = e_shnum =  *)
(* e_shstrndx = 0), together with the raw bytes of the table the view        *)
(* designates.  This module runs the scan machine of DynScan.tla (the same   *)
(* operators Dynamic.tla model-checks) on those bytes and judges every scan, *)
(* then judges that the views of one file agree, then the symbol counts.     *)
(*                                                                         *)
(* Events (every field has one type in all events):                        *)
(*   k="voc"   voc = the tag names the library claims to know               *)
(*   k="file"  f = file id, cls, le, machine, osabi (from the raw header)    *)
(*   k="scan"  f, view, raw = the table bytes, tags = <<[nm, c, v]>>: the    *)
(*             reported d_tag (nm: its name, or "" and c: its digits, two's  *)
(*             complement, class width) and d_val digits; strs = <<[i, s]>>: *)
(*             the string reported for entry i (UTF-8 bytes)                 *)
(*   k="cnt"   f, view, cnt = DynamicSegment.num_symbols() (-2: exception),  *)
(*             gnu / sysv = the raw bytes of the hash sections the dynamic   *)
(*             tags address (<<>>: none), secn = entries of .dynsym (-1: n/a)*)
(*   k="end"   f: all views of the file were recorded                        *)
(* Verdicts.  A scan is accepted when it is exactly the machine's run on the *)
(* raw bytes: the same number of entries (up to and including the first      *)
(* DT_NULL), every d_val equal, every d_tag reported under a name the code   *)
(* has for this machine / OS ABI, or as the raw number when the library      *)
(* knows none of its names (names the registry does not define at all are    *)
(* counted in `unk` and not judged).  Tables that are not terminated inside  *)
(* their extent (empty PT_DYNAMIC of debug files) are not judged (`ill`).    *)
(* A count is judged when a table determines it (GNU: a populated bucket;    *)
(* SysV: nchain) and agrees with .dynsym's own size; otherwise it is listed  *)
(* in `undet`.  Total verdict: failures are collected in `bad`.              *)
(***************************************************************************)
EXTENDS DynScan, HashWalk, FiniteSets, TLC, Json, CSV, IOUtils
INSTANCE RegistryData
\* the registry tables the verdicts consult, bound once
ByCode == TLCEval([k \in DtKeys |-> RegByCode[k]])
KnownNames == TLCEval(DOMAIN Reg \cup AllSolarisNames)

Log == ndJsonDeserialize(IOEnv.TRACE)

VARIABLES l, cur, voc, fl, scans, oks, oka, okc, bad, ill, unk, undet
vars == <<l, cur, voc, fl, scans, oks, oka, okc, bad, ill, unk, undet>>

NoRun == [pc |-> "none", n |-> 0, out |-> <<>>]
Init == l = 1 /\ cur = NoRun /\ voc = {} /\ fl = 0 /\ scans = <<>> /\ oks = 0 /\ oka = 0 /\ okc = 0 /\ bad = {} /\ ill = {} /\ unk = 0 /\ undet = {}

Elems(s) == {s[i] : i \in 1..Len(s)}

\* verdict on one reported tag against the decoded entry e = <<tag digits, value digits>>: "ok", "unk", or what is wrong
TagVerdict(F, e, r) ==
  LET names == DtNamesOf(ByCode, F.machine, F.osabi, e[1]) IN
  IF r.v # e[2] THEN "d_val"
  ELSE IF r.nm # "" THEN (IF r.nm \in names THEN "ok" ELSE IF r.nm \in KnownNames THEN "d_tag.name" ELSE "unk")
  ELSE IF names \cap voc # {} THEN "d_tag.unnamed"
  ELSE IF r.c = e[1] THEN "ok" ELSE "d_tag.code"

\* A scan event takes two steps: Decode runs the machine on the raw bytes and keeps the state it stops in (`cur`: a
\* concrete value from then on - TLC would re-run a LET-bound machine for every entry judged), Judge compares.
Decode(e) == cur' = Scan(e.raw, 0, Len(e.raw), Log[fl].cls, Log[fl].le) /\ UNCHANGED <<l, voc, fl, scans, oks, oka, okc, bad, ill, unk, undet>>
ScanStepT(e) ==
  LET F == Log[fl]
      st == cur IN
  /\ scans' = Append(scans, l)
  /\ IF st.pc # "done"
     THEN ill' = ill \cup {<<e.f, e.view>>} /\ UNCHANGED <<oks, bad, unk>>
     ELSE IF Len(e.tags) # Len(st.out)
     THEN bad' = bad \cup {<<e.f, l, "tags.count", Len(st.out)>>} /\ UNCHANGED <<oks, ill, unk>>
     ELSE LET vs == [i \in 1..st.n |-> TagVerdict(F, st.out[i], e.tags[i])]
              wrong == {i \in 1..st.n : vs[i] \notin {"ok", "unk"}} IN
          /\ unk' = unk + Cardinality({i \in 1..st.n : vs[i] = "unk"})
          /\ UNCHANGED ill
          /\ IF wrong = {} THEN oks' = oks + 1 /\ UNCHANGED bad
             ELSE bad' = bad \cup {<<e.f, l, vs[Min(wrong)], Min(wrong) - 1>>} /\ UNCHANGED oks
  /\ UNCHANGED <<voc, fl, oka, okc, undet>>

\* the views of one file agree on tags and on strings
EndStep(e) ==
  LET ds == {p \in Elems(scans) \X Elems(scans) : p[1] < p[2]}
      dt == {p \in ds : Log[p[1]].tags # Log[p[2]].tags}
      dstr == {p \in ds : Log[p[1]].strs # Log[p[2]].strs} IN
  /\ bad' = bad \cup {<<e.f, p[2], "agree.tags", p[1]>> : p \in dt} \cup {<<e.f, p[2], "agree.strings", p[1]>> : p \in dstr}
  /\ oka' = oka + Cardinality(ds \ (dt \cup dstr))
  /\ scans' = <<>>
  /\ UNCHANGED <<voc, fl, oks, okc, ill, unk, undet>>

CntStep(e) ==
  LET F == Log[fl]
      gm == [cls |-> F.cls, le |-> F.le, h |-> e.gnu]
      vm == [cls |-> F.cls, le |-> F.le, h |-> e.sysv]
      gc == IF e.gnu # <<>> THEN GnuCount(gm) ELSE Fault(GnuCountStart)
      vc == IF e.sysv # <<>> THEN SysVCount(vm) ELSE -1
      det == (gc.pc = "done" /\ gc.flag) \/ vc >= 0
      exp == IF gc.pc = "done" /\ gc.flag THEN gc.res ELSE vc IN
  /\ IF ~det \/ (e.secn >= 0 /\ e.secn # exp)
     THEN undet' = undet \cup {<<e.f, e.view, e.cnt, e.secn>>} /\ UNCHANGED <<okc, bad>>
     ELSE IF e.cnt = exp THEN okc' = okc + 1 /\ UNCHANGED <<bad, undet>>
     ELSE bad' = bad \cup {<<e.f, l, "count", exp>>} /\ UNCHANGED <<okc, undet>>
  /\ UNCHANGED <<voc, fl, scans, oks, oka, ill, unk>>

Step ==
  /\ l <= Len(Log)
  /\ ~(Log[l].k = "scan" /\ cur.pc = "none")
  /\ l' = l + 1 /\ cur' = NoRun
  /\ LET e == Log[l] IN
     CASE e.k = "voc" -> voc' = Elems(e.voc) /\ UNCHANGED <<fl, scans, oks, oka, okc, bad, ill, unk, undet>>
       [] e.k = "file" -> fl' = l /\ scans' = <<>> /\ UNCHANGED <<voc, oks, oka, okc, bad, ill, unk, undet>>
       [] e.k = "scan" -> ScanStepT(e)
       [] e.k = "cnt" -> CntStep(e)
       [] e.k = "end" -> EndStep(e)

Next == (l <= Len(Log) /\ Log[l].k = "scan" /\ cur.pc = "none" /\ Decode(Log[l])) \/ Step
Spec == Init /\ [][Next]_vars

Done == l = Len(Log) + 1
Report == Done => CSVWrite("%1$s", <<ToJson([oks |-> oks, oka |-> oka, okc |-> okc, bad |-> bad, ill |-> ill, unk |-> unk, undet |-> undet])>>, IOEnv.OUT)
Consumed == TLCGet("stats").diameter - 1 = Len(Log) + Cardinality({i \in 1..Len(Log) : Log[i].k = "scan"})
=============================================================================
