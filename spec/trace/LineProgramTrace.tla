------------------------- MODULE LineProgramTrace -------------------------
(***************************************************************************)
(* C05, direction T (code -> spec), without a hook: for every line-number   *)
(* program of the corpus the driver logs one event                          *)
(*   [id, hdr = the header parameters, n = length of the program, bytes =   *)
(*    the raw bytes of the program's declared extent (+ 16 bytes of zero    *)
(*    padding so that a decoder running off the end cannot fault), rows =   *)
(*    the public entries with non-None state as the library reported them]. *)
(* This module re-runs the byte-level machine of LineProgram.tla (DecIns +  *)
(* Exec) over the raw bytes, one TLC step per instruction, and compares     *)
(* every row it appends with the logged one, field by field.  The           *)
(* instructions are decoded by the specification, not by the code.          *)
(*                                                                         *)
(* Total verdict: disagreements are counted per signature in `bad` (with    *)
(* up to two examples), programs with an operand outside Small arithmetic   *)
(* or an instruction crossing the end of the extent are skipped and         *)
(* counted; nothing deadlocks.                                              *)
(* `discriminator` is compared only for version >= 4 programs               *)
(* (DW_LNE_set_discriminator is a DWARF4 opcode; producers emit it in v2/v3 *)
(* programs as an extension, which the standard does not define).           *)
(***************************************************************************)
EXTENDS Bytes, TLC, Json, CSV, IOUtils

LP == INSTANCE LineProgram WITH Headers <- {}, MaxLen <- 0, Modes <- {}, SimMode <- FALSE,
        mode <- 0, h <- 0, tabs <- 0, gap <- 0, prog <- 0, regs <- 0, rows <- 0, extra <- 0, done <- 0

Log == ndJsonDeserialize(IOEnv.TRACE)

VARIABLES l,      \* index of the current program in Log
          pos,    \* offset of the next instruction inside the program
          r,      \* registers
          nrow,   \* rows appended so far by the current program
          bad,    \* signature -> [n, ex]
          stats
vars == <<l, pos, r, nrow, bad, stats>>

Fields == <<"address", "op_index", "file", "line", "column", "is_stmt", "basic_block", "end_sequence",
            "prologue_end", "epilogue_begin", "isa", "discriminator">>
Keys == {Fields[i] : i \in 1..12} \cup {"is_stmt@end_sequence", "rows.count"}

R0At(k) == IF k <= Len(Log) THEN LP!R0(Log[k].hdr) ELSE LP!R0(LP!H4)

Init == /\ l = 1 /\ pos = 0 /\ r = R0At(1) /\ nrow = 0
        /\ bad = [k \in Keys |-> [n |-> 0, ex |-> <<>>]]
        /\ stats = [ins |-> 0, rows |-> 0, progs |-> 0, skipped |-> <<>>]

Note(b, key, ex) == [b EXCEPT ![key] = [n |-> @.n + 1, ex |-> IF Len(@.ex) < 2 THEN Append(@.ex, ex) ELSE @.ex]]

\* the row the machine appended as the k-th of program e, against the logged one
RECURSIVE Diff(_, _, _, _, _, _)
Diff(b, e, row, k, i, es) ==
  IF i > 12 THEN b
  ELSE LET exp == IF i = 1 THEN row[1].d ELSE row[i]
           obs == e.rows[k][i]
           skip == i = 12 /\ e.hdr.v < 4
           key == IF i = 6 /\ es THEN "is_stmt@end_sequence" ELSE Fields[i]
       IN Diff(IF skip \/ exp = obs THEN b ELSE Note(b, key, [id |-> e.id, row |-> k, pos |-> pos, expected |-> ToString(exp), observed |-> ToString(obs)]),
               e, row, k, i + 1, es)

NextProg(skipped) ==
  /\ l' = l + 1 /\ pos' = 0 /\ nrow' = 0 /\ r' = R0At(l + 1)
  /\ stats' = IF skipped = "" THEN [stats EXCEPT !.progs = @ + 1]
              ELSE [stats EXCEPT !.skipped = Append(@, <<Log[l].id, skipped, pos>>)]

Step ==
  /\ l <= Len(Log)
  /\ LET e == Log[l] IN
     IF pos >= e.n
     THEN \* end of the declared extent: the program must have produced exactly the logged rows
          /\ NextProg("")
          /\ bad' = IF nrow = Len(e.rows) THEN bad
                    ELSE Note(bad, "rows.count", [id |-> e.id, row |-> nrow, pos |-> pos, expected |-> ToString(nrow), observed |-> ToString(Len(e.rows))])
     ELSE LET d == LP!DecIns(e.hdr, e.bytes, pos) IN
          IF d.big THEN NextProg("operand outside Small arithmetic") /\ UNCHANGED bad
          ELSE IF d.next <= pos \/ d.next > e.n THEN NextProg("instruction crosses the end of the extent") /\ UNCHANGED bad
          ELSE LET x == LP!Exec(e.hdr, r, d.x) IN
               /\ l' = l /\ pos' = d.next /\ r' = x.r /\ nrow' = nrow + Len(x.out)
               /\ stats' = [stats EXCEPT !.ins = @ + 1, !.rows = @ + Len(x.out)]
               /\ bad' = IF x.out = <<>> \/ nrow + 1 > Len(e.rows) THEN bad
                         ELSE Diff(bad, e, LP!RowJ(x.out[1]), nrow + 1, 1, x.out[1].end_sequence)

Spec == Init /\ [][Step]_vars

Done == l = Len(Log) + 1
Report == Done => CSVWrite("%1$s", <<ToJson([stats |-> stats, total |-> Len(Log),
                                             bad |-> [k \in {q \in Keys : bad[q].n > 0} |-> bad[k]]])>>, IOEnv.OUT)
=============================================================================
