------------------------------ MODULE LocRange ------------------------------
(***************************************************************************)
(* C07 - location and range lists decode to exactly the encoded entries.    *)
(*                                                                         *)
(* Transcribed: DWARF5 2.6.2 / 7.7.3 (location lists, Table 7.10 DW_LLE_x), *)
(* 2.17.3 / 7.25 (range lists, Table 7.30 DW_RLE_x), 7.28 / 7.29 (headers   *)
(* of .debug_rnglists / .debug_loclists, offset tables, DW_AT_rnglists_base *)
(* / DW_AT_loclists_base), 7.27 (.debug_addr, DW_AT_addr_base), 7.5.5       *)
(* (classes loclist / rnglist / exprloc and their forms), Table 7.5         *)
(* (attribute classes); DWARF2-4 2.6.2 / 2.17.3 / 7.7.3 (pair format of     *)
(* .debug_loc / .debug_ranges: base-address selection entry = all-ones      *)
(* begin, end of list = two zeros, 2-byte expression length), DWARF2 Fig.14 *)
(* DWARF3/4 Fig.20 (attribute classes), DWARF3 7.5.4 (loclistptr =          *)
(* data4/data8), DWARF4 7.5.4 (sec_offset, exprloc).  DW_AT_GNU_locviews    *)
(* view pairs (two ULEB128 per location entry, placed before the list) are  *)
(* a GNU extension (GCC -gvariable-location-views); they are modelled only  *)
(* for the enumeration that promises them.                                  *)
(*                                                                         *)
(* Objects: a section is a sequence of blocks; a block belongs to one unit  *)
(* of .debug_info.  lv = 5: block = [header, offset table, items]; lv = 4:  *)
(* block = items only (the section has no structure of its own).  An item   *)
(* is a list (optionally preceded by view pairs) or a gap.  Units reach     *)
(* lists by section offset (sec_offset; data4/data8 in DWARF 2-3) or by     *)
(* index through the offset table (loclistx/rnglistx).                      *)
(*                                                                         *)
(* The environment is a writer: mode "kinds" (every entry kind x operand    *)
(* class x context, finished at Init), "lists" (token writer AddEntry /     *)
(* EndList), "sections" (block writer NewBlock / Finish), "pair" (a v4 and  *)
(* a v5 section side by side), "classify" (the attribute x form x version   *)
(* cube).  TLC checks on the specification itself: RoundTrip (byte-level    *)
(* list reader applied to the writer's bytes returns the abstract entries,  *)
(* offsets and lengths), ListEndsAtTerminator, IndexResolves, BlocksTile,   *)
(* ClassifyTotal.                                                           *)
(*                                                                         *)
(* Debugging entries that designate SEVERAL lists (DWARF 2.2: an entry has  *)
(* any number of attributes, each at most once; e.g. DW_AT_location with    *)
(* its DW_AT_GNU_locviews next to DW_AT_frame_base / DW_AT_segment ... in   *)
(* list form): the references of a unit are packed into entries by the      *)
(* section's `pack` = [n: references per entry, rev: attribute order        *)
(* reversed] (GroupRefs; mode "sections", location sections only: a range   *)
(* list is designated by DW_AT_ranges alone).  TLC checks GroupsOk (every   *)
(* reference in exactly one entry, attribute names of an entry distinct).   *)
(*                                                                         *)
(* Not asserted (the standard or the documented API does not fix it):       *)
(*  - order of enumeration (compared as multisets of lists);                *)
(*  - begin/end of a DW_LLE_default_location entry beyond the documented -1;*)
(*  - entry_length of a range-list base entry (the API has no such field);  *)
(*  - whether attributes that never admit class loclist (bounds, sizes,     *)
(*    DW_AT_call_x, DW_AT_data_location ...) "hold location information"    *)
(*    when given as exprloc: only "never a list" is asserted for them;      *)
(*  - (name, form, version) combinations the class tables do not allow, and *)
(*    the DWARF3 data4/data8 ambiguity of DW_AT_data_member_location;       *)
(*  - sequential enumeration of a block that contains raw gaps;             *)
(*  - sums start+length that overflow the address size (not generated);     *)
(*  - enumeration over a file that has both section generations, and        *)
(*    LocationListsPair.iter_CUs (documented as unsupported; asserting the   *)
(*    latter was a false alarm of an early version of the driver);          *)
(*  - address sizes of a list block / unit that differ from the file-wide   *)
(*    default address size (the quantifier has one address size per file).  *)
(***************************************************************************)
EXTENDS DwarfForms, TLC, Json, CSV, IOUtils

CONSTANTS Modes, MaxLen, MaxBlocks, MaxPackBlocks

VARIABLES mode, sec, fin, tag
vars == <<mode, sec, fin, tag>>

(* --------------------------- numbers: bits ----------------------------- *)
\* operand values are little-endian base-256 digit strings; LEB128 operands are converted
\* through their bit strings so that 64-bit values never become TLC integers
BitsOfDigits(d) == [k \in 1..(8 * Len(d)) |-> (d[((k - 1) \div 8) + 1] \div Pow(2, (k - 1) % 8)) % 2]
BitsOfGroups(g) == [k \in 1..(7 * Len(g)) |-> (g[((k - 1) \div 7) + 1] \div Pow(2, (k - 1) % 7)) % 2]
BitAt(b, k) == IF k <= Len(b) THEN b[k] ELSE 0
RECURSIVE Pack(_, _, _)
Pack(b, from, n) == IF n = 0 THEN 0 ELSE BitAt(b, from) + 2 * Pack(b, from + 1, n - 1)
DigitsOfBits(b, w) == [i \in 1..w |-> Pack(b, 8 * (i - 1) + 1, 8)]
HiBit(b) == LET s == {k \in 1..Len(b) : b[k] = 1} IN IF s = {} THEN 0 ELSE Max(s)
GroupsOfBits(b) == LET n == IF HiBit(b) = 0 THEN 1 ELSE (HiBit(b) + 6) \div 7 IN [i \in 1..n |-> Pack(b, 7 * (i - 1) + 1, 7)]
\* ULEB128 of a digit string, with `pad` redundant zero groups (DWARF 7.6 allows non-minimal encodings)
\* (values below 2^24 / of at most 4 groups take the Small path of Bytes.tla: same function, much cheaper for TLC)
IsTiny(d) == \A i \in 4..Len(d) : d[i] = 0
UlebOfDigits(d, pad) == IF IsTiny(d) THEN UlebPadded(NatOf(SubSeq(d, 1, Min({3, Len(d)}))), pad)
                        ELSE LebOfGroups(GroupsOfBits(TLCEval(BitsOfDigits(d))) \o Rep(0, pad))
DigitsOfGroups(g, w) == IF Len(g) <= 4 THEN LEn(GroupsNat(g), w) ELSE DigitsOfBits(TLCEval(BitsOfGroups(g)), w)
Ext8(d) == DTrunc(d, 8)
D8(n) == LEn(n, 8)                                   \* digits of a Small
SmallOf(d) == NatOf(d)                               \* only for values known to be small (indices, lengths)

(* ----------------------------- kind tables ----------------------------- *)
\* DWARF5 Table 7.10 (DW_LLE_x) and Table 7.30 (DW_RLE_x); kinds are named without the prefix
LLECode == [end_of_list |-> 0, base_addressx |-> 1, startx_endx |-> 2, startx_length |-> 3, offset_pair |-> 4,
            default_location |-> 5, base_address |-> 6, start_end |-> 7, start_length |-> 8]
RLECode == [end_of_list |-> 0, base_addressx |-> 1, startx_endx |-> 2, startx_length |-> 3, offset_pair |-> 4,
            base_address |-> 5, start_end |-> 6, start_length |-> 7]
CodeTab(which) == IF which = "loc" THEN LLECode ELSE RLECode
Kinds5(which) == DOMAIN CodeTab(which) \ {"end_of_list"}
KindOfCode(which, c) == CHOOSE k \in DOMAIN CodeTab(which) : CodeTab(which)[k] = c
\* operand kinds (7.7.3 / 7.25): idx = ULEB128 index into .debug_addr, uleb = ULEB128 offset or length, addr = target address
Ops(k) == CASE k = "end_of_list" -> <<>> [] k = "base_addressx" -> <<"idx">> [] k = "startx_endx" -> <<"idx", "idx">>
            [] k = "startx_length" -> <<"idx", "uleb">> [] k = "offset_pair" -> <<"uleb", "uleb">> [] k = "default_location" -> <<>>
            [] k = "base_address" -> <<"addr">> [] k = "start_end" -> <<"addr", "addr">> [] k = "start_length" -> <<"addr", "uleb">>
\* location entries that bound or default a location carry a counted location description (ULEB128 length + bytes)
HasExpr(which, k) == which = "loc" /\ k \notin {"end_of_list", "base_addressx", "base_address"}
IsBase(k) == k \in {"base_addressx", "base_address", "base_select"}
\* DWARF2-4 pair format: kinds "pair", "base_select", terminator "end"
AllOnes(w) == [i \in 1..w |-> 255]

\* an abstract entry: [k, ops (digit strings), pad (redundant LEB groups), e (expression bytes)]
Ent(k, ops, pad, e) == [k |-> k, ops |-> ops, pad |-> pad, e |-> e]
\* context of a section: [asz, le]
EncOp(t, d, pad, c) == IF t = "addr" THEN Fix(W(d), c.asz, c.le) ELSE UlebOfDigits(d, pad)
EncEntry5(which, en, c) ==
  <<CodeTab(which)[en.k]>> \o Flat([p \in 1..Len(en.ops) |-> EncOp(Ops(en.k)[p], en.ops[p], en.pad, c)])
  \o (IF HasExpr(which, en.k) THEN UlebPadded(Len(en.e), en.pad) \o en.e ELSE <<>>)
EncEntry4(which, en, c) ==
  IF en.k = "base_select" THEN AllOnes(c.asz) \o Fix(W(en.ops[1]), c.asz, c.le)
  ELSE Fix(W(en.ops[1]), c.asz, c.le) \o Fix(W(en.ops[2]), c.asz, c.le)
       \o (IF which = "loc" THEN Fix(N(Len(en.e)), 2, c.le) \o en.e ELSE <<>>)
EncEntry(which, lv, en, c) == IF lv = 5 THEN EncEntry5(which, en, c) ELSE EncEntry4(which, en, c)
Terminator(lv, c) == IF lv = 5 THEN <<0>> ELSE Rep(0, 2 * c.asz)
EntryBytes(which, lv, es, c) == [i \in 1..Len(es) |-> EncEntry(which, lv, es[i], c)]
EncList(which, lv, es, c) == Flat(EntryBytes(which, lv, es, c)) \o Terminator(lv, c)
\* view pairs (GNU): one (begin, end) ULEB128 pair per non-base entry
EncViews(vs) == Flat([i \in 1..Len(vs) |-> UlebOfNat(vs[i][1]) \o UlebOfNat(vs[i][2])])

(* -------------------------- byte-level reader -------------------------- *)
\* what a consumer knows: the section bytes, a start offset, the address size and byte order
Near(bs, at) == SubSeq(bs, at, Min({Len(bs), at + 11}))
RECURSIVE ReadOps(_, _, _, _, _)
ReadOps(bs, at, types, c, acc) ==
  IF types = <<>> THEN [ops |-> acc, at |-> at]
  ELSE IF Head(types) = "addr"
       THEN ReadOps(bs, at + c.asz, Tail(types), c, Append(acc, FixDec(Slice(bs, at, c.asz), c.le, FALSE).d))
       ELSE LET d == LebDec(Near(bs, at), FALSE) IN
            ReadOps(bs, at + d.used, Tail(types), c, Append(acc, DigitsOfGroups(d.val.g, 8)))
\* one loop iteration of a v5 list reader: [k, ops, e, next]   (at = 1-based index of the kind byte)
ReadEntry5(bs, at, which, c) ==
  LET k == KindOfCode(which, bs[at])
      r == ReadOps(bs, at + 1, Ops(k), c, <<>>)
  IN IF HasExpr(which, k)
     THEN LET d == LebDec(Near(bs, r.at), FALSE)   n == GroupsNat(d.val.g) IN
          [k |-> k, ops |-> r.ops, e |-> Slice(bs, r.at + d.used, n), next |-> r.at + d.used + n]
     ELSE [k |-> k, ops |-> r.ops, e |-> <<>>, next |-> r.at]
\* one loop iteration of a DWARF2-4 reader
ReadEntry4(bs, at, which, c) ==
  LET b == FixDec(Slice(bs, at, c.asz), c.le, FALSE).d
      e == FixDec(Slice(bs, at + c.asz, c.asz), c.le, FALSE).d
      p == at + 2 * c.asz
  IN IF b = DZero(c.asz) /\ e = DZero(c.asz) THEN [k |-> "end_of_list", ops |-> <<>>, e |-> <<>>, next |-> p]
     ELSE IF b = AllOnes(c.asz) THEN [k |-> "base_select", ops |-> <<e>>, e |-> <<>>, next |-> p]
     ELSE IF which = "loc"
          THEN LET n == SmallDec(Slice(bs, p, 2), c.le, FALSE) IN
               [k |-> "pair", ops |-> <<b, e>>, e |-> Slice(bs, p + 2, n), next |-> p + 2 + n]
          ELSE [k |-> "pair", ops |-> <<b, e>>, e |-> <<>>, next |-> p]
ReadEntry(bs, at, which, lv, c) == IF lv = 5 THEN ReadEntry5(bs, at, which, c) ELSE ReadEntry4(bs, at, which, c)
\* the list machine: iterate ReadEntry until the terminator; entries with 0-based offset and length
RECURSIVE ReadList(_, _, _, _, _, _)
ReadList(bs, at, which, lv, c, acc) ==
  LET r == ReadEntry(bs, at, which, lv, c) IN
  IF r.k = "end_of_list" THEN [entries |-> acc, endAt |-> r.next]
  ELSE ReadList(bs, r.next, which, lv, c, Append(acc, [k |-> r.k, ops |-> r.ops, e |-> r.e, off |-> at - 1, len |-> r.next - at]))
\* operand digits as the reader normalises them (addresses: asz digits, LEB128: 8 digits)
NormOps(en, lv, c) == [p \in 1..Len(en.ops) |->
                        IF lv = 4 \/ Ops(en.k)[p] = "addr" THEN DTrunc(en.ops[p], c.asz) ELSE Ext8(en.ops[p])]

(* ------------------------- sections and blocks ------------------------- *)
\* sec == [which: "loc"|"rng", lv: 4|5, asz, le, blocks]; block == [ver, fmt, oc, items, tgt];
\* item == [t: "list"|"gap", es (entries), vs (view pairs), gap (bytes), ref (reached by section offset?), sfx (entries skipped by an extra reference)]
LItem(es, vs, ref, sfx) == [t |-> "list", es |-> es, vs |-> vs, gap |-> <<>>, ref |-> ref, sfx |-> sfx]
GItem(bs) == [t |-> "gap", es |-> <<>>, vs |-> <<>>, gap |-> bs, ref |-> FALSE, sfx |-> 0]
RECURSIVE SumTo(_, _)
SumTo(s, k) == IF k = 0 THEN 0 ELSE s[k] + SumTo(s, k - 1)
ILS(fmt) == IF fmt = 32 THEN 4 ELSE 12
OffSz(fmt) == IF fmt = 32 THEN 4 ELSE 8
InitLen(n, fmt, le) == IF fmt = 32 THEN Fix(N(n), 4, le) ELSE <<255, 255, 255, 255>> \o Fix(N(n), 8, le)
ItemBytes(s, it) == IF it.t = "gap" THEN it.gap ELSE EncViews(it.vs) \o EncList(s.which, s.lv, it.es, s)

\* layout of block k placed at section offset `off` (7.28/7.29: unit_length, version 5, address_size,
\* segment_selector_size 0, offset_entry_count, offsets relative to the first offset entry, then the lists)
BlockLay(s, k, off) ==
  LET b == s.blocks[k]
      ibs == TLCEval([j \in 1..Len(b.items) |-> ItemBytes(s, b.items[j])])
      lens == TLCEval([j \in 1..Len(ibs) |-> Len(ibs[j])])
      hdr == IF s.lv = 5 THEN ILS(b.fmt) + 8 ELSE 0
      tlen == IF s.lv = 5 THEN b.oc * OffSz(b.fmt) ELSE 0
      body == SumTo(lens, Len(lens))
      ioff == off + hdr + tlen
      ioffs == TLCEval([j \in 1..Len(ibs) |-> ioff + SumTo(lens, j - 1)])
      loffs == TLCEval([j \in 1..Len(ibs) |-> ioffs[j] + Len(EncViews(b.items[j].vs))])
      rel == [i \in 1..b.oc |-> loffs[b.tgt[i]] - (off + hdr)]
      head == IF s.lv = 5
              THEN InitLen(8 + tlen + body, b.fmt, s.le) \o Fix(N(5), 2, s.le) \o <<s.asz, 0>> \o Fix(N(b.oc), 4, s.le)
                   \o Flat([i \in 1..b.oc |-> Fix(N(rel[i]), OffSz(b.fmt), s.le)])
              ELSE <<>>
  IN [off |-> off, toff |-> off + hdr, ioff |-> ioff, len |-> hdr + tlen + body, ul |-> 8 + tlen + body,
      ioffs |-> ioffs, loffs |-> loffs, rel |-> rel, bytes |-> head \o Flat(ibs)]
RECURSIVE Lay(_, _, _)
Lay(s, k, off) == IF k > Len(s.blocks) THEN <<>> ELSE LET bl == BlockLay(s, k, off) IN <<bl>> \o Lay(s, k + 1, off + bl.len)
SecBytes(ly) == Flat([k \in 1..Len(ly) |-> ly[k].bytes])

\* index -> section offset (7.28, 7.29): base + offsets[i], base = the unit's DW_AT_*lists_base = first offset entry
ByIndex(ly, k, i) == ly[k].toff + ly[k].rel[i + 1]

(* ------------------------------ .debug_addr ---------------------------- *)
\* one table per DWARF5 unit g (7.27: unit_length, version 5, address_size, segment_selector_size 0, addresses);
\* DW_AT_addr_base designates the first address.  Values differ per unit.
AddrTab(asz, g) == << [i \in 1..asz |-> IF i = 1 THEN g ELSE IF i = 2 THEN 16 ELSE IF i = 3 THEN 64 ELSE 0],
                      [i \in 1..asz |-> IF i = 1 THEN 255 - g ELSE 255],
                      [i \in 1..asz |-> IF i = 1 THEN g ELSE IF i = asz THEN 128 ELSE 0] >>
AddrTabBytes(asz, le, fmt, g) ==
  LET b2 == Fix(N(5), 2, le) \o <<asz, 0>> \o Flat([i \in 1..3 |-> Fix(W(AddrTab(asz, g)[i]), asz, le)]) IN InitLen(Len(b2), fmt, le) \o b2
AddrTabLen(asz, fmt) == ILS(fmt) + 4 + 3 * asz

(* -------------------------------- views -------------------------------- *)
\* raw view of the entries of a list that starts at section offset loff
RawViews(s, es, loff) ==
  LET ebs == TLCEval(EntryBytes(s.which, s.lv, es, s))   lens == TLCEval([i \in 1..Len(es) |-> Len(ebs[i])]) IN
  [i \in 1..Len(es) |-> [k |-> es[i].k, o |-> loff + SumTo(lens, i - 1), n |-> lens[i], ops |-> NormOps(es[i], s.lv, s), e |-> es[i].e]]
\* translated view (2.6.2, 2.17.3): indices resolved through the unit's address table, start/length -> [start, start+length)
\* c = "base" (a = base address) | "ent" (a = begin, b = end, x = operands are absolute addresses) | "default"
TView(r, tab) ==
  LET op(p) == Ext8(r.ops[p])   ax(p) == Ext8(tab[SmallOf(r.ops[p]) + 1])   z == DZero(8)
      V(c, a, b, x) == [c |-> c, k |-> r.k, o |-> r.o, n |-> r.n, a |-> a, b |-> b, e |-> r.e, x |-> x] IN
  CASE r.k = "base_addressx" -> V("base", ax(1), z, TRUE)
    [] r.k = "base_address" -> V("base", op(1), z, TRUE)
    [] r.k = "base_select" -> V("base", op(1), z, TRUE)
    [] r.k = "startx_endx" -> V("ent", ax(1), ax(2), TRUE)
    [] r.k = "startx_length" -> V("ent", ax(1), DAdd(ax(1), op(2)), TRUE)
    [] r.k = "offset_pair" -> V("ent", op(1), op(2), FALSE)
    [] r.k = "pair" -> V("ent", op(1), op(2), FALSE)
    [] r.k = "start_end" -> V("ent", op(1), op(2), TRUE)
    [] r.k = "start_length" -> V("ent", op(1), DAdd(op(1), op(2)), TRUE)
    [] r.k = "default_location" -> V("default", z, z, TRUE)
Drop(sq, n) == SubSeq(sq, n + 1, Len(sq))
ViewPairs(vs, voff) == LET lens == [i \in 1..Len(vs) |-> Len(UlebOfNat(vs[i][1])) + Len(UlebOfNat(vs[i][2]))] IN
                       [i \in 1..Len(vs) |-> <<voff + SumTo(lens, i - 1), vs[i][1], vs[i][2]>>]

\* the lists of a section: every list item, plus the suffix an extra reference designates
ListKeys(s) == LET per(k) == LET its == s.blocks[k].items IN
                             Flat([j \in 1..Len(its) |-> IF its[j].t = "gap" THEN <<>>
                                                        ELSE IF its[j].sfx > 0 THEN << <<k, j, 0>>, <<k, j, its[j].sfx>> >> ELSE << <<k, j, 0>> >>])
               IN Flat([k \in 1..Len(s.blocks) |-> per(k)])
LId(keys, key) == CHOOSE i \in 1..Len(keys) : keys[i] = key
\* g0 = number of units before this section's first unit (global unit numbering selects the address table)
ListView(s, ly, key, g0) ==
  LET k == key[1]   j == key[2]   it == s.blocks[k].items[j]
      raws == RawViews(s, it.es, ly[k].loffs[j])   tab == AddrTab(s.asz, g0 + k)
      rs == Drop(raws, key[3])
  IN [blk |-> k, off |-> IF key[3] = 0 THEN ly[k].loffs[j] ELSE raws[key[3] + 1].o,
      raw |-> rs, tr |-> [i \in 1..Len(rs) |-> TView(rs[i], tab)],
      pairs |-> IF key[3] = 0 THEN ViewPairs(it.vs, ly[k].ioffs[j]) ELSE <<>>,
      endoff |-> ly[k].loffs[j] + Len(EncList(s.which, s.lv, it.es, s))]

(* -------------------------- attribute classes -------------------------- *)
\* class names: "loclist" stands for loclistptr (DWARF3/4) and loclist (DWARF5); in DWARF2 a location list is
\* designated by a constant (2.4.6), entered here as "loclist" as well; "rnglist" = rangelistptr / rnglist.
\* Rows: DWARF2 Fig.14, DWARF3 Fig.20, DWARF4 Fig.20, DWARF5 Table 7.5; {} = not defined in that version.
LL2 == {"block", "loclist"}   LL3 == {"block", "loclist"}   LL4 == {"exprloc", "loclist"}
CRX == {"constant", "exprloc", "reference"}   BCR == {"block", "constant", "reference"}
Row(code, c2, c3, c4, c5) == [code |-> code, cls |-> <<c2, c3, c4, c5>>]
AttrTab == [
  DW_AT_location |-> Row(2, LL2, LL3, LL4, LL4),
  DW_AT_string_length |-> Row(25, LL2, LL3, LL4, {"exprloc", "loclist", "reference"}),
  DW_AT_return_addr |-> Row(42, LL2, LL3, LL4, LL4),
  DW_AT_frame_base |-> Row(64, LL2, LL3, LL4, LL4),
  DW_AT_segment |-> Row(70, LL2, LL3, LL4, LL4),
  DW_AT_static_link |-> Row(72, LL2, LL3, LL4, LL4),
  DW_AT_use_location |-> Row(74, LL2, LL3, LL4, LL4),
  DW_AT_vtable_elem_location |-> Row(77, {"block", "reference"}, LL3, LL4, LL4),
  DW_AT_data_member_location |-> Row(56, {"block", "reference"}, {"block", "constant", "loclist"},
                                     {"constant", "exprloc", "loclist"}, {"constant", "exprloc", "loclist"}),
  DW_AT_const_value |-> Row(28, {"string", "constant", "block"}, {"block", "constant", "string"}, {"block", "constant", "string"},
                            {"block", "constant", "string"}),
  DW_AT_lower_bound |-> Row(34, {"constant", "reference"}, BCR, CRX, CRX),
  DW_AT_upper_bound |-> Row(47, {"constant", "reference"}, BCR, CRX, CRX),
  DW_AT_count |-> Row(55, {"constant", "reference"}, BCR, CRX, CRX),
  DW_AT_byte_size |-> Row(11, {"constant"}, BCR, CRX, CRX),
  DW_AT_bit_size |-> Row(13, {"constant"}, BCR, CRX, CRX),
  DW_AT_data_location |-> Row(80, {}, {"block"}, {"exprloc"}, {"exprloc"}),
  DW_AT_call_value |-> Row(126, {}, {}, {}, {"exprloc"}),
  DW_AT_call_target |-> Row(131, {}, {}, {}, {"exprloc"}),
  DW_AT_call_target_clobbered |-> Row(132, {}, {}, {}, {"exprloc"}),
  DW_AT_call_data_location |-> Row(133, {}, {}, {}, {"exprloc"}),
  DW_AT_call_data_value |-> Row(134, {}, {}, {}, {"exprloc"}),
  \* GNU call-site extensions (GCC dwarf2.def): DWARF expressions, block before DWARF4 and exprloc from then on
  DW_AT_GNU_call_site_value |-> Row(8465, {"block"}, {"block"}, {"exprloc"}, {"exprloc"}),
  DW_AT_GNU_call_site_data_value |-> Row(8466, {"block"}, {"block"}, {"exprloc"}, {"exprloc"}),
  DW_AT_GNU_call_site_target |-> Row(8467, {"block"}, {"block"}, {"exprloc"}, {"exprloc"}),
  DW_AT_name |-> Row(3, {"string"}, {"string"}, {"string"}, {"string"}),
  DW_AT_low_pc |-> Row(17, {"address"}, {"address"}, {"address"}, {"address"}),
  \* (DW_AT_ranges is new in DWARF3; GCC emitted it in version-2 units as a forward extension, offset as data4)
  DW_AT_ranges |-> Row(85, {"rnglist"}, {"rnglist"}, {"rnglist"}, {"rnglist"}),
  DW_AT_GNU_locviews |-> Row(8503, {}, {}, {}, {}),
  DW_AT_addr_base |-> Row(115, {}, {}, {}, {"addrptr"}),
  DW_AT_rnglists_base |-> Row(116, {}, {}, {}, {"rnglistsptr"}),
  DW_AT_loclists_base |-> Row(140, {}, {}, {}, {"loclistsptr"}) ]
AttrNames == DOMAIN AttrTab
AtCode(n) == AttrTab[n].code
AttrClasses(n, ver) == AttrTab[n].cls[ver - 1]
\* attributes whose value is a location description and that admit a location list
LocListAttrs == {"DW_AT_location", "DW_AT_string_length", "DW_AT_return_addr", "DW_AT_frame_base", "DW_AT_segment", "DW_AT_static_link",
                 "DW_AT_use_location", "DW_AT_vtable_elem_location", "DW_AT_data_member_location"}

\* classes a form can stand for, per version (DWARF2 7.5.4, DWARF3 7.5.4, DWARF4 7.5.4, DWARF5 7.5.5 / Table 7.6)
ConstForms == {"DW_FORM_data1", "DW_FORM_data2", "DW_FORM_data4", "DW_FORM_data8", "DW_FORM_sdata", "DW_FORM_udata"}
OldBlocks == {"DW_FORM_block1", "DW_FORM_block2", "DW_FORM_block4", "DW_FORM_block"}
RefForms == {"DW_FORM_ref_addr", "DW_FORM_ref1", "DW_FORM_ref2", "DW_FORM_ref4", "DW_FORM_ref8", "DW_FORM_ref_udata"}
FormClasses(f, ver) ==
  CASE f = "DW_FORM_addr" -> {"address"}
    [] f \in OldBlocks -> {"block"}
    [] f \in {"DW_FORM_data4", "DW_FORM_data8"} ->
         IF ver = 2 THEN {"constant", "loclist", "rnglist"}
         ELSE IF ver = 3 THEN {"constant", "lineptr", "loclist", "macptr", "rnglist"} ELSE {"constant"}
    [] f \in ConstForms -> {"constant"}
    [] f \in {"DW_FORM_string", "DW_FORM_strp"} -> {"string"}
    [] f = "DW_FORM_flag" -> {"flag"}
    [] f \in RefForms -> {"reference"}
    [] f \in {"DW_FORM_GNU_ref_alt"} -> {"reference"}
    [] f \in {"DW_FORM_GNU_strp_alt"} -> {"string"}
    [] f = "DW_FORM_sec_offset" -> IF ver < 4 THEN {}
                                   ELSE IF ver = 4 THEN {"lineptr", "loclist", "macptr", "rnglist"}
                                   ELSE {"addrptr", "lineptr", "loclist", "loclistsptr", "macptr", "rnglist", "rnglistsptr", "stroffsetsptr"}
    [] f = "DW_FORM_exprloc" -> IF ver < 4 THEN {} ELSE {"exprloc"}
    [] f = "DW_FORM_flag_present" -> IF ver < 4 THEN {} ELSE {"flag"}
    [] f = "DW_FORM_ref_sig8" -> IF ver < 4 THEN {} ELSE {"reference"}
    [] f = "DW_FORM_loclistx" -> IF ver < 5 THEN {} ELSE {"loclist"}
    [] f = "DW_FORM_rnglistx" -> IF ver < 5 THEN {} ELSE {"rnglist"}
    [] f \in {"DW_FORM_addrx", "DW_FORM_addrx1", "DW_FORM_addrx2", "DW_FORM_addrx3", "DW_FORM_addrx4"} -> IF ver < 5 THEN {} ELSE {"address"}
    [] f \in {"DW_FORM_strx", "DW_FORM_strx1", "DW_FORM_strx2", "DW_FORM_strx3", "DW_FORM_strx4", "DW_FORM_line_strp", "DW_FORM_strp_sup"} ->
         IF ver < 5 THEN {} ELSE {"string"}
    [] f \in {"DW_FORM_data16", "DW_FORM_implicit_const"} -> IF ver < 5 THEN {} ELSE {"constant"}
    [] f \in {"DW_FORM_ref_sup4", "DW_FORM_ref_sup8"} -> IF ver < 5 THEN {} ELSE {"reference"}
    [] OTHER -> {}
All3 == {"expression", "list", "none"}
CubeForms == Forms \ {"DW_FORM_indirect"}
\* the admissible answers: a singleton where the class tables decide, a larger set where they do not
Classify(n, f, ver) ==
  LET cls == AttrClasses(n, ver)   m == cls \cap FormClasses(f, ver)
      expr == IF n \in LocListAttrs THEN {"expression"} ELSE {"expression", "none"}
      Ans(x) == CASE x = "exprloc" -> expr
                  \* DWARF2/3: the block value of these attributes is a location / DWARF expression (7.5.4 block);
                  \* DW_AT_const_value's block is the constant itself
                  [] x = "block" -> IF ver < 4 /\ n # "DW_AT_const_value" THEN expr ELSE {"none"}
                  [] x = "loclist" -> {"list"}
                  [] OTHER -> {"none"}
  IN IF m = {} THEN All3
     \* (DWARF2 does not say which constant forms carry a list offset: only the offset-sized data4/data8 are entered
     \* as "loclist" in FormClasses, the other constant forms on a location attribute stay undecided)
     ELSE UNION {Ans(x) : x \in m}

(* ------------------------------ unit writer ---------------------------- *)
\* (operators copied from DieTree.tla: abbreviation declarations, unit header, entries)
Spec1(name, form) == [name |-> name, form |-> form]
Decl(code, tagc, kids, specs) == [code |-> code, tag |-> tagc, kids |-> kids, specs |-> specs]
EncSpec(sp) == UlebOfNat(sp.name) \o UlebOfNat(FormCode[sp.form])
EncDecl(d) == UlebOfNat(d.code) \o UlebOfNat(d.tag) \o <<IF d.kids THEN 1 ELSE 0>>
              \o Flat([i \in 1..Len(d.specs) |-> EncSpec(d.specs[i])]) \o <<0, 0>>
EncAbbrevs(ds) == Flat([i \in 1..Len(ds) |-> EncDecl(ds[i])]) \o <<0>>
TagCU == 17
TagVariable == 52
A(form, v) == [form |-> form, v |-> v]
UCtx(s, b) == [ver |-> b.ver, fmt |-> b.fmt, asz |-> s.asz, le |-> s.le]
\* DWARF2-4 7.5.1 header / DWARF5 7.5.1.1 (DW_UT_compile = 1)
UnitBytes(c, aoff, body) ==
  LET ao == Fix(N(aoff), OffSize(c), c.le)   ver == Fix(N(c.ver), 2, c.le)
      tail == (IF c.ver >= 5 THEN ver \o <<1, c.asz>> \o ao ELSE ver \o ao \o <<c.asz>>) \o body
  IN InitLen(Len(tail), c.fmt, c.le) \o tail

\* the form a unit uses to designate a list by section offset (DWARF3 7.5.4: data4 / data8 by format; DWARF4+: sec_offset)
DirectForm(b) == IF b.ver = 2 THEN "DW_FORM_data4" ELSE IF b.ver = 3 THEN (IF b.fmt = 32 THEN "DW_FORM_data4" ELSE "DW_FORM_data8")
                 ELSE "DW_FORM_sec_offset"
IndexForm(which) == IF which = "loc" THEN "DW_FORM_loclistx" ELSE "DW_FORM_rnglistx"
LocNames == <<"DW_AT_location", "DW_AT_frame_base", "DW_AT_string_length", "DW_AT_return_addr", "DW_AT_segment", "DW_AT_static_link",
              "DW_AT_use_location", "DW_AT_vtable_elem_location", "DW_AT_data_member_location">>
NameAt(which, ver, p) == IF which = "rng" THEN "DW_AT_ranges"
                         ELSE LET n == IF ver = 2 THEN 7 ELSE IF ver = 3 THEN 8 ELSE 9 IN LocNames[((p - 1) % n) + 1]
ExprBytes == <<145, 124>>                  \* DW_OP_fbreg -4
\* references of the unit of block k: by section offset, to a suffix, by index; then (loc) one expression-valued attribute
Refs(s, k) ==
  LET b == s.blocks[k]   its == b.items
      R(j, form, ix, skip) == [j |-> j, form |-> form, ix |-> ix, skip |-> skip, vw |-> (skip = 0 /\ ix < 0 /\ j > 0 /\ its[j].vs # <<>>)]
      direct == Flat([j \in 1..Len(its) |-> IF its[j].t = "list" /\ its[j].ref THEN <<R(j, DirectForm(b), -1, 0)>> ELSE <<>>])
      sfx == Flat([j \in 1..Len(its) |-> IF its[j].t = "list" /\ its[j].sfx > 0 THEN <<R(j, DirectForm(b), -1, its[j].sfx)>> ELSE <<>>])
      idx == [i \in 1..b.oc |-> R(b.tgt[i], IndexForm(s.which), i - 1, 0)]
      ex == IF s.which = "loc" THEN <<[j |-> 0, form |-> IF b.ver >= 4 THEN "DW_FORM_exprloc" ELSE "DW_FORM_block1", ix |-> -1, skip |-> 0, vw |-> FALSE]>>
            ELSE <<>>
      all == direct \o sfx \o idx \o ex
  IN [p \in 1..Len(all) |-> [j |-> all[p].j, form |-> all[p].form, ix |-> all[p].ix, skip |-> all[p].skip, vw |-> all[p].vw,
                             name |-> IF all[p].vw \/ all[p].j = 0 THEN "DW_AT_location" ELSE NameAt(s.which, b.ver, p)]]
\* packing of the references into debugging entries: greedily, at most n references per entry, attribute names of
\* an entry pairwise distinct (DWARF 2.2); a group = the positions (in Refs) of the references one entry carries
Pack1 == [n |-> 1, rev |-> FALSE]
PackOf(s) == IF "pack" \in DOMAIN s THEN s.pack ELSE Pack1
RECURSIVE GroupRefs(_, _, _, _)
GroupRefs(refs, p, n, acc) ==
  IF p > Len(refs) THEN acc
  ELSE LET cur == IF acc = <<>> THEN <<>> ELSE acc[Len(acc)]
           fits == acc # <<>> /\ Len(cur) < n /\ \A q \in 1..Len(cur) : refs[cur[q]].name # refs[p].name
       IN IF fits THEN GroupRefs(refs, p + 1, n, [acc EXCEPT ![Len(acc)] = Append(@, p)])
          ELSE GroupRefs(refs, p + 1, n, Append(acc, <<p>>))
Groups(s, k) == GroupRefs(Refs(s, k), 1, PackOf(s).n, <<>>)
EntryOf(grps, p) == CHOOSE g \in 1..Len(grps) : \E q \in 1..Len(grps[g]) : grps[g][q] = p
\* the section offset a reference designates
RefTarget(s, ly, k, r) ==
  IF r.skip = 0 THEN ly[k].loffs[r.j] ELSE RawViews(s, s.blocks[k].items[r.j].es, ly[k].loffs[r.j])[r.skip + 1].o
UnitOf(s, ly, k, aoff, abase) ==
  LET b == s.blocks[k]   c == UCtx(s, b)   refs == Refs(s, k)
      rootspecs == IF b.ver >= 5 THEN <<Spec1(AtCode("DW_AT_addr_base"), "DW_FORM_sec_offset"),
                                        Spec1(AtCode(IF s.which = "loc" THEN "DW_AT_loclists_base" ELSE "DW_AT_rnglists_base"), "DW_FORM_sec_offset")>>
                   ELSE <<>>
      rootattrs == IF b.ver >= 5 THEN <<A("DW_FORM_sec_offset", N(abase)), A("DW_FORM_sec_offset", N(ly[k].toff))>> ELSE <<>>
      cspecs(p) == LET r == refs[p] IN
                   IF r.vw THEN <<Spec1(AtCode("DW_AT_GNU_locviews"), DirectForm(b)), Spec1(AtCode(r.name), r.form)>>
                   ELSE <<Spec1(AtCode(r.name), r.form)>>
      cattrs(p) == LET r == refs[p] IN
                   IF r.j = 0 THEN <<A(r.form, B(ExprBytes))>>
                   ELSE IF r.vw THEN <<A(DirectForm(b), N(ly[k].ioffs[r.j])), A(r.form, N(RefTarget(s, ly, k, r)))>>
                   ELSE IF r.ix >= 0 THEN <<A(r.form, B(UlebOfNat(r.ix)))>>
                   ELSE <<A(r.form, N(RefTarget(s, ly, k, r)))>>
      grps == Groups(s, k)
      ord(g) == IF PackOf(s).rev THEN Rev(grps[g]) ELSE grps[g]
      gspecs(g) == LET o == ord(g) IN Flat([q \in 1..Len(o) |-> cspecs(o[q])])
      gattrs(g) == LET o == ord(g) IN Flat([q \in 1..Len(o) |-> cattrs(o[q])])
      decls == <<Decl(1, TagCU, TRUE, rootspecs)>> \o [g \in 1..Len(grps) |-> Decl(g + 1, TagVariable, FALSE, gspecs(g))]
      encdie(code, attrs) == UlebOfNat(code) \o Flat([i \in 1..Len(attrs) |-> EncForm(attrs[i], c)])
      body == encdie(1, rootattrs) \o Flat([g \in 1..Len(grps) |-> encdie(g + 1, gattrs(g))]) \o <<0>>
  IN [abbrev |-> EncAbbrevs(decls), info |-> UnitBytes(c, aoff, body)]

(* --------------------------- value alphabets --------------------------- *)
RECURSIVE DLe(_, _)
DLe(a, b) == IF a = <<>> THEN TRUE                     \* a <= b on equal-length digit strings
             ELSE IF a[Len(a)] # b[Len(b)] THEN a[Len(a)] < b[Len(b)] ELSE DLe(SubSeq(a, 1, Len(a) - 1), SubSeq(b, 1, Len(b) - 1))
AdrLow(asz) == [i \in 1..asz |-> IF i = 1 THEN 1 ELSE 0]
AdrMid(asz) == [i \in 1..asz |-> IF i = 2 THEN 16 ELSE IF i = 3 THEN 64 ELSE 0]                  \* 0x401000
AdrSign(asz) == [i \in 1..asz |-> IF i = 1 THEN 1 ELSE IF i = asz THEN 128 ELSE 0]
AVals(asz) == {AdrLow(asz), AdrMid(asz), AllOnes(asz), AdrSign(asz)}
Big31 == <<254, 255, 255, 127, 0, 0, 0, 0>>
UVals(asz) == {D8(0), D8(1), D8(127), D8(128), D8(16384), Big31}
              \cup (IF asz = 8 THEN {<<0, 0, 0, 0, 1, 0, 0, 0>>, <<254, 255, 255, 255, 255, 255, 255, 127>>} ELSE {})
IVals == {D8(0), D8(1), D8(2)}
Ramp(n) == [i \in 1..n |-> (i * 7) % 256]
ExprVals(lv) == IF lv = 5 THEN {<<>>, <<80>>, Ramp(127), Ramp(128), Ramp(300)} ELSE {<<>>, <<80>>, Ramp(255), Ramp(256), Ramp(300)}
OpVals(t, asz) == IF t = "idx" THEN IVals ELSE IF t = "uleb" THEN UVals(asz) ELSE AVals(asz)
OpDefault(t, asz, p) == IF t = "idx" THEN D8(p - 1) ELSE IF t = "uleb" THEN D8(100 * p) ELSE (IF p = 1 THEN AdrLow(asz) ELSE AdrMid(asz))
\* well-formedness of the operands of one entry: begin <= end, start + length inside the address space
OpsOk(k, ops, asz) ==
  CASE k \in {"offset_pair", "start_end"} -> DLe(ops[1], ops[2])
    [] k = "start_length" -> ops[1] # AllOnes(asz)
    [] k = "startx_length" -> ops[1] # D8(1) \/ ops[2] \in {D8(0), D8(1)}
    [] OTHER -> TRUE
KindEntries5(which, asz) ==
  UNION {LET ts == Ops(k)
             opsets == IF Len(ts) = 0 THEN {<<>>}
                       ELSE IF Len(ts) = 1 THEN {<<a>> : a \in OpVals(ts[1], asz)}
                       ELSE {<<a, b>> : a \in OpVals(ts[1], asz), b \in OpVals(ts[2], asz)}
             defops == [p \in 1..Len(ts) |-> OpDefault(ts[p], asz, p)]
             ex == IF HasExpr(which, k) THEN <<80>> ELSE <<>>
         IN {Ent(k, o, 0, ex) : o \in {x \in opsets : OpsOk(k, x, asz)}}
            \cup {Ent(k, defops, 2, ex)}
            \cup (IF HasExpr(which, k) THEN {Ent(k, defops, pd, e) : pd \in {0, 2}, e \in ExprVals(5)} ELSE {})
        : k \in Kinds5(which)}
KindEntries4(which, asz) ==
  {Ent("pair", <<a, b>>, 0, IF which = "loc" THEN <<80>> ELSE <<>>) :
     a \in {DZero(asz), AdrLow(asz), AdrMid(asz), AdrSign(asz)}, b \in AVals(asz)}
  \cup {Ent("base_select", <<a>>, 0, <<>>) : a \in {DZero(asz), AdrMid(asz), AllOnes(asz), AdrSign(asz)}}
  \cup (IF which = "loc" THEN {Ent("pair", <<AdrLow(asz), AdrMid(asz)>>, 0, e) : e \in ExprVals(4)} ELSE {})
VerFmt4 == {<<2, 32>>, <<3, 32>>, <<3, 64>>, <<4, 32>>, <<4, 64>>}
Sec(which, lv, asz, le, blocks) == [which |-> which, lv |-> lv, asz |-> asz, le |-> le, blocks |-> blocks]
Blk(ver, fmt, oc, items, tgt) == [ver |-> ver, fmt |-> fmt, oc |-> oc, items |-> items, tgt |-> tgt]
KindsSet ==
  UNION {UNION {{<<en.k, Sec(which, 5, asz, le, <<Blk(5, fmt, 1, <<LItem(<<en>>, <<>>, TRUE, 0)>>, <<1>>)>>)>> : en \in KindEntries5(which, asz)}
               \cup {<<en.k, Sec(which, 4, asz, le, <<Blk(vf[1], vf[2], 0, <<LItem(<<en>>, <<>>, TRUE, 0)>>, <<>>)>>)>> :
                       en \in {x \in KindEntries4(which, asz) : x.k = "base_select" \/ DLe(x.ops[1], x.ops[2])}, vf \in VerFmt4}
               : fmt \in {32, 64}, le \in BOOLEAN} : which \in {"loc", "rng"}, asz \in {4, 8}}

\* ---- mode "lists": operands of the entry appended at position i
PosAddr(asz, i, d) == [q \in 1..asz |-> IF q = 1 THEN 16 * i + d ELSE IF q = 2 THEN 16 ELSE IF q = 3 THEN 64 ELSE 0]
PosEntry(which, lv, k, i, asz) ==
  LET e == IF lv = 4 THEN (IF which = "loc" /\ k = "pair" THEN Ramp(i) ELSE <<>>) ELSE IF HasExpr(which, k) THEN Ramp(i) ELSE <<>> IN
  CASE k = "pair" -> Ent(k, <<PosAddr(asz, i, 0), PosAddr(asz, i, 8)>>, 0, e)
    [] k = "base_select" -> Ent(k, <<PosAddr(asz, i, 3)>>, 0, e)
    [] OTHER -> LET ts == Ops(k) IN
                \* (startx_length starts from table entries 0 / 2 only: entry 1 is close to the top of the address space)
                Ent(k, [p \in 1..Len(ts) |-> IF ts[p] = "idx" THEN (IF k = "startx_length" THEN D8(2 * (i % 2)) ELSE D8((i + p) % 3))
                                            ELSE IF ts[p] = "uleb" THEN D8(16 * i + 200 * (p - 1) + (IF k = "offset_pair" THEN 0 ELSE 50))
                                            ELSE PosAddr(asz, i, 8 * (p - 1))], i % 2, e)
ListCtx == {<<4, TRUE, 5, 32>>, <<8, TRUE, 5, 64>>, <<8, FALSE, 5, 32>>, <<4, FALSE, 5, 64>>,
            <<4, TRUE, 2, 32>>, <<8, TRUE, 3, 64>>, <<8, FALSE, 4, 32>>, <<4, FALSE, 3, 32>>}          \* asz, le, unit version, format
ListInit(which, x) ==
  LET lv == IF x[3] = 5 THEN 5 ELSE 4
      l0 == IF lv = 5 THEN <<Ent("base_address", <<AdrMid(x[1])>>, 0, <<>>)>> ELSE <<Ent("base_select", <<AdrMid(x[1])>>, 0, <<>>)>>
  IN Sec(which, lv, x[1], x[2], <<Blk(x[3], x[4], IF lv = 5 THEN 2 ELSE 0, <<LItem(l0, <<>>, TRUE, 0), LItem(<<>>, <<>>, TRUE, 0)>>,
                                    IF lv = 5 THEN <<2, 1>> ELSE <<>>)>>)

\* ---- mode "sections": the block template (k = position of the block)
Gap1 == <<170, 187, 204>>
TplLists(which, lv, k, asz) ==
  IF lv = 5
  THEN << <<PosEntry(which, 5, IF k % 2 = 1 THEN "base_address" ELSE "base_addressx", k, asz), PosEntry(which, 5, "offset_pair", k + 1, asz),
            PosEntry(which, 5, "start_length", k + 2, asz)>>,
          <<PosEntry(which, 5, "startx_endx", k, asz)>> \o (IF which = "loc" THEN <<PosEntry(which, 5, "default_location", k + 1, asz)>> ELSE <<>>),
          <<>> >>
  ELSE << <<PosEntry(which, 4, "base_select", k, asz), PosEntry(which, 4, "pair", k + 1, asz), PosEntry(which, 4, "pair", k + 2, asz)>>,
          <<PosEntry(which, 4, "pair", k + 3, asz)>>, <<>> >>
TplBlock(s, k, ver, fmt, oc) ==
  LET ls == TplLists(s.which, s.lv, k, s.asz)
      vws == IF s.which = "loc" /\ s.gaps /\ k = 1 /\ oc # 3 THEN << <<1, 2>>, <<0, 300>> >> ELSE <<>>
      i1 == LItem(ls[1], vws, TRUE, IF k = 1 /\ ~s.gaps THEN 1 ELSE 0)
      i2 == LItem(ls[2], <<>>, k % 2 = 1, 0)
      i3 == LItem(ls[3], <<>>, TRUE, 0)
      items == IF s.gaps THEN (<<GItem(Gap1), i1, GItem(<<0>>), i2, i3>> \o (IF k = 2 THEN <<GItem(Gap1)>> ELSE <<>>)) ELSE <<i1, i2, i3>>
      at(n) == IF s.gaps THEN (CASE n = 1 -> 2 [] n = 2 -> 4 [] n = 3 -> 5) ELSE n
  IN Blk(ver, fmt, oc, items, IF oc = 1 THEN <<at(2)>> ELSE IF oc = 3 THEN <<at(3), at(1), at(2)>> ELSE <<>>)
FmtAt(fp, k) == IF fp = "32" THEN 32 ELSE IF fp = "64" THEN 64 ELSE IF k % 2 = 1 THEN 64 ELSE 32
\* packings: one reference per entry; two per entry with the attributes in reverse order (a view pair comes last);
\* three per entry (view pair first)
Packs(w) == IF w = "loc" THEN {Pack1, [n |-> 2, rev |-> TRUE], [n |-> 3, rev |-> FALSE]} ELSE {Pack1}
SecInit == UNION {{[which |-> w, lv |-> 5, asz |-> a, le |-> l, blocks |-> <<>>, fp |-> fp, gaps |-> g, pack |-> pk] :
                     a \in {4, 8}, l \in BOOLEAN, fp \in {"32", "64", "mix"}, g \in BOOLEAN, pk \in Packs(w)}
                  \cup {[which |-> w, lv |-> 4, asz |-> x[1], le |-> x[2], blocks |-> <<>>, fp |-> "32", gaps |-> g, pack |-> pk] :
                     x \in {<<4, TRUE>>, <<8, FALSE>>}, g \in BOOLEAN, pk \in Packs(w)}
                  : w \in {"loc", "rng"}}
\* ---- mode "pair": a DWARF4 unit with .debug_loc/.debug_ranges next to DWARF5 units with .debug_loclists/.debug_rnglists
PairSet == {LET s4 == [which |-> w, lv |-> 4, asz |-> a, le |-> l, blocks |-> <<>>, fp |-> "32", gaps |-> FALSE]
                s5 == [which |-> w, lv |-> 5, asz |-> a, le |-> l, blocks |-> <<>>, fp |-> "mix", gaps |-> FALSE]
            IN [a |-> [s4 EXCEPT !.blocks = <<TplBlock(s4, 1, 4, 32, 0)>>],
                b |-> [s5 EXCEPT !.blocks = <<TplBlock(s5, 1, 5, 64, 1), TplBlock(s5, 2, 5, 32, 3)>>]] :
            w \in {"loc", "rng"}, a \in {4, 8}, l \in BOOLEAN}
CubeSet == {[name |-> n, ver |-> v] : n \in AttrNames, v \in 2..5}

(* ------------------------------ the writer ----------------------------- *)
Init ==
  /\ mode \in Modes
  /\ CASE mode = "kinds" -> \E x \in KindsSet : sec = x[2] /\ tag = x[1] /\ fin = TRUE
       [] mode = "lists" -> \E w \in {"loc", "rng"}, x \in ListCtx : sec = ListInit(w, x) /\ tag = "lists" /\ fin = FALSE
       [] mode = "sections" -> \E x \in SecInit : sec = x /\ tag = "sections" /\ fin = FALSE
       [] mode = "pair" -> \E x \in PairSet : sec = x /\ tag = "pair" /\ fin = TRUE
       [] mode = "classify" -> \E x \in CubeSet : sec = x /\ tag = "classify" /\ fin = TRUE
\* token writer of one list (the second item of the only block)
CurLen == Len(sec.blocks[1].items[2].es)
AddEntry(k) ==
  /\ mode = "lists" /\ ~fin /\ CurLen < (IF sec.lv = 5 THEN MaxLen ELSE MaxLen + 1)
  /\ sec' = [sec EXCEPT !.blocks[1].items[2].es = Append(@, PosEntry(sec.which, sec.lv, k, CurLen + 1, sec.asz))]
  /\ UNCHANGED <<mode, fin, tag>>
EndList == mode = "lists" /\ ~fin /\ fin' = TRUE /\ UNCHANGED <<mode, sec, tag>>
\* block writer
NewBlock(oc, vf) ==
  /\ mode = "sections" /\ ~fin /\ Len(sec.blocks) < (IF PackOf(sec).n > 1 THEN MaxPackBlocks ELSE MaxBlocks)
  /\ (sec.lv = 5 => vf = <<5, FmtAt(sec.fp, Len(sec.blocks) + 1)>>)
  /\ (sec.lv = 4 => oc = 0 /\ vf \in VerFmt4)
  /\ sec' = [sec EXCEPT !.blocks = Append(@, TplBlock(sec, Len(sec.blocks) + 1, vf[1], vf[2], oc))]
  /\ UNCHANGED <<mode, fin, tag>>
Finish == mode = "sections" /\ ~fin /\ sec.blocks # <<>> /\ fin' = TRUE /\ UNCHANGED <<mode, sec, tag>>
Next == \/ (mode = "lists" /\ \E k \in (IF sec.lv = 5 THEN Kinds5(sec.which) ELSE {"pair", "base_select"}) : AddEntry(k))
        \/ EndList
        \/ (mode = "sections" /\ \E oc \in {0, 1, 3}, vf \in VerFmt4 \cup {<<5, 32>>, <<5, 64>>} : NewBlock(oc, vf))
        \/ Finish
Spec == Init /\ [][Next]_vars

(* ------------------------------- emission ------------------------------ *)
SecsOf == IF mode = "pair" THEN <<sec.a, sec.b>> ELSE <<sec>>
G0(ss, i) == SumTo([x \in 1..Len(ss) |-> Len(ss[x].blocks)], i - 1)
\* units in section/block order: private abbreviation tables and address tables one after the other
RECURSIVE Units(_, _, _, _, _, _)
Units(ss, lys, i, k, aoff, abase) ==
  IF i > Len(ss) THEN [info |-> <<>>, abbrev |-> <<>>, addr |-> <<>>, view |-> <<>>]
  ELSE IF k > Len(ss[i].blocks) THEN Units(ss, lys, i + 1, 1, aoff, abase)
  ELSE LET s == ss[i]   b == s.blocks[k]   is5 == b.ver >= 5   g == G0(ss, i) + k
           ab == IF is5 THEN abase + ILS(b.fmt) + 4 ELSE 0
           u == UnitOf(s, lys[i], k, aoff, ab)
           tb == IF is5 THEN AddrTabBytes(s.asz, s.le, b.fmt, g) ELSE <<>>
           keys == ListKeys(s)   refs == Refs(s, k)   grps == Groups(s, k)
           \* per reference: <<attribute name, form, kind, designated offset | expression bytes, list id, index, entry (child number)>>
           rv == [p \in 1..Len(refs) |->
                    LET r == refs[p] IN
                    IF r.j = 0 THEN <<r.name, r.form, "expr", ExprBytes, 0, -1, EntryOf(grps, p)>>
                    ELSE <<r.name, r.form, "list", RefTarget(s, lys[i], k, r), LId(keys, <<k, r.j, r.skip>>), r.ix, EntryOf(grps, p)>>]
           rest == Units(ss, lys, i, k + 1, aoff + Len(u.abbrev), abase + Len(tb))
       IN [info |-> u.info \o rest.info, abbrev |-> u.abbrev \o rest.abbrev, addr |-> tb \o rest.addr,
           view |-> <<[sec |-> i, blk |-> k, ver |-> b.ver, fmt |-> b.fmt, addr_base |-> ab, refs |-> rv, entries |-> Len(grps)]>> \o rest.view]
Tiled(b) == \A j \in 1..Len(b.items) : b.items[j].t = "list" /\ b.items[j].vs = <<>>
\* compact emission of a list view (lines must stay below the 8 KiB write buffer of CSVWrite): digit strings without
\* leading zero digits, entries as tuples; a suffix list is emitted as <<id of the whole list, entries skipped>>
TrimD(d) == LET nz == {i \in 1..Len(d) : d[i] # 0} IN IF nz = {} THEN <<0>> ELSE SubSeq(d, 1, Max(nz))
EmitList(s, ly, keys, n, g0) ==
  IF keys[n][3] > 0 THEN [of |-> <<LId(keys, <<keys[n][1], keys[n][2], 0>>), keys[n][3]>>]
  ELSE LET v == ListView(s, ly, keys[n], g0) IN
       [off |-> v.off, pairs |-> v.pairs,
        raw |-> [q \in 1..Len(v.raw) |-> <<v.raw[q].k, v.raw[q].o, v.raw[q].n, [p \in 1..Len(v.raw[q].ops) |-> TrimD(v.raw[q].ops[p])], v.raw[q].e>>],
        tr |-> [q \in 1..Len(v.tr) |-> <<v.tr[q].c, TrimD(v.tr[q].a), TrimD(v.tr[q].b), v.tr[q].x>>]]
SecView(s, ly, g0) ==
  LET keys == ListKeys(s) IN
  [which |-> s.which, lv |-> s.lv, bytes |-> SecBytes(ly),
   lists |-> [n \in 1..Len(keys) |-> EmitList(s, ly, keys, n, g0)],
   blocks |-> [k \in 1..Len(ly) |->
                 [off |-> ly[k].off, ul |-> ly[k].ul, is64 |-> s.blocks[k].fmt = 64, oc |-> s.blocks[k].oc, toff |-> ly[k].toff,
                  oal |-> ly[k].off + ILS(s.blocks[k].fmt), ver |-> 5, asz |-> s.asz, seg |-> 0,
                  rel |-> ly[k].rel, tiled |-> Tiled(s.blocks[k]),
                  lids |-> LET its == s.blocks[k].items IN
                           Flat([j \in 1..Len(its) |-> IF its[j].t = "list" THEN <<LId(keys, <<k, j, 0>>)>> ELSE <<>>])]],
   \* does the section end in bytes no debugging entry designates (a raw gap or an unreferenced list)?
   trail |-> LET b == s.blocks[Len(s.blocks)]   j == Len(b.items)   refs == Refs(s, Len(s.blocks)) IN
             b.items[j].t = "gap" \/ ~\E p \in 1..Len(refs) : refs[p].j = j,
   \* the lists the debugging entries designate (each once)
   bydie |-> UNION {LET refs == Refs(s, k) IN {LId(keys, <<k, refs[p].j, refs[p].skip>>) : p \in {q \in 1..Len(refs) : refs[q].j > 0}}
                    : k \in 1..Len(s.blocks)}]
Case ==
  IF mode = "classify"
  THEN [mode |-> mode, tag |-> tag, name |-> sec.name, ver |-> sec.ver, rows |-> [f \in CubeForms |-> Classify(sec.name, f, sec.ver)]]
  ELSE LET ss == SecsOf
           lys == TLCEval([i \in 1..Len(ss) |-> Lay(ss[i], 1, 0)])
           us == Units(ss, lys, 1, 1, 0, 0)
       IN [mode |-> mode, tag |-> tag, pack |-> PackOf(ss[1]).n, le |-> ss[1].le, asz |-> ss[1].asz, info |-> us.info, abbrev |-> us.abbrev, addr |-> us.addr,
           secs |-> [i \in 1..Len(ss) |-> SecView(ss[i], lys[i], G0(ss, i))], units |-> us.view]
Emit == fin => CSVWrite("%1$s", <<ToJson(Case)>>, IOEnv.OUT)

(* ------------------------------ properties ----------------------------- *)
ListMode == mode \in {"kinds", "lists", "sections", "pair"}
\* the byte-level reader, started at a list's offset, returns exactly the writer's entries, offsets and lengths
\* (also from the offset of a suffix) and stops just past the terminator
RoundTrip ==
  (fin /\ ListMode) =>
    \A i \in 1..Len(SecsOf) :
      LET s == SecsOf[i]   ly == Lay(s, 1, 0)   bs == SecBytes(ly)   keys == ListKeys(s) IN
      \A n \in 1..Len(keys) :
        LET v == ListView(s, ly, keys[n], 0)
            r == ReadList(bs, v.off + 1, s.which, s.lv, s, <<>>)
        IN /\ Len(r.entries) = Len(v.raw)
           /\ \A q \in 1..Len(v.raw) : /\ r.entries[q].k = v.raw[q].k /\ r.entries[q].ops = v.raw[q].ops /\ r.entries[q].e = v.raw[q].e
                                        /\ r.entries[q].off = v.raw[q].o /\ r.entries[q].len = v.raw[q].n
           /\ r.endAt - 1 = v.endoff
\* no entry before the end of a list reads as a terminator, and the bytes before the end offset are the terminator
ListEndsAtTerminator ==
  (fin /\ ListMode) =>
    \A i \in 1..Len(SecsOf) :
      LET s == SecsOf[i]   ly == Lay(s, 1, 0)   bs == SecBytes(ly)   keys == ListKeys(s)   tl == Len(Terminator(s.lv, s)) IN
      \A n \in 1..Len(keys) :
        LET v == ListView(s, ly, keys[n], 0) IN
        /\ Slice(bs, v.endoff - tl + 1, tl) = Terminator(s.lv, s)
        /\ \A q \in 1..Len(v.raw) : /\ v.raw[q].k # "end_of_list"
                                     /\ ReadEntry(bs, v.raw[q].o + 1, s.which, s.lv, s).k = v.raw[q].k
        /\ (v.raw # <<>> => v.raw[Len(v.raw)].o + v.raw[Len(v.raw)].n + tl = v.endoff)
        /\ (v.raw = <<>> => v.off + tl = v.endoff)
\* an index resolves through the offset table: the bytes at base + i * offset size hold offsets[i], and base + offsets[i] is a list
IndexResolves ==
  (fin /\ ListMode) =>
    \A i \in 1..Len(SecsOf) :
      LET s == SecsOf[i]   ly == Lay(s, 1, 0)   bs == SecBytes(ly) IN
      s.lv = 5 =>
        \A k \in 1..Len(ly) : \A x \in 0..(s.blocks[k].oc - 1) :
          LET w == OffSz(s.blocks[k].fmt) IN
          /\ NatOf(FixDec(Slice(bs, ly[k].toff + x * w + 1, w), s.le, FALSE).d) = ly[k].rel[x + 1]
          /\ ByIndex(ly, k, x) = ly[k].loffs[s.blocks[k].tgt[x + 1]]
          /\ s.blocks[k].items[s.blocks[k].tgt[x + 1]].t = "list"
          /\ ByIndex(ly, k, x) >= ly[k].ioff /\ ByIndex(ly, k, x) < ly[k].off + ly[k].len
\* unit blocks tile the section (walking by unit_length), the offset table ends where the items begin, items tile the block,
\* and where a block has no gaps the list machine walks from list to list up to the block's end
RECURSIVE WalkBlocks(_, _, _, _)
WalkBlocks(bs, at, le, acc) ==
  IF at >= Len(bs) THEN [offs |-> acc, endAt |-> at]
  ELSE LET il == InitialLength(SubSeq(bs, at + 1, Min({Len(bs), at + 12})), le) IN
       WalkBlocks(bs, at + il.used + NatOf(il.len.d), le, Append(acc, at))
RECURSIVE WalkLists(_, _, _, _, _)
WalkLists(bs, at, endoff, s, acc) ==
  IF at >= endoff THEN [offs |-> acc, endAt |-> at]
  ELSE WalkLists(bs, ReadList(bs, at + 1, s.which, 5, s, <<>>).endAt - 1, endoff, s, Append(acc, at))
BlocksTile ==
  (fin /\ ListMode) =>
    \A i \in 1..Len(SecsOf) :
      LET s == SecsOf[i]   ly == Lay(s, 1, 0)   bs == SecBytes(ly) IN
      /\ \A k \in 1..Len(ly) :
           /\ ly[k].off + ly[k].len = (IF k < Len(ly) THEN ly[k + 1].off ELSE Len(bs))
           /\ \A j \in 1..Len(ly[k].ioffs) :
                ly[k].ioffs[j] + Len(ItemBytes(s, s.blocks[k].items[j])) = (IF j < Len(ly[k].ioffs) THEN ly[k].ioffs[j + 1] ELSE ly[k].off + ly[k].len)
      /\ s.lv = 5 =>
           LET w == WalkBlocks(bs, 0, s.le, <<>>) IN
           /\ w.endAt = Len(bs)
           /\ w.offs = [k \in 1..Len(ly) |-> ly[k].off]
           /\ \A k \in 1..Len(ly) :
                /\ ly[k].toff + s.blocks[k].oc * OffSz(s.blocks[k].fmt) = ly[k].ioff
                /\ ly[k].ul = ly[k].len - ILS(s.blocks[k].fmt)
                /\ Tiled(s.blocks[k]) =>
                     LET wl == WalkLists(bs, ly[k].ioff, ly[k].off + ly[k].len, s, <<>>) IN
                     wl.endAt = ly[k].off + ly[k].len /\ wl.offs = ly[k].loffs
\* classification is total; it is decided for every location attribute in a form its class table allows, except the
\* DWARF3 data4/data8 ambiguity of DW_AT_data_member_location
ClassifyTotal ==
  mode = "classify" =>
    \A f \in CubeForms :
      LET a == Classify(sec.name, f, sec.ver) IN
      /\ a # {} /\ a \subseteq All3
      /\ (sec.name \in LocListAttrs /\ AttrClasses(sec.name, sec.ver) \cap FormClasses(f, sec.ver) # {}
          /\ ~(sec.ver = 3 /\ sec.name = "DW_AT_data_member_location" /\ f \in {"DW_FORM_data4", "DW_FORM_data8"}))
         => Cardinality(a) = 1
      /\ (sec.name \notin LocListAttrs /\ AttrClasses(sec.name, sec.ver) \cap FormClasses(f, sec.ver) # {}) => "list" \notin a
\* every reference the unit writer generates is one the class tables classify as a list (or an expression)
RefsAreLists ==
  (fin /\ ListMode) =>
    \A i \in 1..Len(SecsOf) : LET s == SecsOf[i] IN
      \A k \in 1..Len(s.blocks) : LET refs == Refs(s, k) IN
        \A p \in 1..Len(refs) :
          IF s.which = "rng" THEN "rnglist" \in AttrClasses(refs[p].name, s.blocks[k].ver) \cap FormClasses(refs[p].form, s.blocks[k].ver)
          ELSE Classify(refs[p].name, refs[p].form, s.blocks[k].ver) = (IF refs[p].j = 0 THEN {"expression"} ELSE {"list"})
\* packing of references into debugging entries: every reference in exactly one entry (order kept), an entry carries 1..n
\* references under pairwise distinct attribute names, and DW_AT_GNU_locviews only next to a DW_AT_location in list form
GroupsOk ==
  (fin /\ ListMode) =>
    \A i \in 1..Len(SecsOf) : LET s == SecsOf[i] IN
      \A k \in 1..Len(s.blocks) : LET refs == Refs(s, k)   grps == Groups(s, k) IN
        /\ Flat(grps) = [p \in 1..Len(refs) |-> p]
        /\ \A g \in 1..Len(grps) :
             /\ Len(grps[g]) \in 1..PackOf(s).n
             /\ \A q1, q2 \in 1..Len(grps[g]) : q1 # q2 => refs[grps[g][q1]].name # refs[grps[g][q2]].name
             /\ \A q \in 1..Len(grps[g]) : refs[grps[g][q]].vw => refs[grps[g][q]].name = "DW_AT_location" /\ refs[grps[g][q]].j > 0
        /\ (s.which = "rng" => \A g \in 1..Len(grps) : Len(grps[g]) = 1)
=============================================================================
