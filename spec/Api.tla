--------------------------------- MODULE Api ---------------------------------
(***************************************************************************)
(* C10, second part - long call histories over the wider read-only API.     *)
(*                                                                         *)
(* The call alphabet of the library on one opened file, with abstract       *)
(* arguments (small indices that the driver maps onto the sections, symbols,*)
(* units and entries the file really has).  State: the history so far and    *)
(* the live generator frames (kind, how many items were taken).  The        *)
(* specification of every query is the same: its answer is a function of     *)
(* the query and its arguments alone - Answer(q, a, b) - never of the        *)
(* history; for generators the k-th next() yields Item(kind, a, b, k).       *)
(* Answer and Item are the declarative truth, which the driver obtains from  *)
(* a freshly opened object per distinct query.  TLC generates the histories  *)
(* (-simulate, seeded) including partial consumption, abandonment,           *)
(* interleaving of generators and adversarial repositioning of the shared    *)
(* streams between any two steps, and checks the protocol invariants.        *)
(*                                                                         *)
(* Object lifetime is a dimension of the histories: the "held_*" calls act  *)
(* on CONTAINER objects (relocation tables incl. RELR and the tables a      *)
(* dynamic section hands out, symbol / version-symbol tables, dynamic       *)
(* sections, version definition / requirement sections, note and attribute  *)
(* sections) that the history obtains ONCE and keeps, so that every later    *)
(* call meets whatever the earlier calls - complete, partial or abandoned   *)
(* iterations, counts, random accesses whose nested iterators were drained  *)
(* or only started - left behind in that object:                            *)
(*   held_iter (generator)   iteration over container a                     *)
(*   held_count              its number of items                            *)
(*   held_get / held_first   random access to item b, nested iterators of    *)
(*                           the result drained / only their first item     *)
(*                           taken (the rest abandoned)                     *)
(*   held_list               a complete iteration as one call               *)
(* Their specification is the same history-free Answer / Item.  The         *)
(* systematic patterns PH2-PH5 enumerate "abandon an iteration after n       *)
(* items, then count / access / list / iterate the same object", "the same   *)
(* access twice, consuming the first result in between", two interleaved     *)
(* iterators and a query between two next() calls, for every container.     *)
(*                                                                         *)
(* The FILE is a dimension too: the histories run on repository files and   *)
(* on a sample of the images the writers of the other properties'           *)
(* specifications generate (vf/c10_writers.py: ElfImage - several sections  *)
(* under one name; LineProgram - DW_LNE_define_file, two units; DieTree -    *)
(* mixed unit contexts; LocRange - DWARF5 list sections with offset tables   *)
(* and DW_FORM_loclistx / DW_FORM_rnglistx; SymHash; thorough: Dynamic,      *)
(* Notes, versions; DWARF-level contents are put into an ELF container by    *)
(* spec/ReadelfEnvelope.tla).  Calls and patterns that need those features:  *)
(*   name_lookup   the three lookups by section name over one lazily built   *)
(*                 map; PN: name, other name (later / missing), name again   *)
(*   indexed_die   lookup of an entry whose parsing consults the offset      *)
(*                 table of a list section; PX: between the next() calls of  *)
(*                 the list generators (a live cursor in that section)       *)
(*   die_count     a walk over all entries; PW: a list generator started on  *)
(*                 warm caches (a fresh object parses while it scans)        *)
(*   line_tables   the header tables of a line-number program; PL: after n   *)
(*                 requests for the program                                  *)
(*   iter_list_CUs / iter_CU_range_lists_ex   DWARF5 list sections block by  *)
(*                 block (headers with offset tables; raw lists of a block)  *)
(*   iter_TUs / tu_by_sig / tu_list   the type units of .debug_types in       *)
(*                 section order, and the lookups by 8-byte type signature    *)
(*                 (get_TU_by_sig8 / get_DIE_by_sig8) over a lazily built     *)
(*                 map; generated files (spec/ApiTypes.tla) carry sections in *)
(*                 which SEVERAL units bear one signature (COMDAT copies kept *)
(*                 by ld -r): the map holds fewer units than the section      *)
(*                                                                         *)
(* MEMO PAIRS are a dimension of the patterns: Families groups the calls     *)
(* that could plausibly share a cache slot, a lazily built table or a        *)
(* stream (call-frame information of .debug_frame / .eh_frame; pubnames /    *)
(* pubtypes / aranges; location / range lists; line programs of two units;   *)
(* two symbol tables; notes of a section / of a segment; units by offset,    *)
(* by signature, in order; ...).  For every two calls A, B of one family -   *)
(* with every argument pair, A = B with other arguments included -           *)
(*   PP  A, B, A on one object                                               *)
(*   PQ  A, then a generator B of the family started AFTER it and advanced   *)
(*       (P3 has the query between two next() calls of a live generator)     *)
(* each answer compared with a fresh object's.  FamiliesCover: every call    *)
(* of the alphabet is in a family, is a held-container call or is one of a   *)
(* kind (Solo, asked twice by P4).                                           *)
(***************************************************************************)
EXTENDS Integers, Sequences, FiniteSets, TLC, Json, CSV, IOUtils

CONSTANTS Depth, MaxGens, K,
          Patterns,   \* TRUE: enumerate the systematic generator patterns instead of simulating
          HK          \* held containers 0..HK-1 in the systematic patterns

VARIABLES hist, gens, pick
vars == <<hist, gens, pick>>

HeldQueries == {"held_count", "held_get", "held_first", "held_list"}
Queries == {"num_sections", "section_by_name", "get_section", "section_index", "num_segments", "get_segment",
            "symbol_by_name", "get_symbol", "num_symbols", "dyn_tag", "num_tags", "needed", "reloc_tables",
            "cu_at", "cu_containing", "top_die", "die_at", "die_attrs", "parent", "children", "follow_ref",
            "line_program", "cfi", "eh_cfi", "decoded", "aranges", "pubnames", "loc_of_die", "ranges_of_die",
            "versions", "hash_lookup", "attributes", "ehabi", "has_dwarf", "address_offsets", "section_in_segment",
            "section_data", "segment_data", "string_at",
            \* a further DWARFInfo from the same file object (the contents of its sections: relocation is applied once per view);
            \* b even: with the default flag, next to the first view; b odd: with relocate_dwarf_sections = FALSE, before or
            \* after the relocating view exists (the flag of an earlier request must not stick)
            "dwarf_again",
            \* the three lookups by section name (a: which name - the driver lists the names SEVERAL sections bear first, then a name
            \* no section has, then others; b: get_section_by_name / get_section_index / has_section): they share one lazily built map
            "name_lookup",
            \* an entry that carries an attribute in an index form (a: DW_FORM_rnglistx, DW_FORM_loclistx, addrx*, strx* as the file
            \* has them; b: which entry), looked up by offset: parsing it consults the offset table of ANOTHER section
            "indexed_die",
            \* the directory / file tables of a line-number program header after the program was run (DW_LNE_define_file adds to them)
            "line_tables",
            \* a walk over every entry of every unit (afterwards the entry caches are complete)
            "die_count",
            \* lookups by type signature (a: which signature - the driver lists the signatures SEVERAL type units bear first, then the
            \* others, then one no unit has; b even: get_TU_by_sig8, b odd: get_DIE_by_sig8): they share one lazily built map
            "tu_by_sig",
            \* the type units / the compile units in section order, a complete enumeration as one call
            "tu_list", "cu_list",
            \* .debug_pubtypes (as pubnames), the decoded table of a .debug_frame entry (as decoded: .eh_frame)
            "pubtypes", "cfi_decoded",
            \* the notes of the a-th SHT_NOTE section (b even) / of the a-th PT_NOTE segment (b odd)
            "notes"} \cup HeldQueries
GenKinds == {"iter_sections", "iter_segments", "iter_symbols", "iter_tags", "iter_notes", "iter_CUs", "iter_DIEs",
             "iter_children", "iter_siblings", "iter_location_lists", "iter_range_lists", "iter_relocations",
             "iter_subsections", "iter_versions", "line_entries", "held_iter",
             \* DWARF5 list sections block by block: the block headers with their offset tables (a even: .debug_rnglists, a odd:
             \* .debug_loclists), and the raw lists of block a
             "iter_list_CUs", "iter_CU_range_lists_ex",
             \* the type units of .debug_types in section order
             "iter_TUs"}
ListKinds == {"iter_location_lists", "iter_range_lists", "iter_list_CUs", "iter_CU_range_lists_ex"}
Streams == {"elf", "dwarf", "all"}
Wheres == {"zero", "mid", "end"}
Ix == 0..(K - 1)

H(op, name, a, b, g, w) == [op |-> op, name |-> name, a |-> a, b |-> b, g |-> g, w |-> w]

\* Systematic patterns (exhaustive, no randomness): for every generator kind and argument pair
\*  P1  start, then three next() calls with the shared streams repositioned to (s, w) before each
\*  P2  two generators of the same kind advanced alternately
\*  P3  start, next, any one query (which moves the streams as a side effect), next, next
PatIx == {0, 1}
P1 == {<<H("start", k, a, b, 1, ""), H("advance", k, a, b, 1, ""), H("perturb", st, 0, 0, 0, w), H("advance", k, a, b, 1, ""),
         H("perturb", st, 0, 0, 0, w), H("advance", k, a, b, 1, ""), H("perturb", st, 0, 0, 0, w), H("advance", k, a, b, 1, "")>> :
        k \in GenKinds, a \in PatIx, b \in PatIx, st \in Streams, w \in Wheres}
P2 == {<<H("start", k, a, b, 1, ""), H("start", k, a, b, 2, ""), H("advance", k, a, b, 1, ""), H("advance", k, a, b, 2, ""),
         H("advance", k, a, b, 1, ""), H("advance", k, a, b, 1, ""), H("advance", k, a, b, 2, ""), H("advance", k, a, b, 2, "")>> :
        k \in GenKinds, a \in PatIx, b \in PatIx}
P3 == {<<H("start", k, a, b, 1, ""), H("advance", k, a, b, 1, ""), H("query", q, c, 1, 0, ""), H("advance", k, a, b, 1, ""),
         H("advance", k, a, b, 1, "")>> : k \in GenKinds, a \in PatIx, b \in {0}, q \in Queries, c \in PatIx}
\*  P4  the same query twice with something in between (repeated identical queries return equal results; objects obtained
\*      by the first call are kept and used again by the second)
P4 == {<<H("query", q, a, b, 0, ""), x, H("query", q, a, b, 0, "")>> :
        q \in Queries, a \in PatIx, b \in PatIx,
        x \in {H("perturb", "all", 0, 0, 0, w) : w \in Wheres} \cup {H("query", "section_by_name", 1, 1, 0, ""), H("query", "die_at", 0, 1, 0, "")}}
\*  PN   lookups by name: a name, then another name (or the same through another call), then the first name again through any of
\*       the three calls - on files in which several sections bear one name the map must have made the same choice every time,
\*       however far an earlier lookup (of a later name, of a name nobody has) had to look
NameIx == 0..3
NameCalls == 0..2
NQ(a, b) == H("query", "name_lookup", a, b, 0, "")
PN == {<<NQ(a1, b1), NQ(a2, b2), NQ(a1, b3)>> : a1 \in NameIx, a2 \in NameIx, b1 \in NameCalls, b2 \in NameCalls, b3 \in NameCalls}
\*  PX   a list generator (a live cursor in .debug_rnglists / .debug_loclists) with lookups of not yet parsed entries whose
\*       attributes are in index forms - resolved through the offset tables of those very sections - between its next() calls
XQ(c, b) == H("query", "indexed_die", c, b, 0, "")
PX == {<<H("start", k, a, 0, 1, ""), H("advance", k, a, 0, 1, ""), XQ(c, b), H("advance", k, a, 0, 1, ""), XQ(c, b2),
         H("advance", k, a, 0, 1, ""), H("advance", k, a, 0, 1, "")>> :
        k \in ListKinds, a \in PatIx, c \in PatIx, b \in 0..2, b2 \in 0..2}
\*  PW   a list generator started on WARM caches (every entry parsed before) - the truth is the generator on a fresh object, whose
\*       own scan of the entries parses them, index forms included, while it runs
PW == {<<H("query", "die_count", 0, 0, 0, ""), H("start", k, a, 0, 1, ""), H("advance", k, a, 0, 1, ""), H("advance", k, a, 0, 1, ""),
         H("advance", k, a, 0, 1, "")>> : k \in ListKinds, a \in PatIx}
\*  PL   the line-number program of a unit asked for again and again (the header tables must not grow): n requests, then the tables
PL == {[i \in 1..(n + 1) |-> IF i <= n THEN H("query", "line_program", a, 0, 0, "") ELSE H("query", "line_tables", a, 0, 0, "")] :
        a \in PatIx, n \in 0..3}
\* ---- held containers (object lifetime)
HeldIx == 0..(HK - 1)
HQ(q, a, b) == H("query", q, a, b, 0, "")
HStart(a, g) == H("start", "held_iter", a, 0, g, "")
HAdv(a, g) == H("advance", "held_iter", a, 0, g, "")
HAbandon(g) == H("abandon", "held_iter", 0, 0, g, "")
HAdvs(a, g, n) == [i \in 1..n |-> HAdv(a, g)]
\* what a client may do with an object after giving up an iteration over it
FollowUps(a) == {<<HQ("held_count", a, 0)>>, <<HQ("held_list", a, 0)>>}
                \cup {<<HQ(q, a, b)>> : q \in {"held_get", "held_first"}, b \in {0, 1}}
                \cup {<<HStart(a, 1)>> \o HAdvs(a, 1, 4)}
\*  PH5  start, n next() calls, abandon, then two follow-ups on the same object (n >= 1: a generator that was never
\*       advanced has not run)
PH5 == UNION {{<<HStart(a, 1)>> \o HAdvs(a, 1, n) \o <<HAbandon(1)>> \o f1 \o f2 :
                 n \in {1, 3}, f1 \in FollowUps(a), f2 \in FollowUps(a)} : a \in HeldIx}
\*  PH2  two iterators over one object advanced alternately
PH2 == {<<HStart(a, 1), HStart(a, 2), HAdv(a, 1), HAdv(a, 2), HAdv(a, 1), HAdv(a, 1), HAdv(a, 2), HAdv(a, 2), HAdv(a, 2),
          HQ("held_count", a, 0), HAdv(a, 1)>> : a \in HeldIx}
\*  PH3  a call on the object between two next() calls of a live iterator over it
PH3 == {<<HStart(a, 1), HAdv(a, 1), HQ(q, a, b), HAdv(a, 1), HAdv(a, 1), HAdv(a, 1)>> :
          a \in HeldIx, q \in HeldQueries, b \in {0, 1}}
\*  PH4  the same access twice - the first result consumed (held_get) or only started (held_first) - directly and with
\*       another call on the object in between
PH4 == {<<HQ(q, a, b), HQ(q, a, b)>> : q \in {"held_get", "held_first"}, a \in HeldIx, b \in {0, 1, 2}}
       \cup {<<HQ(q, a, b), HQ(q2, a, b2), HQ(q, a, b)>> :
               q \in {"held_get", "held_first"}, a \in HeldIx, b \in {0, 1}, q2 \in HeldQueries, b2 \in {0, 1}}
\* ---- memo pairs
\* calls that could plausibly share a cache slot, a lazily built table or a stream (queries and generator kinds alike)
Families == {
  {"cfi", "eh_cfi", "decoded", "cfi_decoded"},                                           \* call-frame information: .debug_frame / .eh_frame
  {"pubnames", "pubtypes", "aranges"},                                                   \* the lookup tables
  {"loc_of_die", "ranges_of_die", "indexed_die"} \cup ListKinds,                          \* location / range lists
  {"line_program", "line_tables", "line_entries"},                                       \* line-number programs (a: two units)
  {"symbol_by_name", "get_symbol", "num_symbols", "hash_lookup", "versions", "iter_symbols", "iter_versions"},   \* a: two symbol tables
  {"notes", "iter_notes"},                                                               \* notes of a section / of a segment
  {"cu_at", "cu_containing", "top_die", "tu_by_sig", "tu_list", "cu_list", "iter_CUs", "iter_TUs", "iter_DIEs"},   \* units
  {"die_at", "parent", "children", "follow_ref", "iter_children", "iter_siblings"},      \* entries
  {"section_by_name", "get_section", "section_index", "name_lookup", "num_sections", "iter_sections"},
  {"section_data", "segment_data", "string_at"},
  {"num_segments", "get_segment", "address_offsets", "section_in_segment", "iter_segments"},
  {"dyn_tag", "num_tags", "needed", "reloc_tables", "iter_tags", "iter_relocations"}}
\* one of a kind (P4 asks each of them twice)
Solo == {"has_dwarf", "dwarf_again", "ehabi", "attributes", "die_attrs", "die_count", "iter_subsections"}
Q(q, a, b) == H("query", q, a, b, 0, "")
\*  PP   A, B, A for every two queries of one family and every argument pair
PP == UNION {{<<Q(q1, a1, b1), Q(q2, a2, b2), Q(q1, a1, b1)>> :
                q1 \in F \cap Queries, q2 \in F \cap Queries, a1 \in PatIx, b1 \in PatIx, a2 \in PatIx, b2 \in PatIx} : F \in Families}
\*  PQ   a query, then a generator of its family started after it, advanced four times, then the query again
PQ == UNION {{<<Q(q, c, b), H("start", k, a, 0, 1, ""), H("advance", k, a, 0, 1, ""), H("advance", k, a, 0, 1, ""),
                H("advance", k, a, 0, 1, ""), H("advance", k, a, 0, 1, ""), Q(q, c, b)>> :
                q \in F \cap Queries, k \in F \cap GenKinds, c \in PatIx, b \in PatIx, a \in PatIx} : F \in Families}
PatternSet == P1 \cup P2 \cup P3 \cup P4 \cup PN \cup PX \cup PW \cup PL \cup PH2 \cup PH3 \cup PH4 \cup PH5 \cup PP \cup PQ

Init == /\ gens = <<>> /\ pick = ""
        /\ IF Patterns THEN hist \in PatternSet ELSE hist = <<>>

Query(q, a, b) == /\ hist' = Append(hist, H("query", q, a, b, 0, "")) /\ UNCHANGED gens
Start(k, a, b) == /\ Len(gens) < MaxGens
                  /\ hist' = Append(hist, H("start", k, a, b, Len(gens) + 1, ""))
                  /\ gens' = Append(gens, [kind |-> k, a |-> a, b |-> b, taken |-> 0])
Advance(g) == /\ hist' = Append(hist, H("advance", gens[g].kind, gens[g].a, gens[g].b, g, ""))
              /\ gens' = [gens EXCEPT ![g].taken = @ + 1]
Abandon(g) == /\ hist' = Append(hist, H("abandon", gens[g].kind, 0, 0, g, ""))
              /\ gens' = SubSeq(gens, 1, g - 1) \o SubSeq(gens, g + 1, Len(gens))
Perturb(s, w) == /\ hist' = Append(hist, H("perturb", s, 0, 0, 0, w)) /\ UNCHANGED gens

\* two-phase step so that random simulation weighs the call classes evenly: first the class, then its details
Classes == {"query", "query2", "start", "adv1", "adv2", "adv3", "abandon", "perturb"}
Final == H("perturb", "all", 0, 0, 0, "end")
Next ==
  /\ ~Patterns
  /\ Len(hist) < Depth
  /\ IF Len(hist) = Depth - 1 /\ pick = ""
     THEN hist' = Append(hist, Final) /\ UNCHANGED <<gens, pick>>        \* every history ends with the final repositioning
     ELSE IF pick = ""
     THEN /\ \E c \in Classes : /\ (c \in {"adv1", "adv2", "adv3", "abandon"} => gens # <<>>)
                                 /\ (c = "start" => Len(gens) < MaxGens)
                                 /\ pick' = c
          /\ UNCHANGED <<hist, gens>>
     ELSE IF pick \in {"query", "query2"} THEN \E q \in Queries : pick' = "q:" \o q /\ UNCHANGED <<hist, gens>>
     ELSE IF pick = "start" THEN \E k \in GenKinds : pick' = "g:" \o k /\ UNCHANGED <<hist, gens>>
     ELSE /\ pick' = ""
          /\ CASE pick \in {"adv1", "adv2", "adv3"} -> \E g \in 1..Len(gens) : Advance(g)
               [] pick = "abandon" -> \E g \in 1..Len(gens) : Abandon(g)
               [] pick = "perturb" -> \E st \in Streams, w \in Wheres : Perturb(st, w)
               [] OTHER -> \/ \E q \in Queries : pick = "q:" \o q /\ \E a \in Ix, b \in Ix : Query(q, a, b)
                           \/ \E k \in GenKinds : pick = "g:" \o k /\ \E a \in Ix, b \in Ix : Start(k, a, b)
Spec == Init /\ [][Next]_vars

\* protocol invariants: frames are only advanced/abandoned while alive; the history and the frames agree
GensBounded == Len(gens) <= MaxGens
TakenMatchesHistory ==
  ~Patterns => \A g \in 1..Len(gens) : gens[g].taken <= Cardinality({i \in 1..Len(hist) : hist[i].op = "advance" /\ hist[i].name = gens[g].kind})
\* the systematic patterns obey the frame protocol too: a frame is advanced / abandoned only while it is alive
\* (frames are numbered by their position among the live ones, an abandoned frame's successors move down)
PatternProtocol ==
  Patterns => \A i \in 1..Len(hist) : hist[i].op \in {"advance", "abandon"} =>
     LET live == Cardinality({j \in 1..(i - 1) : hist[j].op = "start"}) - Cardinality({j \in 1..(i - 1) : hist[j].op = "abandon"})
     IN hist[i].g >= 1 /\ hist[i].g <= live
\* a held pattern stays on one object: whatever follows the abandonment meets the state the abandoned iteration left
HeldSameObject ==
  (Patterns /\ \E i \in 1..Len(hist) : hist[i].op = "abandon") =>
     \A i \in 1..Len(hist) : hist[i].op \in {"query", "start", "advance"} =>
        /\ hist[i].name \in (HeldQueries \cup {"held_iter"}) /\ hist[i].a = hist[1].a
\* a revisiting pattern really revisits: a history of name lookups ends with the name it began with, and a history that ends with
\* the header tables of a line-number program (PL) asked only for that unit's program before
Revisits ==
  Patterns => /\ (hist[1].name = "name_lookup" /\ Len(hist) = 3 /\ hist[3].name = "name_lookup" => hist[3].a = hist[1].a)
              /\ (hist \in PL => hist[Len(hist)].name = "line_tables" /\
                    \A i \in 1..Len(hist) : hist[i].op = "query" /\ hist[i].a = hist[Len(hist)].a /\ hist[i].b = hist[Len(hist)].b)
\* the pair alphabet leaves no call out, and a pair pattern stays inside one family and comes back to the call it began with
FamiliesCover == (Queries \cup GenKinds) \ (HeldQueries \cup {"held_iter"} \cup Solo) \subseteq UNION Families
PairsRevisit ==
  (Patterns /\ hist \in PP \cup PQ) =>
     /\ hist[Len(hist)] = hist[1] /\ hist[1].op = "query"
     /\ \E F \in Families : {hist[1].name, hist[2].name} \subseteq F
     /\ (hist[2].op = "start" => \A i \in 3..(Len(hist) - 1) : hist[i].op = "advance" /\ hist[i].name = hist[2].name /\ hist[i].g = 1)
\* the specification of every answer: a function of the query alone (history-free by construction);
\* the k-th item of a generator is Item(kind, a, b, k)
\* one emission per simulated behaviour: when the history is complete and ends with the final repositioning
Emit == (Patterns \/ (Len(hist) = Depth /\ hist[Depth] = H("perturb", "all", 0, 0, 0, "end"))) => CSVWrite("%1$s", <<ToJson(hist)>>, IOEnv.OUT)
=============================================================================
