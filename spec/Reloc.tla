------------------------------- MODULE Reloc -------------------------------
(***************************************************************************)
(* C08 - relocation tables decode exactly; debug-section relocation         *)
(* follows the psABI.                                                      *)
(*                                                                         *)
(* Transcribed from:                                                       *)
(*   System V gABI ch.4 "Relocation": Elf32/64_Rel, Elf32/64_Rela (layouts  *)
(*     Elf!RelF / Elf!RelaF), ELF32_R_SYM(i) = i >> 8, ELF32_R_TYPE(i) =    *)
(*     (unsigned char) i, ELF64_R_SYM(i) = i >> 32, ELF64_R_TYPE(i) =       *)
(*     i & 0xffffffff; "entries of type Rela contain an explicit addend,    *)
(*     entries of type Rel store an implicit addend in the location to be   *)
(*     modified"; index STN_UNDEF uses 0 as the symbol value; sh_info of a  *)
(*     relocation section = the section it applies to, sh_link = the symbol *)
(*     table; in a relocatable file r_offset is a section offset.           *)
(*   MIPS 64-bit ELF object file specification (elf64-2.4), 2.9: r_info of  *)
(*     Elf64_Rel/Rela is replaced by r_sym (word), r_ssym, r_type3,         *)
(*     r_type2, r_type (bytes), in this order, in the file's byte order.    *)
(*   gABI (generic-abi, "SHT_RELR", proposal of R. Chaudhry adopted for     *)
(*     gABI 4.3): an even entry is an address (a relocation there; the next *)
(*     bitmap starts one word after it); an odd entry is a bitmap: bit 0 is *)
(*     the tag, bit k (1 <= k <= 8*wordsize-1) stands for the word at       *)
(*     base + (k-1)*wordsize; each bitmap advances base by (8*wordsize-1)   *)
(*     words.  RelrEnc below is the encoder given with the proposal.        *)
(*   Processor supplements, relocation tables (type code, field, formula):  *)
(*     i386 psABI fig. 4-4; x86-64 psABI table 4.10; AAELF32 table 4-8      *)
(*     (R_ARM_ABS32 = (S + A) | T); AAELF64 table 4-6; MIPS o32 psABI fig.  *)
(*     4-11 and elf64-2.4 table 32; 64-bit PowerPC ELF ABI 3.5.1 / ELFv2    *)
(*     table 3.1; zSeries ELF ABI supplement "Relocation Types"; LoongArch  *)
(*     ELF psABI (laelf.adoc) "Relocations".  The flavour each supplement   *)
(*     admits is in FlavourRule.                                           *)
(*                                                                         *)
(* (A) abstract relocation table [cls, le, machine, rela, relocs, syms,     *)
(*     data] with Enc = TableBytes / RelocImage (ET_REL: .debug_info,       *)
(*     .rel[a].debug_info, .symtab, .strtab), reader ReadEntry; (A') the    *)
(*     same tables named only by dynamic tags (DynImage: ET_DYN, PT_LOAD,   *)
(*     PT_DYNAMIC, tags DT_REL.., DT_RELA.., DT_JMPREL/DT_PLTREL.., DT_RELR..) *)
(* (B) the RELR machine [i, base, out] with the actions Anchor and Bitmap,  *)
(*     its declarative denotation RelrDenote and the encoder RelrEnc;       *)
(* (C) the recipe table Rows / Recipe / Eval and the apply machine          *)
(*     [buf, k, err] with the action ApplyOne (one step per relocation, as  *)
(*     the loop a consumer runs; it halts at the first refused entry).      *)
(* (D) the load machine (mode "loads"): ONE opened file is asked for its     *)
(*     debug sections several times, each time with its own                 *)
(*     relocate_dwarf_sections flag (action Load(flag), every flag sequence *)
(*     of 2..MaxCalls calls); each call's answer is a function of the flag   *)
(*     alone - the relocated buffer / the refusal of the apply machine for   *)
(*     TRUE, the original bytes for FALSE - whatever was asked before, and   *)
(*     an answer handed out earlier keeps its bytes.                         *)
(* (E) section addresses (mode "secaddr"): ET_REL images whose relocations   *)
(*     go against symbols DEFINED IN SECTIONS (.text, .data) that carry      *)
(*     addresses 0 / small / high bit set.  gABI "Symbol Values": in a       *)
(*     relocatable file st_value is an offset into the section st_shndx      *)
(*     names; S is "the value of the symbol": sh_addr is no part of it.      *)
(*     The apply machine reads no address (SectionAddressesIrrelevant).      *)
(* (E') stacked relocations (mode "stack"): 2-3 records with one r_offset    *)
(*     and one width, of the types that read the field (REL S+A / S+A-P,     *)
(*     LoongArch ADDn / SUBn), in table order: each step reads what the      *)
(*     step before left (gABI: consecutive records on one location are       *)
(*     composed, the addend of the next is the retained result; LoongArch:   *)
(*     "the intN_t at PC += S + A").  StackIsSum: the field ends up as the    *)
(*     in-place value + the sum of the terms; StackOrderIrrelevant.          *)
(* (F) the session machine (mode "sess"): ONE table object (SHT_RELR         *)
(*     section, .rel/.rela section, a table named by the dynamic tags via    *)
(*     the section or the segment) receives every call sequence up to a      *)
(*     small depth over {abandon an iterator after k items, num, get(i),     *)
(*     full iteration, next item of a held iterator} (action ClientCall);    *)
(*     the answer is computed by the reader (a RELR iterator = the RELR      *)
(*     machine stepped only as far as asked) and SessionHistoryFree shows    *)
(*     it to be the declarative answer (a function of the table's            *)
(*     denotation and the call alone), whatever was called before.           *)
(* TLC checks on the specification itself: SectionAddressesIrrelevant,      *)
(* SecAddrWellFormed, StackIsSum, StackOrderIrrelevant, SessionHistoryFree, *)
(* SessWellFormed, LoadsHistoryFree,                                        *)
(* LoadsDiscriminate (the two flags have different answers on every loads   *)
(* object, so a sticky flag is visible), DecodeRoundTrip (reader o writer *)
(* = identity, entry count = size / entsize), RelrMachineIsDenotation,      *)
(* RelrRoundTrip (Dec(Enc(addresses)) = addresses), AddressesStrictly-      *)
(* Increasing, RelrNoWrap, ApplyTouchesOnlyField (action property: one step *)
(* changes only [r_offset, r_offset + width)), ApplyRestUntouched,          *)
(* ApplyIsFold, ApplyIsPointwise (disjoint fields: the result is the        *)
(* formula applied to the original field), OutcomeDefined, FieldsInside,    *)
(* DynWellFormed, and the ASSUMEs: the recipe table is a function of        *)
(* (machine, type, flavour), total, and its literal codes are the           *)
(* registry's (RegistryData; C17 checks the library's against the same).    *)
(*                                                                         *)
(* Judged against the standards (asserted; the unchanged tree deviates):    *)
(*   RELA tables take A from r_addend only - gABI: "entries of type Rela    *)
(*     contain an explicit addend; entries of type Rel store an implicit    *)
(*     addend in the location to be modified"; elf64-2.4 2.9 says the same  *)
(*     for the first relocation of a composed sequence.  So MIPS RELA       *)
(*     R_MIPS_32 / R_MIPS_64 over a non-zero field is S + r_addend (field   *)
(*     class "inplace-nonzero"); GNU as leaves the field zero, which is why *)
(*     the deviation S + r_addend + *P is invisible on compiler output.     *)
(*   The 64-bit PowerPC and zSeries supplements have Elf64_Rela only: a     *)
(*     REL table there is the wrong flavour and must be refused with the    *)
(*     relocation error like x86 RELA / x86-64 REL / LoongArch REL.         *)
(*   R_MIPS_64 is a relocation of the n32 ABI as well (ELF32 container,     *)
(*     RELA, plain r_info): applied like in an ELF64 object.                *)
(*                                                                         *)
(* Not asserted (a supplement does not fix it, or the property's supported  *)
(* set does not name it) - never generated for the apply clauses:           *)
(*   ARM with RELA, AArch64 with REL (AAELF32/64 admit both flavours);      *)
(*   R_ARM_CALL; R_MIPS_64 in a REL table; EM_BPF altogether (the kernel's  *)
(*     llvm_reloc document gives S + A for the data relocations, but which  *)
(*     flavour/addend convention LLVM objects follow is not clear enough);  *)
(*   MIPS64 composed relocations (r_type2 / r_type3 / r_ssym # 0);          *)
(*   symbols of type STT_FUNC on ARM (the T bit): symbols are SHN_ABS       *)
(*     STT_NOTYPE, so S = st_value;                                        *)
(*   R_*_NONE placed so that fewer than 8 bytes follow r_offset (the        *)
(*     supplements give it no field; the library reads one and raises);     *)
(*   RELA records of S+A types stacked on one field (gABI composition and   *)
(*     plain overwriting differ; the supplements are silent); stacked       *)
(*     records of different widths or overlapping at different offsets      *)
(*     (the order of application is then significant and nowhere fixed);    *)
(*   fields that leave the section, RELR streams starting with a bitmap or  *)
(*     denoting addresses beyond the address space, sh_addr # 0 of the      *)
(*     RELOCATED section (P of the PC-relative types), several              *)
(*     sections of one name (which .rel.debug_info belongs to which         *)
(*     .debug_info is then sh_info's business; images have unique names).   *)
(***************************************************************************)
EXTENDS Elf, Json, CSV, IOUtils

CONSTANTS Modes,        \* subset of AllModes
          MaxEntries,   \* decode mode: longest table of the writer
          MaxWords,     \* relr mode: longest stream (incl. the leading anchor)
          BitmapBits,   \* relr mode: most bits set in a generated bitmap (besides the tag bit)
          DeltaPool,    \* relrset mode: address sets are the subsets of this set of word indices
          ErrTypes,     \* errors mode: type codes tried as unsupported (those outside the table)
          Addends,      \* apply mode: indices into ValuePool used as r_addend (RELA tables)
          FirstAnchors  \* relr mode: how many of the anchors may open a stream (every anchor may follow)

VARIABLES Mode, obj, phase, st
vars == <<Mode, obj, phase, st>>
AllModes == {"decode", "apply", "errors", "relr", "relrset", "dyn", "twotabs"}

Wsz(cls) == cls \div 8

(* ------------------------------ numbers -------------------------------- *)
DLess(a, b) == \E i \in 1..Len(a) : a[i] < b[i] /\ \A j \in (i + 1)..Len(a) : a[j] = b[j]
RECURSIVE AscSeq(_)
AscSeq(S) == IF S = {} THEN <<>> ELSE LET m == Min(S) IN <<m>> \o AscSeq(S \ {m})
RECURSIVE SumPow(_)
SumPow(T) == IF T = {} THEN 0 ELSE LET x == CHOOSE y \in T : TRUE IN Pow(2, x) + SumPow(T \ {x})
BitAt(d, k) == (d[(k \div 8) + 1] \div Pow(2, (k % 8))) % 2                  \* bit k of a digit string (0 = least significant)
SetBits(d) == {k \in 0..(8 * Len(d) - 1) : BitAt(d, k) = 1}
WordOfBits(S, w) == [i \in 1..w |-> SumPow({k - 8 * (i - 1) : k \in {x \in S : x \div 8 = i - 1}})]

\* the value alphabet of the apply product (8 digits; truncated to the width of the field that carries it)
ValuePool == << <<0, 0, 0, 0, 0, 0, 0, 0>>,                   \* 0
                <<1, 0, 0, 0, 0, 0, 0, 0>>,                   \* 1
                <<0, 0, 0, 128, 0, 0, 0, 0>>,                 \* 2^31
                <<255, 255, 255, 255, 0, 0, 0, 0>>,           \* 2^32 - 1
                <<0, 0, 0, 0, 0, 0, 0, 128>>,                 \* 2^63
                <<255, 255, 255, 255, 255, 255, 255, 255>>,   \* 2^64 - 1 (-1)
                <<145, 34, 51, 132, 85, 102, 119, 136>> >>    \* 0x8877665584332291: every byte different, negative at 8/32/64 bits
NV == Len(ValuePool)

(* ------------------------- (A) tables: writer -------------------------- *)
EM_386 == 3   EM_MIPS == 8   EM_PPC64 == 21   EM_S390 == 22   EM_ARM == 40   EM_X86_64 == 62
EM_AARCH64 == 183   EM_RISCV == 243   EM_BPF == 247   EM_LOONGARCH == 258          \* gABI e_machine registry

IsMips64(cls, machine) == cls = 64 /\ machine = EM_MIPS

\* elf64-2.4 section 2.9
Mips64RelF == << <<"r_offset", "addr">>, <<"r_sym", "word">>, <<"r_ssym", "byte">>, <<"r_type3", "byte">>,
                 <<"r_type2", "byte">>, <<"r_type", "byte">> >>
Mips64RelaF == Mips64RelF \o << <<"r_addend", "sxword">> >>
RelLayout(cls, machine, rela) ==
  IF IsMips64(cls, machine) THEN (IF rela THEN Mips64RelaF ELSE Mips64RelF) ELSE (IF rela THEN RelaF ELSE RelF)
EntSize(cls, rela) == SizeOf(IF rela THEN RelaF ELSE RelF, cls)               \* 8 / 12 / 16 / 24; the MIPS64 layout has the same size

\* abstract entry: off (wordsize digits), sym (4 digits), type (4 digits), add (wordsize digits, two's complement),
\* ssym / type3 / type2 (bytes; MIPS64 only, 0 elsewhere).  ELF32: sym < 2^24, type < 2^8.
Entry(off, sym, type, add, ssym, type3, type2) ==
  [off |-> off, sym |-> sym, type |-> type, add |-> add, ssym |-> ssym, type3 |-> type3, type2 |-> type2]
\* ELF32_R_INFO(s, t) = (s << 8) + (unsigned char) t ; ELF64_R_INFO(s, t) = (s << 32) + t
Info(cls, sym, type) == IF cls = 32 THEN <<type[1], sym[1], sym[2], sym[3]>> ELSE SubSeq(type, 1, 4) \o SubSeq(sym, 1, 4)
EntryRec(cls, machine, e) ==
  IF IsMips64(cls, machine)
  THEN [r_offset |-> W(e.off), r_sym |-> W(e.sym), r_ssym |-> N(e.ssym), r_type3 |-> N(e.type3), r_type2 |-> N(e.type2),
        r_type |-> N(e.type[1]), r_addend |-> WS(e.add)]
  ELSE [r_offset |-> W(e.off), r_info |-> W(Info(cls, e.sym, e.type)), r_addend |-> WS(e.add)]
TableBytes(o) ==
  LET F == RelLayout(o.cls, o.machine, o.rela) IN
  Flat([j \in 1..Len(o.relocs) |-> Ser(F, EntryRec(o.cls, o.machine, o.relocs[j]), o.cls, o.le)])

\* symbols: index 0 is the null symbol; the others are STT_NOTYPE, STB_LOCAL and absolute (SHN_ABS = 0xfff1) unless the object
\* says in which section each one is defined (o.shndx, mode "secaddr": st_value is then an offset into that section)
SymRec(i, v, shndx) == [st_name |-> Z, st_value |-> W(v), st_size |-> Z, st_info |-> Z, st_other |-> Z, st_shndx |-> N(shndx)]
ShndxOf(o, i) == IF "shndx" \in DOMAIN o THEN o.shndx[i] ELSE IF i = 1 THEN 0 ELSE 65521
SymBytes(o) == Flat([i \in 1..Len(o.syms) |-> Ser(SymF(o.cls), SymRec(i, o.syms[i], ShndxOf(o, i)), o.cls, o.le)])

DotDebugInfo == <<46, 100, 101, 98, 117, 103, 95, 105, 110, 102, 111>>
DotRel == <<46, 114, 101, 108>>
DotRela == <<46, 114, 101, 108, 97>>
DotSymtab == <<46, 115, 121, 109, 116, 97, 98>>
DotStrtab == <<46, 115, 116, 114, 116, 97, 98>>
DotRelrDyn == <<46, 114, 101, 108, 114, 46, 100, 121, 110>>

\* ET_REL image: 1 .debug_info, 2 .rel[a].debug_info (sh_link 3, sh_info 1, SHF_INFO_LINK), 3 .symtab (sh_link 4), 4 .strtab
RelocImage(o) ==
  LET tb == TableBytes(o)
      sy == SymBytes(o)
      ws == Wsz(o.cls)
  IN [Im0 EXCEPT !.cls = o.cls, !.le = o.le, !.machine = o.machine, !.etype = N(1),
        !.secs = << Sec(DotDebugInfo, N(1), Z, Z, o.data, N(Len(o.data)), Z, Z, N(1), Z),
                    Sec((IF o.rela THEN DotRela ELSE DotRel) \o DotDebugInfo, N(IF o.rela THEN 4 ELSE 9), N(64), Z, tb, N(Len(tb)),
                        N(3), N(1), N(ws), N(EntSize(o.cls, o.rela))),
                    Sec(DotSymtab, N(2), Z, Z, sy, N(Len(sy)), N(4), N(Len(o.syms)), N(ws), N(SizeOf(SymF(o.cls), o.cls))),
                    Sec(DotStrtab, N(3), Z, Z, <<0>>, N(1), Z, Z, N(1), Z) >>]

\* ET_REL image with two relocated sections whose relocation tables designate DIFFERENT symbol tables (sh_link):
\* 1 .debug_info, 2 .rel[a].debug_info (link 5), 3 .debug_line, 4 .rel[a].debug_line (link 6), 5 .symtab, 6 .symtab (second), 7 .strtab
DotDebugLine == <<46, 100, 101, 98, 117, 103, 95, 108, 105, 110, 101>>
TwoImage(a, b) ==
  LET ws == Wsz(a.cls)
      rsec(o, nm, link, info) == Sec((IF o.rela THEN DotRela ELSE DotRel) \o nm, N(IF o.rela THEN 4 ELSE 9), N(64), Z, TableBytes(o),
                                     N(Len(TableBytes(o))), N(link), N(info), N(ws), N(EntSize(o.cls, o.rela)))
      ssec(o) == Sec(DotSymtab, N(2), Z, Z, SymBytes(o), N(Len(SymBytes(o))), N(7), N(Len(o.syms)), N(ws), N(SizeOf(SymF(o.cls), o.cls)))
  IN [Im0 EXCEPT !.cls = a.cls, !.le = a.le, !.machine = a.machine, !.etype = N(1),
        !.secs = << Sec(DotDebugInfo, N(1), Z, Z, a.data, N(Len(a.data)), Z, Z, N(1), Z), rsec(a, DotDebugInfo, 5, 1),
                    Sec(DotDebugLine, N(1), Z, Z, b.data, N(Len(b.data)), Z, Z, N(1), Z), rsec(b, DotDebugLine, 6, 3),
                    ssec(a), ssec(b), Sec(DotStrtab, N(3), Z, Z, <<0>>, N(1), Z, Z, N(1), Z) >>]

\* (E) ET_REL image whose symbols are defined in sections that carry addresses: RelocImage + 5 .text (sh_addr o.addrs[1]) + 6 .data
\* (sh_addr o.addrs[2]).  gABI ch.4 "Symbol Values": "In relocatable files, st_value holds a section offset for a defined symbol.
\* st_value is an offset from the beginning of the section that st_shndx identifies"; "Relocation": S "means the value of the symbol
\* whose index resides in the relocation entry".  sh_addr ("the address at which the section's first byte should reside" in a memory
\* image) is not part of the value of a symbol of a relocatable file: nothing in Apply reads o.addrs (SectionAddressesIrrelevant).
DotText == <<46, 116, 101, 120, 116>>
DotData == <<46, 100, 97, 116, 97>>
SaImage(o) ==
  [RelocImage(o) EXCEPT !.secs = @ \o << Sec(DotText, N(1), N(6), W(o.addrs[1]), Rep(144, 16), N(16), Z, Z, N(16), Z),
                                         Sec(DotData, N(1), N(3), W(o.addrs[2]), Rep(144, 16), N(16), Z, Z, N(16), Z) >>]

(* ------------------------- (A) tables: reader -------------------------- *)
RECURSIVE FieldOff(_, _, _)
FieldOff(F, i, cls) == IF i = 1 THEN 0 ELSE FieldOff(F, i - 1, cls) + Width(F[i - 1][2], cls)
\* field name -> LE digit string of the field read at byte offset `at` (0-based) of bs
Parse(F, bs, at, cls, le) ==
  [nm \in FieldNames(F) |->
     LET i == CHOOSE j \in 1..Len(F) : F[j][1] = nm
         raw == Slice(bs, at + FieldOff(F, i, cls) + 1, Width(F[i][2], cls))
     IN IF le THEN raw ELSE Rev(raw)]
InfoSym(cls, d) == IF cls = 32 THEN <<d[2], d[3], d[4], 0>> ELSE SubSeq(d, 5, 8)
InfoType(cls, d) == IF cls = 32 THEN <<d[1], 0, 0, 0>> ELSE SubSeq(d, 1, 4)
NumEntries(bs, cls, rela) == Len(bs) \div EntSize(cls, rela)
\* entry n (0-based) of a table, as an abstract entry
ReadEntry(bs, n, cls, le, machine, rela) ==
  LET p == Parse(RelLayout(cls, machine, rela), bs, n * EntSize(cls, rela), cls, le)
      add == IF rela THEN p.r_addend ELSE DZero(Wsz(cls))
  IN IF IsMips64(cls, machine)
     THEN Entry(p.r_offset, p.r_sym, <<p.r_type[1], 0, 0, 0>>, add, p.r_ssym[1], p.r_type3[1], p.r_type2[1])
     ELSE Entry(p.r_offset, InfoSym(cls, p.r_info), InfoType(cls, p.r_info), add, 0, 0, 0)
\* what a reader reports for entry e: <<r_offset, r_info, r_info_sym, r_info_type, r_addend, r_ssym, r_type3, r_type2>>
\* (digit strings, r_addend two's complement at the word size; for MIPS64, where elf64-2.4 replaces r_info by the sub-fields, r_info is the
\* number the eight bytes sym, ssym, type3, type2, type denote in that - big-endian - order: what r_info holds in a big-endian object)
EntryView(cls, machine, e) ==
  <<e.off, IF IsMips64(cls, machine) THEN <<e.type[1], e.type2, e.type3, e.ssym>> \o e.sym ELSE Info(cls, e.sym, e.type),
    e.sym, e.type, e.add, e.ssym, e.type3, e.type2>>
TableView(o) ==
  LET bs == TableBytes(o) IN
  [j \in 1..NumEntries(bs, o.cls, o.rela) |-> EntryView(o.cls, o.machine, ReadEntry(bs, j - 1, o.cls, o.le, o.machine, o.rela))]

(* ------------------------------ (B) RELR ------------------------------- *)
Even(w) == (w[1] % 2) = 0
RelrInit == [i |-> 1, base |-> <<>>, out |-> <<>>, wrapped |-> FALSE, buf |-> <<>>, k |-> 0, err |-> ""]
\* even word: a relocation at w; the next bitmap describes the words from w + wordsize
AnchorStep(s, w, ws) ==
  LET nb == TLCEval(DAdd(w, LEn(ws, ws))) IN
  [s EXCEPT !.i = @ + 1, !.base = nb, !.out = Append(@, w), !.wrapped = @ \/ DLess(nb, w)]
\* odd word: bit k (k >= 1) stands for base + (k-1)*wordsize; then base advances by 8*wordsize-1 words
BitmapStep(s, w, ws) ==
  LET ks == AscSeq(SetBits(w) \ {0})
      nb == TLCEval(DAdd(s.base, LEn((8 * ws - 1) * ws, ws)))
  IN [s EXCEPT !.i = @ + 1, !.base = nb, !.wrapped = @ \/ DLess(nb, s.base),
               !.out = TLCEval(@ \o [x \in 1..Len(ks) |-> DAdd(s.base, LEn((ks[x] - 1) * ws, ws))])]

\* the machine run to the end of a stream (used by the trace specification)
RECURSIVE RelrRun(_, _, _)
RelrRun(s, words, ws) ==
  IF s.i > Len(words) THEN s
  ELSE RelrRun(IF Even(words[s.i]) THEN AnchorStep(s, words[s.i], ws) ELSE BitmapStep(s, words[s.i], ws), words, ws)

\* declarative: the anchor of a bitmap is the nearest even word before it; all words between are bitmaps
RelrDenote(words, ws) ==
  LET AnchorOf(j) == Max({a \in 1..(j - 1) : Even(words[a])})
      At(j) == IF Even(words[j]) THEN <<words[j]>>
               ELSE LET a == AnchorOf(j)
                        ks == AscSeq(SetBits(words[j]) \ {0})
                    IN [x \in 1..Len(ks) |-> DAdd(words[a], LEn(ws + ((j - a - 1) * (8 * ws - 1) + ks[x] - 1) * ws, ws))]
  IN Flat([j \in 1..Len(words) |-> At(j)])

\* the encoder of the proposal, over offsets relative to an origin (ascending Small byte offsets):
\* abstract words [a |-> TRUE, d |-> offset] (anchor) or [a |-> FALSE, bits |-> bit numbers] (bitmap)
RECURSIVE RelrEnc(_, _), RelrEncBitmaps(_, _, _)
RelrEnc(ds, ws) ==
  IF ds = <<>> THEN <<>>
  ELSE <<[a |-> TRUE, d |-> Head(ds), bits |-> {}]>> \o RelrEncBitmaps(Tail(ds), Head(ds) + ws, ws)
RelrEncBitmaps(ds, base, ws) ==
  LET nb == 8 * ws - 1
      stop == {i \in 1..Len(ds) : ~(ds[i] - base < nb * ws /\ ((ds[i] - base) % ws) = 0)}
      m == IF stop = {} THEN Len(ds) ELSE Min(stop) - 1
  IN IF m = 0 THEN RelrEnc(ds, ws)
     ELSE <<[a |-> FALSE, d |-> 0, bits |-> {((ds[i] - base) \div ws) + 1 : i \in 1..m}]>>
          \o RelrEncBitmaps(SubSeq(ds, m + 1, Len(ds)), base + nb * ws, ws)
ConcreteWord(origin, aw, ws) == IF aw.a THEN DAdd(origin, LEn(aw.d, ws)) ELSE WordOfBits(aw.bits \cup {0}, ws)

RelrImage(o) ==
  LET ws == Wsz(o.cls)
      bs == Flat([j \in 1..Len(o.words) |-> Fix(W(o.words[j]), ws, o.le)])
  IN [Im0 EXCEPT !.cls = o.cls, !.le = o.le, !.machine = o.machine,
        !.secs = << Sec(DotRelrDyn, N(19), N(2), N(4096), bs, N(Len(bs)), Z, Z, N(ws), N(ws)) >>]

(* ------------------- (A') tables named by the dynamic section ---------- *)
\* gABI ch.5 "Dynamic Section": DT_REL 17 / DT_RELSZ 18 / DT_RELENT 19, DT_RELA 7 / DT_RELASZ 8 / DT_RELAENT 9,
\* DT_JMPREL 23 / DT_PLTRELSZ 2 / DT_PLTREL 20 (= DT_REL or DT_RELA: the flavour of the PLT table),
\* DT_RELR 36 / DT_RELRSZ 35 / DT_RELRENT 37; the d_ptr values are virtual addresses (here: inside one PT_LOAD
\* segment that maps the whole file at LoadBase).
\* o = [cls, le, machine, present, rel, rela, jmprel, pltrela, words]; sections: 1 .dynamic (sh_link 2), 2 .dynstr,
\* 3 .rel.dyn, 4 .rela.dyn, 5 .rel[a].plt, 6 .relr.dyn; segments: PT_LOAD, PT_DYNAMIC.
LoadBase == 4194304
DotDynamic == <<46, 100, 121, 110, 97, 109, 105, 99>>
DotDynstr == <<46, 100, 121, 110, 115, 116, 114>>
DotDyn == <<46, 100, 121, 110>>
DotPlt == <<46, 112, 108, 116>>
DynTable(o, es, rela) == TableBytes([cls |-> o.cls, le |-> o.le, machine |-> o.machine, rela |-> rela, relocs |-> es])
DynTagCount(o) == 3 * Cardinality(o.present) + 1
DynImage(o) ==
  LET ws == Wsz(o.cls)
      relb == DynTable(o, o.rel, FALSE)
      relab == DynTable(o, o.rela, TRUE)
      jmpb == DynTable(o, o.jmprel, o.pltrela)
      relrb == Flat([j \in 1..Len(o.words) |-> Fix(W(o.words[j]), ws, o.le)])
      dynlen == DynTagCount(o) * 2 * ws
      RelSec(name, rela, bs) == Sec(name, N(IF rela THEN 4 ELSE 9), N(2), Z, bs, N(Len(bs)), Z, Z, N(ws), N(EntSize(o.cls, rela)))
      secs(dyn) == << Sec(DotDynamic, N(6), N(3), Z, dyn, N(dynlen), N(2), Z, N(ws), N(2 * ws)),
                      Sec(DotDynstr, N(3), N(2), Z, <<0>>, N(1), Z, Z, N(1), Z),
                      RelSec(DotRel \o DotDyn, FALSE, relb), RelSec(DotRela \o DotDyn, TRUE, relab),
                      RelSec((IF o.pltrela THEN DotRela ELSE DotRel) \o DotPlt, o.pltrela, jmpb),
                      Sec(DotRelrDyn, N(19), N(2), Z, relrb, N(Len(relrb)), Z, Z, N(ws), N(ws)) >>
      im0 == [Im0 EXCEPT !.cls = o.cls, !.le = o.le, !.machine = o.machine, !.etype = N(3), !.secs = secs(Rep(0, dynlen)),
                         !.segs = <<Seg(N(1), Z, Z, Z, Z, Z, Z, Z), Seg(N(2), Z, Z, Z, Z, Z, Z, Z)>>]
      fs == FileSize(im0)
      va(k) == LoadBase + SecOff(im0, k)
      tags == (IF "REL" \in o.present THEN << <<17, va(3)>>, <<18, Len(relb)>>, <<19, EntSize(o.cls, FALSE)>> >> ELSE <<>>)
              \o (IF "JMPREL" \in o.present THEN << <<2, Len(jmpb)>>, <<20, IF o.pltrela THEN 7 ELSE 17>>, <<23, va(5)>> >> ELSE <<>>)
              \o (IF "RELR" \in o.present THEN << <<36, va(6)>>, <<35, Len(relrb)>>, <<37, ws>> >> ELSE <<>>)
              \o (IF "RELA" \in o.present THEN << <<9, EntSize(o.cls, TRUE)>>, <<8, Len(relab)>>, <<7, va(4)>> >> ELSE <<>>)
              \o << <<0, 0>> >>
      dyn == Flat([t \in 1..Len(tags) |-> Ser(DynF, [d_tag |-> N(tags[t][1]), d_val |-> N(tags[t][2])], o.cls, o.le)])
  IN [im0 EXCEPT !.secs = secs(dyn),
                 !.segs = <<Seg(N(1), N(5), Z, N(LoadBase), N(LoadBase), N(fs), N(fs), N(4096)),
                            Seg(N(2), N(6), N(SecOff(im0, 1)), N(va(1)), N(va(1)), N(dynlen), N(dynlen), N(ws))>>]
\* what a reader reports: the tables that are present, each with its flavour and entries (RELR: the addresses)
DynTableView(o, es, rela) ==
  LET bs == DynTable(o, es, rela) IN
  [j \in 1..NumEntries(bs, o.cls, rela) |-> EntryView(o.cls, o.machine, ReadEntry(bs, j - 1, o.cls, o.le, o.machine, rela))]
DynView(o) ==
  [present |-> o.present, pltrela |-> o.pltrela,
   REL |-> DynTableView(o, o.rel, FALSE), RELA |-> DynTableView(o, o.rela, TRUE), JMPREL |-> DynTableView(o, o.jmprel, o.pltrela),
   RELR |-> IF o.words = <<>> THEN <<>> ELSE RelrRun(RelrInit, o.words, Wsz(o.cls)).out]

(* ----------------------------- (C) recipes ----------------------------- *)
Row(m, t, name, fl, w, f) == [m |-> m, t |-> t, name |-> name, fl |-> fl, w |-> w, f |-> f]
REL == {"REL"}   RELA == {"RELA"}   BOTH == {"REL", "RELA"}
\* w: width of the relocated field in bytes (0: no field); f: the calculation.  S = symbol value, A = addend (r_addend in a
\* RELA table, the field's content in a REL table), P = place (section offset: sections of a relocatable file sit at 0),
\* V = the field's content before the relocation.
Rows == {
  \* i386 psABI figure 4-4 (word32; "uses only Elf32_Rel relocation entries")
  Row(EM_386, 0, "R_386_NONE", REL, 0, "none"), Row(EM_386, 1, "R_386_32", REL, 4, "S+A"), Row(EM_386, 2, "R_386_PC32", REL, 4, "S+A-P"),
  \* x86-64 psABI table 4.10 (word64 / word32; "only Elf64_Rela")
  Row(EM_X86_64, 0, "R_X86_64_NONE", RELA, 0, "none"), Row(EM_X86_64, 1, "R_X86_64_64", RELA, 8, "S+A"),
  Row(EM_X86_64, 2, "R_X86_64_PC32", RELA, 4, "S+A-P"), Row(EM_X86_64, 10, "R_X86_64_32", RELA, 4, "S+A"),
  Row(EM_X86_64, 11, "R_X86_64_32S", RELA, 4, "S+A"),
  \* AAELF32 table 4-8: (S + A) | T, T = 0 for non-function symbols
  Row(EM_ARM, 2, "R_ARM_ABS32", REL, 4, "S+A"),
  \* AAELF64 table 4-6 (data relocations)
  Row(EM_AARCH64, 257, "R_AARCH64_ABS64", RELA, 8, "S+A"), Row(EM_AARCH64, 258, "R_AARCH64_ABS32", RELA, 4, "S+A"),
  Row(EM_AARCH64, 261, "R_AARCH64_PREL32", RELA, 4, "S+A-P"),
  \* MIPS psABI figure 4-11 (o32: REL) and elf64-2.4 table 32 (n64: REL and RELA)
  Row(EM_MIPS, 0, "R_MIPS_NONE", BOTH, 0, "none"), Row(EM_MIPS, 2, "R_MIPS_32", BOTH, 4, "S+A"), Row(EM_MIPS, 18, "R_MIPS_64", RELA, 8, "S+A"),
  \* 64-bit PowerPC ELF ABI (only Elf64_Rela)
  Row(EM_PPC64, 1, "R_PPC64_ADDR32", RELA, 4, "S+A"), Row(EM_PPC64, 38, "R_PPC64_ADDR64", RELA, 8, "S+A"),
  Row(EM_PPC64, 26, "R_PPC64_REL32", RELA, 4, "S+A-P"),
  \* zSeries ELF ABI supplement (only Elf64_Rela)
  Row(EM_S390, 4, "R_390_32", RELA, 4, "S+A"), Row(EM_S390, 22, "R_390_64", RELA, 8, "S+A"), Row(EM_S390, 5, "R_390_PC32", RELA, 4, "S+A-P"),
  \* LoongArch ELF psABI "Relocations" (RELA only): ADDn: *(intn_t *) PC += S + A, SUBn: -= S + A
  Row(EM_LOONGARCH, 0, "R_LARCH_NONE", RELA, 0, "none"), Row(EM_LOONGARCH, 1, "R_LARCH_32", RELA, 4, "S+A"),
  Row(EM_LOONGARCH, 2, "R_LARCH_64", RELA, 8, "S+A"),
  Row(EM_LOONGARCH, 47, "R_LARCH_ADD8", RELA, 1, "V+S+A"), Row(EM_LOONGARCH, 48, "R_LARCH_ADD16", RELA, 2, "V+S+A"),
  Row(EM_LOONGARCH, 50, "R_LARCH_ADD32", RELA, 4, "V+S+A"), Row(EM_LOONGARCH, 51, "R_LARCH_ADD64", RELA, 8, "V+S+A"),
  Row(EM_LOONGARCH, 52, "R_LARCH_SUB8", RELA, 1, "V-S-A"), Row(EM_LOONGARCH, 53, "R_LARCH_SUB16", RELA, 2, "V-S-A"),
  Row(EM_LOONGARCH, 55, "R_LARCH_SUB32", RELA, 4, "V-S-A"), Row(EM_LOONGARCH, 56, "R_LARCH_SUB64", RELA, 8, "V-S-A"),
  Row(EM_LOONGARCH, 99, "R_LARCH_32_PCREL", RELA, 4, "S+A-P"), Row(EM_LOONGARCH, 109, "R_LARCH_64_PCREL", RELA, 8, "S+A-P") }

Machines == {r.m : r \in Rows}
\* which flavour a supplement admits: "ok", "error" (the other flavour does not exist on that processor), "unspecified"
FlavourRule(m, fl) ==
  CASE m \in {EM_386} -> IF fl = "REL" THEN "ok" ELSE "error"
    [] m \in {EM_X86_64, EM_PPC64, EM_S390, EM_LOONGARCH} -> IF fl = "RELA" THEN "ok" ELSE "error"
    [] m = EM_ARM -> IF fl = "REL" THEN "ok" ELSE "unspecified"
    [] m = EM_AARCH64 -> IF fl = "RELA" THEN "ok" ELSE "unspecified"
    [] m = EM_BPF -> "unspecified"
    [] OTHER -> "ok"
Unasserted == {<<EM_ARM, 28, "REL">>,          \* R_ARM_CALL (an instruction relocation the library also handles)
               <<EM_MIPS, 18, "REL">>}         \* R_MIPS_64 in a REL table
Recipe(m, t, fl) ==
  LET hits == {r \in Rows : r.m = m /\ r.t = t /\ fl \in r.fl}
      fr == FlavourRule(m, fl)
  IN IF fr = "error" THEN [kind |-> "flavour", w |-> 0, f |-> "none"]
     ELSE IF fr = "unspecified" \/ <<m, t, fl>> \in Unasserted THEN [kind |-> "unspecified", w |-> 0, f |-> "none"]
     ELSE IF hits # {} THEN LET r == CHOOSE x \in hits : TRUE IN [kind |-> "ok", w |-> r.w, f |-> r.f]
     ELSE [kind |-> "unsupported", w |-> 0, f |-> "none"]

\* the calculation, on 8-digit strings, modulo 2^(8w)
Eval(f, w, S, A, P, V) ==
  DTrunc(CASE f = "S+A" -> DAdd(S, A)
           [] f = "S+A-P" -> DSub(DAdd(S, A), P)
           [] f = "V+S+A" -> DAdd(V, DAdd(S, A))
           [] f = "V-S-A" -> DSub(V, DAdd(S, A))
           [] OTHER -> V, w)

Patch(buf, off, bs) == [i \in 1..Len(buf) |-> IF i > off /\ i <= off + Len(bs) THEN bs[i - off] ELSE buf[i]]
FlavourOf(o) == IF o.rela THEN "RELA" ELSE "REL"
Composed(o, e) == IsMips64(o.cls, o.machine) /\ (e.ssym # 0 \/ e.type3 # 0 \/ e.type2 # 0)
\* the field relocation j of o addresses: <<offset, width>> (width 0: none / erroneous)
FieldOf(o, j) ==
  LET e == o.relocs[j]
      rc == Recipe(o.machine, NatOf(e.type), FlavourOf(o))
  IN <<NatOf(e.off), IF NatOf(e.sym) < Len(o.syms) /\ rc.kind = "ok" THEN rc.w ELSE 0>>
\* one relocation applied to buf (whose first byte is at section offset `org`): [buf, err]
ApplyStep(o, buf, org, e) ==
  LET symi == NatOf(e.sym)
      rc == Recipe(o.machine, NatOf(e.type), FlavourOf(o))
      off == NatOf(e.off)
  IN IF symi >= Len(o.syms) THEN [buf |-> buf, err |-> "symbol"]
     ELSE IF Composed(o, e) THEN [buf |-> buf, err |-> "unspecified"]
     ELSE IF rc.kind # "ok" THEN [buf |-> buf, err |-> rc.kind]
     ELSE IF rc.w = 0 THEN [buf |-> buf, err |-> ""]
     ELSE LET raw == TLCEval(Slice(buf, off - org + 1, rc.w))            \* (TLCEval: function constructors are lazy in TLC)
              V == TLCEval(DTrunc(IF o.le THEN raw ELSE Rev(raw), 8))
              S == DTrunc(o.syms[symi + 1], 8)
              A == IF o.rela THEN DSext(e.add, 8) ELSE V
              res == TLCEval(Eval(rc.f, rc.w, S, A, LEn(off, 8), V))
          IN [buf |-> TLCEval(Patch(buf, off - org, Fix(W(res), rc.w, o.le))), err |-> ""]
\* the whole table folded over the section
RECURSIVE ApplyFrom(_, _, _)
ApplyFrom(o, buf, j) ==
  IF j > Len(o.relocs) THEN [buf |-> buf, err |-> ""]
  ELSE LET r == ApplyStep(o, buf, 0, o.relocs[j]) IN IF r.err # "" THEN r ELSE ApplyFrom(o, r.buf, j + 1)
Apply(o) == ApplyFrom(o, o.data, 1)

(* -------------------------- case construction -------------------------- *)
Filler(n) == [i \in 1..n |-> ((i * 37) + 11) % 256]
NullSym(cls) == DZero(Wsz(cls))
Syms(cls) == <<NullSym(cls)>> \o [i \in 1..(NV - 1) |-> DTrunc(ValuePool[i + 1], Wsz(cls))]    \* index i has value ValuePool[i+1]; index 0: 0 = ValuePool[1]
Type4(t) == LEn(t, 4)

\* apply product for one table row: NV x NV relocations (in-place value x symbol), one r_addend; slots of 11 bytes, the field
\* at slot + 0 (odd j) or slot + 3 (even j: it ends where the next field starts); the last field ends the section
Slot == 11
ApplyOff(j) == (j - 1) * Slot + (IF (j % 2) = 0 THEN 3 ELSE 0)
ApplyObj(row, fl, cls, le, ai) ==
  LET n == NV * NV
      w == row.w
      len == IF w = 0 THEN n * Slot ELSE (n - 1) * Slot + w
      vi(j) == ((j - 1) \div NV) + 1
      si(j) == ((j - 1) % NV) + 1
      ws == Wsz(cls)
      inplace == [i \in 1..len |->
                    LET j == ((i - 1) \div Slot) + 1
                        p == i - ApplyOff(j)                       \* 1-based position inside field j
                    IN IF p >= 1 /\ p <= w THEN Fix(W(ValuePool[vi(j)]), w, le)[p] ELSE Filler(len)[i]]
  IN [cls |-> cls, le |-> le, machine |-> row.m, rela |-> fl = "RELA", data |-> inplace, syms |-> Syms(cls),
      relocs |-> [j \in 1..n |-> Entry(LEn(ApplyOff(j), ws), LEn(si(j) - 1, 4), Type4(row.t),
                                       IF fl = "RELA" THEN DTrunc(ValuePool[ai], ws) ELSE DZero(ws), 0, 0, 0)],
      sub |-> row.name]
ClassesOf(m) == CASE m \in {EM_386, EM_ARM} -> {32} [] m = EM_MIPS -> {32, 64} [] OTHER -> {64}
ApplyPlans ==
  UNION {{<<r, fl, cls, le, ai>> : cls \in ClassesOf(r.m), le \in BOOLEAN, ai \in (IF fl = "RELA" THEN Addends ELSE {1})} :
           r \in Rows, fl \in {"REL", "RELA"}}
ApplyPlansOk == {p \in ApplyPlans : p[2] \in p[1].fl}

\* error cases: a short table in which one entry must be refused, alone / after / before a good entry
GoodRow(m, fl) == CHOOSE r \in Rows : r.m = m /\ fl \in r.fl /\ r.w = 4
AdmittedFl(m) == {fl \in {"REL", "RELA"} : FlavourRule(m, fl) = "ok" /\ \E r \in Rows : r.m = m /\ fl \in r.fl /\ r.w = 4}
ErrObj(m, fl, cls, le, badtype, badsym, place, sub) ==
  LET ws == Wsz(cls)
      goodt == IF \E r \in Rows : r.m = m /\ r.w = 4 THEN (CHOOSE r \in Rows : r.m = m /\ r.w = 4).t ELSE 1
      good == Entry(LEn(4, ws), LEn(2, 4), Type4(goodt), LEn(5, ws), 0, 0, 0)
      bad == Entry(LEn(12, ws), LEn(badsym, 4), Type4(badtype), LEn(7, ws), 0, 0, 0)
  IN [cls |-> cls, le |-> le, machine |-> m, rela |-> fl = "RELA", data |-> Filler(24), syms |-> Syms(cls),
      relocs |-> CASE place = "alone" -> <<bad>> [] place = "after" -> <<good, bad>> [] place = "before" -> <<bad, good>>,
      sub |-> sub]
Places == {"alone", "after", "before"}
PlaceOf(t) == CASE (t % 3) = 0 -> "alone" [] (t % 3) = 1 -> "after" [] OTHER -> "before"
OneClass(m) == Max(ClassesOf(m))
ErrPlans ==
  \* unsupported type on a supported machine, admitted flavour
  \* (byte order and position vary with the type code instead of multiplying the cases)
  UNION {UNION {{ErrObj(m, fl, cls, ((t \div 3) % 2) = 0, t, 1, PlaceOf(t), "unsupported") :
                   t \in {x \in ErrTypes : Recipe(m, x, fl).kind = "unsupported" /\ (x < 256 \/ (cls = 64 /\ m # EM_MIPS))}} :
                  cls \in ClassesOf(m), fl \in AdmittedFl(m)} : m \in Machines}
  \* a machine without any recipe
  \cup {ErrObj(EM_RISCV, "RELA", 64, le, t, 1, pl, "unsupported") : le \in BOOLEAN, pl \in Places, t \in {1, 2}}
  \* the flavour the processor supplement does not have
  \cup UNION {{ErrObj(m, fl, OneClass(m), le, (CHOOSE r \in Rows : r.m = m /\ r.w = 4).t, 1, pl, "flavour") :
                  le \in BOOLEAN, pl \in Places, fl \in {x \in {"REL", "RELA"} : FlavourRule(m, x) = "error"}} : m \in Machines}
  \* symbol index = number of symbols (and the largest index the class can express)
  \cup UNION {UNION {{ErrObj(m, fl, OneClass(m), le, GoodRow(m, fl).t, s, pl, "symbol") :
                        le \in BOOLEAN, pl \in Places, s \in {NV, NV + 1, 16777215}} : fl \in AdmittedFl(m)} : m \in Machines}

\* two tables, two symbol tables: the same two relocations (symbols 2 and 3) against a table with other values / a table too short
TwoObj(m, fl, cls, le, syms, syms2) ==
  LET ws == Wsz(cls)
      t == GoodRow(m, fl).t
  IN [cls |-> cls, le |-> le, machine |-> m, rela |-> fl = "RELA", data |-> Filler(24), syms |-> syms, syms2 |-> syms2, sub |-> "twotabs",
      relocs |-> <<Entry(LEn(4, ws), LEn(2, 4), Type4(t), LEn(5, ws), 0, 0, 0), Entry(LEn(12, ws), LEn(3, 4), Type4(t), LEn(7, ws), 0, 0, 0)>>]
OtherSyms(cls, k) == IF k = "short" THEN SubSeq(Syms(cls), 1, 3)
                     ELSE <<NullSym(cls)>> \o [i \in 1..(NV - 1) |-> DTrunc(ValuePool[NV + 1 - i], Wsz(cls))]      \* the values in reverse order
TwoPlans == UNION {{TwoObj(m, fl, OneClass(m), le, Syms(OneClass(m)), OtherSyms(OneClass(m), k)) :
                      le \in BOOLEAN, k \in {"short", "other"}, fl \in AdmittedFl(m)} : m \in Machines}

\* loads: a small relocated section per (table row with a field, admitted flavour, class, byte order): three relocations
\* (symbols 2, 3, 6; r_addend 5, 7, -1 in RELA tables, the filler in REL tables) at an aligned, an odd and the last offset
LoadLen == 32
LoadObj(row, fl, cls, le) ==
  LET ws == Wsz(cls)
      add(k) == IF fl = "RELA" THEN DTrunc(ValuePool[k], ws) ELSE DZero(ws)
  IN [cls |-> cls, le |-> le, machine |-> row.m, rela |-> fl = "RELA", data |-> Filler(LoadLen), syms |-> Syms(cls), sub |-> row.name,
      relocs |-> <<Entry(LEn(4, ws), LEn(2, 4), Type4(row.t), add(2), 0, 0, 0),
                   Entry(LEn(13, ws), LEn(3, 4), Type4(row.t), add(7), 0, 0, 0),
                   Entry(LEn(LoadLen - row.w, ws), LEn(6, 4), Type4(row.t), add(6), 0, 0, 0)>>]
LoadPlans ==
  UNION {{LoadObj(r, fl, cls, le) : cls \in ClassesOf(r.m), le \in BOOLEAN, fl \in {x \in r.fl : Recipe(r.m, r.t, x).kind = "ok"}} :
           r \in {x \in Rows : x.w > 0}}
  \* ... and objects a relocating load must refuse (good entry first, refused entry second), every time it is asked
  \cup {o \in ErrPlans : o.sub \in {"flavour", "symbol"} /\ o.le /\ Len(o.relocs) = 2 /\ NatOf(o.relocs[1].off) = 4}
MaxCalls == 3
\* the answer to get_dwarf_info(relocate_dwarf_sections = flag): a function of the object and the flag
LoadAnswer(o, flag) == IF flag THEN Apply(o) ELSE [buf |-> o.data, err |-> ""]

\* secaddr: the small relocated section of the loads mode with four relocations (aligned, odd, middle and last offset) whose symbols
\* 2, 3, 4, 6 are defined in .text (section 5), .data (6), nowhere (SHN_ABS) and .data; the two defining sections get the address pairs
\* SecAddrPairs over SecAddrs (0, a small one, one with the high bit of the class set; both with a non-zero low byte: visible in 1-byte fields)
SaLen == 40
SaShndx == <<0, 65521, 5, 6, 65521, 5, 6>>
SecAddrs(cls) == IF cls = 32 THEN <<<<0, 0, 0, 0>>, <<16, 16, 0, 0>>, <<16, 0, 16, 128>>>>
                 ELSE <<DZero(8), <<16, 16, 0, 0, 0, 0, 0, 0>>, <<16, 0, 16, 0, 0, 0, 0, 128>>>>
\* <<address of .text, address of .data>>: both 0 (what assemblers write), one of them not 0, both not 0 and different
SecAddrPairs(cls) == LET a == SecAddrs(cls) IN {<<a[1], a[1]>>, <<a[2], a[1]>>, <<a[1], a[3]>>, <<a[2], a[3]>>, <<a[3], a[2]>>}
SaObj(row, fl, cls, le, a5, a6) ==
  LET ws == Wsz(cls)
      add(k) == IF fl = "RELA" THEN DTrunc(ValuePool[k], ws) ELSE DZero(ws)
  IN [cls |-> cls, le |-> le, machine |-> row.m, rela |-> fl = "RELA", data |-> Filler(SaLen), syms |-> Syms(cls), sub |-> row.name,
      shndx |-> SaShndx, addrs |-> <<a5, a6>>,
      relocs |-> <<Entry(LEn(4, ws), LEn(2, 4), Type4(row.t), add(2), 0, 0, 0),
                   Entry(LEn(13, ws), LEn(3, 4), Type4(row.t), add(7), 0, 0, 0),
                   Entry(LEn(22, ws), LEn(4, 4), Type4(row.t), add(6), 0, 0, 0),
                   Entry(LEn(SaLen - row.w, ws), LEn(6, 4), Type4(row.t), add(3), 0, 0, 0)>>]
SaPlans ==
  UNION {UNION {{SaObj(r, fl, cls, le, a[1], a[2]) : le \in BOOLEAN, fl \in {x \in r.fl : Recipe(r.m, r.t, x).kind = "ok"},
                                                     a \in SecAddrPairs(cls)} : cls \in ClassesOf(r.m)} :
           r \in {x \in Rows : x.w > 0}}
\* the class of an address (for tags)
AddrClass(a) == IF a = DZero(Len(a)) THEN "0" ELSE IF a[Len(a)] >= 128 THEN "high" ELSE "small"

\* stack: two or three relocations on ONE field (identical r_offset, identical width), applied in table order, then one ordinary
\* relocation elsewhere.  Only types whose calculation reads the field: the REL flavour of S+A / S+A-P (gABI: "entries of type Rel store
\* an implicit addend in the location to be modified"; consecutive records with one r_offset are composed - "the addend used is the
\* retained result of the previous relocation operation" - which for REL records of one width is what the second reads from the field)
\* and the LoongArch ADDn / SUBn ("*(intN_t *) PC += S + A" / "-= S + A": a read-modify-write of the place).  Every such step adds a
\* constant to the field modulo 2^(8w), so the result is the in-place value plus the sum of the terms (StackIsSum) in whatever order
\* (StackOrderIrrelevant).  RELA records of S+A types on one field are NOT generated: gABI composition (addend := retained result)
\* and plain overwriting differ there and the processor supplements are silent.
ReadsField(r, fl) == r.f \in {"V+S+A", "V-S-A"} \/ (fl = "REL" /\ r.f \in {"S+A", "S+A-P"})
StackRows(m, fl, w) == {r \in Rows : r.m = m /\ fl \in r.fl /\ r.w = w /\ ReadsField(r, fl) /\ Recipe(m, r.t, fl).kind = "ok"}
StackSeqs(m, fl, w) == LET R == StackRows(m, fl, w) IN {<<a, b>> : a \in R, b \in R} \cup {<<a, b, c>> : a \in R, b \in R, c \in R}
StackOff == 5
StackLen == 24
StackSym == <<2, 6, 3>>
StackAdd == <<7, 2, 6>>
StackObj(rs, fl, cls, le, vi) ==
  LET ws == Wsz(cls)
      w == rs[1].w
      add(k) == IF fl = "RELA" THEN DTrunc(ValuePool[k], ws) ELSE DZero(ws)
  IN [cls |-> cls, le |-> le, machine |-> rs[1].m, rela |-> fl = "RELA", syms |-> Syms(cls),
      data |-> Patch(Filler(StackLen), StackOff, Fix(W(ValuePool[vi]), w, le)),
      sub |-> IF Len(rs) = 2 THEN rs[1].name \o "+" \o rs[2].name ELSE rs[1].name \o "+" \o rs[2].name \o "+" \o rs[3].name,
      group |-> Len(rs),
      relocs |-> [j \in 1..Len(rs) |-> Entry(LEn(StackOff, ws), LEn(StackSym[j], 4), Type4(rs[j].t), add(StackAdd[j]), 0, 0, 0)]
                 \o <<Entry(LEn(StackLen - w, ws), LEn(4, 4), Type4(rs[1].t), add(3), 0, 0, 0)>>]
StackPlans ==
  UNION {UNION {UNION {{StackObj(rs, fl, cls, le, vi) : rs \in StackSeqs(m, fl, w), le \in BOOLEAN, vi \in {4, 7}} :
                         w \in {1, 2, 4, 8}} : cls \in ClassesOf(m)} : m \in Machines, fl \in {"REL", "RELA"}}

\* decode alphabets (one entry = one choice of every field; extremes and asymmetric patterns)
Pool32 == << Entry(<<0, 0, 0, 0>>, <<0, 0, 0, 0>>, <<0, 0, 0, 0>>, <<0, 0, 0, 0>>, 0, 0, 0),
             Entry(<<1, 0, 0, 128>>, <<86, 52, 18, 0>>, <<120, 0, 0, 0>>, <<255, 255, 255, 255>>, 0, 0, 0),
             Entry(<<255, 255, 255, 255>>, <<255, 255, 255, 0>>, <<255, 0, 0, 0>>, <<0, 0, 0, 128>>, 0, 0, 0),
             Entry(<<16, 0, 0, 0>>, <<0, 0, 128, 0>>, <<128, 0, 0, 0>>, <<255, 255, 255, 127>>, 0, 0, 0),
             Entry(<<4, 3, 2, 1>>, <<1, 0, 0, 0>>, <<1, 0, 0, 0>>, <<1, 0, 0, 0>>, 0, 0, 0),
             Entry(<<0, 1, 0, 0>>, <<255, 0, 0, 0>>, <<0, 0, 0, 0>>, <<254, 255, 255, 255>>, 0, 0, 0) >>
Pool64 == << Entry(DZero(8), DZero(4), DZero(4), DZero(8), 0, 0, 0),
             Entry(<<1, 0, 0, 0, 0, 0, 0, 128>>, <<120, 86, 52, 18>>, <<239, 205, 171, 137>>, <<255, 255, 255, 255, 255, 255, 255, 255>>, 0, 0, 0),
             Entry(<<255, 255, 255, 255, 255, 255, 255, 255>>, <<255, 255, 255, 255>>, <<255, 255, 255, 255>>, <<0, 0, 0, 0, 0, 0, 0, 128>>, 0, 0, 0),
             Entry(<<16, 0, 0, 0, 1, 0, 0, 0>>, <<0, 0, 0, 128>>, <<0, 0, 0, 128>>, <<255, 255, 255, 255, 255, 255, 255, 127>>, 0, 0, 0),
             Entry(<<8, 7, 6, 5, 4, 3, 2, 1>>, <<1, 0, 0, 0>>, <<1, 0, 0, 0>>, <<1, 0, 0, 0, 0, 0, 0, 0>>, 0, 0, 0),
             Entry(<<0, 0, 0, 0, 255, 0, 0, 0>>, <<255, 0, 0, 0>>, <<0, 1, 0, 0>>, <<0, 0, 0, 0, 255, 255, 255, 255>>, 0, 0, 0) >>
PoolMips64 == << Entry(DZero(8), DZero(4), DZero(4), DZero(8), 0, 0, 0),
                 Entry(<<1, 0, 0, 0, 0, 0, 0, 128>>, <<120, 86, 52, 18>>, <<240, 0, 0, 0>>, <<255, 255, 255, 255, 255, 255, 255, 255>>, 154, 188, 222),
                 Entry(<<255, 255, 255, 255, 255, 255, 255, 255>>, <<255, 255, 255, 255>>, <<255, 0, 0, 0>>, <<0, 0, 0, 0, 0, 0, 0, 128>>, 255, 255, 255),
                 Entry(<<16, 0, 0, 0, 1, 0, 0, 0>>, <<0, 0, 0, 128>>, <<18, 0, 0, 0>>, <<255, 255, 255, 255, 255, 255, 255, 127>>, 128, 0, 0),
                 Entry(<<8, 7, 6, 5, 4, 3, 2, 1>>, <<1, 0, 0, 0>>, <<2, 0, 0, 0>>, <<1, 0, 0, 0, 0, 0, 0, 0>>, 0, 0, 0),
                 Entry(<<0, 0, 0, 0, 255, 0, 0, 0>>, <<255, 0, 0, 0>>, <<4, 0, 0, 0>>, <<0, 0, 0, 0, 255, 255, 255, 255>>, 1, 2, 3) >>
DecodePool(cls, machine) == IF cls = 32 THEN Pool32 ELSE IF machine = EM_MIPS THEN PoolMips64 ELSE Pool64
DecodeConfigs == {<<32, TRUE, EM_386>>, <<32, FALSE, EM_MIPS>>, <<64, TRUE, EM_X86_64>>, <<64, FALSE, EM_PPC64>>,
                  <<64, TRUE, EM_MIPS>>, <<64, FALSE, EM_MIPS>>}

DynPresent == {{"REL", "RELA", "JMPREL", "RELR"}, {"REL"}, {"RELA", "JMPREL"}, {"RELR"}, {"JMPREL"}, {}}

\* RELR alphabets
RelrAnchors(cls) == IF cls = 32 THEN {<<0, 0, 1, 0>>, <<192, 255, 255, 127>>, <<0, 240, 255, 255>>}
                    ELSE {<<0, 0, 1, 0, 0, 0, 0, 0>>, <<0, 255, 255, 255, 0, 0, 0, 0>>, <<0, 0, 255, 255, 255, 255, 255, 255>>}
RECURSIVE AscDigits(_)                    \* a set of equal-length digit strings in ascending numeric order
AscDigits(S) == IF S = {} THEN <<>> ELSE LET m == CHOOSE x \in S : \A y \in S \ {x} : DLess(x, y) IN <<m>> \o AscDigits(S \ {m})
RelrBitPos(cls) == IF cls = 32 THEN {1, 2, 15, 16, 30, 31} ELSE {1, 2, 31, 32, 62, 63}
RelrBitmaps(cls) == {WordOfBits(S \cup {0}, Wsz(cls)) : S \in {T \in SUBSET RelrBitPos(cls) : Cardinality(T) <= BitmapBits}}
RelrOrigins(cls) == IF cls = 32 THEN {<<0, 0, 1, 0>>, <<0, 255, 255, 127>>} ELSE {<<0, 0, 1, 0, 0, 0, 0, 0>>, <<0, 255, 255, 255, 0, 0, 0, 0>>, <<0, 0, 0, 0, 0, 0, 0, 128>>}

(* ------------------ (F) client sessions on one table ------------------ *)
\* A session object names ONE table of an image: kind "relrsec" (the SHT_RELR section of RelrImage), "relsec" (the .rel[a].debug_info
\* section of RelocImage) or "dyn" (table `tab` of DynImage, obtained through `via`: the .dynamic section or the PT_DYNAMIC segment).
\* s = [kind, tab, via, v, cls, le, machine, o]; o is the object of the image's writer.
SessIsRelr(s) == s.tab = "RELR"
SessRela(s) == CASE s.kind = "relsec" -> s.o.rela [] s.tab = "RELA" -> TRUE [] s.tab = "JMPREL" -> s.o.pltrela [] OTHER -> FALSE
SessEntries(s) == CASE s.kind = "relsec" -> s.o.relocs [] s.tab = "REL" -> s.o.rel [] s.tab = "RELA" -> s.o.rela
                    [] s.tab = "JMPREL" -> s.o.jmprel [] OTHER -> <<>>
SessBytes(s) == TableBytes([cls |-> s.cls, le |-> s.le, machine |-> s.machine, rela |-> SessRela(s), relocs |-> SessEntries(s)])
SessImage(s) == CASE s.kind = "relrsec" -> RelrImage(s.o) [] s.kind = "relsec" -> RelocImage(s.o) [] OTHER -> DynImage(s.o)
\* declarative: the sequence the table denotes (addresses / entry views), from the abstract object
SessView(s) ==
  IF SessIsRelr(s) THEN RelrDenote(s.o.words, Wsz(s.cls))
  ELSE LET es == SessEntries(s) IN
       [j \in 1..Len(es) |-> EntryView(s.cls, s.machine, [es[j] EXCEPT !.add = IF SessRela(s) THEN @ ELSE DZero(Wsz(s.cls))])]
\* operational: what a reader does for one request.  Item n (1-based) of a REL/RELA table is read at n * entsize; a RELR reader is
\* the RELR machine started afresh and stepped until it has produced n addresses (an iterator that is asked for n items does no more).
RECURSIVE RelrTake(_, _, _, _)
RelrTake(m, words, ws, n) ==
  IF Len(m.out) >= n \/ m.i > Len(words) THEN m
  ELSE RelrTake(IF Even(words[m.i]) THEN AnchorStep(m, words[m.i], ws) ELSE BitmapStep(m, words[m.i], ws), words, ws, n)
\* (s.tb = SessBytes(s), the table as it is in the file, and s.n = Len(SessView(s)) are computed once, when the object is made)
OpCount(s) == IF SessIsRelr(s) THEN Len(RelrRun(RelrInit, s.o.words, Wsz(s.cls)).out) ELSE NumEntries(s.tb, s.cls, SessRela(s))
OpItem(s, n) == IF SessIsRelr(s) THEN RelrTake(RelrInit, s.o.words, Wsz(s.cls), n).out[n]
                ELSE EntryView(s.cls, s.machine, ReadEntry(s.tb, n - 1, s.cls, s.le, s.machine, SessRela(s)))
OpItems(s, lo, hi) == [x \in 1..(hi - lo + 1) |-> OpItem(s, lo + x - 1)]
\* the client's alphabet: <<call, argument>>.  "abandon" k: a new iterator, k items taken, then dropped; "num": num_relocations;
\* "get" i: get_relocation(i); "full": a new iterator run to its end; "next": one more item of the ONE iterator the client holds
\* through the whole session (opened by the first "next"; st.k = items it has handed out; nothing once it is exhausted).
SessCalls(s) == LET n == s.n IN
  {<<"abandon", 1>>, <<"abandon", 2>>, <<"num", 0>>, <<"get", 0>>, <<"get", n - 1>>, <<"full", 0>>, <<"next", 0>>}
\* an answer: [n: the number answered by "num" (0 otherwise), items: the items handed out]
OpAnswer(s, c, pos) ==
  LET n == OpCount(s) IN
  CASE c[1] = "abandon" -> [n |-> 0, items |-> OpItems(s, 1, Min({c[2], n}))]
    [] c[1] = "num" -> [n |-> n, items |-> <<>>]
    [] c[1] = "get" -> [n |-> 0, items |-> OpItems(s, c[2] + 1, c[2] + 1)]
    [] c[1] = "full" -> [n |-> 0, items |-> OpItems(s, 1, n)]
    [] c[1] = "next" -> [n |-> 0, items |-> IF pos < n THEN OpItems(s, pos + 1, pos + 1) ELSE <<>>]
\* the declarative answer: a function of the table's denotation and the call alone (for "next": and of how many items the held
\* iterator itself has handed out) - never of the other calls of the session
SessAnswer(s, c, pos) ==
  LET v == SessView(s)
      n == Len(v)
  IN CASE c[1] = "abandon" -> [n |-> 0, items |-> SubSeq(v, 1, Min({c[2], n}))]
       [] c[1] = "num" -> [n |-> n, items |-> <<>>]
       [] c[1] = "get" -> [n |-> 0, items |-> <<v[c[2] + 1]>>]
       [] c[1] = "full" -> [n |-> 0, items |-> v]
       [] c[1] = "next" -> [n |-> 0, items |-> IF pos < n THEN <<v[pos + 1]>> ELSE <<>>]
\* session lengths (definitions a cfg may replace): RELR tables keep a memo of the expansion, so the RELR sections get the longer
\* sessions (a DT_RELR table is the same reader over the same words)
SessDepthRelr == 3
SessDepthTab == 2
SessDepthRelrThorough == 4
SessDepthTabThorough == 3
SessDepth(s) == IF s.kind = "relrsec" THEN SessDepthRelr ELSE SessDepthTab
\* the session objects
SessDynObj(cf, pltrela) ==
  LET P == DecodePool(cf[1], cf[3])
      a == AscDigits(RelrAnchors(cf[1]))
  IN [cls |-> cf[1], le |-> cf[2], machine |-> cf[3], present |-> {"REL", "RELA", "JMPREL", "RELR"}, pltrela |-> pltrela,
      rel |-> <<P[2], P[5], P[3]>>, rela |-> <<P[3], P[2], P[4]>>, jmprel |-> <<P[5], P[6], P[2]>>,
      words |-> <<a[1], WordOfBits({0, 1, 8 * Wsz(cf[1]) - 2}, Wsz(cf[1])), a[2]>>]
SessObj(kind, tab, via, v, o) ==
  LET s == [kind |-> kind, tab |-> tab, via |-> via, v |-> v, cls |-> o.cls, le |-> o.le, machine |-> o.machine, o |-> o]
  IN s @@ [tb |-> TLCEval(SessBytes(s)), n |-> Len(SessView(s))]
SessPlans ==
  \* SHT_RELR sections: anchor + bitmap (first and last bit) + anchor (4 addresses), and a single anchor (an iterator that runs dry)
  UNION {{SessObj("relrsec", "RELR", "name", v,
                  [cls |-> cls, le |-> le, machine |-> IF cls = 32 THEN EM_ARM ELSE EM_X86_64,
                   words |-> LET a == AscDigits(RelrAnchors(cls)) IN
                             IF v = 1 THEN <<a[1], WordOfBits({0, 1, 8 * Wsz(cls) - 2}, Wsz(cls)), a[2]>> ELSE <<a[1]>>]) :
            le \in BOOLEAN, v \in 1..2} : cls \in {32, 64}}
  \* REL / RELA sections of three entries
  \cup {SessObj("relsec", "SEC", "name", 1,
                 LET P == DecodePool(cf[1], cf[3]) IN
                 [cls |-> cf[1], le |-> cf[2], machine |-> cf[3], rela |-> rela, data |-> Filler(8), syms |-> Syms(cf[1]),
                  relocs |-> <<P[2], P[6], P[4]>>, sub |-> "sess"]) : cf \in DecodeConfigs, rela \in BOOLEAN}
  \* the four tables the dynamic tags name, through the section and through the segment
  \cup {SessObj("dyn", tab, via, 1, SessDynObj(cf, cf[2])) :
          cf \in DecodeConfigs, tab \in {"REL", "RELA", "JMPREL", "RELR"}, via \in {"section", "segment"}}

(* ------------------------------- machine ------------------------------- *)
Idle == RelrInit
Init ==
  /\ Mode \in Modes
  /\ CASE Mode = "decode" ->
            \E cf \in DecodeConfigs, rela \in BOOLEAN :
               /\ obj = [cls |-> cf[1], le |-> cf[2], machine |-> cf[3], rela |-> rela, data |-> Filler(8), syms |-> Syms(cf[1]),
                         relocs |-> <<>>, sub |-> "decode"]
               /\ phase = "write" /\ st = Idle
       [] Mode = "apply" ->
            \E p \in ApplyPlansOk :
               /\ obj = ApplyObj(p[1], p[2], p[3], p[4], p[5])
               /\ phase = "read" /\ st = [Idle EXCEPT !.buf = obj.data, !.k = 1]
       [] Mode = "twotabs" -> \E p \in TwoPlans : obj = p /\ phase = "done" /\ st = Idle
       [] Mode = "errors" ->
            \E o \in ErrPlans : obj = o /\ phase = "read" /\ st = [Idle EXCEPT !.buf = o.data, !.k = 1]
       [] Mode = "loads" ->
            \E o \in LoadPlans : obj = o /\ phase = "read" /\ st = [Idle EXCEPT !.buf = o.data, !.k = 1]
       [] Mode = "secaddr" ->
            \E o \in SaPlans : obj = o /\ phase = "read" /\ st = [Idle EXCEPT !.buf = o.data, !.k = 1]
       [] Mode = "stack" ->
            \E o \in StackPlans : obj = o /\ phase = "read" /\ st = [Idle EXCEPT !.buf = o.data, !.k = 1]
       [] Mode = "sess" -> \E o \in SessPlans : obj = o /\ phase = "calls" /\ st = Idle
       [] Mode = "relr" ->
            \E cls \in {32, 64}, le \in BOOLEAN : \E a \in {AscDigits(RelrAnchors(cls))[x] : x \in 1..FirstAnchors} :
               /\ obj = [cls |-> cls, le |-> le, machine |-> IF cls = 32 THEN EM_ARM ELSE EM_X86_64, words |-> <<a>>,
                         origin |-> <<>>, ds |-> <<>>]
               /\ phase = "write" /\ st = Idle
       [] Mode = "dyn" ->
            \E cf \in DecodeConfigs, pltrela \in BOOLEAN, pres \in DynPresent, v \in 1..2 :
               LET P == DecodePool(cf[1], cf[3])
                   a == RelrAnchors(cf[1])
                   w0 == AscDigits(a)[1]
               IN /\ obj = [cls |-> cf[1], le |-> cf[2], machine |-> cf[3], present |-> pres, pltrela |-> pltrela,
                            rel |-> IF v = 1 THEN <<P[2], P[5]>> ELSE <<>>,
                            rela |-> IF v = 1 THEN <<P[3], P[2], P[4]>> ELSE <<P[6]>>,
                            jmprel |-> IF v = 1 THEN <<P[5], P[6]>> ELSE <<P[4], P[3], P[2]>>,
                            words |-> IF v = 1 THEN <<w0, WordOfBits({0, 1, 8 * Wsz(cf[1]) - 2}, Wsz(cf[1])), AscDigits(a)[2]>> ELSE <<w0>>]
                  /\ phase = "done" /\ st = Idle
       [] Mode = "relrset" ->
            \E cls \in {32, 64}, le \in BOOLEAN, D \in SUBSET DeltaPool :
              \E org \in RelrOrigins(cls) :
               LET ws == Wsz(cls)
                   ds == [x \in 1..Cardinality(D) |-> (AscSeq(D)[x] * ws) \div 2]   \* pool in half words: even byte offsets
                   aw == RelrEnc(ds, ws)
               IN /\ obj = [cls |-> cls, le |-> le, machine |-> IF cls = 32 THEN EM_386 ELSE EM_AARCH64,
                            words |-> [x \in 1..Len(aw) |-> ConcreteWord(org, aw[x], ws)], origin |-> org, ds |-> ds]
                  /\ phase = "read" /\ st = Idle

\* --- writers
AddEntry ==
  /\ Mode = "decode" /\ phase = "write" /\ Len(obj.relocs) < MaxEntries
  /\ \E x \in 1..6 : obj' = [obj EXCEPT !.relocs = Append(@, DecodePool(obj.cls, obj.machine)[x])]
  /\ UNCHANGED <<Mode, phase, st>>
AddWord ==
  /\ Mode = "relr" /\ phase = "write" /\ Len(obj.words) < MaxWords
  /\ \E w \in RelrAnchors(obj.cls) \cup RelrBitmaps(obj.cls) : obj' = [obj EXCEPT !.words = Append(@, w)]
  /\ UNCHANGED <<Mode, phase, st>>
Finish ==
  /\ phase = "write"
  /\ phase' = IF Mode = "decode" THEN "done" ELSE "read"
  /\ UNCHANGED <<Mode, obj, st>>

\* --- the RELR reader
Anchor ==
  /\ Mode \in {"relr", "relrset"} /\ phase = "read" /\ st.i <= Len(obj.words) /\ Even(obj.words[st.i])
  /\ st' = AnchorStep(st, obj.words[st.i], Wsz(obj.cls))
  /\ UNCHANGED <<Mode, obj, phase>>
Bitmap ==
  /\ Mode \in {"relr", "relrset"} /\ phase = "read" /\ st.i <= Len(obj.words) /\ ~Even(obj.words[st.i])
  /\ st' = BitmapStep(st, obj.words[st.i], Wsz(obj.cls))
  /\ UNCHANGED <<Mode, obj, phase>>
RelrHalt ==
  /\ Mode \in {"relr", "relrset"} /\ phase = "read" /\ st.i > Len(obj.words)
  /\ phase' = "done"
  /\ UNCHANGED <<Mode, obj, st>>

\* --- the apply loop
ApplyOne ==
  /\ Mode \in {"apply", "errors", "loads", "secaddr", "stack"} /\ phase = "read" /\ st.err = "" /\ st.k <= Len(obj.relocs)
  /\ LET r == ApplyStep(obj, st.buf, 0, obj.relocs[st.k]) IN st' = [st EXCEPT !.buf = r.buf, !.err = r.err, !.k = @ + 1]
  /\ UNCHANGED <<Mode, obj, phase>>
ApplyHalt ==
  /\ Mode \in {"apply", "errors", "loads", "secaddr", "stack"} /\ phase = "read" /\ ~(st.err = "" /\ st.k <= Len(obj.relocs))
  /\ phase' = IF Mode = "loads" THEN "calls" ELSE "done"
  /\ UNCHANGED <<Mode, obj, st>>
\* --- the load machine: one more request on the same opened file; st.out = the answers handed out so far.  A relocating
\* request answers with what the apply machine computed (st.buf / st.err), the other one with the section as it is in the file.
Load(flag) ==
  /\ Mode = "loads" /\ phase = "calls" /\ Len(st.out) < MaxCalls
  /\ st' = [st EXCEPT !.out = Append(@, [flag |-> flag, buf |-> IF flag THEN st.buf ELSE obj.data, err |-> IF flag THEN st.err ELSE ""])]
  /\ UNCHANGED <<Mode, obj, phase>>

\* --- the session machine: one more call on the same table object; st.out = the calls so far with their answers, st.k = the items the
\* held iterator has handed out.  Each answer is computed by the reader (OpAnswer) from the table's bytes.
ClientCall(c) ==
  /\ Mode = "sess" /\ phase = "calls" /\ Len(st.out) < SessDepth(obj)
  /\ LET a == OpAnswer(obj, c, st.k) IN
     st' = [st EXCEPT !.out = Append(@, [c |-> c[1], a |-> c[2], n |-> a.n, items |-> TLCEval(a.items)]),
                      !.k = IF c[1] = "next" /\ a.items # <<>> THEN @ + 1 ELSE @]
  /\ UNCHANGED <<Mode, obj, phase>>

Next == AddEntry \/ AddWord \/ Finish \/ Anchor \/ Bitmap \/ RelrHalt \/ ApplyOne \/ ApplyHalt \/ (\E flag \in BOOLEAN : Load(flag))
        \/ (Mode = "sess" /\ \E c \in SessCalls(obj) : ClientCall(c))
Spec == Init /\ [][Next]_vars

(* ------------------------------ emission ------------------------------- *)
IsTable == Mode \in {"decode", "apply", "errors", "secaddr", "stack"}
\* per relocation: <<offset, width, class>>; class names the input class a deviation would be filed under
FieldClass(o, j) ==
  LET e == o.relocs[j]
      f == FieldOf(o, j)
      rc == Recipe(o.machine, NatOf(e.type), FlavourOf(o))
      raw == Slice(o.data, f[1] + 1, f[2])
  IN IF f[2] > 0 /\ o.rela /\ rc.f \in {"S+A", "S+A-P"} /\ raw # DZero(f[2]) THEN "inplace-nonzero" ELSE "plain"
TableCase ==
  [mode |-> Mode, sub |-> obj.sub, cls |-> obj.cls, le |-> obj.le, machine |-> obj.machine, rela |-> obj.rela,
   chunks |-> Chunks(IF Mode = "secaddr" THEN SaImage(obj) ELSE RelocImage(obj)), entries |-> TableView(obj), nsyms |-> Len(obj.syms),
   orig |-> obj.data, err |-> st.err, bytes |-> st.buf,
   fields |-> IF Mode = "decode" THEN <<>>
              ELSE [j \in 1..Len(obj.relocs) |-> LET f == TLCEval(FieldOf(obj, j)) IN <<f[1], f[2], FieldClass(obj, j)>>]]
RelrCase ==
  [mode |-> Mode, cls |-> obj.cls, le |-> obj.le, chunks |-> Chunks(RelrImage(obj)), words |-> obj.words, addrs |-> st.out]
\* One CSVWrite is one line, and a line longer than 8192 bytes is not written atomically when several workers emit.  The
\* apply images (49 relocations) are therefore emitted in parts that the driver reassembles by `id`.
CaseId == ToString(<<obj.machine, obj.sub, obj.cls, obj.le, obj.rela, obj.relocs[1].add>>)
Put(r) == CSVWrite("%1$s", <<ToJson(r)>>, IOEnv.OUT)
EmitParts ==
  \E c \in {TableCase} :                                  \* (a singleton: the case is computed once)
    LET id == CaseId
        cs == c.chunks
        tv == c.entries
        ng == (Len(tv) + 15) \div 16
    IN /\ \A i \in 1..Len(cs) : Put([id |-> id, part |-> "chunks", i |-> i, v |-> cs[i]])
       /\ \A g \in 1..ng : Put([id |-> id, part |-> "entries", i |-> g, v |-> SubSeq(tv, 16 * (g - 1) + 1, Min({16 * g, Len(tv)}))])
       /\ Put([id |-> id, part |-> "orig", i |-> 1, v |-> c.orig])
       /\ Put([id |-> id, part |-> "bytes", i |-> 1, v |-> c.bytes])
       /\ Put([id |-> id, part |-> "head", i |-> 1,
               v |-> [mode |-> c.mode, sub |-> c.sub, cls |-> c.cls, le |-> c.le, machine |-> c.machine, rela |-> c.rela, nsyms |-> c.nsyms,
                      err |-> c.err, fields |-> c.fields, nchunks |-> Len(cs), ngroups |-> ng]])
DynCase == [mode |-> Mode, cls |-> obj.cls, le |-> obj.le, machine |-> obj.machine, chunks |-> Chunks(DynImage(obj)), view |-> DynView(obj)]
\* (the second object of a twotabs pair is the first with the other symbol table)
TwoB == [obj EXCEPT !.syms = obj.syms2]
TwoCase == LET a == obj   b == TwoB   ra == Apply(a)   rb == Apply(b) IN
           [mode |-> Mode, cls |-> a.cls, le |-> a.le, machine |-> a.machine, rela |-> a.rela, chunks |-> Chunks(TwoImage(a, b)),
            a |-> [orig |-> a.data, bytes |-> ra.buf, err |-> ra.err], b |-> [orig |-> b.data, bytes |-> rb.buf, err |-> rb.err]]
\* loads: the image, the two possible answers (orig / bytes or err) and per call <<flag, refusal, which of the two buffers>>
LoadsCase ==
  [mode |-> Mode, sub |-> obj.sub, cls |-> obj.cls, le |-> obj.le, machine |-> obj.machine, rela |-> obj.rela,
   chunks |-> Chunks(RelocImage(obj)), orig |-> obj.data, bytes |-> st.buf, err |-> st.err,
   calls |-> [i \in 1..Len(st.out) |-> <<st.out[i].flag, st.out[i].err,
                                          IF st.out[i].err # "" THEN "none" ELSE IF st.out[i].buf = obj.data THEN "orig" ELSE "bytes">>]]
\* secaddr: a table case and, per relocation, where its symbol is defined: <<st_shndx, class of that section's address ("" if none)>>
SaCase == TableCase @@
          [addrs |-> <<AddrClass(obj.addrs[1]), AddrClass(obj.addrs[2])>>,
           defs |-> [j \in 1..Len(obj.relocs) |->
                       LET sh == obj.shndx[NatOf(obj.relocs[j].sym) + 1] IN
                       <<sh, IF sh \in {5, 6} THEN AddrClass(obj.addrs[sh - 4]) ELSE "">>]]
\* sess: the object (image, which table, its denotation) once, at the start of its sessions; then one line per complete session
SessId == ToString(<<obj.kind, obj.tab, obj.via, obj.v, obj.cls, obj.le, obj.machine, SessRela(obj)>>)
SessObjCase == [mode |-> Mode, part |-> "obj", id |-> SessId, kind |-> obj.kind, tab |-> obj.tab, via |-> obj.via, cls |-> obj.cls,
                le |-> obj.le, machine |-> obj.machine, rela |-> SessRela(obj), chunks |-> Chunks(SessImage(obj)), view |-> SessView(obj)]
SessCallsCase == [mode |-> Mode, part |-> "calls", id |-> SessId,
                  calls |-> [i \in 1..Len(st.out) |-> <<st.out[i].c, st.out[i].a, st.out[i].n, st.out[i].items>>]]
EmitSess == /\ (st.out = <<>>) => Put(SessObjCase)
            /\ (Len(st.out) = SessDepth(obj)) => Put(SessCallsCase)
\* (of the sequences of three calls only the alternating ones TFT / FTF add something to the four of two calls)
Emit == IF Mode = "sess" THEN EmitSess ELSE
        IF Mode = "secaddr" THEN (phase = "done" => Put(SaCase)) ELSE
        IF Mode = "stack" THEN (phase = "done" => Put(TableCase @@ [group |-> obj.group])) ELSE
        IF Mode = "loads" THEN (phase = "calls" /\ Len(st.out) >= 2
                                /\ (Len(st.out) = 3 => (st.out[1].flag # st.out[2].flag /\ st.out[2].flag # st.out[3].flag))) => Put(LoadsCase)
        ELSE phase = "done" => IF Mode = "apply" THEN EmitParts ELSE IF Mode = "twotabs" THEN Put(TwoCase)
                               ELSE Put(IF IsTable THEN TableCase ELSE IF Mode = "dyn" THEN DynCase ELSE RelrCase)

(* ------------------------------ properties ----------------------------- *)
\* the symbol table a relocation table designates decides: the two results of a twotabs pair differ (other values) or the second is refused
TwoTablesDiffer == Mode = "twotabs" => LET ra == Apply(obj)   rb == Apply(TwoB) IN
                                         /\ ra.err = "" /\ (rb.err = "symbol" \/ (rb.err = "" /\ rb.buf # ra.buf))
                                         /\ ChunksDisjoint(TwoImage(obj, TwoB))
Done == phase = "done"
\* every answer of the load machine is the declarative answer to its own flag, wherever it stands in the sequence
LoadsHistoryFree ==
  (Mode = "loads" /\ phase = "calls") =>
     \A i \in 1..Len(st.out) : LET a == LoadAnswer(obj, st.out[i].flag) IN st.out[i].err = a.err /\ (a.err = "" => st.out[i].buf = a.buf)
\* the two flags have different answers on every loads object (a refusal, or relocated bytes that differ from the original ones)
LoadsDiscriminate ==
  (Mode = "loads" /\ phase = "calls") => LET a == Apply(obj) IN a.err # "" \/ a.buf # obj.data
\* S is independent of section addresses in ET_REL (and of where a symbol is defined): the outcome on a secaddr object is the
\* outcome on the same object with every section at address 0, and on the same object with every symbol absolute
SectionAddressesIrrelevant ==
  (Mode = "secaddr" /\ Done) =>
     LET r == [buf |-> st.buf, err |-> st.err]
         z == DZero(Wsz(obj.cls))
     IN /\ r = Apply([obj EXCEPT !.addrs = <<z, z>>])
        /\ r = Apply([obj EXCEPT !.shndx = [i \in 1..Len(obj.syms) |-> IF i = 1 THEN 0 ELSE 65521]])
        /\ r.err = ""
\* ... the secaddr images are well-formed, every st_shndx names a section of the image (or SHN_UNDEF / SHN_ABS), and an address that
\* is not 0 would show if it were added to S: some relocation against a symbol of that section has a field in which it is not 0
SecAddrWellFormed ==
  Mode = "secaddr" =>
     LET im == SaImage(obj) IN
     /\ ChunksDisjoint(im)
     /\ \A i \in 1..Len(obj.syms) : obj.shndx[i] \in {0, 65521} \cup 1..Len(im.secs)
     /\ \A k \in 1..2 : obj.addrs[k] # DZero(Wsz(obj.cls)) =>
           \E j \in 1..Len(obj.relocs) : /\ obj.shndx[NatOf(obj.relocs[j].sym) + 1] = k + 4
                                           /\ LET w == FieldOf(obj, j)[2] IN w > 0 /\ DTrunc(obj.addrs[k], w) # DZero(w)
\* relocations that share a field: the machine's fold leaves in the field the in-place value plus the sum of the steps' terms
\* (+(S + A), -(S + A), +(S + A - P); A = r_addend in a RELA table, nothing more in a REL table: the in-place value is counted once) ...
StackTerm(o, j) ==
  LET e == o.relocs[j]
      rc == Recipe(o.machine, NatOf(e.type), FlavourOf(o))
      SA == DAdd(DTrunc(o.syms[NatOf(e.sym) + 1], 8), IF o.rela THEN DSext(e.add, 8) ELSE DZero(8))
  IN CASE rc.f = "V-S-A" -> DNeg(SA) [] rc.f = "S+A-P" -> DSub(SA, LEn(NatOf(e.off), 8)) [] OTHER -> SA
RECURSIVE StackSum(_, _)
StackSum(o, j) == IF j = 0 THEN DZero(8) ELSE DAdd(StackSum(o, j - 1), StackTerm(o, j))
StackIsSum ==
  (Mode = "stack" /\ Done) =>
     LET w == FieldOf(obj, 1)[2]
         raw == Slice(obj.data, StackOff + 1, w)
         V == DTrunc(IF obj.le THEN raw ELSE Rev(raw), 8)
     IN /\ st.err = "" /\ w > 0
        /\ \A j \in 1..obj.group : FieldOf(obj, j) = <<StackOff, w>>
        /\ Slice(st.buf, StackOff + 1, w) = Fix(W(DTrunc(DAdd(V, StackSum(obj, obj.group)), w)), w, obj.le)
\* ... in whatever order the records of the group stand in the table; and the fold is not what independent application to the
\* original bytes would give (the last record of the group alone): the dimension is visible
StackOrderIrrelevant ==
  (Mode = "stack" /\ Done) =>
     LET g == obj.group
         rev == [obj EXCEPT !.relocs = [j \in 1..Len(@) |-> IF j <= g THEN @[g + 1 - j] ELSE @[j]]]
         lastonly == [obj EXCEPT !.relocs = SubSeq(@, g, Len(@))]
     IN Apply(rev).buf = st.buf /\ Apply(lastonly).buf # st.buf
\* every answer of the session machine is the declarative answer to its own call, whatever was called before: the table's
\* denotation does not depend on the history of the object (and an iterator's items only on how far that iterator has come)
SessionHistoryFree ==
  (Mode = "sess" /\ st.out # <<>>) =>
     LET i == Len(st.out)                    \* (the answers before the last one were compared in the states before this one)
         r == st.out[i]
         pos == Cardinality({j \in 1..(i - 1) : st.out[j].c = "next" /\ st.out[j].items # <<>>})
         a == SessAnswer(obj, <<r.c, r.a>>, pos)
     IN r.n = a.n /\ r.items = a.items
\* the reader's count is the length of the denotation; a session object has at least one item and a well-formed image
SessWellFormed ==
  (Mode = "sess" /\ st.out = <<>>) =>
     /\ OpCount(obj) = Len(SessView(obj)) /\ OpCount(obj) >= 1 /\ obj.n = OpCount(obj) /\ obj.tb = SessBytes(obj)
     /\ ChunksDisjoint(SessImage(obj))
     /\ (obj.kind = "dyn" => obj.tab \in obj.o.present)
\* reader o writer = identity; the entry count is size / entry size
DecodeRoundTrip ==
  (IsTable /\ Done) =>
     LET bs == TableBytes(obj) IN
     /\ Len(bs) = Len(obj.relocs) * EntSize(obj.cls, obj.rela)
     /\ NumEntries(bs, obj.cls, obj.rela) = Len(obj.relocs)
     /\ \A j \in 1..Len(obj.relocs) :
          LET e == ReadEntry(bs, j - 1, obj.cls, obj.le, obj.machine, obj.rela) IN
          e = [obj.relocs[j] EXCEPT !.add = IF obj.rela THEN @ ELSE DZero(Wsz(obj.cls))]
\* the operational machine computes the declarative denotation
RelrMachineIsDenotation == (Mode \in {"relr", "relrset"} /\ Done) => st.out = RelrDenote(obj.words, Wsz(obj.cls))
\* Dec(Enc(addresses)) = addresses
RelrRoundTrip ==
  (Mode = "relrset" /\ Done) => st.out = [x \in 1..Len(obj.ds) |-> DAdd(obj.origin, LEn(obj.ds[x], Wsz(obj.cls)))]
AddressesStrictlyIncreasing ==
  Mode = "relrset" => \A x \in 1..(Len(st.out) - 1) : DLess(st.out[x], st.out[x + 1])
RelrNoWrap == Mode \in {"relr", "relrset"} => ~st.wrapped
\* one apply step changes nothing outside the field of the relocation it applies
ApplyFrame ==
  (Mode \in {"apply", "errors", "loads", "secaddr", "stack"} /\ phase = "read" /\ st'.k = st.k + 1) =>
     LET f == FieldOf(obj, st.k) IN
     /\ Len(st'.buf) = Len(st.buf)
     /\ \A i \in 1..Len(st.buf) : (i <= f[1] \/ i > f[1] + f[2]) => st'.buf[i] = st.buf[i]
ApplyTouchesOnlyField == [][ApplyFrame]_vars
\* at the end every byte outside all fields is the original one
ApplyRestUntouched ==
  (Mode \in {"apply", "errors", "secaddr", "stack"} /\ Done) =>
     LET touched == UNION {LET f == FieldOf(obj, j) IN (f[1] + 1)..(f[1] + f[2]) : j \in 1..(st.k - 1)}
     IN \A i \in 1..Len(obj.data) : i \notin touched => st.buf[i] = obj.data[i]
\* the machine (one action per relocation, halting at the first refusal) computes the fold
ApplyIsFold == (Mode \in {"apply", "errors", "secaddr", "stack"} /\ Done) => Apply(obj) = [buf |-> st.buf, err |-> st.err]
\* disjoint fields: each field holds the formula applied to the ORIGINAL content of that field
FieldsDisjoint(o) ==
  LET fs == TLCEval([j \in 1..Len(o.relocs) |-> FieldOf(o, j)]) IN
  \A i, j \in 1..Len(fs) : i < j => (fs[i][1] + fs[i][2] <= fs[j][1] \/ fs[j][1] + fs[j][2] <= fs[i][1])
ApplyIsPointwise ==
  (Mode = "apply" /\ Done /\ st.err = "" /\ FieldsDisjoint(obj)) =>
     \A j \in 1..Len(obj.relocs) :
        LET f == TLCEval(FieldOf(obj, j)) IN
        f[2] > 0 => Slice(st.buf, f[1] + 1, f[2]) = ApplyStep(obj, Slice(obj.data, f[1] + 1, f[2]), f[1], obj.relocs[j]).buf
OutcomeDefined ==
  (Mode \in {"apply", "errors"} /\ Done) =>
     /\ st.err \in (IF Mode = "apply" THEN {""} ELSE {"symbol", "flavour", "unsupported"})
     /\ (Mode = "errors" => st.err = obj.sub)
\* well-formedness of what the writers produce: fields inside the section
FieldsInside ==
  ((Mode \in {"apply", "errors"} /\ Done) \/ Mode \in {"loads", "secaddr", "stack"}) =>
     \A j \in 1..Len(obj.relocs) : LET f == FieldOf(obj, j) IN f[1] + (IF f[2] = 0 THEN 8 ELSE f[2]) <= Len(obj.data)

\* the dynamic image: chunks disjoint, every table lies inside the PT_LOAD mapping, the section and the tags designate the same bytes
DynWellFormed ==
  Mode = "dyn" =>
     LET im == DynImage(obj) IN
     /\ ChunksDisjoint(im)
     /\ \A k \in 3..6 : SecOff(im, k) + Len(im.secs[k].data) <= FileSize(im)
     /\ Len(im.secs[1].data) = DynTagCount(obj) * 2 * Wsz(obj.cls)

\* the recipe table is a function, is total over (machine, type, flavour), and uses the registry's codes
ASSUME \A r1, r2 \in Rows : (r1.m = r2.m /\ r1.t = r2.t /\ r1.fl \cap r2.fl # {}) => r1 = r2
ASSUME \A m \in Machines \cup {EM_RISCV, EM_BPF}, t \in 0..300, fl \in {"REL", "RELA"} :
          Recipe(m, t, fl).kind \in {"ok", "flavour", "unsupported", "unspecified"}
ASSUME \A r \in Rows : r.name \in DOMAIN Reg => Reg[r.name] = CodeDigits(N(r.t))
ASSUME /\ Reg["EM_386"] = <<EM_386>> /\ Reg["EM_MIPS"] = <<EM_MIPS>> /\ Reg["EM_PPC64"] = <<EM_PPC64>> /\ Reg["EM_S390"] = <<EM_S390>>
       /\ Reg["EM_ARM"] = <<EM_ARM>> /\ Reg["EM_X86_64"] = <<EM_X86_64>> /\ Reg["EM_AARCH64"] = <<EM_AARCH64>>
       /\ Reg["EM_RISCV"] = <<EM_RISCV>> /\ Reg["EM_BPF"] = <<EM_BPF>> /\ Reg["EM_LOONGARCH"] = CodeDigits(N(EM_LOONGARCH))

\* cfg alphabets
DeltasQuick == {0, 2, 5, 62, 64, 126, 128, 400}        \* half words: 5 is an even address off the word grid
DeltasThorough == {0, 2, 4, 5, 60, 62, 64, 124, 126, 128, 252, 400}
ErrTypesQuick == {3, 4, 6, 8, 9, 12, 20, 24, 25, 37, 42, 49, 54, 100, 105, 107, 255, 256, 259, 260, 262, 1024}
ErrTypesThorough == 0..300 \cup {1024, 65535}
AddendsQuick == {1, 2, 6, 7}
AddendsAll == 1..NV
=============================================================================
