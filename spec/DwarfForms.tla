----------------------------- MODULE DwarfForms -----------------------------
(***************************************************************************)
(* DWARF attribute forms (DWARF5 7.5.4-7.5.6, Table 7.5/7.6; DWARF2-4 for   *)
(* the older widths; GNU forms from the GNU DWARF extensions wiki).         *)
(* Form table as data: numeric code, encoder, and the reader's way to the   *)
(* length of an encoded value (FormLen), so that a byte-level reader can be *)
(* checked against the writer inside TLC.                                   *)
(*                                                                         *)
(* ctx == [ver |-> 2..5, fmt |-> 32|64, asz |-> 4|8, le |-> BOOLEAN]          *)
(* An abstract attribute value is [form, v] (+ inner for DW_FORM_indirect): *)
(*   numbers   v = N(n) / W(digits)                                         *)
(*   LEB128    v = B(the encoding itself, possibly non-minimal)              *)
(*   blocks, strings, data16   v = B(bytes)          (B(bs) == [b |-> bs])   *)
(***************************************************************************)
EXTENDS Bytes

OffSize(ctx) == IF ctx.fmt = 32 THEN 4 ELSE 8
B(bs) == [b |-> bs]

\* DWARF5 Table 7.6 (+ GNU)
FormCode == [
  DW_FORM_addr |-> 1, DW_FORM_block2 |-> 3, DW_FORM_block4 |-> 4, DW_FORM_data2 |-> 5, DW_FORM_data4 |-> 6,
  DW_FORM_data8 |-> 7, DW_FORM_string |-> 8, DW_FORM_block |-> 9, DW_FORM_block1 |-> 10, DW_FORM_data1 |-> 11,
  DW_FORM_flag |-> 12, DW_FORM_sdata |-> 13, DW_FORM_strp |-> 14, DW_FORM_udata |-> 15, DW_FORM_ref_addr |-> 16,
  DW_FORM_ref1 |-> 17, DW_FORM_ref2 |-> 18, DW_FORM_ref4 |-> 19, DW_FORM_ref8 |-> 20, DW_FORM_ref_udata |-> 21,
  DW_FORM_indirect |-> 22, DW_FORM_sec_offset |-> 23, DW_FORM_exprloc |-> 24, DW_FORM_flag_present |-> 25,
  DW_FORM_strx |-> 26, DW_FORM_addrx |-> 27, DW_FORM_ref_sup4 |-> 28, DW_FORM_strp_sup |-> 29, DW_FORM_data16 |-> 30,
  DW_FORM_line_strp |-> 31, DW_FORM_ref_sig8 |-> 32, DW_FORM_implicit_const |-> 33, DW_FORM_loclistx |-> 34,
  DW_FORM_rnglistx |-> 35, DW_FORM_ref_sup8 |-> 36, DW_FORM_strx1 |-> 37, DW_FORM_strx2 |-> 38, DW_FORM_strx3 |-> 39,
  DW_FORM_strx4 |-> 40, DW_FORM_addrx1 |-> 41, DW_FORM_addrx2 |-> 42, DW_FORM_addrx3 |-> 43, DW_FORM_addrx4 |-> 44,
  DW_FORM_GNU_ref_alt |-> 7968, DW_FORM_GNU_strp_alt |-> 7969 ]
\* (DW_FORM_GNU_addr_index / GNU_str_index, pre-standard Fission forms, are outside "supported forms" and not generated)
Forms == DOMAIN FormCode
FormOfCode(c) == CHOOSE f \in Forms : FormCode[f] = c

\* encoding classes
Fixed1 == {"DW_FORM_data1", "DW_FORM_ref1", "DW_FORM_flag", "DW_FORM_strx1", "DW_FORM_addrx1"}
Fixed2 == {"DW_FORM_data2", "DW_FORM_ref2", "DW_FORM_strx2", "DW_FORM_addrx2"}
Fixed3 == {"DW_FORM_strx3", "DW_FORM_addrx3"}
Fixed4 == {"DW_FORM_data4", "DW_FORM_ref4", "DW_FORM_ref_sup4", "DW_FORM_strx4", "DW_FORM_addrx4"}
Fixed8 == {"DW_FORM_data8", "DW_FORM_ref8", "DW_FORM_ref_sig8", "DW_FORM_ref_sup8"}
OffsetForms == {"DW_FORM_strp", "DW_FORM_line_strp", "DW_FORM_sec_offset", "DW_FORM_strp_sup", "DW_FORM_GNU_ref_alt",
                "DW_FORM_GNU_strp_alt"}
UlebForms == {"DW_FORM_udata", "DW_FORM_ref_udata", "DW_FORM_strx", "DW_FORM_addrx", "DW_FORM_loclistx", "DW_FORM_rnglistx"}
SlebForms == {"DW_FORM_sdata"}
BlockForms == {"DW_FORM_block1", "DW_FORM_block2", "DW_FORM_block4", "DW_FORM_block", "DW_FORM_exprloc"}
NoBytes == {"DW_FORM_flag_present", "DW_FORM_implicit_const"}

\* width of a fixed-size form in this context, 0 for variable ones
FixedWidth(form, ctx) ==
  CASE form \in Fixed1 -> 1 [] form \in Fixed2 -> 2 [] form \in Fixed3 -> 3 [] form \in Fixed4 -> 4 [] form \in Fixed8 -> 8
    [] form = "DW_FORM_data16" -> 16
    [] form = "DW_FORM_addr" -> ctx.asz
    [] form \in OffsetForms -> OffSize(ctx)
    \* DWARF2 7.5.4: DW_FORM_ref_addr has the size of an address; DWARF3+: of an offset
    [] form = "DW_FORM_ref_addr" -> IF ctx.ver = 2 THEN ctx.asz ELSE OffSize(ctx)
    [] OTHER -> 0

RECURSIVE EncForm(_, _)
EncForm(a, ctx) ==
  LET form == a.form IN
  CASE form = "DW_FORM_data16" -> a.v.b
    [] FixedWidth(form, ctx) > 0 -> Fix(a.v, FixedWidth(form, ctx), ctx.le)
    [] form \in UlebForms \cup SlebForms -> a.v.b
    [] form = "DW_FORM_string" -> a.v.b \o <<0>>
    [] form = "DW_FORM_block1" -> <<Len(a.v.b)>> \o a.v.b
    [] form = "DW_FORM_block2" -> Fix(N(Len(a.v.b)), 2, ctx.le) \o a.v.b
    [] form = "DW_FORM_block4" -> Fix(N(Len(a.v.b)), 4, ctx.le) \o a.v.b
    [] form \in {"DW_FORM_block", "DW_FORM_exprloc"} -> UlebOfNat(Len(a.v.b)) \o a.v.b
    [] form \in NoBytes -> <<>>
    [] form = "DW_FORM_indirect" -> UlebOfNat(FormCode[a.inner.form]) \o EncForm(a.inner, ctx)

\* the reader's way: length of the value of `form` that starts at index `at` (1-based) of bs
RECURSIVE FormLen(_, _, _, _)
FormLen(form, bs, at, ctx) ==
  LET rest == SubSeq(bs, at, Len(bs)) IN
  CASE FixedWidth(form, ctx) > 0 -> FixedWidth(form, ctx)
    [] form \in UlebForms \cup SlebForms -> LebDec(rest, FALSE).used
    [] form = "DW_FORM_string" -> CStrAt(rest, 0).used
    [] form = "DW_FORM_block1" -> 1 + rest[1]
    [] form = "DW_FORM_block2" -> 2 + SmallDec(SubSeq(rest, 1, 2), ctx.le, FALSE)
    \* block lengths generated here stay below 2^24: three significant bytes
    [] form = "DW_FORM_block4" -> 4 + (IF ctx.le THEN SmallDec(SubSeq(rest, 1, 3), TRUE, FALSE) ELSE SmallDec(SubSeq(rest, 2, 4), FALSE, FALSE))
    [] form \in {"DW_FORM_block", "DW_FORM_exprloc"} ->
         LET d == LebDec(rest, FALSE) IN d.used + GroupsNat(d.val.g)
    [] form \in NoBytes -> 0
    [] form = "DW_FORM_indirect" ->
         LET d == LebDec(rest, FALSE) IN d.used + FormLen(FormOfCode(GroupsNat(d.val.g)), bs, at + d.used, ctx)

\* final form and indirection chain length of an attribute value
RECURSIVE FinalAttr(_)
FinalAttr(a) == IF a.form = "DW_FORM_indirect" THEN FinalAttr(a.inner) ELSE a
RECURSIVE IndirLen(_)
IndirLen(a) == IF a.form = "DW_FORM_indirect" THEN 1 + IndirLen(a.inner) ELSE 0

\* raw value as the standard defines the form's content, tagged by kind for the comparator:
\*   [k |-> "num", v |-> N/W] | [k |-> "leb", g, s] | [k |-> "bytes", b] | [k |-> "none"]
RawOf(a, ctx) ==
  LET f == FinalAttr(a)   form == f.form IN
  CASE form = "DW_FORM_data16" -> [k |-> "bytes", b |-> f.v.b]
    [] FixedWidth(form, ctx) > 0 -> [k |-> "num", v |-> f.v]
    [] form \in UlebForms -> LET d == LebDec(f.v.b, FALSE) IN [k |-> "leb", g |-> d.val.g, s |-> FALSE]
    [] form \in SlebForms -> LET d == LebDec(f.v.b, TRUE) IN [k |-> "leb", g |-> d.val.g, s |-> TRUE]
    [] form = "DW_FORM_string" \/ form \in BlockForms -> [k |-> "bytes", b |-> f.v.b]
    [] form = "DW_FORM_flag_present" -> [k |-> "none"]
    [] form = "DW_FORM_implicit_const" -> LET d == LebDec(f.v.b, TRUE) IN [k |-> "leb", g |-> d.val.g, s |-> TRUE]
=============================================================================
