--------------------------- MODULE ReadelfEnvelope ---------------------------
(***************************************************************************)
(* C18, cross-writer sweep: the ELF container of the DWARF-level writers.  *)
(*                                                                         *)
(* The DWARF writers of the other properties (LineProgram, DieTree, CFI,   *)
(* LocRange, Lookup) emit section CONTENTS (.debug_line, .debug_info, ...) *)
(* because their drivers hand the blobs to the library directly.  readelf  *)
(* reads files; this module puts the emitted contents - unchanged, they    *)
(* arrive as a list of <<section key, bytes>> per case in the file         *)
(* IOEnv.SECS - into the gABI container with the specification's own ELF   *)
(* writer (Elf!Chunks): an ET_EXEC image of the case's class / byte order  *)
(* with a .text section, one PT_LOAD segment and one SHT_PROGBITS section  *)
(* per blob under the name DWARF5 (section 7, appendix B figure B.1 / LSB   *)
(* for .eh_frame) gives it.  Python transports bytes, nothing else.        *)
(*                                                                         *)
(* Checked by TLC: Carried (every blob is found again, byte for byte, at   *)
(* the sh_offset / sh_size of the section header that names it - through   *)
(* the reader's way to the headers: e_shoff, e_shentsize, e_shstrndx, the  *)
(* name table), ChunksDisjoint, ReaderRecoversCounts.                      *)
(***************************************************************************)
EXTENDS Elf, Json, CSV, IOUtils

Cases == ndJsonDeserialize(IOEnv.SECS)

VARIABLES grp, item                   \* item = 0: nothing chosen yet; grp spreads the cases over TLC's workers
vars == <<grp, item>>

SecName == [info |-> <<46, 100, 101, 98, 117, 103, 95, 105, 110, 102, 111>>,
            abbrev |-> <<46, 100, 101, 98, 117, 103, 95, 97, 98, 98, 114, 101, 118>>,
            line |-> <<46, 100, 101, 98, 117, 103, 95, 108, 105, 110, 101>>,
            line_str |-> <<46, 100, 101, 98, 117, 103, 95, 108, 105, 110, 101, 95, 115, 116, 114>>,
            str |-> <<46, 100, 101, 98, 117, 103, 95, 115, 116, 114>>,
            str_offsets |-> <<46, 100, 101, 98, 117, 103, 95, 115, 116, 114, 95, 111, 102, 102, 115, 101, 116, 115>>,
            addr |-> <<46, 100, 101, 98, 117, 103, 95, 97, 100, 100, 114>>,
            frame |-> <<46, 100, 101, 98, 117, 103, 95, 102, 114, 97, 109, 101>>,
            eh_frame |-> <<46, 101, 104, 95, 102, 114, 97, 109, 101>>,
            loc |-> <<46, 100, 101, 98, 117, 103, 95, 108, 111, 99>>,
            ranges |-> <<46, 100, 101, 98, 117, 103, 95, 114, 97, 110, 103, 101, 115>>,
            loclists |-> <<46, 100, 101, 98, 117, 103, 95, 108, 111, 99, 108, 105, 115, 116, 115>>,
            rnglists |-> <<46, 100, 101, 98, 117, 103, 95, 114, 110, 103, 108, 105, 115, 116, 115>>,
            aranges |-> <<46, 100, 101, 98, 117, 103, 95, 97, 114, 97, 110, 103, 101, 115>>,
            pubnames |-> <<46, 100, 101, 98, 117, 103, 95, 112, 117, 98, 110, 97, 109, 101, 115>>,
            pubtypes |-> <<46, 100, 101, 98, 117, 103, 95, 112, 117, 98, 116, 121, 112, 101, 115>>,
            types |-> <<46, 100, 101, 98, 117, 103, 95, 116, 121, 112, 101, 115>>]

TextSec == Sec(<<46, 116, 101, 120, 116>>, N(1), N(6), N(4198400), <<144, 144, 144, 195>>, N(4), Z, Z, N(16), Z)
Load == Seg(N(1), N(5), Z, N(4194304), N(4194304), N(256), N(256), N(4096))
\* a blob: SHT_PROGBITS, no flags, address 0 (debugging sections are not loaded); .eh_frame is allocated at the address the
\* writer assumed (pc-relative pointer encodings refer to it)
\* (the address arrives as little-endian base-256 digits of the class's width; <<>> = not allocated)
BlobSec(s) == IF s.addr = <<>> THEN Sec(SecName[s.k], N(1), Z, Z, s.b, N(Len(s.b)), Z, Z, N(1), Z)
              ELSE Sec(SecName[s.k], N(1), N(2), W(s.addr), s.b, N(Len(s.b)), Z, Z, N(1), Z)
\* c.stub: the case has call-frame information only; the clone dumps frames only of files that have debugging information, so a
\* minimal .debug_info / .debug_abbrev is added: one DWARF4 unit (7.5.1.1: unit_length, version, debug_abbrev_offset, address_size)
\* whose only entry is an attribute-less DW_TAG_compile_unit (abbreviation 1: tag 0x11, no children, no attributes)
StubInfo(c) == Fix(N(8), 4, c.le) \o Fix(N(4), 2, c.le) \o Fix(Z, 4, c.le) \o <<c.cls \div 8, 1>>
StubAbbrev == <<1, 17, 0, 0, 0, 0>>
StubSecs(c) == IF c.stub THEN <<Sec(SecName.info, N(1), Z, Z, StubInfo(c), N(12), Z, Z, N(1), Z),
                                Sec(SecName.abbrev, N(1), Z, Z, StubAbbrev, N(6), Z, Z, N(1), Z)>>
               ELSE <<>>
Container(c) ==
  [Im0 EXCEPT !.cls = c.cls, !.le = c.le, !.machine = c.machine, !.etype = N(2),
              !.secs = <<TextSec>> \o [i \in 1..Len(c.secs) |-> BlobSec(c.secs[i])] \o StubSecs(c), !.segs = <<Load>>]

\* (the successors of one state are computed by one worker: Groups initial states, each choosing among its share of the cases)
Groups == 8
Init == item = 0 /\ grp \in 0..(Groups - 1)
Next == /\ item = 0 /\ item' \in {i \in 1..Len(Cases) : (i % Groups) = grp} /\ UNCHANGED grp
Spec == Init /\ [][Next]_vars

Piece == 1200
RECURSIVE SplitChunk(_)
SplitChunk(c) == IF Len(c[2]) <= Piece \/ c[3] # 1 THEN <<c>>
                 ELSE <<<<c[1], SubSeq(c[2], 1, Piece), 1>>>> \o SplitChunk(<<c[1] + Piece, SubSeq(c[2], Piece + 1, Len(c[2])), 1>>)
Emit ==
  item > 0 =>
  LET c == Cases[item]
      cs == Chunks(Container(c))
      pcs == Flat([i \in 1..Len(cs) |-> SplitChunk(cs[i])])
      total == SumR([i \in 1..Len(cs) |-> Len(cs[i][2])], 1, Len(cs))
  IN IF total <= 1400                  \* one line per case while it stays below the 8 KB that are appended atomically
     THEN CSVWrite("%1$s", <<ToJson([k |-> c.id, n |-> 1, i |-> 1, tag |-> c.tag, vs |-> cs])>>, IOEnv.OUT)
     ELSE \A i \in 1..Len(pcs) : CSVWrite("%1$s", <<ToJson([k |-> c.id, n |-> Len(pcs), i |-> i, tag |-> c.tag, v |-> pcs[i]])>>, IOEnv.OUT)

(* ------------------------------ properties ------------------------------ *)
Carried ==
  item > 0 =>
  LET c == Cases[item]
      im == Container(c)
      cs == Chunks(im)
      v == View(im)
  IN /\ ChunksDisjoint(im) /\ ReaderRecoversCounts(im)
     /\ \A i \in 1..Len(c.secs) :
          \* the section header named SecName[k], as a reader finds it
          LET hits == {x \in 1..Len(v.sections) : v.sections[x].name = SecName[c.secs[i].k]}
          IN /\ Cardinality(hits) = 1
             /\ LET hd == v.sections[CHOOSE x \in hits : TRUE].hdr
                IN /\ hd.sh_size = N(Len(c.secs[i].b)) /\ hd.sh_type = N(1)
                   \* the bytes written at sh_offset are the blob (chunks are disjoint: at most one starts there)
                   /\ \E x \in 1..Len(cs) : cs[x][1] = hd.sh_offset.n /\ cs[x][3] = 1 /\ cs[x][2] = c.secs[i].b
=============================================================================
