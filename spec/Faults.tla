------------------------------- MODULE Faults -------------------------------
(***************************************************************************)
(* C19 - Opening arbitrary bytes fails only with ELFError; header           *)
(* enumeration terminates.  Level: fault enumeration.                      *)
(*                                                                         *)
(* (a) FAULT PLAN machine.  State [sd : seed image, fs : Seq(fault)].       *)
(*     Seeds are valid ELF files: small corpus files handed in as raw bytes *)
(*     (IOEnv.SEEDS) and four images synthesised here from Elf!Image (one   *)
(*     per class / byte order) with .dynsym/.hash/.gnu.hash/.gnu.version*,  *)
(*     .note and .dynamic content.  The specification itself locates the    *)
(*     records of a seed - it reads the ELF header, the section and program *)
(*     header tables, dynamic entries, note headers, hash headers and the   *)
(*     version chains with the layout data of Elf.tla (gABI ch.4/5, LSB     *)
(*     "Symbol Versioning") - so that a fault is emitted as a generic byte  *)
(*     patch [offset, bytes]; the Python side never learns a field offset.  *)
(*     Actions:                                                            *)
(*       Truncate(n)        every length up to TruncMax of the TruncAll     *)
(*                          seeds; every header-table boundary of all seeds *)
(*       Substitute(pos, v) pos in the 64-byte header region,               *)
(*                          v in {0x00, 0xff, +1, ^0x80}                    *)
(*       CorruptField(i)    i indexes the seed's single-fault table SF:     *)
(*                          record x field x value class in {zero, one,     *)
(*                          entm1 (entry size - 1), fsize, fsize1 (file     *)
(*                          size + 1), b31 2^31, m32 2^32-1, b63 2^63, m64  *)
(*                          2^64-1}; a class that does not fit the field is *)
(*                          fitted (top bit / all ones of the field) and    *)
(*                          classes that give equal bytes are merged        *)
(*     composed up to MaxFaults in one canonical order (the faults of a     *)
(*     plan commute: they touch disjoint bytes; truncation comes last).     *)
(*     Single faults: every class of every field of the key records (quick: *)
(*     ELF header, section header 0, the name table's header, the first     *)
(*     header of every role, every content record; thorough: every record). *)
(*     Pairs and triples are restricted to fields that one reader loop      *)
(*     combines (`groups`: "ctor" = the records the constructor reads; a    *)
(*     section / segment header with the first record of its content) and   *)
(*     to the classes {zero, m32, b63} (thorough: + entm1, fsize); triples  *)
(*     to the constructor group; see PairOK / TripleOK.  This is the        *)
(*     `fault_sequences` quantifier and TLC enumerates it.                  *)
(*     Every emitted plan carries its byte patches, the verdict of (b) and, *)
(*     for a Substitute fault inside an ELF header field, the field and the *)
(*     abstract class of the value it leaves there (AClass) - the same      *)
(*     vocabulary the walker witnesses of FaultWalk.tla use, so that the    *)
(*     driver can name the loop a runaway plan drives (set inclusion only). *)
(* (b) CONSTRUCTOR OUTCOME model: Model(B, L) - the decision procedure of   *)
(*     opening a file as the gABI implies it (magic, EI_CLASS, EI_DATA, ELF *)
(*     header present, name-table index incl. the SHN_XINDEX escape, the    *)
(*     bounds of the name table's header, its compression header when       *)
(*     SHF_COMPRESSED) as a function to {OK, ELFError} with the deciding    *)
(*     step and the magnitude class of the deciding value.  Used for DRIFT  *)
(*     reporting and for violation tags only: the property asserts          *)
(*     membership in {success, ELFError}, never which.                     *)
(* (c) WALKER TERMINATION lives in FaultWalk.tla (no ELF container needed). *)
(*                                                                         *)
(* Checked by TLC on the specification itself (ASSUME, evaluated once):     *)
(*   LocateRoundTrip  the records located in the bytes of each synthesised  *)
(*                    image are exactly the ones the writer placed (tables, *)
(*                    counts, offsets, roles)                               *)
(*   ModelAcceptsSeeds the outcome model says OK on every unmodified seed   *)
(* and as invariants over all plans: PatchesInFile, PatchesDisjoint,        *)
(* PlanChangesSeed (no plan is a no-op), TypeOK.                           *)
(*                                                                         *)
(* Not modelled: the content of the strings a name resolves to; DWARF;      *)
(* relocation, symbol and string content.  Where the gABI says "no section  *)
(* header table" (e_shoff = 0) the model answers OK without looking at a    *)
(* name table; a reader that looks anyway is reported as drift.             *)
(***************************************************************************)
EXTENDS Elf, TLC, Json, CSV, IOUtils

CONSTANTS MaxFaults,     \* 1..3
          Tier,          \* "quick" | "thorough"
          TruncMax       \* longest exhaustively truncated prefix (4096)

VARIABLES sd, fs
vars == <<sd, fs>>

(* ------------------------- record layouts as data ---------------------- *)
\* LSB Core "Symbol Versioning" (the same transcription as in Versions.tla)
VerdefF == << <<"vd_version", "half">>, <<"vd_flags", "half">>, <<"vd_ndx", "half">>, <<"vd_cnt", "half">>,
              <<"vd_hash", "word">>, <<"vd_aux", "word">>, <<"vd_next", "word">> >>
VerdauxF == << <<"vda_name", "word">>, <<"vda_next", "word">> >>
VerneedF == << <<"vn_version", "half">>, <<"vn_cnt", "half">>, <<"vn_file", "word">>, <<"vn_aux", "word">>,
               <<"vn_next", "word">> >>
VernauxF == << <<"vna_hash", "word">>, <<"vna_flags", "half">>, <<"vna_other", "half">>, <<"vna_name", "word">>,
               <<"vna_next", "word">> >>
\* gABI ch.5 "Hash Table" and the GNU hash section (cf. HashWalk.tla): header words
HashF == << <<"nbucket", "word">>, <<"nchain", "word">> >>
GnuHashF == << <<"nbuckets", "word">>, <<"symoffset", "word">>, <<"bloom_size", "word">>, <<"bloom_shift", "word">> >>
WordF == << <<"bucket", "word">> >>
ChainF == << <<"chain", "word">> >>

LayOf(kind, cls) ==
  CASE kind = "ehdr" -> EhdrF [] kind = "shdr" -> ShdrF [] kind = "phdr" -> PhdrF(cls) [] kind = "dyn" -> DynF
    [] kind = "nhdr" -> NhdrF [] kind = "hash" -> HashF [] kind = "gnuhash" -> GnuHashF [] kind = "gnubucket" -> WordF [] kind = "gnuchain" -> ChainF
    [] kind = "verdef" -> VerdefF [] kind = "verdaux" -> VerdauxF [] kind = "verneed" -> VerneedF [] kind = "vernaux" -> VernauxF
RECURSIVE OffIn(_, _, _)
OffIn(F, cls, i) == IF i = 1 THEN 0 ELSE OffIn(F, cls, i - 1) + Width(F[i - 1][2], cls)
FieldIx(F, name) == CHOOSE i \in 1..Len(F) : F[i][1] = name
FOff(F, cls, name) == OffIn(F, cls, FieldIx(F, name))
FWid(F, cls, name) == Width(F[FieldIx(F, name)][2], cls)

(* ------------------------------ reading -------------------------------- *)
\* B is a byte accessor (0-based), so that the same reader serves seeds, patched views and random strings
Far == 1073741823                      \* a value >= 2^30: beyond every file of this check
Dg(B(_), off, w, le) == IF le THEN [i \in 1..w |-> B(off + i - 1)] ELSE [i \in 1..w |-> B(off + w - i)]   \* LE digits
DNum(d) == IF (\A i \in 5..Len(d) : d[i] = 0) /\ (Len(d) < 4 \/ d[4] < 64) THEN NatOf(SubSeq(d, 1, IF Len(d) < 4 THEN Len(d) ELSE 4)) ELSE Far
DZeroP(d) == \A i \in 1..Len(d) : d[i] = 0
Num(B(_), off, w, le) == DNum(Dg(B, off, w, le))
FD(B(_), base, F, cls, le, name) == Dg(B, base + FOff(F, cls, name), FWid(F, cls, name), le)
FN(B(_), base, F, cls, le, name) == DNum(FD(B, base, F, cls, le, name))

(* --------------------------- synthesised seeds ------------------------- *)
Str(s) == s
DynStrData == <<0, 108, 105, 98, 120, 46, 115, 111, 0, 86, 49, 0, 86, 50, 0>>          \* "\0libx.so\0V1\0V2\0"
DotDynstr == <<46, 100, 121, 110, 115, 116, 114>>
DotDynsym == <<46, 100, 121, 110, 115, 121, 109>>
DotHash == <<46, 104, 97, 115, 104>>
DotGnuHash == <<46, 103, 110, 117, 46, 104, 97, 115, 104>>
DotGnuVersion == <<46, 103, 110, 117, 46, 118, 101, 114, 115, 105, 111, 110>>
DotGnuVersionD == DotGnuVersion \o <<95, 100>>
DotGnuVersionR == DotGnuVersion \o <<95, 114>>
DotNoteX == <<46, 110, 111, 116, 101, 46, 120>>
DotDynamic == <<46, 100, 121, 110, 97, 109, 105, 99>>
DotSymtabX == <<46, 115, 121, 109, 116, 97, 98>>
DotRelaX == <<46, 114, 101, 108, 97, 46, 120>>
DotShndx == <<46, 115, 104, 110, 100, 120>>
DotGroup == <<46, 103, 114, 111, 117, 112>>
DotSyminfo == <<46, 115, 121, 109, 105, 110, 102, 111>>
W4(a, b, c, d) == W(<<a, b, c, d>>)
SymRec(name, info, shndx) == [st_name |-> N(name), st_value |-> Z, st_size |-> Z, st_info |-> N(info), st_other |-> Z, st_shndx |-> N(shndx)]
SynSyms(cls, le) == Ser(SymF(cls), SymRec(0, 0, 0), cls, le) \o Ser(SymF(cls), SymRec(1, 18, 1), cls, le)
Words(ws, le) == Flat([i \in 1..Len(ws) |-> Fix(ws[i], 4, le)])
SynHash(le) == Words(<<N(1), N(2), N(1), Z, Z>>, le)
SynGnuHash(cls, le) == Words(<<N(1), N(1), N(1), Z>>, le) \o Rep(255, cls \div 8) \o Words(<<N(1), N(1)>>, le)
SynVersym(le) == Fix(Z, 2, le) \o Fix(N(2), 2, le)
SynVerdef(le) == Ser(VerdefF, [vd_version |-> N(1), vd_flags |-> Z, vd_ndx |-> N(2), vd_cnt |-> N(1), vd_hash |-> N(1234), vd_aux |-> N(20), vd_next |-> Z], 32, le)
                 \o Ser(VerdauxF, [vda_name |-> N(9), vda_next |-> Z], 32, le)
SynVerneed(le) ==
  Ser(VerneedF, [vn_version |-> N(1), vn_cnt |-> N(1), vn_file |-> N(1), vn_aux |-> N(16), vn_next |-> N(32)], 32, le)
  \o Ser(VernauxF, [vna_hash |-> N(77), vna_flags |-> Z, vna_other |-> N(3), vna_name |-> N(12), vna_next |-> Z], 32, le)
  \o Ser(VerneedF, [vn_version |-> N(1), vn_cnt |-> N(1), vn_file |-> N(1), vn_aux |-> N(16), vn_next |-> Z], 32, le)
  \o Ser(VernauxF, [vna_hash |-> N(78), vna_flags |-> Z, vna_other |-> N(4), vna_name |-> N(9), vna_next |-> Z], 32, le)
GnuOwner == <<71, 78, 85, 0>>
SynNotes(le) ==
  Ser(NhdrF, [n_namesz |-> N(4), n_descsz |-> N(4), n_type |-> N(3)], 32, le) \o GnuOwner \o <<222, 173, 190, 239>>
  \o Ser(NhdrF, [n_namesz |-> N(4), n_descsz |-> N(16), n_type |-> N(1)], 32, le) \o GnuOwner \o Words(<<Z, N(3), N(2), Z>>, le)
DynEnt(tag, val, cls, le) == Ser(DynF, [d_tag |-> tag, d_val |-> val], cls, le)
\* DT_NEEDED 1, DT_HASH 4, DT_STRTAB 5, DT_SYMTAB 6, DT_STRSZ 10, DT_SYMENT 11, DT_GNU_HASH 0x6ffffef5, DT_NULL 0 (gABI figure 5-10)
SynDyn(cls, le, o) ==
  DynEnt(N(1), N(1), cls, le) \o DynEnt(N(4), N(o[3]), cls, le) \o DynEnt(W4(245, 254, 255, 111), N(o[4]), cls, le)
  \o DynEnt(N(5), N(o[1]), cls, le) \o DynEnt(N(6), N(o[2]), cls, le) \o DynEnt(N(10), N(Len(DynStrData)), cls, le)
  \o DynEnt(N(11), N(SizeOf(SymF(cls), cls)), cls, le) \o DynEnt(Z, Z, cls, le)
SymSz(cls) == SizeOf(SymF(cls), cls)
DynSz(cls) == SizeOf(DynF, cls)
\* sections 1..14 (index = position: the name table comes last); `o` = file offsets of the sections (0 while sizing).
\* 11..14: one section of every further kind whose sh_link / sh_info names another section (gABI figure 4-14: SHT_RELA
\* -> symbol table + section the relocations apply to, SHT_SYMTAB_SHNDX -> symbol table, SHT_GROUP -> symbol table;
\* Solaris syminfo -> symbol table + dynamic section)
SynSecs(cls, le, o) ==
  LET A(k) == N(o[k]) IN
  << Sec(DotDynstr, N(3), N(2), A(1), DynStrData, N(Len(DynStrData)), Z, Z, N(1), Z),
     Sec(DotDynsym, N(11), N(2), A(2), SynSyms(cls, le), N(2 * SymSz(cls)), N(1), N(1), N(8), N(SymSz(cls))),
     Sec(DotHash, N(5), N(2), A(3), SynHash(le), N(20), N(2), Z, N(4), N(4)),
     Sec(DotGnuHash, W4(246, 255, 255, 111), N(2), A(4), SynGnuHash(cls, le), N(Len(SynGnuHash(cls, le))), N(2), Z, N(8), Z),
     Sec(DotGnuVersion, W4(255, 255, 255, 111), N(2), A(5), SynVersym(le), N(4), N(2), Z, N(2), N(2)),
     Sec(DotGnuVersionD, W4(253, 255, 255, 111), N(2), A(6), SynVerdef(le), N(28), N(1), N(1), N(4), Z),
     Sec(DotGnuVersionR, W4(254, 255, 255, 111), N(2), A(7), SynVerneed(le), N(64), N(1), N(2), N(4), Z),
     Sec(DotNoteX, N(7), N(2), A(8), SynNotes(le), N(Len(SynNotes(le))), Z, Z, N(4), Z),
     Sec(DotDynamic, N(6), N(3), A(9), SynDyn(cls, le, o), N(8 * DynSz(cls)), N(1), Z, N(8), N(DynSz(cls))),
     Sec(DotSymtabX, N(2), Z, Z, SynSyms(cls, le), N(2 * SymSz(cls)), N(1), N(1), N(8), N(SymSz(cls))),
     Sec(DotRelaX, N(4), Z, Z, Rep(0, SizeOf(RelaF, cls)), N(SizeOf(RelaF, cls)), N(2), N(8), N(8), N(SizeOf(RelaF, cls))),
     Sec(DotShndx, N(18), Z, Z, Words(<<Z, Z>>, le), N(8), N(10), Z, N(4), N(4)),
     Sec(DotGroup, N(17), Z, Z, Words(<<N(1), N(8)>>, le), N(8), N(10), N(1), N(4), N(4)),
     Sec(DotSyminfo, W4(252, 255, 255, 111), Z, Z, Rep(0, 8), N(8), N(2), N(9), N(4), N(4)) >>
NSyn == 14
ZeroOffs == [k \in 1..NSyn |-> 0]
SynIm(cls, le) ==
  LET machine == IF cls = 64 THEN (IF le THEN 62 ELSE 21) ELSE (IF le THEN 3 ELSE 8)
      dummy == Seg(Z, Z, Z, Z, Z, Z, Z, Z)
      im1 == [Im0 EXCEPT !.cls = cls, !.le = le, !.machine = machine, !.secs = SynSecs(cls, le, ZeroOffs), !.segs = <<dummy, dummy, dummy>>]
      o == [k \in 1..NSyn |-> SecOff(im1, k)]
      fsz == FileSize(im1)
  IN [im1 EXCEPT !.secs = SynSecs(cls, le, o),
                 !.segs = << Seg(N(1), N(5), Z, Z, Z, N(fsz), N(fsz), N(4096)),                                   \* PT_LOAD: the whole file at address 0
                             Seg(N(2), N(6), N(o[9]), N(o[9]), N(o[9]), N(8 * DynSz(cls)), N(8 * DynSz(cls)), N(8)),   \* PT_DYNAMIC
                             Seg(N(4), N(4), N(o[8]), N(o[8]), N(o[8]), N(Len(SynNotes(le))), N(Len(SynNotes(le))), N(4)) >>]   \* PT_NOTE
\* the bytes of an image (the sparse chunks of Elf!Chunks laid out; later chunks never overlap earlier ones)
BytesOf(im) ==
  LET cs == Chunks(im)   size == FileSizeOf(cs) IN
  [i \in 1..size |->
     LET hit == {c \in 1..Len(cs) : cs[c][1] < i /\ i <= cs[c][1] + Len(cs[c][2]) * cs[c][3]} IN
     IF hit = {} THEN 0 ELSE LET c == CHOOSE c \in hit : TRUE IN cs[c][2][((i - 1 - cs[c][1]) % Len(cs[c][2])) + 1]]
SynCombos == <<<<32, TRUE>>, <<32, FALSE>>, <<64, TRUE>>, <<64, FALSE>>>>
SynName(c) == "synth" \o (IF c[1] = 32 THEN "32" ELSE "64") \o (IF c[2] THEN "le" ELSE "be")
SynImages == TLCEval([k \in 1..4 |-> SynIm(SynCombos[k][1], SynCombos[k][2])])
Synth == TLCEval([k \in 1..4 |-> [id |-> SynName(SynCombos[k]), bytes |-> BytesOf(SynImages[k]), synth |-> TRUE]])

(* -------------------------------- seeds -------------------------------- *)
\* corpus seeds: a JSON array of [id, bytes]; absent -> only the synthesised ones
Corpus == TLCEval(IF "SEEDS" \in DOMAIN IOEnv /\ IOEnv.SEEDS # ""
                  THEN LET js == JsonDeserialize(IOEnv.SEEDS) IN [k \in 1..Len(js) |-> [id |-> js[k].id, bytes |-> js[k].bytes, synth |-> FALSE]]
                  ELSE <<>>)
Seeds == TLCEval(Synth \o Corpus)
NSeeds == Len(Seeds)

(* ------------------------- locating the records ------------------------ *)
\* a record: [kind (layout), role (what it is for), off (file offset), idx (index among the records of its role)]
Rec(kind, role, off) == [kind |-> kind, role |-> role, off |-> off]
ShtRole(d) ==   \* gABI figure 4-9 and the GNU / Sun additions (numbers as LE digits of the word)
  CASE d = <<0, 0, 0, 0>> -> "null" [] d = <<1, 0, 0, 0>> -> "progbits" [] d = <<2, 0, 0, 0>> -> "symtab" [] d = <<3, 0, 0, 0>> -> "strtab"
    [] d = <<4, 0, 0, 0>> -> "rela" [] d = <<5, 0, 0, 0>> -> "hash" [] d = <<6, 0, 0, 0>> -> "dynamic" [] d = <<7, 0, 0, 0>> -> "note"
    [] d = <<8, 0, 0, 0>> -> "nobits" [] d = <<9, 0, 0, 0>> -> "rel" [] d = <<11, 0, 0, 0>> -> "dynsym"
    [] d = <<17, 0, 0, 0>> -> "group" [] d = <<18, 0, 0, 0>> -> "symtab_shndx"
    [] d = <<243, 255, 255, 111>> -> "ldynsym" [] d = <<252, 255, 255, 111>> -> "syminfo"      \* SHT_SUNW_LDYNSYM, SHT_SUNW_syminfo
    [] d = <<246, 255, 255, 111>> -> "gnu_hash" [] d = <<253, 255, 255, 111>> -> "verdef" [] d = <<254, 255, 255, 111>> -> "verneed"
    [] d = <<255, 255, 255, 111>> -> "versym" [] OTHER -> "other"
PtRole(d) == CASE d = <<1, 0, 0, 0>> -> "load" [] d = <<2, 0, 0, 0>> -> "dynamic" [] d = <<3, 0, 0, 0>> -> "interp" [] d = <<4, 0, 0, 0>> -> "note"
               [] d = <<6, 0, 0, 0>> -> "phdr" [] OTHER -> "other"

MinN(a, b) == IF a < b THEN a ELSE b
\* everything below is evaluated once per seed (SeedTab)
Locate(bs) ==
  LET B(i) == bs[i + 1]
      size == Len(bs)
      cls == IF bs[5] = 1 THEN 32 ELSE 64
      le == bs[6] = 1
      E(name) == FN(B, 16, EhdrF, cls, le, name)
      shoff == E("e_shoff")   shent == E("e_shentsize")   shnum == IF shoff = 0 THEN 0 ELSE E("e_shnum")   strndx == E("e_shstrndx")
      phoff == E("e_phoff")   phent == E("e_phentsize")   phnum == E("e_phnum")
      ShAt(i) == shoff + i * shent
      PhAt(j) == phoff + j * phent
      ShFld(i, name) == FN(B, ShAt(i), ShdrF, cls, le, name)
      PhFld(j, name) == FN(B, PhAt(j), PhdrF(cls), cls, le, name)
      shrole == [i \in 0..(shnum - 1) |-> IF i = 0 THEN "null0" ELSE IF i = strndx THEN "shstrtab" ELSE ShtRole(FD(B, ShAt(i), ShdrF, cls, le, "sh_type"))]
      phrole == [j \in 0..(phnum - 1) |-> PtRole(FD(B, PhAt(j), PhdrF(cls), cls, le, "p_type"))]
      shdrs == [i \in 1..shnum |-> Rec("shdr", "shdr:" \o shrole[i - 1], ShAt(i - 1))]
      phdrs == [j \in 1..phnum |-> Rec("phdr", "phdr:" \o phrole[j - 1], PhAt(j - 1))]
      \* content extents <<offset, length, count>> by role, sections first, then segments (the same bytes are taken once)
      SecExt(role) == [i \in 1..shnum |-> IF shrole[i - 1] = role THEN <<ShFld(i - 1, "sh_offset"), ShFld(i - 1, "sh_size"), ShFld(i - 1, "sh_info")>> ELSE <<0, 0, 0>>]
      SegExt(role) == [j \in 1..phnum |-> IF phrole[j - 1] = role THEN <<PhFld(j - 1, "p_offset"), PhFld(j - 1, "p_filesz"), 0>> ELSE <<0, 0, 0>>]
      Exts(role, withsegs) == LET all == SecExt(role) \o (IF withsegs THEN SegExt(role) ELSE <<>>)
                                  ok == SelectSeq(all, LAMBDA e : e[2] > 0 /\ e[1] + e[2] <= size) IN
                              \* drop an extent that starts where an earlier one starts
                              [k \in {k \in 1..Len(ok) : \A m \in 1..(k - 1) : ok[m][1] # ok[k][1]} |-> ok[k]]
      ExtSeq(role, withsegs) == LET f == Exts(role, withsegs)   ks == DOMAIN f IN
                                [m \in 1..Cardinality(ks) |-> f[CHOOSE k \in ks : Cardinality({x \in ks : x < k}) = m - 1]]
      \* dynamic entries up to and including DT_NULL (at most 48)
      dynsz == SizeOf(DynF, cls)
      DynOf(e) == LET RECURSIVE Go(_, _)
                      Go(off, k) == IF k = 0 \/ off + dynsz > e[1] + e[2] THEN <<>>
                                    ELSE <<Rec("dyn", "dyn", off)>> \o (IF DZeroP(FD(B, off, DynF, cls, le, "d_tag")) THEN <<>> ELSE Go(off + dynsz, k - 1))
                  IN Go(e[1], 48)
      \* note headers (NoteWalk arithmetic: 12-byte header, name and descriptor padded to 4)
      P4(x) == ((x + 3) \div 4) * 4
      NotesOf(e) == LET RECURSIVE Go(_, _)
                        Go(off, k) == IF k = 0 \/ off + 12 > e[1] + e[2] THEN <<>>
                                      ELSE <<Rec("nhdr", "nhdr", off)>>
                                           \o Go(off + 12 + P4(FN(B, off, NhdrF, cls, le, "n_namesz")) + P4(FN(B, off, NhdrF, cls, le, "n_descsz")), k - 1)
                    IN Go(e[1], 16)
      HashOf(e) == IF e[2] >= 8 THEN <<Rec("hash", "hash", e[1])>> ELSE <<>>
      GnuOf(e) == IF e[2] >= 16
                  THEN <<Rec("gnuhash", "gnuhash", e[1])>>
                       \o (LET bo == e[1] + 16 + FN(B, e[1], GnuHashF, cls, le, "bloom_size") * (cls \div 8) IN
                           IF FN(B, e[1], GnuHashF, cls, le, "nbuckets") >= 1 /\ bo + 4 <= e[1] + e[2] THEN <<Rec("gnubucket", "gnubucket", bo)>> ELSE <<>>)
                       \* the last chain word (the one that carries the end-of-chain bit of the last chain): the last word of the section
                       \o (LET co == e[1] + 16 + FN(B, e[1], GnuHashF, cls, le, "bloom_size") * (cls \div 8) + 4 * FN(B, e[1], GnuHashF, cls, le, "nbuckets") IN
                           IF co + 4 <= e[1] + e[2] THEN <<Rec("gnuchain", "gnuchain", e[1] + e[2] - 4)>> ELSE <<>>)
                  ELSE <<>>
      \* version chains: sh_info entries linked by *_next, each with *_cnt auxiliaries from *_aux linked by *a_next
      VerOf(e, def) ==
        LET EF == IF def THEN VerdefF ELSE VerneedF   AF == IF def THEN VerdauxF ELSE VernauxF
            ek == IF def THEN "verdef" ELSE "verneed"   ak == IF def THEN "verdaux" ELSE "vernaux"
            p == IF def THEN "vd_" ELSE "vn_"   pa == IF def THEN "vda_" ELSE "vna_"
            esz == SizeOf(EF, 32)   asz == SizeOf(AF, 32)
            RECURSIVE Aux(_, _)
            Aux(off, k) == IF k = 0 \/ off + asz > e[1] + e[2] THEN <<>>
                           ELSE <<Rec(ak, ak, off)>> \o (LET nx == FN(B, off, AF, 32, le, pa \o "next") IN IF nx = 0 THEN <<>> ELSE Aux(off + nx, k - 1))
            RECURSIVE Ent(_, _)
            Ent(off, k) == IF k = 0 \/ off + esz > e[1] + e[2] THEN <<>>
                           ELSE <<Rec(ek, ek, off)>>
                                \o Aux(off + FN(B, off, EF, 32, le, p \o "aux"), MinN(FN(B, off, EF, 32, le, p \o "cnt"), 4))
                                \o (LET nx == FN(B, off, EF, 32, le, p \o "next") IN IF nx = 0 THEN <<>> ELSE Ent(off + nx, k - 1))
        IN Ent(e[1], MinN(e[3], 8))
      Over(role, withsegs, Of(_)) == LET es == ExtSeq(role, withsegs) IN Flat([k \in 1..Len(es) |-> Of(es[k])])
      content == Over("dynamic", TRUE, DynOf) \o Over("note", TRUE, NotesOf) \o Over("hash", FALSE, HashOf) \o Over("gnu_hash", FALSE, GnuOf)
                 \o Over("verdef", FALSE, LAMBDA e : VerOf(e, TRUE)) \o Over("verneed", FALSE, LAMBDA e : VerOf(e, FALSE))
      raw == <<Rec("ehdr", "ehdr", 16)>> \o shdrs \o phdrs \o content
  IN [cls |-> cls, le |-> le, size |-> size, shoff |-> shoff, shent |-> shent, shnum |-> shnum, strndx |-> strndx,
      phoff |-> phoff, phent |-> phent, phnum |-> phnum,
      \* per section index: role and current sh_link (for the link faults)
      shroles |-> shrole, shlinks |-> [i \in 0..(shnum - 1) |-> ShFld(i, "sh_link")],
      recs |-> [r \in 1..Len(raw) |-> [kind |-> raw[r].kind, role |-> raw[r].role, off |-> raw[r].off,
                                       idx |-> Cardinality({q \in 1..(r - 1) : raw[q].role = raw[r].role}),
                                       nrec |-> Cardinality({q \in 1..Len(raw) : raw[q].role = raw[r].role})]]]
(* ------------------------------ value classes -------------------------- *)
\* `nent`: 2^width - entry size, i.e. "minus one record" for a reader that adds in the width of the field (a displacement or
\* size that wraps the position round to where it was); only in fields that a reader adds to a position (DispFields).
\* `self` .. `shnum`: the LINK classes, only in the sh_link / sh_info of a section header whose kind makes that field the
\* index of another section (LinkField, gABI figure 4-14 and the GNU / Sun additions): the section's own index; the next /
\* previous section of the same kind (symbol tables of all types are one kind), cyclically; the first / last other section
\* whose own sh_link designates this one; the number of sections (one past the table).  (0 and 2^32-1 are `zero`, `m32`.)
\* One link fault closes a 1-cycle (self) or a 2-cycle (back); two close a 2-cycle between peers (peern + peerp).
ClassSeq == <<"zero", "one", "entm1", "fsize", "fsize1", "b31", "m32", "b63", "m64", "nent", "self", "peern", "peerp", "back", "backl", "shnum">>
LinkClasses == {"self", "peern", "peerp", "back", "backl", "shnum"}
DispFields == {"n_namesz", "n_descsz", "vd_aux", "vd_next", "vda_next", "vn_aux", "vn_next", "vna_next", "sh_offset", "sh_size",
               "p_offset", "p_filesz", "d_val", "e_shoff", "e_phoff"}
SymRoles == {"symtab", "dynsym", "ldynsym"}
LinkFollowed == SymRoles \cup {"dynamic", "versym", "verdef", "verneed", "hash", "gnu_hash", "rel", "rela", "symtab_shndx", "group", "syminfo"}
InfoFollowed == {"rel", "rela", "syminfo"}
LinkField(role, field) == \/ field = "sh_link" /\ \E r \in LinkFollowed : role = "shdr:" \o r
                          \/ field = "sh_info" /\ \E r \in InfoFollowed : role = "shdr:" \o r
LinkKind(r) == IF r \in SymRoles THEN "sym" ELSE r
\* the value of link class c for the header of section i (-1: the seed has no such section)
LinkVal(L, i, c) ==
  LET all == 0..(L.shnum - 1)
      peers == {j \in all : j # i /\ LinkKind(L.shroles[j]) = LinkKind(L.shroles[i])}
      backs == {j \in all : j # i /\ j # 0 /\ L.shlinks[j] = i}
      lo(S) == CHOOSE x \in S : \A y \in S : x <= y
      hi(S) == CHOOSE x \in S : \A y \in S : x >= y IN
  CASE c = "self" -> i
    [] c = "peern" -> (IF peers = {} THEN -1 ELSE IF \E j \in peers : j > i THEN lo({j \in peers : j > i}) ELSE lo(peers))
    [] c = "peerp" -> (IF peers = {} THEN -1 ELSE IF \E j \in peers : j < i THEN hi({j \in peers : j < i}) ELSE hi(peers))
    [] c = "back" -> (IF backs = {} THEN -1 ELSE lo(backs))
    [] c = "backl" -> (IF backs = {} THEN -1 ELSE hi(backs))
    [] c = "shnum" -> L.shnum
TopBit(w) == [i \in 1..w |-> IF i = w THEN 128 ELSE 0]
Ones(w) == [i \in 1..w |-> 255]
\* LE digits of class c in a field of w bytes (w in {1, 2, 4, 8}); a class beyond the field is fitted to it
ClassDigits(c, w, ent, fsize) ==
  CASE c = "zero" -> LEn(0, w) [] c = "one" -> LEn(1, w) [] c = "entm1" -> LEn(IF ent > 0 THEN ent - 1 ELSE 0, w)
    [] c = "fsize" -> LEn(fsize, w) [] c = "fsize1" -> LEn(fsize + 1, w)
    [] c = "b31" -> IF w >= 4 THEN [i \in 1..w |-> IF i = 4 THEN 128 ELSE 0] ELSE TopBit(w)
    [] c = "m32" -> IF w >= 4 THEN [i \in 1..w |-> IF i <= 4 THEN 255 ELSE 0] ELSE Ones(w)
    [] c = "b63" -> TopBit(w)
    [] c = "m64" -> Ones(w)
    [] c = "nent" -> DNeg(LEn(ent, w))
\* the natural entry size behind a field (for class entm1)
EntOf(rec, field, cls) ==
  LET shsz == SizeOf(ShdrF, cls)   phsz == SizeOf(PhdrF(cls), cls) IN
  CASE rec.kind = "ehdr" -> (IF field \in {"e_shoff", "e_shentsize", "e_shnum", "e_shstrndx"} THEN shsz
                             ELSE IF field \in {"e_phoff", "e_phentsize", "e_phnum"} THEN phsz ELSE 16 + SizeOf(EhdrF, cls))
    [] rec.kind = "shdr" -> (CASE rec.role \in {"shdr:symtab", "shdr:dynsym"} -> SizeOf(SymF(cls), cls)
                               [] rec.role = "shdr:dynamic" -> SizeOf(DynF, cls)
                               [] rec.role = "shdr:rela" -> SizeOf(RelaF, cls) [] rec.role = "shdr:rel" -> SizeOf(RelF, cls)
                               [] rec.role = "shdr:versym" -> 2 [] rec.role \in {"shdr:hash", "shdr:gnu_hash"} -> 4
                               [] rec.role = "shdr:verdef" -> 20 [] rec.role \in {"shdr:verneed", "shdr:note"} -> 12
                               [] OTHER -> shsz)
    [] OTHER -> SizeOf(LayOf(rec.kind, cls), cls)

(* ------------------------- the single-fault table ---------------------- *)
\* which records get single faults: all of them (thorough) or the key ones (quick): the ELF header, section header 0,
\* the name table's header, the first header of every other role, every content record
KeyRec(rec) == Tier = "thorough" \/ rec.kind \notin {"shdr", "phdr"} \/ rec.idx = 0
\* `pair`: the reduced class set used when faults are composed
PairClass(c) == c \in {"zero", "m32", "b63", "nent"} \/ (Tier = "thorough" /\ c \in {"entm1", "fsize"})
\* link faults are composed with each other (group "link", on every seed): the classes that can close a cycle
LinkPairClass(c) == c \in {"self", "peern", "peerp", "back"} \/ Tier = "thorough"
\* group of a field for composition: fields of one group are combined with each other
CtorFields == {"e_shoff", "e_shentsize", "e_shnum", "e_shstrndx", "e_phoff", "e_phentsize", "e_phnum"}
GroupOf(rec, field) ==
  CASE rec.kind = "ehdr" -> (IF field \in CtorFields THEN {"ctor"} ELSE {})
    [] rec.role = "shdr:null0" -> (IF field \in {"sh_size", "sh_link", "sh_info"} THEN {"ctor"} ELSE {})
    [] rec.role = "shdr:shstrtab" -> (IF field \in {"sh_flags", "sh_offset", "sh_size"} THEN {"ctor"} ELSE {})
    [] rec.kind = "shdr" /\ rec.idx = 0 /\ rec.role \in {"shdr:symtab", "shdr:dynsym", "shdr:hash", "shdr:gnu_hash", "shdr:dynamic", "shdr:note",
                                                          "shdr:verdef", "shdr:verneed", "shdr:versym"} ->
         (IF field \in {"sh_offset", "sh_size", "sh_entsize", "sh_link", "sh_info", "sh_flags"} THEN {"sec:" \o rec.role} ELSE {})
    [] rec.kind = "phdr" /\ rec.idx = 0 /\ rec.role \in {"phdr:dynamic", "phdr:note"} ->
         (IF field \in {"p_offset", "p_filesz"} THEN {"seg:" \o rec.role} ELSE {})
    [] rec.kind \in {"dyn", "nhdr"} /\ rec.idx = 0 -> {"sec:shdr:" \o (IF rec.kind = "dyn" THEN "dynamic" ELSE "note"), "seg:phdr:" \o (IF rec.kind = "dyn" THEN "dynamic" ELSE "note")}
    [] rec.kind = "hash" -> {"sec:shdr:hash"}
    [] rec.kind \in {"gnuhash", "gnubucket"} -> {"sec:shdr:gnu_hash"}
    [] rec.kind \in {"verdef", "verdaux"} /\ rec.idx = 0 -> (IF field \in {"vd_cnt", "vd_aux", "vd_next", "vda_next"} THEN {"sec:shdr:verdef"} ELSE {})
    [] rec.kind \in {"verneed", "vernaux"} /\ rec.idx = 0 -> (IF field \in {"vn_cnt", "vn_aux", "vn_next", "vna_next"} THEN {"sec:shdr:verneed"} ELSE {})
    [] OTHER -> {}

\* one entry per (record, field, class) that changes the seed and is not a duplicate of an earlier class
SFOf(bs, L) ==
  LET B(i) == bs[i + 1]
      PerField(r, fi) ==
        LET rec == L.recs[r]   F == LayOf(rec.kind, L.cls)   name == F[fi][1]
            off == rec.off + OffIn(F, L.cls, fi)   w == Width(F[fi][2], L.cls)
            cur == Dg(B, off, w, L.le)
            ent == EntOf(rec, name, L.cls)
            islink == rec.kind = "shdr" /\ LinkField(rec.role, name) /\ L.shent > 0
            secix == IF islink THEN (rec.off - L.shoff) \div L.shent ELSE 0
            \* a class that does not apply to the field reads as the current value and is dropped by `keep`
            dg == [c \in 1..Len(ClassSeq) |->
                     IF ClassSeq[c] \in LinkClasses
                     THEN (IF ~islink THEN cur ELSE LET v == LinkVal(L, secix, ClassSeq[c]) IN IF v < 0 THEN cur ELSE LEn(v, w))
                     ELSE IF ClassSeq[c] = "nent" /\ name \notin DispFields THEN cur
                     ELSE ClassDigits(ClassSeq[c], w, ent, L.size)]
            keep == {c \in 1..Len(ClassSeq) : dg[c] # cur /\ \A e \in 1..(c - 1) : dg[e] # dg[c]}
        IN IF off + w > L.size THEN <<>>
           ELSE [m \in 1..Cardinality(keep) |->
                   LET c == CHOOSE c \in keep : Cardinality({x \in keep : x < c}) = m - 1 IN
                   [r |-> r, kind |-> rec.kind, role |-> rec.role, idx |-> rec.idx, nrec |-> rec.nrec, field |-> name, cls |-> ClassSeq[c],
                    off |-> off, b |-> IF L.le THEN dg[c] ELSE Rev(dg[c]),
                    single |-> KeyRec(rec),
                    grp |-> IF ClassSeq[c] \in LinkClasses THEN (IF LinkPairClass(ClassSeq[c]) THEN {"link"} ELSE {})
                            \* (`nent` is composed only inside content records: note sizes, version displacements)
                            ELSE IF PairClass(ClassSeq[c]) /\ (ClassSeq[c] = "nent" => rec.kind \notin {"ehdr", "shdr", "phdr", "dyn"})
                                 THEN GroupOf(rec, name) ELSE {}]]
      PerRec(r) == LET F == LayOf(L.recs[r].kind, L.cls) IN Flat([fi \in 1..Len(F) |-> PerField(r, fi)])
  IN Flat([r \in 1..Len(L.recs) |-> PerRec(r)])

\* truncation lengths: every length up to TruncMax for the TruncAll seeds; for all seeds the header-table boundaries
\* (start, every entry boundary, end, each -1/+1), the ELF header boundary and the last byte
TruncAll(s) == Seeds[s].synth \/ Tier = "thorough" \/ s <= 6
Boundaries(L) ==
  LET around(x) == {x - 1, x, x + 1} IN
  UNION ({around(16 + SizeOf(EhdrF, L.cls)), around(L.size - 1), {0, 4, 5, 6, 16}}
         \cup {around(L.shoff + i * L.shent) : i \in 0..L.shnum} \cup {around(L.phoff + j * L.phent) : j \in 0..L.phnum})
TruncOf(s, L) == {x \in (IF TruncAll(s) THEN 0..MinN(TruncMax, L.size - 1) ELSE {}) \cup Boundaries(L) : x >= 0 /\ x < L.size}
\* the few boundaries that are composed with constructor-group faults
KeyTrunc(L) == {x \in {L.shoff - 1, L.shoff, L.shoff + L.strndx * L.shent, L.shoff + L.strndx * L.shent + SizeOf(ShdrF, L.cls) - 1,
                        L.phoff, L.phoff + 1} : x > 16 + SizeOf(EhdrF, L.cls) /\ x < L.size}

SeedTab == TLCEval([s \in 1..NSeeds |->
             LET bs == Seeds[s].bytes   L == Locate(bs)   sf == SFOf(bs, L) IN
             [L |-> L, sf |-> sf, trunc |-> TruncOf(s, L), keytrunc |-> KeyTrunc(L),
              \* composition is explored on the synthesised seeds (every group) and on all seeds (constructor group)
              grpOK |-> IF Seeds[s].synth \/ Tier = "thorough" THEN {"any"} ELSE {"ctor"}]])

(* ------------------------------- faults -------------------------------- *)
\* <<"F", i, "">> CorruptField(SF entry i)   <<"S", pos, v>> Substitute   <<"T", n, "">> Truncate
SubstVals == {"00", "ff", "+1", "^80"}
SubstByte(cur, v) == CASE v = "00" -> 0 [] v = "ff" -> 255 [] v = "+1" -> (cur + 1) % 256 [] v = "^80" -> (cur + 128) % 256
SubstRank(v) == CASE v = "00" -> 0 [] v = "ff" -> 1 [] v = "+1" -> 2 [] v = "^80" -> 3
Ord(f) == CASE f[1] = "F" -> f[2] [] f[1] = "S" -> 1000000 + 4 * f[2] + SubstRank(f[3]) [] f[1] = "T" -> 2000000 + f[2]
PatchOf(s, f) ==      \* [off, b]; a truncation has no patch
  CASE f[1] = "F" -> [off |-> SeedTab[s].sf[f[2]].off, b |-> SeedTab[s].sf[f[2]].b]
    [] f[1] = "S" -> [off |-> f[2], b |-> <<SubstByte(Seeds[s].bytes[f[2] + 1], f[3])>>]
Patches(s, fl) == LET ps == SelectSeq(fl, LAMBDA f : f[1] # "T") IN [k \in 1..Len(ps) |-> PatchOf(s, ps[k])]
TruncLen(s, fl) == IF fl # <<>> /\ fl[Len(fl)][1] = "T" THEN fl[Len(fl)][2] ELSE SeedTab[s].L.size
Overlap(p, q) == p.off < q.off + Len(q.b) /\ q.off < p.off + Len(p.b)

\* may g follow f (the last fault of the plan so far)?
PairOK(s, f, g) ==
  /\ Ord(f) < Ord(g)
  /\ CASE f[1] = "F" /\ g[1] = "F" ->
            LET a == SeedTab[s].sf[f[2]]   b == SeedTab[s].sf[g[2]] IN
            /\ a.off # b.off
            /\ {x \in a.grp \cap b.grp : x \in {"ctor", "link"} \/ "any" \in SeedTab[s].grpOK} # {}     \* (a set, not \E: TLC would branch per witness)
       [] f[1] = "F" /\ g[1] = "T" -> "ctor" \in SeedTab[s].sf[f[2]].grp /\ g[2] \in SeedTab[s].keytrunc
       [] f[1] = "S" /\ g[1] = "S" -> Tier = "thorough" /\ f[2] # g[2] /\ f[2] < 16 /\ g[2] < 16 /\ f[3] = "ff" /\ g[3] = "ff"
       [] f[1] = "S" /\ g[1] = "T" -> Tier = "thorough" /\ g[2] \in SeedTab[s].keytrunc /\ f[3] = "ff"
       [] OTHER -> FALSE
\* a third fault: constructor group only
TripleOK(s, fl, g) == /\ fl[1][1] = "F" /\ "ctor" \in SeedTab[s].sf[fl[1][2]].grp
                      /\ fl[2][1] = "F" /\ "ctor" \in SeedTab[s].sf[fl[2][2]].grp
                      /\ g[1] = "F" => "ctor" \in SeedTab[s].sf[g[2]].grp
                      /\ (g[1] = "F" => SeedTab[s].sf[g[2]].off # SeedTab[s].sf[fl[1][2]].off)
                      /\ PairOK(s, fl[2], g)

FirstFaults(s) ==
  {<<"F", i, "">> : i \in {i \in 1..Len(SeedTab[s].sf) : SeedTab[s].sf[i].single}}
  \cup {<<"S", pos, v>> : pos \in {p \in 0..63 : p < SeedTab[s].L.size}, v \in SubstVals}
  \cup {<<"T", x, "">> : x \in SeedTab[s].trunc}
NextFaults(s, fl) ==
  LET last == fl[Len(fl)] IN
  IF last[1] = "T" THEN {}
  ELSE {<<"F", i, "">> : i \in {i \in 1..Len(SeedTab[s].sf) : SeedTab[s].sf[i].grp # {} /\ i > (IF last[1] = "F" THEN last[2] ELSE 0)}}
       \cup {<<"S", pos, "ff">> : pos \in 0..15}
       \cup {<<"T", x, "">> : x \in SeedTab[s].keytrunc}
\* (IF, not \/: TLC splits a disjunction inside an action into two branches and evaluates both)
Effective(s, f) == IF f[1] # "S" THEN TRUE ELSE SubstByte(Seeds[s].bytes[f[2] + 1], f[3]) # Seeds[s].bytes[f[2] + 1]

Init == sd \in 1..NSeeds /\ fs = <<>>
AddFault(g) ==
  /\ Len(fs) < MaxFaults
  /\ Effective(sd, g)
  /\ CASE Len(fs) = 0 -> TRUE
       [] Len(fs) = 1 -> PairOK(sd, fs[1], g)
       [] OTHER -> TripleOK(sd, fs, g)
  /\ fs' = Append(fs, g)
  /\ UNCHANGED sd
Next == \E g \in (IF fs = <<>> THEN FirstFaults(sd) ELSE NextFaults(sd, fs)) : AddFault(g)
Spec == Init /\ [][Next]_vars

(* ----------------------- the constructor outcome model ----------------- *)
\* B: byte accessor (0-based, defined below L), L: length.  Result [res, step, why].
R(res, step, why) == [res |-> res, step |-> step, why |-> why]
Model(B(_), L) ==
  IF L < 4 \/ <<B(0), B(1), B(2), B(3)>> # <<127, 69, 76, 70>> THEN R("ELFError", "magic", "")
  ELSE IF L < 5 \/ B(4) \notin {1, 2} THEN R("ELFError", "class", "")
  ELSE IF L < 6 \/ B(5) \notin {1, 2} THEN R("ELFError", "data", "")
  ELSE
  LET cls == IF B(4) = 1 THEN 32 ELSE 64   le == B(5) = 1
      ehsz == 16 + SizeOf(EhdrF, cls)   shsz == SizeOf(ShdrF, cls)   chsz == SizeOf(ChdrF(cls), cls) IN
  IF L < ehsz THEN R("ELFError", "ehdr", "short")
  ELSE
  LET E(name) == FN(B, 16, EhdrF, cls, le, name)
      shoff == E("e_shoff")   shent == E("e_shentsize")   ndx0 == E("e_shstrndx")
      \* a table offset that is nonzero with an entry size smaller than a header: no entry can be read
      badent == shoff > 0 /\ shent < shsz
      At(i) == IF shent = 0 \/ i = 0 THEN shoff ELSE IF shoff >= Far \/ i >= Far \/ i > (Far \div shent) THEN Far ELSE MinN(Far, shoff + i * shent) IN
  IF shoff = 0 THEN R("OK", "no section table", "")                 \* gABI: e_shoff = 0 - the file has no section header table
  ELSE IF badent THEN R("ELFError", "entsize", "")
  ELSE IF ndx0 = 65535 /\ At(0) + shsz > L                          \* SHN_XINDEX: the index is sh_link of entry 0, which is not in the file
       THEN R("ELFError", "xindex", IF At(0) > L THEN "shdr0 beyond EOF" ELSE "shdr0 cut by EOF")
  ELSE
  LET ndx == IF ndx0 = 65535 THEN FN(B, At(0), ShdrF, cls, le, "sh_link") ELSE ndx0
      pos == At(ndx) IN
  IF pos > L THEN R("OK", "no name table", "header beyond EOF")       \* a reader may take this as "no names"
  ELSE IF pos + shsz > L THEN R("ELFError", "shdr", "name table header cut by EOF")
  ELSE
  LET flags == FD(B, pos, ShdrF, cls, le, "sh_flags")
      compressed == (flags[2] \div 8) % 2 = 1                         \* SHF_COMPRESSED 0x800 (gABI figure 4-11)
      od == FD(B, pos, ShdrF, cls, le, "sh_offset")
      o == DNum(od) IN
  IF ~compressed THEN R("OK", "done", "")
  ELSE IF o + chsz > L \/ o >= Far
       THEN R("ELFError", "chdr", IF od[Len(od)] >= 128 /\ Len(od) = 8 THEN "sh_offset>=2^63" ELSE "sh_offset beyond EOF")
  ELSE R("OK", "done", "compressed")

\* the patched view of a seed
ViewByte(s, ps, i) == LET hit == {k \in 1..Len(ps) : ps[k].off <= i /\ i < ps[k].off + Len(ps[k].b)} IN
                      IF hit = {} THEN Seeds[s].bytes[i + 1] ELSE LET k == CHOOSE k \in hit : TRUE IN ps[k].b[i - ps[k].off + 1]
PlanModel(s, fl) == LET ps == Patches(s, fl)   B(i) == ViewByte(s, ps, i) IN Model(B, TruncLen(s, fl))

\* random byte strings (IOEnv.RAND: JSON array of byte arrays) get the same verdict
Rand == TLCEval(IF "RAND" \in DOMAIN IOEnv /\ IOEnv.RAND # "" THEN JsonDeserialize(IOEnv.RAND) ELSE <<>>)
RandModel(k) == LET B(i) == Rand[k][i + 1] IN Model(B, Len(Rand[k]))

(* ------------------- abstract class of an arbitrary value -------------- *)
\* the class vocabulary of the walker witnesses (FaultWalk.tla) for a value that no CorruptField produced: a byte
\* substitution inside an ELF header field, the header of a random string.  "b31" stands for "far beyond the file"
\* (any value > size + 1), "m32" for all ones, "other" for a value inside the file that is no class.
AClass(d, ent, fsize) ==
  LET v == DNum(d) IN
  IF \A i \in 1..Len(d) : d[i] = 255 THEN "m32"
  ELSE IF v = 0 THEN "zero" ELSE IF v = 1 THEN "one" ELSE IF ent > 1 /\ v = ent - 1 THEN "entm1"
  ELSE IF v = fsize THEN "fsize" ELSE IF v = fsize + 1 THEN "fsize1" ELSE IF v > fsize + 1 THEN "b31" ELSE "other"
EhdrFieldAt(cls, pos) == {fi \in 1..Len(EhdrF) : 16 + OffIn(EhdrF, cls, fi) <= pos /\ pos < 16 + OffIn(EhdrF, cls, fi) + Width(EhdrF[fi][2], cls)}
HdrClass(B(_), cls, le, fi, fsize) ==
  LET name == EhdrF[fi][1] IN
  [role |-> "ehdr", idx |-> 0, nrec |-> 1, field |-> name,
   cls |-> AClass(Dg(B, 16 + OffIn(EhdrF, cls, fi), Width(EhdrF[fi][2], cls), le), EntOf([kind |-> "ehdr", role |-> "ehdr"], name, cls), fsize)]
\* the ELF header field a Substitute fault lands in, with the class of the value it leaves there
SubstHit(s, f) ==
  LET L == SeedTab[s].L   hit == EhdrFieldAt(L.cls, f[2])   ps == <<PatchOf(s, f)>>   B(i) == ViewByte(s, ps, i) IN
  IF hit = {} \/ L.size < 16 + SizeOf(EhdrF, L.cls) THEN <<>> ELSE <<HdrClass(B, L.cls, L.le, CHOOSE fi \in hit : TRUE, L.size)>>
\* the table-related header fields of a random string (when it has a whole ELF header)
RandHits(k) ==
  LET B(i) == Rand[k][i + 1]   L == Len(Rand[k]) IN
  IF L < 6 \/ B(4) \notin {1, 2} \/ B(5) \notin {1, 2} THEN <<>>
  ELSE LET cls == IF B(4) = 1 THEN 32 ELSE 64   le == B(5) = 1 IN
       IF L < 16 + SizeOf(EhdrF, cls) THEN <<>>
       ELSE LET fis == {fi \in 1..Len(EhdrF) : EhdrF[fi][1] \in CtorFields} IN
            [m \in 1..Cardinality(fis) |-> HdrClass(B, cls, le, CHOOSE fi \in fis : Cardinality({x \in fis : x < fi}) = m - 1, L)]
RandTraits(k) ==
  LET B(i) == Rand[k][i + 1]   L == Len(Rand[k]) IN
  IF L < 6 \/ B(4) \notin {1, 2} \/ B(5) \notin {1, 2} \/ L < 16 + SizeOf(EhdrF, IF B(4) = 1 THEN 32 ELSE 64) THEN {}
  ELSE LET cls == IF B(4) = 1 THEN 32 ELSE 64   le == B(5) = 1 IN
       {IF FN(B, 16, EhdrF, cls, le, "e_phoff") = 0 THEN "no phtable" ELSE "phtable", IF FN(B, 16, EhdrF, cls, le, "e_shoff") = 0 THEN "no shtable" ELSE "shtable"}

(* ------------------------------- emission ------------------------------ *)
FaultStr(s, f) == CASE f[1] = "F" -> LET e == SeedTab[s].sf[f[2]] IN e.role \o "[" \o ToString(e.idx) \o "]." \o e.field \o "=" \o e.cls
                    [] f[1] = "S" -> "byte[" \o ToString(f[2]) \o "]" \o f[3]
                    [] f[1] = "T" -> "truncate(" \o ToString(f[2]) \o ")"
PlanLine == [k |-> "plan", s |-> sd, f |-> [i \in 1..Len(fs) |-> FaultStr(sd, fs[i])],
             sf |-> [i \in 1..Len(fs) |-> IF fs[i][1] = "F" THEN fs[i][2] ELSE 0],
             t |-> IF fs[Len(fs)][1] = "T" THEN fs[Len(fs)][2] ELSE -1,
             p |-> [i \in 1..Len(Patches(sd, fs)) |-> <<Patches(sd, fs)[i].off, Patches(sd, fs)[i].b>>],
             m |-> LET r == PlanModel(sd, fs) IN <<r.res, r.step, r.why>>,
             h |-> Flat([i \in 1..Len(fs) |-> IF fs[i][1] = "S" THEN SubstHit(sd, fs[i]) ELSE <<>>])]
SeedLines(s) ==
  LET L == SeedTab[s].L   bs == Seeds[s].bytes   nsl == (Len(bs) + 1023) \div 1024 IN
  /\ CSVWrite("%1$s", <<ToJson([k |-> "seed", s |-> s, id |-> Seeds[s].id, size |-> L.size, synth |-> Seeds[s].synth, cls |-> L.cls, le |-> L.le,
                                nrecs |-> Len(L.recs), nsf |-> Len(SeedTab[s].sf),
                                \* traits a walker witness of FaultWalk.tla can ask for
                                traits |-> {IF L.phnum > 0 THEN "phtable" ELSE "no phtable", IF L.shnum > 0 THEN "shtable" ELSE "no shtable"}])>>, IOEnv.OUT)
  /\ (Seeds[s].synth => \A j \in 0..(nsl - 1) :
        CSVWrite("%1$s", <<ToJson([k |-> "bytes", s |-> s, at |-> 1024 * j, b |-> SubSeq(bs, 1024 * j + 1, MinN(Len(bs), 1024 * (j + 1)))])>>, IOEnv.OUT))
  /\ \A i \in 1..Len(SeedTab[s].sf) :
        LET e == SeedTab[s].sf[i] IN
        CSVWrite("%1$s", <<ToJson([k |-> "sf", s |-> s, i |-> i, role |-> e.role, idx |-> e.idx, nrec |-> e.nrec, field |-> e.field, cls |-> e.cls,
                                   off |-> e.off, b |-> e.b])>>, IOEnv.OUT)
Emit == IF fs = <<>> THEN SeedLines(sd) ELSE CSVWrite("%1$s", <<ToJson(PlanLine)>>, IOEnv.OUT)

\* verdicts for the random strings: a separate one-state-per-string run (cfg Faults_rand)
RandInit == sd \in 1..Len(Rand) /\ fs = <<>>
RandNext == FALSE /\ UNCHANGED vars
RandSpec == RandInit /\ [][RandNext]_vars
RandEmit == LET r == RandModel(sd) IN CSVWrite("%1$s", <<ToJson([k |-> "rand", i |-> sd, m |-> <<r.res, r.step, r.why>>, h |-> RandHits(sd),
                                                                traits |-> RandTraits(sd)])>>, IOEnv.OUT)

(* ------------------------------ properties ----------------------------- *)
TypeOK == sd \in 1..NSeeds /\ Len(fs) <= MaxFaults
PatchesInFile == \A k \in 1..Len(Patches(sd, fs)) : LET p == Patches(sd, fs)[k] IN p.off >= 0 /\ p.off + Len(p.b) <= SeedTab[sd].L.size
PatchesDisjoint == LET ps == Patches(sd, fs) IN \A a, b \in 1..Len(ps) : a < b => ~Overlap(ps[a], ps[b])
PlanChangesSeed == fs # <<>> => \/ TruncLen(sd, fs) < SeedTab[sd].L.size
                                \/ \E k \in 1..Len(Patches(sd, fs)) : LET p == Patches(sd, fs)[k] IN
                                     \E i \in 1..Len(p.b) : p.b[i] # Seeds[sd].bytes[p.off + i]

\* the reader of this module finds in a synthesised image exactly what the writer of Elf.tla put there
LocateRoundTripOf(k) ==
  LET im == SynImages[k]   L == SeedTab[k].L
      roles(r) == {q \in 1..Len(L.recs) : L.recs[q].role = r} IN
  /\ L.cls = im.cls /\ L.le = im.le /\ L.size = FileSize(im)
  /\ L.shnum = NSec(im) /\ L.shoff = ShOff(im) /\ L.shent = ShEnt(im) /\ L.strndx = StrIndex(im)
  /\ L.phnum = NSeg(im) /\ L.phoff = PhOff(im) /\ L.phent = PhEnt(im)
  /\ \A i \in 0..(NSec(im) - 1) : \E q \in 1..Len(L.recs) : L.recs[q].kind = "shdr" /\ L.recs[q].off = ShOff(im) + i * ShEnt(im)
  /\ Cardinality(roles("dyn")) = 8 /\ Cardinality(roles("nhdr")) = 2 /\ Cardinality(roles("hash")) = 1
  /\ Cardinality(roles("gnuhash")) = 1 /\ Cardinality(roles("gnubucket")) = 1 /\ Cardinality(roles("gnuchain")) = 1
  /\ Cardinality(roles("verdef")) = 1 /\ Cardinality(roles("verdaux")) = 1 /\ Cardinality(roles("verneed")) = 2 /\ Cardinality(roles("vernaux")) = 2
  /\ \A r \in {"shdr:dynamic", "shdr:note", "shdr:hash", "shdr:gnu_hash", "shdr:verdef", "shdr:verneed", "shdr:versym", "shdr:dynsym",
               "shdr:symtab", "shdr:strtab", "shdr:shstrtab", "shdr:null0", "phdr:load", "phdr:dynamic", "phdr:note",
               "shdr:rela", "shdr:symtab_shndx", "shdr:group", "shdr:syminfo"} : Cardinality(roles(r)) = 1
  /\ \E q \in roles("gnuchain") : L.recs[q].off = SecOff(im, 4) + 20 + (im.cls \div 8)
  \* the link structure the writer chose is the one the link classes are computed from
  /\ \A i \in 1..NSyn : L.shlinks[i] = im.secs[i].link.n
  /\ LinkVal(L, 2, "peern") = 10 /\ LinkVal(L, 10, "peern") = 2 /\ LinkVal(L, 2, "back") = 3 /\ LinkVal(L, 2, "backl") = 14
  /\ LinkVal(L, 10, "back") = 12 /\ LinkVal(L, 3, "peern") = -1 /\ LinkVal(L, 9, "shnum") = NSyn + 2
  /\ \E q \in roles("dyn") : L.recs[q].idx = 0 /\ L.recs[q].off = SecOff(im, 9)
  /\ \E q \in roles("nhdr") : L.recs[q].idx = 1 /\ L.recs[q].off = SecOff(im, 8) + 20
  /\ \E q \in roles("verneed") : L.recs[q].idx = 1 /\ L.recs[q].off = SecOff(im, 7) + 32
  /\ \E q \in roles("gnubucket") : L.recs[q].off = SecOff(im, 4) + 16 + (im.cls \div 8)
  /\ ChunksDisjoint(im) /\ ReaderRecoversCounts(im)
ASSUME LocateRoundTrip == \A k \in 1..4 : LocateRoundTripOf(k)
ASSUME ModelAcceptsSeeds == \A s \in 1..NSeeds : LET B(i) == Seeds[s].bytes[i + 1] IN Model(B, Len(Seeds[s].bytes)).res = "OK"
=============================================================================
