------------------------------ MODULE Geometry ------------------------------
(***************************************************************************)
(* C02 - section and segment contents, string tables and address mapping.   *)
(*                                                                         *)
(* gABI ch.4 (sections: SHT_NOBITS occupies no file space; SHF_COMPRESSED:  *)
(* the data start with an Elf_Chdr giving the uncompressed size and         *)
(* alignment), RFC 1950/1951 (zlib streams made of stored deflate blocks    *)
(* and their Adler-32 are written by the specification itself), ch.5        *)
(* (program loading: a loadable segment maps file bytes [p_offset,          *)
(* p_offset+p_filesz) at p_vaddr), and binutils include/elf/internal.h      *)
(* ELF_SECTION_IN_SEGMENT_STRICT for the containment rule.                  *)
(*                                                                         *)
(* Modes (one writer each, all in one TLC run):                             *)
(*  "inseg"   grid of section x segment geometries -> InSegStrict            *)
(*  "addr"    PT_LOAD layouts x (start, size) ranges -> AddressOffsets       *)
(*  "strings" string tables whose strings straddle the 64-byte read chunk    *)
(*  "data"    raw / NOBITS / compressed (Chdr32/64, zlib) data paths,        *)
(*            segment data and interpreter strings                           *)
(*  "sessA/D/S/F" client sessions on ONE long-lived file (see the section):  *)
(*            generators started / advanced / drained / abandoned and atomic  *)
(*            queries interleaved; expected answer per call = the view       *)
(* TLC checks: InSegStrict (macro transcription) <=> Geometric (independent  *)
(* interval formulation) on the whole grid; the chunked string reader equals *)
(* the declarative C string at every offset; Inflate(Deflate(p)) = p for     *)
(* the stored-block streams the spec writes; AddressOffsets only yields      *)
(* offsets whose file extent lies inside the segment.  Sessions              *)
(* (cfg/Geometry_sess_*.cfg): SessGenPrefix - what the generators' cursors   *)
(* have yielded, under every interleaving, is the prefix of the declarative  *)
(* answer given by the table entries passed, all of it once exhausted;       *)
(* SessHistoryFree - the logged answer of an atomic query is a function of   *)
(* the letter alone.  Not asserted anywhere: data() of SHT_NULL headers      *)
(* (gABI: no associated section, the other members are undefined).           *)
(***************************************************************************)
EXTENDS Elf, Json, CSV, IOUtils, SequencesExt

CONSTANTS Modes
VARIABLES mode, obj, done, sess
vars == <<mode, obj, done, sess>>

ClsLe == {<<32, TRUE>>, <<32, FALSE>>, <<64, TRUE>>, <<64, FALSE>>}
Base(cl) == [Im0 EXCEPT !.cls = cl[1], !.le = cl[2]]
Dot(s) == <<46>> \o s

(* ----------------------- section in segment (strict) -------------------- *)
PT == [NULL |-> 0, LOAD |-> 1, DYNAMIC |-> 2, INTERP |-> 3, NOTE |-> 4, SHLIB |-> 5, PHDR |-> 6, TLS |-> 7]
PtGnuEhFrame == W(<<80, 229, 116, 100>>)      \* 0x6474e550
PtGnuStack == W(<<81, 229, 116, 100>>)
PtGnuRelro == W(<<82, 229, 116, 100>>)
SegTypes == {N(t) : t \in 0..7} \cup {PtGnuEhFrame, PtGnuStack, PtGnuRelro, W(<<1, 0, 0, 112>>)}
IsT(v, n) == IsSmall(v) /\ v.n = n
LoadLike(t) == IsT(t, 1) \/ IsT(t, 2) \/ t = PtGnuEhFrame \/ t = PtGnuStack \/ t = PtGnuRelro
TlsOk(t) == IsT(t, 7) \/ IsT(t, 1) \/ t = PtGnuRelro
\* transcription of ELF_SECTION_IN_SEGMENT_1 (check_vma = 1, strict = 1), the four clause groups the property names.
\* s = [tls, alloc, nobits, off, addr, size]; g = [type, off, vaddr, filesz, memsz]  (Small numbers; "x - 1" on an
\* unsigned zero wraps to the maximum, i.e. the clause holds)
InFile(s, g) == /\ s.off >= g.off
                /\ (g.filesz = 0 \/ s.off - g.off <= g.filesz - 1)
                /\ s.off - g.off + s.size <= g.filesz
InMem(s, g) == /\ s.addr >= g.vaddr
               /\ (g.memsz = 0 \/ s.addr - g.vaddr <= g.memsz - 1)
               /\ s.addr - g.vaddr + s.size <= g.memsz
InSegStrict(s, g) ==
  /\ \/ (s.tls /\ TlsOk(g.type))
     \/ (~s.tls /\ ~IsT(g.type, 7) /\ ~IsT(g.type, 6))
  /\ ~(~s.alloc /\ LoadLike(g.type))
  /\ (s.nobits \/ InFile(s, g))
  /\ (~s.alloc \/ InMem(s, g))
\* independent formulation: half-open interval containment, an empty section must not sit at the very end of a
\* non-empty segment
Within(a, n, b, m) == a >= b /\ a + n <= b + m /\ (m = 0 \/ a < b + m)
Geometric(s, g) ==
  /\ (IF s.tls THEN TlsOk(g.type) ELSE ~IsT(g.type, 7) /\ ~IsT(g.type, 6))
  /\ (s.alloc \/ ~LoadLike(g.type))
  /\ (s.nobits \/ Within(s.off, s.size, g.off, g.filesz))
  /\ (~s.alloc \/ Within(s.addr, s.size, g.vaddr, g.memsz))
\* outside the clause groups the property names: .tbss special sizing, zero-size sections in PT_DYNAMIC / PT_NOTE
InDomain(s, g) == /\ ~(s.tls /\ s.nobits /\ ~IsT(g.type, 7))
                  /\ ~((IsT(g.type, 2) \/ IsT(g.type, 4)) /\ s.size = 0 /\ g.memsz # 0)
SegGeoms == {[type |-> t, off |-> 100, vaddr |-> 1000, filesz |-> fs, memsz |-> ms] : t \in SegTypes, fs \in 0..2, ms \in 0..3}
SecGeoms == {[tls |-> tl, alloc |-> al, nobits |-> nb, off |-> 100 + o, addr |-> 1000 + a, size |-> sz] :
               tl \in BOOLEAN, al \in BOOLEAN, nb \in BOOLEAN, o \in -1..3, a \in -1..4, sz \in 0..3}
\* one image per (class, byte order, segment-type): all its section geometries x all extents of that type
SecOf(s) == WithOff(Sec(Dot(<<115>>), N(IF s.nobits THEN 8 ELSE 1), N((IF s.tls THEN 1024 ELSE 0) + (IF s.alloc THEN 2 ELSE 0)),
                        N(s.addr), <<>>, N(s.size), Z, Z, N(1), Z), N(s.off))
SegOf(g) == Seg(g.type, N(4), N(g.off), N(g.vaddr), N(g.vaddr), N(g.filesz), N(g.memsz), N(1))
\* a deterministic enumeration of the section grid by mixed-radix index (sets have no order)
\* per image: the 5 x 6 grid of (file offset, address) displacements; flags and size are part of the image's parameters
NSecGeom == 5 * 6
SecAtO(o, k) == LET i == k - 1 IN
            [tls |-> o.tl, alloc |-> o.al, nobits |-> o.nb, off |-> 99 + (i % 5), addr |-> 999 + ((i \div 5) % 6), size |-> o.sz]
SegAt(o, j) == [type |-> o.t, off |-> 100, vaddr |-> 1000, filesz |-> o.fs, memsz |-> j - 1]        \* j = 1..4
InsegSeeds ==
  UNION {{ [cl |-> cl, t |-> t, fs |-> fs, tl |-> FALSE, al |-> FALSE, nb |-> FALSE, sz |-> -1] : t \in SegTypes, fs \in 0..2} :
           cl \in {<<64, TRUE>>, <<32, FALSE>>}}
InsegImage(o) ==
  [im |-> [Base(o.cl) EXCEPT !.secs = [k \in 1..NSecGeom |-> SecOf(SecAtO(obj, k))], !.segs = [j \in 1..4 |-> SegOf(SegAt(o, j))]]]

(* ----------------------------- address_offsets -------------------------- *)
\* layouts: sequences of [load, off, vaddr, filesz, memsz]; non-loadable segments never contribute
Layouts == <<
  << [load |-> TRUE, off |-> 0, vaddr |-> 4096, filesz |-> 8, memsz |-> 8],
     [load |-> TRUE, off |-> 16, vaddr |-> 4104, filesz |-> 4, memsz |-> 12],          \* abuts the first; filesz < memsz
     [load |-> FALSE, off |-> 0, vaddr |-> 4096, filesz |-> 64, memsz |-> 64] >>,       \* PT_NOTE over the same addresses
  << [load |-> TRUE, off |-> 100, vaddr |-> 4100, filesz |-> 10, memsz |-> 10],
     [load |-> TRUE, off |-> 200, vaddr |-> 4104, filesz |-> 10, memsz |-> 10] >>,      \* overlapping address ranges
  << [load |-> TRUE, off |-> 7, vaddr |-> 4098, filesz |-> 0, memsz |-> 4],             \* nothing in the file
     [load |-> TRUE, off |-> 32, vaddr |-> 4110, filesz |-> 3, memsz |-> 3] >> >>
AddressOffsets(lay, start, size) ==
  LET hit(j) == lay[j].load /\ lay[j].vaddr <= start /\ start + size <= lay[j].vaddr + lay[j].filesz
      RECURSIVE R(_) R(j) == IF j > Len(lay) THEN <<>> ELSE (IF hit(j) THEN <<start - lay[j].vaddr + lay[j].off>> ELSE <<>>) \o R(j + 1)
  IN R(1)
AddrQueries == {<<s, n>> : s \in 4094..4116, n \in {0, 1, 2, 4, 9}}
AddrImage(cl, li) ==
  [Base(cl) EXCEPT !.segs = [j \in 1..Len(Layouts[li]) |->
      Seg(N(IF Layouts[li][j].load THEN 1 ELSE 4), N(4), N(Layouts[li][j].off), N(Layouts[li][j].vaddr), N(Layouts[li][j].vaddr),
          N(Layouts[li][j].filesz), N(Layouts[li][j].memsz), N(1))]]

(* ------------------------------- string tables -------------------------- *)
\* a table: strings laid end to end; lengths around the chunk size; the section is placed at a file offset that is
\* not a multiple of the chunk, so chunk ends fall at arbitrary places of the strings
StrLens == <<0, 1, 62, 63, 64, 65, 66, 127, 128, 129, 300>>
StrBody(k, n) == [i \in 1..n |-> 33 + ((k * 7 + i) % 90)]
StrTable == <<0>> \o Flat([k \in 1..Len(StrLens) |-> StrBody(k, StrLens[k]) \o <<0>>]) \o <<195, 169, 0>>
StrOffsets == {0, 1, 2, 3} \cup {o \in 1..(Len(StrTable) - 1) : StrTable[o] = 0} \cup {o \in 1..(Len(StrTable) - 2) : o % 29 = 0}
StrImage(cl, pad) ==
  [Base(cl) EXCEPT !.secs = <<Sec(Dot(<<112>>), N(1), Z, Z, Rep(7, pad), N(pad), Z, Z, N(1), Z),
                              Sec(Dot(<<115, 116>>), N(3), Z, Z, StrTable, N(Len(StrTable)), Z, Z, N(1), Z)>>]

\* a string of more than 1024 read chunks (>= 65536 bytes): a 90-byte pattern repeated, followed by a short string.  The table is
\* emitted in run-length form (pattern x repeat) and so are the expected strings; LongCompactEqDeclarative ties both to CStrAt.
LongPat == [i \in 1..90 |-> 33 + i]
LongRep == 730
LongTail == <<0, 97, 98, 0>>
RepSeq(p, r) == [i \in 1..(Len(p) * r) |-> p[((i - 1) % Len(p)) + 1]]
LongTable == <<0>> \o RepSeq(LongPat, LongRep) \o LongTail
LongEnd == 90 * LongRep                                             \* offset of the last pattern byte
LongOffsets == {0, 1, 2, 91, 100, 165, 166, 167, 229, 65000, LongEnd, LongEnd + 1, LongEnd + 2, LongEnd + 3, LongEnd + 4}
Compact(o) == IF o >= 1 /\ o <= LongEnd
              THEN [pre |-> SubSeq(LongPat, ((o - 1) % 90) + 1, 90), pat |-> LongPat, rep |-> LongRep - ((o - 1) \div 90) - 1]
              ELSE [pre |-> CStrAt(LongTail, IF o = 0 THEN 0 ELSE o - LongEnd - 1).s, pat |-> <<>>, rep |-> 0]
Expand(c) == c.pre \o RepSeq(c.pat, c.rep)
LongImage(cl) ==
  [Base(cl) EXCEPT !.secs = <<Sec(Dot(<<112>>), N(1), Z, Z, Rep(7, 37), N(37), Z, Z, N(1), Z),
                              Sec(Dot(<<115, 116>>), N(3), Z, Z, LongTable, N(Len(LongTable)), Z, Z, N(1), Z)>>]

(* --------------------------------- data paths --------------------------- *)
\* zlib stream of stored deflate blocks (RFC 1950 2.2, RFC 1951 3.2.4) and its Adler-32 (RFC 1950 8.2)
AdlerMod == 65521
RECURSIVE SumMod(_, _, _)
SumMod(f, lo, hi) == IF lo > hi THEN 0 ELSE IF lo = hi THEN f[lo] % AdlerMod
                     ELSE LET mid == (lo + hi) \div 2 IN (SumMod(f, lo, mid) + SumMod(f, mid + 1, hi)) % AdlerMod
Adler32(p) == LET n == Len(p)
                  a == (1 + SumMod(p, 1, n)) % AdlerMod
                  \* b = n + sum (n - i + 1) * p[i]  (mod 65521); weights reduced before multiplying
                  b == (n + SumMod([i \in 1..n |-> ((n - i + 1) % AdlerMod) * p[i] % AdlerMod], 1, n)) % AdlerMod
              IN <<b \div 256, b % 256, a \div 256, a % 256>>                   \* big-endian b:a
\* RFC 1950 2.2: CMF = CM (8: deflate) + 16 * CINFO (log2 of the window size - 8, 0..7), FLG so that CMF * 256 + FLG is a multiple of 31.
\* Every window size is a valid stream (a stored block needs no window); the size varies with the payload length.
ZHdr(n) == CASE n = 1 -> <<8, 29>> [] n = 63 -> <<24, 25>> [] n = 65 -> <<56, 17>> [] n = 300 -> <<104, 5>> [] OTHER -> <<120, 1>>
ASSUME \A n \in {1, 63, 65, 300, 0} : LET h == ZHdr(n) IN (h[1] * 256 + h[2]) % 31 = 0 /\ h[1] % 16 = 8 /\ h[1] \div 16 <= 7
Stored(p, blk) ==      \* blocks of at most blk bytes
  LET nb == IF Len(p) = 0 THEN 1 ELSE (Len(p) + blk - 1) \div blk
      piece(k) == SubSeq(p, (k - 1) * blk + 1, IF k * blk < Len(p) THEN k * blk ELSE Len(p))
      block(k) == LET d == piece(k) IN <<IF k = nb THEN 1 ELSE 0>> \o LEn(Len(d), 2) \o LEn(65535 - Len(d), 2) \o d
  IN ZHdr(Len(p)) \o Flat([k \in 1..nb |-> block(k)]) \o Adler32(p)
\* the reader of such streams (for the round-trip check)
RECURSIVE Inflate(_, _)
Inflate(z, at) == LET fin == z[at]   n == z[at + 1] + 256 * z[at + 2] IN
                  SubSeq(z, at + 5, at + 4 + n) \o (IF fin = 1 THEN <<>> ELSE Inflate(z, at + 5 + n))
Payload(n) == [i \in 1..n |-> (i * i + 3 * i) % 251]
DataKinds == {"raw", "nobits", "zlib", "zlib_badsize", "zlib_badtype", "zlib_twin"}
Payload2(n) == [i \in 1..n |-> (7 * i + 11) % 253]
ChdrRec(t, size, align) == [ch_type |-> N(t), ch_reserved |-> Z, ch_size |-> N(size), ch_addralign |-> N(align)]
\* ch_addralign, the alignment of the uncompressed data (0 and 1 both mean "none"; it is reported as written), varied with the size
ChAlign(n) == CASE n = 1 -> 0 [] n = 63 -> 1 [] n = 65 -> 4096 [] OTHER -> 32
\* p_memsz of the loadable segment over the data: equal to, smaller than (0) and larger than p_filesz - the file bytes are p_filesz
MemSz(n, dlen) == CASE n % 3 = 0 -> dlen [] n % 3 = 1 -> 0 [] OTHER -> dlen + 7
DataSec(kind, n, cls, le, blk) ==
  LET p == Payload(n) IN
  CASE kind = "raw" -> Sec(Dot(<<100>>), N(1), N(2), N(64), p, N(n), Z, Z, N(16), Z)
    [] kind = "nobits" -> Sec(Dot(<<100>>), N(8), N(3), N(64), <<>>, N(n), Z, Z, N(16), Z)
    [] OTHER -> LET ch == Ser(ChdrF(cls), ChdrRec(IF kind = "zlib_badtype" THEN 2 ELSE 1, IF kind = "zlib_badsize" THEN n + 1 ELSE n, ChAlign(n)), cls, le)
                    z == ch \o Stored(IF kind = "twin2" THEN Payload2(n) ELSE p, blk)
                IN Sec(Dot(<<100>>), N(1), N(2048), Z, z, N(Len(z)), Z, Z, N(8), Z)       \* sh_addralign 8: the alignment of the compressed bytes
DataImage(cl, kind, n, blk) ==
  [Base(cl) EXCEPT !.secs = <<Sec(Dot(<<112>>), N(1), Z, Z, <<1, 2, 3>>, N(3), Z, Z, N(1), Z), DataSec(kind, n, cl[1], cl[2], blk)>>
                                \* a second compressed section with the SAME name and a different payload
                                \o (IF kind = "zlib_twin" THEN <<DataSec("twin2", n, cl[1], cl[2], blk)>> ELSE <<>>),
                   \* segments: one over the data section's file extent (offsets fixed up at emission), an interpreter path, and two
                   \* non-loadable ones: exactly the section's file bytes / only as many bytes as the logical (uncompressed) size
                   !.segs = <<Seg(N(1), N(4), Z, N(4096), N(4096), Z, Z, N(1)), Seg(N(3), N(4), Z, Z, Z, Z, Z, N(1)),
                              Seg(N(0), N(4), Z, Z, Z, Z, Z, N(1)), Seg(N(0), N(4), Z, Z, Z, Z, Z, N(1))>>]
Sizes == {0, 1, 63, 64, 65, 300, 4096}
SizesDeep == {2, 3, 4, 62, 66, 127, 128, 129, 255, 256, 257, 1000, 8191, 8192}       \* thorough tier ("data2")
InterpStr == <<47, 108, 105, 98, 47, 108, 100, 46, 115, 111, 0>>                 \* "/lib/ld.so"
\* the .interp contents may be padded behind the terminator (alignment padding; a further string): the name ends at the first NUL
InterpUtf8 == <<47, 108, 105, 98, 47, 108, 100, 45, 195, 169, 46, 115, 111, 0>>     \* "/lib/ld-e'.so" (UTF-8: e-acute = C3 A9)
InterpData(n) == (IF n \in {64, 300} THEN InterpUtf8 ELSE InterpStr) \o (CASE n % 4 = 0 -> <<>> [] n % 4 = 1 -> <<0>> [] n % 4 = 2 -> <<0, 0, 0>> [] OTHER -> <<120, 0, 0>>)

(* ----------------------------- client sessions -------------------------- *)
Bit(b) == IF b THEN 1 ELSE 0
\* One long-lived ELFFile, a sequence of client calls on it; the expected answer of every call is the declarative view of the
\* image, whatever preceded it.  The calls: address_offsets / iter_segments GENERATORS that the client starts, advances one
\* answer at a time, drains, abandons (after the first answer, or never advanced) or simply keeps open while it asks other
\* things - and the atomic queries (get_segment, Segment.data, section_in_segment, Section.data of raw / NOBITS / compressed /
\* wrongly sized compressed sections, get_string, the interpreter path), on objects fetched anew for every call or fetched
\* once per session and held.  The generators are modelled at the granularity of the code's loop: a cursor over the program
\* header table (Adv moves it to the next yielding entry); SessGenPrefix ties what the cursors have yielded to the
\* declarative AddressOffsets, SessHistoryFree says the answer to a letter does not depend on its position in the log.
SessPatA == [i \in 1..24 |-> 16 + i]
SessPatB == [i \in 1..16 |-> 96 + i]
\* a small string table: strings that end before / behind the 64-byte read chunk from wherever the lookup starts
SessStrLens == <<0, 3, 70, 1, 61, 130>>
SessStrTab == <<0>> \o Flat([k \in 1..Len(SessStrLens) |-> StrBody(k, SessStrLens[k]) \o <<0>>])
ZSec(name, p, size, cl) == LET z == Ser(ChdrF(cl[1]), ChdrRec(1, size, 1), cl[1], cl[2]) \o Stored(p, 65535) IN
                           Sec(Dot(name), N(1), N(2048), Z, z, N(Len(z)), Z, Z, N(1), Z)
\* user sections 1..8: .a .b (loaded data) .i (interpreter path) .z .y (compressed, different payloads) .w (compressed, ch_size
\* one more than the stream inflates to) .n (NOBITS behind .b) .st (string table)
SessSecs(cl) == << Sec(Dot(<<97>>), N(1), N(2), N(4096), SessPatA, N(24), Z, Z, N(1), Z),
                   Sec(Dot(<<98>>), N(1), N(3), N(4120), SessPatB, N(16), Z, Z, N(1), Z),
                   Sec(Dot(<<105>>), N(1), Z, Z, InterpStr, N(Len(InterpStr)), Z, Z, N(1), Z),
                   ZSec(<<122>>, Payload(20), 20, cl), ZSec(<<121>>, Payload2(33), 33, cl), ZSec(<<119>>, Payload(5), 6, cl),
                   Sec(Dot(<<110>>), N(8), N(3), N(4136), <<>>, N(8), Z, Z, N(1), Z),
                   Sec(Dot(<<115, 116>>), N(3), Z, Z, SessStrTab, N(Len(SessStrTab)), Z, Z, N(1), Z) >>
\* the declarative answer of Section.data() (<<-1>>: ELFCompressionError)
SessSecData == << SessPatA, SessPatB, InterpStr, Payload(20), Payload2(33), <<-1>>, Rep(0, 8), SessStrTab >>
\* program header tables: [type, rel (file offset relative to the first section's), vaddr, filesz, memsz]; three and four
\* PT_LOADs, overlapping address ranges that map to different file offsets, non-loadable entries between them
SegL(t, rel, va, fs, ms) == [type |-> t, rel |-> rel, vaddr |-> va, filesz |-> fs, memsz |-> ms]
SessLayouts == <<
  << SegL(1, 0, 4096, 24, 24), SegL(4, 0, 4096, 40, 40), SegL(1, 24, 4120, 16, 24), SegL(1, 8, 4128, 32, 32),
     SegL(3, 40, 0, 11, 11), SegL(1, 40, 8192, 0, 16) >>,
  << SegL(4, 0, 4096, 40, 40), SegL(1, 8, 4128, 32, 32), SegL(7, 24, 4120, 16, 20), SegL(1, 24, 4120, 16, 24),
     SegL(1, 0, 4096, 24, 24), SegL(1, 2, 4090, 49, 80), SegL(3, 40, 0, 11, 11) >> >>
SessWorldKeys == {<<cl[1], cl[2], li>> : cl \in ClsLe, li \in 1..Len(SessLayouts)}
SessWorldOf(w) ==
  LET cl == <<w[1], w[2]>>   L == SessLayouts[w[3]]
      im0 == [Base(cl) EXCEPT !.secs = SessSecs(cl), !.segs = [j \in 1..Len(L) |-> Seg(N(L[j].type), N(4), Z, Z, Z, Z, Z, N(1))]]
      d == DataOff(im0)
      im == [im0 EXCEPT !.segs = [j \in 1..Len(L) |-> Seg(N(L[j].type), N(4), N(d + L[j].rel), N(L[j].vaddr), N(L[j].vaddr),
                                                          N(L[j].filesz), N(L[j].memsz), N(1))]]
      area == Flat([k \in 1..Len(im.secs) |-> im.secs[k].data])
  IN [im |-> im,
      lay |-> [j \in 1..Len(L) |-> [load |-> L[j].type = 1, type |-> L[j].type, off |-> d + L[j].rel, vaddr |-> L[j].vaddr,
                                    filesz |-> L[j].filesz, memsz |-> L[j].memsz]],
      segdata |-> [j \in 1..Len(L) |-> SubSeq(area, L[j].rel + 1, L[j].rel + L[j].filesz)],
      secgeo |-> [k \in 1..Len(im.secs) |-> [tls |-> FALSE, alloc |-> im.secs[k].flags.n \in {2, 3}, nobits |-> im.secs[k].type.n = 8,
                                             off |-> SecOff(im, k), addr |-> im.secs[k].addr.n, size |-> im.secs[k].size.n]]]
SessTab == TLCEval([w \in SessWorldKeys |-> TLCEval(SessWorldOf(w))])
NSegW(Wd) == Len(Wd.lay)

\* --- letters: [op, a, b]
Letter(op, a, b) == [op |-> op, a |-> a, b |-> b]
SessQ == {<<4100, 4>>, <<4130, 4>>, <<4150, 2>>, <<4122, 2>>, <<4094, 4>>}
SessStrOffs == {2, 6, 50, 79, 141, 200}
SessStrAns == TLCEval([o \in SessStrOffs |-> CStrAt(SessStrTab, o).s])                \* the NUL-terminated string at each offset
GenKinds == {"addr", "segs"}
GenOps == {"adv", "drain", "drop"}
\* the declarative view
SegHdr(Wd, j) == <<Wd.lay[j].type, Wd.lay[j].off, Wd.lay[j].vaddr, Wd.lay[j].filesz, Wd.lay[j].memsz>>
SegGeo(Wd, j) == [type |-> N(Wd.lay[j].type), off |-> Wd.lay[j].off, vaddr |-> Wd.lay[j].vaddr, filesz |-> Wd.lay[j].filesz, memsz |-> Wd.lay[j].memsz]
Answer(Wd, l) ==
  CASE l.op = "nseg" -> <<NSegW(Wd)>>
    [] l.op = "seg" -> SegHdr(Wd, l.a)
    [] l.op = "segdata" -> Wd.segdata[l.a]
    [] l.op = "inseg" -> IF InDomain(Wd.secgeo[l.b], SegGeo(Wd, l.a)) THEN <<Bit(InSegStrict(Wd.secgeo[l.b], SegGeo(Wd, l.a)))>> ELSE <<2>>
    [] l.op = "secdata" -> SessSecData[l.a]
    [] l.op = "str" -> SessStrAns[l.a]
    [] l.op = "interp" -> CStrAt(Wd.segdata[l.a], 0).s
\* what a generator yields, all of it, declaratively
GenDecl(Wd, kind, a, b) ==
  IF kind = "addr" THEN AddressOffsets(Wd.lay, a, b)
  ELSE SetToSortSeq({j \in 1..NSegW(Wd) : a = 0 \/ Wd.lay[j].type = a}, LAMBDA x, y : x < y)
\* the cursor machine: what the entry at table position j contributes to generator g
GenAt(Wd, g, j) ==
  LET e == Wd.lay[j] IN
  IF g.kind = "addr" THEN (IF e.type = 1 /\ g.a >= e.vaddr /\ g.a + g.b - e.vaddr <= e.filesz THEN <<e.off + (g.a - e.vaddr)>> ELSE <<>>)
  ELSE (IF g.a # 0 /\ e.type # g.a THEN <<>> ELSE <<j>>)
RECURSIVE NextYield(_, _, _)
NextYield(Wd, g, j) == IF j > NSegW(Wd) \/ GenAt(Wd, g, j) # <<>> THEN j ELSE NextYield(Wd, g, j + 1)
RECURSIVE RestFrom(_, _, _)
RestFrom(Wd, g, j) == IF j > NSegW(Wd) THEN <<>> ELSE GenAt(Wd, g, j) \o RestFrom(Wd, g, j + 1)
Logged(l, ans) == [op |-> l.op, a |-> l.a, b |-> l.b, ans |-> ans]
SessStep(Wd, s, l) ==
  CASE l.op \in GenKinds -> [log |-> Append(s.log, Logged(l, <<>>)),
                             gens |-> Append(s.gens, [kind |-> l.op, a |-> l.a, b |-> l.b, cur |-> 0, open |-> TRUE])]
    [] l.op = "adv" -> LET g == s.gens[l.a]   j == NextYield(Wd, g, g.cur + 1) IN
                       [log |-> Append(s.log, Logged(l, IF j > NSegW(Wd) THEN <<>> ELSE GenAt(Wd, g, j))),       \* <<>>: StopIteration
                        gens |-> [s.gens EXCEPT ![l.a].cur = j]]
    [] l.op = "drain" -> LET g == s.gens[l.a] IN
                         [log |-> Append(s.log, Logged(l, RestFrom(Wd, g, g.cur + 1))), gens |-> [s.gens EXCEPT ![l.a].cur = NSegW(Wd) + 1]]
    [] l.op = "drop" -> [log |-> Append(s.log, Logged(l, <<>>)), gens |-> [s.gens EXCEPT ![l.a].open = FALSE]]
    [] OTHER -> [s EXCEPT !.log = Append(@, Logged(l, Answer(Wd, l)))]
NoSess == [log |-> <<>>, gens |-> <<>>]
SessModes == {"sessW", "sessA", "sessD", "sessS", "sessR"}       \* "sessW": no calls, the images of all worlds

\* --- disciplines (the alphabet of a session; Depth calls per session).  SessDeep: the thorough tier (overridden in the cfg)
SessDeep == FALSE
SessDeepOn == TRUE
SessDepth(m) == CASE m = "sessW" -> 0
                  [] m = "sessA" -> IF SessDeep THEN 5 ELSE 4
                  [] m = "sessD" -> IF SessDeep THEN 4 ELSE 3
                  [] m = "sessS" -> IF SessDeep THEN 4 ELSE 3
                  [] m = "sessR" -> IF SessDeep THEN 24 ELSE 14
SessWorlds(m) == IF m = "sessW" \/ (SessDeep /\ m # "sessA") THEN SessWorldKeys
                 ELSE IF m = "sessA" THEN {<<64, TRUE, 1>>, <<32, FALSE, 2>>}
                 ELSE IF m = "sessD" THEN {<<64, TRUE, 1>>, <<32, FALSE, 1>>}
                 ELSE {<<cl[1], cl[2], 1>> : cl \in ClsLe}
SessHeld(m) == IF m \in {"sessW", "sessA"} THEN {FALSE} ELSE BOOLEAN
Starts(qs, types) == {Letter("addr", q[1], q[2]) : q \in qs} \cup {Letter("segs", t, 0) : t \in types}
\* (an exhausted generator is only dropped in the exhaustive disciplines; "sessR" also asks it again)
\* "sessR": long sessions over the whole alphabet, one per schedule number obj.seed.  The next call is picked among the enabled
\* ones by a fixed pseudo-random schedule (a linear congruential sequence started from the schedule number: first the kind of
\* call - start a generator / operate an open one / an atomic query, 3 : 4 : 3 - then the letter, adv : drain : drop = 3 : 1 : 1), so that the sessions are
\* long and diverse, reproducible, and TLC explores one behaviour per schedule.
RECURSIVE Lcg(_, _)
Lcg(seed, i) == IF i = 0 THEN (seed * 7919 + 13) % 65537 ELSE (Lcg(seed, i - 1) * 75 + 74) % 65537
OpCode == [addr |-> 1, segs |-> 2, adv |-> 3, drain |-> 4, drop |-> 5, nseg |-> 6, seg |-> 7, segdata |-> 8, inseg |-> 9, secdata |-> 10, str |-> 11, interp |-> 12]
LetterCode(l) == OpCode[l.op] * 1000000 + l.a * 100 + l.b
PickFrom(S, r) == LET q == SetToSortSeq(S, LAMBDA x, y : LetterCode(x) < LetterCode(y)) IN q[(r % Len(q)) + 1]
SessWorldSeq == SetToSortSeq(SessWorldKeys, LAMBDA x, y : x[1] * 10 + (IF x[2] THEN 4 ELSE 0) + x[3] < y[1] * 10 + (IF y[2] THEN 4 ELSE 0) + y[3])
NSched == IF SessDeep THEN 3000 ELSE 500
OnGens(Wd, s, live, ops) == {l \in {Letter(o, g, 0) : o \in ops, g \in live} : l.op = "drop" \/ s.gens[l.a].cur <= NSegW(Wd)}
SessLetters(m, Wd, s, ob) ==
  LET live == {g \in 1..Len(s.gens) : s.gens[g].open}
      n == NSegW(Wd)
      interp == {Letter("interp", j, 0) : j \in {j \in 1..n : Wd.lay[j].type = 3}}
  IN CASE m = "sessW" -> {}
       [] m = "sessA" -> (IF Cardinality(live) < 2 THEN Starts({<<4100, 4>>, <<4130, 4>>, <<4150, 2>>}, {1, 4}) ELSE {})
                         \cup OnGens(Wd, s, live, GenOps) \cup {Letter("segdata", 1, 0), Letter("str", 6, 0)}
       [] m = "sessD" -> {Letter("secdata", k, 0) : k \in {1, 4, 5, 6}} \cup {Letter("segdata", j, 0) : j \in {1, 4}} \cup {Letter("str", o, 0) : o \in {6, 141}}
       [] m = "sessS" -> {Letter("str", o, 0) : o \in SessStrOffs}
       [] m = "sessR" ->
            LET starts == IF Cardinality(live) < 3 THEN Starts(SessQ, {0, 1, 4}) ELSE {}
                atomics == {Letter("secdata", k, 0) : k \in 1..8} \cup {Letter("segdata", j, 0) : j \in 1..n} \cup {Letter("seg", j, 0) : j \in 1..n}
                           \cup {Letter("nseg", 0, 0)} \cup {Letter("str", so, 0) : so \in SessStrOffs} \cup interp
                           \cup {Letter("inseg", j, k) : j \in 1..n, k \in {1, 2, 7}}
                c == Lcg(ob.seed, 2 * Len(s.log)) % 10
                r == Lcg(ob.seed, 2 * Len(s.log) + 1)
                \* on an open generator: the next answer three times out of five, the rest of them, or abandon it
                genop == Letter(<<"adv", "adv", "adv", "drain", "drop">>[(r % 5) + 1], SetToSortSeq(live, LAMBDA x, y : x < y)[((r \div 5) % Cardinality(live)) + 1], 0)
            IN IF (c <= 2 /\ starts # {}) \/ (c <= 6 /\ live = {}) THEN {PickFrom(starts, r)}
               ELSE IF c <= 6 THEN {genop} ELSE {PickFrom(atomics, r)}

(* --------------------------------- the machine -------------------------- *)
Init ==
  /\ mode \in Modes
  /\ done = (mode # "inseg")
  /\ sess = NoSess
  /\ CASE mode = "inseg" -> obj \in InsegSeeds
       [] mode = "sessR" -> \E k \in 1..NSched : obj = [w |-> SessWorldSeq[(k % 8) + 1], held |-> (k \div 8) % 2 = 1, seed |-> k]
       [] mode \in SessModes -> \E w \in SessWorlds(mode), h \in SessHeld(mode) : obj = [w |-> w, held |-> h]
       [] mode = "addr" -> \E cl \in ClsLe, li \in 1..Len(Layouts) : obj = [cl |-> cl, li |-> li]
       [] mode = "strings" -> \E cl \in ClsLe, pad \in {0, 1, 37, 63} : obj = [cl |-> cl, pad |-> pad]
       [] mode = "longstr" -> \E cl \in ClsLe : obj = [cl |-> cl]
       [] mode \in {"data", "data2"} -> \E cl \in ClsLe, k \in DataKinds, n \in (IF mode = "data2" THEN SizesDeep ELSE Sizes \cup {70000}), blk \in {65535, 100, 7} :
                              /\ (blk = 100 => k = "zlib" /\ n \in {0, 300})
                              /\ (blk = 7 => mode = "data2" /\ k = "zlib" /\ n \in {2, 62, 129})       \* many small stored blocks
                              /\ (n = 70000 => k = "nobits")
                              /\ obj = [cl |-> cl, kind |-> k, n |-> n, blk |-> blk]
\* the grid writer picks the section flags and size in a second step (so that TLC workers share the images)
PickFlags == /\ mode = "inseg" /\ ~done /\ done' = TRUE /\ UNCHANGED <<mode, sess>>
             /\ \E tl \in BOOLEAN, al \in BOOLEAN, nb \in BOOLEAN, sz \in 0..3 : obj' = [obj EXCEPT !.tl = tl, !.al = al, !.nb = nb, !.sz = sz]
\* one client call on the long-lived file
ClientCall == /\ mode \in SessModes /\ Len(sess.log) < SessDepth(mode)
              /\ \E l \in SessLetters(mode, SessTab[obj.w], sess, obj) : sess' = SessStep(SessTab[obj.w], sess, l)
              /\ UNCHANGED <<mode, obj, done>>
Next == PickFlags \/ ClientCall
Spec == Init /\ [][Next]_vars

(* ---------------------------------- emission ---------------------------- *)
Case ==
  CASE mode = "inseg" ->
         LET x == InsegImage(obj) IN
         [mode |-> mode, chunks |-> Chunks(x.im), nsec |-> NSecGeom, nseg |-> 4, fs |-> obj.fs, t |-> obj.t,
          \* expected matrix, row per segment, "2" = outside the named clause groups (not asserted)
          expect |-> TLCEval([j \in 1..4 |-> TLCEval([k \in 1..NSecGeom |->
                        IF ~InDomain(SecAtO(obj, k), SegAt(obj, j)) THEN 2 ELSE Bit(InSegStrict(SecAtO(obj, k), SegAt(obj, j)))])])]
    [] mode = "addr" ->
         LET im == AddrImage(obj.cl, obj.li)   qs == SetToSortSeq(AddrQueries, LAMBDA p, q : p[1] * 16 + p[2] < q[1] * 16 + q[2]) IN
         [mode |-> mode, chunks |-> Chunks(im),
          queries |-> [i \in 1..Len(qs) |-> <<qs[i][1], qs[i][2], AddressOffsets(Layouts[obj.li], qs[i][1], qs[i][2])>>]]
    [] mode = "strings" ->
         LET im == StrImage(obj.cl, obj.pad)   os == SetToSortSeq(StrOffsets, LAMBDA p, q : p < q) IN
         [mode |-> mode, chunks |-> Chunks(im), secidx |-> UserIndex(im, 2),
          strings |-> [i \in 1..Len(os) |-> <<os[i], CStrAt(StrTable, os[i]).s>>]]
    [] mode = "longstr" ->
         LET im == LongImage(obj.cl)   cs == Chunks(im)   os == SetToSortSeq(LongOffsets, LAMBDA p, q : p < q)
             off == cs[3][1]                               \* chunk 3 = data of user section 2 (after the header and section 1)
         IN [mode |-> "strings", secidx |-> UserIndex(im, 2),
             chunks |-> [cs EXCEPT ![3] = <<off, <<0>>, 1>>] \o << <<off + 1, LongPat, LongRep>>, <<off + 1 + LongEnd, LongTail, 1>> >>,
             strings |-> [i \in 1..Len(os) |-> <<os[i], Compact(os[i])>>]]
    [] mode \in {"data", "data2"} ->
         LET im0 == DataImage(obj.cl, obj.kind, obj.n, obj.blk)
             doff == SecOff(im0, 2)   dlen == Len(im0.secs[2].data)
             \* the loadable segment covers exactly the data section's file bytes; the interpreter string sits in front of it
             im1 == [im0 EXCEPT !.secs[1].data = InterpData(obj.n), !.secs[1].size = N(Len(InterpData(obj.n)))]
             off2 == SecOff(im1, 2)
             im == [im1 EXCEPT !.segs[1].offset = N(off2), !.segs[1].filesz = N(dlen), !.segs[1].memsz = N(MemSz(obj.n, dlen)),
                               !.segs[2].offset = N(SecOff(im1, 1)), !.segs[2].filesz = N(Len(InterpData(obj.n))), !.segs[2].memsz = N(Len(InterpData(obj.n))),
                               !.segs[3].offset = N(off2), !.segs[3].filesz = N(dlen), !.segs[3].memsz = N(dlen), !.segs[3].vaddr = N(64),
                               !.segs[4].offset = N(off2), !.segs[4].filesz = N(obj.n), !.segs[4].memsz = N(obj.n), !.segs[4].vaddr = N(64)]
             \* containment of the data section (by its header: sh_offset, sh_size; not ALLOC, not TLS) in segments 3 and 4
             geo(fs) == InSegStrict([tls |-> FALSE, alloc |-> obj.kind \in {"raw", "nobits"}, nobits |-> obj.kind = "nobits", off |-> off2, addr |-> 64,
                                     size |-> IF obj.kind = "nobits" THEN obj.n ELSE dlen],
                                    [type |-> N(0), off |-> off2, vaddr |-> 64, filesz |-> fs, memsz |-> fs])
         IN [mode |-> "data", kind |-> obj.kind, chunks |-> Chunks(im), secidx |-> UserIndex(im, 2),
             payload |-> IF obj.kind = "nobits" THEN Rep(0, obj.n) ELSE Payload(obj.n),
             data_size |-> IF obj.kind = "zlib_badsize" THEN obj.n + 1 ELSE obj.n,
             data_align |-> IF obj.kind \in {"raw", "nobits"} THEN 16 ELSE ChAlign(obj.n),
             compressed |-> obj.kind \notin {"raw", "nobits"},
             error |-> obj.kind \in {"zlib_badsize", "zlib_badtype"},
             inseg |-> <<Bit(geo(dlen)), Bit(geo(obj.n))>>,
             twin |-> IF obj.kind = "zlib_twin" THEN Payload2(obj.n) ELSE <<>>,
             segdata |-> im.secs[2].data, interp |-> CStrAt(InterpData(obj.n), 0).s, interpdata |-> InterpData(obj.n),
             \* where the stream a different compressor would write may be substituted: [file offset, length of the slot,
             \* offset/width of sh_size, of p_filesz]  (harness-side recompression at other zlib levels)
             zslot |-> [off |-> off2 + SizeOf(ChdrF(obj.cl[1]), obj.cl[1]), len |-> dlen - SizeOf(ChdrF(obj.cl[1]), obj.cl[1])]]
\* sessions: the image of every world (mode "sessW"), every finished session with the answer of every call
WorldLine == LET Wd == SessTab[obj.w] IN
  [mode |-> "world", w |-> obj.w, chunks |-> Chunks(Wd.im), segs |-> [j \in 1..NSegW(Wd) |-> SegHdr(Wd, j)],
   secidx |-> [k \in 1..Len(Wd.im.secs) |-> UserIndex(Wd.im, k)], strsec |-> 8]
SessLine == [mode |-> "sess", disc |-> mode, w |-> obj.w, held |-> Bit(obj.held), calls |-> sess.log]
Emit == IF mode \in SessModes
        THEN IF mode = "sessW" THEN CSVWrite("%1$s", <<ToJson(WorldLine)>>, IOEnv.OUT)
             ELSE Len(sess.log) = SessDepth(mode) => CSVWrite("%1$s", <<ToJson(SessLine)>>, IOEnv.OUT)
        ELSE done => CSVWrite("%1$s", <<ToJson(Case)>>, IOEnv.OUT)

(* --------------------------------- properties --------------------------- *)
MacroEqGeometric == (mode = "inseg" /\ done) => \A k \in 1..NSecGeom : \A j \in 1..4 :
                                         InSegStrict(SecAtO(obj, k), SegAt(obj, j)) = Geometric(SecAtO(obj, k), SegAt(obj, j))
ChunkedEqDeclarative == mode = "strings" => \A o \in StrOffsets : LET d == CStrAt(StrTable, o)   c == ChunkRun(StrTable, o, <<>>) IN
                                              d.ok /\ c.ok /\ d.s = c.s
LongCompactEqDeclarative == mode = "longstr" => /\ Chunks(LongImage(obj.cl))[3][2] = LongTable
                                                /\ \A o \in LongOffsets : LET d == CStrAt(LongTable, o) IN d.ok /\ d.s = Expand(Compact(o))
DeflateRoundTrip == mode \in {"data", "data2"} /\ obj.kind = "zlib" => LET p == Payload(obj.n) IN Inflate(Stored(p, obj.blk), 3) = p
OffsetsInsideSegments == mode = "addr" => \A q \in AddrQueries : LET r == AddressOffsets(Layouts[obj.li], q[1], q[2]) IN
                                             \A i \in 1..Len(r) : \E j \in 1..Len(Layouts[obj.li]) :
                                                LET g == Layouts[obj.li][j] IN g.load /\ r[i] >= g.off /\ r[i] + q[2] <= g.off + g.filesz
\* --- sessions
\* the worlds are what the sessions need: at least three PT_LOADs, two of them overlapping in addresses with different file
\* mappings, distinguishable program headers, queries with no / one / several answers and an answer that is not the first PT_LOAD's
ASSUME \A w \in SessWorldKeys : LET Wd == SessTab[w]   n == NSegW(Wd)   loads == {j \in 1..n : Wd.lay[j].load} IN
         /\ Cardinality(loads) >= 3
         /\ \E i \in loads, j \in loads : i < j /\ Wd.lay[i].vaddr < Wd.lay[j].vaddr + Wd.lay[j].filesz /\ Wd.lay[j].vaddr < Wd.lay[i].vaddr + Wd.lay[i].filesz
                                        /\ Wd.lay[i].off - Wd.lay[i].vaddr # Wd.lay[j].off - Wd.lay[j].vaddr
         /\ \A i \in 1..n, j \in 1..n : i # j => Tail(SegHdr(Wd, i)) # Tail(SegHdr(Wd, j))      \* apart from the type
         /\ {1, 2} \subseteq {Len(AddressOffsets(Wd.lay, q[1], q[2])) : q \in SessQ}
         /\ \E q \in SessQ : LET r == AddressOffsets(Wd.lay, q[1], q[2]) IN r # <<>> /\ r[1] # q[1] - Wd.lay[Min(loads)].vaddr + Wd.lay[Min(loads)].off
         /\ \A j \in 1..n : Len(Wd.segdata[j]) = Wd.lay[j].filesz
ASSUME Inflate(Stored(Payload2(33), 65535), 3) = Payload2(33) /\ \A o \in SessStrOffs : CStrAt(SessStrTab, o).ok
\* what the cursors have yielded so far (the answers logged for a generator, in order)
RECURSIVE YieldedBy(_, _, _)
YieldedBy(log, g, i) == IF i > Len(log) THEN <<>>
                        ELSE (IF log[i].op \in {"adv", "drain"} /\ log[i].a = g THEN log[i].ans ELSE <<>>) \o YieldedBy(log, g, i + 1)
\* a generator's answers are a prefix of the declarative answer - exactly the part given by the table entries the cursor has
\* passed - whatever other generators and queries were interleaved; an exhausted generator has given all of it
SessGenPrefix == mode \in SessModes => LET Wd == SessTab[obj.w] IN \A g \in 1..Len(sess.gens) :
                   LET G == sess.gens[g]   d == GenDecl(Wd, G.kind, G.a, G.b)   ys == YieldedBy(sess.log, g, 1) IN
                   /\ Len(ys) <= Len(d) /\ ys = SubSeq(d, 1, Len(ys))
                   /\ (G.cur > NSegW(Wd) => ys = d)
                   /\ (G.cur <= NSegW(Wd) /\ Len(ys) < Len(d) => \E j \in (G.cur + 1)..NSegW(Wd) : GenAt(Wd, G, j) = <<d[Len(ys) + 1]>>)
\* the answer to an atomic query is the declarative view: it depends on the letter alone, not on its place in the log
SessHistoryFree == mode \in SessModes => LET Wd == SessTab[obj.w] IN \A i \in 1..Len(sess.log) :
                     LET c == sess.log[i] IN c.op \notin GenKinds \cup GenOps => c.ans = Answer(Wd, Letter(c.op, c.a, c.b))
=============================================================================
