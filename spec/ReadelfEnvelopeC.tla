-------------------------- MODULE ReadelfEnvelopeC --------------------------
(***************************************************************************)
(* C18, options --debug-dump=frames / frames-interp: the DEPTH of the       *)
(* remembered-state stack.                                                  *)
(*                                                                         *)
(* DWARF 2-5, 6.4.2.4: DW_CFA_remember_state pushes the set of rules for    *)
(* every register (and the CFA rule) "onto an implicit stack",              *)
(* DW_CFA_restore_state "pops the set of rules off the implicit stack and   *)
(* places them in the current row".  Compilers emit such pairs one after    *)
(* the other (an epilogue in the middle of a function); the standard makes  *)
(* it a STACK, so pairs may nest, and the interpreted table (frames-interp) *)
(* of a function with nested pairs shows, row by row, which level every     *)
(* DW_CFA_restore_state went back to.  The programs of the description      *)
(* sweep (Envelope.tla, dw_cfa) and of the CFI writer's exhaustive          *)
(* configurations (C06: all programs of <= 1 / <= 3 instructions) never     *)
(* hold more than one remembered state.  This module adds the dimension.    *)
(*                                                                         *)
(* The writer is the CFI writer of C06 (module CFI: same abstract section,  *)
(* same encoder Enc, same section 6.4 interpreter Exec, same invariants);   *)
(* what is new is the alphabet of its steps.  The program of the one FDE    *)
(* grows by BLOCKS, each ending in a row (DW_CFA_advance_loc 1):            *)
(*   Open(x)   DW_CFA_remember_state ; x ; advance   a level is entered     *)
(*   Close     DW_CFA_restore_state ; advance        the level is left      *)
(*   Step(x)   x ; advance                           a change at this level *)
(* x ranges over Changes (instructions that each touch a different column   *)
(* of the row: CFA offset, CFA register, a register rule).  All sequences   *)
(* of <= MaxBlocks blocks that keep 0 <= depth <= MaxDepth are built, from  *)
(* every CIE pre-state / alignment pair / container of the configuration.   *)
(* A case is emitted for every program with more than one pair: one in     *)
(* which a DW_CFA_restore_state pops a stack of two or more remembered      *)
(* states (nested pairs), or which has two or more DW_CFA_restore_state     *)
(* (pairs one after the other, depth 1); programs with a single pair are    *)
(* C06's business and in the sweep already.  Spec-computed classes: `depth` *)
(* (the deepest stack a restore popped from) and `closed` (every level      *)
(* entered has been left: the OUTER restores have happened).                *)
(*                                                                         *)
(* Checked by TLC on the specification itself, besides CFI!ScanInvariants   *)
(* and CFI!InterpInvariants (StackDiscipline, RestoreUsesInitial,           *)
(* TableMonotone hold at every depth):                                      *)
(*   DepthBracket       the stack grows by one at remember_state, shrinks   *)
(*                      by one at restore_state and is left alone by every  *)
(*                      other instruction; it never exceeds MaxDepth        *)
(*   OuterSurvivesInner between a remember_state and its matching           *)
(*                      restore_state the part of the stack below stays     *)
(*                      what it was: inner pairs do not disturb outer       *)
(*                      remembered states (a restore that reads the top     *)
(*                      without popping it breaks exactly this)             *)
(*   LevelsDistinguished in a closed program whose levels were entered with *)
(*                      pairwise different changes the rows right after the *)
(*                      restores are pairwise different, and the last one   *)
(*                      equals the row before the first remember_state      *)
(*                      except for the location (the generator really       *)
(*                      separates "went back to the wrong level")           *)
(*   BlocksEqBatch      the interpreter state carried along block by block  *)
(*                      is the state of the batch run of the whole program  *)
(*                                                                         *)
(* The TEXT is GNU readelf's (differential, see vf/c18.py); vf/c18_writers  *)
(* puts the emitted section into the container of ReadelfEnvelope.tla.      *)
(***************************************************************************)
EXTENDS CFI

CONSTANTS Changes,     \* the instructions x of Open(x) / Step(x)
          MaxBlocks,   \* longest program, in blocks
          MaxDepth     \* most remembered states at any time

Adv1 == I("DW_CFA_advance_loc", <<N(1)>>)
Remember == I("DW_CFA_remember_state", <<>>)
RestoreSt == I("DW_CFA_restore_state", <<>>)
OpenB(x) == <<Remember, x, Adv1>>
CloseB == <<RestoreSt, Adv1>>
StepB(x) == <<x, Adv1>>

\* alphabets of changes: each touches another column of the row (CFA offset / a register rule / CFA register)
Changes2 == {I("DW_CFA_def_cfa_offset", <<N(24)>>), I("DW_CFA_offset", <<N(6), N(2)>>)}
Changes3 == Changes2 \cup {I("DW_CFA_def_cfa_register", <<N(6)>>)}
Changes4 == Changes3 \cup {I("DW_CFA_same_value", <<N(3)>>)}

Prog == sec[2].ins
NBlocks(prog) == Cardinality({i \in 1..Len(prog) : prog[i] = Adv1})
Depth == Len(ist.st.stack)

AppendBlock(ls) ==
  /\ NBlocks(Prog) < MaxBlocks
  /\ ProgOK(ls, 1, ist.st, ist.ctx, par.asz)
  /\ sec' = [sec EXCEPT ![2].ins = @ \o ls]
  /\ LET sr == RunFrom(ls, 1, [st |-> ist.st, rows |-> ist.rows], ist.ctx) IN ist' = [ist EXCEPT !.st = sr.st, !.rows = sr.rows]
  /\ dv' = Derive(par, sec')
  /\ UNCHANGED par

NextC ==
  \/ \E x \in Changes : Depth < MaxDepth /\ AppendBlock(OpenB(x))
  \/ Depth > 0 /\ AppendBlock(CloseB)
  \/ \E x \in Changes : AppendBlock(StepB(x))
SpecC == Init /\ [][NextC]_vars

(* ------------------------------ classes -------------------------------- *)
\* the states the FDE's program goes through (ss[i]: before instruction i)
FdeStates == LET c == sec[1]   cs == CieRun(c, FALSE).st IN
             StatesFrom(Prog, 1, FdeSt0(cs, DTrunc(sec[2].loc.d, 8)), Ctx(c.caf, c.daf, cs.rules, TRUE, FALSE))
RestoreIxs(prog) == {i \in 1..Len(prog) : prog[i] = RestoreSt}
\* the deepest stack a DW_CFA_restore_state popped from (0: no restore_state)
PopDepth(prog, ss) == IF RestoreIxs(prog) = {} THEN 0 ELSE Max({Len(ss[i].stack) : i \in RestoreIxs(prog)})

(* ------------------------------ emission ------------------------------- *)
\* the fields of CFI!Case the readelf comparison needs (no tables: the text is GNU readelf's) + the classes of this module
CaseC(d) ==
  LET vs == dv.vs IN
  [m |-> Mode, sk |-> par.sk, le |-> par.le, fmt |-> par.fmt, asz |-> par.asz, addr |-> W(par.addr),
   bytes |-> dv.bs, ents |-> [i \in 1..Len(vs) |-> EntJ(vs[i])], flags |-> Flags(par, sec),
   depth |-> d, closed |-> (Depth = 0), blocks |-> NBlocks(Prog)]
EmitC == Good => LET d == PopDepth(Prog, FdeStates) IN
                 (d >= 2 \/ Cardinality(RestoreIxs(Prog)) >= 2) => CSVWrite("%1$s", <<ToJson(CaseC(d))>>, IOEnv.OUT)

(* ------------------------------ properties ----------------------------- *)
DepthBracket(prog, ss) ==
  \A i \in 1..Len(prog) :
     /\ Len(ss[i + 1].stack) = Len(ss[i].stack) + (CASE prog[i] = Remember -> 1 [] prog[i] = RestoreSt -> -1 [] OTHER -> 0)
     /\ Len(ss[i + 1].stack) <= MaxDepth
\* the remember_state a restore_state at i matches: the last one before i that was executed at the depth the restore returns to
Match(prog, ss, i) == Max({j \in 1..(i - 1) : prog[j] = Remember /\ Len(ss[j].stack) = Len(ss[i + 1].stack)})
OuterSurvivesInner(prog, ss) ==
  \A i \in RestoreIxs(prog) :
     LET j == Match(prog, ss, i)   below == ss[j].stack IN
     \A k \in (j + 1)..i : /\ Len(ss[k].stack) > Len(below)
                           /\ SubSeq(ss[k].stack, 1, Len(below)) = below
                           /\ ss[k].stack[Len(below) + 1] = <<ss[j].cfa, ss[j].rules>>
RowPart(st) == <<st.cfa, st.rules>>
LevelsDistinguished(prog, ss) ==
  LET opens == {j \in 1..Len(prog) : prog[j] = Remember}
      rs == RestoreIxs(prog)
      \* Open(x): the change follows the remember_state
      pairwise == \A a, b \in opens : a # b => prog[a + 1] # prog[b + 1]
      steps == {j \in 1..Len(prog) : prog[j] \in Changes /\ (j = 1 \/ prog[j - 1] # Remember)}
  IN (Depth = 0 /\ opens # {} /\ steps = {} /\ pairwise /\ Cardinality(opens) = PopDepth(prog, ss)) =>
        \* one nest, no steps: the restores leave the levels from the innermost to the outermost
        /\ \A a, b \in rs : a # b => RowPart(ss[a + 1]) # RowPart(ss[b + 1])
        /\ RowPart(ss[Max(rs) + 1]) = RowPart(ss[Min(opens)])
BlocksEqBatch == LET r == FdeRun(sec[1], sec[2], DTrunc(sec[2].loc.d, 8), FALSE) IN r.st = ist.st /\ r.rows = ist.rows

NestInvariants ==
  Good => LET ss == FdeStates IN
          /\ Named("DepthBracket", DepthBracket(Prog, ss))
          /\ Named("OuterSurvivesInner", OuterSurvivesInner(Prog, ss))
          /\ Named("LevelsDistinguished", LevelsDistinguished(Prog, ss))
          /\ Named("BlocksEqBatch", BlocksEqBatch)
=============================================================================
