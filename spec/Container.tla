------------------------------ MODULE Container ------------------------------
(***************************************************************************)
(* C11 - the DWARF view is invariant under container encoding of the same   *)
(* debug data.                                                              *)
(*                                                                         *)
(* Transcribed: gABI ch.4 "Section compression" (SHF_COMPRESSED, Elf32/64_  *)
(* Chdr, ELFCOMPRESS_ZLIB = 1); RFC 1950/1951 (zlib container, stored       *)
(* deflate blocks, Adler-32) - written by the specification itself, as in   *)
(* Geometry.tla; the legacy GNU convention (binutils bfd/compress.c: a      *)
(* section .debug_X whose compressed form is smaller is renamed .zdebug_X   *)
(* and holds "ZLIB", the uncompressed size as 8 bytes big-endian, and a     *)
(* zlib stream; only names that start with .debug_ are renamed, each        *)
(* section on its own); GDB manual 18.3 "Debugging information in separate  *)
(* files" (.gnu_debuglink = file name, NUL, zero padding to a multiple of   *)
(* four, CRC-32 of the linked file in the file's byte order; looked for     *)
(* when the file has no debugging information of its own); the GNU          *)
(* .gnu_debugaltlink section (dwz: file name, NUL, build id) and DWARF5     *)
(* 7.3.6 .debug_sup (version, is_supplementary, file name, checksum length, *)
(* checksum); DWARF5 7.5.5 DW_FORM_strp_sup / DW_FORM_GNU_strp_alt (offset   *)
(* into the supplementary file's .debug_str).                               *)
(*                                                                         *)
(* The environment (writer) picks a configuration `cfg`: class, byte order, *)
(* a small DWARF payload P whose bytes are written with DieEnc (.debug_info *)
(* .debug_abbrev .debug_str, a line table, an .eh_frame), an encoding plan   *)
(* per section (plain / SHF_COMPRESSED with the right, a too big or a too    *)
(* small declared size, or an unassigned type / .zdebug framing with good   *)
(* or bad magic, size (both ways), length; .zdebug for some sections only,  *)
(* as the GNU tools write it when the others do not shrink; plan "mix": an   *)
(* encoding chosen per section, cfg.mix in {plain, gabi, z}^5 over info,     *)
(* abbrev, str, line, debug_sup - every non-uniform assignment of the first  *)
(* four, so that each naming / flag occurs next to each other one and in     *)
(* particular .debug_info is plain while others are not), where the debug    *)
(* sections live (the opened file, or a separate file behind .gnu_debuglink *)
(* with a right or wrong CRC), a supplementary link (.gnu_debugaltlink,      *)
(* .debug_sup with is_supplementary 0 or 1), whether a stream loader exists *)
(* and whether links are to be followed.  `Build` writes the files.         *)
(*                                                                         *)
(* The reader is the loading pipeline, one action per step:                 *)
(*   CheckLink, FollowDebugLink (CRC compare, then the linked file with      *)
(*   follow_links = TRUE), ReadSection (with the name selection .debug_X /   *)
(*   .zdebug_X per section), InflateGabi, InflateLegacy, LoadSupplementary.  *)
(* Then the client holds the loaded object and may ASK again, in any order   *)
(* and repeatedly (action Ask, at most MaxQueries times): "name" - which     *)
(* supplementary file do the link sections name (parse_debugsupinfo), "sup" *)
(* - load the supplementary file for this object (get_supplementary_        *)
(* dwarfinfo), "view" - walk the debugging information of the object again. *)
(* Each answer is computed by the machine from the bytes it loaded; it must  *)
(* not depend on what was asked before (AnswersStable).                      *)
(* It works on the bytes of the sections the writer produced (compression   *)
(* headers, framing, link records are parsed, stored-block streams are      *)
(* inflated).  Crc32 of a file and inflation of streams other than stored   *)
(* blocks stay uninterpreted (Python zlib/binascii in the harness: the CRC  *)
(* field is a designated slot, deflate levels are substituted harness-side).*)
(*                                                                         *)
(* TLC checks on the specification (exhaustive):                            *)
(*   Invariance      every valid encoding of P loads exactly P (and S)       *)
(*   OutcomeMatches  the machine's outcome = the declarative Expect(cfg)     *)
(*   HasDwarfExact   names read back from the image's string table: info     *)
(*                   present <=> .debug_info or .zdebug_info (or, non-strict,*)
(*                   .eh_frame) <=> what the writer meant                    *)
(*   BadCrcRejected, BadSizeRejected, BadFramingRejected                     *)
(*   RoundTrips      Inflate(Stored(p)) = p, link records parse back         *)
(*   AnswersStable   every answer to a repeated / reordered question equals  *)
(*                   the declarative answer DeclAnswer(cfg, q): a function   *)
(*                   of the configuration, not of the history; a reloaded    *)
(*                   supplementary file is S again (SupAgain)                *)
(*   MixCovers       (ASSUME) the per-section plans contain, for every pair  *)
(*                   of distinct encodings (a, b) and every section x other  *)
(*                   than info, a file with info stored as a and x as b      *)
(*   Progress        a variant function decreases with every step; with     *)
(*                   deadlock checking on and `Done` the only stuttering    *)
(*                   state, every behaviour ends in "done" (termination)    *)
(*                                                                         *)
(* Options across a link (family "rlink", and `reloc` in family "chain"):    *)
(* the client's two options - follow_links and relocate_dwarf_sections -     *)
(* govern the sections of whichever file carries them.  To make the second   *)
(* one observable the carrier of family "rlink" is a relocatable object      *)
(* (gABI ch.4 "Relocation": ET_REL, a SHT_RELA / SHT_REL section whose        *)
(* sh_info names the section it applies to and whose sh_link names the       *)
(* symbol table; the psABIs' "S + A" word relocations R_X86_64_64/32,        *)
(* R_386_32, R_MIPS_32, R_PPC64_ADDR64/32; Elf_Rela carries A, Elf_Rel takes  *)
(* it from the place; relocation offsets refer to the UNCOMPRESSED data,     *)
(* gABI "Section compression") with one relocation on a DW_FORM_strp field   *)
(* of .debug_info against a symbol inside .debug_str: the stored bytes and   *)
(* the relocated bytes are both well-formed and differ (RelocMatters).  The  *)
(* machine applies it (action Relocate, after inflation) exactly when the    *)
(* option says so - also in the file behind .gnu_debuglink - and the view    *)
(* expected with relocate_dwarf_sections = FALSE is the stored one.          *)
(* An unstripped file that carries a .gnu_debuglink (home = main, dl # none) *)
(* names a file with a DIFFERENT payload (PayloadDecoy): debugging            *)
(* information of its own, in whichever naming/encoding, wins over the link. *)
(* Link targets that are present but not decodable (strengthening round 4): *)
(* the file a link names - the debug file behind .gnu_debuglink, the         *)
(* supplementary file behind .gnu_debugaltlink / .debug_sup, also at the end *)
(* of a stripped -> debug -> supplementary chain - is written under each of  *)
(* the bad plans of BadTargetPlans (declared size too big / too small, bad   *)
(* compression type, bad .zdebug magic / size / length) or is not an object  *)
(* file at all (`tgt` = "garbage").  The machine reads a link target with    *)
(* the very actions it uses for the opened file, so a bad target fails       *)
(* exactly as it does when opened directly (TargetAsDirect: the error the    *)
(* machine ends with = DirectErr of the target, whenever the target is       *)
(* reached; BadTargetRejected: a reached target with a bad declared size /   *)
(* framing is never dropped silently).  A target that is NOT reached (no     *)
(* loader, links not followed) is never read: the outcome is that of the     *)
(* opened file alone.  The property fixes the rejection of bad sizes /       *)
(* framing wherever the data are; it does not say what a target that is no   *)
(* ELF file yields: "error:notelf" or the opened file's own view without the *)
(* target (Alternatives) - only those two.  A missing target (the loader has *)
(* no such file) is a different case (Fail("nofile"), not generated).        *)
(* Section types and the set of debug sections (strengthening round 5).      *)
(* Family "stype": the sh_type of the debug sections is a dimension of the   *)
(* writer - SHT_PROGBITS, SHT_MIPS_DWARF on the MIPS machine (every .debug_* *)
(* / .zdebug_* section), SHT_X86_64_UNWIND for .eh_frame on x86-64, a type   *)
(* from the application range for "any other type" - x the plain / gABI /    *)
(* legacy encodings, the bad-size / bad-type plans, behind a debug link, in   *)
(* a supplementary pair, and with exception frames only.  The reader machine *)
(* never looks at sh_type: SHF_COMPRESSED is a flag, the sections are found  *)
(* by name (TypeBlind: a configuration and its SHT_PROGBITS twin differ in   *)
(* the type fields only; Invariance / OutcomeMatches do not mention types).  *)
(* Family "full": a payload that leans on EVERY debug section name a reader   *)
(* of DWARF 2-5 looks for - DWARF 4: .debug_types (DW_FORM_ref_sig8),        *)
(* .debug_loc, .debug_ranges, .debug_pubnames, .debug_pubtypes; DWARF 5:      *)
(* .debug_str_offsets (strx), .debug_line_str (line_strp), .debug_addr        *)
(* (addrx), .debug_loclists (loclistx), .debug_rnglists (rnglistx); both:     *)
(* .debug_aranges, .debug_frame next to info / abbrev / str / line - each     *)
(* written from a small abstract table and read back (FullRoundTrips).  The   *)
(* encoding is chosen per section: uniform plans and "one section stored as   *)
(* b, all the others as a" for every section and ordered pair of distinct     *)
(* encodings (FullCovers).  The reader's list of names is LogicalFull; a name *)
(* a file does not have is passed over within the step (NextIx).  The view    *)
(* emitted with the reference (SecViewOf) holds the abstract tables: line     *)
(* rows, aranges tuples, pubnames / pubtypes entries, location and range      *)
(* lists, frame entries, the type unit.                                      *)
(* Not modelled: phantom bytes; relocation types other than S + A (C09 owns   *)
(* them; the driver's corpus transforms cover compiler-made relocatable files *)
(* metamorphically: the view of a re-encoded / split object must equal that  *)
(* of the plain one under the same options).                                 *)
(* Not asserted (the property does not fix it): a file that carries both    *)
(* its own debug sections and a .gnu_debuglink with a wrong CRC may load P  *)
(* or reject the link (`alt`); .debug_X and .zdebug_X of the same X in one  *)
(* file is not generated; a .zdebug section that is also SHF_COMPRESSED is  *)
(* not generated; which exception class reports bad framing is left to the  *)
(* property text (the driver maps error kinds to the allowed classes).      *)
(***************************************************************************)
EXTENDS Elf, DieEnc, Json, CSV, IOUtils

CONSTANTS ClsLeAll,      \* class / byte-order pairs of the encoding family
          ClsLeLinks,    \* ... of the link families
          VerFmts,       \* DWARF version / format pairs of the encoding family
          Plans,         \* encoding plans of the encoding family
          Families,      \* subset of {"enc", "nodwarf", "dlink", "sup", "chain", "rlink"}
          BadTargetPlans,\* the bad plans a link target (debug file / supplementary file) is written under
          Wide,          \* BOOLEAN: per-section plans in every DWARF flavour (else one per class/byte order); questions after every
                         \* encoding of the supplementary file (else after its plain encoding)
          MaxQueries     \* how many questions the client asks the loaded object (< 8; 0: none)

VARIABLES cfg, files, pc, cur, fl, ix, buf, got, err,
          qs, ans        \* the questions the client asked the loaded object so far, and the answers it got
vars == <<cfg, files, pc, cur, fl, ix, buf, got, err, qs, ans>>

(* ------------------------------- names --------------------------------- *)
DotDebugInfo == <<46, 100, 101, 98, 117, 103, 95, 105, 110, 102, 111>>                       \* ".debug_info"
DotDebugAbbrev == <<46, 100, 101, 98, 117, 103, 95, 97, 98, 98, 114, 101, 118>>             \* ".debug_abbrev"
DotDebugStr == <<46, 100, 101, 98, 117, 103, 95, 115, 116, 114>>                            \* ".debug_str"
DotDebugLine == <<46, 100, 101, 98, 117, 103, 95, 108, 105, 110, 101>>                      \* ".debug_line"
DotDebugSup == <<46, 100, 101, 98, 117, 103, 95, 115, 117, 112>>                            \* ".debug_sup"
DotDebugTypes == <<46, 100, 101, 98, 117, 103, 95, 116, 121, 112, 101, 115>>                                   \* ".debug_types"
DotDebugAranges == <<46, 100, 101, 98, 117, 103, 95, 97, 114, 97, 110, 103, 101, 115>>                        \* ".debug_aranges"
DotDebugFrame == <<46, 100, 101, 98, 117, 103, 95, 102, 114, 97, 109, 101>>                                   \* ".debug_frame"
DotDebugLoc == <<46, 100, 101, 98, 117, 103, 95, 108, 111, 99>>                                               \* ".debug_loc"
DotDebugRanges == <<46, 100, 101, 98, 117, 103, 95, 114, 97, 110, 103, 101, 115>>                             \* ".debug_ranges"
DotDebugPubnames == <<46, 100, 101, 98, 117, 103, 95, 112, 117, 98, 110, 97, 109, 101, 115>>                  \* ".debug_pubnames"
DotDebugPubtypes == <<46, 100, 101, 98, 117, 103, 95, 112, 117, 98, 116, 121, 112, 101, 115>>                 \* ".debug_pubtypes"
DotDebugStrOffsets == <<46, 100, 101, 98, 117, 103, 95, 115, 116, 114, 95, 111, 102, 102, 115, 101, 116, 115>> \* ".debug_str_offsets"
DotDebugLineStr == <<46, 100, 101, 98, 117, 103, 95, 108, 105, 110, 101, 95, 115, 116, 114>>                  \* ".debug_line_str"
DotDebugAddr == <<46, 100, 101, 98, 117, 103, 95, 97, 100, 100, 114>>                                         \* ".debug_addr"
DotDebugLoclists == <<46, 100, 101, 98, 117, 103, 95, 108, 111, 99, 108, 105, 115, 116, 115>>                 \* ".debug_loclists"
DotDebugRnglists == <<46, 100, 101, 98, 117, 103, 95, 114, 110, 103, 108, 105, 115, 116, 115>>                \* ".debug_rnglists"
DotEhFrame == <<46, 101, 104, 95, 102, 114, 97, 109, 101>>                                  \* ".eh_frame"
DotGnuDebuglink == <<46, 103, 110, 117, 95, 100, 101, 98, 117, 103, 108, 105, 110, 107>>    \* ".gnu_debuglink"
DotGnuDebugaltlink == <<46, 103, 110, 117, 95, 100, 101, 98, 117, 103, 97, 108, 116, 108, 105, 110, 107>>   \* ".gnu_debugaltlink"
DotDebugPrefix == <<46, 100, 101, 98, 117, 103, 95>>                                        \* ".debug_"
DotZdebugPrefix == <<46, 122, 100, 101, 98, 117, 103, 95>>                                  \* ".zdebug_"
ZlibMagic == <<90, 76, 73, 66>>                                                             \* "ZLIB"
BadMagic == <<90, 76, 73, 67>>                                                              \* "ZLIC"
SrcName == <<97, 46, 99>>                                                                   \* "a.c"
SupFileName == <<120, 46, 115, 117, 112>>                                                   \* "x.sup"
DotDbg == <<46, 100, 98, 103>>                                                              \* ".dbg"
DotSymtab == <<46, 115, 121, 109, 116, 97, 98>>                                              \* ".symtab"
DotStrtab == <<46, 115, 116, 114, 116, 97, 98>>                                              \* ".strtab"
DotRela == <<46, 114, 101, 108, 97>>                                                        \* ".rela"
DotRel == <<46, 114, 101, 108>>                                                             \* ".rel"
HasPrefix(s, p) == Len(s) >= Len(p) /\ SubSeq(s, 1, Len(p)) = p
\* the legacy GNU name of a .debug_X section
ZName(n) == DotZdebugPrefix \o SubSeq(n, Len(DotDebugPrefix) + 1, Len(n))
IsZName(n) == HasPrefix(n, DotZdebugPrefix)

ClsLeIx(cls, le) == CASE cls = 64 /\ le -> 1 [] cls = 32 /\ le -> 2 [] cls = 32 /\ ~le -> 3 [] OTHER -> 4
\* the debug file's name: its length runs through the four padding residues of the link record
DbgFileName(c) == Rep(100, ClsLeIx(c.cls, c.le)) \o DotDbg
MachOf(c) == CASE c.cls = 64 /\ c.le -> 62 [] c.cls = 32 /\ c.le -> 3 [] c.cls = 32 /\ ~c.le -> 8 [] OTHER -> 21      \* x86-64, i386, MIPS, PPC64

(* ------------------------- zlib (stored blocks) ------------------------ *)
\* RFC 1950 2.2 / 8.2, RFC 1951 3.2.4 - copied from Geometry.tla (pure operators)
AdlerMod == 65521
RECURSIVE SumMod(_, _, _)
SumMod(f, lo, hi) == IF lo > hi THEN 0 ELSE IF lo = hi THEN f[lo] % AdlerMod
                     ELSE LET mid == (lo + hi) \div 2 IN (SumMod(f, lo, mid) + SumMod(f, mid + 1, hi)) % AdlerMod
Adler32(p) == LET n == Len(p)
                  a == (1 + SumMod(p, 1, n)) % AdlerMod
                  b == (n + SumMod([i \in 1..n |-> (((n - i + 1) % AdlerMod) * p[i]) % AdlerMod], 1, n)) % AdlerMod
              IN <<b \div 256, b % 256, a \div 256, a % 256>>
Stored(p, blk) ==
  LET nb == IF Len(p) = 0 THEN 1 ELSE (Len(p) + blk - 1) \div blk
      piece(k) == SubSeq(p, (k - 1) * blk + 1, IF k * blk < Len(p) THEN k * blk ELSE Len(p))
      block(k) == LET d == piece(k) IN <<IF k = nb THEN 1 ELSE 0>> \o LEn(Len(d), 2) \o LEn(65535 - Len(d), 2) \o d
  IN <<120, 1>> \o Flat([k \in 1..nb |-> block(k)]) \o Adler32(p)
RECURSIVE InflateBlocks(_, _)
InflateBlocks(z, at) == LET fin == z[at]   n == z[at + 1] + 256 * z[at + 2] IN
                        SubSeq(z, at + 5, at + 4 + n) \o (IF fin = 1 THEN <<>> ELSE InflateBlocks(z, at + 5 + n))
\* the reader of the streams the writer produces (header 78 01, stored blocks); anything else is uninterpreted
Inflate(z) == InflateBlocks(z, 3)

(* ------------------------------ the payload ---------------------------- *)
AtStmtList == 16
TagPartial == 60
TagBaseType == 36
PCtx(c) == Ctx(c.ver, c.fmt, c.cls \div 8, c.le)
AltFormOf(sup) == CASE sup = "altlink" -> "DW_FORM_GNU_strp_alt" [] sup = "debug_sup" -> "DW_FORM_strp_sup" [] OTHER -> ""
StmtForm(c) == IF c.ver >= 4 THEN "DW_FORM_sec_offset" ELSE "DW_FORM_data4"
\* the supplementary file's string table: "", "shared", "common_type"
SupStrSec == <<0>> \o <<115, 104, 97, 114, 101, 100, 0>> \o <<99, 111, 109, 109, 111, 110, 95, 116, 121, 112, 101, 0>>
SupStrOff == 8
Die(code, attrs) == [code |-> code, nullenc |-> <<>>, attrs |-> attrs]
MainDecls(c) ==
  << Decl(1, TagCU, TRUE, <<Spec1(AtName, "DW_FORM_strp")>> \o (IF c.line THEN <<Spec1(AtStmtList, StmtForm(c))>> ELSE <<>>)),
     Decl(2, TagVariable, FALSE, <<Spec1(AtName, "DW_FORM_string"), Spec1(AtConst, "DW_FORM_data1")>>),
     Decl(3, TagVariable, FALSE, <<Spec1(AtName, "DW_FORM_strp")>>) >>
  \o (IF AltFormOf(c.sup) # "" THEN <<Decl(4, TagTypedef, FALSE, <<Spec1(AtName, AltFormOf(c.sup))>>)>> ELSE <<>>)
MainDiesOf(c, const, strp3) ==
  << Die(1, <<A("DW_FORM_strp", N(StrOffs[2]))>> \o (IF c.line THEN <<A(StmtForm(c), N(0))>> ELSE <<>>)),
     Die(2, <<A("DW_FORM_string", B(<<104, 105>>)), A("DW_FORM_data1", N(const))>>),
     Die(3, <<A("DW_FORM_strp", N(strp3))>>) >>                            \* the string longer than a 64-byte read chunk
  \o (IF AltFormOf(c.sup) # "" THEN <<Die(4, <<A(AltFormOf(c.sup), N(SupStrOff))>>)>> ELSE <<>>)
  \o <<NullDie>>
MainDies(c) == MainDiesOf(c, 165, StrOffs[4])
\* ---- the payload "full" (strengthening round 5): a unit whose entries lean on EVERY debug section of its DWARF flavour.
\* DWARF 4: the range list of the unit in .debug_ranges, a location list in .debug_loc (class rangelistptr / loclistptr, DWARF4 7.5.4:
\* DW_FORM_sec_offset), a type designated by signature (DW_FORM_ref_sig8, 7.5.4 "reference") whose type unit lives in .debug_types (7.5.1.2);
\* lookup tables .debug_pubnames / .debug_pubtypes / .debug_aranges (6.1), call frames in .debug_frame (6.4).
\* DWARF 5: strings through .debug_str_offsets (DW_FORM_strx*, 7.26) and .debug_line_str (DW_FORM_line_strp), an address through .debug_addr
\* (DW_FORM_addrx, 7.27), lists through the offset tables of .debug_loclists / .debug_rnglists (DW_FORM_loclistx / rnglistx, 7.28 / 7.29) -
\* the supporting sections are DieEnc's (StrOffsetsSec, LineStrSec, AddrSec, ListsSec); .debug_aranges and .debug_frame as in DWARF 4.
AtLowPc == 17
AtLocation == 2
AtRanges == 85
AtCompDir == 27
TagTypeUnit == 65
FSecOff == "DW_FORM_sec_offset"
FullDecls(c) ==
  IF c.ver <= 4
  THEN << Decl(1, TagCU, TRUE, <<Spec1(AtName, "DW_FORM_strp"), Spec1(AtStmtList, FSecOff), Spec1(AtRanges, FSecOff), Spec1(AtLowPc, "DW_FORM_addr")>>),
          Decl(2, TagVariable, FALSE, <<Spec1(AtName, "DW_FORM_string"), Spec1(AtLocation, FSecOff)>>),
          Decl(3, TagTypedef, FALSE, <<Spec1(AtName, "DW_FORM_strp"), Spec1(AtType, "DW_FORM_ref_sig8")>>) >>
  ELSE << Decl(1, TagCU, TRUE, <<Spec1(AtStrOffsetsBase, FSecOff), Spec1(AtAddrBase, FSecOff), Spec1(AtRnglistsBase, FSecOff), Spec1(AtLoclistsBase, FSecOff),
                                Spec1(AtName, "DW_FORM_strx1"), Spec1(AtCompDir, "DW_FORM_line_strp"), Spec1(AtStmtList, FSecOff), Spec1(AtLowPc, "DW_FORM_addrx")>>),
          Decl(2, TagVariable, FALSE, <<Spec1(AtName, "DW_FORM_strx"), Spec1(AtLocation, "DW_FORM_loclistx")>>),
          Decl(3, TagSubprogram, FALSE, <<Spec1(AtName, "DW_FORM_string"), Spec1(AtLowPc, "DW_FORM_addrx"), Spec1(AtRanges, "DW_FORM_rnglistx")>>) >>
FullDies(c) ==
  LET x == PCtx(c) IN
  IF c.ver <= 4
  THEN << Die(1, <<A("DW_FORM_strp", N(StrOffs[2])), A(FSecOff, N(0)), A(FSecOff, N(0)), A("DW_FORM_addr", N(4096))>>),
          Die(2, <<A("DW_FORM_string", B(<<104, 105>>)), A(FSecOff, N(0))>>),
          Die(3, <<A("DW_FORM_strp", N(StrOffs[4])), A("DW_FORM_ref_sig8", U0.sig)>>), NullDie >>
  ELSE << Die(1, <<A(FSecOff, N(HdrLen(x))), A(FSecOff, N(HdrLen(x))), A(FSecOff, N(ListsBase(x))), A(FSecOff, N(ListsBase(x))),
                   Ax("DW_FORM_strx1", N(1), 1), A("DW_FORM_line_strp", N(LineStrOffs[2])), A(FSecOff, N(0)), Ax("DW_FORM_addrx", B(UlebOfNat(0)), 0)>>),
          Die(2, <<Ax("DW_FORM_strx", B(UlebOfNat(3)), 3), Ax("DW_FORM_loclistx", B(UlebOfNat(0)), 0)>>),
          Die(3, <<A("DW_FORM_string", B(<<104, 105>>)), Ax("DW_FORM_addrx", B(UlebOfNat(2)), 2), Ax("DW_FORM_rnglistx", B(UlebOfNat(0)), 0)>>), NullDie >>
MainUnit(c) == [U0 EXCEPT !.ctx = PCtx(c), !.utype = IF c.ver >= 5 THEN "DW_UT_compile" ELSE "legacy",
                          !.abbrevs = IF c.full THEN FullDecls(c) ELSE MainDecls(c), !.dies = IF c.full THEN FullDies(c) ELSE MainDies(c)]
\* the DWARF 4 type unit of .debug_types: its abbreviations are a private table behind the compile unit's
TypeDecls == << Decl(1, TagTypeUnit, TRUE, <<>>), Decl(2, TagBaseType, FALSE, <<Spec1(AtName, "DW_FORM_strp")>>) >>
TypeUnit(c) == FixType([U0 EXCEPT !.ctx = PCtx(c), !.utype = "tu4", !.abbrevOff = Len(EncAbbrevs(FullDecls(c))), !.abbrevs = TypeDecls,
                                  !.dies = <<Die(1, <<>>), Die(2, <<A("DW_FORM_strp", N(StrOffs[5]))>>), NullDie>>])
\* ---- the other sections of the full payload, each written from a small abstract table (and read back: FullRoundTrips)
InitLenOf(x, body) == (IF x.fmt = 32 THEN Fix(N(Len(body)), 4, x.le) ELSE <<255, 255, 255, 255>> \o Fix(N(Len(body)), 8, x.le)) \o body
FO(x, n) == Fix(N(n), OffSize(x), x.le)
FA(x, n) == Fix(N(n), x.asz, x.le)
\* .debug_aranges (DWARF4 6.1.2, 7.20): unit_length, version 2, debug_info_offset, address_size, segment_size, padding to a multiple of the
\* tuple size, (address, length) tuples, a (0, 0) terminator
ArTuples == << <<4096, 16>>, <<8192, 32>> >>
ArHdrLen(x) == InitLenSize(x) + 2 + OffSize(x) + 2
ArangesSec(x) ==
  InitLenOf(x, Fix(N(2), 2, x.le) \o FO(x, 0) \o <<x.asz, 0>> \o Rep(0, RoundUp(ArHdrLen(x), 2 * x.asz) - ArHdrLen(x))
               \o Flat([i \in 1..Len(ArTuples) |-> FA(x, ArTuples[i][1]) \o FA(x, ArTuples[i][2])]) \o Rep(0, 2 * x.asz))
\* .debug_pubnames / .debug_pubtypes (DWARF4 6.1.1, 7.19): unit_length, version 2, debug_info_offset, debug_info_length, (offset, name NUL)*, 0
PubSec(x, infolen, ents) ==
  InitLenOf(x, Fix(N(2), 2, x.le) \o FO(x, 0) \o FO(x, infolen)
               \o Flat([i \in 1..Len(ents) |-> FO(x, ents[i][1]) \o ents[i][2] \o <<0>>]) \o Rep(0, OffSize(x)))
PubNames(c) == LET v == UnitView(MainUnit(c), 0) IN << <<v.dies[2].off, <<104, 105>> >> >>                          \* "hi": the variable
PubTypes(c) == LET v == UnitView(MainUnit(c), 0) IN << <<v.dies[3].off, CStrAt(StrSec, StrOffs[4]).s>> >>           \* the typedef, by its .debug_str name
\* .debug_loc (DWARF4 2.6.2, 7.7.3): (begin, end, 2-byte length, expression)*, (0, 0); offsets relative to the unit's base address
LocEnts == << <<0, 4, <<80>> >>, <<4, 16, <<145, 120>> >> >>                                                        \* DW_OP_reg0; DW_OP_fbreg -8
LocSec(x) == Flat([i \in 1..Len(LocEnts) |-> FA(x, LocEnts[i][1]) \o FA(x, LocEnts[i][2]) \o Fix(N(Len(LocEnts[i][3])), 2, x.le) \o LocEnts[i][3]])
             \o Rep(0, 2 * x.asz)
\* .debug_ranges (DWARF4 2.17.3, 7.24): (begin, end)*, (0, 0)
RangeEnts == << <<0, 4>>, <<8, 16>> >>
RangesSec(x) == Flat([i \in 1..Len(RangeEnts) |-> FA(x, RangeEnts[i][1]) \o FA(x, RangeEnts[i][2])]) \o Rep(0, 2 * x.asz)
\* .debug_frame (DWARF4 6.4.1, 7.23): a version 1 CIE (CIE_id all ones, augmentation "", code alignment 1, data alignment -8, return address
\* register 16; DW_CFA_def_cfa r7 8, DW_CFA_offset r16 1) and one FDE (CIE_pointer 0, initial_location 0x1000, address_range 16;
\* DW_CFA_advance_loc 1, DW_CFA_def_cfa_offset 16), each padded with DW_CFA_nop to a multiple of the address size
NopPad(x, b) == b \o Rep(0, RoundUp(InitLenSize(x) + Len(b), x.asz) - (InitLenSize(x) + Len(b)))
FrameFde == [loc |-> 4096, range |-> 16]
FrameSec(x) ==
  LET cie == NopPad(x, Rep(255, OffSize(x)) \o <<1, 0, 1, 120, 16, 12, 7, 8, 144, 1>>)
      fde == NopPad(x, FO(x, 0) \o FA(x, FrameFde.loc) \o FA(x, FrameFde.range) \o <<65, 14, 16>>)
  IN InitLenOf(x, cie) \o InitLenOf(x, fde)
FrameFdeOff(x) == InitLenSize(x) + Len(NopPad(x, Rep(255, OffSize(x)) \o <<1, 0, 1, 120, 16, 12, 7, 8, 144, 1>>))
\* .debug_loclists / .debug_rnglists (DWARF5 7.28, 7.29): DieEnc!ListsSec's header and offset table (index 0 -> ListOffs[1], index 1 ->
\* ListOffs[2] = the byte behind the table), but the list of index 0 is not empty: DW_LLE_offset_pair (4) begin end, counted expression
\* / DW_RLE_offset_pair (4) begin end, then DW_LLE / DW_RLE_end_of_list (0); the list of index 1 stays the lone end-of-list byte
LocList5 == << <<0, 4, <<80>> >> >>
RngList5 == << <<8, 16>> >>
ListsSecWith(x, list0) ==
  LET b2 == (IF x.le THEN <<5, 0>> ELSE <<0, 5>>) \o <<x.asz, 0>> \o Fix(N(2), 4, x.le)
            \o Flat([i \in 1..2 |-> Fix(N(ListOffs(x)[i]), OffSize(x), x.le)]) \o <<0>> \o list0 \o <<0>>
  IN InitLenOf(x, b2)
LocListsSec(x) == ListsSecWith(x, Flat([i \in 1..Len(LocList5) |-> <<4>> \o UlebOfNat(LocList5[i][1]) \o UlebOfNat(LocList5[i][2])
                                                                      \o UlebOfNat(Len(LocList5[i][3])) \o LocList5[i][3]]))
RngListsSec(x) == ListsSecWith(x, Flat([i \in 1..Len(RngList5) |-> <<4>> \o UlebOfNat(RngList5[i][1]) \o UlebOfNat(RngList5[i][2])]))
\* the readers of these tables (what the sections say, from their bytes)
RECURSIVE ReadPairs(_, _, _, _)
ReadPairs(bs, at, w, le) ==           \* (a, b) pairs of w-byte numbers from 0-based offset `at` up to the (0, 0) terminator
  LET a == SmallDec(Slice(bs, at + 1, w), le, FALSE)   b == SmallDec(Slice(bs, at + w + 1, w), le, FALSE) IN
  IF a = 0 /\ b = 0 THEN <<>> ELSE << <<a, b>> >> \o ReadPairs(bs, at + 2 * w, w, le)
RECURSIVE ReadLoc(_, _, _)
ReadLoc(bs, at, x) ==
  LET a == SmallDec(Slice(bs, at + 1, x.asz), x.le, FALSE)   b == SmallDec(Slice(bs, at + x.asz + 1, x.asz), x.le, FALSE)
      n == SmallDec(Slice(bs, at + 2 * x.asz + 1, 2), x.le, FALSE) IN
  IF a = 0 /\ b = 0 THEN <<>> ELSE << <<a, b, Slice(bs, at + 2 * x.asz + 3, n)>> >> \o ReadLoc(bs, at + 2 * x.asz + 2 + n, x)
RECURSIVE ReadPub(_, _, _)
ReadPub(bs, at, x) ==
  LET o == SmallDec(Slice(bs, at + 1, OffSize(x)), x.le, FALSE) IN
  IF o = 0 THEN <<>> ELSE LET nm == CStrAt(bs, at + OffSize(x)).s IN << <<o, nm>> >> \o ReadPub(bs, at + OffSize(x) + Len(nm) + 1, x)
\* the relocatable carrier: the DW_FORM_strp field of the third entry is relocated against a symbol at offset RelSymValue of
\* .debug_str (S) with addend RelAddend (A): S + A = StrOffs[4]; the stored field holds A (the place of an Elf_Rel entry IS the
\* addend; an Elf_Rela entry ignores the place), which designates the tail "c" of "abc" - both readings are well-formed
RelSymValue == StrOffs[3]
RelAddend == StrOffs[4] - StrOffs[3]
UnrelocUnit(c) == [MainUnit(c) EXCEPT !.dies = MainDiesOf(c, 165, RelAddend)]
RelFieldOff(c) == UnitView(MainUnit(c), 0).dies[3].attrs[1].off
\* another payload (what the file named by the link of an UNSTRIPPED file holds)
DecoyUnit(c) == [MainUnit(c) EXCEPT !.dies = MainDiesOf(c, 90, StrOffs[5])]
SupDecls == << Decl(1, TagPartial, TRUE, <<>>), Decl(2, TagBaseType, FALSE, <<Spec1(AtName, "DW_FORM_strp")>>) >>
SupUnit(c) == [U0 EXCEPT !.ctx = PCtx(c), !.utype = IF c.ver >= 5 THEN "DW_UT_partial" ELSE "legacy",
                         !.abbrevs = SupDecls, !.dies = <<Die(1, <<>>), Die(2, <<A("DW_FORM_strp", N(1))>>), NullDie>>]

\* a line table (DWARF3 6.2.4 header, version 3, in the unit's 32/64-bit format): one sequence of three rows
LineHdrRest == <<1, 1, 251, 14, 13>>                                  \* min_inst_length, default_is_stmt, line_base -5, line_range, opcode_base
               \o <<0, 1, 1, 1, 1, 0, 0, 0, 1, 0, 0, 1>>               \* standard_opcode_lengths
               \o <<0>>                                                \* no include directories
               \o SrcName \o <<0, 0, 0, 0>> \o <<0>>                   \* "a.c", directory 0, mtime 0, length 0; end of file names
LineOps(x) == <<0, 1 + x.asz, 2>> \o Fix(N(4096), x.asz, x.le)        \* DW_LNE_set_address 0x1000
              \o <<20>> \o <<2, 4>> \o <<1>> \o <<0, 1, 1>>             \* special opcode, advance_pc 4, copy, end_sequence
LineSec(x) == LET body == Fix(N(3), 2, x.le) \o Fix(N(Len(LineHdrRest)), OffSize(x), x.le) \o LineHdrRest \o LineOps(x)
              IN (IF x.fmt = 32 THEN Fix(N(Len(body)), 4, x.le) ELSE <<255, 255, 255, 255>> \o Fix(N(Len(body)), 8, x.le)) \o body
\* the rows of that table (DWARF3 6.2.5): set_address 0x1000; special opcode 20: adjusted opcode 20 - 13 = 7, address += 7 \div 14 = 0,
\* line += -5 + (7 % 14) = 2, a row (0x1000, 3); advance_pc 4 and copy: a row (0x1004, 3); end_sequence: a row (0x1004, 3, end)
LineRows == << [addr |-> 4096 + (20 - 13) \div 14, line |-> 1 + (251 - 256) + ((20 - 13) % 14), end |-> FALSE],
               [addr |-> 4096 + 4, line |-> 3, end |-> FALSE], [addr |-> 4096 + 4, line |-> 3, end |-> TRUE] >>
\* an exception-frame section (LSB core 10.6): CIE "zR" with absolute udata4 pointers, one FDE, terminator
EhFrame(c) ==
  LET w(n) == Fix(N(n), 4, c.le)
      cie == w(0) \o <<1, 122, 82, 0, 1, 120, 16, 1, 3, 12, 7, 8, 144, 1, 0, 0>>                     \* id 0, v1, "zR", 1, -8, r16, aug len 1, DW_EH_PE_udata4
      fde == w(4 + Len(cie) + 4) \o w(4096) \o w(16) \o <<0, 65, 14, 16>>                            \* CIE pointer, start, range, aug len 0, advance_loc 1, def_cfa_offset 16
  IN w(Len(cie)) \o cie \o w(Len(fde)) \o fde \o w(0)

\* link records
BuildId == [i \in 1..20 |-> 160 + i]
AltLinkRec(fn) == fn \o <<0>> \o BuildId
DebugSupRec(c, issup, fn) == Fix(N(5), 2, c.le) \o <<issup>> \o fn \o <<0>> \o <<4, 1, 2, 3, 4>>
CrcTok == <<67, 82, 67, 33>>          \* stands for Crc32(linked file): uninterpreted; the harness writes the real value into the slot
BadTok == <<66, 65, 68, 33>>          \* stands for any other value
DebugLinkRec(fn, crc) == fn \o <<0>> \o Rep(0, RoundUp(Len(fn) + 1, 4) - (Len(fn) + 1)) \o crc
\* the readers of these records
ParseDebugLink(bs) == LET fn == CStrAt(bs, 0).s   at == RoundUp(Len(fn) + 1, 4) IN [filename |-> fn, crc |-> SubSeq(bs, at + 1, at + 4), end |-> at + 4]
ParseAltLink(bs) == [filename |-> CStrAt(bs, 0).s]
ParseDebugSup(bs, le) == [version |-> SmallDec(SubSeq(bs, 1, 2), le, FALSE), issup |-> bs[3], filename |-> CStrAt(bs, 3).s]

\* logical sections, in reading order: the short list for the small payload, every debug section name for the payload "full"
LogicalBase == <<"info", "abbrev", "str", "line", "debug_sup", "altlink", "eh_frame">>
LogicalFull == <<"info", "abbrev", "str", "line", "types", "aranges", "frame", "loc", "ranges", "pubnames", "pubtypes",
                 "str_offsets", "line_str", "addr", "loclists", "rnglists", "debug_sup", "altlink", "eh_frame">>
LogicalOf(c) == IF c.full THEN LogicalFull ELSE LogicalBase
LogSet == {LogicalFull[i] : i \in 1..Len(LogicalFull)}
PlainName(l) == CASE l = "info" -> DotDebugInfo [] l = "abbrev" -> DotDebugAbbrev [] l = "str" -> DotDebugStr [] l = "line" -> DotDebugLine
                  [] l = "debug_sup" -> DotDebugSup [] l = "altlink" -> DotGnuDebugaltlink [] l = "eh_frame" -> DotEhFrame
                  [] l = "types" -> DotDebugTypes [] l = "aranges" -> DotDebugAranges [] l = "frame" -> DotDebugFrame [] l = "loc" -> DotDebugLoc
                  [] l = "ranges" -> DotDebugRanges [] l = "pubnames" -> DotDebugPubnames [] l = "pubtypes" -> DotDebugPubtypes
                  [] l = "str_offsets" -> DotDebugStrOffsets [] l = "line_str" -> DotDebugLineStr [] l = "addr" -> DotDebugAddr
                  [] l = "loclists" -> DotDebugLoclists [] l = "rnglists" -> DotDebugRnglists
\* the debug sections of the two flavours of the full payload (every .debug_ name but the link section .debug_sup, which the link
\* families carry)
FullSecs(ver) == IF ver <= 4 THEN {"info", "abbrev", "str", "line", "types", "aranges", "frame", "loc", "ranges", "pubnames", "pubtypes"}
                 ELSE {"info", "abbrev", "str", "line", "aranges", "frame", "str_offsets", "line_str", "addr", "loclists", "rnglists"}
ASSUME FullSecs(4) \cup FullSecs(5) \cup {"debug_sup", "altlink", "eh_frame"} = LogSet
Absent == [p |-> FALSE, b |-> <<>>]
Have(b) == [p |-> TRUE, b |-> b]
\* the sections only the full payload has
FullOnly(c, l) ==
  LET x == PCtx(c) IN
  IF ~c.full \/ l \notin FullSecs(c.ver) THEN Absent
  ELSE CASE l = "types" -> Have(UnitBytes(TypeUnit(c)))
         [] l = "aranges" -> Have(ArangesSec(x))
         [] l = "frame" -> Have(FrameSec(x))
         [] l = "loc" -> Have(LocSec(x))
         [] l = "ranges" -> Have(RangesSec(x))
         [] l = "pubnames" -> Have(PubSec(x, UnitSize(MainUnit(c)), PubNames(c)))
         [] l = "pubtypes" -> Have(PubSec(x, UnitSize(MainUnit(c)), PubTypes(c)))
         [] l = "str_offsets" -> Have(StrOffsetsSec(x))
         [] l = "line_str" -> Have(LineStrSec)
         [] l = "addr" -> Have(AddrSec(x))
         [] l = "loclists" -> Have(LocListsSec(x))
         [] l = "rnglists" -> Have(RngListsSec(x))
         [] OTHER -> Absent
\* P: the logical content of the debug sections of the file that carries them; S: of the supplementary file
PayloadOf(c, unit) ==
  IF c.sup = "is_sup"
  THEN [l \in LogSet |-> CASE l = "info" -> Have(InfoBytes(<<SupUnit(c)>>)) [] l = "abbrev" -> Have(EncAbbrevs(SupDecls)) [] l = "str" -> Have(SupStrSec)
                           [] l = "debug_sup" -> Have(DebugSupRec(c, 1, <<>>)) [] OTHER -> Absent]
  ELSE [l \in LogSet |-> CASE l = "info" -> Have(InfoBytes(<<unit>>))
                           [] l = "abbrev" -> Have(IF c.full THEN EncAbbrevs(FullDecls(c)) \o (IF c.ver <= 4 THEN EncAbbrevs(TypeDecls) ELSE <<>>) ELSE EncAbbrevs(MainDecls(c)))
                           [] l = "str" -> Have(StrSec)
                           [] l = "line" -> IF c.line THEN Have(LineSec(PCtx(c))) ELSE Absent
                           [] l = "debug_sup" -> IF c.sup = "debug_sup" THEN Have(DebugSupRec(c, 0, SupFileName)) ELSE Absent
                           [] l = "altlink" -> IF c.sup = "altlink" THEN Have(AltLinkRec(SupFileName)) ELSE Absent
                           [] l = "eh_frame" -> IF c.eh THEN Have(EhFrame(c)) ELSE Absent
                           [] OTHER -> FullOnly(c, l)]
\* P: what a reader must load = the stored content, relocated when the carrier is relocatable and the client asks for it
ViewUnit(c) == IF c.rel # "none" /\ ~c.reloc THEN UnrelocUnit(c) ELSE MainUnit(c)
PayloadP(c) == PayloadOf(c, ViewUnit(c))
PayloadStored(c) == PayloadOf(c, IF c.rel # "none" THEN UnrelocUnit(c) ELSE MainUnit(c))
PayloadDecoy(c) == PayloadOf(c, DecoyUnit(c))
PayloadS(c) ==
  [l \in LogSet |-> CASE l = "info" -> Have(InfoBytes(<<SupUnit(c)>>)) [] l = "abbrev" -> Have(EncAbbrevs(SupDecls)) [] l = "str" -> Have(SupStrSec)
                      [] l = "debug_sup" -> IF c.sup = "debug_sup" THEN Have(DebugSupRec(c, 1, <<>>)) ELSE Absent [] OTHER -> Absent]
NoPayload(c) == [l \in LogSet |-> IF l = "eh_frame" /\ c.eh THEN Have(EhFrame(c)) ELSE Absent]

(* ----------------------------- the writer ------------------------------ *)
ShfCompressed == 2048                           \* gABI: SHF_COMPRESSED 0x800
ChdrRec(t, size, align) == [ch_type |-> N(t), ch_reserved |-> Z, ch_size |-> N(size), ch_addralign |-> N(align)]
DbgSecT(name, type, flags, data) == Sec(name, type, N(flags), Z, data, N(Len(data)), Z, Z, N(1), Z)
DbgSec(name, flags, data) == DbgSecT(name, N(1), flags, data)
\* ---- the section TYPE of a debug section (strengthening round 5).  The gABI gives .debug the type SHT_PROGBITS, but a reader finds the
\* DWARF sections by NAME; SHF_COMPRESSED is a FLAG that "applies only to non-allocable sections, and cannot be used in conjunction with
\* SHT_NOBITS sections" (gABI ch.4 "Section compression": no other condition on the type), and toolchains use other types: the MIPS psABI supplement / binutils give every .debug_* (and .zdebug_*) section the type
\* SHT_MIPS_DWARF (0x7000001e); the x86-64 psABI (4.2.4, table 4.10) gives .eh_frame the type SHT_X86_64_UNWIND (0x70000001); a
\* type from the range reserved for application programs (gABI: SHT_LOUSER 0x80000000 .. SHT_HIUSER 0xffffffff; here 0x80000005)
\* stands for any other type, known to a reader or not.
STypes == {"progbits", "mips_dwarf", "unwind", "user"}
ShtProgbits == N(1)
ShtMipsDwarf == W(<<30, 0, 0, 112>>)
ShtX8664Unwind == W(<<1, 0, 0, 112>>)
ShtUser == W(<<5, 0, 0, 128>>)
\* which types a class / byte order pair (hence machine, MachOf) admits besides SHT_PROGBITS
STypesOf(cl) == {"user"} \cup (IF cl = <<32, FALSE>> THEN {"mips_dwarf"} ELSE {}) \cup (IF cl = <<64, TRUE>> THEN {"unwind"} ELSE {})
ShtOf(c, l) == CASE c.stype = "mips_dwarf" /\ l \notin {"eh_frame", "altlink"} -> ShtMipsDwarf
                 [] c.stype = "user" /\ l \notin {"eh_frame", "altlink"} -> ShtUser
                 [] c.stype = "unwind" /\ l = "eh_frame" -> ShtX8664Unwind
                 [] OTHER -> ShtProgbits
AllPlans == {"mix", "plain", "gabi", "gabi_blk", "gabi_info", "gabi_str", "gabi_badsize", "gabi_smallsize", "gabi_badtype", "z", "z_blk", "z_mixed", "z_badmagic",
             "z_badsize", "z_smallsize", "z_short"}
BlkOf(plan) == IF plan \in {"gabi_blk", "z_blk"} THEN 16 ELSE 65535
\* the encoding of logical section l under a plan; link records and the exception frames follow their own rules below
\* (a per-section plan of the full payload is a tuple over the 17 .debug_ names)
MixIx(l) == CASE l = "info" -> 1 [] l = "abbrev" -> 2 [] l = "str" -> 3 [] l = "line" -> 4 [] l = "debug_sup" -> 5
              [] l = "types" -> 6 [] l = "aranges" -> 7 [] l = "frame" -> 8 [] l = "loc" -> 9 [] l = "ranges" -> 10 [] l = "pubnames" -> 11
              [] l = "pubtypes" -> 12 [] l = "str_offsets" -> 13 [] l = "line_str" -> 14 [] l = "addr" -> 15 [] l = "loclists" -> 16 [] l = "rnglists" -> 17
MixSecs == LogSet \ {"altlink", "eh_frame"}
EncOf(plan, l, c) ==
  CASE plan \in {"plain", "none"} -> "plain"
    [] plan = "mix" -> IF MixIx(l) <= Len(c.mix) THEN c.mix[MixIx(l)] ELSE "plain"
    [] plan \in {"gabi", "gabi_blk"} -> "gabi"
    [] plan = "gabi_info" -> IF l = "info" THEN "gabi" ELSE "plain"
    [] plan = "gabi_str" -> IF l = "str" THEN "gabi" ELSE "plain"
    [] plan = "gabi_badsize" -> IF l = "info" THEN "gabi_badsize" ELSE "gabi"          \* declared size one more than the data inflate to
    [] plan = "gabi_smallsize" -> IF l = "info" THEN "gabi_smallsize" ELSE "gabi"      \* ... one less
    [] plan = "gabi_badtype" -> IF l = "abbrev" THEN "gabi_badtype" ELSE "plain"
    [] plan \in {"z", "z_blk"} -> "z"
    \* what the GNU tools write when only some sections shrink: those are renamed, the others keep their .debug_ names
    [] plan = "z_mixed" -> IF l \in {"info", "str"} THEN "z" ELSE "plain"
    [] plan = "z_badmagic" -> IF l = "info" THEN "z_badmagic" ELSE "z"
    [] plan = "z_badsize" -> IF l = "str" THEN "z_badsize" ELSE "z"
    [] plan = "z_smallsize" -> IF l = "str" THEN "z_smallsize" ELSE "z"
    [] plan = "z_short" -> IF l = "abbrev" THEN "z_short" ELSE "z"
\* .eh_frame is loaded into memory and never compressed; .gnu_debugaltlink is not a .debug_ name, the legacy convention leaves it alone
EncOfSec(plan, l, c) == IF l \in {"eh_frame", "altlink"} THEN "plain" ELSE EncOf(plan, l, c)
Declared(enc, n) == IF enc \in {"gabi_badsize", "z_badsize"} THEN n + 1 ELSE IF enc \in {"gabi_smallsize", "z_smallsize"} THEN n - 1 ELSE n
EncSec(l, data, enc, c, blk) ==
  LET name == PlainName(l) IN
  CASE enc = "plain" -> IF l = "eh_frame" THEN Sec(name, ShtOf(c, l), N(2), N(8192), data, N(Len(data)), Z, Z, N(4), Z) ELSE DbgSecT(name, ShtOf(c, l), 0, data)
    [] enc \in {"gabi", "gabi_badsize", "gabi_smallsize", "gabi_badtype"} ->
         DbgSecT(name, ShtOf(c, l), ShfCompressed,
                Ser(ChdrF(c.cls), ChdrRec(IF enc = "gabi_badtype" THEN 7 ELSE 1, Declared(enc, Len(data)), 1), c.cls, c.le) \o Stored(data, blk))
    [] enc \in {"z", "z_badmagic", "z_badsize", "z_smallsize"} ->
         DbgSecT(ZName(name), ShtOf(c, l), 0, (IF enc = "z_badmagic" THEN BadMagic ELSE ZlibMagic) \o Fix(N(Declared(enc, Len(data))), 8, FALSE) \o Stored(data, blk))
    [] enc = "z_short" -> DbgSecT(ZName(name), ShtOf(c, l), 0, ZlibMagic \o <<0, 0, 0, 0>>)
\* the sections of a file that carries payload `pay` under `plan`
SecsOf(pay, plan, c) ==
  LET pres == SelectSeq(LogicalFull, LAMBDA l : pay[l].p) IN
  [k \in 1..Len(pres) |-> EncSec(pres[k], pay[pres[k]].b, EncOfSec(plan, pres[k], c), c, BlkOf(plan))]
LinkSec(c) == DbgSec(DotGnuDebuglink, 0, DebugLinkRec(DbgFileName(c), IF c.dl = "ok" THEN CrcTok ELSE BadTok))
\* ---- a relocatable carrier: symbol table, its string table, one relocation section for .debug_info (gABI ch.4)
ShtSymtab == 2
ShtStrtab == 3
ShtRela == 4
ShtRel == 9
ShfInfoLink == 64
\* psABIs: x86-64 and PPC64 ELFv1/v2 use Elf_Rela entries, i386 and MIPS o32 Elf_Rel entries
RelUsesAddend(c) == c.cls = 64
\* the "S + A" relocation of a w-byte data field: x86-64 psABI table 4.9 (R_X86_64_64 = 1, R_X86_64_32 = 10), i386 psABI (R_386_32 = 1),
\* MIPS psABI (R_MIPS_32 = 2), PPC64 ELF ABI (R_PPC64_ADDR32 = 1, R_PPC64_ADDR64 = 38)
RelTypeOf(c, w) == CASE MachOf(c) = 62 -> (IF w = 8 THEN 1 ELSE 10) [] MachOf(c) = 3 -> 1 [] MachOf(c) = 8 -> 2 [] MachOf(c) = 21 -> (IF w = 8 THEN 38 ELSE 1)
RelWidthOf(mach, t) == IF (mach = 62 /\ t = 1) \/ (mach = 21 /\ t = 38) THEN 8 ELSE 4
\* a 4-byte S + A relocation patches the low-order word of a wider field
RelPlace(c, off, w) == IF w = 8 /\ RelWidthOf(MachOf(c), RelTypeOf(c, w)) = 4 /\ ~c.le THEN off + 4 ELSE off
\* r_info: ELF64_R_INFO(sym, type) = sym << 32 + type, ELF32_R_INFO(sym, type) = sym << 8 + type
RInfo(c, sym, t) == IF c.cls = 64 THEN W(<<t, 0, 0, 0, sym, 0, 0, 0>>) ELSE N(256 * sym + t)
IxOfName(secs, n) == CHOOSE k \in 1..Len(secs) : secs[k].name = n
RelocSecs(c, secs) ==              \* secs: the debug sections of the carrier, in section-index order (index k = position k)
  LET infoName == IF \E k \in 1..Len(secs) : secs[k].name = DotDebugInfo THEN DotDebugInfo ELSE ZName(DotDebugInfo)
      strName == IF \E k \in 1..Len(secs) : secs[k].name = DotDebugStr THEN DotDebugStr ELSE ZName(DotDebugStr)
      w == OffSize(PCtx(c))
      t == RelTypeOf(c, w)
      symIx == Len(secs) + 1
      strtabIx == Len(secs) + 2
      sym == Ser(SymF(c.cls), [st_name |-> N(1), st_value |-> N(RelSymValue), st_size |-> Z, st_info |-> N(1), st_other |-> Z,
                               st_shndx |-> N(IxOfName(secs, strName))], c.cls, c.le)                 \* STB_LOCAL, STT_OBJECT, defined in .debug_str
      symtab == Rep(0, SizeOf(SymF(c.cls), c.cls)) \o sym
      place == RelPlace(c, RelFieldOff(c), w)
      ent == IF RelUsesAddend(c)
             THEN Ser(RelaF, [r_offset |-> N(place), r_info |-> RInfo(c, 1, t), r_addend |-> N(RelAddend)], c.cls, c.le)
             ELSE Ser(RelF, [r_offset |-> N(place), r_info |-> RInfo(c, 1, t)], c.cls, c.le)
  IN << Sec(DotSymtab, N(ShtSymtab), Z, Z, symtab, N(Len(symtab)), N(strtabIx), N(2), N(c.cls \div 8), N(SizeOf(SymF(c.cls), c.cls))),
        Sec(DotStrtab, N(ShtStrtab), Z, Z, <<0, 115, 0>>, N(3), Z, Z, N(1), Z),
        \* the GNU tools name a relocation section after the (possibly renamed) section it applies to
        Sec((IF RelUsesAddend(c) THEN DotRela ELSE DotRel) \o infoName, N(IF RelUsesAddend(c) THEN ShtRela ELSE ShtRel), N(ShfInfoLink), Z, ent, N(Len(ent)),
            N(symIx), N(IxOfName(secs, infoName)), N(c.cls \div 8), N(Len(ent))) >>
File(secs) == [present |-> TRUE, secs |-> secs, etype |-> 3, raw |-> <<>>]
RelFile(secs) == [present |-> TRUE, secs |-> secs, etype |-> 1, raw |-> <<>>]          \* ET_REL
NoFile == [present |-> FALSE, secs |-> <<>>, etype |-> 0, raw |-> <<>>]
\* a file that is not an object file: "not an ELF file\n" x 3 (gABI: e_ident starts with 0x7f 'E' 'L' 'F')
GarbageBytes == LET t == <<110, 111, 116, 32, 97, 110, 32, 69, 76, 70, 32, 102, 105, 108, 101, 10>> IN t \o t \o t
Garbage == [present |-> TRUE, secs |-> <<>>, etype |-> 0, raw |-> GarbageBytes]
IsElf(f) == f.raw = <<>>
\* the file a configuration's `tgt` speaks about: the supplementary file if there is one, else the file behind the debug link
TgtRole(c) == IF c.sup \in {"altlink", "debug_sup"} THEN "sup" ELSE IF c.dl # "none" /\ c.home = "linked" THEN "linked" ELSE "none"
FilesOf(c) ==
  LET dbg == SecsOf(IF c.plan = "none" THEN NoPayload(c) ELSE PayloadStored(c), c.plan, c)
      carrier == IF c.rel = "none" THEN dbg ELSE dbg \o RelocSecs(c, dbg)                            \* the file that carries the debug sections
      Car(secs) == IF c.rel = "none" THEN File(secs) ELSE RelFile(secs)
      stripped == SecsOf(NoPayload(c), "plain", c)
      link == IF c.dl = "none" THEN <<>> ELSE <<LinkSec(c)>>
  IN [main |-> IF c.home = "main" THEN Car(carrier \o link) ELSE File(stripped \o link),
      \* an unstripped file with a link: the file the link names holds ANOTHER payload, plainly
      linked |-> IF c.dl = "none" THEN NoFile ELSE IF c.tgt = "garbage" /\ TgtRole(c) = "linked" THEN Garbage
                 ELSE IF c.home = "linked" THEN Car(carrier) ELSE File(SecsOf(PayloadDecoy(c), "plain", c)),
      sup |-> IF c.sup \in {"altlink", "debug_sup"} THEN (IF c.tgt = "garbage" THEN Garbage ELSE File(SecsOf(PayloadS(c), c.supplan, c))) ELSE NoFile]
ImageOf(f, c) == [Im0 EXCEPT !.cls = c.cls, !.le = c.le, !.machine = MachOf(c), !.secs = f.secs, !.etype = N(f.etype)]

(* --------------------------- configurations ---------------------------- *)
AllClsLe == {<<64, TRUE>>, <<32, TRUE>>, <<32, FALSE>>, <<64, FALSE>>}
TwoClsLe == {<<64, TRUE>>, <<32, FALSE>>}
VerFmt2 == {<<4, 32>>, <<5, 64>>}
VerFmt4 == {<<3, 32>>, <<4, 32>>, <<4, 64>>, <<5, 64>>, <<5, 32>>}
C0 == [fam |-> "", cls |-> 64, le |-> TRUE, ver |-> 4, fmt |-> 32, line |-> TRUE, eh |-> TRUE, plan |-> "plain", dl |-> "none", home |-> "main",
       sup |-> "none", supplan |-> "plain", loader |-> FALSE, follow |-> TRUE, mix |-> <<>>,
       rel |-> "none",       \* "rel": the carrier is a relocatable object with a relocation on .debug_info
       reloc |-> TRUE,       \* the client's relocate_dwarf_sections option
       tgt |-> "elf",        \* "garbage": the link target (TgtRole) is present but is not an object file
       stype |-> "progbits", \* the section type of the debug sections (STypes), in every file of the configuration
       full |-> FALSE]       \* TRUE: the payload that uses every debug section of its DWARF flavour (ver 4 / ver 5)
\* the link families tie version/format to the container so that both DWARF flavours occur without another factor
VerOf(cl, sup) == IF sup = "debug_sup" THEN 5 ELSE IF sup = "altlink" THEN 4 ELSE IF cl[1] = 64 THEN 5 ELSE 4
FmtOf(cl) == IF cl[1] = 64 /\ cl[2] THEN 64 ELSE 32
EncConfigs == {[C0 EXCEPT !.fam = "enc", !.cls = cl[1], !.le = cl[2], !.ver = vf[1], !.fmt = vf[2], !.eh = eh, !.line = ln, !.plan = pl, !.follow = fo] :
                 cl \in ClsLeAll, vf \in VerFmts, eh \in BOOLEAN, ln \in {TRUE}, pl \in Plans \ {"mix"}, fo \in BOOLEAN}
              \cup {[C0 EXCEPT !.fam = "enc", !.cls = cl[1], !.le = cl[2], !.line = FALSE, !.eh = FALSE, !.plan = pl] : cl \in ClsLeAll, pl \in Plans \cap {"plain", "gabi", "z"}}
\* per-section plans: every assignment of {plain, gabi, z} to info, abbrev, str, line that is not uniform (those are the
\* plans "plain", "gabi", "z"); the link section .debug_sup rotates with the section it follows in the file
Encs3 == {"plain", "gabi", "z"}
Mixes == {<<a, b, c, d, "plain">> : a \in Encs3, b \in Encs3, c \in Encs3, d \in Encs3} \ {<<e, e, e, e, "plain">> : e \in Encs3}
MixCovers == \A a \in Encs3 : \A b \in Encs3 \ {a} : \A x \in 2..4 : \E m \in Mixes : m[1] = a /\ m[x] = b /\ \A y \in (2..4) \ {x} : m[y] = a
ASSUME MixCovers
\* ... in the link family: the link section .debug_sup against the rest
SupMixes == {<<a, a, a, a, b>> : a \in Encs3, b \in Encs3} \ {<<e, e, e, e, e>> : e \in Encs3}
MixVerFmts(cl) == IF Wide THEN VerFmts ELSE {<<VerOf(cl, "none"), FmtOf(cl)>>}
MixConfigs == UNION {{[C0 EXCEPT !.fam = "enc", !.cls = cl[1], !.le = cl[2], !.ver = vf[1], !.fmt = vf[2], !.plan = "mix", !.mix = m] :
                        vf \in MixVerFmts(cl), m \in Mixes} : cl \in ClsLeAll}
SupMixConfigs == {[C0 EXCEPT !.fam = "sup", !.cls = cl[1], !.le = cl[2], !.ver = 5, !.fmt = FmtOf(cl), !.plan = "mix", !.mix = m, !.sup = "debug_sup",
                             !.loader = lo, !.follow = fo] : cl \in ClsLeLinks, m \in SupMixes, lo \in BOOLEAN, fo \in BOOLEAN}
NoDwarfConfigs == {[C0 EXCEPT !.fam = "nodwarf", !.cls = cl[1], !.le = cl[2], !.eh = eh, !.plan = "none", !.follow = fo] : cl \in ClsLeAll, eh \in BOOLEAN, fo \in BOOLEAN}
DlinkConfigs == {[C0 EXCEPT !.fam = "dlink", !.cls = cl[1], !.le = cl[2], !.ver = VerOf(cl, "none"), !.fmt = FmtOf(cl), !.eh = eh, !.plan = pl,
                            !.home = hd[1], !.dl = hd[2], !.loader = lo, !.follow = fo] :
                   cl \in ClsLeLinks, eh \in BOOLEAN, pl \in {"plain", "gabi", "z"},
                   hd \in {<<"linked", "ok">>, <<"linked", "badcrc">>, <<"main", "ok">>, <<"main", "badcrc">>}, lo \in BOOLEAN, fo \in BOOLEAN}
                \* own debug info x link present: also the encodings in which only some sections are renamed / flagged
                \cup {[C0 EXCEPT !.fam = "dlink", !.cls = cl[1], !.le = cl[2], !.ver = VerOf(cl, "none"), !.fmt = FmtOf(cl), !.plan = pl,
                                 !.home = "main", !.dl = "ok", !.loader = TRUE, !.follow = fo] :
                        cl \in ClsLeLinks, pl \in {"z_mixed", "gabi_info", "gabi_str"}, fo \in BOOLEAN}
                \* the debug file is present (right CRC) but not decodable
                \cup {[C0 EXCEPT !.fam = "dlink", !.cls = cl[1], !.le = cl[2], !.ver = VerOf(cl, "none"), !.fmt = FmtOf(cl), !.plan = pl,
                                 !.home = "linked", !.dl = "ok", !.loader = lo, !.follow = fo] :
                        cl \in ClsLeLinks, pl \in BadTargetPlans, lo \in BOOLEAN, fo \in BOOLEAN}
                \cup (IF BadTargetPlans = {} THEN {} ELSE
                      {[C0 EXCEPT !.fam = "dlink", !.cls = cl[1], !.le = cl[2], !.ver = VerOf(cl, "none"), !.fmt = FmtOf(cl),
                                  !.home = "linked", !.dl = "ok", !.loader = lo, !.follow = fo, !.tgt = "garbage"] :
                         cl \in ClsLeLinks, lo \in BOOLEAN, fo \in BOOLEAN})
                \* the plain, link-free encoding of the same payloads (the reference of the family)
                \cup {[C0 EXCEPT !.fam = "dlink", !.cls = cl[1], !.le = cl[2], !.ver = VerOf(cl, "none"), !.fmt = FmtOf(cl), !.eh = eh] :
                        cl \in ClsLeLinks, eh \in BOOLEAN}
SupConfigs == {[C0 EXCEPT !.fam = "sup", !.cls = cl[1], !.le = cl[2], !.ver = VerOf(cl, su), !.fmt = FmtOf(cl), !.plan = pl, !.sup = su, !.supplan = sp,
                          !.loader = lo, !.follow = fo] :
                 cl \in ClsLeLinks, su \in {"altlink", "debug_sup"}, pl \in {"plain", "gabi", "z"}, sp \in {"plain", "gabi", "z"}, lo \in BOOLEAN, fo \in BOOLEAN}
              \* the supplementary file is present but not decodable
              \cup {[C0 EXCEPT !.fam = "sup", !.cls = cl[1], !.le = cl[2], !.ver = VerOf(cl, su), !.fmt = FmtOf(cl), !.sup = su, !.supplan = sp,
                               !.loader = lo, !.follow = fo] :
                      cl \in ClsLeLinks, su \in {"altlink", "debug_sup"}, sp \in BadTargetPlans, lo \in BOOLEAN, fo \in BOOLEAN}
              \cup (IF BadTargetPlans = {} THEN {} ELSE
                    {[C0 EXCEPT !.fam = "sup", !.cls = cl[1], !.le = cl[2], !.ver = VerOf(cl, su), !.fmt = FmtOf(cl), !.sup = su,
                                !.loader = lo, !.follow = fo, !.tgt = "garbage"] :
                       cl \in ClsLeLinks, su \in {"altlink", "debug_sup"}, lo \in BOOLEAN, fo \in BOOLEAN})
              \cup {[C0 EXCEPT !.fam = "sup", !.cls = cl[1], !.le = cl[2], !.ver = 5, !.fmt = FmtOf(cl), !.plan = pl, !.sup = "is_sup", !.line = FALSE, !.eh = FALSE,
                               !.loader = lo, !.follow = fo] : cl \in ClsLeLinks, pl \in {"plain", "gabi", "z"}, lo \in BOOLEAN, fo \in BOOLEAN}
\* stripped file -> debug file -> supplementary file
ChainConfigs == {[C0 EXCEPT !.fam = "chain", !.cls = cl[1], !.le = cl[2], !.ver = VerOf(cl, su), !.fmt = FmtOf(cl), !.plan = pl, !.home = "linked", !.dl = "ok",
                            !.sup = su, !.loader = lo, !.follow = fo, !.reloc = rc] :
                   cl \in ClsLeLinks, su \in {"altlink", "debug_sup"}, pl \in {"plain", "z"}, lo \in BOOLEAN, fo \in BOOLEAN, rc \in BOOLEAN}
                \* ... whose last file is not decodable
                \cup {[C0 EXCEPT !.fam = "chain", !.cls = cl[1], !.le = cl[2], !.ver = VerOf(cl, su), !.fmt = FmtOf(cl), !.home = "linked", !.dl = "ok",
                                 !.sup = su, !.supplan = sp, !.loader = lo, !.follow = fo] :
                        cl \in ClsLeLinks, su \in {"altlink", "debug_sup"}, sp \in BadTargetPlans, lo \in BOOLEAN, fo \in BOOLEAN}
\* a relocatable carrier, opened directly or reached through a link, with and without relocate_dwarf_sections
RlinkConfigs == {[C0 EXCEPT !.fam = "rlink", !.cls = cl[1], !.le = cl[2], !.ver = VerOf(cl, "none"), !.fmt = FmtOf(cl), !.plan = pl, !.rel = "rel",
                            !.home = hd[1], !.dl = hd[2], !.loader = TRUE, !.follow = fo, !.reloc = rc] :
                   cl \in ClsLeLinks, pl \in {"plain", "gabi", "z"}, hd \in {<<"main", "none">>, <<"linked", "ok">>, <<"main", "ok">>},
                   fo \in BOOLEAN, rc \in BOOLEAN}
\* ---- the section type of the debug sections x every kind of encoding (the small payload), directly and across links; on the MIPS
\* machine also the full payload
StypeConfigs ==
  UNION {{[C0 EXCEPT !.fam = "stype", !.cls = cl[1], !.le = cl[2], !.ver = VerOf(cl, "none"), !.fmt = FmtOf(cl), !.plan = pl, !.stype = st] :
            st \in STypesOf(cl) \cup {"progbits"},
            pl \in Plans \cap {"plain", "gabi", "gabi_blk", "gabi_str", "gabi_badsize", "gabi_smallsize", "gabi_badtype", "z", "z_mixed", "z_smallsize"}} : cl \in ClsLeAll}
  \cup UNION {{[C0 EXCEPT !.fam = "stype", !.cls = cl[1], !.le = cl[2], !.ver = VerOf(cl, "none"), !.fmt = FmtOf(cl), !.plan = pl, !.stype = st,
                          !.home = "linked", !.dl = "ok", !.loader = TRUE] : st \in STypesOf(cl), pl \in {"gabi", "z"}} : cl \in ClsLeLinks}
  \cup UNION {{[C0 EXCEPT !.fam = "stype", !.cls = cl[1], !.le = cl[2], !.ver = VerOf(cl, su), !.fmt = FmtOf(cl), !.plan = pl, !.supplan = pl, !.sup = su,
                          !.stype = st, !.loader = TRUE] : st \in STypesOf(cl), su \in {"altlink", "debug_sup"}, pl \in {"gabi"}} : cl \in ClsLeLinks}
  \cup {[C0 EXCEPT !.fam = "stype", !.cls = cl[1], !.le = cl[2], !.ver = VerOf(cl, su), !.fmt = FmtOf(cl), !.sup = su, !.loader = TRUE] :       \* their reference
          cl \in ClsLeLinks, su \in {"altlink", "debug_sup"}}
  \* no debugging information but exception frames (presence, non-strictly)
  \cup UNION {{[C0 EXCEPT !.fam = "stype", !.cls = cl[1], !.le = cl[2], !.plan = "none", !.stype = st] : st \in STypesOf(cl) \cap {"unwind"}} : cl \in ClsLeAll}
  \cup {[C0 EXCEPT !.fam = "stype", !.cls = 32, !.le = FALSE, !.ver = 4, !.fmt = 32, !.plan = pl, !.stype = st, !.full = TRUE] :
          st \in {"progbits", "mips_dwarf"}, pl \in {"plain", "gabi", "z"}}
\* ---- the full payload: uniform plans, and per-section plans "one section stored as b, all the others as a" for every debug section x
\* of the flavour and every ordered pair of distinct encodings (FullCovers); behind a debug link
\* (the full payload is written in the 32-bit DWARF format: the 64-bit format of the lookup tables is outside what the library's readers
\* claim - C13's quantifier - and container invariance does not depend on it; the small payload covers 64-bit units)
FullVers(cl) == IF Wide THEN {4, 5} ELSE {IF cl \in {<<64, TRUE>>, <<32, FALSE>>} THEN 4 ELSE 5}
OneMix(x, a, b) == [i \in 1..17 |-> IF i = MixIx(x) THEN b ELSE a]
\* the ordered pairs (rest, odd one) of distinct encodings a class / byte order pair takes: all six, or two each so that the two
\* class / byte order pairs that share a flavour take the four pairs with a plain side between them
PairsOf(cl) == IF Wide THEN {<<a, b>> : a \in Encs3, b \in Encs3} \ {<<e, e>> : e \in Encs3}
               ELSE IF cl[1] = 64 THEN {<<"plain", "gabi">>, <<"z", "plain">>} ELSE {<<"plain", "z">>, <<"gabi", "plain">>}
OneMixes(cl, ver) == {OneMix(x, ab[1], ab[2]) : x \in FullSecs(ver), ab \in PairsOf(cl)}
FullCovers == \A l \in MixSecs \ {"debug_sup"} : \E ver \in {4, 5} : l \in FullSecs(ver) /\
                 \A a \in Encs3 : \A b \in Encs3 \ {a} : (Wide \/ a = "plain" \/ b = "plain") => \E cl \in AllClsLe : ver \in FullVers(cl) /\
                    \E m \in OneMixes(cl, ver) : m[MixIx(l)] = b /\ \A y \in FullSecs(ver) \ {l} : m[MixIx(y)] = a
ASSUME ClsLeAll = AllClsLe => FullCovers
FullConfigs ==
  UNION {{[C0 EXCEPT !.fam = "full", !.cls = cl[1], !.le = cl[2], !.ver = v, !.fmt = 32, !.plan = pl, !.full = TRUE] :
            v \in {4, 5}, pl \in Plans \cap {"plain", "gabi", "z"}} : cl \in ClsLeAll}
  \cup UNION {{[C0 EXCEPT !.fam = "full", !.cls = cl[1], !.le = cl[2], !.ver = v, !.fmt = 32, !.plan = pl, !.full = TRUE] :
            v \in FullVers(cl), pl \in Plans \cap {"gabi_blk", "z_blk"}} : cl \in ClsLeAll}
  \cup (IF "mix" \in Plans THEN UNION {UNION {{[C0 EXCEPT !.fam = "full", !.cls = cl[1], !.le = cl[2], !.ver = v, !.fmt = 32, !.plan = "mix", !.mix = m, !.full = TRUE] :
                                                  m \in OneMixes(cl, v)} : v \in FullVers(cl)} : cl \in ClsLeAll} ELSE {})
  \cup UNION {{[C0 EXCEPT !.fam = "full", !.cls = cl[1], !.le = cl[2], !.ver = v, !.fmt = 32, !.plan = pl, !.full = TRUE,
                          !.home = "linked", !.dl = "ok", !.loader = TRUE] : v \in FullVers(cl), pl \in {"gabi", "z"}} : cl \in ClsLeLinks}
Configs == (IF "stype" \in Families THEN StypeConfigs ELSE {}) \cup (IF "full" \in Families THEN FullConfigs ELSE {}) \cup
           (IF "enc" \in Families /\ "mix" \in Plans THEN MixConfigs ELSE {}) \cup (IF "sup" \in Families /\ "mix" \in Plans THEN SupMixConfigs ELSE {}) \cup
           (IF "enc" \in Families THEN EncConfigs ELSE {}) \cup (IF "nodwarf" \in Families THEN NoDwarfConfigs ELSE {})
           \cup (IF "dlink" \in Families THEN DlinkConfigs ELSE {}) \cup (IF "sup" \in Families THEN SupConfigs ELSE {})
           \cup (IF "chain" \in Families THEN ChainConfigs ELSE {}) \cup (IF "rlink" \in Families THEN RlinkConfigs ELSE {})

(* ----------------------------- the reader ------------------------------ *)
SecIx(f, name) == {k \in 1..Len(f.secs) : f.secs[k].name = name}
HasSec(f, name) == SecIx(f, name) # {}
SecNamed(f, name) == f.secs[CHOOSE k \in SecIx(f, name) : TRUE]
\* the property's presence rule, on the section names of a file
HasDwarfSecs(f, strict) == HasSec(f, DotDebugInfo) \/ HasSec(f, ZName(DotDebugInfo)) \/ (~strict /\ HasSec(f, DotEhFrame))
\* name selection: logical section X is the section .debug_X, or else its legacy form .zdebug_X - each section on its own
PhysName(f, l) == LET n == PlainName(l) IN
                  IF HasSec(f, n) THEN n ELSE IF HasPrefix(n, DotDebugPrefix) /\ HasSec(f, ZName(n)) THEN ZName(n) ELSE <<>>
Compressed(s) == (s.flags.n \div ShfCompressed) % 2 = 1
\* uninterpreted functions of the environment: the loader's name resolution and the CRC-32 of a file
Resolve(c, fn) == IF fn = DbgFileName(c) THEN "linked" ELSE IF fn = SupFileName THEN "sup" ELSE "nofile"
Crc32Of(role) == IF role = "linked" THEN CrcTok ELSE <<0, 0, 0, 0>>
Slot == IF cur = "sup" THEN "sup" ELSE "home"
Lg == LogicalOf(cfg)          \* the names the reader looks for, in its order
Got0 == [home |-> [l \in LogSet |-> Absent], sup |-> [l \in LogSet |-> Absent]]
\* the supplementary file a set of loaded sections names (DWARF5 7.3.6: only when is_supplementary = 0)
SupNameOf(g) == IF g["debug_sup"].p /\ ParseDebugSup(g["debug_sup"].b, cfg.le).issup = 0 THEN Have(ParseDebugSup(g["debug_sup"].b, cfg.le).filename)
                ELSE IF g["altlink"].p THEN Have(ParseAltLink(g["altlink"].b).filename) ELSE Absent

\* the reader looks the names of Lg up in order; a name the file does not have (in either naming) is passed over within the step
NextIx(f, i) == LET js == {j \in (i + 1)..Len(Lg) : PhysName(f, Lg[j]) # <<>>} IN IF js = {} THEN 0 ELSE Min(js)
Goto(f, i) == LET j == NextIx(f, i) IN IF j = 0 THEN pc' = "links" /\ ix' = Len(Lg) ELSE pc' = "read" /\ ix' = j
Init == /\ cfg \in Configs
        /\ files = [main |-> NoFile, linked |-> NoFile, sup |-> NoFile]
        /\ pc = "build" /\ cur = "main" /\ fl = cfg.follow /\ ix = 0 /\ buf = <<>> /\ got = Got0 /\ err = ""
        /\ qs = <<>> /\ ans = <<>>
Build == /\ pc = "build" /\ files' = FilesOf(cfg) /\ pc' = "open"
         /\ UNCHANGED <<cfg, cur, fl, ix, buf, got, err>>
Fail(kind) == err' = kind /\ pc' = "done" /\ UNCHANGED <<cfg, files, cur, fl, ix, buf, got>>
\* a separate debug file is looked for when the file has a link, no debugging information of its own, links are followed and a loader exists
CheckLink ==
  /\ pc = "open"
  /\ IF cur = "main" /\ HasSec(files[cur], DotGnuDebuglink) /\ ~HasDwarfSecs(files[cur], TRUE) /\ fl /\ cfg.loader
     THEN pc' = "crc" /\ ix' = ix
     ELSE Goto(files[cur], 0)
  /\ UNCHANGED <<cfg, files, cur, fl, buf, got, err>>
FollowDebugLink ==
  /\ pc = "crc"
  /\ LET lk == ParseDebugLink(SecNamed(files[cur], DotGnuDebuglink).data)   to == Resolve(cfg, lk.filename) IN
     IF to = "nofile" \/ ~files[to].present THEN Fail("nofile")
     ELSE IF lk.crc # Crc32Of(to) THEN Fail("crc")
     ELSE IF ~IsElf(files[to]) THEN Fail("notelf")
     ELSE cur' = to /\ fl' = TRUE /\ pc' = "open" /\ UNCHANGED <<cfg, files, ix, buf, got, err>>
Advance(g) == /\ got' = g
              /\ Goto(files[cur], ix)
              /\ buf' = <<>>
              /\ UNCHANGED <<cfg, files, cur, fl, err>>
\* gABI: a section of type SHT_REL / SHT_RELA holds the relocations of the section whose index is its sh_info
RelocSecsFor(f, n) == {k \in 1..Len(f.secs) : IsSmall(f.secs[k].type) /\ f.secs[k].type.n \in {ShtRel, ShtRela} /\ f.secs[k].info.n = IxOfName(f.secs, n)}
\* the logical (uncompressed) content d of the current section is complete: relocate it if the client asked for that and the
\* file has relocations for it, else deliver it
Deliver(d) ==
  LET l == Lg[ix]   f == files[cur] IN
  IF cfg.reloc /\ RelocSecsFor(f, PhysName(f, l)) # {}
  THEN buf' = d /\ pc' = "reloc" /\ UNCHANGED <<cfg, files, cur, fl, ix, got, err>>
  ELSE Advance([got EXCEPT ![Slot][l] = Have(d)])
ReadSection ==
  /\ pc = "read"
  /\ LET l == Lg[ix]   f == files[cur]   n == PhysName(f, l) IN
     IF n = <<>> THEN Advance([got EXCEPT ![Slot][l] = Absent])
     ELSE LET s == SecNamed(f, n) IN
          IF Compressed(s) THEN buf' = s.data /\ pc' = "gabi" /\ UNCHANGED <<cfg, files, cur, fl, ix, got, err>>
          ELSE IF IsZName(n) THEN buf' = s.data /\ pc' = "legacy" /\ UNCHANGED <<cfg, files, cur, fl, ix, got, err>>
          ELSE Deliver(s.data)
\* ---- relocation entries read back from the bytes of the relocation section and of the symbol table it links to
FOff(F, cls, name) == LET i == CHOOSE i \in 1..Len(F) : F[i][1] = name IN SumR([j \in 1..Len(F) |-> Width(F[j][2], cls)], 1, i - 1)
FWid(F, cls, name) == LET i == CHOOSE i \in 1..Len(F) : F[i][1] = name IN Width(F[i][2], cls)
FDigits(F, cls, le, bs, base, name) == LET raw == Slice(bs, base + FOff(F, cls, name) + 1, FWid(F, cls, name)) IN IF le THEN raw ELSE Rev(raw)
RECURSIVE ApplyRelocs(_, _, _, _)
ApplyRelocs(d, f, k, i) ==          \* d: section content, k: index of the relocation section in f.secs, i: next entry (0-based)
  LET rs == f.secs[k]
      F == IF rs.type.n = ShtRela THEN RelaF ELSE RelF
      es == SizeOf(F, cfg.cls)
  IN IF (i + 1) * es > Len(rs.data) THEN d
     ELSE LET off == NatOf(FDigits(F, cfg.cls, cfg.le, rs.data, i * es, "r_offset"))
              info == FDigits(F, cfg.cls, cfg.le, rs.data, i * es, "r_info")
              t == IF cfg.cls = 64 THEN NatOf(SubSeq(info, 1, 4)) ELSE info[1]
              sym == IF cfg.cls = 64 THEN NatOf(SubSeq(info, 5, 8)) ELSE NatOf(SubSeq(info, 2, 4))
              w == RelWidthOf(MachOf(cfg), t)
              symtab == f.secs[rs.link.n].data
              symv == NatOf(FDigits(SymF(cfg.cls), cfg.cls, cfg.le, symtab, sym * SizeOf(SymF(cfg.cls), cfg.cls), "st_value"))
              addend == IF rs.type.n = ShtRela THEN NatOf(FDigits(F, cfg.cls, cfg.le, rs.data, i * es, "r_addend"))
                        ELSE SmallDec(Slice(d, off + 1, w), cfg.le, FALSE)                     \* Elf_Rel: the addend is the place's content
          IN ApplyRelocs(SubSeq(d, 1, off) \o Fix(N(symv + addend), w, cfg.le) \o SubSeq(d, off + w + 1, Len(d)), f, k, i + 1)
Relocate ==
  /\ pc = "reloc"
  /\ LET f == files[cur]   k == CHOOSE k \in RelocSecsFor(f, PhysName(f, Lg[ix])) : TRUE IN
     Advance([got EXCEPT ![Slot][Lg[ix]] = Have(ApplyRelocs(buf, f, k, 0))])
\* gABI: the data of a SHF_COMPRESSED section start with an Elf_Chdr; ch_size is the size of the uncompressed data
InflateGabi ==
  /\ pc = "gabi"
  /\ LET hs == SizeOf(ChdrF(cfg.cls), cfg.cls)
         w == cfg.cls \div 8
         ctype == FixDec(SubSeq(buf, 1, 4), cfg.le, FALSE)
         csize == SmallDec(SubSeq(buf, IF cfg.cls = 32 THEN 5 ELSE 9, (IF cfg.cls = 32 THEN 5 ELSE 9) + w - 1), cfg.le, FALSE)   \* sizes stay far below 2^24
     IN IF Len(buf) < hs THEN Fail("short")
        ELSE IF Digits(ctype, 4) # <<1, 0, 0, 0>> THEN Fail("type")
        ELSE LET d == Inflate(SubSeq(buf, hs + 1, Len(buf))) IN
             IF Len(d) # csize THEN Fail("size")
             ELSE Deliver(d)
\* legacy GNU: "ZLIB", 8-byte big-endian size, zlib stream
InflateLegacy ==
  /\ pc = "legacy"
  /\ IF Len(buf) <= 12 THEN Fail("zshort")
     ELSE IF SubSeq(buf, 1, 4) # ZlibMagic THEN Fail("magic")
     ELSE LET size == SmallDec(SubSeq(buf, 5, 12), FALSE, FALSE)   d == Inflate(SubSeq(buf, 13, Len(buf))) IN
          IF Len(d) # size THEN Fail("zsize")
          ELSE Deliver(d)
\* the supplementary file is opened without a loader of its own: its links are not followed
LoadSupplementary ==
  /\ pc = "links"
  /\ LET sn == SupNameOf(got.home) IN
     IF cur # "sup" /\ fl /\ cfg.loader /\ sn.p
     THEN LET to == Resolve(cfg, sn.b) IN
          IF to = "nofile" \/ ~files[to].present THEN Fail("nofile")
          ELSE IF ~IsElf(files[to]) THEN Fail("notelf")
          ELSE cur' = to /\ Goto(files[to], 0) /\ UNCHANGED <<cfg, files, fl, buf, got, err>>
     ELSE pc' = "done" /\ UNCHANGED <<cfg, files, cur, fl, ix, buf, got, err>>
DebugOnly(g) == [l \in LogSet \ {"eh_frame"} |-> g[l]]
\* ---- the client asks the loaded object again
Queries == {"name", "sup", "view"}
\* a file's logical sections, read to completion (the valid encodings only: this is what ReadSection / Inflate* compute step by step)
LoadAll(f) == [l \in LogSet |->
                LET n == PhysName(f, l) IN
                IF n = <<>> THEN Absent
                ELSE LET s == SecNamed(f, n) IN
                     IF Compressed(s) THEN Have(Inflate(SubSeq(s.data, SizeOf(ChdrF(cfg.cls), cfg.cls) + 1, Len(s.data))))
                     ELSE IF IsZName(n) THEN Have(Inflate(SubSeq(s.data, 13, Len(s.data))))
                     ELSE Have(s.data)]
Loaded == pc = "done" /\ err = "" /\ got.home["info"].p
\* which configurations are questioned: those with link sections (and a few without, whose answers are all "none")
QueryOn(c) == \/ c.fam \in {"sup", "chain"} /\ (Wide \/ c.supplan = "plain") /\ c.reloc /\ c.supplan \in {"plain", "gabi", "z"} /\ c.tgt = "elf"
              \/ c.fam = "enc" /\ ~c.line /\ c.plan \in {"plain", "gabi", "z"}
\* the machine's answer, from the bytes it loaded
Answer(q) ==
  LET sn == SupNameOf(got.home) IN
  CASE q = "name" -> [q |-> q, p |-> sn.p, b |-> sn.b]
    [] q = "sup" -> [q |-> q, p |-> sn.p /\ cfg.loader /\ Resolve(cfg, sn.b) = "sup" /\ files.sup.present, b |-> <<>>]
    [] q = "view" -> [q |-> q, p |-> DebugOnly(got.home) = DebugOnly(PayloadP(cfg)), b |-> <<>>]
Ask == /\ Loaded /\ QueryOn(cfg) /\ Len(qs) < MaxQueries
       /\ \E q \in Queries : qs' = Append(qs, q) /\ ans' = Append(ans, Answer(q))
       /\ UNCHANGED <<cfg, files, pc, cur, fl, ix, buf, got, err>>
\* final states stutter, so that deadlock checking reports every other stuck state (the constraint Emit is therefore evaluated
\* twice per final state: the driver keys the lines)
Done == pc = "done" /\ UNCHANGED vars
Load == Build \/ CheckLink \/ FollowDebugLink \/ ReadSection \/ InflateGabi \/ InflateLegacy \/ Relocate \/ LoadSupplementary
Next == (Load /\ UNCHANGED <<qs, ans>>) \/ Ask \/ Done
Spec == Init /\ [][Next]_vars

(* ------------------------------- the view ------------------------------ *)
\* what was loaded, in the property's terms
SupLoaded == cur = "sup" /\ pc = "done" /\ err = ""
Outcome == IF err # "" THEN "error:" \o err
           ELSE IF ~got.home["info"].p THEN "nodwarf"
           ELSE "loaded"
\* declarative expectation from the configuration alone
Followed(c) == c.home = "linked" /\ c.loader /\ c.follow
BadKind(plan) == CASE plan \in {"gabi_badsize", "gabi_smallsize"} -> "size" [] plan = "gabi_badtype" -> "type" [] plan = "z_badmagic" -> "magic"
                   [] plan \in {"z_badsize", "z_smallsize"} -> "zsize" [] plan = "z_short" -> "zshort" [] OTHER -> ""
\* ... of the opened file and the debug file behind its link
Expect0(c) == IF Followed(c) /\ c.dl = "badcrc" THEN "error:crc"
              ELSE IF Followed(c) /\ c.tgt = "garbage" /\ TgtRole(c) = "linked" THEN "error:notelf"
              ELSE IF c.home = "linked" /\ ~Followed(c) THEN "nodwarf"
              ELSE IF c.plan = "none" THEN "nodwarf"
              ELSE IF BadKind(c.plan) # "" THEN "error:" \o BadKind(c.plan)
              ELSE "loaded"
\* the supplementary file is read when the carrier of the link loads, a loader exists and links are followed
SupReached(c) == Expect0(c) = "loaded" /\ c.sup \in {"altlink", "debug_sup"} /\ c.loader /\ (c.follow \/ c.home = "linked")
\* ... and then it is read like any other file: what is wrong with it is an error of the whole load
Expect(c) == IF SupReached(c) /\ c.tgt = "garbage" THEN "error:notelf"
             ELSE IF SupReached(c) /\ BadKind(c.supplan) # "" THEN "error:" \o BadKind(c.supplan)
             ELSE Expect0(c)
ExpectSup(c) == Expect(c) = "loaded" /\ SupReached(c)
\* acceptable alternatives the property leaves open: an unstripped file with a link whose CRC is wrong; a link target that is
\* not an object file (the view of the opened file without the target's data)
Alternatives(c) == IF c.home = "main" /\ c.dl = "badcrc" /\ c.loader /\ c.follow THEN {"error:crc"}
                   ELSE IF Expect(c) = "error:notelf" THEN {IF TgtRole(c) = "sup" THEN "loaded" ELSE "nodwarf"}
                   ELSE {}
\* which file's eh_frame a reader sees: that of the file whose sections were loaded (both carry the same one here)

(* ------------------------------ properties ----------------------------- *)
TypeOK == /\ pc \in {"build", "open", "crc", "read", "gabi", "legacy", "reloc", "links", "done"}
          /\ cur \in {"main", "linked", "sup"} /\ fl \in BOOLEAN /\ ix \in 0..Len(Lg)
Invariance ==
  (pc = "done" /\ Expect(cfg) = "loaded") =>
     /\ err = ""
     /\ DebugOnly(got.home) = DebugOnly(PayloadP(cfg))
     /\ got.home["eh_frame"] = PayloadP(cfg)["eh_frame"]
     /\ SupLoaded = ExpectSup(cfg)
     /\ (SupLoaded => got.sup = PayloadS(cfg))
     /\ (~SupLoaded => got.sup = Got0.sup)
OutcomeMatches == pc = "done" => Outcome = Expect(cfg)
\* the relocatable carrier: the stored and the relocated .debug_info differ, in exactly the relocated field; applying the file's
\* relocation entries (read back from its bytes) to the stored content gives the relocated unit; what was loaded is the one the
\* option selects - in the opened file and behind a link alike
DiffAt(a, b) == {i \in 1..Len(a) : a[i] # b[i]}
RelocMatters ==
  (pc = "done" /\ cfg.rel # "none") =>
     LET st == InfoBytes(<<UnrelocUnit(cfg)>>)   re == InfoBytes(<<MainUnit(cfg)>>)   w == OffSize(PCtx(cfg))
         car == files[cfg.home]
         ks == RelocSecsFor(car, PhysName(car, "info"))
     IN /\ Len(st) = Len(re) /\ DiffAt(st, re) # {} /\ DiffAt(st, re) \subseteq (RelFieldOff(cfg) + 1)..(RelFieldOff(cfg) + w)
        /\ Cardinality(ks) = 1 /\ \A k \in ks : ApplyRelocs(st, car, k, 0) = re
        /\ \A l \in LogSet \ {"info"} : PhysName(car, l) = <<>> \/ RelocSecsFor(car, PhysName(car, l)) = {}
        /\ (Expect(cfg) = "loaded" => got.home["info"].b = (IF cfg.reloc THEN re ELSE st))
\* an unstripped file wins over its link: the file the link names holds other data, and they are never what was loaded
DecoyNeverLoaded ==
  (pc = "done" /\ cfg.home = "main" /\ cfg.dl # "none" /\ cfg.plan # "none") =>
     /\ PayloadDecoy(cfg)["info"] # PayloadP(cfg)["info"]
     /\ LoadAll(files.linked)["info"] = PayloadDecoy(cfg)["info"]
     /\ got.home["info"] # PayloadDecoy(cfg)["info"]
BadCrcRejected == pc = "done" => ((err = "crc") <=> (Followed(cfg) /\ cfg.dl = "badcrc"))
BadSizeRejected == pc = "done" => /\ (cfg.plan \in {"gabi_badsize", "gabi_smallsize"} /\ Expect(cfg) # "nodwarf" => err = "size")
                                  /\ (cfg.plan \in {"z_badsize", "z_smallsize"} /\ Expect(cfg) # "nodwarf" => err = "zsize")
                                  /\ (err \in {"size", "zsize"} => \/ cfg.plan \in {"gabi_badsize", "gabi_smallsize", "z_badsize", "z_smallsize"}
                                                                  \/ (SupReached(cfg) /\ cfg.supplan \in {"gabi_badsize", "gabi_smallsize", "z_badsize", "z_smallsize"}))
BadFramingRejected == pc = "done" => /\ (cfg.plan \in {"z_badmagic", "z_short", "gabi_badtype"} /\ Expect(cfg) # "nodwarf" => err = BadKind(cfg.plan))
                                     /\ (err \in {"magic", "zshort", "type", "short", "nofile"} => err = BadKind(cfg.plan) \/ (SupReached(cfg) /\ err = BadKind(cfg.supplan)))
\* ---- link targets that are present but not decodable
\* the error of reading file f directly: the first logical section (in reading order) whose container is broken
SecErr(f, l) ==
  LET n == PhysName(f, l) IN
  IF n = <<>> THEN ""
  ELSE LET s == SecNamed(f, n)   b == s.data   hs == SizeOf(ChdrF(cfg.cls), cfg.cls)   w == cfg.cls \div 8   at == IF cfg.cls = 32 THEN 5 ELSE 9 IN
       IF Compressed(s)
       THEN (IF Len(b) < hs THEN "short"
             ELSE IF Digits(FixDec(SubSeq(b, 1, 4), cfg.le, FALSE), 4) # <<1, 0, 0, 0>> THEN "type"
             ELSE IF Len(Inflate(SubSeq(b, hs + 1, Len(b)))) # SmallDec(SubSeq(b, at, at + w - 1), cfg.le, FALSE) THEN "size" ELSE "")
       ELSE IF IsZName(n)
       THEN (IF Len(b) <= 12 THEN "zshort" ELSE IF SubSeq(b, 1, 4) # ZlibMagic THEN "magic"
             ELSE IF Len(Inflate(SubSeq(b, 13, Len(b)))) # SmallDec(SubSeq(b, 5, 12), FALSE, FALSE) THEN "zsize" ELSE "")
       ELSE ""
DirectErr(f) == IF ~IsElf(f) THEN "notelf"
                ELSE LET bad == {i \in 1..Len(Lg) : SecErr(f, Lg[i]) # ""} IN IF bad = {} THEN "" ELSE SecErr(f, Lg[Min(bad)])
\* is the configuration's link target read at all?
TgtReached(c) == CASE TgtRole(c) = "sup" -> SupReached(c) [] TgtRole(c) = "linked" -> Followed(c) /\ c.dl = "ok" [] OTHER -> FALSE
\* reaching a file through a link changes nothing about what is wrong with it: the load ends with the error of opening the
\* target directly (none if the target is sound); a target that is not reached is not read, its defects do not matter
TargetAsDirect ==
  (pc = "done" /\ TgtRole(cfg) # "none") =>
     /\ (TgtReached(cfg) => err = DirectErr(files[TgtRole(cfg)]))
     /\ (~TgtReached(cfg) /\ TgtRole(cfg) = "sup" => err = DirectErr(files[IF Followed(cfg) THEN "linked" ELSE "main"]) /\ got.sup = Got0.sup)
     /\ (~TgtReached(cfg) /\ TgtRole(cfg) = "linked" /\ cfg.dl = "ok" => err = "" /\ ~got.home["info"].p)
\* a reached target with a bad declared size / bad framing is rejected, never dropped
BadTargetRejected ==
  pc = "done" =>
     /\ (SupReached(cfg) /\ BadKind(cfg.supplan) # "" => err = BadKind(cfg.supplan) /\ DirectErr(files.sup) = BadKind(cfg.supplan))
     /\ (TgtReached(cfg) /\ cfg.tgt = "garbage" => err = "notelf")
     /\ (err = "notelf" => cfg.tgt = "garbage" /\ TgtReached(cfg))
\* the names read back from the image's section-name table decide presence exactly as the writer meant it
ImgNames(im) == LET ex == ExplicitShdrs(im)   st == StrTab(im) IN {CStrAt(st, ex[i][2].sh_name.n).s : i \in 1..Len(ex)}
HasByNames(ns, strict) == DotDebugInfo \in ns \/ ZName(DotDebugInfo) \in ns \/ (~strict /\ DotEhFrame \in ns)
MeantInfo(c, role) == CASE role = "main" -> c.plan # "none" /\ c.home = "main"
                        [] role = "linked" -> c.plan # "none"
                        [] role = "sup" -> TRUE
MeantEh(c, role) == role # "sup" /\ c.eh /\ c.sup # "is_sup"
HasDwarfExact ==
  pc = "open" /\ cur = "main" =>
    \A role \in {"main", "linked", "sup"} : files[role].present /\ IsElf(files[role]) =>
       LET ns == ImgNames(ImageOf(files[role], cfg)) IN
       \A strict \in BOOLEAN : /\ HasByNames(ns, strict) = HasDwarfSecs(files[role], strict)
                               /\ HasByNames(ns, strict) = (MeantInfo(cfg, role) \/ (~strict /\ MeantEh(cfg, role)))
RoundTrips ==
  pc = "open" /\ cur = "main" =>
    /\ \A l \in LogSet : LET p == PayloadP(cfg)[l] IN p.p => \A blk \in {16, 65535} : Inflate(Stored(p.b, blk)) = p.b
    /\ \A tok \in {CrcTok, BadTok} : LET r == DebugLinkRec(DbgFileName(cfg), tok)   q == ParseDebugLink(r) IN
          q.filename = DbgFileName(cfg) /\ q.crc = tok /\ q.end = Len(r) /\ Len(r) % 4 = 0
    /\ ParseAltLink(AltLinkRec(SupFileName)).filename = SupFileName
    /\ \A s \in {0, 1} : LET q == ParseDebugSup(DebugSupRec(cfg, s, SupFileName), cfg.le) IN q.version = 5 /\ q.issup = s /\ q.filename = SupFileName
\* ---- the section type of a debug section is not part of the logical content: a configuration and its SHT_PROGBITS twin differ in
\* the sh_type fields only (and do differ there), and Expect / PayloadP - hence Invariance / OutcomeMatches - do not mention the type
NoType(sec) == [f \in DOMAIN sec \ {"type"} |-> sec[f]]
TypeBlind ==
  (pc = "open" /\ cur = "main" /\ cfg.stype # "progbits") =>
     LET twin == FilesOf([cfg EXCEPT !.stype = "progbits"]) IN
     /\ \A role \in {"main", "linked", "sup"} :
          /\ Len(files[role].secs) = Len(twin[role].secs)
          /\ \A k \in 1..Len(files[role].secs) : NoType(files[role].secs[k]) = NoType(twin[role].secs[k])
     /\ \E role \in {"main", "linked", "sup"} : \E k \in 1..Len(files[role].secs) : files[role].secs[k].type # twin[role].secs[k].type
     /\ \A role \in {"main", "linked", "sup"} : \A k \in 1..Len(files[role].secs) :
          files[role].secs[k].type # twin[role].secs[k].type => files[role].secs[k].type \in {ShtMipsDwarf, ShtX8664Unwind, ShtUser}
\* ---- the full payload: every debug section of the flavour is there and is not empty, no other is; the tables read back from the bytes
\* are the abstract ones; the signature the typedef refers to is the type unit's, whose type_offset designates its second entry
FullRoundTrips ==
  (pc = "open" /\ cur = "main" /\ cfg.full) =>
     LET x == PCtx(cfg)   P == PayloadP(cfg)   hl == InitLenSize(x) + 2 + 2 * OffSize(x) IN
     /\ \A l \in LogSet \ {"debug_sup", "altlink", "eh_frame"} : P[l].p = (l \in FullSecs(cfg.ver)) /\ (P[l].p => Len(P[l].b) > 0)
     /\ ReadPairs(P["aranges"].b, RoundUp(ArHdrLen(x), 2 * x.asz), x.asz, x.le) = ArTuples
     /\ Len(P["frame"].b) % x.asz = 0
     /\ SmallDec(Slice(P["frame"].b, FrameFdeOff(x) + InitLenSize(x) + OffSize(x) + 1, x.asz), x.le, FALSE) = FrameFde.loc
     /\ cfg.ver >= 5 =>
          /\ P["loclists"].b[ListsBase(x) + ListOffs(x)[1] + 1] = 4 /\ P["loclists"].b[ListsBase(x) + ListOffs(x)[2] + 1] = 0
          /\ P["rnglists"].b[ListsBase(x) + ListOffs(x)[1] + 1] = 4 /\ P["rnglists"].b[ListsBase(x) + ListOffs(x)[2] + 1] = 0
          /\ P["loclists"].b[Len(P["loclists"].b)] = 0 /\ P["rnglists"].b[Len(P["rnglists"].b)] = 0
     /\ cfg.ver <= 4 =>
          /\ ReadPairs(P["ranges"].b, 0, x.asz, x.le) = RangeEnts
          /\ ReadLoc(P["loc"].b, 0, x) = LocEnts
          /\ ReadPub(P["pubnames"].b, hl, x) = PubNames(cfg)
          /\ ReadPub(P["pubtypes"].b, hl, x) = PubTypes(cfg)
          /\ LET tu == TypeUnit(cfg)   tv == UnitView(tu, 0)   mv == UnitView(MainUnit(cfg), 0) IN
             /\ tv.dies[2].off = tu.typeoff
             /\ mv.dies[3].attrs[2].form = "DW_FORM_ref_sig8" /\ FinalAttr(MainUnit(cfg).dies[3].attrs[2]).v = tu.sig
             /\ UnitBytes(tu) = P["types"].b
\* questions: the answers are a function of the configuration, whatever was asked before
HasSupLink(c) == c.sup \in {"altlink", "debug_sup"}
DeclAnswer(c, q) == CASE q = "name" -> [q |-> q, p |-> HasSupLink(c), b |-> IF HasSupLink(c) THEN SupFileName ELSE <<>>]
                      [] q = "sup" -> [q |-> q, p |-> HasSupLink(c) /\ c.loader, b |-> <<>>]
                      [] q = "view" -> [q |-> q, p |-> TRUE, b |-> <<>>]
AnswersStable == /\ Len(ans) = Len(qs)
                 /\ \A i \in 1..Len(qs) : ans[i] = DeclAnswer(cfg, qs[i])
                 /\ (qs # <<>> => Loaded /\ QueryOn(cfg))
SupAgain == (\E i \in 1..Len(ans) : ans[i].q = "sup" /\ ans[i].p) => LoadAll(files.sup) = PayloadS(cfg)
\* termination: a variant function that every step decreases (the files form a chain main > linked > sup)
Rank(r) == CASE r = "main" -> 2 [] r = "linked" -> 1 [] r = "sup" -> 0
ASSUME MaxQueries \in 0..7
Measure == (MaxQueries - Len(qs)) + 8 * Rank(cur) * 128 + 8 * (CASE pc = "build" -> 127 [] pc = "open" -> 120 [] pc = "crc" -> 119 [] pc = "read" -> 100 - 4 * ix [] pc = "gabi" -> 99 - 4 * ix
                               [] pc = "legacy" -> 98 - 4 * ix [] pc = "reloc" -> 97 - 4 * ix [] pc = "links" -> 2 [] pc = "done" -> 0)
Progress == [][Measure' < Measure]_vars
MeasureNat == Measure >= 0

(* ------------------------------- emission ------------------------------ *)
Bit(b) == IF b THEN 1 ELSE 0
\* key of the images a configuration uses (everything but loader / follow), and of the plain reference of the same payload
ImgKey(c) == <<c.cls, Bit(c.le), c.ver, c.fmt, Bit(c.line), Bit(c.eh), c.plan, c.dl, c.home, c.sup, c.supplan, c.mix, c.rel, c.tgt, c.stype, Bit(c.full)>>
\* class of the link target for reports
TgtTag(c) == IF c.tgt = "garbage" THEN "/target=not-elf" ELSE IF BadKind(c.supplan) # "" THEN "/target=" \o c.supplan ELSE ""
\* class of a plan for reports: a per-section plan is named after how .debug_info is stored
\* ... a one-against-the-rest plan of the full payload after the section that is stored differently
OddSec(c) == CHOOSE l \in FullSecs(c.ver) : \A y \in FullSecs(c.ver) \ {l} : c.mix[MixIx(y)] # c.mix[MixIx(l)]
RestSec(c) == CHOOSE y \in FullSecs(c.ver) : y # OddSec(c)
PlanTag(c) == IF c.plan = "mix" /\ c.full THEN "one." \o OddSec(c) \o "-" \o c.mix[MixIx(OddSec(c))] \o ".rest-" \o c.mix[MixIx(RestSec(c))]
              ELSE IF c.plan = "mix" THEN "mix.info-" \o c.mix[1] ELSE c.plan
\* the reference of a relocatable carrier is the plain, link-free object under the same relocate option
RefKey(c, suploaded) == <<c.cls, Bit(c.le), c.ver, c.fmt, Bit(c.line), Bit(c.eh), c.sup, Bit(suploaded), c.rel, IF c.rel = "none" THEN 1 ELSE Bit(c.reloc), Bit(c.full)>>
IsRef(c) == c.plan = "plain" /\ c.dl = "none" /\ c.supplan = "plain" /\ c.home = "main" /\ c.stype = "progbits"
CanonForImages(c) == c.follow /\ c.reloc /\ (c.fam \in {"stype", "full"} \/ c.loader = (c.fam \notin {"enc", "nodwarf"} /\ ~(c.fam = "dlink" /\ c.dl = "none")))
ImgLine(role) ==
  LET im == ImageOf(files[role], cfg)
      lk == SecIx(files[role], DotGnuDebuglink)
  IN [k |-> "img", key |-> ImgKey(cfg), role |-> role, chunks |-> IF IsElf(files[role]) THEN Chunks(im) ELSE << <<0, files[role].raw, 1>> >>,
      \* where the CRC-32 of the linked file goes: [offset, width]; empty when the file has no link
      crcslot |-> IF lk = {} THEN <<>> ELSE LET j == CHOOSE j \in lk : TRUE IN <<SecOff(im, j) + Len(files[role].secs[j].data) - 4, 4>>]
CaseLine ==
  [k |-> "case", fam |-> cfg.fam, img |-> ImgKey(cfg), cls |-> cfg.cls, le |-> cfg.le, ver |-> cfg.ver, fmt |-> cfg.fmt, plan |-> cfg.plan, plantag |-> PlanTag(cfg), mix |-> cfg.mix,
   dl |-> cfg.dl, home |-> cfg.home, sup |-> cfg.sup, supplan |-> cfg.supplan, loader |-> cfg.loader, follow |-> cfg.follow,
   rel |-> cfg.rel, reloc |-> cfg.reloc, tgt |-> cfg.tgt, tgttag |-> TgtTag(cfg), stype |-> cfg.stype, full |-> cfg.full,
   isref |-> IsRef(cfg), refkey |-> RefKey(cfg, SupLoaded),
   \* the view
   outcome |-> Outcome, alt |-> Alternatives(cfg), suploaded |-> SupLoaded,
   has_strict |-> HasDwarfSecs(files.main, TRUE), has_nonstrict |-> HasDwarfSecs(files.main, FALSE),
   has_link |-> HasSec(files.main, DotGnuDebuglink),
   link_filename |-> IF HasSec(files.main, DotGnuDebuglink) THEN ParseDebugLink(SecNamed(files.main, DotGnuDebuglink).data).filename ELSE <<>>,
   crc_ok |-> cfg.dl = "ok",
   files |-> [linked |-> IF files.linked.present THEN DbgFileName(cfg) ELSE <<>>, sup |-> IF files.sup.present THEN SupFileName ELSE <<>>],
   eh |-> got.home["eh_frame"].p]
\* the specification's view of the payload's units (C04's view), once per reference
\* what the other sections of the full payload say (the abstract tables they were written from)
SecViewOf(c) ==
  LET x == PCtx(c)   old == c.ver <= 4 IN
  [full |-> c.full, lines |-> IF c.line THEN <<LineRows>> ELSE <<>>,
   aranges |-> IF c.full THEN [i \in 1..Len(ArTuples) |-> [begin |-> ArTuples[i][1], len |-> ArTuples[i][2], info |-> 0]] ELSE <<>>,
   frame |-> IF c.full THEN << [kind |-> "CIE", off |-> 0], [kind |-> "FDE", off |-> FrameFdeOff(x), loc |-> FrameFde.loc, range |-> FrameFde.range, cie |-> 0] >> ELSE <<>>,
   ranges |-> IF c.full /\ old THEN <<RangeEnts>> ELSE <<>>,
   loc |-> IF c.full /\ old THEN << [i \in 1..Len(LocEnts) |-> [b |-> LocEnts[i][1], e |-> LocEnts[i][2], expr |-> LocEnts[i][3]]] >> ELSE <<>>,
   pubnames |-> IF c.full /\ old THEN [i \in 1..Len(PubNames(c)) |-> [die |-> PubNames(c)[i][1], name |-> PubNames(c)[i][2], cu |-> 0]] ELSE <<>>,
   pubtypes |-> IF c.full /\ old THEN [i \in 1..Len(PubTypes(c)) |-> [die |-> PubTypes(c)[i][1], name |-> PubTypes(c)[i][2], cu |-> 0]] ELSE <<>>,
   types |-> IF c.full /\ old THEN <<UnitView(TypeUnit(c), 0)>> ELSE <<>>,
   \* DWARF 5: the lists the entries designate through the offset tables of .debug_loclists / .debug_rnglists
   lists |-> IF c.full /\ ~old THEN << [loc |-> [i \in 1..Len(LocList5) |-> [b |-> LocList5[i][1], e |-> LocList5[i][2], expr |-> LocList5[i][3]]], rng |-> RngList5] >>
             ELSE <<>>]
ViewLine ==
  [k |-> "view", refkey |-> RefKey(cfg, SupLoaded), units |-> <<UnitView(ViewUnit(cfg), 0)>>, secview |-> SecViewOf(cfg),
   altform |-> AltFormOf(cfg.sup),
   altval |-> IF SupLoaded THEN [k |-> "bytes", b |-> CStrAt(SupStrSec, SupStrOff).s] ELSE [k |-> "num", v |-> N(SupStrOff)]]
\* one line per maximal sequence of questions (its prefixes are part of it)
QueryLine ==
  [k |-> "query", fam |-> cfg.fam, img |-> ImgKey(cfg), le |-> cfg.le, plantag |-> PlanTag(cfg), dl |-> cfg.dl, sup |-> cfg.sup, crc_ok |-> cfg.dl = "ok",
   loader |-> cfg.loader, follow |-> cfg.follow, reloc |-> cfg.reloc, refkey |-> RefKey(cfg, SupLoaded), suprefkey |-> RefKey(cfg, TRUE),
   files |-> [linked |-> IF files.linked.present THEN DbgFileName(cfg) ELSE <<>>, sup |-> IF files.sup.present THEN SupFileName ELSE <<>>],
   qs |-> qs, ans |-> ans]
Emit ==
  pc = "done" =>
    /\ (qs = <<>> => CSVWrite("%1$s", <<ToJson(CaseLine)>>, IOEnv.OUT))
    /\ (MaxQueries > 0 /\ Len(qs) = MaxQueries => CSVWrite("%1$s", <<ToJson(QueryLine)>>, IOEnv.OUT))
    /\ (qs = <<>> /\ CanonForImages(cfg) => \A role \in {"main", "linked", "sup"} : files[role].present => CSVWrite("%1$s", <<ToJson(ImgLine(role))>>, IOEnv.OUT))
    /\ (qs = <<>> /\ IsRef(cfg) /\ cfg.sup # "is_sup" /\ cfg.plan # "none" => CSVWrite("%1$s", <<ToJson(ViewLine)>>, IOEnv.OUT))

\* layout tables for the harness-side rewriter of corpus files: [field, offset, width] per record and class (written once)
OffsOf(F, cls, base) == [i \in 1..Len(F) |-> <<F[i][1], base + SumR([j \in 1..Len(F) |-> Width(F[j][2], cls)], 1, i - 1), Width(F[i][2], cls)>>]
LayoutOf(cls) == [ehdr |-> OffsOf(EhdrF, cls, 16), ehsize |-> 16 + SizeOf(EhdrF, cls), shdr |-> OffsOf(ShdrF, cls, 0), shentsize |-> SizeOf(ShdrF, cls),
                  chdr |-> OffsOf(ChdrF(cls), cls, 0), chsize |-> SizeOf(ChdrF(cls), cls)]
LayoutLine == [k |-> "layout", c32 |-> LayoutOf(32), c64 |-> LayoutOf(64), shf_compressed |-> ShfCompressed, elfcompress_zlib |-> 1,
               zmagic |-> ZlibMagic, debug_prefix |-> DotDebugPrefix, zdebug_prefix |-> DotZdebugPrefix,
               debuglink |-> DotGnuDebuglink, sht_progbits |-> 1, sht_null |-> 0, sht_nobits |-> 8]
ASSUME CSVWrite("%1$s", <<ToJson(LayoutLine)>>, IOEnv.OUT)
=============================================================================
