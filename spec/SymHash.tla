------------------------------ MODULE SymHash ------------------------------
(***************************************************************************)
(* C03 - Symbol tables enumerate exactly; name and hash lookups are         *)
(* complete and sound.                                                      *)
(*                                                                         *)
(* Transcribed from the System V gABI ch.4 "Symbol Table" (figure 4-16      *)
(* entry layouts per class, ELF32/64_ST_BIND/TYPE/INFO, figures 4-17..4-19  *)
(* binding/type/visibility codes, reserved section indices, SHN_XINDEX and  *)
(* the SHT_SYMTAB_SHNDX companion table: "one Elf32_Word per symbol, in the *)
(* same order; 0 unless the symbol's st_shndx is SHN_XINDEX"), ch.4 "String *)
(* Table" (names are NUL-terminated strings at st_name; substrings may be   *)
(* referenced; offset 0 and every offset of a NUL name the empty string),   *)
(* ch.5 "Hash Table", the GNU hash section (see HashWalk.tla), and the      *)
(* Oracle Linker and Libraries Guide ("Syminfo Table Section": Elf_Syminfo  *)
(* = {Half si_boundto, Half si_flags} for both classes, entry 0 holds the   *)
(* table version, entry i describes symbol i of the linked symbol table).   *)
(*                                                                         *)
(* The environment is an abstract writer: it chooses class, byte order and  *)
(* section kind, appends symbols to an abstract table (AddSymbol), then      *)
(* chooses nbucket(s) and symoffset (Sort: the symbols from symoffset on -   *)
(* the hashed part - are grouped by GNU bucket as the GNU format requires,   *)
(* symbol and string tables are serialised, the canonical SysV table is      *)
(* built over the result) and a bloom geometry (BuildGnuTable: the           *)
(* canonical GNU table).  A reader process - the byte-level machines of      *)
(* HashWalk.tla, one action per loop iteration (SysVBucket, SysVChainStep    *)
(* on the sorted table; GnuBloomTest, GnuBucket, GnuChainStep, GnuCountMax,  *)
(* GnuCountWalk once the GNU table exists) - is started for every query      *)
(* name, present or absent, and for the count.  A second mode ("fields")     *)
(* starts from one long table that sweeps every entry field.                 *)
(*                                                                         *)
(* Mode "mach": the same writer over small tables, with e_machine drawn     *)
(* from Machines.  gABI ch.4/5: the symbol entry layout is fixed by         *)
(* EI_CLASS, and the hash table is an array of Elf32_Word / Elf64_Word -    *)
(* 32-bit objects in both classes; ch.4 "Data Representation": no layout of *)
(* these sections depends on e_machine.  So the section bytes and the view  *)
(* are the same for every machine (MachineNeutral).  Two 64-bit psABIs are  *)
(* known to deviate (Alpha, s390x: binutils writes 8-byte hash words        *)
(* there); ELFCLASS64 with EM_ALPHA / EM_S390 is therefore outside the      *)
(* writer's alphabet (HashWordUnspecified) - nothing is asserted for it.    *)
(* ELFCLASS32 with those machines is inside: 4-byte words certainly apply.  *)
(*                                                                         *)
(* Mode "multi": one file with several symbol tables (gABI: at most one     *)
(* SHT_SYMTAB and one SHT_DYNSYM; Solaris adds SHT_SUNW_LDYNSYM), each with *)
(* its own string table, built one after the other (AddSymbol, NextTable).  *)
(* gABI ch.4 "Section names are conventions": an object file may have more  *)
(* than one section with the same name, and names may be blank (sh_name of  *)
(* a NUL) - naming in {"own", "same", "blank"}.  A table is identified by   *)
(* its section header, never by its name: the view of every table           *)
(* (entries, ByName) is that table's own, whatever was asked of the other   *)
(* tables of the file before (MultiWellFormed; the query schedules Scheds   *)
(* interleave the tables in four orders, the driver walks each schedule on  *)
(* one ELFFile).                                                            *)
(*                                                                         *)
(* Mode "dyn" (strengthening round 5): the table as a reader WITHOUT the    *)
(* section object gets it.  The file is a dynamic object - .dynsym,         *)
(* .dynstr, .hash, .gnu.hash, .dynamic, one PT_LOAD, PT_DYNAMIC (gABI ch.5   *)
(* "Program Header", "Dynamic Section": DT_SYMTAB / DT_STRTAB / DT_HASH /    *)
(* DT_GNU_HASH are addresses, DT_STRSZ, DT_SYMENT sizes) - over tables with  *)
(* duplicate names and several empty names, with and without section header *)
(* table, the array naming both hash tables, DT_HASH alone or DT_GNU_HASH    *)
(* alone (then something is hashed: the count is determined).  Link writes   *)
(* the array; SegRead is the segment reader (PT_DYNAMIC -> DynScan!Scan ->   *)
(* addresses through PT_LOAD -> count from the hash tables -> entries);      *)
(* SegViewAgrees: it finds exactly the writer's table bytes, the true count  *)
(* and, scanning for a name, exactly ByName; DynWellFormed: the object is    *)
(* laid out as the gABI says.  Client sessions (StartSession / ClientCall,   *)
(* one action per public call on ONE long-lived object - the segment, or the *)
(* .dynsym section object -, the log holds the answer the declarative view   *)
(* fixes for each call): look-ups by name in every order (present,           *)
(* duplicated, absent, repeated), count, listing, by index, a stepwise       *)
(* iteration in between.  SessionAnswers (the logged answer = a fresh scan   *)
(* of the bytes, whatever was asked before), SessionOrderFree, IterInOrder,  *)
(* SessionsCover, SessionFrame (calls do not change the object).  Every      *)
(* finished session is emitted (SessLine) and replayed call by call.         *)
(* Parameters of the mode are definitions (DynIds .. DynTags, FreeCalls): a  *)
(* configuration overrides them (DynSyms <- DynSymsT), no CONSTANTS.         *)
(*                                                                         *)
(* TLC checks on the specification itself, for every table in the bounds    *)
(* and every query name: LookupSound, LookupComplete, GnuFindsFirst,        *)
(* CountExact, CountDetermined, NoFault / ChainInBounds / ChainProgress     *)
(* (the readers stay inside the sections and terminate), RunAgrees (the     *)
(* action-level machine equals the operator form used for emission and for  *)
(* trace validation), GnuWellFormed (header, section size, hashed part      *)
(* grouped by ascending bucket, chain word = hash but for bit 0 = last of   *)
(* its bucket, bucket word = lowest index or 0), SysVWellFormed (header,     *)
(* sizes, the chains partition the hashed part, one chain end per populated  *)
(* bucket), NamesResolve (every st_name resolves to exactly the symbol's     *)
(* name, by the operational byte comparison and by the declarative C-string  *)
(* reading), SymRoundTrip (decoding the entry bytes at index * sh_entsize    *)
(* gives the abstract entry back, ST_INFO(bind, type) recomposes st_info,    *)
(* the companion word is 0 off SHN_XINDEX, ByName partitions the indices),   *)
(* MachInAlphabet / MachineNeutral (e_machine stays where the gABI's 32-bit  *)
(* hash words certainly apply and changes two bytes of the file header and   *)
(* nothing else), MultiWellFormed (several tables in one file: disjoint      *)
(* sections, own string tables, names as the naming scheme says, every       *)
(* table's by-name scan of its own bytes = its own ByName).                  *)
(*                                                                         *)
(* Every hashed table is emitted (spec-selected subset, see Selected) with  *)
(* its ELF image (Elf!Chunks) and the declarative view: entries in index    *)
(* order, ByName, for every query name the set of hashed indices bearing it *)
(* (any of them is a correct answer; none iff the set is empty), the count. *)
(*                                                                         *)
(* Deliberately outside the model (not asserted):                          *)
(*  - symoffset = 0: bucket value 0 denotes an empty bucket in the format,  *)
(*    so a hashed symbol 0 cannot be told from an empty bucket;             *)
(*  - GNU tables without a populated bucket whose symoffset is not the      *)
(*    table length (GNU ld writes symoffset = 1 there): by the format's own *)
(*    invariant they say nothing about the count;                           *)
(*  - nbuckets = 0, bloom_size = 0, shift >= 32 (ill-formed);               *)
(*  - names where figure 5-13's `unsigned long` arithmetic leaves 32 bits;  *)
(*  - the names STB_NUM / STT_NUM / STT_RELC / STT_SRELC (not code names of *)
(*    the gABI nor of the vendored registry);                               *)
(*  - which of several hashed symbols bearing the queried name is returned  *)
(*    (the property asks for "a symbol with the requested name").           *)
(* st_other: visibility is the low 2 bits by the gABI, the low 3 bits by    *)
(* Solaris - a reader may use either; every other bit is processor specific *)
(* ("other bits" of the property: PPC64 ELFv2 bits 5-7, MIPS 0x08 .. 0xf0,  *)
(* AArch64 / RISC-V 0x80) and must be recoverable from the reported entry.  *)
(* Name tables below are literals from the gABI figures (Solaris codes from *)
(* the Linker and Libraries Guide); the driver adds the vendored registry's *)
(* names of the same code (OS / processor specific aliases).                *)
(***************************************************************************)
EXTENDS Elf, HashWalk, Json, CSV, IOUtils

CONSTANTS Modes,         \* subset of {"lookup", "fields"}
          NameIds,       \* name ids the writer may append (subset of 1..6)
          MaxSyms,       \* symbols after the null entry (lookup mode)
          LastIds,       \* ... of which the last position of a table of MaxSyms symbols may take
          NBuckets,      \* nbucket (SysV) = nbuckets (GNU)
          Blooms,        \* <<bloom size in words, shift>> pairs
          FieldN,        \* symbols after the null entry (fields mode)
          EmitMod, AlwaysLen,  \* emission: every table of <= AlwaysLen entries, of the longer ones one in EmitMod
          Machines,      \* e_machine codes (mach mode)
          SmallIds,      \* name ids of the mach and multi modes
          SmallSyms,     \* symbols after the null entry per table (mach and multi modes)
          MultiTabs,     \* symbol tables per file (multi mode): 2..3
          MultiCls       \* <<class, little endian>> pairs of the multi mode

\* `more`: the symbol tables of the file that are already complete (multi mode; <<>> otherwise); `tab` is the one being built
\* `sess`: the client session on the finished object (dyn mode; NoSess otherwise)
VARIABLES mode, cf, tab, more, phase, hp, mem, rd, sess
vars == <<mode, cf, tab, more, phase, hp, mem, rd, sess>>

(* ------------------------------- names --------------------------------- *)
NameSeq == TLCEval(<< <<>>,                                    \* 1  ""
                      <<97>>,                                  \* 2  "a"   GNU hash 0x2b606
                      <<98>>,                                  \* 3  "b"   GNU hash 0x2b607: equal but for bit 0
                      <<97, 98>>,                              \* 4  "ab"  ("b" may be its tail in the string table)
                      <<195, 169, 226, 130, 172>>,             \* 5  UTF-8 "é€"
                      [i \in 1..70 |-> 65 + (i % 26)] >>)      \* 6  70 bytes: longer than a 64-byte read chunk
AllIds == 1..6
GH == TLCEval([k \in AllIds |-> GnuHash(NameSeq[k])])
EH == TLCEval([k \in AllIds |-> ElfHash(NameSeq[k])])
ASSUME GH[2] = <<46598, 2>> /\ GH[3] = <<46599, 2>> /\ GH[1] = <<5381, 0>>     \* 0x2b606, 0x2b607, 5381
ASSUME EH[2] = <<97, 0>> /\ EH[4] = <<97 * 16 + 98, 0>>
ASSUME \A k \in AllIds : ~ElfAmbiguous(NameSeq[k])

(* --------------------------- abstract symbols -------------------------- *)
\* nm: name id; value/size: field values (Small or Wide of the class width); info, other: bytes;
\* shndx: half; xs: the companion word; bt/fl: the syminfo entry of the same index
Sym(nm, value, size, info, other, shndx, xs, bt, fl) ==
  [nm |-> nm, value |-> value, size |-> size, info |-> info, other |-> other, shndx |-> shndx, xs |-> xs, bt |-> bt, fl |-> fl]
NullSym == Sym(1, Z, Z, 0, 0, 0, Z, 1, 0)          \* gABI: entry 0 is all zero; syminfo entry 0: SYMINFO_CURRENT
\* lookup mode: the value is the serial number of the symbol (stays with it when the table is sorted)
LSym(id, k) == Sym(id, N(k), N(Len(NameSeq[id])), 16 + (k % 3), k % 4, k, Z, 0, 0)
\* multi mode: the value also tells the table (t = number of tables before this one)
MSym(id, k, t) == [LSym(id, k) EXCEPT !.value = N(k + 16 * t)]

Vals(c) == IF c = 32 THEN <<Z, N(1), N(4096), W(<<0, 0, 0, 128>>), W(<<255, 255, 255, 255>>)>>
           ELSE <<Z, N(1), W(<<0, 0, 0, 128, 0, 0, 0, 0>>), W(<<255, 255, 255, 255, 255, 255, 255, 255>>),
                  W(<<0, 0, 0, 0, 0, 0, 0, 128>>), W(<<1, 2, 3, 4, 5, 6, 7, 8>>)>>
Sizes(c) == IF c = 32 THEN <<Z, N(70000), W(<<254, 255, 255, 255>>), W(<<0, 0, 0, 128>>)>>
            ELSE <<Z, N(70000), W(<<254, 255, 255, 255, 255, 255, 255, 255>>), W(<<0, 0, 0, 0, 1, 0, 0, 0>>)>>
\* st_shndx values with the companion word: ordinary, below/at/inside the reserved ranges, ABS, COMMON, XINDEX
Shn == << <<0, Z>>, <<1, Z>>, <<65279, Z>>, <<65280, Z>>, <<65281, Z>>, <<65311, Z>>, <<65312, Z>>, <<65343, Z>>,
          <<65521, Z>>, <<65522, Z>>, <<65535, N(65536)>>, <<65535, W(<<240, 255, 255, 255>>)>>, <<65535, N(65280)>>,
          \* more SHN_XINDEX entries, so that tables whose LAST symbol carries an extended index occur in every ordering
          <<65535, N(65537)>>, <<65535, N(70000)>>, <<65535, W(<<1, 0, 0, 128>>)>>, <<65535, N(1)>> >>
Bts == <<0, 1, 65280, 65532, 65533, 65534, 65535>>
FSym(i, c) == LET sx == Shn[(i % Len(Shn)) + 1] IN
  Sym((i % 6) + 1, Vals(c)[(i % Len(Vals(c))) + 1], Sizes(c)[(i % Len(Sizes(c))) + 1], (i - 1) % 256, ((i - 1) * 7 + 3 + ((i - 1) \div 256)) % 256,
      sx[1], sx[2], Bts[(i % Len(Bts)) + 1], (i * 5) % 64)
FieldsTab(c) == <<NullSym>> \o [i \in 1..FieldN |-> FSym(i, c)]     \* FieldN >= 256: st_info and st_other take every value

(* ---------------------------- string table ----------------------------- *)
Present(t) == {t[i].nm : i \in 1..Len(t)}
StrIds(t) == LET InTable(k) == k \in Present(t) /\ ~(k = 3 /\ 4 \in Present(t))      \* "b" is the tail of "ab"
             IN SelectSeq(IF Len(t) % 2 = 0 THEN <<6, 5, 4, 3, 2>> ELSE <<2, 3, 4, 5, 6>>, InTable)
StrBytes(t) == LET ids == StrIds(t) IN <<0>> \o Flat([k \in 1..Len(ids) |-> NameSeq[ids[k]] \o <<0>>])
\* st_name by name id: "b" is the tail of "ab" when both are present; the empty name is the table's last
\* NUL (the null entry, index 0, uses offset 0)
StrOffsets(t) ==
  LET ids == StrIds(t)
      offs == NameOffs([k \in 1..Len(ids) |-> NameSeq[ids[k]]], 1)
      OffOf(x) == offs[CHOOSE k \in 1..Len(ids) : ids[k] = x]
      pres == Present(t)
      last == Len(StrBytes(t)) - 1
  IN TLCEval([id \in AllIds |-> IF id = 1 THEN last
                                ELSE IF id \notin pres THEN 0
                                ELSE IF id = 3 /\ 4 \in pres THEN OffOf(4) + 1 ELSE OffOf(id)])
NameOffset(so, id, i) == IF id = 1 /\ i = 0 THEN 0 ELSE so[id]

(* ------------------------------ encodings ------------------------------ *)
\* concatenation of f[i..j], splitting the range in halves (tables of hundreds of entries)
RECURSIVE Cat(_, _, _)
Cat(f, i, j) == IF i > j THEN <<>> ELSE IF i = j THEN f[i] ELSE LET mid == (i + j) \div 2 IN Cat(f, i, mid) \o Cat(f, mid + 1, j)
CatAll(f, n) == LET g == TLCEval(f) IN Cat(g, 1, n)
EntSize(c, extra) == SizeOf(SymF(c), c) + extra
SymRec(s, off) == [st_name |-> N(off), st_value |-> s.value, st_size |-> s.size, st_info |-> N(s.info),
                   st_other |-> N(s.other), st_shndx |-> N(s.shndx)]
EncSyms(t, c, le, extra) ==
  LET so == StrOffsets(t) IN
  CatAll([i \in 1..Len(t) |-> Ser(SymF(c), SymRec(t[i], NameOffset(so, t[i].nm, i - 1)), c, le) \o Rep(165, extra)], Len(t))
EncShndx(t, le) == CatAll([i \in 1..Len(t) |-> Fix(t[i].xs, 4, le)], Len(t))
EncSyminfo(t, le) == CatAll([i \in 1..Len(t) |-> Fix(N(t[i].bt), 2, le) \o Fix(N(t[i].fl), 2, le)], Len(t))

(* ------------------------------ GNU hash ------------------------------- *)
GBucket(s, nb) == WMod(GH[s.nm], nb)
\* the format requires the symbols from symoffset on to be grouped by bucket, buckets ascending
SortTab(t, nb, so) ==
  LET rest == SubSeq(t, so + 1, Len(t))
      InB(b) == LET T(s) == GBucket(s, nb) = b IN SelectSeq(rest, T)
  IN SubSeq(t, 1, so) \o CatAll([b \in 1..nb |-> InB(b - 1)], nb)
BloomK(c) == IF c = 32 THEN 5 ELSE 6
BuildGnu(t, nb, so, bs, sh, c) ==
  LET n == Len(t)
      hv(i) == GH[t[i + 1].nm]
      bk(i) == WMod(hv(i), nb)
      hashed == so..(n - 1)
  IN [nb |-> nb, so |-> so, bs |-> bs, sh |-> sh,
      bloom |-> [w \in 1..bs |-> UNION {{hv(i)[1] % c, WBits(hv(i), sh, BloomK(c))} : i \in {j \in hashed : WDivC(hv(j), c) % bs = w - 1}}],
      buckets |-> [b \in 1..nb |-> LET ms == {i \in hashed : bk(i) = b - 1} IN IF ms = {} THEN 0 ELSE Min(ms)],
      chain |-> [k \in 1..(n - so) |-> LET i == so + k - 1
                                           h == hv(i)
                                           last == i = n - 1 \/ bk(i + 1) # bk(i)
                                       IN <<h[1] - (h[1] % 2) + (IF last THEN 1 ELSE 0), h[2]>>]]
W4(n, le) == Fix(N(n), 4, le)
LimbB(w, le) == LET d == <<w[1] % 256, w[1] \div 256, w[2] % 256, w[2] \div 256>> IN IF le THEN d ELSE Rev(d)
BloomB(bits, c, le) ==
  LET d == [k \in 1..(c \div 8) |-> LET B(j) == IF (8 * (k - 1) + j) \in bits THEN HPow2(j) ELSE 0
                                   IN B(0) + B(1) + B(2) + B(3) + B(4) + B(5) + B(6) + B(7)]
  IN IF le THEN d ELSE Rev(d)
EncGnu(g, c, le) ==
  W4(g.nb, le) \o W4(g.so, le) \o W4(g.bs, le) \o W4(g.sh, le)
  \o CatAll([w \in 1..g.bs |-> BloomB(g.bloom[w], c, le)], g.bs)
  \o CatAll([b \in 1..g.nb |-> W4(g.buckets[b], le)], g.nb)
  \o CatAll([k \in 1..Len(g.chain) |-> LimbB(g.chain[k], le)], Len(g.chain))

(* ------------------------------ SysV hash ------------------------------ *)
\* every symbol of the hashed part is on the chain of bucket ElfHash(name) % nbucket; chains of even
\* buckets run in ascending, chains of odd buckets in descending index order (both are what linkers write)
BuildSysV(t, nb, so) ==
  LET n == Len(t)
      bk(i) == WMod(EH[t[i + 1].nm], nb)
      ord == TLCEval([b \in 1..nb |-> LET T(i) == i >= so /\ bk(i) = b - 1
                                           asc == SelectSeq([k \in 1..n |-> k - 1], T)
                                       IN IF (b - 1) % 2 = 0 THEN asc ELSE Rev(asc)])
  IN [nb |-> nb, nc |-> n,
      buckets |-> [b \in 1..nb |-> IF ord[b] = <<>> THEN 0 ELSE ord[b][1]],
      chain |-> [k \in 1..n |-> LET i == k - 1 IN
                                IF i < so THEN 0
                                ELSE LET o == ord[bk(i) + 1]
                                         p == CHOOSE x \in 1..Len(o) : o[x] = i
                                     IN IF p = Len(o) THEN 0 ELSE o[p + 1]]]
EncSysV(v, le) == W4(v.nb, le) \o W4(v.nc, le) \o CatAll([b \in 1..v.nb |-> W4(v.buckets[b], le)], v.nb)
                  \o CatAll([k \in 1..v.nc |-> W4(v.chain[k], le)], v.nc)

(* ------------------------------- writer -------------------------------- *)
\* bloom geometries for the configurations (cfg files cannot write tuples): <<words, shift>>
BloomsTiny == {<<1, 5>>}
BloomsQuick == {<<1, 0>>, <<2, 5>>, <<3, 6>>, <<1, 31>>, <<2, 31>>}      \* 3 words: any size is valid, not only powers of two
BloomsFull == {<<1, 0>>, <<2, 0>>, <<1, 5>>, <<2, 5>>, <<3, 6>>, <<1, 31>>, <<2, 31>>}
ClsLe == {<<32, TRUE>>, <<32, FALSE>>, <<64, TRUE>>, <<64, FALSE>>}
ClsLeTwo == {<<32, FALSE>>, <<64, TRUE>>}
\* e_machine: codes of the gABI's e_machine table (EM_386 3, EM_X86_64 62 by default)
DefMach(c) == IF c = 64 THEN 62 ELSE 3
EM_S390 == 22
EM_ALPHA == 41
EM_ALPHA_OLD == 36902                   \* 0x9026, the unofficial code binutils still accepts
EM_S390_OLD == 41872                    \* 0xa390, likewise
\* gABI: hash words are 32 bits wide in both classes; the 64-bit Alpha and s390x psABIs use 64-bit words instead
\* (binutils elf64-alpha.c, elf64-s390.c).  Which of the two a reader should apply there is not judged.
HashWordUnspecified(c, m) == c = 64 /\ m \in {EM_S390, EM_ALPHA, EM_ALPHA_OLD, EM_S390_OLD}
MachFor(c) == {m \in Machines : ~HashWordUnspecified(c, m) /\ m # DefMach(c)}
MachinesQuick == {0, 2, 8, 20, 21, 22, 40, 41, 36902, 62, 183, 243}
MachinesFull == {0, 2, 3, 4, 8, 15, 20, 21, 22, 40, 41, 42, 43, 50, 62, 183, 243, 258, 36902, 41872, 4660}
Cf(cl, kind, extra, sf) == [cls |-> cl[1], le |-> cl[2], kind |-> kind, extra |-> extra, strfirst |-> sf, mach |-> DefMach(cl[1]),
                            naming |-> "own", sht |-> TRUE, tags |-> "none"]
\* mach mode: <<nbucket(s), symoffset, bloom size, shift>>
MachParams == {<<1, 1, 1, 5>>, <<2, 1, 2, 0>>, <<3, 2, 1, 31>>}
Namings == {"own", "same", "blank"}
NoHp == [nb |-> 0, so |-> 0, bs |-> 0, sh |-> 0]
NoMem == [g |-> <<>>, v |-> <<>>, sym |-> <<>>, str |-> <<>>, ent |-> 0, dyn |-> <<>>]
NoSess == [tgt |-> "", disc |-> "", log |-> <<>>, it |-> -1]
\* dyn mode (parameters are definitions: a configuration may override them, DynSyms <- DynSymsT): name ids (the empty name
\* among them: the null entry bears it too), symbols after the null entry, class / byte order, <<nbucket(s), symoffset, bloom
\* size, shift>>, which hash tables the dynamic array names
DynIds == {1, 2, 3}
DynSyms == 3
DynSymsT == 4
DynCls == ClsLeTwo
DynClsT == ClsLe
DynParams == {<<2, 1, 1, 5>>, <<1, 2, 2, 0>>}
DynTags == {"both", "sysv", "gnu"}
Idle == [kind |-> "idle", q |-> 0, st |-> RS("idle", 0, -1, FALSE, 0)]
\* fields mode: section kind x entry padding x name-table position, each class/byte order
FieldCfs == {Cf(cl, "dynsym", 0, FALSE) : cl \in ClsLe} \cup {Cf(cl, "symtab", 8, TRUE) : cl \in ClsLe}
            \cup {Cf(cl, "ldynsym", 0, FALSE) : cl \in {<<32, FALSE>>, <<64, TRUE>>}}
\* fields mode: <<nbucket(s), symoffset, bloom size, shift>>
FieldParams == {<<7, 1, 2, 6>>, <<16, (FieldN * 3) \div 4, 1, 31>>}

Init ==
  /\ mode \in Modes
  /\ phase = "symbols" /\ hp = NoHp /\ mem = NoMem /\ rd = Idle /\ more = <<>> /\ sess = NoSess
  /\ CASE mode = "lookup" -> \E cl \in ClsLe : cf = Cf(cl, "dynsym", 0, FALSE) /\ tab = <<NullSym>>
       [] mode = "fields" -> \/ \E c \in FieldCfs : cf = c /\ tab = FieldsTab(c.cls)
                             \/ \E cl \in ClsLe : cf = Cf(cl, "symtab", 0, FALSE) /\ tab = <<>>      \* the empty table
       [] mode = "mach" -> \E cl \in ClsLe : \E m \in MachFor(cl[1]) :
                             cf = [Cf(cl, "dynsym", 0, FALSE) EXCEPT !.mach = m] /\ tab = <<NullSym>>
       [] mode = "multi" -> \E cl \in MultiCls, nm \in Namings :
                             cf = [Cf(cl, "symtab", 0, FALSE) EXCEPT !.naming = nm] /\ tab = <<NullSym>>
       [] mode = "dyn" -> \E cl \in DynCls, sh \in BOOLEAN, tg \in DynTags :
                             cf = [Cf(cl, "dynsym", 0, FALSE) EXCEPT !.sht = sh, !.tags = tg] /\ tab = <<NullSym>>

\* the last position of the longest tables takes its name from LastIds (a configuration may bound it more tightly)
Growing == mode \in {"lookup", "mach", "multi", "dyn"}
SymBound == CASE mode = "lookup" -> MaxSyms [] mode = "dyn" -> DynSyms [] OTHER -> SmallSyms
AddSymbol(id) ==
  /\ phase = "symbols" /\ Growing /\ Len(tab) <= SymBound
  /\ (mode = "lookup" /\ Len(tab) = MaxSyms => id \in LastIds)
  /\ id \in (CASE mode = "lookup" -> NameIds [] mode = "dyn" -> DynIds [] OTHER -> SmallIds)
  /\ tab' = Append(tab, IF mode = "multi" THEN MSym(id, Len(tab), Len(more)) ELSE LSym(id, Len(tab)))
  /\ UNCHANGED <<mode, cf, more, phase, hp, mem, rd, sess>>
\* multi mode: the table is complete, the file gets a further symbol table
NextTable ==
  /\ phase = "symbols" /\ mode = "multi" /\ Len(more) + 1 < MultiTabs
  /\ more' = Append(more, tab) /\ tab' = <<NullSym>>
  /\ UNCHANGED <<mode, cf, phase, hp, mem, rd, sess>>

Serialise(t, v) == [g |-> <<>>, v |-> v, sym |-> EncSyms(t, cf.cls, cf.le, cf.extra), str |-> StrBytes(t), ent |-> EntSize(cf.cls, cf.extra),
                    dyn |-> <<>>]
\* choose nbucket(s) and symoffset: the hashed part is put in GNU bucket order, symbol and string tables
\* are serialised and the SysV table is built
Sort(nb, so) ==
  /\ phase = "symbols" /\ Len(tab) >= 1 /\ so >= 1 /\ so <= Len(tab) /\ cf.kind # "ldynsym"
  /\ LET t == SortTab(tab, nb, so) IN
     /\ tab' = t
     /\ mem' = Serialise(t, EncSysV(BuildSysV(t, nb, so), cf.le))
  /\ hp' = [nb |-> nb, so |-> so, bs |-> 0, sh |-> 0]
  /\ phase' = "sorted"
  /\ UNCHANGED <<mode, cf, more, rd, sess>>
\* choose the bloom filter geometry: the GNU table is built
BuildGnuTable(bs, sh) ==
  /\ phase = "sorted" /\ rd.kind = "idle"
  /\ mem' = [mem EXCEPT !.g = EncGnu(BuildGnu(tab, hp.nb, hp.so, bs, sh, cf.cls), cf.cls, cf.le)]
  /\ hp' = [hp EXCEPT !.bs = bs, !.sh = sh]
  /\ phase' = "hashed"
  /\ UNCHANGED <<mode, cf, tab, more, rd, sess>>
\* tables that carry no hash section: the empty table, the Solaris auxiliary table, the tables of a file with several
FinishPlain ==
  /\ phase = "symbols" /\ (Len(tab) = 0 \/ cf.kind = "ldynsym" \/ (mode = "multi" /\ more # <<>>))
  /\ mem' = Serialise(tab, <<>>)
  /\ phase' = "plain"
  /\ UNCHANGED <<mode, cf, tab, more, hp, rd, sess>>

(* ------------------------------- readers ------------------------------- *)
\* the SysV readers run on the sorted table, the GNU readers once the GNU table exists
MG == [cls |-> cf.cls, le |-> cf.le, h |-> mem.g, sym |-> mem.sym, str |-> mem.str, ent |-> mem.ent]
MV == [cls |-> cf.cls, le |-> cf.le, h |-> mem.v, sym |-> mem.sym, str |-> mem.str, ent |-> mem.ent]
ReadyV == phase = "sorted" /\ rd.kind = "idle"
ReadyG == phase = "hashed" /\ rd.kind = "idle"
Keep == UNCHANGED <<mode, cf, tab, more, phase, hp, mem, sess>>
At(kind, pc) == rd.kind = kind /\ rd.st.pc = pc

StartGnu(k) == ReadyG /\ rd' = [kind |-> "gnu", q |-> k, st |-> GnuStart] /\ Keep
GnuAdvance == rd' = [rd EXCEPT !.st = GnuStep(MG, GnuHdr(MG), GH[rd.q], NameSeq[rd.q], rd.st)] /\ Keep
GnuBloomTest == At("gnu", "bloom") /\ GnuAdvance
GnuBucket == At("gnu", "bucket") /\ GnuAdvance
GnuChainStep == At("gnu", "chain") /\ GnuAdvance

StartSysV(k) == ReadyV /\ rd' = [kind |-> "sysv", q |-> k, st |-> SysVStart] /\ Keep
SysVAdvance == rd' = [rd EXCEPT !.st = SysVStep(MV, SysVHdr(MV), EH[rd.q], NameSeq[rd.q], rd.st)] /\ Keep
SysVBucket == At("sysv", "bucket") /\ SysVAdvance
SysVChainStep == At("sysv", "chain") /\ SysVAdvance

StartGnuCount == ReadyG /\ rd' = [kind |-> "gnucount", q |-> 0, st |-> GnuCountStart] /\ Keep
GnuCountAdvance == rd' = [rd EXCEPT !.st = GnuCountStep(MG, GnuHdr(MG), rd.st)] /\ Keep
GnuCountMax == At("gnucount", "max") /\ GnuCountAdvance
GnuCountWalk == At("gnucount", "walk") /\ GnuCountAdvance
SysVCountRead == ReadyV /\ rd' = [kind |-> "sysvcount", q |-> 0, st |-> RS("done", 0, SysVCount(MV), TRUE, 0)] /\ Keep

(* ---------------------------- declarative view ------------------------- *)
N0 == Len(tab)
ByName(k) == {i \in 0..(N0 - 1) : tab[i + 1].nm = k}
Hashed(k) == {i \in ByName(k) : i >= hp.so}                  \* the hashed part: indices from symoffset on
\* gABI: ELF32_ST_BIND(i) = i >> 4, ELF32_ST_TYPE(i) = i & 0xf; ELF32_ST_VISIBILITY(o) = o & 0x3 (Solaris: & 0x7);
\* the remaining bits of st_other are processor specific (PPC64 ELFv2: bits 5-7 local entry point; MIPS, AArch64, ...)
SymView(i) == LET s == tab[i + 1] IN
  <<s.nm, s.value, s.size, s.info \div 16, s.info % 16, s.other, s.shndx, s.xs>>
InfoView(i) == LET s == tab[i + 1] IN <<s.bt, s.fl>>
LookView(k) == LET g == GnuLookup(MG, NameSeq[k])
                   v == SysVLookup(MV, NameSeq[k])
               IN [ok |-> Hashed(k), g |-> g.res, v |-> v.res, coll |-> g.flag]

BindNames == << <<0, {"STB_LOCAL"}>>, <<1, {"STB_GLOBAL"}>>, <<2, {"STB_WEAK"}>>, <<10, {"STB_LOOS", "STB_GNU_UNIQUE"}>>,
                <<12, {"STB_HIOS"}>>, <<13, {"STB_LOPROC"}>>, <<15, {"STB_HIPROC"}>> >>                       \* figure 4-17
TypeNames == << <<0, {"STT_NOTYPE"}>>, <<1, {"STT_OBJECT"}>>, <<2, {"STT_FUNC"}>>, <<3, {"STT_SECTION"}>>, <<4, {"STT_FILE"}>>,
                <<5, {"STT_COMMON"}>>, <<6, {"STT_TLS"}>>, <<10, {"STT_LOOS", "STT_GNU_IFUNC"}>>, <<12, {"STT_HIOS"}>>,
                <<13, {"STT_LOPROC"}>>, <<15, {"STT_HIPROC"}>> >>                                             \* figure 4-18
VisNames == << <<0, {"STV_DEFAULT"}>>, <<1, {"STV_INTERNAL"}>>, <<2, {"STV_HIDDEN"}>>, <<3, {"STV_PROTECTED"}>>,      \* figure 4-19
               <<4, {"STV_EXPORTED"}>>, <<5, {"STV_SINGLETON"}>>, <<6, {"STV_ELIMINATE"}>> >>                 \* Solaris
ShnNames == << <<0, {"SHN_UNDEF"}>>, <<65280, {"SHN_LORESERVE", "SHN_LOPROC"}>>, <<65311, {"SHN_HIPROC"}>>, <<65312, {"SHN_LOOS"}>>,
               <<65343, {"SHN_HIOS"}>>, <<65521, {"SHN_ABS"}>>, <<65522, {"SHN_COMMON"}>>, <<65535, {"SHN_XINDEX", "SHN_HIRESERVE"}>> >>
BtNames == << <<65535, {"SYMINFO_BT_SELF"}>>, <<65534, {"SYMINFO_BT_PARENT"}>>, <<65533, {"SYMINFO_BT_NONE"}>>,
              <<65532, {"SYMINFO_BT_EXTERN"}>>, <<65280, {"SYMINFO_BT_LOWRESERVE"}>> >>                       \* Linker and Libraries Guide
Tables == [names |-> NameSeq, bind |-> BindNames, type |-> TypeNames, vis |-> VisNames, shn |-> ShnNames, bt |-> BtNames,
           gh |-> GH, eh |-> EH]

(* -------------------------------- image -------------------------------- *)
DotDynsym == <<46, 100, 121, 110, 115, 121, 109>>
DotDynstr == <<46, 100, 121, 110, 115, 116, 114>>
DotSymtab == <<46, 115, 121, 109, 116, 97, 98>>
DotStrtab == <<46, 115, 116, 114, 116, 97, 98>>
DotLdynsym == <<46, 83, 85, 78, 87, 95, 108, 100, 121, 110, 115, 121, 109>>
DotHash == <<46, 104, 97, 115, 104>>
DotGnuHash == <<46, 103, 110, 117, 46, 104, 97, 115, 104>>
DotShndx == <<46, 115, 121, 109, 116, 97, 98, 95, 115, 104, 110, 100, 120>>
DotSyminfo == <<46, 83, 85, 78, 87, 95, 115, 121, 109, 105, 110, 102, 111>>
Sht(name) == W(DTrunc(KindCodes[name], 4))

HasHash == phase \in {"hashed", "linked"}
HasShndx == mode = "fields" /\ N0 > 0
HasInfo == mode = "fields" /\ N0 > 0 /\ cf.kind # "ldynsym"
UIdx(k) == IF cf.strfirst THEN k + 1 ELSE k
B2N(b) == IF b THEN 1 ELSE 0
\* user sections in order: symbol table, string table, then whichever of .hash, .gnu.hash, .symtab_shndx, .SUNW_syminfo exist
Ix == [sym |-> IF mode = "multi" THEN UIdx(2 * (Len(more) + 1) - 1) ELSE UIdx(1),
       str |-> IF mode = "multi" THEN UIdx(2 * (Len(more) + 1)) ELSE UIdx(2),
       hash |-> IF HasHash THEN UIdx(3) ELSE -1,
       gnu |-> IF HasHash THEN UIdx(4) ELSE -1,
       shndx |-> IF HasShndx THEN UIdx(3 + 2 * B2N(HasHash)) ELSE -1,
       info |-> IF HasInfo THEN UIdx(4 + 2 * B2N(HasHash)) ELSE -1]
SingleImage ==
  LET c == cf.cls
      symname == CASE cf.kind = "dynsym" -> DotDynsym [] cf.kind = "symtab" -> DotSymtab [] OTHER -> DotLdynsym
      symtype == CASE cf.kind = "dynsym" -> Sht("SHT_DYNSYM") [] cf.kind = "symtab" -> Sht("SHT_SYMTAB") [] OTHER -> Sht("SHT_SUNW_LDYNSYM")
      symsec == Sec(symname, symtype, N(2), Z, mem.sym, N(Len(mem.sym)), N(Ix.str), N(IF N0 > 0 THEN 1 ELSE 0), N(c \div 8), N(mem.ent))
      strsec == Sec(IF cf.kind = "symtab" THEN DotStrtab ELSE DotDynstr, Sht("SHT_STRTAB"), N(2), Z, mem.str, N(Len(mem.str)), Z, Z, N(1), Z)
      hsec == Sec(DotHash, Sht("SHT_HASH"), N(2), Z, mem.v, N(Len(mem.v)), N(Ix.sym), Z, N(4), N(4))
      gsec == Sec(DotGnuHash, Sht("SHT_GNU_HASH"), N(2), Z, mem.g, N(Len(mem.g)), N(Ix.sym), Z, N(c \div 8), Z)
      xb == EncShndx(tab, cf.le)
      xsec == Sec(DotShndx, Sht("SHT_SYMTAB_SHNDX"), Z, Z, xb, N(Len(xb)), N(Ix.sym), Z, N(4), N(4))
      ib == EncSyminfo(tab, cf.le)
      isec == Sec(DotSyminfo, Sht("SHT_SUNW_syminfo"), N(2), Z, ib, N(Len(ib)), N(Ix.sym), Z, N(2), N(4))
  IN [Im0 EXCEPT !.cls = c, !.le = cf.le, !.machine = cf.mach, !.strfirst = cf.strfirst,
                 !.secs = <<symsec, strsec>> \o (IF HasHash THEN <<hsec, gsec>> ELSE <<>>)
                          \o (IF HasShndx THEN <<xsec>> ELSE <<>>) \o (IF HasInfo THEN <<isec>> ELSE <<>>)]

\* multi mode: table t is user sections 2t-1 (symbols) and 2t (its string table); kinds in the order SHT_SYMTAB, SHT_DYNSYM,
\* SHT_SUNW_LDYNSYM (one section of each type); the names follow cf.naming
AllTabs == more \o <<tab>>
NTabs == Len(AllTabs)
SymIx(t) == UIdx(2 * t - 1)
StrIx(t) == UIdx(2 * t)
TabKind(t) == <<"symtab", "dynsym", "ldynsym">>[t]
SymSecName(t) == CASE cf.naming = "blank" -> <<>>
                   [] cf.naming = "same" -> DotSymtab
                   [] OTHER -> <<DotSymtab, DotDynsym, DotLdynsym>>[t]
StrSecName(t) == CASE cf.naming = "blank" -> <<>>
                   [] cf.naming = "same" -> DotStrtab
                   [] OTHER -> <<DotStrtab, DotDynstr, DotDynstr>>[t]
TabMem(t) == [cls |-> cf.cls, le |-> cf.le, h |-> <<>>, sym |-> EncSyms(AllTabs[t], cf.cls, cf.le, cf.extra), str |-> StrBytes(AllTabs[t]),
              ent |-> EntSize(cf.cls, cf.extra)]
MultiImage ==
  LET c == cf.cls
      SymType(t) == Sht(<<"SHT_SYMTAB", "SHT_DYNSYM", "SHT_SUNW_LDYNSYM">>[t])
      Pair(t) == LET m == TabMem(t) IN
                 << Sec(SymSecName(t), SymType(t), N(2), Z, m.sym, N(Len(m.sym)), N(StrIx(t)), N(1), N(c \div 8), N(m.ent)),
                    Sec(StrSecName(t), Sht("SHT_STRTAB"), N(2), Z, m.str, N(Len(m.str)), Z, Z, N(1), Z) >>
  IN [Im0 EXCEPT !.cls = c, !.le = cf.le, !.machine = cf.mach, !.strfirst = cf.strfirst,
                 !.secs = CatAll([t \in 1..NTabs |-> Pair(t)], NTabs)]
\* the view of table t of a file with several: entries in index order and, per name, the indices bearing it - a function of
\* that table alone
TabSymView(t, i) == LET x == AllTabs[t][i + 1] IN <<x.nm, x.value, x.size, x.info \div 16, x.info % 16, x.other, x.shndx, x.xs>>
TabByName(t, k) == {i \in 0..(Len(AllTabs[t]) - 1) : AllTabs[t][i + 1].nm = k}
TabView(t) == [sym |-> SymIx(t), str |-> StrIx(t), kind |-> TabKind(t),
               syms |-> [i \in 1..Len(AllTabs[t]) |-> TabSymView(t, i - 1)],
               byname |-> [k \in AllIds |-> TabByName(t, k)]]
\* query schedules over (table, name id): table-major, name-major, and both reversed.  The answer to every query of every
\* schedule is TabByName(t, k): it does not depend on the position in the schedule.
TableMajor == CatAll([t \in 1..NTabs |-> [k \in AllIds |-> <<t, k>>]], NTabs)
NameMajor == CatAll([k \in AllIds |-> [t \in 1..NTabs |-> <<t, k>>]], Len(NameSeq))
\* (fresh: the reader fetches the section object anew for every query instead of keeping one per table)
Sched(fresh, q) == [fresh |-> fresh, q |-> q]
Scheds == <<Sched(FALSE, TableMajor), Sched(TRUE, NameMajor), Sched(TRUE, Rev(TableMajor)), Sched(FALSE, Rev(NameMajor))>>

(* ------------------- dyn mode: the dynamic object ---------------------- *)
\* gABI ch.5 "Program Header": PT_LOAD 1 maps the file bytes [p_offset, +p_filesz) at [p_vaddr, +p_filesz); PT_DYNAMIC 2
\* locates the dynamic array.  ch.5 "Dynamic Section", figure 5-10: DT_NULL 0 ends the array, DT_HASH 4, DT_STRTAB 5,
\* DT_SYMTAB 6 hold addresses, DT_STRSZ 10 the size of the string table, DT_SYMENT 11 the size of a symbol entry;
\* DT_GNU_HASH 0x6ffffef5 (GNU).  ch.4 "Sections": SHT_DYNAMIC 6, sh_link = the string table of the entries.
\* The file: .dynsym, .dynstr, .hash, .gnu.hash (as in the other modes), .dynamic; one PT_LOAD that maps the file from offset 0
\* up to the end of the tables at DynBase; PT_DYNAMIC over .dynamic.  cf.sht = FALSE: the same file without section header
\* table (e_shoff = e_shnum = e_shstrndx = 0) - the tables are reachable through the dynamic array alone.
DS == INSTANCE DynScan
DotDynamic == <<46, 100, 121, 110, 97, 109, 105, 99>>
PtLoad == N(1)
PtDynamic == N(2)
DynBase == 1048576
NoSeg == Seg(Z, Z, Z, Z, Z, Z, Z, Z)
\* the four tables placed (two program headers precede them), every table at the address DynBase + its file offset
DynPre == LET im == [SingleImage EXCEPT !.nosht = ~cf.sht, !.segs = <<NoSeg, NoSeg>>] IN
          [im EXCEPT !.secs = [k \in 1..Len(im.secs) |-> [im.secs[k] EXCEPT !.addr = N(DynBase + SecOff(im, k))]]]
DynOff(pre) == SecOff(pre, Len(pre.secs)) + Len(pre.secs[Len(pre.secs)].data)       \* .dynamic follows the last table
\* the array: the hash tables cf.tags names, string and symbol table, their sizes, DT_NULL
DynArray ==
  LET pre == DynPre
      Addr(k) == pre.secs[k].addr
      ts == (IF cf.tags \in {"both", "sysv"} THEN << <<N(4), Addr(3)>> >> ELSE <<>>)
            \o (IF cf.tags \in {"both", "gnu"} THEN << <<W(<<245, 254, 255, 111>>), Addr(4)>> >> ELSE <<>>)
            \o << <<N(5), Addr(2)>>, <<N(6), Addr(1)>>, <<N(10), N(Len(mem.str))>>, <<N(11), N(mem.ent)>>, <<Z, Z>> >>
  IN Flat([i \in 1..Len(ts) |-> Ser(DynF, [d_tag |-> ts[i][1], d_val |-> ts[i][2]], cf.cls, cf.le)])
DynImage ==
  LET pre == DynPre
      w == cf.cls \div 8
      doff == DynOff(pre)
      end == doff + Len(mem.dyn)
      dsec == Sec(DotDynamic, N(6), N(3), N(DynBase + doff), mem.dyn, N(Len(mem.dyn)), N(Ix.str), Z, N(w), N(2 * w))
  IN [pre EXCEPT !.secs = Append(@, dsec),
                 !.segs = << Seg(PtLoad, N(6), Z, N(DynBase), N(DynBase), N(end), N(end), N(4096)),
                             Seg(PtDynamic, N(6), N(doff), N(DynBase + doff), N(DynBase + doff), N(Len(mem.dyn)), N(Len(mem.dyn)), N(w)) >>]
Image == CASE mode = "multi" -> MultiImage [] mode = "dyn" /\ phase = "linked" -> DynImage [] OTHER -> SingleImage
\* the hashed tables exist: the dynamic array is written, the object is complete
Link ==
  /\ mode = "dyn" /\ phase = "hashed" /\ rd.kind = "idle"
  /\ mem' = [mem EXCEPT !.dyn = DynArray]
  /\ phase' = "linked"
  /\ UNCHANGED <<mode, cf, tab, more, hp, rd, sess>>

\* The reader of the segment view (what the gABI tells a reader without section headers to do): PT_DYNAMIC locates the array,
\* the array is scanned up to DT_NULL (DynScan!Scan), DT_SYMTAB / DT_STRTAB / DT_HASH / DT_GNU_HASH are addresses, translated
\* through the PT_LOAD entry that holds them; the symbol count comes from DT_GNU_HASH when a chain determines it, else from
\* DT_HASH (nchain); the string table extends DT_STRSZ bytes, an entry DT_SYMENT bytes.  The reader sees the file's data
\* region (the bytes between the program headers and the section header table) and the program headers.
SegRead(im) ==
  LET w == im.cls \div 8
      pd == im.segs[CHOOSE j \in 1..Len(im.segs) : im.segs[j].type = PtDynamic]
      lj == SelectSeq(im.segs, LAMBDA g : g.type = PtLoad)
      loads == [j \in 1..Len(lj) |-> [va |-> Digits(lj[j].vaddr, w), fsz |-> lj[j].filesz.n, msz |-> lj[j].memsz.n, off |-> lj[j].offset.n]]
      base == DataOff(im)
      region == Flat([k \in 1..Len(im.secs) |-> im.secs[k].data])
      sc == DS!Scan(region, pd.offset.n - base, pd.filesz.n, im.cls, im.le)
      Ent(c) == DS!FirstOf(sc.out, c)
      Off(c) == IF Ent(c) = 0 THEN -1 ELSE DS!PtrToOffset(loads, sc.out[Ent(c)][2])
      Val(c) == IF Ent(c) = 0 THEN -1 ELSE DS!DSmall(sc.out[Ent(c)][2])
      From(o) == SubSeq(region, o - base + 1, Len(region))
      HM(o) == [cls |-> im.cls, le |-> im.le, h |-> From(o), sym |-> <<>>, str |-> <<>>, ent |-> 1]
      symo == Off(DS!DtSymtab)   stro == Off(DS!DtStrtab)   ho == Off(DS!DtHash)   go == Off(DS!DtGnuHash)
      strsz == Val(DS!DtStrsz)   ent == Val(DS!DtSyment)
      gc == IF go >= base THEN GnuCount(HM(go)) ELSE Fault(GnuCountStart)
      cnt == IF gc.pc = "done" /\ gc.flag THEN gc.res ELSE IF ho >= base THEN SysVCount(HM(ho)) ELSE -1
      ok == sc.pc = "done" /\ symo >= base /\ stro >= base /\ strsz >= 0 /\ ent > 0 /\ cnt >= 0
            /\ symo - base + cnt * ent <= Len(region) /\ stro - base + strsz <= Len(region)
  IN [ok |-> ok, n |-> sc.n, cnt |-> cnt, hash |-> ho >= base, gnu |-> go >= base,
      m |-> IF ok THEN [cls |-> im.cls, le |-> im.le, h |-> <<>>, sym |-> SubSeq(region, symo - base + 1, symo - base + cnt * ent),
                        str |-> SubSeq(region, stro - base + 1, stro - base + strsz), ent |-> ent]
            ELSE [cls |-> im.cls, le |-> im.le, h |-> <<>>, sym |-> <<>>, str |-> <<>>, ent |-> 1]]

(* --------------------------- client sessions --------------------------- *)
\* What a symbol table object answers is a function of the table - not of what the object was asked before.  A session is a
\* sequence of public calls on ONE long-lived object of a finished dyn-mode file: tgt = "seg" (the table as the PT_DYNAMIC
\* segment gives it: by name, count, listing, by index, a stepwise iteration) or "sec" (the .dynsym section object of the
\* same file; cf.sht only).  One action (ClientCall) per call; the log holds every call with the answer the declarative view
\* fixes for it, as a sequence of symbol indices: name -> the indices bearing the name, ascending (<<>>: nothing); num ->
\* <<count>>; all -> every index in table order; get -> <<index>>; open -> <<>> (a new iteration); step -> the next index of
\* the open iteration, <<>> once it is exhausted.  Disciplines: "up" (every name of SessQ ascending - the empty name, names
\* that may be present once or several times, a name that is absent -, count, listing, the names descending), "down" (the
\* names descending - the absent one first -, listing, ascending), "weave" (an open iteration advanced between look-ups by name
\* and by index, beyond its end), "free" (every sequence of FreeCalls look-ups by name, repeats included; on the objects of
\* FreeOK).
SessQ == <<1, 2, 3, 4>>                         \* "ab" (4) is outside DynIds: never in a dyn-mode table
FreeCalls == 3
FreeOK == cf.cls = 64 /\ cf.le /\ cf.tags = "both" /\ hp.nb = 2
Discs == {"up", "down", "weave", "free"}
RECURSIVE Asc(_)
Asc(S) == IF S = {} THEN <<>> ELSE LET m == Min(S) IN <<m>> \o Asc(S \ {m})
Letter(op, q) == [op |-> op, q |-> q]
Names(qs) == [i \in 1..Len(qs) |-> Letter("name", qs[i])]
Script(disc) ==
  CASE disc = "up" -> Names(SessQ) \o <<Letter("num", 0), Letter("all", 0)>> \o Names(Rev(SessQ))
    [] disc = "down" -> Names(Rev(SessQ)) \o <<Letter("all", 0)>> \o Names(SessQ)
    [] disc = "weave" -> LET n == Max({Len(SessQ), N0 + 1}) IN
                         <<Letter("open", 0)>>
                         \o Flat([i \in 1..n |-> (IF i <= Len(SessQ) THEN <<Letter("name", SessQ[i])>> ELSE <<>>)
                                                \o <<Letter("step", 0)>>
                                                \o (IF i <= N0 THEN <<Letter("get", N0 - i)>> ELSE <<>>)])
FreeLetters == {Letter("name", SessQ[i]) : i \in 1..Len(SessQ)}
Call(l, ans) == [op |-> l.op, q |-> l.q, ans |-> ans]
Answer(l, it) ==
  CASE l.op = "name" -> Call(l, Asc(ByName(l.q)))
    [] l.op = "num" -> Call(l, <<N0>>)
    [] l.op = "all" -> Call(l, [i \in 1..N0 |-> i - 1])
    [] l.op = "get" -> Call(l, <<l.q>>)
    [] l.op = "open" -> Call(l, <<>>)
    [] l.op = "step" -> Call(l, IF it < N0 THEN <<it>> ELSE <<>>)
NextIt(l, it) == CASE l.op = "open" -> 0 [] l.op = "step" -> (IF it < N0 THEN it + 1 ELSE it) [] OTHER -> it
StartSession(tgt, disc) ==
  /\ mode = "dyn" /\ phase = "linked"
  /\ (tgt = "sec" => cf.sht) /\ (disc = "free" => FreeOK)
  /\ sess' = [tgt |-> tgt, disc |-> disc, log |-> <<>>, it |-> -1]
  /\ phase' = "sess" /\ UNCHANGED <<mode, cf, tab, more, hp, mem, rd>>
SessLen == IF sess.disc = "free" THEN FreeCalls ELSE Len(Script(sess.disc))
ClientCall ==
  /\ phase = "sess" /\ Len(sess.log) < SessLen
  /\ \E l \in (IF sess.disc = "free" THEN FreeLetters ELSE {Script(sess.disc)[Len(sess.log) + 1]}) :
       sess' = [sess EXCEPT !.log = Append(@, Answer(l, sess.it)), !.it = NextIt(l, sess.it)]
  /\ UNCHANGED <<mode, cf, tab, more, phase, hp, mem, rd>>
SessNext == (\E tgt \in {"seg", "sec"}, disc \in Discs : StartSession(tgt, disc)) \/ ClientCall

Next ==
  \/ \E id \in NameIds \cup SmallIds \cup DynIds : AddSymbol(id)
  \/ (mode = "lookup" /\ \E nb \in NBuckets, so \in 1..(MaxSyms + 1) : Sort(nb, so))
  \/ (mode = "lookup" /\ \E b \in Blooms : BuildGnuTable(b[1], b[2]))
  \/ (mode = "fields" /\ \E p \in FieldParams : Sort(p[1], p[2]))
  \/ (mode = "fields" /\ \E p \in FieldParams : p[1] = hp.nb /\ BuildGnuTable(p[3], p[4]))
  \/ (mode = "mach" /\ \E p \in MachParams : Sort(p[1], p[2]))
  \/ (mode = "mach" /\ \E p \in MachParams : p[1] = hp.nb /\ p[2] = hp.so /\ BuildGnuTable(p[3], p[4]))
  \/ (mode = "dyn" /\ \E p \in DynParams : (cf.tags = "gnu" => p[2] < Len(tab)) /\ Sort(p[1], p[2]))
  \/ (mode = "dyn" /\ \E p \in DynParams : p[1] = hp.nb /\ p[2] = hp.so /\ BuildGnuTable(p[3], p[4]))
  \/ Link \/ SessNext
  \/ NextTable
  \/ FinishPlain
  \* (the reader machines take no e_machine input - MG, MV: the mach mode does not run them again action by action;
  \* its expectations come from the operator forms, which RunAgrees ties to the actions in the other modes)
  \* (likewise the dyn mode)
  \/ (mode \notin {"mach", "dyn"} /\ \E k \in AllIds : StartGnu(k) \/ StartSysV(k))
  \/ GnuBloomTest \/ GnuBucket \/ GnuChainStep \/ SysVBucket \/ SysVChainStep
  \/ (mode \notin {"mach", "dyn"} /\ (StartGnuCount \/ SysVCountRead)) \/ GnuCountMax \/ GnuCountWalk
Spec == Init /\ [][Next]_vars

(* ------------------------------ emission ------------------------------- *)
\* a spec-computed mixing number decides which of the longer tables are replayed against the code
Mix == LET RECURSIVE S(_)
           S(i) == IF i = 0 THEN 0 ELSE (S(i - 1) * 7 + tab[i].nm) % 1000003
       IN S(N0) * 31 + hp.nb * 5 + hp.so * 3 + hp.bs * 11 + hp.sh + (IF cf.cls = 64 THEN 2 ELSE 0) + (IF cf.le THEN 1 ELSE 0)
Selected == mode \in {"fields", "mach", "multi", "dyn"} \/ N0 <= AlwaysLen \/ (Mix % EmitMod) = 0
Finished == (IF mode = "dyn" THEN phase = "linked" ELSE phase \in {"hashed", "plain"}) /\ rd.kind = "idle"
\* dyn mode: the identity of the object (the sessions on it are lines of their own, see SessLine)
CaseKey == IF mode = "dyn" THEN ToString(<<cf.cls, cf.le, cf.sht, cf.tags, hp.nb, hp.so, [i \in 1..N0 |-> <<tab[i].nm, tab[i].value.n>>]>>) ELSE ""
Serialised == phase \in {"sorted", "plain"} /\ rd.kind = "idle"
Case == [mode |-> mode, cls |-> cf.cls, le |-> cf.le, kind |-> cf.kind, ent |-> mem.ent, chunks |-> Chunks(Image), ix |-> Ix,
         syms |-> [i \in 1..N0 |-> SymView(i - 1)],
         info |-> IF HasInfo THEN [i \in 1..(N0 - 1) |-> InfoView(i)] ELSE <<>>,
         byname |-> [k \in AllIds |-> ByName(k)],
         look |-> IF HasHash THEN [k \in AllIds |-> LookView(k)] ELSE <<>>,
         count |-> N0, hp |-> hp, mach |-> cf.mach, naming |-> cf.naming,
         tabs |-> IF mode = "multi" THEN [t \in 1..NTabs |-> TabView(t)] ELSE <<>>,
         sched |-> IF mode = "multi" THEN Scheds ELSE <<>>,
         \* dyn mode: section headers or not, the hash tables the array names, the index of .dynamic and of the PT_DYNAMIC entry
         key |-> CaseKey,
         dyn |-> IF mode = "dyn" THEN [sht |-> cf.sht, tags |-> cf.tags, dynamic |-> UIdx(5), pt |-> 1] ELSE <<>>]
SessLine == [sess |-> CaseKey, tgt |-> sess.tgt, disc |-> sess.disc,
             log |-> [i \in 1..Len(sess.log) |-> <<sess.log[i].op, sess.log[i].q, sess.log[i].ans>>]]
Emit == /\ (Finished /\ Selected => CSVWrite("%1$s", <<ToJson(Case)>>, IOEnv.OUT))
        /\ (phase = "sess" /\ Len(sess.log) = SessLen => CSVWrite("%1$s", <<ToJson(SessLine)>>, IOEnv.OUT))
        \* the name tables, once per mode (at one initial state)
        /\ (phase = "symbols" /\ cf.cls = 32 /\ cf.le /\ ((mode = "lookup" /\ N0 = 1) \/ (mode = "fields" /\ N0 = 0)) =>
              CSVWrite("%1$s", <<ToJson([tables |-> Tables])>>, IOEnv.OUT))

(* ------------------------------ properties ----------------------------- *)
Answered(kind) == rd.kind = kind /\ rd.st.pc = "done"
\* a returned symbol lies in the hashed part and bears the name
LookupSound == \A kind \in {"gnu", "sysv"} : Answered(kind) /\ rd.st.res # -1 => rd.st.res \in Hashed(rd.q)
\* a name present in the hashed part is found
LookupComplete == \A kind \in {"gnu", "sysv"} : Answered(kind) /\ Hashed(rd.q) # {} => rd.st.res # -1
\* the GNU walk visits a bucket's symbols in index order: it finds the lowest hashed index bearing the name
GnuFindsFirst == Answered("gnu") /\ Hashed(rd.q) # {} => rd.st.res = Min(Hashed(rd.q))
\* the count recovered from either table is the table's true length
CountExact == Answered("gnucount") \/ Answered("sysvcount") => rd.st.res = N0
\* ... and the GNU count is determined by a chain unless nothing is hashed
CountDetermined == Answered("gnucount") => (rd.st.flag <=> hp.so < N0)
\* the readers never leave the sections, never meet an ill-formed value
NoFault == rd.st.pc # "fault"
ChainInBounds == /\ (At("gnu", "chain") => hp.so <= rd.st.idx /\ rd.st.idx < N0)
                 /\ (At("sysv", "chain") => rd.st.idx < N0 /\ rd.st.steps <= N0)
                 /\ (At("gnucount", "walk") => hp.so <= rd.st.idx /\ rd.st.idx < N0)
\* every step of a chain walk makes progress (GNU: the index grows; SysV: the step count grows and is bounded above)
ChainProgress == [][/\ (At("gnu", "chain") /\ rd'.st.pc = "chain" => rd'.st.idx = rd.st.idx + 1)
                    /\ (At("gnucount", "walk") /\ rd'.st.pc = "walk" => rd'.st.idx = rd.st.idx + 1)
                    /\ (At("sysv", "chain") /\ rd'.st.pc = "chain" => rd'.st.steps = rd.st.steps + 1)]_vars
\* the action-level machines compute what the operator forms (used for emission and trace validation) compute
RunAgrees == /\ (Answered("gnu") => rd.st = GnuLookup(MG, NameSeq[rd.q]))
             /\ (Answered("sysv") => rd.st = SysVLookup(MV, NameSeq[rd.q]))
             /\ (Answered("gnucount") => rd.st = GnuCount(MG))

\* e_machine: the writer stays inside the combinations where the gABI's 32-bit hash words certainly apply, and the machine
\* changes nothing but the e_machine field of the file (offset 18, 2 bytes): sections, headers and the view are those of the
\* default machine
MachInAlphabet == ~HashWordUnspecified(cf.cls, cf.mach)
MachineNeutral ==
  mode = "mach" /\ Finished =>
    LET a == Chunks(Image)
        b == Chunks([Image EXCEPT !.machine = DefMach(cf.cls)])
        ha == a[1][2]   hb == b[1][2] IN
    /\ Len(a) = Len(b) /\ \A i \in 2..Len(a) : a[i] = b[i]
    /\ a[1][1] = 0 /\ b[1][1] = 0 /\ Len(ha) = Len(hb)
    /\ \A j \in 1..Len(ha) : j \notin {19, 20} => ha[j] = hb[j]
    /\ <<ha[19], ha[20]>> = Fix(N(cf.mach), 2, cf.le) /\ <<ha[19], ha[20]>> # <<hb[19], hb[20]>>
\* a file with several symbol tables: the sections do not overlap, every table links its own string table, the section
\* names are as the naming scheme says (distinct / all equal / all blank), and scanning table t's own bytes for a name
\* (entry by entry, through its own string table) gives exactly TabByName(t, name) - whatever the other tables hold
MultiWellFormed ==
  mode = "multi" /\ phase = "plain" =>
    LET im == Image
        nm == TLCEval([k \in 1..Len(im.secs) |-> NameAt(im, NameOff(im, k))]) IN
    /\ NTabs >= 2 /\ NTabs <= MultiTabs /\ Len(im.secs) = 2 * NTabs
    /\ ChunksDisjoint(im)
    /\ \A t \in 1..NTabs : im.secs[2 * t - 1].link = N(StrIx(t)) /\ UserIndex(im, 2 * t) = StrIx(t) /\ UserIndex(im, 2 * t - 1) = SymIx(t)
    /\ \A t, u \in 1..NTabs : t # u => (nm[2 * t - 1] = nm[2 * u - 1] <=> cf.naming # "own")
    /\ (cf.naming = "blank" => \A k \in 1..Len(im.secs) : nm[k] = <<>>)
    /\ \A t \in 1..NTabs :
         LET m == TabMem(t) IN
         /\ NSyms(m) = Len(AllTabs[t]) /\ m.sym = im.secs[2 * t - 1].data /\ m.str = im.secs[2 * t].data
         /\ \A k \in AllIds : {i \in 0..(NSyms(m) - 1) : NameIs(m, i, NameSeq[k])} = TabByName(t, k)
    /\ \A s \in 1..Len(Scheds) : Len(Scheds[s].q) = NTabs * Len(NameSeq)
                                   /\ {Scheds[s].q[j] : j \in 1..Len(Scheds[s].q)} = (1..NTabs) \X AllIds

\* structure of the built tables (evaluated once per table)
\* the indices on the SysV chain that starts at index i
RECURSIVE VChain(_, _)
VChain(i, fuel) == IF i <= 0 \/ fuel = 0 THEN {} ELSE {i} \cup VChain(WNum(Rd4(mem.v, 8 + 4 * hp.nb + 4 * i, cf.le)), fuel - 1)
GnuWellFormed ==
  ReadyG =>
    LET hd == GnuHdr(MG)   bw == cf.cls \div 8 IN
    /\ GnuHdrOK(MG) /\ hd = hp
    /\ Len(mem.g) = 16 + hp.bs * bw + 4 * hp.nb + 4 * (N0 - hp.so)           \* one chain word per hashed symbol
    \* hashed symbols are grouped by bucket, ascending; a chain word is the symbol's hash but for bit 0,
    \* which is set exactly on the last symbol of each bucket
    /\ \A i \in hp.so..(N0 - 1) :
         LET w == Rd4(mem.g, GnuChainOff(MG, hd, i), cf.le)   h == GH[tab[i + 1].nm] IN
         /\ SameButBit0(w, h)
         /\ (w[1] % 2 = 1) <=> (i = N0 - 1 \/ GBucket(tab[i + 2], hp.nb) # GBucket(tab[i + 1], hp.nb))
         /\ (i < N0 - 1 => GBucket(tab[i + 1], hp.nb) <= GBucket(tab[i + 2], hp.nb))
    \* a bucket word is the lowest index of the bucket, or 0
    /\ \A b \in 0..(hp.nb - 1) :
         LET v == WNum(Rd4(mem.g, GnuBucketOff(MG, hd, b), cf.le))
             ms == {i \in hp.so..(N0 - 1) : GBucket(tab[i + 1], hp.nb) = b} IN
         v = IF ms = {} THEN 0 ELSE Min(ms)
SysVWellFormed ==
  ReadyV =>
    /\ SysVHdrOK(MV) /\ SysVHdr(MV) = [nb |-> hp.nb, nc |-> N0]
    /\ Len(mem.v) = 8 + 4 * hp.nb + 4 * N0
    /\ Len(mem.sym) = N0 * mem.ent
    \* the chains partition the hashed part - every hashed index is reached from exactly its bucket
    /\ LET chains == TLCEval([b \in 1..hp.nb |-> VChain(WNum(Rd4(mem.v, 8 + 4 * (b - 1), cf.le)), N0)]) IN
       /\ \A i \in hp.so..(N0 - 1) : i \in chains[WMod(EH[tab[i + 1].nm], hp.nb) + 1]
       /\ \A b \in 1..hp.nb : \A i \in chains[b] : i >= hp.so /\ WMod(EH[tab[i + 1].nm], hp.nb) = b - 1
    /\ \A i \in 0..(N0 - 1) : i < hp.so => WNum(Rd4(mem.v, 8 + 4 * hp.nb + 4 * i, cf.le)) = 0
    /\ Cardinality({i \in 0..(N0 - 1) : WNum(Rd4(mem.v, 8 + 4 * hp.nb + 4 * i, cf.le)) = 0 /\ i >= hp.so})
         = Cardinality({b \in 0..(hp.nb - 1) : WNum(Rd4(mem.v, 8 + 4 * b, cf.le)) # 0})           \* one chain end per populated bucket
\* every st_name resolves to the symbol's name (operational byte comparison = declarative C string)
NamesResolve ==
  Serialised => LET so == StrOffsets(tab) IN
                \A i \in 0..(N0 - 1) :
                 LET nm == NameSeq[tab[i + 1].nm]   off == NameOffset(so, tab[i + 1].nm, i) IN
                 /\ NameIs(MG, i, nm)
                 /\ CStrAt(mem.str, off).ok /\ CStrAt(mem.str, off).s = nm
                 /\ \A k \in AllIds : NameIs(MG, i, NameSeq[k]) <=> k = tab[i + 1].nm
\* decoding entry i at i * sh_entsize gives the abstract entry back, field by field
RECURSIVE FieldOff(_, _, _)
FieldOff(F, c, k) == IF k = 1 THEN 0 ELSE FieldOff(F, c, k - 1) + Width(F[k - 1][2], c)
DeField(F, bs, off, c, le, k) == LET w == Width(F[k][2], c)   raw == Slice(bs, off + FieldOff(F, c, k) + 1, w) IN IF le THEN raw ELSE Rev(raw)
SymRoundTrip ==
  Serialised => LET F == SymF(cf.cls)   so == StrOffsets(tab) IN
              /\ \A i \in 0..(N0 - 1) :
                   LET s == tab[i + 1]   rec == SymRec(s, NameOffset(so, s.nm, i)) IN
                   /\ \A k \in 1..Len(F) : DeField(F, mem.sym, i * mem.ent, cf.cls, cf.le, k) = Digits(rec[F[k][1]], Width(F[k][2], cf.cls))
                   /\ (s.info \div 16) * 16 + (s.info % 16) = s.info /\ s.info \div 16 < 16           \* ELF32_ST_INFO(b, t) = (b << 4) + (t & 0xf)
                   /\ (s.shndx # 65535 => s.xs = Z)                                                   \* companion word 0 off SHN_XINDEX
              /\ \A k \in AllIds : \A i \in ByName(k) : tab[i + 1].nm = k
              /\ UNION {ByName(k) : k \in AllIds} = 0..(N0 - 1)
(* ---------------------- dyn mode and its sessions ---------------------- *)
\* the dynamic object is what the gABI says: every table sits at address DynBase + file offset inside the one PT_LOAD (so the
\* address translates back to the section's offset), PT_DYNAMIC covers exactly .dynamic, the array ends with its only DT_NULL,
\* names the hash tables cf.tags says, nothing overlaps, and the file has section headers iff cf.sht
DynWellFormed ==
  mode = "dyn" /\ phase = "linked" =>
    LET im == Image
        w == cf.cls \div 8
        ld == im.segs[1]   pd == im.segs[2]
        loads == << [va |-> Digits(ld.vaddr, w), fsz |-> ld.filesz.n, msz |-> ld.memsz.n, off |-> ld.offset.n] >>
        r == SegRead(im) IN
    /\ Len(im.secs) = 5 /\ Len(im.segs) = 2 /\ ld.type = PtLoad /\ pd.type = PtDynamic
    /\ (NSec(im) = 0) <=> ~cf.sht
    /\ ChunksDisjoint(im)
    /\ \A k \in 1..5 : /\ im.secs[k].addr = N(DynBase + SecOff(im, k))
                       /\ DS!PtrToOffset(loads, Digits(im.secs[k].addr, w)) = SecOff(im, k)
                       /\ SecOff(im, k) + Len(im.secs[k].data) <= ld.filesz.n
    /\ pd.offset = N(SecOff(im, 5)) /\ pd.filesz = N(Len(mem.dyn)) /\ im.secs[5].data = mem.dyn
    /\ r.n * DS!DynEnt(cf.cls) = Len(mem.dyn)
    /\ r.hash <=> cf.tags \in {"both", "sysv"}
    /\ r.gnu <=> cf.tags \in {"both", "gnu"}
\* the segment view = the declarative view: a reader that has nothing but the program headers and the dynamic array finds the
\* count, exactly the symbol and string table bytes the writer serialised (so SymRoundTrip / NamesResolve speak for its
\* entries), and scanning that table for a name gives exactly ByName
SegViewAgrees ==
  mode = "dyn" /\ phase = "linked" =>
    LET r == SegRead(Image) IN
    /\ r.ok /\ r.cnt = N0
    /\ r.m.sym = mem.sym /\ r.m.str = mem.str /\ r.m.ent = mem.ent
    /\ \A k \in AllIds : {i \in 0..(r.cnt - 1) : NameIs(r.m, i, NameSeq[k])} = ByName(k)
\* sessions.  The answer logged for the latest call is what a scan of the table's bytes started afresh gives (SegViewAgrees: the
\* same bytes for both targets), whatever calls preceded it on the same object (by induction over the log: every call of
\* every session)
StrictAsc(sq) == \A i \in 1..(Len(sq) - 1) : sq[i] < sq[i + 1]
SessionAnswers ==
  phase = "sess" /\ sess.log # <<>> =>
    LET c == sess.log[Len(sess.log)]   n == NSyms(MG) IN
    CASE c.op = "name" -> /\ {c.ans[i] : i \in 1..Len(c.ans)} = {i \in 0..(n - 1) : NameIs(MG, i, NameSeq[c.q])}
                          /\ StrictAsc(c.ans)
      [] c.op = "num" -> c.ans = <<n>>
      [] c.op = "all" -> c.ans = [i \in 1..n |-> i - 1]
      [] c.op = "get" -> c.ans = <<c.q>> /\ c.q >= 0 /\ c.q < n
      [] OTHER -> TRUE
\* equal calls have equal answers, wherever they stand in the session (step excepted: the one call with a memory)
SessionOrderFree ==
  phase = "sess" =>
    \A i, j \in 1..Len(sess.log) :
      sess.log[i].op = sess.log[j].op /\ sess.log[i].q = sess.log[j].q /\ sess.log[i].op # "step" => sess.log[i].ans = sess.log[j].ans
\* an iteration yields the indices in table order, each once, then stays exhausted - whatever is called in between
LastOpen(log) == Max({0} \cup {i \in 1..Len(log) : log[i].op = "open"})
IterInOrder ==
  phase = "sess" =>
    /\ (\A i \in 1..Len(sess.log) : sess.log[i].op = "step" => LastOpen(SubSeq(sess.log, 1, i)) > 0)
    /\ LET st == SelectSeq(SubSeq(sess.log, LastOpen(sess.log) + 1, Len(sess.log)), LAMBDA c : c.op = "step") IN
       \A i \in 1..Len(st) : st[i].ans = (IF i <= N0 THEN <<i - 1>> ELSE <<>>)
\* the scripts ask for every name of SessQ - one of them absent from every dyn-mode table - and "weave" steps past the end
SessionsCover ==
  mode = "dyn" /\ phase = "linked" =>
    /\ ByName(4) = {} /\ ByName(1) # {}
    /\ \A d \in {"up", "down", "weave"} : \A k \in 1..Len(SessQ) : \E i \in 1..Len(Script(d)) : Script(d)[i] = Letter("name", SessQ[k])
    /\ Cardinality({i \in 1..Len(Script("weave")) : Script("weave")[i].op = "step"}) > N0
\* calls do not change the object
SessionFrame == [][phase = "sess" => /\ phase' = "sess" /\ UNCHANGED <<mode, cf, tab, more, hp, mem, rd>>
                                     /\ Len(sess'.log) = Len(sess.log) + 1 /\ sess'.tgt = sess.tgt /\ sess'.disc = sess.disc]_vars
=============================================================================
