-------------------------- MODULE ReadelfEnvelopeL --------------------------
(***************************************************************************)
(* C18, options --debug-dump=loc and --debug-dump=Ranges (and =info on the  *)
(* same files): location lists and range lists in the context of the UNIT   *)
(* that refers to them - which BASE ADDRESS governs an offset pair.         *)
(*                                                                         *)
(* DWARF 3/4, 2.6.2 and 2.17.3 (7.7.3 / 7.24 for the encoding): a list is a *)
(* sequence of entries in .debug_loc / .debug_ranges, each a pair of        *)
(* address-sized values,                                                    *)
(*   (0, 0)           end of list,                                          *)
(*   (all ones, A)    base address selection entry: A is the base address   *)
(*                    for the entries that FOLLOW it in the list,           *)
(*   (b, e)           an offset pair - relative to "the applicable base     *)
(*                    address": the address of the closest preceding base   *)
(*                    address selection entry of the same list, or, when    *)
(*                    there is none, the base address of the compilation    *)
(*                    unit (3.1.1: its DW_AT_low_pc) - followed, in a       *)
(*                    location list, by a 2-byte length and a location      *)
(*                    expression of that many bytes.                        *)
(* Any address is a base address, 0 included (a relocatable object, code at *)
(* address 0): "selected 0" and "nothing selected yet" are different states.*)
(* A unit refers to a list by its section offset: DW_AT_location /          *)
(* DW_AT_ranges in DW_FORM_sec_offset (DWARF 4) or DW_FORM_data4 /          *)
(* DW_FORM_data8 by DWARF format (DWARF 3, 7.5.4 loclistptr / rangelistptr).*)
(*                                                                         *)
(* The writer of C07 (LocRange.tla) is not offered to this property: its    *)
(* units carry no DW_AT_low_pc and its expressions are arbitrary bytes (see *)
(* c18_writers.NOT_OFFERED).  This module is the writer inside the envelope *)
(* of a whole-file dump:                                                    *)
(*   files : 1..LMaxUnits units per file (kinds LKinds: byte order, class,  *)
(*           machine; address size = the class's), every unit with its own  *)
(*           [version LVers, DWARF format LFormats, DW_AT_low_pc in {0, the *)
(*           address of .text}].  EVERY unit has EVERY list of the alphabet *)
(*           Words: the words of 1..MaxListLen letters over                 *)
(*             P  offset pair    B0 base := 0    BL base := the unit's      *)
(*             low_pc    BX base := another address (beyond 2^32 in ELF64)  *)
(*           that hold a pair - as location list (referred to by a          *)
(*           DW_TAG_variable) and as range list (DW_TAG_lexical_block).     *)
(*           So every base value {0, low_pc, other} meets every unit base   *)
(*           {0, non-zero}, before and after pairs, and base after base.    *)
(*           The pairs take their offsets from PairVals (incl. an empty     *)
(*           range: "(start == end)"), the location entries their           *)
(*           expressions from ListExprs: encoded by Expr!EncExpr in the     *)
(*           unit's context, incl. DIE-reference operations inside          *)
(*           (GNU_)entry_value blocks (unit-relative: printed relative to   *)
(*           the section - the second dimension of ReadelfEnvelopeE, here   *)
(*           under --debug-dump=loc).  Lists lie back to back in DIE order  *)
(*           (GNU readelf warns about holes and overlaps: such files are    *)
(*           outside the envelope).                                         *)
(* Only the pair format of DWARF 2-4: GNU readelf 2.40 is too old an oracle *)
(* for the DWARF 5 sections (c18.ORACLE_SKEW); the clone dumps both         *)
(* generations with the same routine.                                       *)
(*                                                                         *)
(* Checked by TLC on the specification itself (invariant FileOK):           *)
(*   UnitsTile     a reader that follows unit_length meets the unit headers *)
(*                 where the writer put them;                               *)
(*   RefsResolve   a reader of the entries (abbreviation code, then the     *)
(*                 bytes of the form) finds the low_pc of the unit and the  *)
(*                 list offsets, and every offset is where a list starts;   *)
(*   ListsTile     the operational list reader (one step per entry, state = *)
(*                 the applicable base address, initially the unit's        *)
(*                 low_pc) started at a referred offset stops where the     *)
(*                 next referred list starts / where the section ends;      *)
(*   BaseGoverns   the rows that reader produces (resolved begin and end,   *)
(*                 expression bytes) are the declarative View of the        *)
(*                 abstract list (the base of a pair = the last base letter *)
(*                 before it, else low_pc);                                 *)
(* and, as constant-level ASSUMEs, BaseZeroMatters (in a unit with non-zero *)
(* low_pc the list <<B0, P>> resolves differently from <<P>>: a reader that *)
(* takes "base 0" for "no base yet" is wrong there), ExprsDecodeL, SizesFree*)
(* (the length of a unit's lists depends on the file kind only).            *)
(* The TEXT is GNU readelf's; the View is emitted with each case as the     *)
(* specification's reading of the lists (evidence samples).                 *)
(***************************************************************************)
EXTENDS ReadelfEnvelopeE

CONSTANTS LKinds,       \* file kinds <<little-endian, class, machine>>
          LVers,        \* unit versions (2..4: the pair format)
          LFormats,     \* DWARF formats (4 = 32-bit, 8 = 64-bit)
          LMaxUnits,    \* most units in a file
          MaxListLen    \* longest list (entries before the end-of-list entry)

VARIABLES lfile
lvars == <<lfile, evars>>

(* ------------------------------- addresses ------------------------------ *)
Asz(k) == k[2] \div 8
LUnits(k) == {[ver |-> v, osz |-> o, asz |-> Asz(k), lp |-> l] : v \in LVers, o \in LFormats, l \in {"zero", "text"}}
TextBase == 4198400                                  \* 0x401000: where ReadelfEnvelope's container has .text
AddrD(n, k) == LEn(n, Asz(k))
LowPcD(k, u) == IF u.lp = "zero" THEN AddrD(0, k) ELSE AddrD(TextBase, k)
OtherD(k) == IF Asz(k) = 8 THEN <<0, 32, 0, 0, 1, 0, 0, 0>> ELSE AddrD(8192, k)      \* 0x100002000 / 0x2000
BaseD(l, k, u) == CASE l = "B0" -> AddrD(0, k) [] l = "BL" -> LowPcD(k, u) [] l = "BX" -> OtherD(k)
AllOnes(w) == [i \in 1..w |-> 255]

(* ------------------------------ the alphabet ---------------------------- *)
Letters == <<"P", "B0", "BL", "BX">>
RECURSIVE WordsOfLen(_)
WordsOfLen(n) == IF n = 0 THEN << <<>> >>
                 ELSE LET w == WordsOfLen(n - 1) IN Flat([i \in 1..Len(w) |-> [j \in 1..Len(Letters) |-> Append(w[i], Letters[j])]])
Words == TLCEval(SelectSeq(Flat([n \in 1..MaxListLen |-> WordsOfLen(n)]), LAMBDA w : \E i \in 1..Len(w) : w[i] = "P"))
NL == Len(Words)
\* offsets of a pair (begin <= end; never (0, 0), which is the end of the list): by list number and position
PairVals == << <<0, 4>>, <<8, 8>>, <<16, 48>> >>
\* location expressions by list number and position: a register (name of the file's machine), a unit-relative type reference,
\* the same inside an entry-value block (2.5.1.7), a block followed by an operation, an address (address size of the unit), a
\* reference two blocks deep, a block and a reference behind it.  The GNU forms are what producers of DWARF 2-4 emit.
ListExprs(c, ru) ==
  << <<Op(144, c, 0, 0)>>,
     <<Op(245, c, ru, 0)>>,
     <<InBlock(243, <<Op(245, c, ru, 0)>>)>>,
     <<InBlock(163, <<Op(144, c, 0, 0)>>), Op(After, c, 0, 0)>>,
     <<Op(3, c, 0, 0)>>,
     <<InBlock(243, <<InBlock(243, <<Op(250, c, ru, 0)>>)>>)>>,
     <<InBlock(163, <<Op(247, c, ru, 0)>>), Op(153, c, ru, 0)>> >>
NX == 7
\* the abstract list number i of a unit: entries [t = "pair", b, e, x: expression number] / [t = "base", a: digits]
ListOf(i, k, u) ==
  LET w == Words[i] IN
  [j \in 1..Len(w) |-> IF w[j] = "P" THEN [t |-> "pair", b |-> PairVals[((i + j) % 3) + 1][1], e |-> PairVals[((i + j) % 3) + 1][2],
                                           x |-> ((i + j) % NX) + 1]
                       ELSE [t |-> "base", a |-> BaseD(w[j], k, u)]]

(* -------------------------------- encoding ------------------------------ *)
ExprBytes(k, u) == LET c == XCtx(k, u)   es == ListExprs(c, HdrLen(u)) IN [x \in 1..NX |-> EncExpr(es[x], c)]
\* 7.7.3 / 7.24
EncEntry(which, en, xs, k) ==
  IF en.t = "base" THEN AllOnes(Asz(k)) \o Fix(W(en.a), Asz(k), k[1])
  ELSE Fix(N(en.b), Asz(k), k[1]) \o Fix(N(en.e), Asz(k), k[1])
       \o (IF which = "loc" THEN Fix(N(Len(xs[en.x])), 2, k[1]) \o xs[en.x] ELSE <<>>)
EndOfList(k) == Rep(0, 2 * Asz(k))
EncList(which, es, xs, k) == Flat([j \in 1..Len(es) |-> EncEntry(which, es[j], xs, k)]) \o EndOfList(k)
\* (TLC does not memoise: the lists of a unit are a function of <<file kind, unit>>, tabulated once)
LKeys == UNION {{<<k, u>> : u \in LUnits(k)} : k \in LKinds}
ListTab == TLCEval([x \in LKeys |->
             LET xs == TLCEval(ExprBytes(x[1], x[2])) IN
             [loc |-> TLCEval([i \in 1..NL |-> EncList("loc", ListOf(i, x[1], x[2]), xs, x[1])]),
              rng |-> TLCEval([i \in 1..NL |-> EncList("rng", ListOf(i, x[1], x[2]), xs, x[1])])]])
ListBytes(which, k, u) == IF which = "loc" THEN ListTab[<<k, u>>].loc ELSE ListTab[<<k, u>>].rng
\* a unit's share of a list section, and where its lists start inside it
RECURSIVE Starts(_, _, _)
Starts(bss, i, at) == IF i > Len(bss) THEN <<>> ELSE <<at>> \o Starts(bss, i + 1, at + Len(bss[i]))
ShareTab == TLCEval([x \in LKeys |->
              [loc |-> [bytes |-> Flat(ListTab[x].loc), starts |-> Starts(ListTab[x].loc, 1, 0)],
               rng |-> [bytes |-> Flat(ListTab[x].rng), starts |-> Starts(ListTab[x].rng, 1, 0)]]])
Share(which, k, u) == IF which = "loc" THEN ShareTab[<<k, u>>].loc ELSE ShareTab[<<k, u>>].rng
\* the lengths of the shares depend on the file kind only (no operand of ListExprs has a width that depends on the unit)
SizesFree == \A x \in LKeys : \A y \in LKeys : x[1] = y[1] => /\ Len(ShareTab[x].loc.bytes) = Len(ShareTab[y].loc.bytes)
                                                             /\ Len(ShareTab[x].rng.bytes) = Len(ShareTab[y].rng.bytes)
ASSUME SizesFree
SecBytes(which, f) == Flat([i \in 1..Len(f.units) |-> Share(which, f.kind, f.units[i]).bytes])
\* section offset of list n of unit i
ShareStart(which, f, i) == SumR([m \in 1..Len(f.units) |-> Len(Share(which, f.kind, f.units[m]).bytes)], 1, i - 1)
ListOff(which, f, i, n) == ShareStart(which, f, i) + Share(which, f.kind, f.units[i]).starts[n]

\* abbreviations (7.5.3): 1 DW_TAG_compile_unit, children, DW_AT_low_pc DW_FORM_addr; 2-4 DW_TAG_variable, DW_AT_location in
\* DW_FORM_sec_offset / data4 / data8; 5-7 DW_TAG_lexical_block, DW_AT_ranges in the same three forms
AbbrevL == <<1, 17, 1, 17, 1, 0, 0,   2, 52, 0, 2, 23, 0, 0,   3, 52, 0, 2, 6, 0, 0,   4, 52, 0, 2, 7, 0, 0,
             5, 11, 0, 85, 23, 0, 0,  6, 11, 0, 85, 6, 0, 0,   7, 11, 0, 85, 7, 0, 0,  0>>
\* 7.5.4: class loclistptr / rangelistptr is DW_FORM_sec_offset in DWARF 4; DW_FORM_data4 (32-bit format) / data8 (64-bit) before
RefForm(u) == IF u.ver >= 4 THEN 0 ELSE IF u.osz = 4 THEN 1 ELSE 2
RefDie(which, off, k, u) == <<(IF which = "loc" THEN 2 ELSE 5) + RefForm(u)>> \o Fix(N(off), u.osz, k[1])
UnitBodyL(f, i) ==
  LET k == f.kind   u == f.units[i] IN
  <<1>> \o Fix(W(LowPcD(k, u)), Asz(k), k[1])
  \o Flat([n \in 1..NL |-> RefDie("loc", ListOff("loc", f, i, n), k, u)])
  \o Flat([n \in 1..NL |-> RefDie("rng", ListOff("rng", f, i, n), k, u)]) \o <<0>>
UnitBytesL(f, i) == LET rest == UnitHeader(f.kind, f.units[i]) \o UnitBodyL(f, i)
                    IN LengthField(Len(rest), f.units[i].osz, f.kind[1]) \o rest
InfoL(f) == Flat([i \in 1..Len(f.units) |-> UnitBytesL(f, i)])

(* ---------------------------------- View -------------------------------- *)
\* the applicable base address of position j of a word (2.6.2 / 2.17.3)
BaseAt(w, j, k, u) == LET bs == {m \in 1..(j - 1) : w[m] # "P"} IN IF bs = {} THEN LowPcD(k, u) ELSE BaseD(w[Max(bs)], k, u)
ViewList(which, i, k, u, xs) ==
  LET w == Words[i]   es == ListOf(i, k, u) IN
  [j \in 1..Len(w) |-> IF w[j] = "P"
                       THEN [t |-> "pair", lo |-> DAdd(BaseAt(w, j, k, u), AddrD(es[j].b, k)), hi |-> DAdd(BaseAt(w, j, k, u), AddrD(es[j].e, k)),
                             x |-> IF which = "loc" THEN xs[es[j].x] ELSE <<>>]
                       ELSE [t |-> "base", a |-> es[j].a]]
BaseZeroMatters ==
  \A x \in LKeys : x[2].lp = "text" =>
    LET xs == ExprBytes(x[1], x[2])
        i0 == CHOOSE i \in 1..NL : Words[i] = <<"B0", "P">>
        i1 == CHOOSE i \in 1..NL : Words[i] = <<"P">>
        v0 == ViewList("rng", i0, x[1], x[2], xs)[2]
        v1 == ViewList("rng", i1, x[1], x[2], xs)[1]
        e0 == ListOf(i0, x[1], x[2])[2]
        e1 == ListOf(i1, x[1], x[2])[1]
    IN v0.lo = AddrD(e0.b, x[1]) /\ v1.lo = DAdd(AddrD(TextBase, x[1]), AddrD(e1.b, x[1])) /\ v1.lo # AddrD(e1.b, x[1])
ASSUME MaxListLen >= 2 => BaseZeroMatters
ExprsDecodeL ==
  \A x \in LKeys : LET c == XCtx(x[1], x[2])   es == ListExprs(c, HdrLen(x[2])) IN
    /\ Len(es) = NX
    /\ \A j \in 1..NX : LET bs == EncExpr(es[j], c) IN Dec(bs, c) = [ok |-> TRUE, out |-> Annot(es[j], c), pos |-> Len(bs)]
ASSUME ExprsDecodeL

(* ------------------------------- the readers ---------------------------- *)
Word(bs, at, w, le) == FixDec(Slice(bs, at + 1, w), le, FALSE).d
\* one step per entry; base: the applicable base address
RECURSIVE ReadList(_, _, _, _, _)
ReadList(bs, at, which, k, base) ==
  LET a == Asz(k)
      b == Word(bs, at, a, k[1])
      e == Word(bs, at + a, a, k[1])
  IN IF b = DZero(a) /\ e = DZero(a) THEN [rows |-> <<>>, next |-> at + 2 * a]
     ELSE IF b = AllOnes(a) THEN LET r == ReadList(bs, at + 2 * a, which, k, e)
                                 IN [rows |-> <<[t |-> "base", a |-> e]>> \o r.rows, next |-> r.next]
     ELSE LET n == IF which = "loc" THEN NatOf(Word(bs, at + 2 * a, 2, k[1])) ELSE 0
              used == 2 * a + (IF which = "loc" THEN 2 + n ELSE 0)
              r == ReadList(bs, at + used, which, k, base)
          IN [rows |-> <<[t |-> "pair", lo |-> DAdd(base, b), hi |-> DAdd(base, e),
                          x |-> IF which = "loc" THEN Slice(bs, at + 2 * a + 3, n) ELSE <<>>]>> \o r.rows,
              next |-> r.next]
\* the entries of a unit (7.5.2: abbreviation code, then the attribute values in the forms the abbreviation says)
FormLen(code, asz, osz) == CASE code = 1 -> asz [] code \in {2, 5} -> osz [] code \in {3, 6} -> 4 [] code \in {4, 7} -> 8
RECURSIVE ReadDies(_, _, _, _, _)
ReadDies(bs, at, asz, osz, le) ==
  IF bs[at + 1] = 0 THEN <<>>
  ELSE LET n == FormLen(bs[at + 1], asz, osz)
       IN <<[code |-> bs[at + 1], v |-> Word(bs, at + 1, n, le)]>> \o ReadDies(bs, at + 1 + n, asz, osz, le)
Small3(d) == NatOf(SubSeq(d, 1, 3))
HighZero(d) == \A i \in 4..Len(d) : d[i] = 0

(* -------------------------------- machine ------------------------------- *)
InitL ==
  /\ Frozen /\ emode = "lists" /\ file = NoFile /\ hist = <<>> /\ phase = "write"
  /\ \E k \in LKinds : lfile = [kind |-> k, units |-> <<>>]
AddUnitL ==
  /\ phase = "write" /\ Len(lfile.units) < LMaxUnits
  /\ \E u \in LUnits(lfile.kind) : lfile' = [lfile EXCEPT !.units = Append(@, u)]
  /\ UNCHANGED evars
FinishL ==
  /\ phase = "write" /\ lfile.units # <<>> /\ phase' = "done"
  /\ UNCHANGED <<lfile, emode, file, hist, ctx, expr, rd>>
NextL == AddUnitL \/ FinishL
SpecL == InitL /\ [][NextL]_lvars

(* ------------------------------- properties ----------------------------- *)
FileOK ==
  Done =>
    LET f == lfile
        k == f.kind
        info == InfoL(f)
        secs == [loc |-> SecBytes("loc", f), rng |-> SecBytes("rng", f)]
        w == WalkUnits(info, 0, k[1])
    IN \* UnitsTile
       /\ w.end = Len(info) /\ Len(w.units) = Len(f.units)
       /\ \A i \in 1..Len(f.units) :
            LET u == f.units[i]
                uo == w.units[i][1]
                osz == IF w.units[i][4] THEN 8 ELSE 4
                dies == ReadDies(info, uo + HdrLen(u), w.units[i][3], osz, k[1])
                xs == ExprBytes(k, u)
                \* the offsets the unit refers to, per section, in the order of its entries
                refs(lo) == [n \in 1..NL |-> dies[lo + n].v]
                NextOff(which, n) == IF n < NL THEN ListOff(which, f, i, n + 1)
                                  ELSE IF i < Len(f.units) THEN ListOff(which, f, i + 1, 1) ELSE Len(secs[which])
            IN /\ w.units[i][2] = u.ver /\ w.units[i][3] = Asz(k) /\ osz = u.osz
               /\ uo = Len(InfoL([f EXCEPT !.units = SubSeq(@, 1, i - 1)]))      \* (list offsets of a prefix are those of the file)
               \* RefsResolve
               /\ Len(dies) = 1 + 2 * NL /\ dies[1].code = 1 /\ dies[1].v = LowPcD(k, u)
               /\ \A n \in 1..NL : /\ dies[1 + n].code \in {2, 3, 4} /\ dies[1 + NL + n].code \in {5, 6, 7}
                                   /\ HighZero(refs(1)[n]) /\ HighZero(refs(1 + NL)[n])
                                   /\ Small3(refs(1)[n]) = ListOff("loc", f, i, n) /\ Small3(refs(1 + NL)[n]) = ListOff("rng", f, i, n)
               \* ListsTile, BaseGoverns: the reader starts with the low_pc it read from the unit's first entry
               /\ \A n \in 1..NL :
                    LET rl == ReadList(secs.loc, ListOff("loc", f, i, n), "loc", k, dies[1].v)
                        rr == ReadList(secs.rng, ListOff("rng", f, i, n), "rng", k, dies[1].v)
                    IN /\ rl.next = NextOff("loc", n) /\ rr.next = NextOff("rng", n)
                       /\ rl.rows = ViewList("loc", n, k, u, xs) /\ rr.rows = ViewList("rng", n, k, u, xs)
       /\ ListOff("loc", f, 1, 1) = 0 /\ ListOff("rng", f, 1, 1) = 0

(* -------------------------------- emission ------------------------------ *)
LUKey(u) == <<u.ver, u.osz, u.lp>>
LKey(f) == ToString(<<f.kind, [i \in 1..Len(f.units) |-> LUKey(f.units[i])]>>)
LClass(u) == "v" \o ToString(u.ver) \o "o" \o ToString(u.osz) \o u.lp
LTag(f) == "lists/" \o Join([i \in 1..Len(f.units) |-> LClass(f.units[i])], ">")
\* one line per piece of a section (a line stays below the 8 KB that are appended atomically); the first line carries the
\* specification's reading of the first and the last unit's range lists that start with a base entry for 0 (evidence)
PieceL == 1500
RECURSIVE Pieces(_)
Pieces(bs) == IF Len(bs) <= PieceL THEN <<bs>> ELSE <<SubSeq(bs, 1, PieceL)>> \o Pieces(SubSeq(bs, PieceL + 1, Len(bs)))
Tagged(name, bs) == LET ps == Pieces(bs) IN [i \in 1..Len(ps) |-> <<name, ps[i]>>]
EmitL ==
  Done =>
    LET f == lfile
        parts == Tagged("info", InfoL(f)) \o Tagged("abbrev", AbbrevL) \o Tagged("loc", SecBytes("loc", f)) \o Tagged("ranges", SecBytes("rng", f))
        i0 == CHOOSE i \in 1..NL : Words[i] = (IF MaxListLen >= 2 THEN <<"B0", "P">> ELSE <<"P">>)
        u == f.units[Len(f.units)]
        view == ViewList("rng", i0, f.kind, u, ExprBytes(f.kind, u))
    IN \A i \in 1..Len(parts) :
         CSVWrite("%1$s", <<ToJson([k |-> LKey(f), n |-> Len(parts), i |-> i, tag |-> LTag(f), le |-> f.kind[1], cls |-> f.kind[2],
                                    machine |-> f.kind[3], sec |-> parts[i][1], b |-> parts[i][2],
                                    view |-> IF i = 1 THEN [list |-> Words[i0], off |-> ListOff("rng", f, Len(f.units), i0),
                                                            low_pc |-> LowPcD(f.kind, u), rows |-> view]
                                             ELSE [list |-> <<>>, off |-> 0, low_pc |-> <<>>, rows |-> <<>>]])>>, IOEnv.OUT)

\* cfg
KindsQuick == {<<TRUE, 64, 62>>, <<FALSE, 64, 21>>, <<TRUE, 32, 3>>, <<FALSE, 32, 20>>}       \* x86-64, PPC64 BE; i386, PPC BE
KindsAll == FileKinds
LVersQuick == {3, 4}
LVersAll == {2, 3, 4}
Fmt32 == {4}
FmtBoth == {4, 8}
=============================================================================
