------------------------------- MODULE Ehabi -------------------------------
(***************************************************************************)
(* C20 (second half) - ARM exception index / table entries and the unwind   *)
(* byte-code are decoded exactly.                                           *)
(*                                                                         *)
(* Transcribed from "Exception Handling ABI for the Arm Architecture"       *)
(* (IHI 0038, EHABI32):                                                     *)
(*   section 5  index table entries: word 0 = prel31 offset of the function *)
(*              (bit 31 clear); word 1 = EXIDX_CANTUNWIND (1) | prel31       *)
(*              offset of the table entry (bit 31 clear) | the table entry   *)
(*              itself (bit 31 set: inline compact model);                   *)
(*   section 6.2/6.3 table entries: bit 31 clear = generic model, prel31     *)
(*              offset of the personality routine; bit 31 set = compact      *)
(*              model, bits 28-30 zero, bits 24-27 personality index:        *)
(*              0 (Su16) three unwind bytes; 1 (Lu16) / 2 (Lu32) bits 16-23  *)
(*              = number N of additional words, two unwind bytes, then N     *)
(*              words of four bytes each, most significant byte first;       *)
(*              indices 3-15 reserved;                                       *)
(*   section 10.3 table 4, "ARM-defined frame-unwinding instructions".       *)
(* prel31: bits 0-30 are a two's complement offset from the place of the    *)
(* word; bit 31 does not take part.                                         *)
(*                                                                         *)
(* (A) abstract table: entries [kind, disp, ins, aux]  (B) writer + the      *)
(* words/bytes of .ARM.exidx and .ARM.extab  (C) the reader machine: one     *)
(* action per index entry / table word / additional word / instruction /    *)
(* ULEB128 byte  (D) invariants checked by TLC:                              *)
(*   PrelAgrees   - Prel31 (bit operations on the word) = place + disp       *)
(*                  (integer arithmetic) mod 2^32 and mod 2^64 for every     *)
(*                  displacement class (bit 30 / bit 26 / sign / size) and   *)
(*                  both values of bit 31;                                   *)
(*   CodeRoundTrip - Dec(Enc(ins)) = ins for every instruction sequence the  *)
(*                  writer produces; ASSUME: the decode table is total over  *)
(*                  all first bytes and Enc(Dec(bytes)) = bytes;             *)
(*   ClassifyAgrees - the decision table Classify(word0, word1, table word)  *)
(*                  returns the kind (and additional-word count) the writer  *)
(*                  meant, for every entry kind incl. the corrupt forms;     *)
(*   ReaderAgrees - what the reader machine recovers from the section bytes  *)
(*                  is the abstract table; LayoutConsistent, Sorted.         *)
(*                                                                         *)
(* Mnemonics: EHABI fixes the meaning of each instruction, not a text.  The  *)
(* specification therefore emits a normalised mnemonic [c, n, regs]: class   *)
(* c in {vsp+, vsp-, refuse, pop, vsp=r, reserved, finish, spare}, amount or *)
(* register number n, register list regs in EHABI names (r0-r15, d0-d31,     *)
(* wR0-wR15, wCGR0-3); the harness parses the library's text into the same   *)
(* form.  Not distinguished (no difference in meaning visible in a          *)
(* disassembly): FSTMFDX vs VPUSH pops, the two `reserved` prefixes.  0xb4   *)
(* and 0xb5 are spare in IHI 0038B and PAC instructions in later releases:   *)
(* class "unspecified" (only the instruction's length is asserted).          *)
(* Not asserted: eh_table_offset of table-based model 0 and generic entries  *)
(* (set-valued {absent, T}); personality/function_offset of corrupt and      *)
(* cannot-unwind entries beyond what the property names; inline entries with *)
(* index 1 or 2 (not generated); results mod 2^32 vs mod 2^64 (both).   *)
(* Places are file offsets = addresses: generated sections have sh_addr =     *)
(* sh_offset, so both readings of "place" coincide.                          *)
(*                                                                         *)
(* Deviations of the unchanged tree found by this check (clause:tag):       *)
(*   entry.function_offset:b30=0,b26=1 / :b30=1,b26=0 and                    *)
(*   entry.personality:generic:b30=0,b26=1 / :generic:b30=1,b26=0 -          *)
(*     arm_expand_prel31 extends from bit 26 (fixes/C20-prel31-bit30.patch); *)
(*   bytecode.mnemonic:uleb - the 0xb2 operand loop tests the continuation   *)
(*     bit of the NEXT byte: wrong value / IndexError whenever the byte      *)
(*     after a one-byte operand is < 0x80 or the operand has >= 3 bytes      *)
(*     (fixes/C20-ehabi-uleb-loop.patch).                                    *)
(***************************************************************************)
EXTENDS Elf, TLC, Json, CSV, IOUtils

CONSTANTS Modes,        \* subset of {"prel", "kinds", "ops", "seqs"}
          MaxEntries,   \* "kinds": entries per table
          MaxSeq        \* "seqs": instructions per sequence

VARIABLES Mode, env, ents, cur, phase, lay, rd
vars == <<Mode, env, ents, cur, phase, lay, rd>>
AllModes == {"prel", "kinds", "ops", "seqs"}

(* ------------------------- numbers and words --------------------------- *)
Bit(m, k) == (m \div Pow(2, k)) % 2
\* a 32-bit word is its four little-endian digits (value), independent of the file's byte order
WordOfBytes(b1, b2, b3, b4) == <<b4, b3, b2, b1>>                \* b1 = most significant byte
PrelField(disp) == LET d == LEs(disp, 4) IN [d EXCEPT ![4] = @ % 128]      \* bits 0..30 of the two's complement offset
\* reader side: (word & 0x7fffffff), bit 30 copied upwards, plus place, modulo 256^width
Prel31(w, place, width) ==
  LET f == [w EXCEPT ![4] = @ % 128]
      sx == IF f[4] >= 64 THEN [f EXCEPT ![4] = @ + 128] ELSE f
  IN DAdd(DSext(sx, width), LEn(place, width))
\* arithmetic definition
PrelArith(disp, place, width) == LEs(place + disp, width)

\* displacement classes: sign x magnitude x (bit 30, bit 26) of the field
DispClasses == {0, 8, 4096, 67108860, 67108864, 134217712, 134217728, 1006632956, 1073741823,
                -8, -4096, -67108865, -134217728, -1006632960, -1073741824}
SmallDisp == -16

(* --------------------- (A) instructions: EHABI 10.3 -------------------- *)
I(op, a, b) == [op |-> op, a |-> a, b |-> b, g |-> <<>>]
IU(g) == [op |-> "vsp_add_uleb", a |-> 0, b |-> 0, g |-> g]
Finish1 == I("finish", 0, 0)
SpareSingles == (180..183) \cup (202..207) \cup (216..255)

EncI(i) ==
  CASE i.op = "vsp_add" -> <<(i.a - 4) \div 4>>                        \* 00xxxxxx  vsp = vsp + (xxxxxx << 2) + 4
    [] i.op = "vsp_sub" -> <<64 + (i.a - 4) \div 4>>                   \* 01xxxxxx  vsp = vsp - (xxxxxx << 2) - 4
    [] i.op = "refuse" -> <<128, 0>>                                   \* 10000000 00000000
    [] i.op = "pop_mask12" -> <<128 + i.a \div 256, i.a % 256>>        \* 1000iiii iiiiiiii  {r15-r12},{r11-r4}; bit k = r(4+k)
    [] i.op = "vsp_reg" -> <<144 + i.a>>                               \* 1001nnnn  nnnn # 13, 15
    [] i.op = "rsv_arm_mov" -> <<157>>                                 \* 10011101
    [] i.op = "rsv_wmmx_mov" -> <<159>>                                \* 10011111
    [] i.op = "pop_r4_n" -> <<160 + i.a>>                              \* 10100nnn  r4-r[4+nnn]
    [] i.op = "pop_r4_n_lr" -> <<168 + i.a>>                           \* 10101nnn  r4-r[4+nnn], r14
    [] i.op = "finish" -> <<176>>                                      \* 10110000
    [] i.op = "spare" -> IF i.b < 0 THEN <<i.a>> ELSE <<i.a, i.b>>
    [] i.op = "unspecified" -> <<i.a>>                                 \* 0xb4, 0xb5 (see header)
    [] i.op = "pop_mask4" -> <<177, i.a>>                              \* 10110001 0000iiii  {r3,r2,r1,r0}
    [] i.op = "vsp_add_uleb" -> <<178>> \o LebOfGroups(i.g)            \* 10110010 uleb128  vsp = vsp + 0x204 + (uleb128 << 2)
    [] i.op = "pop_d_fstmfdx" -> <<179, 16 * i.a + i.b>>               \* 10110011 sssscccc  D[ssss]-D[ssss+cccc]
    [] i.op = "pop_d8_fstmfdx" -> <<184 + i.a>>                        \* 10111nnn  D[8]-D[8+nnn]
    [] i.op = "pop_wr10" -> <<192 + i.a>>                              \* 11000nnn  nnn # 6, 7   wR[10]-wR[10+nnn]
    [] i.op = "pop_wr" -> <<198, 16 * i.a + i.b>>                      \* 11000110 sssscccc
    [] i.op = "pop_wcgr_mask" -> <<199, i.a>>                          \* 11000111 0000iiii
    [] i.op = "pop_d16_vpush" -> <<200, 16 * i.a + i.b>>               \* 11001000 sssscccc  D[16+ssss]-D[16+ssss+cccc]
    [] i.op = "pop_d_vpush" -> <<201, 16 * i.a + i.b>>                 \* 11001001 sssscccc
    [] i.op = "pop_d8_vpush" -> <<208 + i.a>>                          \* 11010nnn
EncSeq(ins) == Flat([k \in 1..Len(ins) |-> EncI(ins[k])])

\* decoding one instruction at 0-based position p (the ULEB128 operand through the denotational LebDec)
DecAt(c, p) ==
  LET b == c[p + 1]
      b1 == IF p + 2 <= Len(c) THEN c[p + 2] ELSE 0 - 1
      one(i) == [i |-> i, used |-> 1]
      two(i) == [i |-> i, used |-> 2]
  IN CASE b \in 0..63 -> one(I("vsp_add", 4 * b + 4, 0))
       [] b \in 64..127 -> one(I("vsp_sub", 4 * (b - 64) + 4, 0))
       [] b \in 128..143 -> IF b = 128 /\ b1 = 0 THEN two(I("refuse", 0, 0)) ELSE two(I("pop_mask12", (b - 128) * 256 + b1, 0))
       [] b = 157 -> one(I("rsv_arm_mov", 0, 0))
       [] b = 159 -> one(I("rsv_wmmx_mov", 0, 0))
       [] b \in (144..158) \ {157} -> one(I("vsp_reg", b - 144, 0))
       [] b \in 160..167 -> one(I("pop_r4_n", b - 160, 0))
       [] b \in 168..175 -> one(I("pop_r4_n_lr", b - 168, 0))
       [] b = 176 -> one(Finish1)
       [] b = 177 -> IF b1 = 0 \/ b1 >= 16 THEN two(I("spare", 177, b1)) ELSE two(I("pop_mask4", b1, 0))
       [] b = 178 -> LET v == LebDec(SubSeq(c, p + 2, Len(c)), FALSE) IN [i |-> IU(v.val.g), used |-> 1 + v.used]
       [] b = 179 -> two(I("pop_d_fstmfdx", b1 \div 16, b1 % 16))
       [] b \in {180, 181} -> one(I("unspecified", b, 0))
       [] b \in {182, 183} -> one(I("spare", b, 0 - 1))
       [] b \in 184..191 -> one(I("pop_d8_fstmfdx", b - 184, 0))
       [] b \in 192..197 -> one(I("pop_wr10", b - 192, 0))
       [] b = 198 -> two(I("pop_wr", b1 \div 16, b1 % 16))
       [] b = 199 -> IF b1 = 0 \/ b1 >= 16 THEN two(I("spare", 199, b1)) ELSE two(I("pop_wcgr_mask", b1, 0))
       [] b = 200 -> two(I("pop_d16_vpush", b1 \div 16, b1 % 16))
       [] b = 201 -> two(I("pop_d_vpush", b1 \div 16, b1 % 16))
       [] b \in 202..207 -> one(I("spare", b, 0 - 1))
       [] b \in 208..215 -> one(I("pop_d8_vpush", b - 208, 0))
       [] b \in 216..255 -> one(I("spare", b, 0 - 1))
RECURSIVE DecSeq(_, _)
DecSeq(c, p) == IF p >= Len(c) THEN <<>> ELSE LET r == DecAt(c, p) IN <<r.i>> \o DecSeq(c, p + r.used)

\* normalised mnemonic (see header)
MaskRegs(prefix, base, m, nb) ==
  LET idx == SelectSeq([k \in 1..nb |-> k - 1], LAMBDA k : Bit(m, k) = 1) IN
  [j \in 1..Len(idx) |-> prefix \o ToString(base + idx[j])]
Regs(prefix, from, cnt) == [j \in 1..cnt |-> prefix \o ToString(from + j - 1)]
GBit(g, i) == IF i < 0 \/ (i \div 7) + 1 > Len(g) THEN 0 ELSE (g[(i \div 7) + 1] \div Pow(2, (i % 7))) % 2
\* 0x204 + (value(g) << 2) as little-endian base-256 digits
UlebAmount(g) ==
  LET w == ((7 * Len(g) + 2) \div 8) + 2
      sh == [k \in 1..w |-> LET b(j) == GBit(g, 8 * (k - 1) + j - 2) IN
                            b(0) + 2 * b(1) + 4 * b(2) + 8 * b(3) + 16 * b(4) + 32 * b(5) + 64 * b(6) + 128 * b(7)]
  IN DAdd(sh, LEn(516, w))
M(c, n, regs) == [c |-> c, n |-> n, regs |-> regs]
Mn(i) ==
  CASE i.op = "vsp_add" -> M("vsp+", LEn(i.a, 2), <<>>)
    [] i.op = "vsp_sub" -> M("vsp-", LEn(i.a, 2), <<>>)
    [] i.op = "refuse" -> M("refuse", <<>>, <<>>)
    [] i.op = "pop_mask12" -> M("pop", <<>>, MaskRegs("r", 4, i.a, 12))
    [] i.op = "vsp_reg" -> M("vsp=r", <<i.a>>, <<>>)
    [] i.op \in {"rsv_arm_mov", "rsv_wmmx_mov"} -> M("reserved", <<>>, <<>>)
    [] i.op = "pop_r4_n" -> M("pop", <<>>, Regs("r", 4, i.a + 1))
    [] i.op = "pop_r4_n_lr" -> M("pop", <<>>, Regs("r", 4, i.a + 1) \o <<"r14">>)
    [] i.op = "finish" -> M("finish", <<>>, <<>>)
    [] i.op = "spare" -> M("spare", <<>>, <<>>)
    [] i.op = "unspecified" -> M("unspecified", <<>>, <<>>)
    [] i.op = "pop_mask4" -> M("pop", <<>>, MaskRegs("r", 0, i.a, 4))
    [] i.op = "vsp_add_uleb" -> M("vsp+", UlebAmount(i.g), <<>>)
    [] i.op \in {"pop_d_fstmfdx", "pop_d_vpush"} -> M("pop", <<>>, Regs("d", i.a, i.b + 1))
    [] i.op \in {"pop_d8_fstmfdx", "pop_d8_vpush"} -> M("pop", <<>>, Regs("d", 8, i.a + 1))
    [] i.op = "pop_wr10" -> M("pop", <<>>, Regs("wR", 10, i.a + 1))
    [] i.op = "pop_wr" -> M("pop", <<>>, Regs("wR", i.a, i.b + 1))
    [] i.op = "pop_wcgr_mask" -> M("pop", <<>>, MaskRegs("wCGR", 0, i.a, 4))
    [] i.op = "pop_d16_vpush" -> M("pop", <<>>, Regs("d", 16 + i.a, i.b + 1))

\* every instruction of the table, with operand classes (register ranges stay inside the register files)
Nibbles == {<<0, 0>>, <<0, 15>>, <<15, 0>>, <<8, 7>>, <<1, 2>>, <<3, 4>>}
UlebClasses == {<<0>>, <<1>>, <<5>>, <<127>>, <<0, 1>>, <<1, 1>>, <<127, 127>>, <<0, 0, 1>>, <<1, 2, 3>>, <<127, 127, 127>>,
                <<0, 0, 0, 1>>, <<127, 127, 127, 127>>, <<0, 0, 0, 0, 1>>, <<127, 127, 127, 127, 127>>, <<0, 0>>, <<1, 0, 0>>,
                <<127, 127, 127, 127, 127, 127, 127, 127, 127, 1>>}
AllInstr ==
  {I("vsp_add", 4 * x + 4, 0) : x \in 0..63} \cup {I("vsp_sub", 4 * x + 4, 0) : x \in 0..63}
  \cup {I("refuse", 0, 0), I("rsv_arm_mov", 0, 0), I("rsv_wmmx_mov", 0, 0), Finish1}
  \cup {I("pop_mask12", 256 * h + l, 0) : h \in 0..15, l \in {1, 16, 128, 255}} \cup {I("pop_mask12", 256 * h, 0) : h \in 1..15}
  \cup {I("vsp_reg", r, 0) : r \in (0..15) \ {13, 15}}
  \cup {I("pop_r4_n", n, 0) : n \in 0..7} \cup {I("pop_r4_n_lr", n, 0) : n \in 0..7}
  \cup {I("spare", b, 0 - 1) : b \in SpareSingles \ {180, 181}} \cup {I("unspecified", b, 0) : b \in {180, 181}}
  \cup {I("spare", b, x) : b \in {177, 199}, x \in {0, 16, 31, 128, 240, 255}}
  \cup {I("pop_mask4", m, 0) : m \in 1..15} \cup {I("pop_wcgr_mask", m, 0) : m \in 1..15}
  \cup {IU(g) : g \in UlebClasses}
  \cup {I("pop_d_fstmfdx", x[1], x[2]) : x \in Nibbles \cup {<<15, 15>>}} \cup {I("pop_d_vpush", x[1], x[2]) : x \in Nibbles \cup {<<15, 15>>}}
  \cup {I("pop_d16_vpush", x[1], x[2]) : x \in Nibbles} \cup {I("pop_wr", x[1], x[2]) : x \in Nibbles}
  \cup {I("pop_d8_fstmfdx", n, 0) : n \in 0..7} \cup {I("pop_d8_vpush", n, 0) : n \in 0..7} \cup {I("pop_wr10", n, 0) : n \in 0..5}
\* short sequences: one- and two-byte instructions, ULEB128 operands of 1, 2, 3 bytes, each followed by
\* opcodes below and above 0x80
SeqAlphabet ==
  {I("vsp_add", 4, 0), I("vsp_sub", 256, 0), I("pop_mask12", 1032, 0), I("vsp_reg", 7, 0), Finish1, I("pop_mask4", 5, 0),
   IU(<<5>>), IU(<<127>>), IU(<<1, 1>>), IU(<<1, 2, 3>>), I("pop_d_vpush", 1, 1), I("spare", 202, 0 - 1)}

(* ------------------------- (A) abstract entries ------------------------ *)
\* aux: generic -> personality displacement; table1/2 -> least number of additional words;
\*      corrupt kinds -> the offending top byte
E(kind, disp, ins, aux) == [kind |-> kind, disp |-> disp, ins |-> ins, aux |-> aux]
CompactKinds == {"inline", "table0", "table1", "table2"}
CorruptKinds == {"c_word0", "c_inline_rsv", "c_inline_idx", "c_table_rsv", "c_table_idx"}
TableKinds == {"table0", "table1", "table2", "generic", "c_table_rsv", "c_table_idx"}
HasCode(k) == k \in CompactKinds \cup CorruptKinds
MoreWords(e) == IF e.kind \in {"table1", "table2"}
                THEN Max({IF Len(EncSeq(e.ins)) <= 2 THEN 0 ELSE (Len(EncSeq(e.ins)) - 2 + 3) \div 4, e.aux}) ELSE 0
Capacity(e) == IF e.kind \in {"table1", "table2"} THEN 2 + 4 * MoreWords(e) ELSE 3
\* unused trailing bytes are `finish` instructions (EHABI 10.3 remark c)
Padded(e) == IF HasCode(e.kind) THEN [e EXCEPT !.ins = @ \o [k \in 1..(Capacity(e) - Len(EncSeq(@))) |-> Finish1]] ELSE e
KindClass(k) == IF k \in CorruptKinds THEN "corrupt" ELSE k
Container(ins) == LET n == Len(EncSeq(ins)) IN IF n <= 3 THEN "inline" ELSE IF n % 2 = 0 THEN "table1" ELSE "table2"

(* ------------------------- (B) sections, layout ------------------------ *)
TabLen(e) == CASE e.kind \in {"table0", "c_table_rsv", "c_table_idx"} -> 8
               [] e.kind \in {"table1", "table2"} -> 4 + 4 * MoreWords(e) + 4
               [] e.kind = "generic" -> 12
               [] OTHER -> 0
RECURSIVE SumTab(_, _)
SumTab(es, k) == IF k = 0 THEN 0 ELSE TabLen(es[k]) + SumTab(es, k - 1)
TextLen == 16
LeadIn == <<255, 255, 255, 255>>                                \* .ARM.extab does not start with an entry
D0 == DataOff([Im0 EXCEPT !.cls = 32])
XLen(es) == 8 * Len(es)
TLen(es) == Len(LeadIn) + SumTab(es, Len(es))
XOff(es, xfirst) == D0 + TextLen + (IF xfirst THEN 0 ELSE TLen(es))
TOff(es, xfirst) == D0 + TextLen + (IF xfirst THEN XLen(es) ELSE 0)
Place(es, xfirst, i) == XOff(es, xfirst) + 8 * (i - 1)
TabAt(es, xfirst, i) == TOff(es, xfirst) + Len(LeadIn) + SumTab(es, i - 1)

CodeOf(e) == EncSeq(e.ins)
IndexWords(es, xfirst, i) ==
  LET e == es[i]   c == CodeOf(e)
      w0 == IF e.kind = "c_word0" THEN [PrelField(e.disp) EXCEPT ![4] = @ + 128] ELSE PrelField(e.disp)
      w1 == CASE e.kind = "cantunwind" -> <<1, 0, 0, 0>>
              [] e.kind \in {"inline", "c_word0"} -> WordOfBytes(128, c[1], c[2], c[3])
              [] e.kind \in {"c_inline_rsv", "c_inline_idx"} -> WordOfBytes(e.aux, c[1], c[2], c[3])
              [] OTHER -> PrelField(TabAt(es, xfirst, i) - (Place(es, xfirst, i) + 4))
  IN <<w0, w1>>
TableWords(e, tabat) ==
  LET c == CodeOf(e) IN
  CASE e.kind = "table0" -> <<WordOfBytes(128, c[1], c[2], c[3]), <<0, 0, 0, 0>>>>
    [] e.kind \in {"c_table_rsv", "c_table_idx"} -> <<WordOfBytes(e.aux, c[1], c[2], c[3]), <<0, 0, 0, 0>>>>
    [] e.kind \in {"table1", "table2"} ->
         <<WordOfBytes(IF e.kind = "table1" THEN 129 ELSE 130, MoreWords(e), c[1], c[2])>>
         \o [k \in 1..MoreWords(e) |-> WordOfBytes(c[4 * k - 1], c[4 * k], c[4 * k + 1], c[4 * k + 2])]
         \o <<<<0, 0, 0, 0>>>>                                                   \* no descriptors
    [] e.kind = "generic" -> <<PrelField(e.aux), <<4, 3, 2, 1>>, <<0, 0, 0, 0>>>>   \* personality-specific data follows
    [] OTHER -> <<>>
WordBytes(w, le) == IF le THEN w ELSE Rev(w)
XBytes(es, xfirst, le) == Flat([i \in 1..Len(es) |-> LET ws == IndexWords(es, xfirst, i) IN WordBytes(ws[1], le) \o WordBytes(ws[2], le)])
TBytes(es, xfirst, le) ==
  LeadIn \o Flat([i \in 1..Len(es) |-> LET ws == TableWords(es[i], TabAt(es, xfirst, i)) IN Flat([k \in 1..Len(ws) |-> WordBytes(ws[k], le)])])
Layout(es, xfirst, le) == [xoff |-> XOff(es, xfirst), toff |-> TOff(es, xfirst), xb |-> XBytes(es, xfirst, le), tb |-> TBytes(es, xfirst, le)]

\* what a correct reader reports, from the abstract table alone
FnSum(es, xfirst, i) == Place(es, xfirst, i) + es[i].disp
Expected(es, xfirst) ==
  [i \in 1..Len(es) |->
     LET e == es[i]   T == TabAt(es, xfirst, i) IN
     IF e.kind \in CorruptKinds THEN [kind |-> "corrupt", fn |-> <<>>, pers |-> <<>>, code |-> <<>>, tab |-> 0, ins |-> <<>>]
     ELSE [kind |-> e.kind, fn |-> PrelArith(e.disp, Place(es, xfirst, i), 4),
           pers |-> CASE e.kind = "generic" -> PrelArith(e.aux, T, 4)
                      [] e.kind = "table1" -> LEn(1, 4) [] e.kind = "table2" -> LEn(2, 4)
                      [] e.kind \in {"inline", "table0"} -> LEn(0, 4) [] OTHER -> <<>>,
           code |-> IF e.kind \in CompactKinds THEN CodeOf(e) ELSE <<>>,
           tab |-> IF e.kind \in TableKinds THEN T ELSE 0,
           ins |-> IF e.kind \in CompactKinds THEN e.ins ELSE <<>>]]

\* EHABI 5 / 6.2 / 6.3 as one decision table: the kind of an entry from its two index words and, when the
\* second one points into the table, the first table word (tw = <<>> otherwise); `more` = additional words
Kd(k, m) == [kind |-> k, more |-> m]
Classify(w0, w1, tw) ==
  IF w0[4] >= 128 THEN Kd("corrupt", 0)                                   \* bit 31 of the function offset word
  ELSE IF w1 = <<1, 0, 0, 0>> THEN Kd("cantunwind", 0)                    \* EXIDX_CANTUNWIND
  ELSE IF w1[4] >= 128 THEN (IF w1[4] = 128 THEN Kd("inline", 0) ELSE Kd("corrupt", 0))
  ELSE LET t == tw[1] IN
       IF t[4] < 128 THEN Kd("generic", 0)
       ELSE IF (t[4] % 128) \div 16 # 0 THEN Kd("corrupt", 0)
       ELSE CASE t[4] % 16 = 0 -> Kd("table0", 0)
              [] t[4] % 16 = 1 -> Kd("table1", t[3])
              [] t[4] % 16 = 2 -> Kd("table2", t[3])
              [] OTHER -> Kd("corrupt", 0)

(* --------------------------- (C) the reader ---------------------------- *)
ByteAt(off) == IF off >= lay.xoff /\ off < lay.xoff + Len(lay.xb) THEN lay.xb[off - lay.xoff + 1] ELSE lay.tb[off - lay.toff + 1]
WordAt(off) == LET bs == <<ByteAt(off), ByteAt(off + 1), ByteAt(off + 2), ByteAt(off + 3)>> IN IF env.le THEN bs ELSE Rev(bs)
Rd0 == [i |-> 1, st |-> "index", fn |-> <<>>, kind |-> "", pers |-> <<>>, T |-> 0, more |-> 0, k |-> 0, code |-> <<>>, pos |-> 0,
        ub |-> <<>>, ins |-> <<>>, out |-> <<>>]
N0 == Len(ents)
RPlace == lay.xoff + 8 * (rd.i - 1)
Obs(kind, fn, pers, code, tab, ins) == [kind |-> kind, fn |-> fn, pers |-> pers, code |-> code, tab |-> tab, ins |-> ins]
CorruptObs == Obs("corrupt", <<>>, <<>>, <<>>, 0, <<>>)
Deliver(o) == [rd EXCEPT !.out = Append(@, o), !.i = @ + 1, !.st = "index", !.code = <<>>, !.ins = <<>>, !.pos = 0, !.T = 0,
                         !.more = 0, !.k = 0, !.ub = <<>>, !.fn = <<>>, !.pers = <<>>, !.kind = ""]
Same == UNCHANGED <<Mode, env, ents, cur, phase, lay>>

ReadIndexEntry ==
  /\ phase = "read" /\ rd.st = "index" /\ rd.i <= N0
  /\ LET w0 == WordAt(RPlace)   w1 == WordAt(RPlace + 4)   fn == Prel31(w0, RPlace, 4) IN
     rd' = IF w0[4] >= 128 THEN Deliver(CorruptObs)                                     \* bit 31 of the first word must be clear
           ELSE IF w1 = <<1, 0, 0, 0>> THEN Deliver(Obs("cantunwind", fn, <<>>, <<>>, 0, <<>>))      \* EXIDX_CANTUNWIND
           ELSE IF w1[4] < 128 THEN [rd EXCEPT !.st = "table", !.fn = fn, !.T = NatOf(Prel31(w1, RPlace + 4, 4))]
           ELSE IF w1[4] # 128 THEN Deliver(CorruptObs)                                  \* inline: bits 24-30 must be zero (index 0 only)
           ELSE [rd EXCEPT !.st = "decode", !.fn = fn, !.kind = "inline", !.pers = LEn(0, 4), !.code = <<w1[3], w1[2], w1[1]>>]
  /\ Same
ReadTableEntry ==
  /\ phase = "read" /\ rd.st = "table"
  /\ LET w == WordAt(rd.T)   idx == w[4] % 16 IN
     rd' = IF w[4] < 128 THEN Deliver(Obs("generic", rd.fn, Prel31(w, rd.T, 4), <<>>, rd.T, <<>>))
           ELSE IF (w[4] % 128) \div 16 # 0 THEN Deliver(CorruptObs)                     \* bits 28-30 reserved
           ELSE IF idx = 0 THEN [rd EXCEPT !.st = "decode", !.kind = "table0", !.pers = LEn(0, 4), !.code = <<w[3], w[2], w[1]>>]
           ELSE IF idx \in {1, 2} THEN [rd EXCEPT !.st = "words", !.kind = IF idx = 1 THEN "table1" ELSE "table2",
                                                  !.pers = LEn(idx, 4), !.more = w[3], !.k = 0, !.code = <<w[2], w[1]>>]
           ELSE Deliver(CorruptObs)                                                      \* indices 3-15 reserved
  /\ Same
ReadMoreWord ==
  /\ phase = "read" /\ rd.st = "words" /\ rd.k < rd.more
  /\ LET w == WordAt(rd.T + 4 + 4 * rd.k) IN rd' = [rd EXCEPT !.k = @ + 1, !.code = @ \o <<w[4], w[3], w[2], w[1]>>]
  /\ Same
EndWords ==
  /\ phase = "read" /\ rd.st = "words" /\ rd.k = rd.more
  /\ rd' = [rd EXCEPT !.st = "decode"]
  /\ Same
DecodeInstruction ==
  /\ phase = "read" /\ rd.st = "decode" /\ rd.pos < Len(rd.code)
  /\ rd' = IF rd.code[rd.pos + 1] = 178 THEN [rd EXCEPT !.st = "uleb", !.pos = @ + 1, !.ub = <<>>]
           ELSE LET r == DecAt(rd.code, rd.pos) IN [rd EXCEPT !.pos = @ + r.used, !.ins = Append(@, r.i)]
  /\ Same
\* the ULEB128 loop: take bytes while the byte just taken has its continuation bit set
DecodeUlebByte ==
  /\ phase = "read" /\ rd.st = "uleb" /\ rd.pos < Len(rd.code)
  /\ LET b == rd.code[rd.pos + 1]   g == Append(rd.ub, b % 128) IN
     rd' = IF b >= 128 THEN [rd EXCEPT !.pos = @ + 1, !.ub = g]
           ELSE [rd EXCEPT !.pos = @ + 1, !.ub = <<>>, !.st = "decode", !.ins = Append(@, IU(g))]
  /\ Same
EndEntry ==
  /\ phase = "read" /\ rd.st = "decode" /\ rd.pos = Len(rd.code)
  /\ rd' = Deliver(Obs(rd.kind, rd.fn, rd.pers, rd.code, rd.T, rd.ins))
  /\ Same
EndTable ==
  /\ phase = "read" /\ rd.st = "index" /\ rd.i = N0 + 1
  /\ phase' = "done"
  /\ UNCHANGED <<Mode, env, ents, cur, lay, rd>>

(* ---------------------------- (B) the writer --------------------------- *)
PopFp == I("pop_mask12", 128, 0)                        \* pop {r11}
Code3 == <<I("vsp_reg", 7, 0), PopFp>>                  \* 0x97 0x80 0x80 : fills an inline entry
KindAlphabet ==
  {E("cantunwind", SmallDisp, <<>>, 0), E("inline", SmallDisp, Code3, 0), E("table0", SmallDisp, <<I("vsp_add", 8, 0)>>, 0),
   E("table1", SmallDisp, <<PopFp>>, 0), E("table1", SmallDisp, <<PopFp, I("vsp_sub", 12, 0), I("pop_d_vpush", 8, 3)>>, 0),
   E("table2", SmallDisp, <<I("pop_r4_n_lr", 3, 0), IU(<<1, 1>>), I("vsp_reg", 11, 0)>>, 2), E("generic", SmallDisp, <<>>, 0 - 4096),
   E("c_word0", SmallDisp, Code3, 0), E("c_inline_rsv", SmallDisp, Code3, 144), E("c_inline_idx", SmallDisp, Code3, 131),
   E("c_table_rsv", SmallDisp, Code3, 161), E("c_table_idx", SmallDisp, Code3, 131), E("c_table_idx", SmallDisp, Code3, 143)}
PrelSet ==
  {E(k, d, IF k = "cantunwind" THEN <<>> ELSE <<Finish1>>, 0) : k \in {"cantunwind", "inline", "table1"}, d \in DispClasses}
  \cup {E("generic", SmallDisp, <<>>, d) : d \in DispClasses}
OpsSet == {E(Container(<<i>>), SmallDisp, <<i>>, 0) : i \in AllInstr}
Envs == {[le |-> l, xfirst |-> x] : l \in BOOLEAN, x \in BOOLEAN}

Init ==
  /\ Mode \in Modes /\ rd = Rd0 /\ phase = "build" /\ lay = [xoff |-> 0, toff |-> 0, xb |-> <<>>, tb |-> <<>>] /\ cur = <<>>
  /\ CASE Mode = "prel" -> \E v \in Envs, e \in PrelSet : env = v /\ ents = <<Padded(e)>>
       [] Mode = "ops" -> \E l \in BOOLEAN, e \in OpsSet : env = [le |-> l, xfirst |-> l] /\ ents = <<Padded(e)>>
       [] Mode = "kinds" -> \E v \in Envs : env = v /\ ents = <<>>
       [] Mode = "seqs" -> \E l \in BOOLEAN : env = [le |-> l, xfirst |-> ~l] /\ ents = <<>>
AddEntry(e) ==
  /\ phase = "build" /\ Mode = "kinds" /\ Len(ents) < MaxEntries
  /\ ents' = Append(ents, Padded(e))
  /\ UNCHANGED <<Mode, env, cur, phase, lay, rd>>
AddInstruction(i) ==
  /\ phase = "build" /\ Mode = "seqs" /\ Len(cur) < MaxSeq
  /\ cur' = Append(cur, i)
  /\ UNCHANGED <<Mode, env, ents, phase, lay, rd>>
Finish ==
  /\ phase = "build"
  /\ (Mode = "seqs" => cur # <<>>) /\ (Mode # "seqs" => ents # <<>>)
  /\ LET es == IF Mode = "seqs" THEN <<Padded(E(Container(cur), SmallDisp, cur, 0))>> ELSE ents IN
     /\ ents' = es
     /\ lay' = Layout(es, env.xfirst, env.le)
  /\ phase' = "read"
  /\ UNCHANGED <<Mode, env, cur, rd>>
Next ==
  \/ (\E e \in KindAlphabet : AddEntry(e)) \/ (\E i \in SeqAlphabet : AddInstruction(i)) \/ Finish
  \/ ReadIndexEntry \/ ReadTableEntry \/ ReadMoreWord \/ EndWords \/ DecodeInstruction \/ DecodeUlebByte \/ EndEntry \/ EndTable
Spec == Init /\ [][Next]_vars

(* ------------------------- the ELF container --------------------------- *)
DotText == <<46, 116, 101, 120, 116>>
DotExidx == <<46, 65, 82, 77, 46, 101, 120, 105, 100, 120>>      \* ".ARM.exidx"
DotExtab == <<46, 65, 82, 77, 46, 101, 120, 116, 97, 98>>        \* ".ARM.extab"
\* AAELF32: SHT_ARM_EXIDX = 0x70000001, flags SHF_ALLOC + SHF_LINK_ORDER (0x82), sh_link = the text section (index 1);
\* .ARM.extab is SHT_PROGBITS, SHF_ALLOC.  sh_addr = sh_offset for both (see header).
ExidxSec == Sec(DotExidx, W(<<1, 0, 0, 112>>), N(130), N(lay.xoff), lay.xb, N(Len(lay.xb)), N(1), Z, N(4), Z)
ExtabSec == Sec(DotExtab, N(1), N(2), N(lay.toff), lay.tb, N(Len(lay.tb)), Z, Z, N(4), Z)
EhImage ==
  [Im0 EXCEPT !.cls = 32, !.le = env.le, !.machine = 40,
              !.secs = << Sec(DotText, N(1), N(6), N(D0), Rep(0, TextLen), N(TextLen), Z, Z, N(4), Z) >>
                       \o (IF env.xfirst THEN <<ExidxSec, ExtabSec>> ELSE <<ExtabSec, ExidxSec>>)]
XIndex == IF env.xfirst THEN 2 ELSE 3

(* ------------------------------ emission ------------------------------- *)
EhView ==
  LET ex == Expected(ents, env.xfirst) IN
  [i \in 1..Len(ents) |->
     LET e == ents[i]   x == ex[i]   T == TabAt(ents, env.xfirst, i)   pl == Place(ents, env.xfirst, i) IN
     [kind |-> x.kind, wkind |-> e.kind, place |-> pl,
      fn32 |-> W(PrelArith(e.disp, pl, 4)), fn64 |-> W(PrelArith(e.disp, pl, 8)),
      pers32 |-> W(IF e.kind = "generic" THEN PrelArith(e.aux, T, 4) ELSE x.pers),
      pers64 |-> W(IF e.kind = "generic" THEN PrelArith(e.aux, T, 8) ELSE x.pers),
      code |-> x.code, tab |-> x.tab,
      mn |-> [k \in 1..Len(x.ins) |-> [b |-> EncI(x.ins[k]), m |-> Mn(x.ins[k])]]]]
Emit ==
  phase = "done" =>
    CSVWrite("%1$s", <<ToJson([mode |-> Mode, le |-> env.le, xfirst |-> env.xfirst, n |-> Len(ents),
                               chunks |-> Chunks(EhImage), view |-> EhView])>>, IOEnv.OUT)

(* --------------------------- (D) properties ---------------------------- *)
PrelAgrees ==
  phase # "build" =>
    \A i \in 1..Len(ents) :
      LET e == ents[i]   pl == Place(ents, env.xfirst, i)   w == PrelField(e.disp)   wb == [w EXCEPT ![4] = @ + 128] IN
      /\ Prel31(w, pl, 4) = PrelArith(e.disp, pl, 4) /\ Prel31(w, pl, 8) = PrelArith(e.disp, pl, 8)
      /\ Prel31(wb, pl, 4) = Prel31(w, pl, 4) /\ Prel31(wb, pl, 8) = Prel31(w, pl, 8)             \* bit 31 takes no part
      /\ (e.kind = "generic" =>
            LET T == TabAt(ents, env.xfirst, i) IN
            /\ Prel31(PrelField(e.aux), T, 4) = PrelArith(e.aux, T, 4) /\ Prel31(PrelField(e.aux), T, 8) = PrelArith(e.aux, T, 8))
CodeRoundTrip ==
  phase # "build" => \A i \in 1..Len(ents) : HasCode(ents[i].kind) => /\ DecSeq(CodeOf(ents[i]), 0) = ents[i].ins
                                                                     /\ Len(CodeOf(ents[i])) = Capacity(ents[i])
ClassifyAgrees ==
  phase # "build" =>
    \A i \in 1..Len(ents) :
      LET ws == IndexWords(ents, env.xfirst, i)   tw == TableWords(ents[i], TabAt(ents, env.xfirst, i)) IN
      Classify(ws[1], ws[2], tw) = Kd(KindClass(ents[i].kind), MoreWords(ents[i]))
ReaderAgrees == phase = "done" => rd.out = Expected(ents, env.xfirst)
ReaderInBounds ==
  phase = "read" => /\ rd.pos <= Len(rd.code) /\ rd.k <= rd.more
                    /\ (rd.st = "table" => rd.T >= lay.toff /\ rd.T + 4 <= lay.toff + Len(lay.tb))
LayoutConsistent ==
  phase # "build" => /\ SecOff(EhImage, XIndex) = lay.xoff /\ SecOff(EhImage, 5 - XIndex) = lay.toff
                     /\ Len(lay.xb) = 8 * Len(ents) /\ lay.xoff % 4 = 0 /\ lay.toff % 4 = 0
\* EHABI 5: the index table is sorted by function address
Sorted == phase # "build" => \A i \in 1..(Len(ents) - 1) : FnSum(ents, env.xfirst, i) < FnSum(ents, env.xfirst, i + 1)

\* the decode table is a total function on first bytes and the inverse of EncI on complete instructions;
\* every first byte is produced by some instruction of AllInstr
ASSUME \A b \in 0..255 : \A b1 \in {0, 1, 5, 15, 16, 127, 128, 255} :
         LET r == DecAt(<<b, b1, 0>>, 0) IN EncI(r.i) = SubSeq(<<b, b1, 0>>, 1, r.used)
ASSUME {EncI(i)[1] : i \in AllInstr} = 0..255
ASSUME \A i \in AllInstr : DecAt(EncI(i) \o <<176>>, 0) = [i |-> i, used |-> Len(EncI(i))]
ASSUME \A d \in DispClasses : \A p \in {0, 68, 1000} :
         /\ Prel31(PrelField(d), p, 4) = PrelArith(d, p, 4) /\ Prel31(PrelField(d), p, 8) = PrelArith(d, p, 8)
\* the classes do separate the bits in question: each (bit 30, bit 26) combination occurs
ASSUME {<<PrelField(d)[4] \div 64, (PrelField(d)[4] \div 4) % 2>> : d \in DispClasses} = {<<0, 0>>, <<0, 1>>, <<1, 0>>, <<1, 1>>}
=============================================================================
