---------------------------- MODULE LineProgram ----------------------------
(***************************************************************************)
(* C05 - line-number programs execute to the rows the DWARF state machine  *)
(* prescribes.                                                             *)
(*                                                                         *)
(* Transcribed from DWARF5 6.2 (6.2.2 registers, 6.2.4 header incl. the    *)
(* v5 entry-format tables, 6.2.5.1 special opcodes, 6.2.5.2 standard       *)
(* opcodes, 6.2.5.3 extended opcodes), 7.22 (codes), 7.4 (32/64-bit        *)
(* formats), 7.5.1 (unit headers, only to wrap DW_AT_stmt_list), and the   *)
(* v2-v4 header of DWARF4 6.2.4 (string lists).                            *)
(*                                                                         *)
(* (A) the abstract object is a *unit*: header parameters h, directory and *)
(*     file tables t, and a program = sequence of abstract instructions.   *)
(* (B) the writer grows the program one instruction at a time (one named   *)
(*     action per opcode) and the state machine of 6.2.5 runs along:       *)
(*     regs/rows are the registers and the matrix after the program so     *)
(*     far.  Enc gives the bytes of instructions, headers, the section,    *)
(*     and of a minimal .debug_info/.debug_abbrev whose units' top DIEs    *)
(*     carry DW_AT_stmt_list.                                              *)
(* (C) the reader is the byte-level machine DecIns/RunBytes: fetch an      *)
(*     opcode, classify against opcode_base, read operands, extended       *)
(*     opcodes are skipped *by their length*, unknown standard opcodes by  *)
(*     standard_opcode_lengths.                                            *)
(* (D) TLC checks on the spec itself: OpIndexInRange,                      *)
(*     RowFlagsClearedAfterRow, SequenceReset, ConsumesExtent (the byte    *)
(*     machine stops exactly at the end of the encoding, decodes the very  *)
(*     instructions that were written and produces the same rows as the    *)
(*     abstract machine), AddrFits (generator sanity), HeaderGeometry      *)
(*     (unit_length/header_length re-read from the bytes delimit exactly   *)
(*     the program), TablesRoundTrip (v2-4 string lists and v5 entry-      *)
(*     format tables re-read from the bytes by a reader written from the   *)
(*     same sections).                                                     *)
(*                                                                         *)
(* Not asserted (the standard does not fix it / outside well-formedness):  *)
(*   - address overflow beyond the address size, negative line numbers     *)
(*     (writer guards keep programs away from both);                       *)
(*   - known extended opcodes whose length is larger than their operands;  *)
(*   - DW_LNE_set_discriminator before v4, DW_LNE_define_file in v5,       *)
(*     opcodes 10-12 in v2 (never generated);                              *)
(*   - the Python representation of block/data16 values (compared as byte  *)
(*     lists) and of is_stmt (compared as truth value);                    *)
(*   - which instructions leave an entry with state None, and the args of  *)
(*     entries that report derived quantities (special opcodes, advance_pc,*)
(*     const_add_pc): display conventions.  What IS asserted about the     *)
(*     entry list (`ins`): every entry identifies, by (command,            *)
(*     is_extended), an instruction of the program, in program order (the  *)
(*     entries are a subsequence of the instruction stream); the entries   *)
(*     with a state are exactly the row-emitting instructions; where args  *)
(*     are the instruction's own operands they equal the encoded ones.     *)
(* Every emitted program is closed with DW_LNE_end_sequence (6.2.5.3:      *)
(* every sequence must end with one).                                      *)
(*                                                                         *)
(* Case classes (spec-computed tags) that isolate deviations seen on the   *)
(* unchanged tree; the expectations below are the standard's in all cases: *)
(*   rows.is_stmt:end_sequence  the row appended by DW_LNE_end_sequence    *)
(*       carries the current is_stmt (6.2.5.3: "appends a row ... using    *)
(*       the current values of the state-machine registers");              *)
(*   rows.address:max_ops>1     header with maximum_operations_per_        *)
(*       instruction > 1 and a program containing advance_pc /             *)
(*       const_add_pc (operation advance, 6.2.5.1) or fixed_advance_pc /   *)
(*       set_address (op_index := 0);                                      *)
(*   decode:unknown_std         a standard opcode >= 13 below opcode_base, *)
(*       skipped through standard_opcode_lengths (6.2.4 item 13);          *)
(*   extent.start:header_gap    header_length larger than the known        *)
(*       fields: the program starts where header_length says (6.2.4        *)
(*       item 5).                                                          *)
(*   *:long_leb                 (no deviation on the unchanged tree) a    *)
(*       LEB128 operand or extended-opcode length padded to 10 and more    *)
(*       bytes (LongPads): 7.6 does not bound the number of groups, the    *)
(*       value is that of the minimal encoding.                            *)
(* Candidate repairs: fixes/C05-*.patch.  With all four applied the check  *)
(* is green on every configuration; no false alarm had to be removed.      *)
(*                                                                         *)
(* .debug_abbrev is the fixed 24-byte literal AbbrevSec (three one-entry   *)
(* tables, documented there); .debug_info is computed by CUEnc.            *)
(***************************************************************************)
EXTENDS Bytes, TLC, Json, CSV, IOUtils

CONSTANTS Headers,    \* set of header-parameter records for mode "prog"
          MaxLen,     \* longest program (instructions), mode "prog"
          Modes,      \* subset of {"prog", "tables", "two"}
          SimMode     \* TRUE: emit only programs of exactly MaxLen instructions (for -simulate)

VARIABLES mode, h, tabs, gap, prog, regs, rows, extra, done
vars == <<mode, h, tabs, gap, prog, regs, rows, extra, done>>

(* ====================================================================== *)
(* (A) header parameters                                                   *)
(* ====================================================================== *)
Hd(id, v, f64, asz, le, ob, lb, lr, mi, mo, dis) ==
  [id |-> id, v |-> v, f64 |-> f64, asz |-> asz, le |-> le, ob |-> ob, lb |-> lb, lr |-> lr,
   mi |-> mi, mo |-> mo, dis |-> dis]

\* version, 64-bit format, address size, little endian, opcode_base, line_base, line_range,
\* minimum_instruction_length, maximum_operations_per_instruction (v >= 4), default_is_stmt
H1  == Hd("h1",  2, FALSE, 4, TRUE,  10,   -5,  14, 1, 1, TRUE)
H2  == Hd("h2",  3, FALSE, 4, FALSE, 13,   -5,  14, 4, 1, TRUE)
H3  == Hd("h3",  3, TRUE,  8, TRUE,  13,   -3,   9, 1, 1, FALSE)   \* 256 - opcode_base divisible by line_range
H4  == Hd("h4",  4, FALSE, 8, TRUE,  13,   -5,  14, 1, 1, TRUE)
H5  == Hd("h5",  4, FALSE, 4, TRUE,  13,   -5,  14, 4, 4, TRUE)
H6  == Hd("h6",  4, TRUE,  8, FALSE, 14, -128, 255, 1, 3, FALSE)
H7  == Hd("h7",  4, FALSE, 4, TRUE,   1,    0,   1, 1, 1, TRUE)
H8  == Hd("h8",  4, FALSE, 8, TRUE,   4,  127,  14, 2, 1, TRUE)
H9  == Hd("h9",  5, FALSE, 8, TRUE,  13,   -5,  14, 1, 1, TRUE)
H10 == Hd("h10", 5, TRUE,  4, FALSE, 255,  -1,   4, 4, 2, FALSE)
H11 == Hd("h11", 5, FALSE, 4, TRUE,  14,   -5,  14, 1, 4, TRUE)
H12 == Hd("h12", 3, FALSE, 8, FALSE, 10,    0, 255, 2, 1, FALSE)
\* thorough only
H13 == Hd("h13", 5, TRUE,  8, TRUE,  13,  -10,  20, 2, 8, TRUE)
H14 == Hd("h14", 4, FALSE, 4, FALSE, 20,   -5,  14, 1, 1, TRUE)
H15 == Hd("h15", 2, FALSE, 8, TRUE,   5,   -1,   3, 1, 1, FALSE)
H16 == Hd("h16", 5, FALSE, 8, FALSE, 10,   -5,  14, 3, 255, TRUE)
H17 == Hd("h17", 4, TRUE,  4, TRUE,  13,    1, 100, 255, 2, TRUE)
H18 == Hd("h18", 3, TRUE,  4, FALSE, 255, -128,  1, 1, 1, TRUE)

QuickHeaders == {H1, H2, H3, H4, H5, H6, H7, H8, H9, H10, H11, H12}
ThoroughHeaders == QuickHeaders \cup {H13, H14, H15, H16, H17, H18}
Len3Headers == {H2, H5, H6, H9, H11}
\* simulation: header parameters drawn from a product (filtered for version constraints: no 64-bit format and
\* no opcodes above 9 in v2, maximum_operations_per_instruction only from v4)
SimHeaders ==
  {hh \in {Hd("r", v, f64, asz, le, ob, lb, lr, mi, mo, dis) :
              v \in 2..5, f64 \in BOOLEAN, asz \in {4, 8}, le \in BOOLEAN, ob \in {1, 4, 10, 13, 14, 255},
              lb \in {-128, -5, 0, 3}, lr \in {1, 3, 9, 14, 255}, mi \in {1, 4}, mo \in {1, 4}, dis \in BOOLEAN} :
     /\ (hh.v = 2 => (~hh.f64 /\ hh.ob <= 10))
     /\ (hh.v < 4 => hh.mo = 1)}

\* sweep (thorough): every combination of the arithmetic parameters x every single instruction; the format
\* parameters ride along (derived, so that all of them occur)
SweepHeaders ==
  {hh \in {Hd("s", v, v >= 3 /\ dis, IF mi = 1 THEN 8 ELSE 4, (mo = 1) = dis, ob, lb, lr, mi, mo, dis) :
              v \in 2..5, ob \in {1, 4, 10, 13, 14, 255}, lb \in {-128, -5, 0, 3}, lr \in {1, 3, 9, 14, 255},
              mi \in {1, 4}, mo \in {1, 4}, dis \in BOOLEAN} :
     /\ (hh.v = 2 => (~hh.f64 /\ hh.ob <= 10))
     /\ (hh.v < 4 => hh.mo = 1)}

OSz(hh) == IF hh.f64 THEN 8 ELSE 4

\* standard_opcode_lengths (DWARF5 6.2.4 item 13, 6.2.5.2): operands of opcodes 1..12;
\* opcodes >= 13 are unknown to every DWARF version: the producer declares UnkLen(op) LEB operands
KnownLen == <<0, 1, 1, 1, 1, 0, 0, 0, 1, 0, 0, 1>>
UnkLen(op) == (op % 3)
StdLens(hh) == [i \in 1..(hh.ob - 1) |-> IF i <= 12 THEN KnownLen[i] ELSE UnkLen(i)]

(* ====================================================================== *)
(* instructions                                                            *)
(* ====================================================================== *)
\* k kind; a Small operand (opcode for special/unknown); pad: extra LEB continuation groups of
\* the operand (standard) or of the length (extended); w byte/digit string; b Small operand list
I(k, a, pad, w, b) == [k |-> k, a |-> a, pad |-> pad, w |-> w, b |-> b]
I0(k) == I(k, 0, 0, <<>>, <<>>)
I1(k, a) == I(k, a, 0, <<>>, <<>>)

\* DWARF5 7.22 table 7.25 (standard opcodes) and 7.26 (extended opcodes)
StdCode == [copy |-> 1, advance_pc |-> 2, advance_line |-> 3, set_file |-> 4, set_column |-> 5,
            negate_stmt |-> 6, set_basic_block |-> 7, const_add_pc |-> 8, fixed_advance_pc |-> 9,
            set_prologue_end |-> 10, set_epilogue_begin |-> 11, set_isa |-> 12]
StdName == <<"copy", "advance_pc", "advance_line", "set_file", "set_column", "negate_stmt", "set_basic_block",
             "const_add_pc", "fixed_advance_pc", "set_prologue_end", "set_epilogue_begin", "set_isa">>
NoOperandStd == {"copy", "negate_stmt", "set_basic_block", "const_add_pc", "set_prologue_end", "set_epilogue_begin"}
UlebStd == {"advance_pc", "set_file", "set_column", "set_isa"}

RECURSIVE FlatMap(_, _)
FlatMap(F(_), s) == IF s = <<>> THEN <<>> ELSE F(Head(s)) \o FlatMap(F, Tail(s))

\* balanced concatenation (a linear recursion over a 130-entry table overflows the Java stack)
RECURSIVE FlatB(_)
FlatB(ss) == IF Len(ss) = 0 THEN <<>> ELSE IF Len(ss) = 1 THEN ss[1]
             ELSE LET m == Len(ss) \div 2 IN FlatB(SubSeq(ss, 1, m)) \o FlatB(SubSeq(ss, m + 1, Len(ss)))

Ext(x, body) == <<0>> \o UlebPadded(Len(body), x.pad) \o body

Enc(hh, x) ==
  CASE x.k = "special" -> <<x.a>>
    [] x.k \in NoOperandStd -> <<StdCode[x.k]>>
    [] x.k \in UlebStd -> <<StdCode[x.k]>> \o UlebPadded(x.a, x.pad)
    [] x.k = "advance_line" -> <<3>> \o SlebPadded(x.a, x.pad)
    [] x.k = "fixed_advance_pc" -> <<9>> \o Fix(N(x.a), 2, hh.le)
    [] x.k = "unknown_std" -> <<x.a>> \o FlatMap(UlebOfNat, x.b)
    [] x.k = "end_sequence" -> Ext(x, <<1>>)
    [] x.k = "set_address" -> Ext(x, <<2>> \o Fix(W(x.w), hh.asz, hh.le))
    [] x.k = "define_file" -> Ext(x, <<3>> \o x.w \o <<0>> \o FlatMap(UlebOfNat, x.b))
    [] x.k = "set_discriminator" -> Ext(x, <<4>> \o UlebOfNat(x.a))
    [] x.k = "unknown_ext" -> Ext(x, <<x.a>> \o x.w)

RECURSIVE EncProg(_, _)
EncProg(hh, p) == IF p = <<>> THEN <<>> ELSE Enc(hh, Head(p)) \o EncProg(hh, Tail(p))

(* ====================================================================== *)
(* the state machine, DWARF5 6.2.2 / 6.2.5                                 *)
(* ====================================================================== *)
AddrZero == DZero(8)
R0(hh) == [address |-> AddrZero, op_index |-> 0, file |-> 1, line |-> 1, column |-> 0, is_stmt |-> hh.dis,
           basic_block |-> FALSE, end_sequence |-> FALSE, prologue_end |-> FALSE, epilogue_begin |-> FALSE,
           isa |-> 0, discriminator |-> 0]

\* 6.2.5.1: address += min_inst * ((op_index + adv) / max_ops); op_index = (op_index + adv) % max_ops
AdvOp(hh, r, adv) == [r EXCEPT !.address = DAdd(@, LEn(hh.mi * ((r.op_index + adv) \div hh.mo), 8)),
                               !.op_index = ((r.op_index + adv) % hh.mo)]
\* "append a row", then 6.2.5.1 steps 4-7 / DW_LNS_copy
AfterRow(r) == [r EXCEPT !.discriminator = 0, !.basic_block = FALSE, !.prologue_end = FALSE, !.epilogue_begin = FALSE]
Res(r, out) == [r |-> r, out |-> out]

ExSpecial(hh, r, op) ==
  LET adj == op - hh.ob
      r1 == AdvOp(hh, r, adj \div hh.lr)
      r2 == [r1 EXCEPT !.line = @ + hh.lb + (adj % hh.lr)]
  IN Res(AfterRow(r2), <<r2>>)
ExCopy(r) == Res(AfterRow(r), <<r>>)
ExAdvancePc(hh, r, n) == Res(AdvOp(hh, r, n), <<>>)
ExAdvanceLine(r, d) == Res([r EXCEPT !.line = @ + d], <<>>)
ExSetFile(r, n) == Res([r EXCEPT !.file = n], <<>>)
ExSetColumn(r, n) == Res([r EXCEPT !.column = n], <<>>)
ExNegateStmt(r) == Res([r EXCEPT !.is_stmt = ~@], <<>>)
ExSetBasicBlock(r) == Res([r EXCEPT !.basic_block = TRUE], <<>>)
ExConstAddPc(hh, r) == Res(AdvOp(hh, r, (255 - hh.ob) \div hh.lr), <<>>)
ExFixedAdvancePc(r, n) == Res([r EXCEPT !.address = DAdd(@, LEn(n, 8)), !.op_index = 0], <<>>)
ExSetPrologueEnd(r) == Res([r EXCEPT !.prologue_end = TRUE], <<>>)
ExSetEpilogueBegin(r) == Res([r EXCEPT !.epilogue_begin = TRUE], <<>>)
ExSetIsa(r, n) == Res([r EXCEPT !.isa = n], <<>>)
ExUnknownStd(r) == Res(r, <<>>)                      \* operands skipped, no effect
ExEndSequence(hh, r) == Res(R0(hh), <<[r EXCEPT !.end_sequence = TRUE]>>)
ExSetAddress(r, a) == Res([r EXCEPT !.address = a, !.op_index = 0], <<>>)
ExDefineFile(r) == Res(r, <<>>)                      \* extends the file table, registers unchanged
ExSetDiscriminator(r, n) == Res([r EXCEPT !.discriminator = n], <<>>)
ExUnknownExt(r) == Res(r, <<>>)                      \* skipped by length

Exec(hh, r, x) ==
  CASE x.k = "special" -> ExSpecial(hh, r, x.a)
    [] x.k = "copy" -> ExCopy(r)
    [] x.k = "advance_pc" -> ExAdvancePc(hh, r, x.a)
    [] x.k = "advance_line" -> ExAdvanceLine(r, x.a)
    [] x.k = "set_file" -> ExSetFile(r, x.a)
    [] x.k = "set_column" -> ExSetColumn(r, x.a)
    [] x.k = "negate_stmt" -> ExNegateStmt(r)
    [] x.k = "set_basic_block" -> ExSetBasicBlock(r)
    [] x.k = "const_add_pc" -> ExConstAddPc(hh, r)
    [] x.k = "fixed_advance_pc" -> ExFixedAdvancePc(r, x.a)
    [] x.k = "set_prologue_end" -> ExSetPrologueEnd(r)
    [] x.k = "set_epilogue_begin" -> ExSetEpilogueBegin(r)
    [] x.k = "set_isa" -> ExSetIsa(r, x.a)
    [] x.k = "unknown_std" -> ExUnknownStd(r)
    [] x.k = "end_sequence" -> ExEndSequence(hh, r)
    [] x.k = "set_address" -> ExSetAddress(r, x.w)
    [] x.k = "define_file" -> ExDefineFile(r)
    [] x.k = "set_discriminator" -> ExSetDiscriminator(r, x.a)
    [] x.k = "unknown_ext" -> ExUnknownExt(r)

\* declarative run over a whole program: <<final registers, rows>>
\* (TLC evaluates LET definitions and operator arguments lazily: the conjuncts in the IF force the
\* registers and the accumulated rows at every step, otherwise a 40-instruction program builds a chain of
\* 40 nested thunks and overflows the Java stack)
RECURSIVE RunFrom(_, _, _, _)
RunFrom(hh, r, p, acc) == IF p = <<>> THEN Res(r, acc)
                          ELSE LET e == Exec(hh, r, Head(p))   acc2 == acc \o e.out IN
                               IF e.r.op_index >= 0 /\ Len(acc2) >= 0 THEN RunFrom(hh, e.r, Tail(p), acc2)
                               ELSE Res(r, acc)
RunProg(hh, p) == RunFrom(hh, R0(hh), p, <<>>)

ES == I0("end_sequence")
Closed(p) == IF p = <<>> \/ p[Len(p)].k = "end_sequence" THEN p ELSE Append(p, ES)

(* ====================================================================== *)
(* (C) the reader: byte-level machine                                      *)
(* ====================================================================== *)
\* a LEB operand is looked for in a LebWindow-byte window (operands written here are <= 2 + Max(LongPads)
\* bytes; the window only bounds the cost of LebDec, which scans its whole argument)
LebWindow == 20
Rest(bs, pos) == SubSeq(bs, pos + 1, IF pos + LebWindow < Len(bs) THEN pos + LebWindow ELSE Len(bs))
\* values are Small: a LEB operand of more than 4 groups is flagged `big` (never written by the writer;
\* the trace specification skips such programs) unless the extra groups are padding.  DWARF 7.6 puts no
\* bound on the number of groups: an unsigned value may be followed by any number of zero groups, a signed
\* one by any number of copies of its sign (0 / 127) - the number denoted is the same (LebDec: base-128
\* number of ALL groups, sign from bit 6 of the LAST group), in particular when the encoding is longer than
\* the 10 bytes a 64-bit value needs.
UlebAt(bs, pos) == LET d == LebDec(Rest(bs, pos), FALSE)
                       big == d.used > 4 /\ \E i \in 5..d.used : d.val.g[i] # 0
                       v == IF big \/ ~d.ok THEN 0 ELSE GroupsNat(SubSeq(d.val.g, 1, IF d.used > 4 THEN 4 ELSE d.used)) IN
                   [v |-> v, used |-> d.used, pad |-> d.used - Len(UlebOfNat(v)), big |-> big \/ ~d.ok]
SlebAt(bs, pos) == LET d == LebDec(Rest(bs, pos), TRUE)
                       f == IF d.ok /\ d.used > 4 /\ d.val.g[4] >= 64 THEN 127 ELSE 0       \* sign of the low 4 groups
                       big == ~d.ok \/ (d.used > 4 /\ \E i \in 5..d.used : d.val.g[i] # f)
                       v == IF big THEN 0 ELSE GroupsInt(SubSeq(d.val.g, 1, IF d.used > 4 THEN 4 ELSE d.used), TRUE) IN
                   [v |-> v, used |-> d.used, pad |-> d.used - Len(SlebOfInt(v)), big |-> big]
\* n ULEB operands starting at pos: <<values, next pos>>
RECURSIVE UlebsAt(_, _, _, _, _)
UlebsAt(bs, pos, n, acc, big) == IF n = 0 THEN [vals |-> acc, next |-> pos, big |-> big]
                                 ELSE LET u == UlebAt(bs, pos) IN UlebsAt(bs, pos + u.used, n - 1, Append(acc, u.v), big \/ u.big)

\* standard_opcode_lengths as the header declares them (a trace event carries the header's own array)
LensOf(hh) == IF "lens" \in DOMAIN hh THEN hh.lens ELSE StdLens(hh)

\* one fetch-decode step at 0-based offset pos: the instruction and the offset of the next one
DecIns(hh, bs, pos) ==
  LET op == bs[pos + 1] IN
  IF op >= hh.ob THEN [x |-> I1("special", op), next |-> pos + 1, big |-> FALSE]
  ELSE IF op = 0 THEN
    LET l == UlebAt(bs, pos + 1)
        b0 == pos + 1 + l.used            \* offset of the extended opcode byte
        ex == bs[b0 + 1]
        du == UlebAt(bs, b0 + 1)
        x == CASE ex = 1 -> I("end_sequence", 0, l.pad, <<>>, <<>>)
               [] ex = 2 -> LET raw == Slice(bs, b0 + 2, l.v - 1) IN
                            I("set_address", 0, l.pad, DTrunc(IF hh.le THEN raw ELSE Rev(raw), 8), <<>>)
               [] ex = 3 /\ hh.v <= 4 ->
                            LET nm == CStrAt(SubSeq(bs, 1, b0 + l.v), b0 + 1)   us == UlebsAt(bs, b0 + 1 + nm.used, 3, <<>>, FALSE) IN
                            I("define_file", 0, l.pad, nm.s, IF us.big THEN <<0, 0, 0>> ELSE us.vals)
               [] ex = 4 /\ hh.v >= 4 -> I("set_discriminator", du.v, l.pad, <<>>, <<>>)
               [] OTHER -> I("unknown_ext", ex, l.pad, Slice(bs, b0 + 2, l.v - 1), <<>>)
    IN [x |-> x, next |-> b0 + l.v,      \* 6.2.5.3: the length covers opcode + operands
        big |-> l.big \/ l.v = 0 \/ (ex = 4 /\ hh.v >= 4 /\ du.big) \/ (ex = 2 /\ l.v - 1 > 8)]
  ELSE IF op <= 12 THEN
    LET k == StdName[op] IN
    IF k \in NoOperandStd THEN [x |-> I0(k), next |-> pos + 1, big |-> FALSE]
    ELSE IF k \in UlebStd THEN LET u == UlebAt(bs, pos + 1) IN
                               [x |-> I(k, u.v, u.pad, <<>>, <<>>), next |-> pos + 1 + u.used, big |-> u.big]
    ELSE IF k = "advance_line" THEN LET u == SlebAt(bs, pos + 1) IN
                                    [x |-> I(k, u.v, u.pad, <<>>, <<>>), next |-> pos + 1 + u.used, big |-> u.big]
    ELSE [x |-> I1(k, SmallDec(Slice(bs, pos + 2, 2), hh.le, FALSE)), next |-> pos + 3, big |-> FALSE]      \* fixed_advance_pc: uhalf
  ELSE LET us == UlebsAt(bs, pos + 1, LensOf(hh)[op], <<>>, FALSE) IN
       [x |-> I("unknown_std", op, 0, <<>>, us.vals), next |-> us.next, big |-> us.big]

\* run the byte machine over bs: instructions decoded, rows, final cursor
RECURSIVE RunBytes(_, _, _, _, _, _)
RunBytes(hh, bs, pos, r, ins, acc) ==
  IF pos >= Len(bs) THEN [ins |-> ins, rows |-> acc, pos |-> pos, r |-> r]
  ELSE LET d == DecIns(hh, bs, pos)   e == Exec(hh, r, d.x)   ins2 == Append(ins, d.x)   acc2 == acc \o e.out IN
       IF d.next > pos /\ e.r.op_index >= 0 /\ Len(ins2) >= 0 /\ Len(acc2) >= 0      \* progress; forces evaluation
       THEN RunBytes(hh, bs, d.next, e.r, ins2, acc2)
       ELSE [ins |-> ins, rows |-> acc, pos |-> -1, r |-> r]

(* ====================================================================== *)
(* (B) header, tables, sections                                            *)
(* ====================================================================== *)
\* strings as byte strings
S_d == <<47, 100>>                  \* "/d"
S_inc == <<105, 110, 99>>           \* "inc"
S_a == <<97, 46, 99>>               \* "a.c"
S_b == <<98, 46, 104>>              \* "b.h"
S_src == <<105, 110, 116, 32, 120, 59>>   \* "int x;"
MD5a == [i \in 1..16 |-> i * 15]
MD5b == [i \in 1..16 |-> 255 - i]

\* string pools (.debug_line_str, .debug_str): a string's offset is the sum of the earlier ones
LineStrPool == <<<<120>>, S_d, S_a, S_inc, S_b, S_src>>
StrPool == <<S_b, <<121, 121>>, S_inc, S_a, S_d, S_src>>
RECURSIVE PoolBytes(_)
PoolBytes(pool) == IF pool = <<>> THEN <<>> ELSE Head(pool) \o <<0>> \o PoolBytes(Tail(pool))
RECURSIVE PoolOff(_, _)
PoolOff(pool, s) == IF Head(pool) = s THEN 0 ELSE Len(Head(pool)) + 1 + PoolOff(Tail(pool), s)

\* values of v5 entry fields
VStr(s) == [str |-> s]
VBlob(b) == [b |-> b]
\* DW_LNCT codes (DWARF5 table 7.27) and DW_FORM codes (table 7.6) used in entry formats
LNCT_path == 1   LNCT_directory_index == 2   LNCT_timestamp == 3   LNCT_size == 4   LNCT_MD5 == 5
LNCT_LLVM_source == 8193            \* 0x2001, vendor range, known to LLVM producers
F_block == 9   F_data1 == 11   F_data2 == 5   F_data4 == 6   F_data8 == 7   F_string == 8
F_udata == 15   F_strp == 14   F_line_strp == 31   F_data16 == 30

EncVal(hh, form, v) ==
  CASE form = F_string -> v.str \o <<0>>
    [] form = F_line_strp -> Fix(N(PoolOff(LineStrPool, v.str)), OSz(hh), hh.le)
    [] form = F_strp -> Fix(N(PoolOff(StrPool, v.str)), OSz(hh), hh.le)
    [] form = F_udata -> UlebOfNat(v.n)
    [] form = F_data1 -> Fix(v, 1, hh.le)
    [] form = F_data2 -> Fix(v, 2, hh.le)
    [] form = F_data4 -> Fix(v, 4, hh.le)
    [] form = F_data8 -> Fix(v, 8, hh.le)
    [] form = F_data16 -> v.b
    [] form = F_block -> UlebOfNat(Len(v.b)) \o v.b

\* v5 (6.2.4 items 14-21): format count (ubyte), (content type, form) ULEB pairs, count (ULEB), entries
EncFmt(fmt) == <<Len(fmt)>> \o Flat([i \in 1..Len(fmt) |-> UlebOfNat(fmt[i][1]) \o UlebOfNat(fmt[i][2])])
EncEntry(hh, fmt, e) == Flat([i \in 1..Len(fmt) |-> EncVal(hh, fmt[i][2], e[i])])
EncEntries(hh, fmt, es) == UlebOfNat(Len(es)) \o FlatB([i \in 1..Len(es) |-> EncEntry(hh, fmt, es[i])])
\* v2-v4 (DWARF4 6.2.4 items 11-12): NUL-terminated strings ended by an empty one; file entries
\* (name, dir ULEB, mtime ULEB, length ULEB) ended by a 0 byte
EncFile4(f) == f.name \o <<0>> \o UlebOfNat(f.dir) \o UlebOfNat(f.mtime) \o UlebOfNat(f.len)
TabEnc(hh, t) ==
  IF hh.v >= 5
  THEN EncFmt(t.dfmt) \o EncEntries(hh, t.dfmt, t.dirs) \o EncFmt(t.ffmt) \o EncEntries(hh, t.ffmt, t.files)
  ELSE FlatB([i \in 1..Len(t.dirs) |-> t.dirs[i] \o <<0>>]) \o <<0>>
       \o FlatB([i \in 1..Len(t.files) |-> EncFile4(t.files[i])]) \o <<0>>

InitLen(hh, n) == IF hh.f64 THEN <<255, 255, 255, 255>> \o Fix(N(n), 8, hh.le) ELSE Fix(N(n), 4, hh.le)
InitLenSz(hh) == IF hh.f64 THEN 12 ELSE 4

\* gap: bytes between the end of the tables and the first instruction, covered by header_length
\* (6.2.4 item 5: header_length locates the program); value 255 so that a reader that ignored
\* header_length would execute them as special opcodes (or operands)
HdrTail(hh, t, g) ==
  <<hh.mi>> \o (IF hh.v >= 4 THEN <<hh.mo>> ELSE <<>>) \o <<IF hh.dis THEN 1 ELSE 0>> \o LEs(hh.lb, 1)
  \o <<hh.lr, hh.ob>> \o StdLens(hh) \o TabEnc(hh, t) \o Rep(255, g)
HdrFixed(hh) == Fix(N(hh.v), 2, hh.le) \o (IF hh.v >= 5 THEN <<hh.asz, 0>> ELSE <<>>)
\* one unit = [h, t, gap, p]; its geometry relative to the unit's own start
UnitGeom(u) ==
  LET tail == HdrTail(u.h, u.t, u.gap)
      pb == EncProg(u.h, u.p)
      start == InitLenSz(u.h) + Len(HdrFixed(u.h)) + OSz(u.h) + Len(tail)
  IN [tail |-> tail, pb |-> pb, start |-> start, end |-> start + Len(pb)]
UnitEnc(u) ==
  LET g == UnitGeom(u) IN
  InitLen(u.h, g.end - InitLenSz(u.h)) \o HdrFixed(u.h) \o Fix(N(Len(g.tail)), OSz(u.h), u.h.le) \o g.tail \o g.pb

\* .debug_abbrev: three one-entry tables (code 1, DW_TAG_compile_unit 0x11, no children,
\* DW_AT_stmt_list 0x10 with form data4 0x06 / data8 0x07 / sec_offset 0x17), 8 bytes each.
\* DW_AT_stmt_list is class lineptr: data4/data8 in DWARF 2-3 (7.5.4 of DWARF3), sec_offset from v4.
AbbrevSec == <<1, 17, 0, 16, 6, 0, 0, 0,   1, 17, 0, 16, 7, 0, 0, 0,   1, 17, 0, 16, 23, 0, 0, 0>>
AbbrevOff(hh) == IF hh.v >= 4 THEN 16 ELSE IF hh.f64 THEN 8 ELSE 0
\* .debug_info unit (7.5.1.1): v2-4 unit_length, version, debug_abbrev_offset, address_size;
\* v5 unit_length, version, unit_type DW_UT_compile (1), address_size, debug_abbrev_offset; then the DIE
CUEnc(hh, stmt) ==
  LET die == <<1>> \o Fix(N(stmt), OSz(hh), hh.le)
      body == Fix(N(hh.v), 2, hh.le)
              \o (IF hh.v >= 5 THEN <<1, hh.asz>> \o Fix(N(AbbrevOff(hh)), OSz(hh), hh.le)
                  ELSE Fix(N(AbbrevOff(hh)), OSz(hh), hh.le) \o <<hh.asz>>)
              \o die
  IN InitLen(hh, Len(body)) \o body

(* ---------------------------- table variants --------------------------- *)
F4(name, dir, mtime, len) == [name |-> name, dir |-> dir, mtime |-> mtime, len |-> len]
T4(dirs, files) == [dirs |-> dirs, files |-> files]
T5(dfmt, dirs, ffmt, files) == [dfmt |-> dfmt, dirs |-> dirs, ffmt |-> ffmt, files |-> files]
MinTab4 == T4(<<S_inc>>, <<F4(S_a, 0, 0, 0), F4(S_b, 1, 74565, 300)>>)
DefTab5 == T5(<<<<LNCT_path, F_string>>>>, << <<VStr(S_d)>>, <<VStr(S_inc)>> >>,
              <<<<LNCT_path, F_string>>, <<LNCT_directory_index, F_udata>>>>,
              << <<VStr(S_a), N(0)>>, <<VStr(S_b), N(1)>> >>)
DefTab(hh) == IF hh.v >= 5 THEN DefTab5 ELSE MinTab4

Tabs4 == {T4(d, f) : d \in {<<>>, <<S_inc>>, <<S_d, S_inc>>},
                     f \in {<<>>, <<F4(S_a, 0, 0, 0)>>, <<F4(S_a, 1, 74565, 300), F4(S_b, 2, 0, 16384)>>,
                            <<F4(S_b, 0, 127, 128), F4(S_b, 0, 127, 128), F4(S_a, 200, 2097152, 0)>>}}

DirFmts == {<<<<LNCT_path, F_string>>>>, <<<<LNCT_path, F_line_strp>>>>, <<<<LNCT_path, F_strp>>>>}
DirsFor(fmt) == << <<VStr(S_d)>>, <<VStr(S_inc)>> >>
Wide8 == W(<<239, 205, 171, 137, 103, 69, 35, 1>>)
\* file formats with aligned entries
FileTabs == {
  [fmt |-> <<<<LNCT_path, F_string>>, <<LNCT_directory_index, F_udata>>>>,
   es |-> << <<VStr(S_a), N(0)>>, <<VStr(S_b), N(1)>> >>],
  \* the same tuple of forms with other content type codes (a reader must key on the codes, not on the forms)
  [fmt |-> <<<<LNCT_path, F_string>>, <<LNCT_size, F_udata>>>>,
   es |-> << <<VStr(S_a), N(300)>>, <<VStr(S_b), N(1)>> >>],
  [fmt |-> <<<<LNCT_path, F_string>>, <<LNCT_timestamp, F_udata>>>>,
   es |-> << <<VStr(S_b), N(74565)>> >>],
  [fmt |-> <<<<LNCT_path, F_line_strp>>, <<LNCT_directory_index, F_data1>>>>,
   es |-> << <<VStr(S_a), N(0)>>, <<VStr(S_b), N(255)>>, <<VStr(S_a), N(1)>> >>],
  [fmt |-> <<<<LNCT_path, F_strp>>, <<LNCT_directory_index, F_data2>>, <<LNCT_MD5, F_data16>>>>,
   es |-> << <<VStr(S_a), N(0), VBlob(MD5a)>>, <<VStr(S_b), N(513), VBlob(MD5b)>> >>],
  [fmt |-> <<<<LNCT_directory_index, F_udata>>, <<LNCT_path, F_line_strp>>, <<LNCT_timestamp, F_udata>>, <<LNCT_size, F_udata>>>>,
   es |-> << <<N(0), VStr(S_a), N(74565), N(300)>>, <<N(1), VStr(S_b), N(0), N(0)>> >>],
  [fmt |-> <<<<LNCT_path, F_string>>, <<LNCT_directory_index, F_udata>>, <<LNCT_timestamp, F_data4>>, <<LNCT_size, F_data8>>>>,
   es |-> << <<VStr(S_a), N(0), W(<<1, 2, 3, 244>>), Wide8>>, <<VStr(S_b), N(1), N(0), N(70000)>> >>],
  [fmt |-> <<<<LNCT_path, F_line_strp>>, <<LNCT_directory_index, F_udata>>, <<LNCT_timestamp, F_data8>>, <<LNCT_size, F_data1>>>>,
   es |-> << <<VStr(S_a), N(0), Wide8, N(200)>> >>],
  [fmt |-> <<<<LNCT_path, F_string>>, <<LNCT_directory_index, F_udata>>, <<LNCT_timestamp, F_block>>, <<LNCT_size, F_data2>>, <<LNCT_MD5, F_data16>>>>,
   es |-> << <<VStr(S_a), N(0), VBlob(<<1, 2, 3>>), N(65535), VBlob(MD5a)>>, <<VStr(S_b), N(1), VBlob(<<>>), N(0), VBlob(MD5b)>> >>],
  [fmt |-> <<<<LNCT_path, F_line_strp>>, <<LNCT_directory_index, F_udata>>, <<LNCT_size, F_data4>>, <<LNCT_LLVM_source, F_line_strp>>>>,
   es |-> << <<VStr(S_a), N(0), N(6), VStr(S_src)>>, <<VStr(S_b), N(1), W(<<0, 0, 0, 128>>), VStr(S_src)>> >>]
}
\* 130 directories: the count is a ULEB128 of two bytes
ManyDirs == [i \in 1..130 |-> <<VStr(<<97 + (i % 26), 48 + (i % 10)>>)>>]
Tabs5 == {T5(df, DirsFor(df), ft.fmt, ft.es) : df \in DirFmts, ft \in FileTabs}
         \cup {T5(<<<<LNCT_path, F_string>>>>, ManyDirs, <<<<LNCT_path, F_string>>, <<LNCT_directory_index, F_data1>>>>,
                  << <<VStr(S_a), N(129)>> >>)}

\* the header parameter records against which the table variants are written
TabHeaders4 == {H1, H2, H3, H6}
TabHeaders5 == {H9, H10}

(* ---------------------------- sample programs -------------------------- *)
Addr(lo, hi) == LEn(lo, 4) \o LEn(hi, 4)
A_low == LEn(4096, 8)
\* only opcodes that exist under every header configuration: one special opcode (chosen so that the
\* line does not decrease where the parameters allow it) and extended opcodes
SampOp(hh) == hh.ob + Min({255 - hh.ob, hh.lr - 1, IF hh.lb < 0 THEN -hh.lb ELSE 0})
P_a(hh) == <<I("set_address", 0, 0, A_low, <<>>), I1("special", SampOp(hh)), ES>>
P_b(hh) == <<I1("special", SampOp(hh)), ES, I("set_address", 0, 0, A_low, <<>>), I1("special", SampOp(hh)), ES>>
P_c(hh) == <<I1("special", SampOp(hh))>>
SampleProgs(hh) == {P_a(hh), P_b(hh), P_c(hh), <<>>}
ProgOK(hh, p) == \A j \in 0..Len(p) : RunProg(hh, SubSeq(p, 1, j)).r.line >= 0

(* ====================================================================== *)
(* the writer                                                              *)
(* ====================================================================== *)
Unit(hh, t, g, p) == [h |-> hh, t |-> t, gap |-> g, p |-> p]
\* extra = <<>> except in mode "two": [u2: the second unit, sep: junk bytes between and after the units,
\*                                     order: which unit each CU of .debug_info designates]
Orders == {<<1, 2>>, <<2, 1>>, <<1, 2, 1>>, <<2>>}

InitProg == /\ mode = "prog" /\ h \in Headers /\ tabs = DefTab(h) /\ gap = 0 /\ prog = <<>>
            /\ extra = <<>> /\ done = FALSE
InitTables == /\ mode = "tables"
              /\ \/ h \in TabHeaders4 /\ tabs \in Tabs4
                 \/ h \in TabHeaders5 /\ tabs \in Tabs5
              /\ gap \in {0, 3}
              /\ prog = P_a(h) /\ ProgOK(h, prog) /\ extra = <<>> /\ done = TRUE
InitTwo == /\ mode = "two" /\ h \in QuickHeaders /\ tabs = DefTab(h) /\ gap = 0
           /\ prog \in SampleProgs(h) /\ ProgOK(h, prog)
           /\ \E h2 \in {H3, H5, H9, H2, H10} : \E p2 \in {P_a(h2), P_b(h2)} : \E sep \in {0, 2} : \E o \in Orders :
                /\ h2.le = h.le /\ ProgOK(h2, p2)
                /\ extra = <<[u2 |-> Unit(h2, DefTab(h2), 0, p2), sep |-> sep, order |-> o]>>
           /\ done = TRUE
Init == /\ mode \in Modes
        /\ \/ InitProg \/ InitTables \/ InitTwo
        /\ LET e == RunProg(h, prog) IN regs = e.r /\ rows = e.out

Has(name) == StdCode[name] < h.ob /\ (StdCode[name] >= 10 => h.v >= 3)
Step(x) == /\ Exec(h, regs, x).r.line >= 0                 \* line is an unsigned register (6.2.2)
           /\ prog' = Append(prog, x)
           /\ LET e == Exec(h, regs, x) IN regs' = e.r /\ rows' = rows \o e.out
           /\ UNCHANGED <<mode, h, tabs, gap, extra, done>>

SpecialOps == {h.ob, h.ob + 1, (h.ob + 255) \div 2, 254, 255} \cap (h.ob..255)
AddrClasses == IF h.asz = 4 THEN {A_low, Addr(0, 0) , <<0, 0, 0, 240, 0, 0, 0, 0>>}
               ELSE {A_low, <<240, 255, 255, 255, 0, 0, 0, 0>>, <<0, 0, 0, 240, 255, 255, 255, 255>>}
UnkStdOps == {13, h.ob - 1} \cap (13..(h.ob - 1))

Special == \E op \in SpecialOps : Step(I1("special", op))
Copy == Has("copy") /\ Step(I0("copy"))
\* long non-minimal LEB128 operands: LongPads extra groups give encodings of 10 and more bytes, i.e. more
\* groups than a 64-bit value needs (a decoder that stops shifting / sign-extending at 64 bits gets them
\* wrong).  Classes: the shortest such encoding of a 1-byte value (1 + 9), a 2-byte value padded to exactly
\* 10 bytes (-129 with 8), and encodings well beyond 10 bytes (.. + 12); negative and positive SLEB values,
\* ULEB values, and the length of an extended opcode.
LongPads == {9, 12}
NoLongPads == {}          \* (a configuration may override LongPads: LineProgram_len3 leaves the long encodings to the others)
AdvancePc == Has("advance_pc") /\ \/ \E n \in {0, 1, 5, 200, 70000} : Step(I1("advance_pc", n))
                                  \/ Step(I("advance_pc", 3, 2, <<>>, <<>>))
                                  \/ \E k \in LongPads : Step(I("advance_pc", 5, k, <<>>, <<>>))
AdvanceLine == Has("advance_line") /\ \/ \E d \in {-3, 0, 7, 100, -129} : Step(I1("advance_line", d))
                                      \/ Step(I("advance_line", 63, 1, <<>>, <<>>))
                                      \/ \E k \in LongPads : \E d \in {-1, 100} : Step(I("advance_line", d, k, <<>>, <<>>))
                                      \/ LongPads # {} /\ Step(I("advance_line", -129, 8, <<>>, <<>>))
SetFile == Has("set_file") /\ \E n \in {0, 3} : Step(I1("set_file", n))
SetColumn == Has("set_column") /\ \/ \E n \in {0, 300} : Step(I1("set_column", n))
                                  \/ LongPads # {} /\ Step(I("set_column", 300, 9, <<>>, <<>>))
NegateStmt == Has("negate_stmt") /\ Step(I0("negate_stmt"))
SetBasicBlock == Has("set_basic_block") /\ Step(I0("set_basic_block"))
ConstAddPc == Has("const_add_pc") /\ Step(I0("const_add_pc"))
FixedAdvancePc == Has("fixed_advance_pc") /\ \E n \in {0, 4660, 65535} : Step(I1("fixed_advance_pc", n))
SetPrologueEnd == Has("set_prologue_end") /\ Step(I0("set_prologue_end"))
SetEpilogueBegin == Has("set_epilogue_begin") /\ Step(I0("set_epilogue_begin"))
SetIsa == Has("set_isa") /\ Step(I1("set_isa", 2))
UnknownStandard == \E op \in UnkStdOps : Step(I("unknown_std", op, 0, <<>>, [i \in 1..UnkLen(op) |-> 128 * i + 1]))
EndSequence == \/ Step(ES)
               \/ Step(I("end_sequence", 0, 1, <<>>, <<>>))        \* non-minimal length LEB
SetAddress == \E a \in AddrClasses : Step(I("set_address", 0, 0, a, <<>>))
DefineFile == h.v <= 4 /\ Step(I("define_file", 0, 0, S_b, <<1, 74565, 300>>))
SetDiscriminator == h.v >= 4 /\ \E n \in {5, 200} : Step(I1("set_discriminator", n))
UnknownExtended == \/ Step(I("unknown_ext", 128, 0, <<>>, <<>>))
                   \/ Step(I("unknown_ext", 128, 0, <<1, 0, 255>>, <<>>))
                   \/ Step(I("unknown_ext", 33, 1, <<170, 0>>, <<>>))
                   \/ LongPads # {} /\ Step(I("unknown_ext", 33, 9, <<170>>, <<>>))       \* length LEB of 10 bytes

Grow == \/ Special \/ Copy \/ AdvancePc \/ AdvanceLine \/ SetFile \/ SetColumn \/ NegateStmt \/ SetBasicBlock
        \/ ConstAddPc \/ FixedAdvancePc \/ SetPrologueEnd \/ SetEpilogueBegin \/ SetIsa \/ UnknownStandard
        \/ EndSequence \/ SetAddress \/ DefineFile \/ SetDiscriminator \/ UnknownExtended
Finish == /\ SimMode /\ Len(prog) = MaxLen /\ done' = TRUE
          /\ UNCHANGED <<mode, h, tabs, gap, prog, regs, rows, extra>>
Next == /\ mode = "prog" /\ ~done
        /\ \/ Len(prog) < MaxLen /\ Grow
           \/ Finish
Spec == Init /\ [][Next]_vars

(* ====================================================================== *)
(* (D) view and emission                                                   *)
(* ====================================================================== *)
RowJ(r) == <<W(r.address), r.op_index, r.file, r.line, r.column, r.is_stmt, r.basic_block, r.end_sequence,
             r.prologue_end, r.epilogue_begin, r.isa, r.discriminator>>
DefinedFiles(p) == LET ds == SelectSeq(p, LAMBDA x : x.k = "define_file") IN
                   [i \in 1..Len(ds) |-> F4(ds[i].w, ds[i].b[1], ds[i].b[2], ds[i].b[3])]
File4J(f) == <<f.name, f.dir, f.mtime, f.len>>
EntryJ(fmt, e) == [i \in 1..Len(fmt) |-> <<fmt[i][1], e[i]>>]
TabView(u) ==
  IF u.h.v >= 5
  THEN [v5 |-> TRUE, dfmt |-> u.t.dfmt, ffmt |-> u.t.ffmt,
        dirs |-> [i \in 1..Len(u.t.dirs) |-> EntryJ(u.t.dfmt, u.t.dirs[i])],
        files |-> [i \in 1..Len(u.t.files) |-> EntryJ(u.t.ffmt, u.t.files[i])]]
  ELSE [v5 |-> FALSE, dirs |-> u.t.dirs,
        files |-> [i \in 1..Len(u.t.files) |-> File4J(u.t.files[i])],
        files_after |-> LET fs == u.t.files \o DefinedFiles(u.p) IN [i \in 1..Len(fs) |-> File4J(fs[i])]]

Devs == {"advance_pc", "const_add_pc", "fixed_advance_pc", "set_address"}
\* spec-computed class of a program; the classes "max_ops>1" (VLIW header and one of the four opcodes whose
\* effect depends on / resets op_index) and "unknown_std" isolate inputs on which deviations were observed
Kinds(p) == {p[i].k : i \in 1..Len(p)}
ProgTag(hh, p) ==
  LET ks == Kinds(p) IN
  IF hh.mo > 1 /\ ks \cap Devs # {} THEN "max_ops>1"
  ELSE IF "unknown_std" \in ks THEN "unknown_std"
  ELSE IF \E i \in 1..Len(p) : p[i].pad >= 8 THEN "long_leb"      \* an operand / length LEB128 of >= 10 bytes
  ELSE IF hh.mo > 1 THEN "vliw" ELSE "plain"

\* Identification of the instructions of a program as they are found in the bytes (6.2.3: special, standard and
\* extended opcodes are three classes; the numbers of tables 7.25 / 7.26 overlap, so an instruction is identified by
\* the pair (opcode number, extended?)), whether executing it appends a row, and its operands as encoded.
\* ConsumesExtent ties this to the bytes (the byte machine decodes exactly these instructions).
InsId(x) == CASE x.k \in {"special", "unknown_std"} -> <<x.a, FALSE>>
              [] x.k = "end_sequence" -> <<1, TRUE>>
              [] x.k = "set_address" -> <<2, TRUE>>
              [] x.k = "define_file" -> <<3, TRUE>>
              [] x.k = "set_discriminator" -> <<4, TRUE>>
              [] x.k = "unknown_ext" -> <<x.a, TRUE>>
              [] OTHER -> <<StdCode[x.k], FALSE>>
InsOperands(x) == CASE x.k \in UlebStd \cup {"advance_line", "fixed_advance_pc", "set_discriminator"} -> <<N(x.a)>>
                    [] x.k = "set_address" -> <<W(x.w)>>
                    [] x.k = "define_file" -> <<VStr(x.w), N(x.b[1]), N(x.b[2]), N(x.b[3])>>
                    [] x.k = "unknown_std" -> [i \in 1..Len(x.b) |-> N(x.b[i])]
                    [] OTHER -> <<>>
EmitsRowK(x) == x.k \in {"special", "copy", "end_sequence"}
InsJ(x) == <<InsId(x)[1], InsId(x)[2], EmitsRowK(x), InsOperands(x), x.k>>

\* expectations for one unit placed at offset off of .debug_line
UnitView(u, off) ==
  LET g == UnitGeom(u) IN
  [off |-> off, id |-> u.h.id, tag |-> ProgTag(u.h, u.p), unk |-> ("unknown_std" \in Kinds(u.p)), start |-> off + g.start, end |-> off + g.end,
   hdr |-> [version |-> u.h.v, unit_length |-> g.end - InitLenSz(u.h), header_length |-> Len(g.tail),
            address_size |-> u.h.asz, f64 |-> u.h.f64,
            minimum_instruction_length |-> u.h.mi, maximum_operations_per_instruction |-> u.h.mo,
            default_is_stmt |-> u.h.dis, line_base |-> u.h.lb, line_range |-> u.h.lr, opcode_base |-> u.h.ob,
            standard_opcode_lengths |-> StdLens(u.h)],
   tabs |-> TabView(u),
   rows |-> LET rs == RunProg(u.h, u.p).out IN [i \in 1..Len(rs) |-> RowJ(rs[i])],
   ins |-> [i \in 1..Len(u.p) |-> InsJ(u.p[i])]]

Units == LET u1 == Unit(h, tabs, gap, Closed(prog)) IN
         IF extra = <<>> THEN <<u1>> ELSE <<u1, extra[1].u2>>
Sep == IF extra = <<>> THEN (IF mode = "tables" THEN 2 ELSE 0) ELSE extra[1].sep
Order == IF extra = <<>> THEN <<1>> ELSE extra[1].order

Case ==
  LET us == Units
      e1 == UnitEnc(us[1])
      off2 == Len(e1) + Sep
      line == IF Len(us) = 1 THEN e1 \o Rep(255, Sep)
              ELSE e1 \o Rep(255, Sep) \o UnitEnc(us[2]) \o Rep(255, Sep)
      offs == <<0, off2>>
      o == Order
  IN [mode |-> mode, le |-> h.le, line |-> line, abbrev |-> AbbrevSec,
      info |-> Flat([i \in 1..Len(o) |-> CUEnc(us[o[i]].h, offs[o[i]])]),
      line_str |-> PoolBytes(LineStrPool), str |-> PoolBytes(StrPool),
      cus |-> o, gap |-> gap,
      units |-> [i \in 1..Len(us) |-> UnitView(us[i], offs[i])],
      prog |-> [i \in 1..Len(prog) |-> <<prog[i].k, prog[i].a>>]]

Emit == ((~SimMode) \/ done) => CSVWrite("%1$s", <<ToJson(Case)>>, IOEnv.OUT)

(* ------------------------------ properties ----------------------------- *)
Last(p) == p[Len(p)]
EmitsRow(x) == x.k \in {"special", "copy", "end_sequence"}

\* the incrementally maintained machine is the declarative run
MachineIsRun == LET e == RunProg(h, prog) IN regs = e.r /\ rows = e.out

OpIndexInRange == /\ regs.op_index \in 0..(h.mo - 1)
                  /\ \A i \in 1..Len(rows) : rows[i].op_index \in 0..(h.mo - 1)
                  /\ (h.mo = 1 => regs.op_index = 0)

RowFlagsClearedAfterRow ==
  (prog # <<>> /\ EmitsRow(Last(prog))) =>
     /\ ~regs.basic_block /\ ~regs.prologue_end /\ ~regs.epilogue_begin /\ regs.discriminator = 0
     /\ ~regs.end_sequence

SequenceReset ==
  /\ (prog # <<>> /\ Last(prog).k = "end_sequence") => (regs = R0(h) /\ Last(rows).end_sequence)
  /\ \A i \in 1..Len(rows) : rows[i].end_sequence <=> \E j \in 1..Len(prog) :
        /\ prog[j].k = "end_sequence"
        /\ Len(RunProg(h, SubSeq(prog, 1, j)).out) = i
  /\ ~regs.end_sequence

\* rows are appended by exactly the row-emitting instructions, one each, in program order
RowsMatchEmitters == Len(rows) = Len(SelectSeq(prog, EmitsRowK))

\* the byte machine stops exactly at the end of the encoding, recovers the written instructions
\* and produces the rows of the abstract machine; every prefix boundary is an instruction boundary
ConsumesExtent ==
  LET bs == EncProg(h, prog)
      m == RunBytes(h, bs, 0, R0(h), <<>>, <<>>)
  IN /\ m.pos = Len(bs)
     /\ m.ins = prog
     /\ m.rows = rows
     /\ m.r = regs

\* generator sanity: addresses stay inside the address size, lines non-negative
ConsumesExtentWhenDone == done => ConsumesExtent

AddrFits == /\ \A i \in (h.asz + 1)..8 : regs.address[i] = 0
            /\ \A j \in 1..Len(rows) : \A i \in (h.asz + 1)..8 : rows[j].address[i] = 0
            /\ regs.line >= 0

\* unit_length and header_length, re-read from the encoded unit, delimit exactly the program
HeaderGeometry ==
  \A i \in 1..Len(Units) :
    LET u == Units[i]
        bs == UnitEnc(u)
        il == InitialLength(bs, u.h.le)
        ulen == NatOf(Slice(il.len.d, 1, 3))
        hlpos == il.used + 2 + (IF u.h.v >= 5 THEN 2 ELSE 0)
        hl == SmallDec(Slice(bs, hlpos + 1, OSz(u.h)), u.h.le, FALSE)
        g == UnitGeom(u)
    IN /\ il.ok /\ il.is64 = u.h.f64
       /\ il.used + ulen = Len(bs)
       /\ hlpos + OSz(u.h) + hl = g.start
       /\ Slice(bs, g.start + 1, Len(bs) - g.start) = g.pb
       /\ SmallDec(Slice(bs, il.used + 1, 2), u.h.le, FALSE) = u.h.v

\* v2-v4 string lists re-read from the bytes
RECURSIVE ReadDirs(_, _, _)
ReadDirs(bs, pos, acc) == LET s == CStrAt(bs, pos) IN
                          IF s.s = <<>> THEN [v |-> acc, next |-> pos + 1] ELSE ReadDirs(bs, pos + s.used, Append(acc, s.s))
RECURSIVE ReadFiles(_, _, _)
ReadFiles(bs, pos, acc) == LET s == CStrAt(bs, pos) IN
                           IF s.s = <<>> THEN [v |-> acc, next |-> pos + 1]
                           ELSE LET us == UlebsAt(bs, pos + s.used, 3, <<>>, FALSE) IN
                                ReadFiles(bs, us.next, Append(acc, F4(s.s, us.vals[1], us.vals[2], us.vals[3])))
\* v5 entry-format tables re-read from the bytes: format pairs, then entries field by field by form
FormWidth(form) == CASE form = F_data1 -> 1 [] form = F_data2 -> 2 [] form = F_data4 -> 4 [] form = F_data8 -> 8 [] OTHER -> 0
DecVal(hh, bs, pos, form) ==
  CASE form = F_string -> LET c == CStrAt(bs, pos) IN [v |-> VStr(c.s), next |-> pos + c.used]
    [] form = F_line_strp -> LET off == SmallDec(Slice(bs, pos + 1, OSz(hh)), hh.le, FALSE) IN
                             [v |-> VStr(CStrAt(PoolBytes(LineStrPool), off).s), next |-> pos + OSz(hh)]
    [] form = F_strp -> LET off == SmallDec(Slice(bs, pos + 1, OSz(hh)), hh.le, FALSE) IN
                        [v |-> VStr(CStrAt(PoolBytes(StrPool), off).s), next |-> pos + OSz(hh)]
    [] form = F_udata -> LET u == UlebAt(bs, pos) IN [v |-> N(u.v), next |-> pos + u.used]
    [] form = F_data16 -> [v |-> VBlob(Slice(bs, pos + 1, 16)), next |-> pos + 16]
    [] form = F_block -> LET u == UlebAt(bs, pos) IN [v |-> VBlob(Slice(bs, pos + u.used + 1, u.v)), next |-> pos + u.used + u.v]
    [] OTHER -> LET w == FormWidth(form) IN [v |-> FixDec(Slice(bs, pos + 1, w), hh.le, FALSE), next |-> pos + w]
\* written value = re-read value (fixed-width numbers are compared by their digits)
ValEq(form, a, b) == IF FormWidth(form) > 0 THEN Digits(a, FormWidth(form)) = b.d ELSE a = b
RECURSIVE ReadFmt(_, _, _, _)
ReadFmt(bs, pos, n, acc) == IF n = 0 THEN [v |-> acc, next |-> pos]
                            ELSE LET us == UlebsAt(bs, pos, 2, <<>>, FALSE) IN ReadFmt(bs, us.next, n - 1, Append(acc, us.vals))
RECURSIVE ReadEntry(_, _, _, _, _, _)
ReadEntry(hh, bs, pos, fmt, i, acc) == IF i > Len(fmt) THEN [v |-> acc, next |-> pos]
                                       ELSE LET d == DecVal(hh, bs, pos, fmt[i][2]) IN
                                            ReadEntry(hh, bs, d.next, fmt, i + 1, Append(acc, d.v))
RECURSIVE ReadEntries(_, _, _, _, _, _)
ReadEntries(hh, bs, pos, fmt, n, acc) == IF n = 0 THEN [v |-> acc, next |-> pos]
                                         ELSE LET e == ReadEntry(hh, bs, pos, fmt, 1, <<>>)   acc2 == Append(acc, e.v) IN
                                              IF e.next > pos /\ Len(acc2) > 0           \* forces evaluation (see RunFrom)
                                              THEN ReadEntries(hh, bs, e.next, fmt, n - 1, acc2)
                                              ELSE [v |-> acc, next |-> -1]
ReadTable5(hh, bs, pos) ==
  LET f == ReadFmt(bs, pos + 1, bs[pos + 1], <<>>)
      c == UlebAt(bs, f.next)
      es == ReadEntries(hh, bs, f.next + c.used, f.v, c.v, <<>>)
  IN [fmt |-> f.v, es |-> es.v, next |-> es.next]
EntriesEq(fmt, a, b) == /\ Len(a) = Len(b)
                        /\ \A i \in 1..Len(a) : \A j \in 1..Len(fmt) : ValEq(fmt[j][2], a[i][j], b[i][j])

TablesRoundTrip ==
  IF h.v <= 4
  THEN LET bs == TabEnc(h, tabs)
           d == ReadDirs(bs, 0, <<>>)
           f == ReadFiles(bs, d.next, <<>>)
       IN d.v = tabs.dirs /\ f.v = tabs.files /\ f.next = Len(bs)
  ELSE LET bs == TabEnc(h, tabs)
           d == ReadTable5(h, bs, 0)
           f == ReadTable5(h, bs, d.next)
       IN /\ d.fmt = tabs.dfmt /\ EntriesEq(tabs.dfmt, tabs.dirs, d.es)
          /\ f.fmt = tabs.ffmt /\ EntriesEq(tabs.ffmt, tabs.files, f.es)
          /\ f.next = Len(bs)

=============================================================================
