------------------------------ MODULE Registry ------------------------------
(***************************************************************************)
(* C17 - name <-> code registries.                                          *)
(*                                                                         *)
(* RegistryData!Reg is the specification's own table (vendored from glibc  *)
(* elf.h and LLVM BinaryFormat, never from pyelftools).  Other modules use  *)
(* Code("name") for the numeric codes they need, so a wrong code in the    *)
(* library is also caught end to end by the property that decodes it.      *)
(***************************************************************************)
EXTENDS Integers, Sequences
INSTANCE RegistryData

Known(name) == name \in DOMAIN Reg
CodeStr(name) == Reg[name]                 \* decimal string

\* decimal string -> Small, for the codes that fit (used by the other modules)
DigitVal(c) == CASE c = "0" -> 0 [] c = "1" -> 1 [] c = "2" -> 2 [] c = "3" -> 3 [] c = "4" -> 4
                 [] c = "5" -> 5 [] c = "6" -> 6 [] c = "7" -> 7 [] c = "8" -> 8 [] c = "9" -> 9
=============================================================================
