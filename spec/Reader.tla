------------------------------- MODULE Reader -------------------------------
(***************************************************************************)
(* C10 - answers do not depend on query history or stream position.        *)
(*                                                                         *)
(* The API-level machine of the DWARF reader over one small constant file   *)
(* (a forest of units written by DieEnc!ShapeUnits, so the very same        *)
(* constants also give the bytes that are replayed into the code).          *)
(* State = what a lazily caching reader remembers between calls:            *)
(*   cus        units whose header has been parsed (the unit cache)          *)
(*   dc[u]      entries of unit u that have been parsed (the entry cache)    *)
(*   par[u][i]  parent link of entry i as far as navigation has filled it in *)
(*   term[u][i] the null entry known to close the children of entry i        *)
(*   gens       live generator frames (iterators are coroutines: their       *)
(*              frames stay alive between next() calls while other calls     *)
(*              mutate the same caches)                                      *)
(* Stream positions are not state: every action takes a parameter w saying   *)
(* where the shared streams were left right before the call (none = as the  *)
(* previous call left them, zero / mid / end = adversarial repositioning).  *)
(*                                                                         *)
(* One action per public call, at the granularity of the code:              *)
(*   GetCUAt, GetCUContaining, TopDIE, RefAddr (section-relative lookup),   *)
(*   Parent (ancestor search from the top, filling links on its way),        *)
(*   FollowRef (reference attribute), generator protocol Start/Advance/      *)
(*   Abandon for iter_CUs, iter_DIEs (nested frames) and iter_children       *)
(*   (sibling shortcut vs atomic descent for the terminator).                *)
(*                                                                         *)
(* Checked by TLC over ALL interleavings up to the depth bound:              *)
(*   ResultEqualsFresh   every answer equals the declarative truth of the    *)
(*                       constant file (what a fresh object would say)       *)
(*   ParentLinksTrue, TermLinksTrue   links are only ever filled in with     *)
(*                       the true parent / terminator                        *)
(*   GeneratorYieldsKth  the k-th next() of a generator yields the k-th      *)
(*                       item whatever happened in between                   *)
(*   CachesConsistent    the top entry is cached whenever any entry is, a    *)
(*                       unit is cached whenever one of its entries is       *)
(* The labelled transition graph is emitted edge by edge (EmitEdge) and      *)
(* every edge is replayed into the real code.                               *)
(***************************************************************************)
EXTENDS DieEnc, Json, CSV, IOUtils

CONSTANTS FileId,     \* which constant file
          Depth,      \* bound on the length of call histories
          MaxGens,    \* live generators at a time
          Wheres      \* subset of {"none", "zero", "mid", "end"}

VARIABLES cus, dc, par, term, gens, last, act
vars == <<cus, dc, par, term, gens, last, act>>

(* ------------------------------ the files ------------------------------ *)
SU(c, sf, toks) == [ctx |-> c, sf |-> sf, toks |-> toks, firstroot |-> 0]
Files == <<
  \* 1: one unit, no sibling attributes: navigation must descend to find terminators
  << SU(Ctx(4, 32, 8, TRUE), "DW_FORM_ref4",
        <<"open", "openn", "leaf", "null", "leafref", "open", "leaf", "null2", "leaf", "null">>) >>,
  \* 2: two units; sibling attributes present (shortcut), nested, cross-unit reference
  << SU(Ctx(5, 32, 4, TRUE), "DW_FORM_ref4",
        <<"open", "opensib", "leaf", "openn", "leaf", "null", "null", "leaf", "null">>),
     SU(Ctx(3, 64, 8, TRUE), "DW_FORM_ref_addr",
        <<"open", "leafrefaddr", "opensib", "null", "null">>) >>,
  \* 3: mixed: some subtrees with, some without sibling attributes; three units, the last a lone root
  << SU(Ctx(2, 32, 4, FALSE), "DW_FORM_ref_udata",
        <<"open", "openn", "opensib", "leaf", "null", "leafrefu", "null", "leaf", "null">>),
     SU(Ctx(4, 64, 4, FALSE), "DW_FORM_ref2", <<"open", "leaf", "null">>),
     SU(Ctx(5, 64, 8, FALSE), "DW_FORM_ref8", <<"leaf">>) >> >>
File0 == Files[FileId]
\* cross-unit references designate the root of the first unit
Sus == [k \in 1..Len(File0) |-> [File0[k] EXCEPT !.firstroot = ShapeHdr(File0[1].ctx)]]
FU == TLCEval(FinalOf(Sus, TRUE))
NU == Len(FU)
Units == 1..NU
UOff == TLCEval([u \in Units |-> UnitOffs(FU, u)])
UV == TLCEval([u \in Units |-> UnitView(FU[u], UOff[u])])
Ks == TLCEval([u \in Units |-> KindsOf(FU[u])])
NE == TLCEval([u \in Units |-> Len(FU[u].dies)])
Ents(u) == 1..NE[u]
Off == TLCEval([u \in Units |-> [i \in Ents(u) |-> UV[u].dies[i].off]])
IsNull == TLCEval([u \in Units |-> [i \in Ents(u) |-> Ks[u][i] = "null"]])
HasKids == TLCEval([u \in Units |-> [i \in Ents(u) |-> Ks[u][i] = "kids"]])
ParT == TLCEval([u \in Units |-> [i \in Ents(u) |-> ParentIx(Ks[u], i)]])                       \* 0 = no parent
TermT == TLCEval([u \in Units |-> [i \in Ents(u) |-> IF Ks[u][i] = "kids" THEN TermIx(Ks[u], i) ELSE 0]])
SortedSeq(S) == LET RECURSIVE R(_) R(T) == IF T = {} THEN <<>> ELSE <<Min(T)>> \o R(T \ {Min(T)}) IN R(S)
KidsT == TLCEval([u \in Units |-> [i \in Ents(u) |-> SortedSeq(ChildrenIx(Ks[u], i))]])
\* the entry index an offset designates (0 = not an entry start)
IxOf(u, o) == IF \E i \in Ents(u) : Off[u][i] = o THEN CHOOSE i \in Ents(u) : Off[u][i] = o ELSE 0
\* DW_AT_sibling: the entry index its value designates (NE+1 = end of unit), 0 = no such attribute
SibT == TLCEval([u \in Units |-> [i \in Ents(u) |->
          IF Sus[u].toks[i] # "opensib" THEN 0
          ELSE LET t == UV[u].dies[i].attrs[1].reft IN IF IxOf(u, t) # 0 THEN IxOf(u, t) ELSE NE[u] + 1]])
\* reference attributes (DW_AT_type): <<unit, entry>> designated, <<0, 0>> = none
UnitOfOff(o) == CHOOSE u \in Units : UOff[u] <= o /\ o < UOff[u] + UV[u].size
RefTo == TLCEval([u \in Units |-> [i \in Ents(u) |->
          IF Sus[u].toks[i] \notin {"leafref", "leafrefaddr", "leafrefu"} THEN <<0, 0>>
          ELSE LET t == UV[u].dies[i].attrs[1].reft   tu == UnitOfOff(t) IN <<tu, IxOf(tu, t)>>]])
Info == TLCEval(InfoBytes(FU))
InfoSize == Len(Info)

(* ------------------------------ cache steps ---------------------------- *)
Unset == 0
St == [c |-> dc, p |-> par, t |-> term]
\* fetch entry i of unit u through the entry cache (the top entry is always fetched first)
Fetch(st, u, i) == [st EXCEPT !.c[u] = @ \cup {1, i}]
SetPar(st, u, i, d) == [st EXCEPT !.p[u][i] = d]
\* where the child walk goes after having yielded child c (what the reader knows: no children -> next entry;
\* a sibling attribute -> its target; otherwise the terminator of c's own children, found by descending)
NextAfter(st, u, c) == IF ~HasKids[u][c] THEN c + 1 ELSE IF SibT[u][c] # 0 THEN SibT[u][c] ELSE st.t[u][c] + 1
RECURSIVE ConsumeFrom(_, _, _, _)
\* run the children walk of d to its end, starting with the fetch of entry n
ConsumeFrom(st, u, d, n) ==
  LET s1 == SetPar(Fetch(st, u, n), u, n, d) IN
  IF IsNull[u][n] THEN [s1 EXCEPT !.t[u][d] = n]
  ELSE LET s2 == IF HasKids[u][n] /\ SibT[u][n] = 0 /\ s1.t[u][n] = Unset THEN ConsumeFrom(s1, u, n, n + 1) ELSE s1
       IN ConsumeFrom(s2, u, d, NextAfter(s2, u, n))
Consume(st, u, d) == IF HasKids[u][d] THEN ConsumeFrom(st, u, d, d + 1) ELSE st
\* unit cache: looking a unit up by a contained offset parses forward from the closest cached unit at or before it
CuWalk(cs, u) == LET below == {c \in cs : c <= u}   start == IF below = {} THEN 1 ELSE Max(below) IN cs \cup (start..u)

(* -------------------------------- actions ------------------------------ *)
Set(st) == dc' = st.c /\ par' = st.p /\ term' = st.t
Lbl(a, w) == act' = <<a, w>>
Room == TLCGet("level") <= Depth

GetCUAt(u, w) ==
  /\ Room /\ cus' = cus \cup {u} /\ last' = <<"cu", UOff[u]>> /\ Lbl(<<"GetCUAt", u>>, w) /\ UNCHANGED <<dc, par, term, gens>>
\* k selects the probe offset inside unit u: 1 first byte, 2 the offset of its second entry (or top), 3 last byte
ProbeOff(u, k) == CASE k = 1 -> UOff[u] [] k = 2 -> Off[u][IF NE[u] >= 2 THEN 2 ELSE 1] [] k = 3 -> UOff[u] + UV[u].size - 1
GetCUContaining(u, k, w) ==
  /\ Room /\ cus' = CuWalk(cus, u) /\ last' = <<"cu", UOff[u]>> /\ Lbl(<<"GetCUContaining", ProbeOff(u, k)>>, w)
  /\ UNCHANGED <<dc, par, term, gens>>
TopDIE(u, w) ==
  /\ Room /\ u \in cus /\ Set(Fetch(St, u, 1)) /\ last' = <<"die", Off[u][1]>> /\ Lbl(<<"TopDIE", u>>, w)
  /\ UNCHANGED <<cus, gens>>
RefAddr(u, i, w) ==
  /\ Room /\ cus' = CuWalk(cus, u) /\ Set(Fetch(St, u, i)) /\ last' = <<"die", Off[u][i]>> /\ Lbl(<<"RefAddr", Off[u][i]>>, w)
  /\ UNCHANGED gens
\* the ancestor search of get_parent: from the top entry, consume each candidate's children, pick the closest
\* entry (or terminator) not beyond the target, stop when the target is reached; links are written on the way
RECURSIVE Search(_, _, _, _)
Search(st, u, s, d) ==
  IF s >= d THEN st
  ELSE LET s1 == Consume(st, u, s)
           cands == {k \in DOMAIN KidsT[u][s] : KidsT[u][s][k] <= d}
           prev0 == IF cands = {} THEN s ELSE KidsT[u][s][Max(cands)]
           prev == IF HasKids[u][s] /\ s1.t[u][s] # Unset /\ s1.t[u][s] <= d THEN s1.t[u][s] ELSE prev0
       IN IF prev = s THEN s1 ELSE Search(s1, u, prev, d)
Parent(u, d, w) ==
  /\ Room /\ d \in dc[u]
  /\ LET st == IF par[u][d] # Unset THEN St ELSE Search(Fetch(St, u, 1), u, 1, d) IN
     /\ Set(st)
     /\ last' = IF st.p[u][d] = Unset THEN <<"none">> ELSE <<"die", Off[u][st.p[u][d]]>>
  /\ Lbl(<<"Parent", Off[u][d]>>, w) /\ UNCHANGED <<cus, gens>>
FollowRef(u, d, w) ==
  /\ Room /\ d \in dc[u] /\ RefTo[u][d] # <<0, 0>>
  /\ LET tu == RefTo[u][d][1]   ti == RefTo[u][d][2] IN
     /\ cus' = IF Sus[u].toks[d] = "leafrefaddr" THEN CuWalk(cus, tu) ELSE cus
     /\ Set(Fetch(St, tu, ti)) /\ last' = <<"die", Off[tu][ti]>>
  /\ Lbl(<<"FollowRef", Off[u][d]>>, w) /\ UNCHANGED gens

\* ---- generators.  A frame: [kind, u, d, pend, cnt, done, stack]
Frame(kind, u, d) == [kind |-> kind, u |-> u, d |-> d, pend |-> 0, cnt |-> 0, done |-> FALSE, stack |-> <<>>]
StartCUs(w) == /\ Room /\ Len(gens) < MaxGens /\ gens' = Append(gens, Frame("cus", 0, 0)) /\ last' = <<"gen">>
               /\ Lbl(<<"StartCUs">>, w) /\ UNCHANGED <<cus, dc, par, term>>
StartKids(u, d, w) == /\ Room /\ Len(gens) < MaxGens /\ d \in dc[u] /\ ~IsNull[u][d]
                      /\ gens' = Append(gens, Frame("kids", u, d)) /\ last' = <<"gen">>
                      /\ Lbl(<<"StartKids", Off[u][d]>>, w) /\ UNCHANGED <<cus, dc, par, term>>
\* (iter_DIEs fetches the top entry when it is called, not at the first next())
StartDIEs(u, w) == /\ Room /\ Len(gens) < MaxGens /\ u \in cus
                   /\ gens' = Append(gens, Frame("dies", u, 1)) /\ last' = <<"gen">> /\ Set(Fetch(St, u, 1))
                   /\ Lbl(<<"StartDIEs", u>>, w) /\ UNCHANGED cus
\* one next() of a children walk given as (d, pend): returns [st, item (0 = exhausted), ...]
KidsStep(st, u, d, pend) ==
  IF ~HasKids[u][d] THEN [st |-> st, item |-> 0]
  ELSE LET s0 == IF pend # 0 /\ HasKids[u][pend] /\ SibT[u][pend] = 0 /\ st.t[u][pend] = Unset THEN Consume(st, u, pend) ELSE st
           n == IF pend = 0 THEN d + 1 ELSE NextAfter(s0, u, pend)
           s1 == SetPar(Fetch(s0, u, n), u, n, d)
       IN IF IsNull[u][n] THEN [st |-> [s1 EXCEPT !.t[u][d] = n], item |-> 0] ELSE [st |-> s1, item |-> n]
Advance(g, w) ==
  LET f == gens[g] IN
  /\ Room /\ ~f.done
  /\ Lbl(<<"Advance", g>>, w)
  /\ CASE f.kind = "cus" ->
            IF f.cnt >= NU THEN /\ gens' = [gens EXCEPT ![g].done = TRUE] /\ last' = <<"stop">> /\ UNCHANGED <<cus, dc, par, term>>
            ELSE /\ cus' = cus \cup {f.cnt + 1} /\ gens' = [gens EXCEPT ![g].cnt = f.cnt + 1]
                 /\ last' = <<"cu", UOff[f.cnt + 1]>> /\ UNCHANGED <<dc, par, term>>
       [] f.kind = "kids" ->
            LET r == KidsStep(St, f.u, f.d, f.pend) IN
            /\ Set(r.st) /\ UNCHANGED cus
            /\ IF r.item = 0 THEN gens' = [gens EXCEPT ![g].done = TRUE] /\ last' = <<"stop">>
               ELSE gens' = [gens EXCEPT ![g].pend = r.item, ![g].cnt = f.cnt + 1] /\ last' = <<"die", Off[f.u][r.item]>>
       [] f.kind = "dies" ->
            \* nested frames: stack of <<d, pend>> children walks; iter_DIEs yields the entry, then its children's
            \* subtrees, then the entry's terminator
            IF f.cnt = 0
            THEN /\ Set(Fetch(St, f.u, 1)) /\ UNCHANGED cus /\ last' = <<"die", Off[f.u][1]>>
                 /\ gens' = [gens EXCEPT ![g].cnt = 1,
                                         ![g].stack = IF HasKids[f.u][1] THEN << <<1, 0>> >> ELSE <<>>,
                                         ![g].done = FALSE]
            ELSE IF f.stack = <<>>
            THEN /\ gens' = [gens EXCEPT ![g].done = TRUE] /\ last' = <<"stop">> /\ UNCHANGED <<cus, dc, par, term>>
            ELSE LET top == f.stack[Len(f.stack)]   r == KidsStep(St, f.u, top[1], top[2])
                     rest == SubSeq(f.stack, 1, Len(f.stack) - 1) IN
                 /\ Set(r.st) /\ UNCHANGED cus
                 /\ IF r.item = 0
                    THEN \* the walk of top[1] ended: its terminator is yielded
                         /\ last' = <<"die", Off[f.u][r.st.t[f.u][top[1]]]>>
                         /\ gens' = [gens EXCEPT ![g].cnt = f.cnt + 1, ![g].stack = rest]
                    ELSE /\ last' = <<"die", Off[f.u][r.item]>>
                         /\ gens' = [gens EXCEPT ![g].cnt = f.cnt + 1,
                                                 ![g].stack = Append(rest, <<top[1], r.item>>)
                                                              \o (IF HasKids[f.u][r.item] THEN << <<r.item, 0>> >> ELSE <<>>)]
Abandon(g, w) ==
  /\ Room /\ gens' = SubSeq(gens, 1, g - 1) \o SubSeq(gens, g + 1, Len(gens)) /\ last' = <<"gen">>
  /\ Lbl(<<"Abandon", g>>, w) /\ UNCHANGED <<cus, dc, par, term>>

Init ==
  /\ cus = {} /\ dc = [u \in Units |-> {}] /\ par = [u \in Units |-> [i \in Ents(u) |-> Unset]]
  /\ term = [u \in Units |-> [i \in Ents(u) |-> Unset]] /\ gens = <<>> /\ last = <<"init">> /\ act = <<<<"init">>, "none">>

Next ==
  \E w \in Wheres :
     \/ \E u \in Units : GetCUAt(u, w) \/ TopDIE(u, w) \/ StartDIEs(u, w) \/ (\E k \in 1..3 : GetCUContaining(u, k, w))
     \/ \E u \in Units : \E i \in Ents(u) : RefAddr(u, i, w) \/ Parent(u, i, w) \/ FollowRef(u, i, w) \/ StartKids(u, i, w)
     \/ StartCUs(w)
     \/ \E g \in 1..Len(gens) : Advance(g, w) \/ Abandon(g, w)
Spec == Init /\ [][Next]_vars

(* ------------------------------ properties ----------------------------- *)
ParentLinksTrue == \A u \in Units : \A i \in Ents(u) : par[u][i] # Unset => par[u][i] = ParT[u][i]
TermLinksTrue == \A u \in Units : \A i \in Ents(u) : term[u][i] # Unset => term[u][i] = TermT[u][i]
CachesConsistent == \A u \in Units : /\ (dc[u] # {} => 1 \in dc[u])
                                     /\ \A i \in Ents(u) : (par[u][i] # Unset => i \in dc[u] /\ par[u][i] \in dc[u])
                                     /\ \A i \in Ents(u) : (term[u][i] # Unset => term[u][i] \in dc[u])
\* the full (prefix-order) listing of a unit, as a fresh sequential reader yields it: the entries in file order
GeneratorYieldsKth ==
  \A g \in 1..Len(gens) : LET f == gens[g] IN
     CASE f.kind = "kids" -> /\ f.cnt <= Len(KidsT[f.u][f.d])
                             /\ (f.cnt > 0 => f.pend = KidsT[f.u][f.d][f.cnt])
                             /\ (f.done => f.cnt = Len(KidsT[f.u][f.d]))
       [] f.kind = "cus" -> f.cnt <= NU /\ (f.done => f.cnt = NU)
       [] f.kind = "dies" -> f.cnt <= NE[f.u] /\ (f.done => f.cnt = NE[f.u])
\* every answer is the declarative truth (what the same query on a freshly opened object returns);
\* an action-level check, evaluated on every transition (state invariants see only one representative per VIEW)
TruthOf(a) ==
  CASE a[1] \in {"StartCUs", "StartKids", "StartDIEs", "Abandon"} -> <<"gen">>
    [] a[1] = "GetCUAt" -> <<"cu", UOff[a[2]]>>
    [] a[1] = "GetCUContaining" -> <<"cu", UOff[UnitOfOff(a[2])]>>
    [] a[1] = "TopDIE" -> <<"die", Off[a[2]][1]>>
    [] a[1] = "RefAddr" -> <<"die", a[2]>>
    [] a[1] = "Parent" -> LET u == UnitOfOff(a[2])   i == IxOf(u, a[2]) IN
                          IF ParT[u][i] = 0 THEN <<"none">> ELSE <<"die", Off[u][ParT[u][i]]>>
    [] a[1] = "FollowRef" -> LET u == UnitOfOff(a[2])   i == IxOf(u, a[2]) IN <<"die", Off[RefTo[u][i][1]][RefTo[u][i][2]]>>
\* the k-th next() yields the k-th item: children in order, units in order, entries in file order
EdgeOK ==
  LET a == act'[1] IN
  IF a[1] = "Advance"
  THEN LET f == gens[a[2]] IN
       CASE f.kind = "kids" -> last' = (IF f.cnt < Len(KidsT[f.u][f.d]) THEN <<"die", Off[f.u][KidsT[f.u][f.d][f.cnt + 1]]>> ELSE <<"stop">>)
         [] f.kind = "cus" -> last' = (IF f.cnt < NU THEN <<"cu", UOff[f.cnt + 1]>> ELSE <<"stop">>)
         [] f.kind = "dies" -> last' = (IF f.cnt < NE[f.u] THEN <<"die", Off[f.u][f.cnt + 1]>> ELSE <<"stop">>)
  ELSE last' = TruthOf(a)
ResultEqualsFresh == Assert(EdgeOK, <<"answer differs from the declarative truth", act', last'>>)

(* ------------------------------- emission ------------------------------ *)
\* abstract state as the driver projects it from the implementation (for drift monitoring)
Abs(c, d, p, t, g) ==
  [cus |-> {UOff[u] : u \in c},
   dc |-> [u \in Units |-> {Off[u][i] : i \in d[u]}],
   par |-> [u \in Units |-> {<<Off[u][i], Off[u][p[u][i]]>> : i \in {j \in Ents(u) : p[u][j] # Unset}}],
   term |-> [u \in Units |-> {<<Off[u][i], Off[u][t[u][i]]>> : i \in {j \in Ents(u) : t[u][j] # Unset}}],
   gens |-> [k \in 1..Len(g) |-> [kind |-> g[k].kind, cnt |-> g[k].cnt, done |-> g[k].done, u |-> g[k].u, d |-> g[k].d]]]
EmitEdge == CSVWrite("%1$s", <<ToJson([src |-> Abs(cus, dc, par, term, gens), act |-> act'[1], w |-> act'[2], res |-> last',
                                       dst |-> Abs(cus', dc', par', term', gens')])>>, IOEnv.OUT)
\* the file itself (emitted once, from the initial state)
EmitFile == (TLCGet("level") = 1) =>
              CSVWrite("%1$s", <<ToJson([file |-> FileId, le |-> FU[1].ctx.le, info |-> Info, abbrev |-> AbbrevSecOf(Sus, TRUE),
                                         units |-> [u \in Units |-> UV[u]]])>>, IOEnv.OUT)
View == <<cus, dc, par, term, gens>>
=============================================================================
