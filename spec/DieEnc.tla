------------------------------- MODULE DieEnc -------------------------------
(***************************************************************************)
(* Pure operators of the DWARF unit / abbreviation / entry encoding and of  *)
(* the declarative view (no variables): shared by DieTree (C04), Reader     *)
(* (C10) and the modules that need a .debug_info around their own sections. *)
(* See DieTree.tla for the standards transcribed here.                      *)
(***************************************************************************)
EXTENDS DwarfForms, TLC

Ctx(v, f, a, l) == [ver |-> v, fmt |-> f, asz |-> a, le |-> l]
AllCtx == {Ctx(v, f, a, l) : v \in 2..5, f \in {32, 64}, a \in {4, 8}, l \in BOOLEAN}

(* ------------------------- supporting sections ------------------------- *)
\* .debug_str / .debug_line_str: strings at known offsets (incl. one longer than a 64-byte read chunk)
LongStr == [i \in 1..70 |-> 97 + (i % 26)]
StrSec == <<0>> \o <<97, 98, 99, 0>> \o <<195, 169, 0>> \o LongStr \o <<0>> \o <<122, 0>>     \* "", "abc", "é", long, "z"
StrOffs == <<0, 1, 5, 8, 79>>                                                                 \* offsets of the five strings
LineStrSec == <<108, 49, 0, 108, 105, 110, 101, 50, 0>>                                       \* "l1", "line2"
LineStrOffs == <<0, 3>>
\* .debug_str_offsets (DWARF5 7.26): header (unit_length, version 5, padding) + offsets; DW_AT_str_offsets_base points past the header
HdrLen(ctx) == IF ctx.fmt = 32 THEN 8 ELSE 16
StrOffsetsSec(ctx) ==
  LET fixver == IF ctx.le THEN <<5, 0>> ELSE <<0, 5>>
      b2 == fixver \o <<0, 0>> \o Flat([i \in 1..Len(StrOffs) |-> Fix(N(StrOffs[Len(StrOffs) + 1 - i]), OffSize(ctx), ctx.le)])
  IN (IF ctx.fmt = 32 THEN Fix(N(Len(b2)), 4, ctx.le) ELSE <<255, 255, 255, 255>> \o Fix(N(Len(b2)), 8, ctx.le)) \o b2
StrxTarget(i) == StrOffs[Len(StrOffs) - i]                   \* index i (0-based) -> string offset (table is reversed on purpose)
\* .debug_addr (DWARF5 7.27): header (unit_length, version, address_size, segment_selector_size) + addresses
AddrVals(ctx) == IF ctx.asz = 4 THEN <<W(<<0, 16, 64, 0>>), W(<<255, 255, 255, 255>>), W(<<1, 0, 0, 128>>)>>
                 ELSE <<W(<<0, 16, 64, 0, 0, 0, 0, 0>>), W(<<255, 255, 255, 255, 255, 255, 255, 255>>), W(<<1, 0, 0, 0, 0, 0, 0, 128>>)>>
AddrSec(ctx) ==
  LET b2 == (IF ctx.le THEN <<5, 0>> ELSE <<0, 5>>) \o <<ctx.asz, 0>> \o Flat([i \in 1..3 |-> Fix(AddrVals(ctx)[i], ctx.asz, ctx.le)])
  IN (IF ctx.fmt = 32 THEN Fix(N(Len(b2)), 4, ctx.le) ELSE <<255, 255, 255, 255>> \o Fix(N(Len(b2)), 8, ctx.le)) \o b2
\* .debug_loclists / .debug_rnglists (DWARF5 7.28, 7.29): header + offset table (2 entries) + two empty lists;
\* DW_AT_loclists_base / DW_AT_rnglists_base point at the offset table
ListOffs(ctx) == <<2 * OffSize(ctx) + 1, 2 * OffSize(ctx)>>          \* offsets are relative to the table start
ListsSec(ctx) ==
  LET b2 == (IF ctx.le THEN <<5, 0>> ELSE <<0, 5>>) \o <<ctx.asz, 0>> \o Fix(N(2), 4, ctx.le)
            \o Flat([i \in 1..2 |-> Fix(N(ListOffs(ctx)[i]), OffSize(ctx), ctx.le)]) \o <<0, 0>>
  IN (IF ctx.fmt = 32 THEN Fix(N(Len(b2)), 4, ctx.le) ELSE <<255, 255, 255, 255>> \o Fix(N(Len(b2)), 8, ctx.le)) \o b2
ListsBase(ctx) == (IF ctx.fmt = 32 THEN 4 ELSE 12) + 8

(* ------------------------------ abbreviations -------------------------- *)
Spec1(name, form) == [name |-> name, form |-> form, ic |-> <<>>]
Decl(code, tagc, kids, specs) == [code |-> code, tag |-> tagc, kids |-> kids, specs |-> specs]
EncSpec(s) == UlebOfNat(s.name) \o UlebOfNat(FormCode[s.form]) \o s.ic
EncDecl(d) == UlebOfNat(d.code) \o UlebOfNat(d.tag) \o <<IF d.kids THEN 1 ELSE 0>>
              \o Flat([i \in 1..Len(d.specs) |-> EncSpec(d.specs[i])]) \o <<0, 0>>
EncAbbrevs(ds) == Flat([i \in 1..Len(ds) |-> EncDecl(ds[i])]) \o <<0>>
DeclOf(ds, code) == ds[CHOOSE i \in 1..Len(ds) : ds[i].code = code]

(* --------------------------------- units ------------------------------- *)
\* DWARF5 Table 7.2
UtCode(t) == CASE t = "DW_UT_compile" -> 1 [] t = "DW_UT_type" -> 2 [] t = "DW_UT_partial" -> 3 [] t = "DW_UT_skeleton" -> 4
               [] t = "DW_UT_split_compile" -> 5 [] t = "DW_UT_split_type" -> 6
InitLenSize(ctx) == IF ctx.fmt = 32 THEN 4 ELSE 12
\* header after unit_length: (utype "legacy" = DWARF2-4 .debug_info header; "tu4" = DWARF4 .debug_types header)
HeaderTail(u) ==
  LET c == u.ctx   ao == Fix(N(u.abbrevOff), OffSize(c), c.le)   ver == Fix(N(c.ver), 2, c.le) IN
  CASE u.utype = "legacy" -> ver \o ao \o <<c.asz>>
    [] u.utype = "tu4" -> ver \o ao \o <<c.asz>> \o Fix(u.sig, 8, c.le) \o Fix(N(u.typeoff), OffSize(c), c.le)
    [] u.utype \in {"DW_UT_compile", "DW_UT_partial"} -> ver \o <<UtCode(u.utype), c.asz>> \o ao
    [] u.utype \in {"DW_UT_skeleton", "DW_UT_split_compile"} -> ver \o <<UtCode(u.utype), c.asz>> \o ao \o Fix(u.sig, 8, c.le)
    [] u.utype \in {"DW_UT_type", "DW_UT_split_type"} ->
         ver \o <<UtCode(u.utype), c.asz>> \o ao \o Fix(u.sig, 8, c.le) \o Fix(N(u.typeoff), OffSize(c), c.le)
HeaderSize(u) == InitLenSize(u.ctx) + Len(HeaderTail(u))

\* a die: [code, nullenc, attrs]; attrs are abstract attribute values aligned with the declaration's specs
EncDie(u, d) ==
  IF d.code = 0 THEN d.nullenc
  ELSE UlebOfNat(d.code) \o Flat([i \in 1..Len(d.attrs) |-> EncForm(d.attrs[i], u.ctx)])
DieBytesSeq(u) == [i \in 1..Len(u.dies) |-> EncDie(u, u.dies[i])]
BodyBytes(u) == Flat(DieBytesSeq(u))
UnitBytes(u) ==
  LET tail == HeaderTail(u)   body == BodyBytes(u)   n == Len(tail) + Len(body)   c == u.ctx IN
  (IF c.fmt = 32 THEN Fix(N(n), 4, c.le) ELSE <<255, 255, 255, 255>> \o Fix(N(n), 8, c.le)) \o tail \o body
UnitSize(u) == HeaderSize(u) + Len(BodyBytes(u))

(* ------------------------ tree structure (tokens) ---------------------- *)
\* over any sequence `ks` of BOOLEAN-or-null markers: kids[i] \in {"kids", "leaf", "null"}
RECURSIVE SkipSub(_, _, _)
SkipSub(ks, j, d) == IF d = 0 \/ j > Len(ks) THEN j
                     ELSE SkipSub(ks, j + 1, IF ks[j] = "kids" THEN d + 1 ELSE IF ks[j] = "null" THEN d - 1 ELSE d)
After(ks, i) == IF ks[i] = "kids" THEN SkipSub(ks, i + 1, 1) ELSE i + 1         \* index just past the subtree of i
\* parent by backward scan (declarative): the nearest earlier "kids" entry whose subtree is still open at i
RECURSIVE ParScan(_, _, _)
ParScan(ks, j, d) == IF j = 0 THEN 0
                     ELSE IF ks[j] = "kids" /\ d = 0 THEN j
                     ELSE ParScan(ks, j - 1, IF ks[j] = "null" THEN d + 1 ELSE IF ks[j] = "kids" THEN d - 1 ELSE d)
ParentIx(ks, i) == ParScan(ks, i - 1, 0)
\* parent by the writer's stack discipline (operational): run a stack over the prefix
RECURSIVE StackRun(_, _, _)
StackRun(ks, i, st) ==    \* returns the stack before entry i is processed
  IF i = 1 THEN st
  ELSE LET p == StackRun(ks, i - 1, st)   k == ks[i - 1] IN
       IF k = "kids" THEN Append(p, i - 1) ELSE IF k = "null" /\ p # <<>> THEN SubSeq(p, 1, Len(p) - 1) ELSE p
ParentByStack(ks, i) == LET s == StackRun(ks, i, <<>>) IN IF s = <<>> THEN 0 ELSE s[Len(s)]
ChildrenIx(ks, i) == {j \in (i + 1)..Len(ks) : ParentIx(ks, j) = i /\ ks[j] # "null"}
TermIx(ks, i) == After(ks, i) - 1                                                 \* the null closing i's children

KindsOf(u) == [i \in 1..Len(u.dies) |-> IF u.dies[i].code = 0 THEN "null"
                                        ELSE IF DeclOf(u.abbrevs, u.dies[i].code).kids THEN "kids" ELSE "leaf"]

(* ------------------------------- the view ------------------------------ *)
RECURSIVE SumTo(_, _)
SumTo(s, k) == IF k = 0 THEN 0 ELSE s[k] + SumTo(s, k - 1)
\* value translation (what "resolved value" means per form class, DWARF5 7.5.5 / 7.26 / 7.27 / 7.28 / 7.29)
ValOf(a, ctx, env) ==
  LET f == FinalAttr(a)   form == f.form IN
  CASE form = "DW_FORM_strp" -> [k |-> "bytes", b |-> CStrAt(StrSec, f.v.n).s]
    [] form = "DW_FORM_line_strp" -> [k |-> "bytes", b |-> CStrAt(LineStrSec, f.v.n).s]
    [] form = "DW_FORM_flag" -> [k |-> "bool", t |-> (IF IsSmall(f.v) THEN f.v.n # 0 ELSE TRUE)]
    [] form = "DW_FORM_flag_present" -> [k |-> "bool", t |-> TRUE]
    [] form \in {"DW_FORM_strx", "DW_FORM_strx1", "DW_FORM_strx2", "DW_FORM_strx3", "DW_FORM_strx4"} /\ env.bases ->
         [k |-> "bytes", b |-> CStrAt(StrSec, StrxTarget(env.index)).s]
    [] form \in {"DW_FORM_addrx", "DW_FORM_addrx1", "DW_FORM_addrx2", "DW_FORM_addrx3", "DW_FORM_addrx4"} /\ env.bases ->
         [k |-> "num", v |-> AddrVals(ctx)[env.index + 1]]
    [] form \in {"DW_FORM_loclistx", "DW_FORM_rnglistx"} /\ env.bases ->
         [k |-> "num", v |-> N(ListsBase(ctx) + ListOffs(ctx)[env.index + 1])]
    [] OTHER -> RawOf(a, ctx)

\* the entry a reference-class value designates (DWARF5 7.5.4: unit-relative forms add the unit's offset,
\* DW_FORM_ref_addr is section-relative), -1 when the value is not a small number
RefT(a, uoff) ==
  LET f == FinalAttr(a) IN
  CASE f.form \in {"DW_FORM_ref1", "DW_FORM_ref2", "DW_FORM_ref4", "DW_FORM_ref8"} /\ IsSmall(f.v) -> uoff + f.v.n
    [] f.form = "DW_FORM_ref_udata" /\ Len(f.v.b) <= 4 -> uoff + GroupsNat(LebDec(f.v.b, FALSE).val.g)
    [] f.form = "DW_FORM_ref_addr" /\ IsSmall(f.v) -> f.v.n
    [] OTHER -> -1
AttrView(a, spec, off, ctx, env, uoff) ==
  [name |-> spec.name, form |-> FinalAttr(a).form, raw |-> RawOf(a, ctx), val |-> ValOf(a, ctx, env),
   off |-> off, indir |-> IndirLen(a), reft |-> RefT(a, uoff)]

\* env for index forms: every generated index-form attribute carries its index in a.ix
EnvOf(a) == [bases |-> TRUE, index |-> IF "ix" \in DOMAIN FinalAttr(a) THEN FinalAttr(a).ix ELSE 0]

DieView(u, uoff, i, dbs, ks) ==
  LET d == u.dies[i]
      off == uoff + HeaderSize(u) + SumTo([j \in 1..Len(dbs) |-> Len(dbs[j])], i - 1)
  IN IF d.code = 0
     THEN [off |-> off, size |-> Len(dbs[i]), code |-> 0, tag |-> -1, kids |-> FALSE, attrs |-> <<>>,
           parent |-> IF ParentIx(ks, i) = 0 THEN -1 ELSE ParentIx(ks, i), children |-> {}, isnull |-> TRUE]
     ELSE LET decl == DeclOf(u.abbrevs, d.code)
              alens == [j \in 1..Len(d.attrs) |-> Len(EncForm(d.attrs[j], u.ctx))]
              a0 == off + Len(UlebOfNat(d.code))
          IN [off |-> off, size |-> Len(dbs[i]), code |-> d.code, tag |-> decl.tag, kids |-> decl.kids,
              attrs |-> [j \in 1..Len(d.attrs) |-> AttrView(d.attrs[j], decl.specs[j], a0 + SumTo(alens, j - 1), u.ctx, EnvOf(d.attrs[j]), uoff)],
              parent |-> IF ParentIx(ks, i) = 0 THEN -1 ELSE ParentIx(ks, i), children |-> ChildrenIx(ks, i), isnull |-> FALSE]

UnitView(u, uoff) ==
  LET dbs == DieBytesSeq(u)   ks == KindsOf(u) IN
  [off |-> uoff, die_off |-> uoff + HeaderSize(u), size |-> UnitSize(u), unit_length |-> UnitSize(u) - InitLenSize(u.ctx),
   ver |-> u.ctx.ver, fmt |-> u.ctx.fmt, asz |-> u.ctx.asz, utype |-> u.utype, abbrev_off |-> u.abbrevOff,
   sig |-> u.sig, typeoff |-> u.typeoff,
   dies |-> [i \in 1..Len(u.dies) |-> DieView(u, uoff, i, dbs, ks)]]

RECURSIVE UnitOffs(_, _)
UnitOffs(us, k) == IF k = 1 THEN 0 ELSE UnitOffs(us, k - 1) + UnitSize(us[k - 1])
InfoBytes(us) == Flat([k \in 1..Len(us) |-> UnitBytes(us[k])])

(* ---------------------------- byte-level reader ------------------------ *)
\* walks the encoded unit body with FormLen only (what a reader knows) and returns the entry start offsets
RECURSIVE ReadDies(_, _, _, _)
ReadDies(bs, at, u, acc) ==       \* bs = whole unit bytes, at = 1-based index of the next entry
  IF at > Len(bs) THEN acc
  ELSE LET c == LebDec(SubSeq(bs, at, Len(bs)), FALSE)   code == GroupsNat(c.val.g) IN
       IF code = 0 THEN ReadDies(bs, at + c.used, u, Append(acc, at - 1))
       ELSE LET decl == DeclOf(u.abbrevs, code)
                RECURSIVE Skip(_, _)
                Skip(j, p) == IF j > Len(decl.specs) THEN p ELSE Skip(j + 1, p + FormLen(decl.specs[j].form, bs, p, u.ctx))
            IN ReadDies(bs, Skip(1, at + c.used), u, Append(acc, at - 1))

(* -------------------------------- writers ------------------------------ *)
AtSibling == 1      \* DW_AT_sibling
AtName == 3
AtConst == 28       \* DW_AT_const_value
AtType == 73
AtDeclLine == 59
AtStrOffsetsBase == 114
AtAddrBase == 115
AtRnglistsBase == 116
AtLoclistsBase == 140
TagCU == 17
TagVariable == 52
TagSubprogram == 46
TagTypedef == 22

U0 == [ctx |-> Ctx(4, 32, 8, TRUE), utype |-> "legacy", abbrevOff |-> 0, abbrevs |-> <<>>, dies |-> <<>>, sig |-> W(<<1, 2, 3, 4, 5, 6, 7, 136>>), typeoff |-> 0]
A(form, v) == [form |-> form, v |-> v]
Ax(form, v, ix) == [form |-> form, v |-> v, ix |-> ix]
Ind(inner) == [form |-> "DW_FORM_indirect", v |-> N(0), inner |-> inner]
NullDie == [code |-> 0, nullenc |-> <<0>>, attrs |-> <<>>]
Null2Die == [code |-> 0, nullenc |-> <<128, 0>>, attrs |-> <<>>]

\* ---- mode "forms"
\* root: compile unit with the four base attributes (sec_offset)
RootDecl == Decl(1, TagCU, TRUE, <<Spec1(AtStrOffsetsBase, "DW_FORM_sec_offset"), Spec1(AtAddrBase, "DW_FORM_sec_offset"),
                                   Spec1(AtRnglistsBase, "DW_FORM_sec_offset"), Spec1(AtLoclistsBase, "DW_FORM_sec_offset")>>)
RootDie(ctx) == [code |-> 1, nullenc |-> <<>>,
                 attrs |-> <<A("DW_FORM_sec_offset", N(HdrLen(ctx))), A("DW_FORM_sec_offset", N(HdrLen(ctx))),
                             A("DW_FORM_sec_offset", N(ListsBase(ctx))), A("DW_FORM_sec_offset", N(ListsBase(ctx)))>>]
MaxW(w) == [i \in 1..w |-> 255]
SignB(w) == [i \in 1..w |-> IF i = w THEN 128 ELSE 0]
NumVals(w) == {N(0), N(1), W(MaxW(w)), W(SignB(w))}
UlebVals == {UlebOfNat(0), UlebOfNat(1), UlebOfNat(127), UlebOfNat(128), UlebPadded(5, 2), <<255, 255, 255, 255, 255, 255, 255, 255, 255, 1>>}
SlebVals == {SlebOfInt(0), SlebOfInt(-1), SlebOfInt(63), SlebOfInt(64), SlebOfInt(-65), SlebPadded(-3, 2),
             <<128, 128, 128, 128, 128, 128, 128, 128, 128, 127>>}
\* 64: the one-byte ULEB128 length with bit 6 set (a signed reading makes it negative); 300: a two-byte length
BlockVals == {<<>>, <<7>>, [i \in 1..64 |-> (i * 5) % 256], [i \in 1..300 |-> (i * 7) % 256]}
\* abstract values per form (each is one attribute value)
ValuesOf(form, ctx) ==
  CASE form = "DW_FORM_data16" -> {A(form, B([i \in 1..16 |-> i * 15]))}
    [] form \in {"DW_FORM_strp", "DW_FORM_strp_sup", "DW_FORM_GNU_strp_alt"} -> {A(form, N(StrOffs[i])) : i \in 1..Len(StrOffs)}
    [] form = "DW_FORM_line_strp" -> {A(form, N(LineStrOffs[i])) : i \in 1..2}
    [] form \in {"DW_FORM_strx1", "DW_FORM_strx2", "DW_FORM_strx3", "DW_FORM_strx4"} -> {Ax(form, N(i), i) : i \in 0..4}
    [] form \in {"DW_FORM_addrx1", "DW_FORM_addrx2", "DW_FORM_addrx3", "DW_FORM_addrx4"} -> {Ax(form, N(i), i) : i \in 0..2}
    [] form \in {"DW_FORM_strx"} -> {Ax(form, B(UlebOfNat(i)), i) : i \in 0..4} \cup {Ax(form, B(UlebPadded(2, 1)), 2)}
    [] form \in {"DW_FORM_addrx"} -> {Ax(form, B(UlebOfNat(i)), i) : i \in 0..2} \cup {Ax(form, B(UlebPadded(1, 2)), 1)}
    [] form \in {"DW_FORM_loclistx", "DW_FORM_rnglistx"} -> {Ax(form, B(UlebOfNat(i)), i) : i \in 0..1}
    [] form = "DW_FORM_flag" -> {A(form, N(0)), A(form, N(1)), A(form, N(255))}
    [] FixedWidth(form, ctx) > 0 -> {A(form, v) : v \in NumVals(FixedWidth(form, ctx))}
    [] form \in UlebForms -> {A(form, B(v)) : v \in UlebVals}
    [] form \in SlebForms -> {A(form, B(v)) : v \in SlebVals}
    [] form = "DW_FORM_string" -> {A(form, B(<<>>)), A(form, B(<<104, 105>>)), A(form, B(LongStr))}
    [] form \in BlockForms -> {A(form, B(v)) : v \in IF form = "DW_FORM_block1" THEN {<<>>, <<7>>, [i \in 1..255 |-> i]} ELSE BlockVals}
    [] form = "DW_FORM_flag_present" -> {A(form, N(0))}
    [] form = "DW_FORM_implicit_const" -> {A(form, B(v)) : v \in SlebVals}
    [] form = "DW_FORM_indirect" ->
         {Ind(A("DW_FORM_data1", N(200))), Ind(A("DW_FORM_udata", B(UlebOfNat(300)))), Ind(A("DW_FORM_strp", N(1))),
          Ind(A("DW_FORM_string", B(<<104, 105>>))), Ind(A("DW_FORM_flag_present", N(0))), Ind(A("DW_FORM_sdata", B(SlebOfInt(-2)))),
          Ind(A("DW_FORM_block1", B(<<1, 2, 3>>))), Ind(A("DW_FORM_ref4", N(11))), Ind(Ind(A("DW_FORM_data2", N(513)))),
          Ind(Ax("DW_FORM_strx1", N(1), 1)), Ind(A("DW_FORM_addr", N(4096))),
          \* the actual form code is a ULEB128 number (7.5.3): vendor forms have two-byte codes
          Ind(A("DW_FORM_GNU_strp_alt", N(StrOffs[1]))), Ind(A("DW_FORM_GNU_ref_alt", N(11))), Ind(A("DW_FORM_strp_sup", N(StrOffs[1])))}
FormsUnit(ctx, form, a) ==
  LET spec == [name |-> AtName, form |-> form, ic |-> IF form = "DW_FORM_implicit_const" THEN a.v.b ELSE <<>>]
      child == Decl(2, TagVariable, FALSE, <<spec, Spec1(AtDeclLine, "DW_FORM_data1")>>)
  IN [U0 EXCEPT !.ctx = ctx, !.utype = IF ctx.ver >= 5 THEN "DW_UT_compile" ELSE "legacy",
                !.abbrevs = <<RootDecl, child>>,
                !.dies = <<RootDie(ctx), [code |-> 2, nullenc |-> <<>>, attrs |-> <<a, A("DW_FORM_data1", N(165))>>], NullDie>>]
FormsSet == UNION {UNION {{<<form, <<FormsUnit(ctx, form, a)>>>> : a \in ValuesOf(form, ctx)} : form \in Forms} : ctx \in AllCtx}

\* ---- mode "units": header kinds, abbreviation sharing, sparse codes, unknown tag/attribute numbers
UnkDecl == Decl(300, 21845, TRUE, <<Spec1(13107, "DW_FORM_data1"), Spec1(AtName, "DW_FORM_string")>>)     \* tag 0x5555, attribute 0x3333
LeafDecl == Decl(70000, TagVariable, FALSE, <<Spec1(AtConst, "DW_FORM_data1")>>)                            \* 3-byte abbreviation code
\* an entry whose three values have widths that depend on the unit's parameters (offset size, address size, version): units of
\* different parameters that SHARE an abbreviation table must each read them with their own widths
SizedDecl == Decl(5, TagVariable, FALSE, <<Spec1(AtName, "DW_FORM_strp"), Spec1(17, "DW_FORM_addr"), Spec1(13108, "DW_FORM_ref_addr")>>)
\* an intra-file unit import (dwz style): DW_TAG_imported_unit with DW_AT_import in DW_FORM_ref_addr - an entry like any other
ImportDecl == Decl(6, 61, FALSE, <<Spec1(24, "DW_FORM_ref_addr")>>)
SmallTree(ctx) == << [code |-> 300, nullenc |-> <<>>, attrs |-> <<A("DW_FORM_data1", N(9)), A("DW_FORM_string", B(<<117>>))>>],
                     [code |-> 70000, nullenc |-> <<>>, attrs |-> <<A("DW_FORM_data1", N(1))>>],
                     [code |-> 5, nullenc |-> <<>>, attrs |-> <<A("DW_FORM_strp", N(StrOffs[1])), A("DW_FORM_addr", N(4096)), A("DW_FORM_ref_addr", N(11))>>],
                     [code |-> 6, nullenc |-> <<>>, attrs |-> <<A("DW_FORM_ref_addr", N(HdrLen(ctx)))>>],
                     [code |-> 70000, nullenc |-> <<>>, attrs |-> <<A("DW_FORM_data1", N(2))>>], NullDie >>
UnitKinds(ctx) == IF ctx.ver >= 5 THEN {"DW_UT_compile", "DW_UT_partial", "DW_UT_skeleton", "DW_UT_split_compile", "DW_UT_type", "DW_UT_split_type"}
                  ELSE {"legacy"}
MkUnit(ctx, ut, aoff) == [U0 EXCEPT !.ctx = ctx, !.utype = ut, !.abbrevOff = aoff, !.abbrevs = <<UnkDecl, LeafDecl, SizedDecl, ImportDecl>>, !.dies = SmallTree(ctx),
                                    !.typeoff = IF ut \in {"DW_UT_type", "DW_UT_split_type", "tu4"} THEN 0 ELSE 0]
\* typeoff is fixed up at emission (it designates the second die of the unit)
UnitsSet ==
  UNION {{<<"unitkind", <<MkUnit(ctx, ut, 0)>>>> : ut \in UnitKinds(ctx)} : ctx \in AllCtx}
  \* three units of mixed parameters sharing / not sharing abbreviation tables
  \cup {<<"mixed", <<MkUnit(c1, IF c1.ver >= 5 THEN "DW_UT_compile" ELSE "legacy", 0),
                     MkUnit(c2, IF c2.ver >= 5 THEN "DW_UT_partial" ELSE "legacy", sh),
                     MkUnit(c1, IF c1.ver >= 5 THEN "DW_UT_compile" ELSE "legacy", 0)>>>> :
          c1 \in {Ctx(2, 32, 4, TRUE), Ctx(5, 64, 8, TRUE), Ctx(4, 32, 8, TRUE)},
          c2 \in {Ctx(3, 64, 8, TRUE), Ctx(5, 32, 4, TRUE), Ctx(4, 64, 4, TRUE)}, sh \in {0, 1}}
  \cup {<<"mixed", <<MkUnit(c1, IF c1.ver >= 5 THEN "DW_UT_compile" ELSE "legacy", 0),
                     MkUnit(c2, IF c2.ver >= 5 THEN "DW_UT_partial" ELSE "legacy", sh)>>>> :
          c1 \in {Ctx(2, 64, 8, FALSE), Ctx(5, 32, 4, FALSE)},
          c2 \in {Ctx(3, 32, 4, FALSE), Ctx(5, 64, 8, FALSE)}, sh \in {0, 1}}
\* two v4 type units (.debug_types) and - third in the list, but alone in .debug_info - a compile unit whose entries refer to them by
\* type signature (DW_FORM_ref_sig8); its abbreviation table is a private one behind the type units' table
Sig2 == W(<<9, 9, 9, 9, 0, 0, 0, 1>>)
SigRefCU(ctx) == [U0 EXCEPT !.ctx = ctx, !.utype = "legacy", !.abbrevOff = 1,
                            !.abbrevs = <<Decl(1, TagCU, TRUE, <<>>), Decl(2, TagTypedef, FALSE, <<Spec1(AtType, "DW_FORM_ref_sig8")>>)>>,
                            !.dies = << [code |-> 1, nullenc |-> <<>>, attrs |-> <<>>],
                                        [code |-> 2, nullenc |-> <<>>, attrs |-> <<A("DW_FORM_ref_sig8", Sig2)>>],
                                        [code |-> 2, nullenc |-> <<>>, attrs |-> <<A("DW_FORM_ref_sig8", U0.sig)>>], NullDie >>]
TypesSet == {<<"tu4", <<MkUnit(Ctx(4, f, a, l), "tu4", 0), [MkUnit(Ctx(4, f, a, l), "tu4", 0) EXCEPT !.sig = Sig2], SigRefCU(Ctx(4, f2, a, l))>>>> :
               f \in {32, 64}, f2 \in {32, 64}, a \in {4, 8}, l \in BOOLEAN}

\* ---- mode "shapes": the token writer
\* abbreviations: 1 root/open (children), 2 leaf (const_value data1), 3 opensib (children + DW_AT_sibling in the unit's sibling form),
\* 4 leafref (DW_AT_type ref4 -> the unit's root), 5 leafrefaddr (DW_AT_type ref_addr -> root of the first unit), 6 leafrefu (ref_udata -> root)
ShapeDecls(sf) == << Decl(1, TagCU, TRUE, <<>>), Decl(2, TagVariable, FALSE, <<Spec1(AtConst, "DW_FORM_data1")>>),
                     Decl(3, TagSubprogram, TRUE, <<Spec1(AtSibling, sf)>>), Decl(4, TagTypedef, FALSE, <<Spec1(AtType, "DW_FORM_ref4")>>),
                     Decl(5, TagTypedef, FALSE, <<Spec1(AtType, "DW_FORM_ref_addr")>>), Decl(6, TagTypedef, FALSE, <<Spec1(AtType, "DW_FORM_ref_udata")>>),
                     Decl(7, TagSubprogram, TRUE, <<Spec1(AtName, "DW_FORM_string")>>) >>
TokKinds == {"open", "leaf", "opensib", "leafref", "leafrefaddr", "leafrefu", "openn"}
TokCode(k) == CASE k = "open" -> 1 [] k = "leaf" -> 2 [] k = "opensib" -> 3 [] k = "leafref" -> 4 [] k = "leafrefaddr" -> 5
                [] k = "leafrefu" -> 6 [] k = "openn" -> 7 [] k \in {"null", "null2"} -> 0
TokHasKids(k) == k \in {"open", "opensib", "openn"}
\* a shape unit under construction: [ctx, sf, toks]
\* size of a token's entry (values do not influence sizes: ref_udata is always written as a 2-byte ULEB)
RefAddrW(ctx) == IF ctx.ver = 2 THEN ctx.asz ELSE OffSize(ctx)
SibW(sf, ctx) == CASE sf = "DW_FORM_ref4" -> 4 [] sf = "DW_FORM_ref_udata" -> 2 [] sf = "DW_FORM_ref_addr" -> RefAddrW(ctx)
                   [] sf = "DW_FORM_ref8" -> 8 [] sf = "DW_FORM_ref2" -> 2 [] sf = "DW_FORM_ref1" -> 1
TokSize(k, sf, ctx) == CASE k \in {"open", "null"} -> 1 [] k = "null2" -> 2 [] k = "leaf" -> 2 [] k = "opensib" -> 1 + SibW(sf, ctx)
                         [] k = "leafref" -> 5 [] k = "leafrefaddr" -> 1 + RefAddrW(ctx) [] k = "leafrefu" -> 3 [] k = "openn" -> 3
ShapeHdr(ctx) == InitLenSize(ctx) + (IF ctx.ver >= 5 THEN 4 ELSE 3) + OffSize(ctx)
Uleb2(n) == <<(n % 128) + 128, n \div 128>>                           \* fixed-length (2-byte) ULEB128 of n < 16384
TokKs(toks) == [i \in 1..Len(toks) |-> IF toks[i] \in {"null", "null2"} THEN "null" ELSE IF TokHasKids(toks[i]) THEN "kids" ELSE "leaf"]
ShapeUnit(su, uoff) ==
  LET ctx == su.ctx   toks == su.toks   ks == TokKs(toks)
      sizes == [i \in 1..Len(toks) |-> TokSize(toks[i], su.sf, ctx)]
      rel(i) == ShapeHdr(ctx) + SumTo(sizes, i - 1)                   \* unit-relative offset of entry i
      total == ShapeHdr(ctx) + SumTo(sizes, Len(toks))
      sibrel(i) == IF After(ks, i) <= Len(toks) THEN rel(After(ks, i)) ELSE total
      sibval(i) == CASE su.sf = "DW_FORM_ref_udata" -> B(Uleb2(sibrel(i)))
                     [] su.sf = "DW_FORM_ref_addr" -> N(uoff + sibrel(i))
                     [] OTHER -> N(sibrel(i))
      die(i) == LET k == toks[i] IN
                CASE k = "null" -> NullDie [] k = "null2" -> Null2Die
                  [] k = "open" -> [code |-> 1, nullenc |-> <<>>, attrs |-> <<>>]
                  [] k = "openn" -> [code |-> 7, nullenc |-> <<>>, attrs |-> <<A("DW_FORM_string", B(<<102>>))>>]
                  [] k = "leaf" -> [code |-> 2, nullenc |-> <<>>, attrs |-> <<A("DW_FORM_data1", N((i * 37) % 256))>>]
                  [] k = "opensib" -> [code |-> 3, nullenc |-> <<>>, attrs |-> <<A(su.sf, sibval(i))>>]
                  [] k = "leafref" -> [code |-> 4, nullenc |-> <<>>, attrs |-> <<A("DW_FORM_ref4", N(ShapeHdr(ctx)))>>]
                  [] k = "leafrefaddr" -> [code |-> 5, nullenc |-> <<>>, attrs |-> <<A("DW_FORM_ref_addr", N(su.firstroot))>>]
                  [] k = "leafrefu" -> [code |-> 6, nullenc |-> <<>>, attrs |-> <<A("DW_FORM_ref_udata", B(Uleb2(ShapeHdr(ctx))))>>]
  IN [U0 EXCEPT !.ctx = ctx, !.utype = IF ctx.ver >= 5 THEN "DW_UT_compile" ELSE "legacy",
                !.abbrevOff = IF uoff = 0 THEN 0 ELSE 1,
                !.abbrevs = ShapeDecls(su.sf), !.dies = [i \in 1..Len(toks) |-> die(i)]]
RECURSIVE ShapeUnits(_, _, _)
ShapeUnits(sus, k, uoff) ==
  IF k > Len(sus) THEN <<>>
  ELSE LET u == ShapeUnit(sus[k], uoff) IN <<u>> \o ShapeUnits(sus, k + 1, uoff + UnitSize(u))
ShapeCtxs == {<<Ctx(4, 32, 8, TRUE), "DW_FORM_ref4">>, <<Ctx(2, 32, 4, FALSE), "DW_FORM_ref_addr">>, <<Ctx(5, 64, 8, TRUE), "DW_FORM_ref_udata">>,
              <<Ctx(3, 64, 4, TRUE), "DW_FORM_ref_addr">>, <<Ctx(5, 32, 4, FALSE), "DW_FORM_ref8">>, <<Ctx(4, 64, 8, FALSE), "DW_FORM_ref2">>,
              <<Ctx(2, 32, 8, TRUE), "DW_FORM_ref_addr">>}

(* ------------------------------ emission ------------------------------- *)
\* fix up type_offset (designates the second entry of the unit) once sizes are known
FixType(u) == IF u.utype \in {"DW_UT_type", "DW_UT_split_type", "tu4"}
              THEN [u EXCEPT !.typeoff = HeaderSize(u) + Len(EncDie(u, u.dies[1]))] ELSE u
\* abbreviation tables: the first unit's table at offset 0; a unit with abbrevOff = 1 gets a private table after it
RECURSIVE PrivOff(_, _)
PrivOff(base, k) ==          \* offset of the private table of unit k
  IF k = 1 THEN Len(EncAbbrevs(base[1].abbrevs))
  ELSE PrivOff(base, k - 1) + (IF base[k - 1].abbrevOff = 1 THEN Len(EncAbbrevs(base[k - 1].abbrevs)) ELSE 0)
FinalOf(us, shapes) ==
  LET base == IF shapes THEN ShapeUnits(us, 1, 0) ELSE us
  IN [k \in 1..Len(base) |-> FixType(IF base[k].abbrevOff = 1 THEN [base[k] EXCEPT !.abbrevOff = PrivOff(base, k)] ELSE base[k])]
AbbrevSecOf(us, shapes) ==
  LET base == IF shapes THEN ShapeUnits(us, 1, 0) ELSE us IN
  EncAbbrevs(base[1].abbrevs) \o Flat([k \in 1..Len(base) |-> IF base[k].abbrevOff = 1 THEN EncAbbrevs(base[k].abbrevs) ELSE <<>>])

=============================================================================
