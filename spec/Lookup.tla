------------------------------- MODULE Lookup -------------------------------
(***************************************************************************)
(* C13 - address-range and name lookup tables resolve to the right         *)
(* compilation unit; unit lookup by contained / exact offset.              *)
(*                                                                         *)
(* Transcribed: DWARF5 6.1.2 + 7.21 (.debug_aranges: set header, padding   *)
(* of the header so that the first tuple starts at a multiple of the tuple *)
(* size, (0,0) terminator), 6.1.1 + 7.19 (.debug_pubnames/.debug_pubtypes: *)
(* set header, (offset, NUL-terminated name)*, 0 terminator, offsets are   *)
(* relative to the unit header), 7.5.1 (unit headers: a unit's extent is   *)
(* its initial length field plus unit_length; units tile .debug_info).     *)
(* Unit/abbreviation/DIE encoders are copied from DieTree.tla (C04).       *)
(*                                                                         *)
(* Four writers/machines, selected by `mode`:                              *)
(*  "aranges"   token writer ArAdd(b,l)/ArNextSet building every table of  *)
(*              <= mt non-overlapping tuples over an abstract address grid *)
(*              0..GridMax, in every order, split over <= ms sets (empty   *)
(*              sets, empty section included).  Every state is a           *)
(*              finished table.  The grid is placed in the address space   *)
(*              by the context (low / >= 2^31 / >= 2^63), address size 4/8 *)
(*              per set, both byte orders.                                 *)
(*  "names"     token writer NmNewSet(u)/NmAdd(d) building name tables     *)
(*              that refer to the entries of a multi-unit .debug_info.     *)
(*              The extent of a set is its unit_length (7.2.2, 7.19: the   *)
(*              next set starts at the byte after unit_length bytes), not  *)
(*              the position of its terminator: the context `par` gives    *)
(*              every set a number of padding bytes BETWEEN its terminator *)
(*              and the end of its unit_length (fixed per set position     *)
(*              and/or up to a multiple of par.align, as producers that    *)
(*              pad contributions to 4 or 8 bytes do), any padding byte.   *)
(*  "units"     the unit cache of a reader as a variable (set of parsed    *)
(*              unit offsets + iterator cursor) with actions GetCUAt,      *)
(*              GetCUContaining, IterNext, IterDrop; `obj` is the history. *)
(*              A history is a prefix of first touches (each unit targeted *)
(*              at most once, any order, any kind) followed by one probe   *)
(*              (every offset -1..size+1).  Finished histories are emitted *)
(*              for replay.                                                *)
(*  "unitsfree" the same machine without discipline or history bound (any  *)
(*              action at any offset at any time): closure of cache states.*)
(*                                                                         *)
(* TLC checks on the specification itself:                                 *)
(*  BisectEqDecl   sort-by-begin + bisect_right - 1 + range test           *)
(*                 = declarative CuAt, for every table and grid address    *)
(*  ArRoundTrip    a byte-level set walker over Enc(table) recovers every  *)
(*                 tuple with its header and ends exactly at the section   *)
(*                 end, each terminator closing its set at unit_length     *)
(*  PadAgree       on tables whose sets start at multiples of their tuple  *)
(*                 size, padding measured from the section start equals    *)
(*                 padding measured from the set start                     *)
(*  OriginFree     ... and a byte-level reader that measures from the      *)
(*                 OTHER origin recovers the same table (Lookup_sim and    *)
(*                 Lookup_unaligned*.cfg; PadAgree is its arithmetic form) *)
(*  OriginMatters  (Lookup_unaligned*.cfg) conversely NO table with a      *)
(*                 tuple in a set that starts off its tuple alignment is   *)
(*                 recovered by the reader of the other origin: such bytes *)
(*                 have no origin-independent meaning                      *)
(*  NmPolicies     names published more than once: first-wins and          *)
(*                 last-wins are selections of one occurrence per name,    *)
(*                 equal iff no name repeats; the order facts NmPrec hold  *)
(*                 for both and are the full encoded order iff no repeat   *)
(*  NmRoundTrip    byte-level name-set walker (header at the offset derived *)
(*                 from the previous unit_length, entries up to the        *)
(*                 terminator) = view; the bytes between each terminator   *)
(*                 and the next header are exactly the declared padding    *)
(*  NmSetsTile     set offsets computed from unit_length tile the section; *)
(*                 with padding the terminator does NOT end on the next    *)
(*                 header (the two ways of finding it differ)              *)
(*  NmDieInUnit    every absolute entry offset lies in the unit the set    *)
(*                 names (ties (b) to (c))                                 *)
(*  UnitsRight     in every reachable state the answer of the operational  *)
(*                 lookup (start at nearest cached unit <= o, walk by      *)
(*                 initial lengths) equals the declarative Containing/At;  *)
(*                 the cache only ever holds unit starts; the j-th step    *)
(*                 of an iterator yields the j-th unit                     *)
(*  UnitsTile      initial lengths read from the bytes give the writer's   *)
(*                 unit sizes; every offset lies in exactly one unit       *)
(* The library's deviation on tables without any range tuple (IndexError   *)
(* instead of "nothing") is reported under aranges.cu_offset_at_addr:      *)
(* noranges; fixes/C13-aranges-empty-table.patch.                          *)
(*                                                                         *)
(* Deliberately not asserted / outside the model:                          *)
(*  - sets that start at an offset that is not a multiple of their tuple   *)
(*    size (only possible when address sizes are mixed in one section: a   *)
(*    4-byte set with an even number of tuples followed by an 8-byte set). *)
(*    DWARF 2 6.1.2, DWARF 3/4 6.1.2, DWARF 5 6.1.2/7.21 all say the first *)
(*    tuple "begins at an offset that is a multiple of the size of a       *)
(*    single tuple ... The header is padded, if necessary, to that         *)
(*    boundary" and none names the origin of that offset.  Producers (GCC  *)
(*    DWARF_ARANGES_PAD_SIZE, gas, LLVM) pad the 12-byte header to the     *)
(*    tuple size, i.e. from the SET start; binutils readelf (hdrptr -      *)
(*    start of the set), LLVM (which moreover rejects a set whose length   *)
(*    is not a multiple of the tuple size, as every section-relative       *)
(*    off-grid set is), elfutils and libdwarf read from the set start;     *)
(*    GDB and the library read from the SECTION start.  With one address   *)
(*    size per section every set length is a multiple of the tuple size    *)
(*    and the readings coincide (PadAgree, OriginFree); off the grid they  *)
(*    never do (OriginMatters), so whatever is asserted there takes a side *)
(*    the standard does not take: a library that switches from one reading *)
(*    to the other (seed C13-r4-1 switches it to binutils') still has the  *)
(*    property as stated.  Per-set address sizes ARE enumerated (contexts  *)
(*    mix, mix2: 8/4/8, 4/8/4) wherever the two readings agree.  Outside   *)
(*    the tiers, for whoever judges one reading to be fixed: C13_UNALIGNED *)
(*    =section (Lookup_unaligned_section.cfg, org = "section": green on    *)
(*    the library, aranges.parse/entries/cu_offset_at_addr:unaligned on a  *)
(*    set-relative reader) and C13_UNALIGNED=set (Lookup_unaligned.cfg,    *)
(*    the converse).                                                       *)
(*  - order of ARanges.entries (compared as a bag), 64-bit format tables,  *)
(*    segmented tables, overlapping or zero-length ranges.                 *)
(*  - WHICH occurrence a name published more than once maps to (tag        *)
(*    "dup"; pools PoolABA/Pool1/PoolMix/Pool2 enumerate the collision     *)
(*    patterns inside one set and across sets).  6.1.1 allows every set to *)
(*    publish any name (every unit of a real .debug_pubtypes publishes     *)
(*    "int"); the property says "map every encoded name to its unit offset *)
(*    and absolute entry offset", which a one-slot-per-name map can do for *)
(*    one occurrence only and does not say which.  namelut.py's docstrings *)
(*    (the documented API) say "basically a dictionary where the key is    *)
(*    the symbol name, and the value is the tuple (cu_offset, die_offset)  *)
(*    corresponding to the variable", "an ordered dictionary is used to    *)
(*    preserve the CU order (items are stored on a per-CU basis as         *)
(*    originally in the section)" with a groupby(cu_ofs) example: nothing  *)
(*    about last-one-wins; if anything the per-CU grouping promise is kept *)
(*    by a first-one-wins map (values in encoded order) and broken by the  *)
(*    present last-one-wins map (first slot, last value).  So asserted for *)
(*    dup tables is only what holds under every policy: key set, number of *)
(*    keys (nk), order facts NmPrec, value = one encoded occurrence (cu    *)
(*    and entry offset of the SAME occurrence), the same value through     *)
(*    items / [] / get on one object, that occurrence's DIE, set headers.  *)
(*    Seed C13-r4-2 (setdefault: first wins) keeps all of it and is not    *)
(*    reported; the policy the library follows is counted in the evidence  *)
(*    (dup_policy_observed) and C13_DUP_POLICY=last|first asserts one      *)
(*    (clause pubnames/pubtypes.dup-policy:dup) for whoever judges it      *)
(*    fixed.                                                               *)
(*  - what an out-of-range unit lookup raises (only "no unit").            *)
(***************************************************************************)
EXTENDS DwarfForms, TLC, Json, CSV, IOUtils

CONSTANTS Modes,
          GridMax, Lens, ArCtxs, Unaligned,               \* (a)
          MaxNames, MaxNameSets, NmPars,                  \* (b)
          UnitSecs, MaxPrefix, Repeat, OorInPrefix        \* (c)

VARIABLES mode, par, obj, cache, it, fin
vars == <<mode, par, obj, cache, it, fin>>

Range(s) == {s[i] : i \in 1..Len(s)}
RECURSIVE SumTo(_, _)
SumTo(s, k) == IF k = 0 THEN 0 ELSE s[k] + SumTo(s, k - 1)
AllZero(d) == \A i \in 1..Len(d) : d[i] = 0

(* ======================================================================= *)
(* (a) .debug_aranges                                                      *)
(* ======================================================================= *)
\* A table is a sequence of sets, a set a sequence of tuples [b, l] over the abstract grid.
\* Context: [id, aszs (address size of set k), le, hi (digits 2..4), hi8 (digits 5..8), pad (padding byte), mt (max tuples), ms (max sets)]
Z3 == <<0, 0, 0>>
Z4 == <<0, 0, 0, 0>>
\* org: the origin from which "an offset that is a multiple of the size of a single tuple" (6.1.2/7.21) is measured by the writer:
\*      "set" (start of the set; what GCC, gas, LLVM emit and binutils readelf, LLVM, elfutils, libdwarf read) or
\*      "section" (start of .debug_aranges; what GDB and the library read).  The two coincide on every set that starts at a
\*      multiple of its tuple size (PadAgree) and on no other set that has a tuple (OriginMatters).
ArCtxO(id, aszs, le, hi, hi8, pad, mt, ms, org) == [id |-> id, aszs |-> aszs, le |-> le, hi |-> hi, hi8 |-> hi8, pad |-> pad, mt |-> mt, ms |-> ms, org |-> org]
ArCtx(id, aszs, le, hi, hi8, pad, mt, ms) == ArCtxO(id, aszs, le, hi, hi8, pad, mt, ms, "set")
QuickArCtxs == { ArCtx("le8", <<8, 8, 8>>, TRUE, Z3, Z4, 0, 4, 2),
                 ArCtx("le4hi", <<4, 4, 4>>, TRUE, <<0, 0, 128>>, Z4, 0, 3, 3),
                 ArCtx("be8top", <<8, 8, 8>>, FALSE, Z3, <<0, 0, 0, 128>>, 0, 2, 3),
                 ArCtx("be4", <<4, 4, 4>>, FALSE, Z3, Z4, 170, 2, 3),
                 ArCtx("mix", <<8, 4, 8>>, TRUE, <<0, 0, 128>>, Z4, 0, 3, 3) }
ThoroughArCtxs == { ArCtx("le8", <<8, 8, 8>>, TRUE, Z3, Z4, 0, 4, 3),
                    ArCtx("le4hi", <<4, 4, 4>>, TRUE, <<0, 0, 128>>, Z4, 0, 4, 2),
                    ArCtx("be8top", <<8, 8, 8>>, FALSE, Z3, <<0, 0, 0, 128>>, 0, 3, 3),
                    ArCtx("be4", <<4, 4, 4>>, FALSE, Z3, Z4, 170, 3, 3),
                    ArCtx("mix", <<8, 4, 8>>, TRUE, <<0, 0, 128>>, Z4, 0, 4, 3),
                    ArCtx("mix2", <<4, 8, 4>>, FALSE, <<0, 16, 0>>, Z4, 0, 3, 3) }
UnalignedArCtxs == { ArCtx("mix", <<4, 8, 4>>, TRUE, Z3, Z4, 0, 2, 3), ArCtx("mixbe", <<4, 4, 8>>, FALSE, <<0, 0, 128>>, Z4, 0, 2, 3) }
\* the same (one more tuple, so that a 4-byte set with two tuples can be followed by a non-empty 8-byte set) written with the
\* section-relative reading; non-zero padding bytes in one context
UnalignedSecArCtxs == { ArCtxO("mix", <<4, 8, 4>>, TRUE, Z3, Z4, 0, 3, 3, "section"),
                        ArCtxO("mixbe", <<4, 4, 8>>, FALSE, <<0, 0, 128>>, Z4, 170, 3, 3, "section"),
                        ArCtxO("mix848", <<8, 4, 8>>, TRUE, Z3, Z4, 0, 3, 3, "section") }
SimArCtxs == { ArCtx("le8", <<8, 8, 8, 8>>, TRUE, Z3, Z4, 0, 6, 4),
               ArCtx("be4hi", <<4, 4, 4, 4>>, FALSE, <<0, 0, 128>>, Z4, 0, 6, 4),
               ArCtx("mix", <<8, 4, 4, 8>>, TRUE, <<0, 0, 128>>, Z4, 0, 6, 4) }
\* a context with a 4-byte set cannot place the grid above 2^32
ASSUME \A c \in ArCtxs : (\E k \in 1..Len(c.aszs) : c.aszs[k] = 4) => c.hi8 = Z4

\* debug_info_offset of set k (arbitrary section offsets; not monotone; one >= 2^31)
CuVals == <<N(300), N(0), W(<<1, 0, 0, 128>>), N(77)>>

QGrid == 0..(GridMax + 1)
AddrV(a, c) == W(<<a>> \o c.hi \o c.hi8)                        \* the address the abstract grid point a stands for
\* addresses far outside the grid (never inside a generated range)
FarBelow(c) == IF c.hi = Z3 /\ c.hi8 = Z4 THEN <<>> ELSE <<W(<<0, 0, 0, 0, 0, 0, 0, 0>>), W(<<255, 0, 0, 0, 0, 0, 0, 0>>)>>
FarAbove(c) == IF c.hi8[4] >= 128 THEN <<>> ELSE <<W(<<255, 255, 255, 255, 255, 255, 255, 255>>)>>

ArNT(t) == SumTo([k \in 1..Len(t) |-> Len(t[k])], Len(t))
ArFlat(t) == Flat([k \in 1..Len(t) |-> [i \in 1..Len(t[k]) |-> [b |-> t[k][i].b, l |-> t[k][i].l, k |-> k]]])
Overlap(b1, l1, b2, l2) == b1 < b2 + l2 /\ b2 < b1 + l1
\* the "every set header" view (readelf's): a set that holds nothing but its terminator is represented by that null tuple
\* (z = TRUE: address and length are the literal 0, not a grid point), every other set by its tuples
ArFlatE(t) == Flat([k \in 1..Len(t) |-> IF Len(t[k]) = 0 THEN <<[b |-> 0, l |-> 0, k |-> k, z |-> TRUE]>>
                                        ELSE [i \in 1..Len(t[k]) |-> [b |-> t[k][i].b, l |-> t[k][i].l, k |-> k, z |-> FALSE]]])

\* ---- declarative lookup: the set whose tuple contains a (0 = none)
ArHits(t, a) == {e \in Range(ArFlat(t)) : e.b <= a /\ a < e.b + e.l}
CuAt(t, a) == LET h == ArHits(t, a) IN IF h = {} THEN 0 ELSE (CHOOSE e \in h : TRUE).k

\* position class of a query address relative to the table (for coverage accounting only)
QClass(t, a) ==
  LET f == Range(ArFlat(t))   h == ArHits(t, a) IN
  IF f = {} THEN "empty"
  ELSE IF h # {} THEN LET e == CHOOSE x \in h : TRUE IN
                      IF a = e.b /\ (\E x \in f : x.b + x.l = a) THEN "adjacent"
                      ELSE IF e.l = 1 THEN "only" ELSE IF a = e.b THEN "first" ELSE IF a = e.b + e.l - 1 THEN "last" ELSE "inside"
  ELSE IF \E e \in f : e.b + e.l = a THEN "onepast"
  ELSE IF \A e \in f : a < e.b THEN "below"
  ELSE IF \A e \in f : a >= e.b + e.l THEN "above"
  ELSE "gap"

\* ---- operational lookup: stable sort by begin, bisect_right - 1, range test
RECURSIVE InsByBegin(_, _)
InsByBegin(s, e) == IF s = <<>> THEN <<e>>
                    ELSE IF e.b < Head(s).b THEN <<e>> \o s ELSE <<Head(s)>> \o InsByBegin(Tail(s), e)
RECURSIVE SortByBegin(_)
SortByBegin(s) == IF s = <<>> THEN <<>> ELSE InsByBegin(SortByBegin(SubSeq(s, 1, Len(s) - 1)), s[Len(s)])
RECURSIVE BisectRight(_, _, _, _)
BisectRight(keys, a, lo, hi) ==          \* insertion point to the right of every key <= a (0-based)
  IF lo >= hi THEN lo
  ELSE LET mid == (lo + hi) \div 2 IN
       IF a < keys[mid + 1] THEN BisectRight(keys, a, lo, mid) ELSE BisectRight(keys, a, mid + 1, hi)
OpCuAt(es, a) ==                          \* es = SortByBegin(ArFlat(t))
  LET keys == [i \in 1..Len(es) |-> es[i].b]
      i == BisectRight(keys, a, 0, Len(es))
  IN IF i = 0 THEN 0 ELSE IF es[i].b <= a /\ a < es[i].b + es[i].l THEN es[i].k ELSE 0

\* ---- encoder (32-bit format): unit_length, version 2, debug_info_offset, address_size, segment_selector_size 0,
\*      padding to a multiple of the tuple size from the context's origin (c.org), tuples, (0,0)
ArHdrLen == 12
TupSize(asz) == 2 * asz
FirstTupleRel(asz) == RoundUp(ArHdrLen, TupSize(asz))                           \* origin = start of the set
\* offset of the first tuple from the start of a set that starts at section offset so, under either origin
FirstTupleAt(so, asz, org) == IF org = "section" THEN RoundUp(so + ArHdrLen, TupSize(asz)) - so ELSE FirstTupleRel(asz)
OtherOrg(org) == IF org = "section" THEN "set" ELSE "section"
ArSetLenAt(so, n, asz, org) == FirstTupleAt(so, asz, org) + TupSize(asz) * (n + 1)
\* sizes by arithmetic (ArRoundTrip checks them against the encoder)
RECURSIVE ArSetOff(_, _, _)
ArSetOff(t, k, c) == IF k = 1 THEN 0
                     ELSE LET so == ArSetOff(t, k - 1, c) IN so + ArSetLenAt(so, Len(t[k - 1]), c.aszs[k - 1], c.org)
ArSetLenK(t, k, c) == ArSetLenAt(ArSetOff(t, k, c), Len(t[k]), c.aszs[k], c.org)
EncArSet(s, k, c, so) ==
  LET asz == c.aszs[k]
      body == Fix(N(2), 2, c.le) \o Fix(CuVals[k], 4, c.le) \o <<asz, 0>> \o Rep(c.pad, FirstTupleAt(so, asz, c.org) - ArHdrLen)
              \o Flat([i \in 1..Len(s) |-> Fix(AddrV(s[i].b, c), asz, c.le) \o Fix(N(s[i].l), asz, c.le)])
              \o Rep(0, TupSize(asz))
  IN Fix(N(Len(body)), 4, c.le) \o body
EncAr(t, c) == Flat([k \in 1..Len(t) |-> EncArSet(t[k], k, c, ArSetOff(t, k, c))])
ArAligned(t, c) == \A k \in 1..Len(t) : (ArSetOff(t, k, c) % TupSize(c.aszs[k])) = 0
\* sets that start off their tuple alignment and carry at least one tuple
ArOffGrid(t, c) == {k \in 1..Len(t) : (ArSetOff(t, k, c) % TupSize(c.aszs[k])) # 0 /\ Len(t[k]) > 0}

\* ---- views
\* per set: <<unit_length, version, address_size, segment_size, debug_info_offset>>
ArSetView(t, c) == [k \in 1..Len(t) |-> <<ArSetLenK(t, k, c) - 4, 2, c.aszs[k], 0, CuVals[k]>>]
\* per tuple in encoded order, by digits (for the round trip)
ArEntriesD(t, c) ==
  LET sv == ArSetView(t, c)   f == ArFlat(t) IN
  [i \in 1..Len(f) |-> LET asz == c.aszs[f[i].k] IN
     <<Digits(AddrV(f[i].b, c), asz), Digits(N(f[i].l), asz), Digits(CuVals[f[i].k], 4), sv[f[i].k][1], 2, asz, 0>>]

\* ---- byte-level reader: walks sets by unit_length, tuples up to the terminator; org = origin of the tuple alignment.
\*      A reader that runs off the section before it meets a terminator reports end = -1 (and is not tight).
ReadAr(bs, le, org) ==
  LET RECURSIVE RdSets(_, _, _)
      RdSets(off, acc, tight) ==
        IF off >= Len(bs) THEN [es |-> acc, end |-> off, tight |-> tight]
        ELSE LET ulen == SmallDec(Slice(bs, off + 1, 4), le, FALSE)
                 ver == SmallDec(Slice(bs, off + 5, 2), le, FALSE)
                 cu == FixDec(Slice(bs, off + 7, 4), le, FALSE).d
                 asz == bs[off + 11]
                 seg == bs[off + 12]
                 RECURSIVE RdTup(_, _)
                 RdTup(p, acc2) ==
                   IF p + 2 * asz > Len(bs) THEN [end |-> -1, es |-> acc2] ELSE
                   LET a == FixDec(Slice(bs, p + 1, asz), le, FALSE).d
                       l == FixDec(Slice(bs, p + asz + 1, asz), le, FALSE).d
                   IN IF AllZero(a) /\ AllZero(l) THEN [end |-> p + 2 * asz, es |-> acc2]
                      ELSE RdTup(p + 2 * asz, Append(acc2, <<a, l, cu, ulen, ver, asz, seg>>))
                 r == RdTup(off + FirstTupleAt(off, asz, org), <<>>)
             IN RdSets(off + 4 + ulen, acc \o r.es, tight /\ r.end = off + 4 + ulen)
  IN RdSets(0, <<>>, TRUE)

(* ---------------------------- writer (a) ------------------------------- *)
ArInit == \E c \in ArCtxs : par = c /\ obj = <<>> /\ cache = {} /\ it = [p |-> -1, n |-> 0] /\ fin = TRUE
ArAdd(b, l) ==
  /\ mode = "aranges" /\ Len(obj) > 0 /\ ArNT(obj) < par.mt /\ b + l <= GridMax + 1
  /\ \A e \in Range(ArFlat(obj)) : ~Overlap(b, l, e.b, e.l)
  /\ obj' = [obj EXCEPT ![Len(obj)] = Append(@, [b |-> b, l |-> l])]
  /\ UNCHANGED <<mode, par, cache, it, fin>>
ArNextSet ==
  /\ mode = "aranges" /\ Len(obj) < par.ms /\ Len(obj) < Len(par.aszs)
  /\ (Unaligned \/ (ArSetOff(obj, Len(obj) + 1, par) % TupSize(par.aszs[Len(obj) + 1])) = 0)
  /\ obj' = Append(obj, <<>>)
  /\ UNCHANGED <<mode, par, cache, it, fin>>

(* ======================================================================= *)
(* units, abbreviations, entries (copied from DieTree.tla)                 *)
(* ======================================================================= *)
Ctx(v, f, a, l) == [ver |-> v, fmt |-> f, asz |-> a, le |-> l]
Spec1(name, form) == [name |-> name, form |-> form, ic |-> <<>>]
Decl(code, tagc, kids, specs) == [code |-> code, tag |-> tagc, kids |-> kids, specs |-> specs]
EncSpec(s) == UlebOfNat(s.name) \o UlebOfNat(FormCode[s.form]) \o s.ic
EncDecl(d) == UlebOfNat(d.code) \o UlebOfNat(d.tag) \o <<IF d.kids THEN 1 ELSE 0>>
              \o Flat([i \in 1..Len(d.specs) |-> EncSpec(d.specs[i])]) \o <<0, 0>>
EncAbbrevs(ds) == Flat([i \in 1..Len(ds) |-> EncDecl(ds[i])]) \o <<0>>
\* DWARF5 Table 7.2
UtCode(t) == CASE t = "DW_UT_compile" -> 1 [] t = "DW_UT_type" -> 2 [] t = "DW_UT_partial" -> 3 [] t = "DW_UT_skeleton" -> 4
InitLenSize(ctx) == IF ctx.fmt = 32 THEN 4 ELSE 12
HeaderTail(u) ==
  LET c == u.ctx   ao == Fix(N(u.abbrevOff), OffSize(c), c.le)   ver == Fix(N(c.ver), 2, c.le) IN
  CASE u.utype = "legacy" -> ver \o ao \o <<c.asz>>
    [] u.utype \in {"DW_UT_compile", "DW_UT_partial"} -> ver \o <<UtCode(u.utype), c.asz>> \o ao
    [] u.utype = "DW_UT_skeleton" -> ver \o <<UtCode(u.utype), c.asz>> \o ao \o Fix(u.sig, 8, c.le)
    [] u.utype = "DW_UT_type" -> ver \o <<UtCode(u.utype), c.asz>> \o ao \o Fix(u.sig, 8, c.le) \o Fix(N(u.typeoff), OffSize(c), c.le)
HeaderSize(u) == InitLenSize(u.ctx) + Len(HeaderTail(u))
EncDie(u, d) == IF d.code = 0 THEN <<0>> ELSE UlebOfNat(d.code) \o Flat([i \in 1..Len(d.attrs) |-> EncForm(d.attrs[i], u.ctx)])
DieBytesSeq(u) == [i \in 1..Len(u.dies) |-> EncDie(u, u.dies[i])]
BodyBytes(u) == Flat(DieBytesSeq(u))
UnitBytes(u) ==
  LET tail == HeaderTail(u)   body == BodyBytes(u)   n == Len(tail) + Len(body)   c == u.ctx IN
  (IF c.fmt = 32 THEN Fix(N(n), 4, c.le) ELSE <<255, 255, 255, 255>> \o Fix(N(n), 8, c.le)) \o tail \o body
UnitSize(u) == HeaderSize(u) + Len(BodyBytes(u))
RECURSIVE UnitOff(_, _)
UnitOff(us, k) == IF k = 1 THEN 0 ELSE UnitOff(us, k - 1) + UnitSize(us[k - 1])

\* one shared abbreviation table at offset 0
TagCU == 17
TagVariable == 52
TagSubprogram == 46
AtName == 3
AtConst == 28
Abbrevs == << Decl(1, TagCU, TRUE, <<>>), Decl(2, TagVariable, FALSE, <<Spec1(AtConst, "DW_FORM_data1")>>),
              Decl(3, TagSubprogram, FALSE, <<Spec1(AtName, "DW_FORM_string")>>), Decl(4, TagCU, FALSE, <<>>) >>
A(form, v) == [form |-> form, v |-> v]
Root == [code |-> 1, attrs |-> <<>>]
Leaf2(n) == [code |-> 2, attrs |-> <<A("DW_FORM_data1", N(n))>>]
Leaf3(nm) == [code |-> 3, attrs |-> <<A("DW_FORM_string", B(nm))>>]
NullDie == [code |-> 0, attrs |-> <<>>]
DiesA == <<Root, Leaf2(7), NullDie>>                                \* 4 bytes
DiesB == <<Root, Leaf3(<<102, 110>>), Leaf2(9), NullDie>>           \* 8 bytes
DiesC == <<Root, NullDie>>                                          \* 2 bytes
DiesD == <<[code |-> 4, attrs |-> <<>>]>>                           \* 1 byte: a unit that is one childless entry
MkU(ctx, ut, dies) ==
  LET u0 == [ctx |-> ctx, utype |-> ut, abbrevOff |-> 0, dies |-> dies, sig |-> W(<<1, 2, 3, 4, 5, 6, 7, 136>>), typeoff |-> 0]
  IN IF ut = "DW_UT_type" THEN [u0 EXCEPT !.typeoff = HeaderSize(u0) + Len(EncDie(u0, dies[1]))] ELSE u0

\* multi-unit .debug_info sections (different sizes, versions 2-5, formats, address sizes, unit kinds)
SecUnits(id) ==
  CASE id = "S1" -> <<MkU(Ctx(4, 32, 8, TRUE), "legacy", DiesA), MkU(Ctx(5, 64, 8, TRUE), "DW_UT_compile", DiesB),
                      MkU(Ctx(2, 32, 4, TRUE), "legacy", DiesC)>>
    [] id = "S2" -> <<MkU(Ctx(5, 32, 4, TRUE), "DW_UT_skeleton", DiesB), MkU(Ctx(3, 64, 8, TRUE), "legacy", DiesD),
                      MkU(Ctx(4, 32, 8, TRUE), "legacy", DiesA)>>
    [] id = "S3" -> <<MkU(Ctx(3, 64, 4, FALSE), "legacy", DiesA), MkU(Ctx(5, 32, 8, FALSE), "DW_UT_type", DiesB)>>
    [] id = "S4" -> <<MkU(Ctx(5, 64, 4, FALSE), "DW_UT_partial", DiesC), MkU(Ctx(4, 64, 8, FALSE), "legacy", DiesB),
                      MkU(Ctx(2, 32, 8, FALSE), "legacy", DiesD)>>
    [] id = "S5" -> <<MkU(Ctx(4, 32, 4, TRUE), "legacy", DiesB)>>
    [] id = "S6" -> <<MkU(Ctx(2, 32, 4, TRUE), "legacy", DiesD), MkU(Ctx(2, 32, 4, TRUE), "legacy", DiesD),
                      MkU(Ctx(3, 32, 4, TRUE), "legacy", DiesC), MkU(Ctx(5, 32, 8, TRUE), "DW_UT_compile", DiesA)>>
SecIds == {"S1", "S2", "S3", "S4", "S5", "S6"}
\* non-null entries of a unit: <<unit-relative offset, abbreviation code>>
NNDies(u) ==
  LET dbs == DieBytesSeq(u)   lens == [j \in 1..Len(dbs) |-> Len(dbs[j])]
      all == [i \in 1..Len(u.dies) |-> <<HeaderSize(u) + SumTo(lens, i - 1), u.dies[i].code>>]
  IN SelectSeq(all, LAMBDA x : x[2] # 0)
BuildSec(id) ==
  LET us == SecUnits(id) IN
  [id |-> id, le |-> us[1].ctx.le, n |-> Len(us),
   bytes |-> Flat([k \in 1..Len(us) |-> UnitBytes(us[k])]),
   abbrev |-> EncAbbrevs(Abbrevs),
   offs |-> [k \in 1..Len(us) |-> UnitOff(us, k)],
   sizes |-> [k \in 1..Len(us) |-> UnitSize(us[k])],
   len |-> UnitOff(us, Len(us)) + UnitSize(us[Len(us)]),
   dies |-> [k \in 1..Len(us) |-> NNDies(us[k])]]
SecTab == TLCEval([id \in SecIds |-> BuildSec(id)])

(* ======================================================================= *)
(* (b) .debug_pubnames / .debug_pubtypes (32-bit format)                    *)
(* ======================================================================= *)
\* A table is a sequence of sets [u |-> unit index, ents |-> Seq(index into the unit's non-null entries)];
\* the g-th entry overall (0-based) is named pool[((g + rot) % Len(pool)) + 1].
\* par = [sec, rot, pool, pads (padding bytes after the terminator of the s-th set), align (then up to a multiple of it), padb]
LongName == [i \in 1..70 |-> 97 + (i % 26)]
Pool7 == << <<109, 97, 105, 110>>,                     \* main
            <<195, 169, 116, 195, 169>>,               \* U+00E9 t U+00E9
            <<97>>,                                    \* a
            <<230, 151, 165, 230, 156, 172>>,          \* U+65E5 U+672C
            LongName,
            <<240, 159, 152, 128>>,                    \* U+1F600 (4-byte sequence)
            <<95, 90, 49, 102, 118>> >>                \* _Z1fv
Pool2 == << <<105, 110, 116>>, <<195, 169>> >>         \* int, U+00E9: fewer names than entries -> duplicates
\* pools in which names repeat: the g-th entry is named pool[(g + rot) % Len(pool) + 1], so a pool IS a collision pattern and its
\* rotations move the colliding positions; the writer splits the entries over the sets in every way, so every pattern occurs
\* inside one set and across two or three sets (each unit publishing "int", as compilers do in .debug_pubtypes)
NmInt == <<105, 110, 116>>                             \* int
NmEac == <<195, 169>>                                  \* U+00E9
PoolABA == <<NmInt, NmEac, NmInt>>                     \* rot 0: A B A   rot 1: B A A   rot 2: A A B
Pool1 == <<NmInt>>                                     \* every entry publishes the same name
PoolMix == << <<109, 97, 105, 110>>, <<230, 151, 165, 230, 156, 172>>, <<109, 97, 105, 110>>, <<97>> >>   \* main U+65E5U+672C main a
NmParP(sec, rot, pool, pads, align, padb) == [sec |-> sec, rot |-> rot, pool |-> pool, pads |-> pads, align |-> align, padb |-> padb]
NmPar(sec, rot, pool) == NmParP(sec, rot, pool, <<0, 0, 0, 0>>, 1, 0)
\* padded contexts: odd paddings per set position; every set padded to a multiple of 4 / 8; paddings as long as / longer than
\* a terminator, with non-zero padding bytes
PaddedNmParsQ == {NmParP("S1", 2, Pool7, <<1, 2, 3, 1>>, 1, 0), NmParP("S2", 1, Pool7, <<0, 0, 0, 0>>, 4, 0),
                  NmParP("S3", 4, Pool7, <<4, 7, 0, 0>>, 1, 170)}
PaddedNmParsT == PaddedNmParsQ \cup {NmParP("S4", 0, Pool7, <<0, 0, 0, 0>>, 8, 0), NmParP("S6", 3, Pool7, <<3, 0, 5, 2>>, 1, 255),
                                     NmParP("S1", 0, Pool2, <<0, 1, 0, 0>>, 4, 0), NmParP("S2", 2, Pool7, <<4, 4, 4, 4>>, 1, 0)}
DupNmParsQ == {NmPar("S1", 0, PoolABA), NmPar("S2", 1, PoolABA), NmPar("S3", 2, PoolABA), NmPar("S3", 0, Pool1)}
DupNmParsT == DupNmParsQ \cup {NmPar("S4", 2, PoolABA), NmPar("S6", 0, PoolMix), NmPar("S2", 1, PoolMix), NmPar("S1", 0, Pool1),
                               NmParP("S3", 2, PoolMix, <<1, 0, 3, 0>>, 4, 0)}
QuickNmPars == {NmPar("S1", 0, Pool7), NmPar("S3", 3, Pool7), NmPar("S2", 5, Pool7), NmPar("S1", 0, Pool2)} \cup PaddedNmParsQ \cup DupNmParsQ
ThoroughNmPars == {NmPar("S1", 0, Pool7), NmPar("S2", 3, Pool7), NmPar("S3", 5, Pool7), NmPar("S4", 1, Pool7), NmPar("S6", 4, Pool7),
                   NmPar("S2", 6, Pool7), NmPar("S1", 0, Pool2), NmPar("S4", 1, Pool2)} \cup PaddedNmParsT \cup DupNmParsT

NmTotal(t) == SumTo([s \in 1..Len(t) |-> Len(t[s].ents)], Len(t))
NmBefore(t, s) == SumTo([j \in 1..Len(t) |-> Len(t[j].ents)], s - 1)
NmName(p, g) == p.pool[((g + p.rot) % Len(p.pool)) + 1]
\* encoder: unit_length, version 2, debug_info_offset, debug_info_length, (offset, name NUL)*, 0, padding inside unit_length
NmPadLen(raw, s, p) == p.pads[s] + ((p.align - ((raw + p.pads[s]) % p.align)) % p.align)     \* raw = set length without padding
EncNmSet(t, s, p) ==
  LET S == SecTab[p.sec]   u == t[s].u   nn == S.dies[u]   e == t[s].ents   g0 == NmBefore(t, s)
      body0 == Fix(N(2), 2, S.le) \o Fix(N(S.offs[u]), 4, S.le) \o Fix(N(S.sizes[u]), 4, S.le)
               \o Flat([i \in 1..Len(e) |-> Fix(N(nn[e[i]][1]), 4, S.le) \o NmName(p, g0 + i - 1) \o <<0>>])
               \o Fix(N(0), 4, S.le)
      body == body0 \o Rep(p.padb, NmPadLen(4 + Len(body0), s, p))
  IN Fix(N(Len(body)), 4, S.le) \o body
\* padding of set s by arithmetic (NmRoundTrip checks it against the bytes)
NmRawLen(t, s, p) == 4 + 10 + SumTo([i \in 1..Len(t[s].ents) |-> 4 + Len(NmName(p, NmBefore(t, s) + i - 1)) + 1], Len(t[s].ents)) + 4
NmPads(t, p) == [s \in 1..Len(t) |-> NmPadLen(NmRawLen(t, s, p), s, p)]
NmPadded(t, p) == \E s \in 1..Len(t) : NmPads(t, p)[s] > 0
EncNm(t, p) == Flat([s \in 1..Len(t) |-> EncNmSet(t, s, p)])
\* view: ordered <<name, cu_ofs, die_ofs (absolute), abbreviation code of that entry>> and the set headers
NmView(t, p) ==
  LET S == SecTab[p.sec] IN
  Flat([s \in 1..Len(t) |->
          LET u == t[s].u   nn == S.dies[u]   g0 == NmBefore(t, s) IN
          [i \in 1..Len(t[s].ents) |-> <<NmName(p, g0 + i - 1), S.offs[u], S.offs[u] + nn[t[s].ents[i]][1], nn[t[s].ents[i]][2]>>]])
NmHdrs(t, p) ==
  LET S == SecTab[p.sec] IN
  [s \in 1..Len(t) |-> <<Len(EncNmSet(t, s, p)) - 4, 2, S.offs[t[s].u], S.sizes[t[s].u]>>]
NmDistinct(t, p) == LET v == NmView(t, p) IN \A i, j \in 1..Len(v) : i # j => v[i][1] # v[j][1]
\* ---- names published more than once.  6.1.1 lets every set publish any name; what a name -> entry MAP holds for such a name
\*      is a choice among its encoded occurrences (v = NmView):
NmNamesOf(v) == {v[i][1] : i \in 1..Len(v)}
NmOcc(v, x) == {i \in 1..Len(v) : v[i][1] = x}
LoOf(S) == CHOOSE i \in S : \A j \in S : i <= j
HiOf(S) == CHOOSE i \in S : \A j \in S : i >= j
NmIsFirst(v) == [i \in 1..Len(v) |-> i = LoOf(NmOcc(v, v[i][1]))]         \* the occurrence a first-one-wins map keeps
NmIsLast(v) == [i \in 1..Len(v) |-> i = HiOf(NmOcc(v, v[i][1]))]          \* the occurrence a last-one-wins map keeps
\* "preserving encoded order" for a map with one slot per name: x comes before y whenever EVERY occurrence of x is encoded
\* before EVERY occurrence of y (true whichever occurrence the map keeps and wherever it files it)
NmPrec(v) == {pr \in NmNamesOf(v) \X NmNamesOf(v) : pr[1] # pr[2] /\ HiOf(NmOcc(v, pr[1])) < LoOf(NmOcc(v, pr[2]))}

\* byte-level reader
ReadNm(bs, le) ==
  LET RECURSIVE RdSets(_, _, _, _)
      RdSets(off, names, hdrs, slack) ==           \* slack: bytes between each terminator and the end of its unit_length
        IF off >= Len(bs) THEN [names |-> names, hdrs |-> hdrs, end |-> off, slack |-> slack]
        ELSE LET ulen == SmallDec(Slice(bs, off + 1, 4), le, FALSE)
                 ver == SmallDec(Slice(bs, off + 5, 2), le, FALSE)
                 cu == SmallDec(Slice(bs, off + 7, 4), le, FALSE)
                 culen == SmallDec(Slice(bs, off + 11, 4), le, FALSE)
                 RECURSIVE RdEnt(_, _)
                 RdEnt(p, acc) ==
                   LET d == SmallDec(Slice(bs, p + 1, 4), le, FALSE) IN
                   IF d = 0 THEN [end |-> p + 4, es |-> acc]
                   ELSE LET nm == CStrAt(bs, p + 4) IN RdEnt(p + 4 + nm.used, Append(acc, <<nm.s, cu, cu + d>>))
                 r == RdEnt(off + 14, <<>>)
             IN RdSets(off + 4 + ulen, names \o r.es, Append(hdrs, <<ulen, ver, cu, culen>>), Append(slack, off + 4 + ulen - r.end))
  IN RdSets(0, <<>>, <<>>, <<>>)

NmInit == \E p \in NmPars : par = p /\ obj = <<>> /\ cache = {} /\ it = [p |-> -1, n |-> 0] /\ fin = TRUE
NmNewSet(u) ==
  /\ mode = "names" /\ Len(obj) < MaxNameSets
  /\ \A s \in 1..Len(obj) : obj[s].u # u                      \* one set per unit (6.1.1), in any order
  /\ obj' = Append(obj, [u |-> u, ents |-> <<>>])
  /\ UNCHANGED <<mode, par, cache, it, fin>>
NmAdd(d) ==
  /\ mode = "names" /\ Len(obj) > 0 /\ NmTotal(obj) < MaxNames
  /\ d \in 1..Len(SecTab[par.sec].dies[obj[Len(obj)].u])
  /\ obj' = [obj EXCEPT ![Len(obj)].ents = Append(@, d)]
  /\ UNCHANGED <<mode, par, cache, it, fin>>

(* ======================================================================= *)
(* (c) unit lookup over the reader's cache                                  *)
(* ======================================================================= *)
\* par = [sec]; cache = set of parsed unit offsets; it = [p: iterator cursor (-1: no iterator), n: units it yielded so far];
\* obj = history, a sequence of <<op, arg, answer>>; answers: unit offset, -1 = no unit (error), -2 = iterator exhausted
US == SecTab[par.sec]
Starts(S) == Range(S.offs)
InSec(S, o) == 0 <= o /\ o < S.len
\* ---- declarative
UnitOf(S, o) == CHOOSE k \in 1..S.n : S.offs[k] <= o /\ o < S.offs[k] + S.sizes[k]
Containing(S, o) == S.offs[UnitOf(S, o)]
\* ---- operational: extent of the unit at p from its initial length (7.4), walk from the nearest parsed unit <= o
SizeAt(S, p) ==
  LET il == InitialLength(SubSeq(S.bytes, p + 1, S.len), S.le) IN il.used + NatOf(SubSeq(il.len.d, 1, 3))
RECURSIVE Walk(_, _, _, _)
Walk(S, p, o, parsed) ==
  IF p >= S.len THEN [ans |-> -1, parsed |-> parsed]
  ELSE LET sz == SizeAt(S, p) IN
       IF p <= o /\ o < p + sz THEN [ans |-> p, parsed |-> parsed \cup {p}] ELSE Walk(S, p + sz, o, parsed \cup {p})
OpContaining(S, o) ==
  LET below == {c \in cache : c <= o} IN Walk(S, IF below = {} THEN 0 ELSE Max(below), o, {})

Act(S, op, arg) ==
  CASE op = "containing" -> IF InSec(S, arg) THEN LET r == OpContaining(S, arg) IN [ans |-> r.ans, cache |-> cache \cup r.parsed, it |-> it]
                            ELSE [ans |-> -1, cache |-> cache, it |-> it]
    [] op = "at" -> IF InSec(S, arg) THEN [ans |-> arg, cache |-> cache \cup {arg}, it |-> it] ELSE [ans |-> -1, cache |-> cache, it |-> it]
    [] op = "next" -> LET p == IF it.p = -1 THEN 0 ELSE it.p   n == IF it.n <= S.n THEN it.n + 1 ELSE it.n IN
                      IF p >= S.len THEN [ans |-> -2, cache |-> cache, it |-> [p |-> p, n |-> n]]
                      ELSE [ans |-> p, cache |-> cache \cup {p}, it |-> [p |-> p + SizeAt(S, p), n |-> n]]
    [] op = "drop" -> [ans |-> 0, cache |-> cache, it |-> [p |-> -1, n |-> 0]]

Targeted(S, h) == {UnitOf(S, h[i][2]) : i \in {j \in 1..Len(h) : h[j][1] \in {"at", "containing"} /\ InSec(S, h[j][2])}}
PrefixAlpha(S) ==
  LET free == IF Repeat THEN 1..S.n ELSE (1..S.n) \ Targeted(S, obj) IN
  {<<"at", S.offs[k]>> : k \in free} \cup {<<"containing", S.offs[k] + S.sizes[k] - 1>> : k \in free}
  \cup {<<"next", 0>>} \cup (IF it.p # -1 THEN {<<"drop", 0>>} ELSE {})
  \cup (IF OorInPrefix THEN {<<"containing", S.len>>, <<"at", S.len>>} ELSE {})
ProbeAlpha(S) ==
  {<<"containing", o>> : o \in (-1)..(S.len + 1)} \cup {<<"at", o>> : o \in Starts(S) \cup {-1, S.len}} \cup {<<"next", 0>>}
AllAlpha(S) == ProbeAlpha(S) \cup {<<"drop", 0>>}

UInit == \E s \in UnitSecs : par = [sec |-> s] /\ obj = <<>> /\ cache = {} /\ it = [p |-> -1, n |-> 0] /\ fin = FALSE
Do(a, keep) ==
  LET r == Act(US, a[1], a[2])   h == <<a[1], a[2], r.ans>> IN
  /\ obj' = IF keep THEN Append(obj, h) ELSE <<h>>
  /\ cache' = r.cache /\ it' = r.it
UPrefix == /\ mode = "units" /\ ~fin /\ Len(obj) < MaxPrefix
           /\ \E a \in PrefixAlpha(US) : Do(a, TRUE)
           /\ UNCHANGED <<mode, par, fin>>
UProbe == /\ mode = "units" /\ ~fin
          /\ \E a \in ProbeAlpha(US) : Do(a, TRUE)
          /\ fin' = TRUE /\ UNCHANGED <<mode, par>>
UFree == /\ mode = "unitsfree"
         /\ \E a \in AllAlpha(US) : (a[1] = "drop" => it.p # -1) /\ Do(a, FALSE)
         /\ UNCHANGED <<mode, par, fin>>

(* ======================================================================= *)
Init == /\ mode \in Modes
        /\ CASE mode = "aranges" -> ArInit
             [] mode = "names" -> NmInit
             [] mode \in {"units", "unitsfree"} -> UInit
Next == \/ ArNextSet \/ (\E b \in 0..GridMax, l \in Lens : ArAdd(b, l))
        \/ (\E u \in 1..4 : mode = "names" /\ u <= SecTab[par.sec].n /\ NmNewSet(u)) \/ (\E d \in 1..4 : NmAdd(d))
        \/ UPrefix \/ UProbe \/ UFree
Spec == Init /\ [][Next]_vars

(* ------------------------------ emission ------------------------------- *)
Out(x) == CSVWrite("%1$s", <<ToJson(x)>>, IOEnv.OUT)
ArCtxLine == [k |-> "arctx", id |-> par.id, le |-> par.le, aszs |-> par.aszs, org |-> par.org,
              qa |-> [a \in 1..(GridMax + 2) |-> AddrV(a - 1, par)],               \* qa[a + 1] = address of grid point a
              below |-> FarBelow(par), above |-> FarAbove(par)]
ArCase ==
  LET f == ArFlat(obj) IN
  [k |-> "ar", ctx |-> par.id,
   tag |-> IF ~ArAligned(obj, par) THEN "unaligned" ELSE IF ArNT(obj) = 0 THEN "noranges" ELSE IF Len(obj) = 1 THEN "oneset" ELSE "sets",
   b |-> EncAr(obj, par),
   ans |-> [a \in 1..(GridMax + 2) |-> CuAt(obj, a - 1)],                          \* set index, 0 = none
   cls |-> [a \in 1..(GridMax + 2) |-> QClass(obj, a - 1)],
   sets |-> ArSetView(obj, par),
   ent |-> [i \in 1..Len(f) |-> <<f[i].b, f[i].l, f[i].k>>],
   entE |-> LET g == ArFlatE(obj) IN [i \in 1..Len(g) |-> <<g[i].b, g[i].l, g[i].k, g[i].z>>]]
SecLine(S) == [k |-> "sec", id |-> S.id, le |-> S.le, info |-> S.bytes, abbrev |-> S.abbrev, offs |-> S.offs, sizes |-> S.sizes,
               dies |-> S.dies]
NmCase ==
  LET v == NmView(obj, par)   dist == \A i, j \in 1..Len(v) : i # j => v[i][1] # v[j][1] IN
  [k |-> "nm", sec |-> par.sec,
   tag |-> (IF dist THEN (IF obj = <<>> THEN "nosets" ELSE "names") ELSE "dup")
           \o (IF NmPadded(obj, par) THEN "+pad" ELSE ""),
   b |-> EncNm(obj, par), names |-> v, hdrs |-> NmHdrs(obj, par),
   nk |-> Cardinality(NmNamesOf(v)),                          \* number of distinct names
   prec |-> NmPrec(v),                                        \* order facts that hold under every policy
   f1 |-> NmIsFirst(v), fl |-> NmIsLast(v)]                   \* occurrence kept by a first-wins / last-wins map
HistCase == [k |-> "h", sec |-> par.sec, h |-> obj]
Emit ==
  CASE mode = "aranges" -> (obj = <<>> => Out(ArCtxLine)) /\ Out(ArCase)
    [] mode = "names" -> (obj = <<>> => Out(SecLine(SecTab[par.sec]))) /\ Out(NmCase)
    [] mode = "units" -> (obj = <<>> => Out(SecLine(US))) /\ (fin => Out(HistCase))
    [] OTHER -> TRUE

(* ------------------------------ properties ----------------------------- *)
ArWellFormed ==
  mode = "aranges" =>
    LET f == ArFlat(obj) IN
    /\ \A i, j \in 1..Len(f) : i # j => ~Overlap(f[i].b, f[i].l, f[j].b, f[j].l)
    /\ \A a \in QGrid : Cardinality(ArHits(obj, a)) <= 1
BisectEqDecl ==
  mode = "aranges" =>
    LET es == SortByBegin(ArFlat(obj)) IN
    /\ \A i \in 1..(Len(es) - 1) : es[i].b <= es[i + 1].b
    /\ \A a \in QGrid : OpCuAt(es, a) = CuAt(obj, a)
ArRoundTrip ==
  mode = "aranges" =>
    LET bs == EncAr(obj, par)   r == ReadAr(bs, par.le, par.org) IN
    /\ r.es = ArEntriesD(obj, par) /\ r.end = Len(bs) /\ r.tight /\ Len(bs) = ArSetOff(obj, Len(obj) + 1, par)
    \* the first tuple of every set lies at a multiple of the tuple size from the writer's origin, at most one tuple after the header
    /\ \A k \in 1..Len(obj) :
         LET so == ArSetOff(obj, k, par)   ts == TupSize(par.aszs[k])   ft == FirstTupleAt(so, par.aszs[k], par.org) IN
         /\ ((IF par.org = "section" THEN so + ft ELSE ft) % ts) = 0
         /\ ArHdrLen <= ft /\ ft < ArHdrLen + ts
PadAgree ==
  (mode = "aranges" /\ ~Unaligned) =>
    \A k \in 1..Len(obj) :
      LET so == ArSetOff(obj, k, par)   ts == TupSize(par.aszs[k]) IN
      /\ ArAligned(obj, par) /\ RoundUp(so + ArHdrLen, ts) = so + FirstTupleRel(par.aszs[k])
      /\ FirstTupleAt(so, par.aszs[k], "section") = FirstTupleAt(so, par.aszs[k], "set")
\* ... and on aligned tables a reader of either persuasion recovers the table
OriginFree ==
  (mode = "aranges" /\ ArAligned(obj, par)) =>
    LET bs == EncAr(obj, par)   r == ReadAr(bs, par.le, OtherOrg(par.org)) IN r.es = ArEntriesD(obj, par) /\ r.tight
\* ... whereas NO table with a tuple in a set that starts off its tuple alignment means the same under both readings: the
\* reader of the other persuasion never recovers it.  (This is why such tables are outside the tiers: their meaning depends on
\* a choice the standard does not make.)
OriginMatters ==
  (mode = "aranges" /\ ArOffGrid(obj, par) # {}) =>
    LET bs == EncAr(obj, par)   r == ReadAr(bs, par.le, OtherOrg(par.org)) IN r.es # ArEntriesD(obj, par)
NmRoundTrip ==
  mode = "names" =>
    LET S == SecTab[par.sec]   bs == EncNm(obj, par)   r == ReadNm(bs, S.le)   v == NmView(obj, par) IN
    /\ r.names = [i \in 1..Len(v) |-> <<v[i][1], v[i][2], v[i][3]>>]
    /\ r.hdrs = NmHdrs(obj, par) /\ r.end = Len(bs) /\ r.slack = NmPads(obj, par)
\* the two policies are selections of one occurrence per name; they are the same map exactly when no name repeats; the order
\* facts NmPrec hold for the key order of both (keys filed at the kept occurrence), and are the whole encoded order when no
\* name repeats (so the order clause for tables with repeats specialises to the exact clause for tables without)
NmPolicies ==
  mode = "names" =>
    LET v == NmView(obj, par)   ns == NmNamesOf(v)   isf == NmIsFirst(v)   isl == NmIsLast(v)   pc == NmPrec(v)
        F == {i \in 1..Len(v) : isf[i]}   L == {i \in 1..Len(v) : isl[i]}
    IN /\ Cardinality(F) = Cardinality(ns) /\ Cardinality(L) = Cardinality(ns)
       /\ {v[i][1] : i \in F} = ns /\ {v[i][1] : i \in L} = ns
       /\ (F = L) <=> NmDistinct(obj, par)
       /\ \A i, j \in F \cup L : <<v[i][1], v[j][1]>> \in pc => i < j
       /\ NmDistinct(obj, par) => \A i, j \in 1..Len(v) : i < j => <<v[i][1], v[j][1]>> \in pc
NmSetsTile ==
  mode = "names" =>
    LET hd == NmHdrs(obj, par)   pd == NmPads(obj, par)
        off == [s \in 1..(Len(obj) + 1) |-> SumTo([j \in 1..Len(obj) |-> 4 + hd[j][1]], s - 1)]     \* by unit_length
    IN /\ off[Len(obj) + 1] = Len(EncNm(obj, par))
       /\ \A s \in 1..Len(obj) :
            /\ off[s] + NmRawLen(obj, s, par) + pd[s] = off[s + 1]                 \* terminator end + padding = next header
            /\ (par.align > 1 => (off[s + 1] % par.align) = 0)
            /\ pd[s] < par.align + par.pads[s]
NmDieInUnit ==
  mode = "names" =>
    LET S == SecTab[par.sec]   v == NmView(obj, par) IN
    \A i \in 1..Len(v) : InSec(S, v[i][3]) /\ Containing(S, v[i][3]) = v[i][2] /\ v[i][3] > v[i][2]
UnitsRight ==
  mode \in {"units", "unitsfree"} =>
    LET S == US IN
    /\ cache \subseteq Starts(S)
    /\ it.p \in {-1, S.len} \cup Starts(S)
    /\ \A i \in 1..Len(obj) :
         LET h == obj[i] IN
         CASE h[1] = "containing" -> h[3] = (IF InSec(S, h[2]) THEN Containing(S, h[2]) ELSE -1)
           [] h[1] = "at" -> h[3] = (IF InSec(S, h[2]) THEN h[2] ELSE -1)
           [] h[1] = "next" /\ i = Len(obj) -> h[3] = (IF it.n <= S.n THEN S.offs[it.n] ELSE -2)
           [] OTHER -> TRUE
\* units tile the section: the walk by initial lengths from 0 visits exactly the unit starts and ends at the section end
UnitsTile ==
  mode \in {"units", "unitsfree"} =>
    LET S == US IN
    /\ \A k \in 1..S.n : SizeAt(S, S.offs[k]) = S.sizes[k]
    /\ \A o \in 0..(S.len - 1) : Cardinality({k \in 1..S.n : S.offs[k] <= o /\ o < S.offs[k] + S.sizes[k]}) = 1
=============================================================================
