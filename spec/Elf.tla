-------------------------------- MODULE Elf --------------------------------
(***************************************************************************)
(* ELF record layouts as data, the generic serialiser, and the abstract    *)
(* image builder used by every ELF-level module (C01-C03, C08, C09, C14,    *)
(* C15, C19, C20).  Transcribed from the System V gABI (chapters 4 and 5).  *)
(*                                                                         *)
(* An abstract image `im` is a record of spec-level choices (class, byte    *)
(* order, machine, a sequence of abstract sections and segments, placement  *)
(* options).  Image(im) yields                                             *)
(*    chunks : <<offset, bytes, repeat>> triples - the bytes the gABI       *)
(*             prescribes for it (the Python side writes them verbatim)     *)
(*    view   : what a correct reader must report for it.                    *)
(***************************************************************************)
EXTENDS Bytes, TLC
INSTANCE RegistryData

(* ------------------------------ layouts -------------------------------- *)
Width(kind, cls) ==
  CASE kind = "byte" -> 1
    [] kind = "half" -> 2
    [] kind \in {"word", "sword"} -> 4
    [] kind = "word64" -> 8
    [] kind \in {"addr", "off", "xword", "sxword"} -> cls \div 8

EhdrF == << <<"e_type", "half">>, <<"e_machine", "half">>, <<"e_version", "word">>, <<"e_entry", "addr">>,
            <<"e_phoff", "off">>, <<"e_shoff", "off">>, <<"e_flags", "word">>, <<"e_ehsize", "half">>,
            <<"e_phentsize", "half">>, <<"e_phnum", "half">>, <<"e_shentsize", "half">>, <<"e_shnum", "half">>,
            <<"e_shstrndx", "half">> >>

ShdrF == << <<"sh_name", "word">>, <<"sh_type", "word">>, <<"sh_flags", "xword">>, <<"sh_addr", "addr">>,
            <<"sh_offset", "off">>, <<"sh_size", "xword">>, <<"sh_link", "word">>, <<"sh_info", "word">>,
            <<"sh_addralign", "xword">>, <<"sh_entsize", "xword">> >>

\* gABI figure 5-1: the 64-bit program header moves p_flags forward
PhdrF(cls) ==
  IF cls = 32
  THEN << <<"p_type", "word">>, <<"p_offset", "off">>, <<"p_vaddr", "addr">>, <<"p_paddr", "addr">>,
          <<"p_filesz", "xword">>, <<"p_memsz", "xword">>, <<"p_flags", "word">>, <<"p_align", "xword">> >>
  ELSE << <<"p_type", "word">>, <<"p_flags", "word">>, <<"p_offset", "off">>, <<"p_vaddr", "addr">>,
          <<"p_paddr", "addr">>, <<"p_filesz", "xword">>, <<"p_memsz", "xword">>, <<"p_align", "xword">> >>

ChdrF(cls) ==
  IF cls = 32 THEN << <<"ch_type", "word">>, <<"ch_size", "xword">>, <<"ch_addralign", "xword">> >>
  ELSE << <<"ch_type", "word">>, <<"ch_reserved", "word">>, <<"ch_size", "xword">>, <<"ch_addralign", "xword">> >>

\* gABI figure 4-16: field order differs between the classes
SymF(cls) ==
  IF cls = 32
  THEN << <<"st_name", "word">>, <<"st_value", "addr">>, <<"st_size", "word">>, <<"st_info", "byte">>,
          <<"st_other", "byte">>, <<"st_shndx", "half">> >>
  ELSE << <<"st_name", "word">>, <<"st_info", "byte">>, <<"st_other", "byte">>, <<"st_shndx", "half">>,
          <<"st_value", "addr">>, <<"st_size", "xword">> >>

RelF == << <<"r_offset", "addr">>, <<"r_info", "xword">> >>
RelaF == << <<"r_offset", "addr">>, <<"r_info", "xword">>, <<"r_addend", "sxword">> >>
DynF == << <<"d_tag", "sxword">>, <<"d_val", "xword">> >>
NhdrF == << <<"n_namesz", "word">>, <<"n_descsz", "word">>, <<"n_type", "word">> >>

SizeOf(F, cls) == LET RECURSIVE S(_)
                      S(i) == IF i = 0 THEN 0 ELSE Width(F[i][2], cls) + S(i - 1)
                  IN S(Len(F))

Ser(F, rec, cls, le) == Flat([i \in 1..Len(F) |-> Fix(rec[F[i][1]], Width(F[i][2], cls), le)])

FieldNames(F) == {F[i][1] : i \in 1..Len(F)}

(* ------------------------------ registry ------------------------------- *)
\* the registry names that denote `code` (a Small or Wide field value) within a family of names
CodeDigits(v) == LET d == Digits(v, 8)
                     nz == {i \in 1..8 : d[i] # 0}
                 IN IF nz = {} THEN <<0>> ELSE SubSeq(d, 1, Max(nz))
NamesFor(fam, v) == {n \in fam : Reg[n] = CodeDigits(v)}
Code(name) == NatOf(Reg[name])                   \* only for names whose code is a Small

EM(name) == Code(name)
Fam(p, sub) == IF p \in DOMAIN RegFam /\ sub \in DOMAIN RegFam[p] THEN RegFam[p][sub] ELSE {}

\* machine overlays (gABI: sh_type/p_type values from LOPROC up are processor specific)
MachFam(machine) ==
  CASE machine = Code("EM_ARM") -> "ARM"
    [] machine = Code("EM_AARCH64") -> "AARCH64"
    [] machine = Code("EM_X86_64") -> "X86_64"
    [] machine = Code("EM_MIPS") -> "MIPS"
    [] machine = Code("EM_RISCV") -> "RISCV"
    [] OTHER -> "NONE"
ShtNames(machine) == Fam("SHT", "BASE") \cup Fam("SHT", MachFam(machine))
PtNames(machine) == Fam("PT", "BASE") \cup Fam("PT", MachFam(machine))

\* code -> names through the vendored per-family tables (RegByCode: sequences of <<digits, names>>)
Lookup(pairs, code) == LET hits == {i \in 1..Len(pairs) : pairs[i][1] = code} IN
                       IF hits = {} THEN {} ELSE pairs[CHOOSE i \in hits : TRUE][2]
ByFam(p, sub, v) == LET k == p \o "_" \o sub IN
                    IF k \in DOMAIN RegByCode THEN Lookup(RegByCode[k], CodeDigits(v)) ELSE {}
ShtNamesOf(machine, v) == ByFam("SHT", "BASE", v) \cup ByFam("SHT", MachFam(machine), v)
PtNamesOf(machine, v) == ByFam("PT", "BASE", v) \cup ByFam("PT", MachFam(machine), v)

(* --------------------------- section kinds ----------------------------- *)
\* "the specialised object kind its type calls for" - by type code under the machine overlay
KindCodes == TLCEval([n \in {"SHT_STRTAB", "SHT_NULL", "SHT_SYMTAB", "SHT_DYNSYM", "SHT_SUNW_LDYNSYM", "SHT_SYMTAB_SHNDX", "SHT_SUNW_syminfo",
                       "SHT_GNU_verneed", "SHT_GNU_verdef", "SHT_GNU_versym", "SHT_REL", "SHT_RELA", "SHT_DYNAMIC", "SHT_NOTE",
                       "SHT_PROGBITS", "SHT_ARM_ATTRIBUTES", "SHT_RISCV_ATTRIBUTES", "SHT_HASH", "SHT_GNU_HASH", "SHT_RELR",
                       "SHT_NOBITS", "PT_INTERP", "PT_DYNAMIC", "PT_NOTE", "PT_LOAD", "PT_TLS", "PT_PHDR", "PT_GNU_RELRO",
                       "PT_GNU_EH_FRAME", "PT_GNU_STACK"} |-> Reg[n]])
IsCode(v, name) == CodeDigits(v) = KindCodes[name]
SectionKind(machine, type, name) ==
  CASE IsCode(type, "SHT_STRTAB") -> "strtab"
    [] IsCode(type, "SHT_NULL") -> "null"
    [] IsCode(type, "SHT_SYMTAB") \/ IsCode(type, "SHT_DYNSYM") \/ IsCode(type, "SHT_SUNW_LDYNSYM") -> "symtab"
    [] IsCode(type, "SHT_SYMTAB_SHNDX") -> "symtab_shndx"
    [] IsCode(type, "SHT_SUNW_syminfo") -> "syminfo"
    [] IsCode(type, "SHT_GNU_verneed") -> "verneed"
    [] IsCode(type, "SHT_GNU_verdef") -> "verdef"
    [] IsCode(type, "SHT_GNU_versym") -> "versym"
    [] IsCode(type, "SHT_REL") \/ IsCode(type, "SHT_RELA") -> "reloc"
    [] IsCode(type, "SHT_DYNAMIC") -> "dynamic"
    [] IsCode(type, "SHT_NOTE") -> "note"
    [] IsCode(type, "SHT_PROGBITS") /\ name = <<46, 115, 116, 97, 98>> -> "stab"          \* ".stab"
    [] IsCode(type, "SHT_ARM_ATTRIBUTES") /\ machine = Code("EM_ARM") -> "arm_attributes"
    [] IsCode(type, "SHT_RISCV_ATTRIBUTES") /\ machine = Code("EM_RISCV") -> "riscv_attributes"
    [] IsCode(type, "SHT_HASH") -> "hash"
    [] IsCode(type, "SHT_GNU_HASH") -> "gnu_hash"
    [] IsCode(type, "SHT_RELR") -> "relr"
    [] OTHER -> "plain"
SegmentKind(type) ==
  CASE IsCode(type, "PT_INTERP") -> "interp"
    [] IsCode(type, "PT_DYNAMIC") -> "dynamic"
    [] IsCode(type, "PT_NOTE") -> "note"
    [] OTHER -> "plain"

(* ------------------------------- images -------------------------------- *)
Z == N(0)
ShStrTabName == <<46, 115, 104, 115, 116, 114, 116, 97, 98>>          \* ".shstrtab"

\* abstract section; `data` are its file bytes; `size` is sh_size (= Len(data) unless NOBITS-like)
Sec(name, type, flags, addr, data, size, link, info, align, entsize) ==
  [name |-> name, type |-> type, flags |-> flags, addr |-> addr, data |-> data, size |-> size,
   link |-> link, info |-> info, align |-> align, entsize |-> entsize]
PlainSec(name, type, data) == Sec(name, type, Z, Z, data, N(Len(data)), Z, Z, N(1), Z)

Seg(type, flags, offset, vaddr, paddr, filesz, memsz, align) ==
  [type |-> type, flags |-> flags, offset |-> offset, vaddr |-> vaddr, paddr |-> paddr,
   filesz |-> filesz, memsz |-> memsz, align |-> align]

\* default image parameters; writers override fields with EXCEPT
Im0 == [cls |-> 64, le |-> TRUE, osabi |-> 0, abiver |-> 0, etype |-> N(3), machine |-> 62, eversion |-> N(1),
        entry |-> Z, eflags |-> Z, secs |-> <<>>, segs |-> <<>>, shextra |-> 0, phextra |-> 0,
        order |-> "A", gap |-> 0, nfill |-> 0, pfill |-> 0, strfirst |-> FALSE, nosht |-> FALSE]

EhSize(im) == 16 + SizeOf(EhdrF, im.cls)
ShEnt(im) == SizeOf(ShdrF, im.cls) + im.shextra
PhEnt(im) == SizeOf(PhdrF(im.cls), im.cls) + im.phextra
NSec(im) == IF im.nosht THEN 0 ELSE 2 + Len(im.secs) + im.nfill
NSeg(im) == Len(im.segs) + im.pfill
\* section indices: 0 null; shstrtab first (1) or last; user sections in order; fillers before a trailing shstrtab
UserIndex(im, k) == IF im.strfirst THEN k + 1 ELSE k
StrIndex(im) == IF im.strfirst THEN 1 ELSE NSec(im) - 1
FillFrom(im) == Len(im.secs) + (IF im.strfirst THEN 2 ELSE 1)

\* section-name string table and name offsets
NameOffs(names, at) == [k \in 1..Len(names) |-> at + SumR([j \in 1..Len(names) |-> Len(names[j]) + 1], 1, k - 1)]
AllNames(im) == [k \in 1..Len(im.secs) |-> im.secs[k].name] \o <<ShStrTabName>>
StrTab(im) == <<0>> \o Flat([k \in 1..Len(AllNames(im)) |-> AllNames(im)[k] \o <<0>>])
NameOff(im, k) == NameOffs(AllNames(im), 1)[k]                      \* k = Len(secs)+1 is .shstrtab itself

\* file layout: regions in the order the `order` option names
PhSize(im) == PhEnt(im) * NSeg(im)
ShSize(im) == ShEnt(im) * NSec(im)
SumData(secs, k) == SumR([j \in 1..Len(secs) |-> Len(secs[j].data)], 1, k)
DataSize(im) == SumData(im.secs, Len(im.secs)) + Len(StrTab(im))
PhOff(im) == CASE im.order = "A" -> EhSize(im)
               [] im.order = "B" -> EhSize(im) + im.gap + ShSize(im)
               [] im.order = "C" -> EhSize(im) + DataSize(im) + im.gap + ShSize(im) + im.gap
DataOff(im) == CASE im.order = "A" -> EhSize(im) + PhSize(im) + im.gap
                 [] im.order = "B" -> EhSize(im) + im.gap + ShSize(im) + PhSize(im)
                 [] im.order = "C" -> EhSize(im)
ShOff(im) == CASE im.order = "A" -> DataOff(im) + DataSize(im) + im.gap
               [] im.order = "B" -> EhSize(im) + im.gap
               [] im.order = "C" -> EhSize(im) + DataSize(im) + im.gap
SecOff(im, k) == DataOff(im) + SumData(im.secs, k - 1)               \* user section k
StrOff(im) == DataOff(im) + SumData(im.secs, Len(im.secs))

\* extended numbering escapes (gABI ch.4 ELF header / sections)
ENum(n, lim, esc) == IF n >= lim THEN esc ELSE n
EhdrRec(im) ==
  [e_type |-> im.etype, e_machine |-> N(im.machine), e_version |-> im.eversion, e_entry |-> im.entry,
   e_phoff |-> N(IF NSeg(im) = 0 THEN 0 ELSE PhOff(im)),
   e_shoff |-> N(IF im.nosht THEN 0 ELSE ShOff(im)),
   e_flags |-> im.eflags, e_ehsize |-> N(EhSize(im)),
   e_phentsize |-> N(IF NSeg(im) = 0 THEN 0 ELSE PhEnt(im)), e_phnum |-> N(ENum(NSeg(im), 65535, 65535)),
   e_shentsize |-> N(IF im.nosht THEN 0 ELSE ShEnt(im)), e_shnum |-> N(ENum(NSec(im), 65280, 0)),
   e_shstrndx |-> N(IF im.nosht THEN 0 ELSE ENum(StrIndex(im), 65280, 65535))]
Ident(im) == <<127, 69, 76, 70, IF im.cls = 32 THEN 1 ELSE 2, IF im.le THEN 1 ELSE 2, 1, im.osabi, im.abiver,
               0, 0, 0, 0, 0, 0, 0>>

ShdrRec(name, type, flags, addr, off, size, link, info, align, entsize) ==
  [sh_name |-> name, sh_type |-> type, sh_flags |-> flags, sh_addr |-> addr, sh_offset |-> off, sh_size |-> size,
   sh_link |-> link, sh_info |-> info, sh_addralign |-> align, sh_entsize |-> entsize]
NullShdr(im) == ShdrRec(Z, Z, Z, Z, Z, N(IF NSec(im) >= 65280 THEN NSec(im) ELSE 0),
                        N(IF StrIndex(im) >= 65280 THEN StrIndex(im) ELSE 0),
                        N(IF NSeg(im) >= 65535 THEN NSeg(im) ELSE 0), Z, Z)
FillShdr == ShdrRec(Z, Z, Z, Z, Z, Z, Z, Z, Z, Z)
StrShdr(im) == ShdrRec(N(NameOff(im, Len(im.secs) + 1)), N(3), Z, Z, N(StrOff(im)), N(Len(StrTab(im))), Z, Z, N(1), Z)
\* a section may carry an explicit sh_offset ("off"), e.g. a header-only section used for geometry grids
WithOff(s, v) == [f \in DOMAIN s \cup {"off"} |-> IF f = "off" THEN v ELSE s[f]]
UserShdr(im, k) == LET s == im.secs[k] IN
  ShdrRec(N(NameOff(im, k)), s.type, s.flags, s.addr, IF "off" \in DOMAIN s THEN s.off ELSE N(SecOff(im, k)),
          s.size, s.link, s.info, s.align, s.entsize)

PhdrRec(g) == [p_type |-> g.type, p_flags |-> g.flags, p_offset |-> g.offset, p_vaddr |-> g.vaddr, p_paddr |-> g.paddr,
               p_filesz |-> g.filesz, p_memsz |-> g.memsz, p_align |-> g.align]
FillPhdr == PhdrRec(Seg(Z, Z, Z, Z, Z, Z, Z, Z))

PadTo(bs, n) == bs \o Rep(0, n - Len(bs))
ShBytes(im, rec) == PadTo(Ser(ShdrF, rec, im.cls, im.le), ShEnt(im))
PhBytes(im, rec) == PadTo(Ser(PhdrF(im.cls), rec, im.cls, im.le), PhEnt(im))

\* explicit (non-filler) section headers in index order, as <<index, record>>
ExplicitShdrs(im) ==
  IF im.nosht THEN <<>>
  ELSE <<<<0, NullShdr(im)>>>>
       \o (IF im.strfirst THEN <<<<1, StrShdr(im)>>>> ELSE <<>>)
       \o [k \in 1..Len(im.secs) |-> <<UserIndex(im, k), UserShdr(im, k)>>]
       \o (IF im.strfirst THEN <<>> ELSE <<<<StrIndex(im), StrShdr(im)>>>>)

Chunks(im) ==
  LET ex == ExplicitShdrs(im) IN
  << <<0, Ident(im) \o Ser(EhdrF, EhdrRec(im), im.cls, im.le), 1>> >>
  \o [k \in 1..Len(im.secs) |-> <<SecOff(im, k), im.secs[k].data, 1>>]
  \o << <<StrOff(im), StrTab(im), 1>> >>
  \o [i \in 1..Len(ex) |-> <<ShOff(im) + ex[i][1] * ShEnt(im), ShBytes(im, ex[i][2]), 1>>]
  \o (IF im.nfill > 0 /\ ~im.nosht THEN << <<ShOff(im) + FillFrom(im) * ShEnt(im), ShBytes(im, FillShdr), im.nfill>> >> ELSE <<>>)
  \o [j \in 1..Len(im.segs) |-> <<PhOff(im) + (j - 1) * PhEnt(im), PhBytes(im, PhdrRec(im.segs[j])), 1>>]
  \o (IF im.pfill > 0 THEN << <<PhOff(im) + Len(im.segs) * PhEnt(im), PhBytes(im, FillPhdr), im.pfill>> >> ELSE <<>>)

\* end of the last byte written: the file size
FileSizeOf(cs) == Max({cs[i][1] + Len(cs[i][2]) * cs[i][3] : i \in 1..Len(cs)})
FileSize(im) == FileSizeOf(Chunks(im))

(* -------------------------------- view --------------------------------- *)
\* the name of a section is the NUL-terminated string at sh_name in the section-name table
NameAt(im, off) == CStrAt(StrTab(im), off).s

SecView(im, idx, rec) ==
  LET nm == NameAt(im, rec.sh_name.n) IN
  [index |-> idx, name |-> nm, hdr |-> rec, typenames |-> ShtNamesOf(im.machine, rec.sh_type),
   kind |-> SectionKind(im.machine, rec.sh_type, nm)]
SegView(im, j, rec) ==
  [index |-> j, hdr |-> rec, typenames |-> PtNamesOf(im.machine, rec.p_type), kind |-> SegmentKind(rec.p_type)]

View(im) ==
  LET ex == ExplicitShdrs(im) IN
  [elfclass |-> im.cls, little_endian |-> im.le,
   ident |-> Ident(im),
   header |-> EhdrRec(im),
   names |-> [e_type |-> ByFam("ET", "BASE", im.etype),
              e_machine |-> ByFam("EM", "BASE", N(im.machine)),
              e_version |-> ByFam("EV", "BASE", im.eversion),
              EI_OSABI |-> ByFam("ELFOSABI", "BASE", N(im.osabi)),
              EI_VERSION |-> ByFam("EV", "BASE", N(1)),
              EI_CLASS |-> ByFam("ELFCLASS", "BASE", N(IF im.cls = 32 THEN 1 ELSE 2)),
              EI_DATA |-> ByFam("ELFDATA", "BASE", N(IF im.le THEN 1 ELSE 2))],
   num_sections |-> NSec(im),
   shstrndx |-> IF im.nosht THEN 0 ELSE StrIndex(im),
   sections |-> [i \in 1..Len(ex) |-> SecView(im, ex[i][1], ex[i][2])],
   filler |-> [from |-> FillFrom(im), count |-> IF im.nosht THEN 0 ELSE im.nfill],
   num_segments |-> NSeg(im),
   segments |-> [j \in 1..Len(im.segs) |-> SegView(im, j - 1, PhdrRec(im.segs[j]))],
   pfiller |-> [from |-> Len(im.segs), count |-> im.pfill],
   filesize |-> FileSize(im)]

(* --------------------- well-formedness of an image --------------------- *)
\* chunks never overlap (the writer never produces two claims on one byte)
ChunksDisjoint(im) ==
  LET cs == Chunks(im) IN
  \A i, j \in 1..Len(cs) :
    i < j => LET a == cs[i]   b == cs[j] IN
             \/ Len(a[2]) = 0 \/ Len(b[2]) = 0
             \/ a[1] + Len(a[2]) * a[3] <= b[1] \/ b[1] + Len(b[2]) * b[3] <= a[1]

\* the reader's way to the counts (what the gABI tells a reader to do) recovers the writer's counts
ReaderNumSections(im) ==
  LET e == EhdrRec(im) IN
  IF e.e_shoff.n = 0 THEN 0 ELSE IF e.e_shnum.n = 0 THEN NullShdr(im).sh_size.n ELSE e.e_shnum.n
ReaderShstrndx(im) ==
  LET e == EhdrRec(im) IN IF e.e_shstrndx.n # 65535 THEN e.e_shstrndx.n ELSE NullShdr(im).sh_link.n
ReaderNumSegments(im) ==
  LET e == EhdrRec(im) IN IF e.e_phnum.n < 65535 THEN e.e_phnum.n ELSE NullShdr(im).sh_info.n
ReaderRecoversCounts(im) ==
  /\ ReaderNumSections(im) = NSec(im)
  /\ (~im.nosht => ReaderShstrndx(im) = StrIndex(im))
  /\ (im.nosht /\ NSeg(im) >= 65535 => TRUE)
  /\ (~im.nosht \/ NSeg(im) < 65535) => ReaderNumSegments(im) = NSeg(im)

(* ---------------- machine-scoped meaning of aliased codes --------------- *)
\* (definitions added for C01; View above is unchanged and keeps the wide, machine-blind alias sets)
\* gABI ch.4 "ELF Identification", EI_OSABI: "64-255  Architecture-specific value range" - the meaning of such a code depends on
\* e_machine.  The registry keeps all ELFOSABI_* names in one family; the owner of each architecture-specific name is
\*   EM_ARM (40)       ELFOSABI_ARM_AEABI 64, ELFOSABI_ARM 97                      glibc elf.h ("ARM EABI" / "ARM")
\*   EM_AMDGPU (224)   ELFOSABI_AMDGPU_HSA 64, _PAL 65, _MESA3D 66                 LLVM BinaryFormat/ELF.h ("AMDGPU OS ABI")
\*   EM_TI_C6000 (140) ELFOSABI_C6000_ELFABI 64, ELFOSABI_C6000_LINUX 65           LLVM BinaryFormat/ELF.h / binutils elf/common.h
\* (ELFOSABI_STANDALONE 255 and LLVM's range markers FIRST_ARCH/LAST_ARCH belong to no machine.)
OsabiOverlay == << <<40, {"ELFOSABI_ARM_AEABI", "ELFOSABI_ARM"}>>,
                   <<224, {"ELFOSABI_AMDGPU_HSA", "ELFOSABI_AMDGPU_PAL", "ELFOSABI_AMDGPU_MESA3D"}>>,
                   <<140, {"ELFOSABI_C6000_ELFABI", "ELFOSABI_C6000_LINUX"}>> >>
OsabiSpecific(machine) == UNION {OsabiOverlay[i][2] : i \in {j \in 1..Len(OsabiOverlay) : OsabiOverlay[j][1] = machine}}
\* The scoping rule, the same for every aliased code: if the machine at hand owns one of the names of the code, the code means
\* that (and only that) on this machine; if it owns none, nothing is narrowed (every registered name of the code stays admissible:
\* a reader with one flat table is not faulted for a machine that has no say about the code).
Scoped(all, own) == IF all \cap own # {} THEN all \cap own ELSE all
OsabiNamesOf(machine, v) == Scoped(ByFam("ELFOSABI", "BASE", v), OsabiSpecific(machine))
\* sh_type / p_type from LOPROC up: the processor's own name, not the generic range marker that shares its code (SHT_LOPROC = SHT_MIPS_LIBLIST,
\* PT_LOPROC = PT_ARM_ARCHEXT = PT_AARCH64_ARCHEXT = PT_MIPS_REGINFO)
ShtScopedNamesOf(machine, v) == Scoped(ShtNamesOf(machine, v), ByFam("SHT", MachFam(machine), v))
PtScopedNamesOf(machine, v) == Scoped(PtNamesOf(machine, v), ByFam("PT", MachFam(machine), v))
=============================================================================
