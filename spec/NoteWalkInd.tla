----------------------------- MODULE NoteWalkInd -----------------------------
(***************************************************************************)
(* C14 - proof obligations for Apalache: the note walker of Notes.tla over  *)
(* UNBOUNDED offsets and name/descriptor sizes (TLC explores bounded ones). *)
(* One step = ReadHdr; SkipName; SkipDesc; Yield of the model.              *)
(*   (1) Init => IndInv              --init=Init    --inv=IndInv --length=0 *)
(*   (2) IndInv /\ Next => IndInv'   --init=IndInit --inv=IndInv --length=1 *)
(*   (3) IndInv => Bound             --init=IndInit --inv=Bound  --length=0 *)
(* Together: after k yields the cursor is at least 12k bytes past the start *)
(* and 12k never exceeds the extent length - the walk is linear in the      *)
(* extent and cannot revisit a byte, whatever the header words say.         *)
(***************************************************************************)
EXTENDS Integers, NoteWalk

VARIABLES
  \* @type: Int;
  off,
  \* @type: Int;
  end,
  \* @type: Int;
  s0,
  \* @type: Int;
  steps

Init == s0 \in Nat /\ end \in Nat /\ s0 <= end /\ off = s0 /\ steps = 0
Next ==
  /\ HdrFits(off, end)
  /\ \E ns \in Nat, ds \in Nat : off' = off + NoteSize(ns, ds)
  /\ steps' = steps + 1
  /\ UNCHANGED <<end, s0>>

IndInv == steps >= 0 /\ s0 >= 0 /\ off >= s0 + NhdrSize * steps /\ NhdrSize * steps <= end - s0
IndInit == off \in Int /\ end \in Int /\ s0 \in Int /\ steps \in Int /\ IndInv
Bound == NhdrSize * steps <= end - s0 /\ off >= s0
=============================================================================
