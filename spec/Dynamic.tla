------------------------------ MODULE Dynamic ------------------------------
(***************************************************************************)
(* C09 - Dynamic linking information is exact, with or without section      *)
(* headers.                                                                *)
(*                                                                         *)
(* Transcribed from the System V gABI ch.5 "Dynamic Section" (Elf32/64_Dyn, *)
(* figure 5-10: DT_NULL ends the array; DT_NEEDED / DT_SONAME / DT_RPATH /  *)
(* DT_RUNPATH hold offsets into the table DT_STRTAB addresses; DT_STRTAB,   *)
(* DT_SYMTAB, DT_HASH hold addresses; "entries may appear in any order"),   *)
(* ch.5 "Program Header" (PT_DYNAMIC locates the array, PT_LOAD maps file   *)
(* bytes [p_offset, +p_filesz) at [p_vaddr, +p_filesz); p_memsz - p_filesz  *)
(* bytes follow that have no file image), ch.4 "Sections" (SHT_DYNAMIC:     *)
(* sh_link = the section header index of the string table used by entries   *)
(* in the section), ch.4 "ELF Header" (e_shoff = 0, e_shnum = 0: the file   *)
(* has no section header table), ch.5 "Hash Table" (nchain = number of      *)
(* symbol table entries), the GNU hash section (see HashWalk.tla: one chain *)
(* word per symbol from symoffset on; the chain of the highest populated    *)
(* bucket ends at the last symbol), ch.4 "Symbol Table" (figure 4-16).      *)
(*                                                                         *)
(* The environment is an abstract writer.  An object is: class, byte order, *)
(* machine and OS ABI; a tag sequence (a mandatory block DT_HASH?,           *)
(* DT_GNU_HASH?, DT_STRTAB, DT_SYMTAB, DT_STRSZ, DT_SYMENT placed before,    *)
(* inside or after freely chosen tags - AddTag - from an alphabet of string  *)
(* tags, value tags incl. processor / OS specific and unassigned codes, a    *)
(* negative d_tag, pointers into file-backed and into zero-fill memory;     *)
(* duplicates allowed), DT_NULL, and a tail of entries after DT_NULL that   *)
(* are not part of the array; a dynamic symbol table (AddSymbol), optional   *)
(* SysV and / or GNU hash tables (canonical builders of SymHash.tla; the     *)
(* GNU table of an object without hashed symbols either in the form the      *)
(* format's invariant gives, symoffset = table length, or as GNU ld writes   *)
(* it, symoffset = 1); a PT_LOAD layout (one segment; two segments with      *)
(* different address - offset deltas; p_filesz < p_memsz; both; addresses    *)
(* needing all bits of the class).  Build (hashed part chosen, symbol and     *)
(* hash tables serialised), PlaceTables (file offsets), Segments (the PT_LOAD  *)
(* entries), Addresses (virtual addresses), EncodeArray and Encode finish the *)
(* object, and it is                                                         *)
(* written as two images of the SAME object: WithSections (.dynsym, string table, hash sections,    *)
(* .dynamic linked to the string table; variant "match": PT_DYNAMIC covers   *)
(* .dynamic; "matchdecoy": likewise, but the real string table is not called *)
(* .dynstr and a decoy section of that name exists (the standard designates  *)
(* tables by link and address, never by name);                               *)
(* variant "split": PT_DYNAMIC covers a second copy of the array,            *)
(* so .dynamic's sh_offset differs from p_offset, the real string table is   *)
(* not called .dynstr and a decoy section called .dynstr exists) and         *)
(* Stripped (e_shoff = e_shnum = e_shstrndx = 0, program headers only).      *)
(*                                                                         *)
(* Mode "shdr": the relation between the SHT_DYNAMIC section header and the  *)
(* PT_DYNAMIC segment, all of it (ShdrVariants): coinciding (match,          *)
(* matchdecoy), disjoint (split), "stale" - the section lies inside the       *)
(* segment, starts one entry after it and its sh_link names ANOTHER string    *)
(* table than DT_STRTAB addresses (the header describes the array as it was   *)
(* before an entry was put in front) -, "wide" - the segment lies inside the  *)
(* section and starts one entry after it, sh_link likewise -, "nodyn" -       *)
(* section headers without any SHT_DYNAMIC section -, and (every object's     *)
(* Stripped image) no section headers at all.  gABI: the strings of the array *)
(* PT_DYNAMIC locates are found through DT_STRTAB; sh_link speaks for "the    *)
(* entries in the section".  Where section and segment do not coincide the    *)
(* segment view must not depend on the header: SegmentByPointer checks that   *)
(* the segment reader goes through DT_STRTAB and the PT_LOAD mapping, reads    *)
(* the abstract strings and symbol names in every variant, and that the stale *)
(* / wide header really names a table through which they would read           *)
(* differently; ShdrRelation checks the picture of each variant.              *)
(*                                                                         *)
(* Mode "adj": PT_LOAD layouts x pointer positions at segment boundaries.    *)
(* Three PT_LOADs A, B, C: A maps the file from 0 up to table cut-1, B maps  *)
(* the file from table `cut` on DIRECTLY BEHIND A IN MEMORY (B.p_vaddr =     *)
(* A.p_vaddr + A.p_filesz) though not behind it in the file, C maps table    *)
(* cut-1 (the file gap between A and B) far away; p_align = 1 ("no alignment *)
(* required").  Every table in turn (cut = 2 .. .dynamic, both table orders) *)
(* starts at the first byte of B, so the dynamic pointer to it equals the    *)
(* end address of A: by ch.5 "Program Header" A holds the addresses          *)
(* [p_vaddr, p_vaddr + p_filesz) - half open - and the pointer belongs to B  *)
(* alone (PtrInsideSegment checks "exactly one PT_LOAD" on every object).    *)
(* Program header order A,B,C ("adj") and C,B,A ("adjrev").                  *)
(*                                                                         *)
(* Mode "rel": relocation tables named by the dynamic array - every subset   *)
(* of {DT_REL, DT_RELA, DT_RELR} x DT_JMPREL absent / with DT_PLTREL =       *)
(* DT_REL / = DT_RELA.  The reader (ReadRelocs) takes address and size from  *)
(* the tags (through the PT_LOAD mapping, in every view) and the flavour of  *)
(* the DT_JMPREL table from DT_PLTREL alone (DynScan.tla quotes the gABI);   *)
(* RelocsAgree: every view reads back exactly the abstract tables.           *)
(*                                                                         *)
(* Reader machine (one action per loop iteration / step a reader needs):    *)
(* StartRead(view), ScanTag (entry n of the array, until DT_NULL),           *)
(* SelectStrtab (section view: sh_link; segment view: DT_STRTAB translated   *)
(* through the PT_LOAD segment that contains it - PtrToOffset),              *)
(* ResolveStrings, CountSymbols (section view: sh_size / sh_entsize of the   *)
(* linked symbol table; segment view: DT_GNU_HASH when a bucket is           *)
(* populated, else DT_HASH, else not determined), ReadSymbols.               *)
(*                                                                         *)
(* TLC checks on the specification itself, for every object in the bounds:   *)
(* TagsUpToAndInclNull, ViewsAgree (both reader views deliver exactly the    *)
(* declarative view computed from the abstract object: tags, strings,        *)
(* symbols), CountExact, PtrInsideSegment, StrtabAgree, ScanBounded /        *)
(* NoFault / ScanProgress (termination), RunAgrees (the action-level scan     *)
(* stops in the state DynScan!Scan - the closed form used for trace           *)
(* validation - gives), SameData (the two encodings differ in the ELF header  *)
(* and the section header table only), ChunksOK, PlacementOK (the writer's    *)
(* offsets are the ones Elf.tla's layout gives the sections), SegmentByPointer, *)
(* ShdrRelation (mode shdr, see above), RelocsAgree                            *)
(* (every view reads back the abstract relocation tables; the DT_JMPREL table *)
(* in DT_PLTREL's flavour), AdjBoundary (mode adj really puts a dynamic       *)
(* pointer on the first byte of a PT_LOAD that starts at the end address of   *)
(* another one while lying elsewhere in the file).                            *)
(*                                                                         *)
(* Not asserted (deliberately outside the property or not fixed by it):      *)
(*  - the section view of a stale / wide SHT_DYNAMIC header (out of date by   *)
(*    construction; view.secview = FALSE: the segment views only), and which  *)
(*    table a segment reader uses when a section that COINCIDES with the       *)
(*    segment links to another table than DT_STRTAB addresses ("the section   *)
(*    link or the string-table pointer" - either; such images are not built); *)
(*  - the symbol count when no hash table determines it (no hash tags, or a  *)
(*    GNU table without populated bucket and no DT_HASH): the format offers  *)
(*    only heuristics there; view.count.det = FALSE;                         *)
(*  - names of codes the vendored registry / the Solaris table below do not  *)
(*    define (vocabulary gating as everywhere); DT_SUNW_FILTER's string;     *)
(*  - Solaris tags on a MIPS / AArch64 machine (no such platform);           *)
(*  - the decoding of relocation entries in depth (machine-specific r_info,   *)
(*    RELR bitmaps, application): Reloc.tla (C08); here the tables the array  *)
(*    names are read back entry by entry under the generic r_info split, and  *)
(*    RELR tables consist of address entries only;                            *)
(*  - arrays that are not terminated inside PT_DYNAMIC / .dynamic, absent    *)
(*    DT_STRTAB / DT_SYMTAB, overlapping PT_LOAD address ranges (ill-formed);*)
(*  - how a string that is not UTF-8 is represented (the driver asserts "a   *)
(*    string in every view, the same in all views" only); what get_tag(n)    *)
(*    answers for n beyond the terminator.                                   *)
(* Deviations of the unchanged tree this check found (fixes/C09-*.patch):    *)
(*  - num_symbols:gnu-empty-ld+sysv - GNU ld's empty GNU table (symoffset 1, *)
(*    no populated bucket) is trusted for the count (answer 1) although the   *)
(*    format gives only a lower bound there and DT_HASH holds the count;      *)
(*  - strings.decode:non-utf8 - the string table reached through DT_STRTAB    *)
(*    decodes strictly (UnicodeDecodeError while listing the tags) where the  *)
(*    section's table decodes with replacement.                               *)
(***************************************************************************)
EXTENDS Elf, HashWalk, DynScan, Json, CSV, IOUtils

CONSTANTS Modes,        \* subset of {"tags", "tail", "layout", "syms", "sweep", "adj", "rel"}
          FreeIds,      \* indices into Alpha the writer may append (mode "tags")
          MaxFree,      \* free tags per object (mode "tags")
          SymIds,       \* name ids of symbols (mode "syms")
          MaxSyms,      \* symbols after the null entry (mode "syms")
          NBuckets,     \* nbucket(s) (mode "syms")
          TagCfs,       \* configurations of mode "tags" (set of indices into Cfs)
          SweepIds      \* sweep specifications (indices into SweepSpecs)

VARIABLES o, phase, mem, rd
vars == <<o, phase, mem, rd>>

(* ------------------------------- names --------------------------------- *)
NameSeq == TLCEval(<< <<>>,                                                        \* 1 ""
                      <<108, 105, 98, 99, 46, 115, 111, 46, 54>>,                  \* 2 "libc.so.6"
                      <<115, 111, 46, 54>>,                                        \* 3 "so.6": the tail of 2 in the table
                      <<47, 195, 169, 226, 130, 172>>,                             \* 4 "/é€" (UTF-8)
                      [i \in 1..70 |-> IF i = 1 THEN 47 ELSE 65 + (i % 26)],       \* 5 70 bytes: longer than a 64-byte read chunk
                      <<97>>,                                                      \* 6 "a"  GNU hash 0x2b606
                      <<98>>,                                                      \* 7 "b"  GNU hash 0x2b607
                      <<47, 255, 254>> >>)                                         \* 8 "/\xff\xfe": not UTF-8
AllIds == 1..8
InTable == <<2, 4, 5, 6, 7, 8>>                                                    \* 1 = offset 0, 3 = inside 2
DynStr == TLCEval(LET raw == <<0>> \o Flat([k \in 1..Len(InTable) |-> NameSeq[InTable[k]] \o <<0>>])
                  IN raw \o Rep(0, RoundUp(Len(raw), 8) - Len(raw)))
StrOffs == TLCEval(LET offs == NameOffs([k \in 1..Len(InTable) |-> NameSeq[InTable[k]]], 1)
                       OffOf(x) == offs[CHOOSE k \in 1..Len(InTable) : InTable[k] = x]
                   IN [id \in AllIds |-> IF id = 1 THEN 0 ELSE IF id = 3 THEN OffOf(2) + 5 ELSE OffOf(id)])
ASSUME \A id \in AllIds : CStrAt(DynStr, StrOffs[id]).s = NameSeq[id]
\* the decoy table of variants "split" and "matchdecoy": every non-empty string read from it differs
Decoy == <<0, 88, 88, 88, 88, 88, 88, 0>>
GH == TLCEval([k \in AllIds |-> GnuHash(NameSeq[k])])
EH == TLCEval([k \in AllIds |-> ElfHash(NameSeq[k])])

(* ---------------------------- abstract tags ---------------------------- *)
\* k: kind; c: the low four digits of d_tag; sx: the tag is sign-extended to the class width (a negative tag);
\* a: argument - "str": name id; "val": a field value or Big; "tab": which table; "in": distance from the string table
T(k, c, sx, a) == [k |-> k, c |-> c, sx |-> sx, a |-> a]
C1(n) == <<n, 0, 0, 0>>
Big == [big |-> TRUE]                                    \* "a value needing all bits of the class"
NullTag == T("null", C1(0), FALSE, 0)
Alpha == << T("str", C1(1), FALSE, 2),                        \*  1 DT_NEEDED "libc.so.6"
            T("str", C1(1), FALSE, 5),                        \*  2 DT_NEEDED 70 bytes
            T("str", C1(14), FALSE, 3),                       \*  3 DT_SONAME "so.6" (offset inside another string)
            T("str", C1(15), FALSE, 4),                       \*  4 DT_RPATH UTF-8
            T("str", C1(29), FALSE, 1),                       \*  5 DT_RUNPATH "" (offset 0)
            T("val", <<251, 255, 255, 111>>, FALSE, Big),   \*  6 DT_FLAGS_1 with a value needing all bits
            T("val", <<1, 0, 0, 112>>, FALSE, N(1)),          \*  7 0x70000001: DT_MIPS_RLD_VERSION / DT_AARCH64_BTI_PLT / unnamed
            T("val", <<53, 0, 0, 112>>, FALSE, N(16)),        \*  8 0x70000035: DT_MIPS_RLD_MAP_REL / unnamed
            T("val", <<15, 0, 0, 96>>, FALSE, N(1)),          \*  9 0x6000000f: DT_ANDROID_REL / DT_SUNW_FILTER
            T("val", <<19, 0, 0, 96>>, FALSE, N(7)),          \* 10 0x60000013: DT_SUNW_ENCODING = DT_SUNW_SORTENT / unnamed
            T("val", <<120, 86, 52, 18>>, FALSE, N(3)),       \* 11 0x12345678: unassigned
            T("val", <<1, 0, 0, 128>>, TRUE, Big),          \* 12 a negative d_tag
            T("bss", C1(3), FALSE, 0),                        \* 13 DT_PLTGOT -> memory without file image
            T("in", C1(12), FALSE, 1),                        \* 14 DT_INIT -> file-backed memory (string table + 1)
            T("val", C1(21), FALSE, N(0)),                    \* 15 DT_DEBUG 0
            T("str", C1(15), FALSE, 8),                       \* 16 DT_RPATH, not UTF-8
            T("in", C1(12), FALSE, 3) >>                      \* 17 a DT_INIT with another target (string table + 3): the first one counts
TabTag(which) == CASE which = "hash" -> T("tab", C1(4), FALSE, "hash")
                   [] which = "gnuhash" -> T("tab", <<245, 254, 255, 111>>, FALSE, "gnuhash")
                   [] which = "strtab" -> T("tab", C1(5), FALSE, "strtab")
                   [] which = "symtab" -> T("tab", C1(6), FALSE, "symtab")
                   [] which = "decoy" -> T("tab", C1(5), FALSE, "decoy")
Tails == << <<>>,                                             \* 1 nothing after DT_NULL
            <<Alpha[1]>>,                                     \* 2 one more DT_NEEDED
            <<NullTag, Alpha[3]>>,                            \* 3 a second DT_NULL and a DT_SONAME
            <<TabTag("decoy"), Alpha[4], Alpha[12]>>,         \* 4 a DT_STRTAB naming another table, more entries
            <<T("val", <<255, 255, 255, 255>>, TRUE, Big)>> >>   \* 5 all-ones garbage

(* --------------------------- abstract symbols -------------------------- *)
Sym(nm, value, size, info, other, shndx) == [nm |-> nm, value |-> value, size |-> size, info |-> info, other |-> other, shndx |-> shndx]
NullSym == Sym(1, Z, Z, 0, 0, 0)
BigV(c) == IF c = 32 THEN W(<<1, 0, 0, 128>>) ELSE W(<<1, 0, 0, 0, 0, 0, 0, 128>>)
\* k: serial number (stays with the symbol when the hashed part is sorted)
LSym(id, k, c) == Sym(id, IF k = 2 THEN BigV(c) ELSE N(4096 * k), N(Len(NameSeq[id]) + k), (IF k % 2 = 1 THEN 16 ELSE 32) + (k % 3), k % 4,
                      IF k = 3 THEN 65521 ELSE k)

(* ----------------------- hash tables (SymHash.tla) --------------------- *)
\* the canonical builders of SymHash.tla (pure operators, copied; C03 model-checks them)
RECURSIVE Cat(_, _, _)
Cat(f, i, j) == IF i > j THEN <<>> ELSE IF i = j THEN f[i] ELSE LET mid == (i + j) \div 2 IN Cat(f, i, mid) \o Cat(f, mid + 1, j)
CatAll(f, n) == LET g == TLCEval(f) IN Cat(g, 1, n)
GBucket(s, nb) == WMod(GH[s.nm], nb)
SortTab(t, nb, so) ==
  LET rest == SubSeq(t, so + 1, Len(t))
      InB(b) == LET P(s) == GBucket(s, nb) = b IN SelectSeq(rest, P)
  IN SubSeq(t, 1, so) \o CatAll([b \in 1..nb |-> InB(b - 1)], nb)
BloomK(c) == IF c = 32 THEN 5 ELSE 6
BuildGnu(t, nb, so, bs, sh, c) ==
  LET n == Len(t)
      hv(i) == GH[t[i + 1].nm]
      bk(i) == WMod(hv(i), nb)
      hashed == so..(n - 1)
  IN [nb |-> nb, so |-> so, bs |-> bs, sh |-> sh,
      bloom |-> [w \in 1..bs |-> UNION {{hv(i)[1] % c, WBits(hv(i), sh, BloomK(c))} : i \in {j \in hashed : WDivC(hv(j), c) % bs = w - 1}}],
      buckets |-> [b \in 1..nb |-> LET ms == {i \in hashed : bk(i) = b - 1} IN IF ms = {} THEN 0 ELSE Min(ms)],
      chain |-> [k \in 1..(n - so) |-> LET i == so + k - 1
                                           h == hv(i)
                                           last == i = n - 1 \/ bk(i + 1) # bk(i)
                                       IN <<h[1] - (h[1] % 2) + (IF last THEN 1 ELSE 0), h[2]>>]]
W4(n, le) == Fix(N(n), 4, le)
LimbB(w, le) == LET d == <<w[1] % 256, w[1] \div 256, w[2] % 256, w[2] \div 256>> IN IF le THEN d ELSE Rev(d)
BloomB(bits, c, le) ==
  LET d == [k \in 1..(c \div 8) |-> LET B(j) == IF (8 * (k - 1) + j) \in bits THEN HPow2(j) ELSE 0
                                   IN B(0) + B(1) + B(2) + B(3) + B(4) + B(5) + B(6) + B(7)]
  IN IF le THEN d ELSE Rev(d)
EncGnu(g, c, le) ==
  W4(g.nb, le) \o W4(g.so, le) \o W4(g.bs, le) \o W4(g.sh, le)
  \o CatAll([w \in 1..g.bs |-> BloomB(g.bloom[w], c, le)], g.bs)
  \o CatAll([b \in 1..g.nb |-> W4(g.buckets[b], le)], g.nb)
  \o CatAll([k \in 1..Len(g.chain) |-> LimbB(g.chain[k], le)], Len(g.chain))
BuildSysV(t, nb, so) ==
  LET n == Len(t)
      bk(i) == WMod(EH[t[i + 1].nm], nb)
      ord == TLCEval([b \in 1..nb |-> LET P(i) == i >= so /\ bk(i) = b - 1
                                           asc == SelectSeq([k \in 1..n |-> k - 1], P)
                                       IN IF (b - 1) % 2 = 0 THEN asc ELSE Rev(asc)])
  IN [nb |-> nb, nc |-> n,
      buckets |-> [b \in 1..nb |-> IF ord[b] = <<>> THEN 0 ELSE ord[b][1]],
      chain |-> [k \in 1..n |-> LET i == k - 1 IN
                                IF i < so THEN 0
                                ELSE LET oo == ord[bk(i) + 1]
                                         p == CHOOSE x \in 1..Len(oo) : oo[x] = i
                                     IN IF p = Len(oo) THEN 0 ELSE oo[p + 1]]]
EncSysV(v, le) == W4(v.nb, le) \o W4(v.nc, le) \o CatAll([b \in 1..v.nb |-> W4(v.buckets[b], le)], v.nb)
                  \o CatAll([k \in 1..v.nc |-> W4(v.chain[k], le)], v.nc)

(* ---------------------------- configurations --------------------------- *)
ClsLe == {<<32, TRUE>>, <<32, FALSE>>, <<64, TRUE>>, <<64, FALSE>>}
Cf(cls, le, machine, osabi) == [cls |-> cls, le |-> le, machine |-> machine, osabi |-> osabi]
\* class / byte order x machine / OS ABI combinations of mode "tags"
Cfs == << Cf(64, TRUE, 62, 0),       \* 1 x86-64
          Cf(32, FALSE, 8, 0),       \* 2 MIPS, big-endian
          Cf(64, FALSE, 183, 0),     \* 3 AArch64, big-endian
          Cf(32, TRUE, 3, 6),        \* 4 i386, Solaris
          Cf(64, TRUE, 8, 0),        \* 5 MIPS64
          Cf(32, TRUE, 40, 0),       \* 6 ARM
          Cf(64, FALSE, 43, 6),      \* 7 SPARC V9, Solaris
          Cf(32, FALSE, 20, 0) >>    \* 8 PowerPC
CfOf(cl) == Cf(cl[1], cl[2], IF cl[1] = 64 THEN 62 ELSE 3, 0)
Layouts == {"one", "two", "bss", "twobss", "high"}
AdjLayouts == {"adj", "adjrev"}                          \* mode "adj" only
Variants == {"match", "matchdecoy", "split"}
\* The relation between the SHT_DYNAMIC section header and the PT_DYNAMIC segment (mode "shdr" enumerates all of them).  S = the file
\* extent [sh_offset, +sh_size) of the SHT_DYNAMIC section, P = [p_offset, +p_filesz) of PT_DYNAMIC (ShdrRelation checks the picture):
\*   match / matchdecoy  S = P, sh_link names the table DT_STRTAB addresses;
\*   split               S and P disjoint (P is a second copy of the array), sh_link as before;
\*   stale               S lies inside P and starts one entry after it (the section header describes the array as it was before an
\*                       entry was put in front of it), sh_link names ANOTHER string table (the decoy);
\*   wide                P lies inside S and starts one entry after it (the section still counts an entry that was dropped from
\*                       the front: sh_size reaches over the following section), sh_link names the decoy;
\*   nodyn               section headers exist, but none of type SHT_DYNAMIC (the array lies in a SHT_PROGBITS section);
\*   (absent altogether: the Stripped image of every object).
\* By the gABI the strings of the array PT_DYNAMIC locates are found through DT_STRTAB; a section header's sh_link speaks for
\* "the entries in the section" only.  Where S # P the header does not describe the segment's array, and the segment view must not
\* depend on it (SegmentByPointer).  The section view of a stale / wide header is not asserted (out of date by construction).
ShdrVariants == {"match", "matchdecoy", "split", "stale", "wide", "nodyn"}
IsSplit(x) == x.variant = "split"
IsStale(x) == x.variant = "stale"
IsWide(x) == x.variant = "wide"
NoDynSec(x) == x.variant = "nodyn"
HasCopy(x) == x.variant \in {"split", "wide"}                  \* PT_DYNAMIC covers a section of its own behind .dynamic
HasDecoy(x) == x.variant \in {"split", "matchdecoy", "stale", "wide", "nodyn"}
SecViewDefined(x) == x.variant \in {"match", "matchdecoy", "split"}     \* a SHT_DYNAMIC section that describes the array
MPos == {"front", "back", "mid"}
HKinds == {"none", "sysv", "gnu", "both"}
\* rels: which relocation tables the array names; plt: DT_JMPREL absent, or present with DT_PLTREL = DT_REL / DT_RELA
Rels(rel, rela, relr, plt) == [rel |-> rel, rela |-> rela, relr |-> relr, plt |-> plt]
NoRels == Rels(FALSE, FALSE, FALSE, "none")
\* cut (layouts adj / adjrev): the table that starts the PT_LOAD placed directly behind the first one in memory;
\* symlast: the symbol table is the last of the tables (as under the zero-fill layouts)
Obj(mode, cf, layout, variant, mpos, fid, free, tid, syms, hk, nb, so, ld) ==
  [fid |-> fid, tid |-> tid, tail |-> Tails[tid], mode |-> mode, cls |-> cf.cls, le |-> cf.le, machine |-> cf.machine, osabi |-> cf.osabi, layout |-> layout, variant |-> variant,
   mpos |-> mpos, free |-> free, syms |-> syms, hk |-> hk, nb |-> nb, so |-> so, ld |-> ld,
   cut |-> 2, symlast |-> FALSE, rels |-> NoRels]
TwoSyms(c) == <<LSym(6, 1, c), LSym(7, 2, c)>>

\* sweeps: one object per group of GroupLen registry codes, under a machine / OS ABI
GroupLen == 10
Skip == {<<0>>, <<1>>, <<4>>, <<5>>, <<6>>, <<14>>, <<15>>, <<29>>, <<245, 254, 255, 111>>}     \* the reader's own tags: every object has them
CodesOf(key) == IF key \in DOMAIN RegByCode THEN LET ps == RegByCode[key] IN [i \in 1..Len(ps) |-> ps[i][1]] ELSE <<>>
NotSkipped(c) == c \notin Skip
SolarisCodes == [i \in 1..Len(SolarisDT) |-> <<SolarisDT[i][1], 0, 0, 96>>]
ProcCodes == CodesOf("DT_MIPS") \o CodesOf("DT_AARCH64") \o CodesOf("DT_PPC") \o CodesOf("DT_PPC64") \o CodesOf("DT_SPARC")
             \o CodesOf("DT_RISCV") \o CodesOf("DT_ALPHA") \o CodesOf("DT_IA_64") \o CodesOf("DT_HEX") \o CodesOf("DT_NIOS2")
SweepSpecs == TLCEval(<< [cf |-> Cfs[1], codes |-> SelectSeq(CodesOf("DT_BASE"), NotSkipped)],         \* 1 generic + GNU / Android names
                         [cf |-> Cfs[2], codes |-> CodesOf("DT_MIPS")],                                 \* 2 MIPS names on MIPS
                         [cf |-> Cfs[3], codes |-> ProcCodes],                                          \* 3 every processor code on AArch64
                         [cf |-> Cfs[1], codes |-> ProcCodes],                                          \* 4 ... on x86-64 (no processor names)
                         [cf |-> Cfs[4], codes |-> SolarisCodes],                                       \* 5 Solaris names under Solaris
                         [cf |-> Cfs[6], codes |-> SolarisCodes],                                       \* 6 ... under System V
                         [cf |-> Cfs[5], codes |-> SelectSeq(CodesOf("DT_BASE"), NotSkipped)],          \* 7 generic names on MIPS64
                         [cf |-> Cfs[8], codes |-> ProcCodes],                                          \* 8 every processor code on PowerPC
                         [cf |-> Cfs[7], codes |-> ProcCodes \o SolarisCodes] >>)                       \* 9 SPARC + Solaris
NGroups(s) == (Len(SweepSpecs[s].codes) + GroupLen - 1) \div GroupLen
SweepTags(s, g) == LET cs == SweepSpecs[s].codes
                       lo == (g - 1) * GroupLen + 1
                       hi == Min({Len(cs), g * GroupLen})
                   IN [i \in 1..(hi - lo + 1) |-> T("val", DTrunc(cs[lo + i - 1], 4), FALSE, N(1))]

(* ------------------------------- writer -------------------------------- *)
NoMem == [none |-> TRUE]
Idle == [view |-> "idle", pc |-> "idle", sc |-> ScanStart, stroff |-> -1, strs |-> <<>>, cnt |-> [det |-> FALSE, n |-> 0], syms |-> <<>>,
         rels |-> <<>>]

Init ==
  /\ phase = "build" /\ mem = NoMem /\ rd = Idle
  /\ \E mode \in Modes :
       CASE mode = "tags" -> \E c \in TagCfs : \E v \in {"split", IF c % 2 = 1 THEN "match" ELSE "matchdecoy"} :
                               o = Obj(mode, Cfs[c], "one", v, "front", <<>>, <<>>, 2, TwoSyms(Cfs[c].cls), "both", 2, 1, FALSE)
         [] mode = "tail" -> \E cl \in ClsLe, t \in 1..Len(Tails), mp \in MPos, v \in Variants :
                               o = Obj(mode, CfOf(cl), "two", v, mp, <<1, 4, 1>>, <<Alpha[1], Alpha[4], Alpha[1]>>, t, TwoSyms(cl[1]), "sysv", 1, 1, FALSE)
         [] mode = "layout" -> \E cl \in ClsLe, l \in Layouts, v \in Variants, hk \in {"gnu", "both"} :
                               o = Obj(mode, CfOf(cl), l, v, "mid", <<3, 13, 14, 2>>, <<Alpha[3], Alpha[13], Alpha[14], Alpha[2]>>, 2, TwoSyms(cl[1]), hk, 2, 1, FALSE)
         [] mode = "syms" -> \E cl \in ClsLe, hk \in HKinds, nb \in NBuckets, ld \in BOOLEAN, l \in {"one", "twobss"} :
                               /\ (ld => hk \in {"gnu", "both"})
                               /\ (l = "twobss" => nb = 1)
                               /\ o = Obj(mode, CfOf(cl), l, IF nb = 1 THEN "split" ELSE IF ld THEN "matchdecoy" ELSE "match", "front", <<1>>, <<Alpha[1]>>, 1, <<>>, hk, nb, 0, ld)
         [] mode = "adj" -> \E cl \in ClsLe, l \in AdjLayouts, v \in {"match", "split"}, sl \in BOOLEAN, cut \in 2..5 :
                               o = [Obj(mode, CfOf(cl), l, v, "mid", <<3, 14>>, <<Alpha[3], Alpha[14]>>, 2, TwoSyms(cl[1]), "both", 2, 1, FALSE)
                                    EXCEPT !.cut = cut, !.symlast = sl]
         [] mode = "rel" -> \E cl \in ClsLe, v \in {"match", "split"}, rel \in BOOLEAN, rela \in BOOLEAN, relr \in BOOLEAN,
                               plt \in {"none", "rel", "rela"} :
                               o = [Obj(mode, CfOf(cl), "two", v, "front", <<1>>, <<Alpha[1]>>, 1, TwoSyms(cl[1]), "sysv", 1, 1, FALSE)
                                    EXCEPT !.rels = Rels(rel, rela, relr, plt)]
         \* the section header / segment relation x class / order x one or two PT_LOADs x position of the mandatory block (which
         \* entry is the first one: DT_HASH or a DT_NEEDED); DT_NEEDED, DT_SONAME (shared tail), DT_RPATH (UTF-8), DT_RUNPATH ""
         [] mode = "shdr" -> \E cl \in ClsLe, v \in ShdrVariants, l \in {"one", "two"}, mp \in {"front", "back"} :
                               o = Obj(mode, CfOf(cl), l, v, mp, <<1, 3, 4, 5>>, <<Alpha[1], Alpha[3], Alpha[4], Alpha[5]>>, 2, TwoSyms(cl[1]), "both", 2, 1, FALSE)
         [] mode = "sweep" -> \E s \in SweepIds : \E g \in 1..NGroups(s) :
                               o = Obj(mode, SweepSpecs[s].cf, "one", CASE g % 3 = 0 -> "split" [] g % 3 = 1 -> "match" [] OTHER -> "matchdecoy", "front", <<s, g>>, SweepTags(s, g), 1,
                                       <<LSym(6, 1, SweepSpecs[s].cf.cls)>>, "sysv", 1, 1, FALSE)

AddTag(i) ==
  /\ phase = "build" /\ o.mode = "tags" /\ Len(o.free) < MaxFree
  /\ o' = [o EXCEPT !.free = Append(@, Alpha[i]), !.fid = Append(@, i)]
  /\ UNCHANGED <<phase, mem, rd>>
AddSymbol(id) ==
  /\ phase = "build" /\ o.mode = "syms" /\ Len(o.syms) < MaxSyms
  /\ o' = [o EXCEPT !.syms = Append(@, LSym(id, Len(@) + 1, o.cls))]
  /\ UNCHANGED <<phase, mem, rd>>

(* ------------------------------ placement ------------------------------ *)
HasV(x) == x.hk \in {"sysv", "both"}
HasG(x) == x.hk \in {"gnu", "both"}
B2N(b) == IF b THEN 1 ELSE 0
Ws(x) == x.cls \div 8
\* The user sections in file order (the name table is the last section).  Usually the symbol table comes first and the string
\* table follows it; under the layouts with zero-fill memory the symbol table comes last of the tables, directly before
\* .dynamic, so that no dynamic pointer marks its end (the "nearest higher pointer" guess of its size is wrong there).
SymLast(x) == x.layout \in {"bss", "twobss"} \/ x.symlast
RelKinds(x) == (IF x.rels.rel THEN <<"rel">> ELSE <<>>) \o (IF x.rels.rela THEN <<"rela">> ELSE <<>>)
               \o (IF x.rels.relr THEN <<"relr">> ELSE <<>>) \o (IF x.rels.plt # "none" THEN <<"plt">> ELSE <<>>)
Order(x) == (IF SymLast(x) THEN <<"str">> ELSE <<"sym", "str">>)
            \o (IF HasV(x) THEN <<"hash">> ELSE <<>>) \o (IF HasG(x) THEN <<"gnu">> ELSE <<>>)
            \o (IF SymLast(x) THEN <<"sym">> ELSE <<>>) \o RelKinds(x) \o (IF IsStale(x) THEN <<"head">> ELSE <<>>) \o <<"dyn">>
            \o (IF HasCopy(x) THEN <<"copy">> ELSE <<>>) \o (IF HasDecoy(x) THEN <<"decoy">> ELSE <<>>)
PosOf(ord, kind) == LET hits == {k \in 1..Len(ord) : ord[k] = kind} IN IF hits = {} THEN -1 ELSE Min(hits)
Ix(x) == LET ord == Order(x) IN [kind \in {"sym", "str", "hash", "gnu", "head", "dyn", "copy", "decoy", "rel", "rela", "relr", "plt"} |-> PosOf(ord, kind)]
\* abstract relocation entries (r_offset: a field value; symbol index, type code; r_addend: a field value, signed)
RelE(off, sym, type, add) == [off |-> off, sym |-> sym, type |-> type, add |-> add]
RelPool(c) == << RelE(N(8200), 1, 7, N(0)), RelE(BigV(c), 2, 7, N(0 - 8)), RelE(N(12304), 0, 8, N(4660)), RelE(N(8208), 3, 7, N(0)) >>
RelEntries(x, kind) == LET P == RelPool(x.cls) IN
  CASE kind = "rel" -> <<P[3], P[1]>> [] kind = "rela" -> <<P[2], P[3]>> [] kind = "plt" -> <<P[1], P[2], P[4]>>
RelrWords(x) == <<N(16640), N(16656)>>                     \* two address entries (even values)
IsRela(x, kind) == kind = "rela" \/ (kind = "plt" /\ x.rels.plt = "rela")
\* ELF32_R_INFO(s, t) = (s << 8) + (unsigned char) t; ELF64_R_INFO(s, t) = (s << 32) + t
InfoDigits(e, c) == IF c = 32 THEN <<e.type>> \o LEn(e.sym, 3) ELSE LEn(e.type, 4) \o LEn(e.sym, 4)
EncRel(e, c, le, rela) == LET rec == [r_offset |-> e.off, r_info |-> W(InfoDigits(e, c)), r_addend |-> e.add] IN
                          Ser(IF rela THEN RelaF ELSE RelF, rec, c, le)
RelBytes(x, kind) ==
  IF kind = "relr" THEN LET ws == RelrWords(x) IN Flat([j \in 1..Len(ws) |-> Fix(ws[j], x.cls \div 8, x.le)])
  ELSE LET es == RelEntries(x, kind) IN Flat([j \in 1..Len(es) |-> EncRel(es[j], x.cls, x.le, IsRela(x, kind))])
\* the tags that name the tables: the PLT block first, then RELA, REL, RELR (a reader must not depend on the order)
RelTags(x) ==
  LET r == x.rels
      L(kind) == N(Len(RelBytes(x, kind)))
      V(c, v) == T("val", C1(c), FALSE, v)
      P(c, kind) == T("tab", C1(c), FALSE, kind) IN
  (IF r.plt # "none" THEN <<V(2, L("plt")), V(20, N(IF r.plt = "rela" THEN 7 ELSE 17)), P(23, "plt")>> ELSE <<>>)
  \o (IF r.rela THEN <<P(7, "rela"), V(8, L("rela")), V(9, N(RelEntSize(x.cls, TRUE)))>> ELSE <<>>)
  \o (IF r.rel THEN <<V(19, N(RelEntSize(x.cls, FALSE))), V(18, L("rel")), P(17, "rel")>> ELSE <<>>)
  \o (IF r.relr THEN <<P(36, "relr"), V(35, L("relr")), V(37, N(x.cls \div 8))>> ELSE <<>>)
Mand(x) == (IF HasV(x) THEN <<TabTag("hash")>> ELSE <<>>) \o (IF HasG(x) THEN <<TabTag("gnuhash")>> ELSE <<>>)
           \o <<TabTag("strtab"), TabTag("symtab"), T("val", C1(10), FALSE, N(Len(DynStr))), T("val", C1(11), FALSE, N(SizeOf(SymF(x.cls), x.cls)))>>
           \o RelTags(x)
Body(x) == CASE x.mpos = "front" -> Mand(x) \o x.free
             [] x.mpos = "back" -> x.free \o Mand(x)
             [] x.mpos = "mid" -> LET h == Len(x.free) \div 2 IN SubSeq(x.free, 1, h) \o Mand(x) \o SubSeq(x.free, h + 1, Len(x.free))
AllTags(x) == Body(x) \o <<NullTag>> \o x.tail
\* "the entries up to and including the terminator"
UpToNull(ts) == SubSeq(ts, 1, Min({i \in 1..Len(ts) : ts[i].k = "null"}))

SymTable(x) == SortTab(<<NullSym>> \o x.syms, x.nb, x.so)
SymEnt(x) == SizeOf(SymF(x.cls), x.cls)
SymRec(s) == [st_name |-> N(StrOffs[s.nm]), st_value |-> s.value, st_size |-> s.size, st_info |-> N(s.info),
              st_other |-> N(s.other), st_shndx |-> N(s.shndx)]
EncSyms(t, c, le) == CatAll([i \in 1..Len(t) |-> Ser(SymF(c), SymRec(t[i]), c, le)], Len(t))
\* the GNU table; an object without hashed symbols may carry GNU ld's form of the empty table (symoffset = 1)
GnuBytes(x, t) == LET g == BuildGnu(t, x.nb, x.so, 1, 5, x.cls) IN
                  EncGnu(IF x.ld /\ x.so = Len(t) THEN [g EXCEPT !.so = 1] ELSE g, x.cls, x.le)

Base(x) == IF x.layout = "high" THEN (IF x.cls = 32 THEN <<0, 0, 0, 192>> ELSE <<0, 0, 0, 128, 255, 255, 255, 255>>)
           ELSE TLCEval(LEn(4194304, Ws(x)))
\* (TLCEval: explicit tuples - TLC re-evaluates a lazily built digit string at every use of one of its digits)
Plus(d, n) == TLCEval(DAdd(d, LEn(n, Len(d))))
\* PT_LOAD entries [va, off, fsz, msz] for a data region ending at file offset `dend`, split at file offset `s`
Loads(x, offs, dend) ==
  LET b == Base(x)
      s == offs[2]
      \* layouts adj / adjrev: A = file [0, table cut-1) at the base; B = file [table cut, end) directly behind A in memory;
      \* C = file [table cut-1, table cut) far away.  p_align 1: "values 0 and 1 mean no alignment is required"
      p == offs[x.cut - 1]
      q == offs[x.cut]
      A == [va |-> b, off |-> 0, fsz |-> p, msz |-> p, al |-> 1]
      B == [va |-> Plus(b, p), off |-> q, fsz |-> dend - q, msz |-> dend - q, al |-> 1]
      C == [va |-> Plus(b, 4194304 + p), off |-> p, fsz |-> q - p, msz |-> q - p, al |-> 1] IN
  CASE x.layout = "adj" -> <<A, B, C>>
    [] x.layout = "adjrev" -> <<C, B, A>>
    [] x.layout \in {"one", "high"} -> << [va |-> b, off |-> 0, fsz |-> dend, msz |-> dend] >>
    [] x.layout = "bss" -> << [va |-> b, off |-> 0, fsz |-> dend, msz |-> dend + 4096] >>
    [] x.layout = "two" -> << [va |-> b, off |-> 0, fsz |-> s, msz |-> s], [va |-> Plus(b, 2097152 + s), off |-> s, fsz |-> dend - s, msz |-> dend - s] >>
    [] x.layout = "twobss" -> << [va |-> b, off |-> 0, fsz |-> s, msz |-> s + 2048],
                                 [va |-> Plus(b, 2097152 + s), off |-> s, fsz |-> dend - s, msz |-> dend - s + 4096] >>
\* the address the layout gives file offset `off`
AddrOf(loads, off) == LET g == loads[Min({j \in 1..Len(loads) : loads[j].off <= off /\ off < loads[j].off + loads[j].fsz})] IN Plus(g.va, off - g.off)

DotDynsym == <<46, 100, 121, 110, 115, 121, 109>>
DotDynstr == <<46, 100, 121, 110, 115, 116, 114>>
DotDstr == <<46, 100, 115, 116, 114>>
DotHash == <<46, 104, 97, 115, 104>>
DotGnuHash == <<46, 103, 110, 117, 46, 104, 97, 115, 104>>
DotDynamic == <<46, 100, 121, 110, 97, 109, 105, 99>>
DotData == <<46, 100, 97, 116, 97>>
DotRel == <<46, 114, 101, 108>>
DotRela == <<46, 114, 101, 108, 97>>
DotDyn == <<46, 100, 121, 110>>
DotPlt == <<46, 112, 108, 116>>
DotRelrDyn == <<46, 114, 101, 108, 114, 46, 100, 121, 110>>
Sht(name) == W(TLCEval(DTrunc(KindCodes[name], 4)))

\* d_tag / d_un as field values, given the addresses P = [strtab, symtab, hash, gnuhash, decoy, bss]
BigOf(x) == IF x.cls = 32 THEN W(<<1, 0, 0, 128>>) ELSE W(<<1, 0, 0, 0, 0, 0, 0, 128>>)
TagDigits(x, t) == TLCEval(IF t.sx THEN DSext(t.c, Ws(x)) ELSE DTrunc(t.c, Ws(x)))
ValDigits(x, P, t) ==
  TLCEval(
  CASE t.k = "str" -> LEn(StrOffs[t.a], Ws(x))
    [] t.k = "val" -> Digits(IF "big" \in DOMAIN t.a THEN BigOf(x) ELSE t.a, Ws(x))
    [] t.k = "tab" -> P[t.a]
    [] t.k = "bss" -> P.bss
    [] t.k = "in" -> Plus(P.strtab, t.a)
    [] t.k = "null" -> DZero(Ws(x)))
EncTags(x, P, ts) == CatAll([i \in 1..Len(ts) |-> Fix(W(TagDigits(x, ts[i])), Ws(x), x.le) \o Fix(W(ValDigits(x, P, ts[i])), Ws(x), x.le)], Len(ts))

\* Writer, last three steps.  Build(so): the symbol table is complete - the symbols from `so` on are hashed (so = table
\* length: none), the symbol and hash tables are serialised.  PlaceTables: file offsets and virtual addresses of all
\* tables; Segments: the PT_LOAD entries of the object's layout; Addresses: the tables' virtual addresses.  EncodeArray: the dynamic array with those
\* addresses.  Encode: the image.  (Several actions rather than one: what an action stores in `mem` is a concrete value, whereas TLC re-evaluates a LET
\* definition at every use inside a function constructor.)
SecCount(x) == Len(Order(x))
NLoad(x) == IF x.layout \in AdjLayouts THEN 3 ELSE IF x.layout \in {"two", "twobss"} THEN 2 ELSE 1
\* What the sections "head" / "dyn" hold of the encoded array `dyn` (dl = its length) under the variants where the SHT_DYNAMIC
\* section is not the array: stale - "head" (SHT_PROGBITS) holds the first entry, the SHT_DYNAMIC section the rest (PT_DYNAMIC
\* covers both); wide - the SHT_DYNAMIC section holds one entry of its own (DT_DEBUG 0, dropped from the array) and its sh_size
\* reaches over the following section, which holds the array (PT_DYNAMIC covers that one).
Part(d, a, b) == IF Len(d) < b THEN <<>> ELSE SubSeq(d, a, b)
DynSecLen(x, dl) == IF IsStale(x) THEN dl - DynEnt(x.cls) ELSE IF IsWide(x) THEN DynEnt(x.cls) ELSE dl
PreEntry(x) == EncTags(x, <<>>, <<Alpha[15]>>)
DynSecData(x, dyn) == IF IsStale(x) THEN Part(dyn, DynEnt(x.cls) + 1, Len(dyn)) ELSE IF IsWide(x) THEN PreEntry(x) ELSE dyn
HeadData(x, dyn) == Part(dyn, 1, DynEnt(x.cls))
DynSecSize(x, dl) == IF IsStale(x) THEN dl - DynEnt(x.cls) ELSE IF IsWide(x) THEN DynEnt(x.cls) + dl ELSE dl      \* sh_size
Build(so) ==
  /\ phase = "build"
  /\ so >= 1 /\ so <= Len(o.syms) + 1
  /\ (o.mode # "syms" => so = o.so)
  /\ (o.ld => so = Len(o.syms) + 1)                       \* GNU ld's form exists for objects without hashed symbols only
  /\ (~HasG(o) /\ ~HasV(o) => so = 1)
  /\ LET x == [o EXCEPT !.so = so]
         t == SymTable(x) IN
     /\ o' = x
     /\ mem' = [tab |-> t, n |-> Len(t), symb |-> EncSyms(t, x.cls, x.le),
                hb |-> IF HasV(x) THEN EncSysV(BuildSysV(t, x.nb, x.so), x.le) ELSE <<>>,
                gb |-> IF HasG(x) THEN GnuBytes(x, t) ELSE <<>>,
                rb |-> [kind \in {"rel", "rela", "relr", "plt"} |-> IF PosOf(RelKinds(x), kind) # -1 THEN RelBytes(x, kind) ELSE <<>>],
                dynlen |-> Len(AllTags(x)) * DynEnt(x.cls)]
  /\ phase' = "built"
  /\ UNCHANGED rd
PlaceTables ==
  /\ phase = "built"
  /\ LET x == o   ix == Ix(o)   w == Ws(o)
         ord == Order(o)
         lens == [k \in 1..Len(ord) |-> CASE ord[k] = "sym" -> Len(mem.symb) [] ord[k] = "str" -> Len(DynStr) [] ord[k] = "hash" -> Len(mem.hb)
                                           [] ord[k] = "gnu" -> Len(mem.gb) [] ord[k] = "dyn" -> DynSecLen(x, mem.dynlen) [] ord[k] = "copy" -> mem.dynlen [] ord[k] = "head" -> DynEnt(x.cls)
                                           [] ord[k] = "decoy" -> Len(Decoy) [] OTHER -> Len(mem.rb[ord[k]])]
         \* where the data region starts (Elf.tla: after the ELF header and the program header table) and ends (after .shstrtab)
         hdr == [Im0 EXCEPT !.cls = x.cls, !.segs = [j \in 1..(NLoad(x) + 1) |-> Z]]
         d0 == DataOff(hdr)
         offs == [k \in 1..Len(lens) |-> d0 + SumR(lens, 1, k - 1)]
         dsum == SumR(lens, 1, Len(lens)) IN
     mem' = [f \in DOMAIN mem \cup {"lens", "d0", "offs", "dsum"} |->
               CASE f = "lens" -> lens [] f = "d0" -> d0 [] f = "offs" -> offs [] f = "dsum" -> dsum [] OTHER -> mem[f]]
  /\ phase' = "placed"
  /\ UNCHANGED <<o, rd>>

SecOf(x, m, ad, dyn, kind) ==
  LET c == x.cls   w == Ws(x)   ix == Ix(x) IN
  CASE kind = "sym" -> Sec(DotDynsym, Sht("SHT_DYNSYM"), N(2), ad[ix.sym], m.symb, N(Len(m.symb)), N(ix.str), N(1), N(w), N(SymEnt(x)))
    [] kind = "str" -> Sec(IF HasDecoy(x) THEN DotDstr ELSE DotDynstr, Sht("SHT_STRTAB"), N(2), ad[ix.str], DynStr, N(Len(DynStr)), Z, Z, N(1), Z)
    [] kind = "hash" -> Sec(DotHash, Sht("SHT_HASH"), N(2), ad[ix.hash], m.hb, N(Len(m.hb)), N(ix.sym), Z, N(4), N(4))
    [] kind = "gnu" -> Sec(DotGnuHash, Sht("SHT_GNU_HASH"), N(2), ad[ix.gnu], m.gb, N(Len(m.gb)), N(ix.sym), Z, N(w), Z)
    [] kind = "dyn" -> IF NoDynSec(x) THEN Sec(DotData, Sht("SHT_PROGBITS"), N(3), ad[ix.dyn], dyn, N(m.dynlen), Z, Z, N(w), Z)
                       ELSE Sec(DotDynamic, Sht("SHT_DYNAMIC"), N(3), ad[ix.dyn], DynSecData(x, dyn), N(DynSecSize(x, m.dynlen)),
                                N(IF IsStale(x) \/ IsWide(x) THEN ix.decoy ELSE ix.str), Z, N(w), N(DynEnt(c)))
    [] kind = "head" -> Sec(DotData, Sht("SHT_PROGBITS"), N(3), ad[ix.head], HeadData(x, dyn), N(DynEnt(c)), Z, Z, N(w), Z)
    [] kind = "copy" -> Sec(DotData, Sht("SHT_PROGBITS"), N(3), ad[ix.copy], dyn, N(m.dynlen), Z, Z, N(w), Z)
    [] kind = "decoy" -> Sec(DotDynstr, Sht("SHT_STRTAB"), N(2), ad[ix.decoy], Decoy, N(Len(Decoy)), Z, Z, N(1), Z)
    [] kind = "relr" -> Sec(DotRelrDyn, Sht("SHT_RELR"), N(2), ad[ix.relr], m.rb.relr, N(Len(m.rb.relr)), Z, Z, N(w), N(w))
    [] kind \in {"rel", "rela", "plt"} ->
         LET ra == IsRela(x, kind) IN
         Sec((IF ra THEN DotRela ELSE DotRel) \o (IF kind = "plt" THEN DotPlt ELSE DotDyn), Sht(IF ra THEN "SHT_RELA" ELSE "SHT_REL"), N(2),
             ad[ix[kind]], m.rb[kind], N(Len(m.rb[kind])), N(ix.sym), Z, N(w), N(RelEntSize(c, ra)))
Sections(x, m, ad, dyn) == LET ord == Order(x) IN [k \in 1..Len(ord) |-> SecOf(x, m, ad, dyn, ord[k])]
\* the length of .shstrtab (Elf.tla writes it after the user sections)
ShStrLen(x) == Len(StrTab([Im0 EXCEPT !.secs = Sections(x, [symb |-> <<>>, hb |-> <<>>, gb |-> <<>>, dynlen |-> 0,
                                                                  rb |-> [kind \in {"rel", "rela", "relr", "plt"} |-> <<>>]],
                                                             [k \in 1..SecCount(x) |-> Z], <<>>)]))
Segments ==
  /\ phase = "placed"
  /\ LET dend == mem.d0 + mem.dsum + ShStrLen(o)
         loads == Loads(o, mem.offs, dend) IN                  \* two segments: the first table alone in the first one
     mem' = [f \in DOMAIN mem \cup {"dend", "loads"} |-> CASE f = "dend" -> dend [] f = "loads" -> loads [] OTHER -> mem[f]]
  /\ phase' = "loaded"
  /\ UNCHANGED <<o, rd>>
Addresses ==
  /\ phase = "loaded"
  /\ LET x == o   ix == Ix(o)   w == Ws(o)
         loads == mem.loads
         ad == [k \in 1..Len(mem.offs) |-> AddrOf(mem.loads, mem.offs[k])]
         P == [strtab |-> ad[ix.str], symtab |-> ad[ix.sym], hash |-> IF HasV(x) THEN ad[ix.hash] ELSE DZero(w),
               gnuhash |-> IF HasG(x) THEN ad[ix.gnu] ELSE DZero(w), decoy |-> IF HasDecoy(x) THEN ad[ix.decoy] ELSE Plus(ad[ix.str], 2),
               rel |-> IF x.rels.rel THEN ad[ix.rel] ELSE DZero(w), rela |-> IF x.rels.rela THEN ad[ix.rela] ELSE DZero(w),
               relr |-> IF x.rels.relr THEN ad[ix.relr] ELSE DZero(w), plt |-> IF x.rels.plt # "none" THEN ad[ix.plt] ELSE DZero(w),
               \* an address without file image: in the zero-fill tail of the first segment; beyond every segment under adj / adjrev
               bss |-> IF x.layout \in AdjLayouts THEN Plus(Base(x), 8388608) ELSE Plus(loads[1].va, loads[1].fsz + 16)]
         pd == IF HasCopy(x) THEN ix.copy ELSE IF IsStale(x) THEN ix.head ELSE ix.dyn IN
     mem' = [f \in DOMAIN mem \cup {"ad", "P", "pdyn"} |->
               CASE f = "ad" -> ad [] f = "P" -> P
                 [] f = "pdyn" -> [off |-> mem.offs[pd], size |-> mem.dynlen, index |-> Len(loads), sec |-> pd]
                 [] OTHER -> mem[f]]
  /\ phase' = "addressed"
  /\ UNCHANGED <<o, rd>>
EncodeArray ==
  /\ phase = "addressed"
  /\ mem' = [f \in DOMAIN mem \cup {"dyn"} |-> IF f = "dyn" THEN EncTags(o, mem.P, AllTags(o)) ELSE mem[f]]
  /\ phase' = "encoded"
  /\ UNCHANGED <<o, rd>>
Encode ==
  /\ phase = "encoded"
  /\ LET x == o   w == Ws(o)
         dyn == mem.dyn
         nload == Len(mem.loads)
         segs == [j \in 1..nload |-> Seg(N(1), N(IF j = 1 THEN 5 ELSE 6), N(mem.loads[j].off), W(mem.loads[j].va), W(mem.loads[j].va),
                                          N(mem.loads[j].fsz), N(mem.loads[j].msz), N(IF "al" \in DOMAIN mem.loads[j] THEN mem.loads[j].al ELSE 4096))]
                 \o << Seg(N(2), N(6), N(mem.pdyn.off), W(mem.ad[mem.pdyn.sec]), W(mem.ad[mem.pdyn.sec]), N(mem.dynlen), N(mem.dynlen), N(w)) >>
         wads == [k \in 1..Len(mem.ad) |-> W(mem.ad[k])]
         im == [Im0 EXCEPT !.cls = x.cls, !.le = x.le, !.machine = x.machine, !.osabi = x.osabi, !.etype = N(3),
                           !.secs = Sections(o, mem, wads, dyn), !.segs = segs]
         ord == Order(o)
         data == Flat([k \in 1..Len(ord) |-> CASE ord[k] = "sym" -> mem.symb [] ord[k] = "str" -> DynStr [] ord[k] = "hash" -> mem.hb
                                                [] ord[k] = "gnu" -> mem.gb [] ord[k] = "dyn" -> DynSecData(x, dyn) [] ord[k] = "copy" -> dyn
                                                [] ord[k] = "head" -> HeadData(x, dyn) [] ord[k] = "decoy" -> Decoy
                                                [] OTHER -> mem.rb[ord[k]]]) IN
     mem' = [f \in DOMAIN mem \cup {"im", "data"} |-> CASE f = "im" -> im [] f = "data" -> data [] OTHER -> mem[f]]
  /\ phase' = "done"
  /\ UNCHANGED <<o, rd>>

(* ---------------------------- reader machine --------------------------- *)
\* the reader sees: the data region of the file (mem.data, file offsets mem.d0 ..), the PT_LOAD / PT_DYNAMIC entries
\* (mem.loads, mem.pdyn), and - section view only - the section headers (mem.offs, mem.lens, links as written)
Rel(off) == off - mem.d0                                          \* file offset -> 0-based index into mem.data
FromOff(off) == SubSeq(mem.data, Rel(off) + 1, Len(mem.data))
Keep == UNCHANGED <<o, phase, mem>>
At(pc) == phase = "done" /\ rd.pc = pc
TabBase(v) == IF v = "sec" THEN mem.offs[Ix(o).dyn] ELSE mem.pdyn.off
TabSize(v) == IF v = "sec" THEN mem.lens[Ix(o).dyn] ELSE mem.pdyn.size

\* (the section view is read where a SHT_DYNAMIC section describes the array - variants match, matchdecoy, split)
StartRead(v) == At("idle") /\ (v = "sec" => SecViewDefined(o)) /\ rd' = [Idle EXCEPT !.view = v, !.pc = "scan"] /\ Keep
ScanTag ==
  /\ At("scan")
  /\ LET st == ScanStep(mem.data, Rel(TabBase(rd.view)), TabSize(rd.view), o.cls, o.le, rd.sc) IN
     rd' = [rd EXCEPT !.sc = st, !.pc = CASE st.pc = "scan" -> "scan" [] st.pc = "done" -> "strtab" [] OTHER -> "fault"]
  /\ Keep
\* the value of the first entry with tag code c, or <<>> if there is none
ValOf(out, c) == LET i == FirstOf(out, c) IN IF i = 0 THEN <<>> ELSE out[i][2]
OffOfTag(out, c) == LET v == ValOf(out, c) IN IF v = <<>> THEN -1 ELSE PtrToOffset(mem.loads, v)
StrtabOf(v, out) == IF v = "sec" THEN mem.offs[mem.im.secs[Ix(o).dyn].link.n] ELSE OffOfTag(out, DtStrtab)
SelectStrtab ==
  /\ At("strtab")
  /\ LET so == StrtabOf(rd.view, rd.sc.out) IN rd' = [rd EXCEPT !.stroff = so, !.pc = IF so < 0 THEN "fault" ELSE "strings"]
  /\ Keep
StrAt(stroff, d) == LET k == DSmall(d) IN
                    IF k < 0 \/ Rel(stroff) + k >= Len(mem.data) THEN <<-1>> ELSE CStrAt(mem.data, Rel(stroff) + k).s
StringsOf(stroff, out) == [i \in 1..Len(out) |-> IF DSig(out[i][1]) \in StringTags THEN StrAt(stroff, out[i][2]) ELSE <<-1>>]
ResolveStrings == At("strings") /\ rd' = [rd EXCEPT !.strs = StringsOf(rd.stroff, rd.sc.out), !.pc = "count"] /\ Keep
\* section view: the linked symbol table's sh_size / sh_entsize; segment view: the hash tables
HMem(off) == [cls |-> o.cls, le |-> o.le, h |-> FromOff(off)]
CountOf(v, out) ==
  IF v = "sec" THEN [det |-> TRUE, n |-> mem.lens[Ix(o).sym] \div SymEnt(o)]
  ELSE LET go == OffOfTag(out, DtGnuHash)
           ho == OffOfTag(out, DtHash)
           gc == IF go >= 0 THEN GnuCount(HMem(go)) ELSE Fault(GnuCountStart) IN
       IF go >= 0 /\ gc.pc = "done" /\ gc.flag THEN [det |-> TRUE, n |-> gc.res]              \* the chain of the highest bucket ends the table
       ELSE IF ho >= 0 /\ SysVCount(HMem(ho)) >= 0 THEN [det |-> TRUE, n |-> SysVCount(HMem(ho))]   \* nchain
       ELSE [det |-> FALSE, n |-> IF go >= 0 /\ gc.pc = "done" THEN gc.res ELSE 0]              \* a lower bound at best
CountSymbols == At("count") /\ rd' = [rd EXCEPT !.cnt = CountOf(rd.view, rd.sc.out), !.pc = "syms"] /\ Keep
\* entry i of the symbol table at file offset `so`: <<name, st_name, value digits, size digits, info, other, shndx>>
RECURSIVE FieldOff(_, _, _)
FieldOff(F, c, k) == IF k = 1 THEN 0 ELSE FieldOff(F, c, k - 1) + Width(F[k - 1][2], c)
FieldIx(F, name) == CHOOSE k \in 1..Len(F) : F[k][1] = name
SymField(so, i, name) == LET F == SymF(o.cls)   k == FieldIx(F, name) IN
                         RdDigits(mem.data, Rel(so) + i * SymEnt(o) + FieldOff(F, o.cls, k), Width(F[k][2], o.cls), o.le)
SymAt(so, stroff, i) == LET nm == SymField(so, i, "st_name") IN
                        <<StrAt(stroff, nm), DSmall(nm), SymField(so, i, "st_value"), SymField(so, i, "st_size"),
                          SymField(so, i, "st_info")[1], SymField(so, i, "st_other")[1], DSmall(SymField(so, i, "st_shndx"))>>
\* the symbols are read up to the true count where the reader's own count is not determined (the entries exist all the same)
SymsOf(v, out, stroff, cnt) ==
  LET so == IF v = "sec" THEN mem.offs[Ix(o).sym] ELSE OffOfTag(out, DtSymtab)
      n == IF cnt.det THEN cnt.n ELSE mem.n IN
  IF so < 0 THEN <<>> ELSE [i \in 1..n |-> SymAt(so, stroff, i - 1)]
ReadSymbols == At("syms") /\ rd' = [rd EXCEPT !.syms = SymsOf(rd.view, rd.sc.out, rd.stroff, rd.cnt), !.pc = "relocs"] /\ Keep
\* the relocation tables the array names, in every view: address -> file offset through the PT_LOAD mapping, the size from the
\* size tag, the flavour of REL / RELA by the tag, of the DT_JMPREL table by DT_PLTREL.  Rows <<name, is RELA, entries>>.
RelocsOf(out) ==
  LET Has(c) == FirstOf(out, c) # 0
      Size(c) == IF Has(c) THEN DSmall(ValOf(out, c)) ELSE -1
      Base0(c) == LET f == OffOfTag(out, c) IN IF f < 0 THEN -1 ELSE Rel(f)
      Tab(name, pc, sc, rela) == <<name, rela, RelTableAt(mem.data, Base0(pc), Size(sc), o.cls, o.le, rela)>> IN
  (IF Has(DtRel) THEN <<Tab("REL", DtRel, DtRelsz, FALSE)>> ELSE <<>>)
  \o (IF Has(DtRela) THEN <<Tab("RELA", DtRela, DtRelasz, TRUE)>> ELSE <<>>)
  \o (IF Has(DtRelr) THEN << <<"RELR", FALSE, RelrTableAt(mem.data, Base0(DtRelr), Size(DtRelrsz), o.cls, o.le)>> >> ELSE <<>>)
  \o (IF Has(DtJmprel) THEN <<Tab("JMPREL", DtJmprel, DtPltrelsz, DSig(ValOf(out, DtPltrel)) = DtRela)>> ELSE <<>>)
ReadRelocs == At("relocs") /\ rd' = [rd EXCEPT !.rels = RelocsOf(rd.sc.out), !.pc = "done"] /\ Keep
Reset == At("done") /\ rd' = Idle /\ Keep

Next ==
  \/ \E i \in FreeIds : AddTag(i)
  \/ \E id \in SymIds : AddSymbol(id)
  \/ \E so \in 1..(MaxSyms + 1) : Build(so)
  \/ PlaceTables \/ Segments \/ Addresses \/ EncodeArray \/ Encode
  \/ \E v \in {"sec", "seg"} : StartRead(v)
  \/ ScanTag \/ SelectStrtab \/ ResolveStrings \/ CountSymbols \/ ReadSymbols \/ ReadRelocs \/ Reset
Spec == Init /\ [][Next]_vars

(* ---------------------------- declarative view ------------------------- *)
\* computed from the abstract object and the writer's placement only - never from the encoded bytes
Done == phase = "done"
IsPtr(t) == t.k \in {"tab", "bss", "in"}
\* where a pointer tag's target lies in the file (-1: nowhere)
TargetOff(x, t) ==
  CASE t.k = "bss" -> -1
    [] t.k = "in" -> mem.offs[Ix(x).str] + t.a
    [] t.k = "tab" -> CASE t.a = "strtab" -> mem.offs[Ix(x).str] [] t.a = "symtab" -> mem.offs[Ix(x).sym] [] t.a = "hash" -> mem.offs[Ix(x).hash]
                        [] t.a = "gnuhash" -> mem.offs[Ix(x).gnu]
                        [] t.a \in {"rel", "rela", "relr", "plt"} -> mem.offs[Ix(x)[t.a]]
                        [] t.a = "decoy" -> IF HasDecoy(x) THEN mem.offs[Ix(x).decoy] ELSE mem.offs[Ix(x).str] + 2
DtByCode == TLCEval([k \in DtKeys |-> RegByCode[k]])
TagView(x, t) ==
  LET td == TagDigits(x, t) IN
  <<WS(td), DtNamesOf(DtByCode, x.machine, x.osabi, td), W(ValDigits(x, mem.P, t)),
    CASE t.k = "str" -> "s" [] IsPtr(t) -> "p" [] OTHER -> "v",
    CASE t.k = "str" -> NameSeq[t.a] [] IsPtr(t) -> <<TargetOff(x, t)>> [] OTHER -> <<>> >>
\* the count is determined when a GNU table has a populated bucket (something is hashed) or a SysV table exists
CountDet(x) == (HasG(x) /\ x.so < mem.n) \/ HasV(x)
SymView(s) == <<NameSeq[s.nm], StrOffs[s.nm], W(Digits(s.value, Ws(o))), W(Digits(s.size, Ws(o))), s.info, s.other, s.shndx>>
ViewTags(x) == UpToNull(AllTags(x))
\* the relocation tables, from the abstract object: rows <<name, is RELA, entries <<r_offset, r_info, symbol, type, r_addend>> (digits)>>
\* in the order REL, RELA, RELR, JMPREL
ExpRels ==
  LET w == Ws(o)
      Row(e, rela) == <<Digits(e.off, w), DTrunc(InfoDigits(e, o.cls), w), e.sym, e.type, IF rela THEN Digits(e.add, w) ELSE DZero(w)>>
      Tab(name, kind) == LET es == RelEntries(o, kind)   ra == IsRela(o, kind) IN <<name, ra, [j \in 1..Len(es) |-> Row(es[j], ra)]>>
      ws == RelrWords(o) IN
  (IF o.rels.rel THEN <<Tab("REL", "rel")>> ELSE <<>>) \o (IF o.rels.rela THEN <<Tab("RELA", "rela")>> ELSE <<>>)
  \o (IF o.rels.relr THEN << <<"RELR", FALSE, [j \in 1..Len(ws) |-> <<Digits(ws[j], w), DZero(w), 0, 0, DZero(w)>>]>> >> ELSE <<>>)
  \o (IF o.rels.plt # "none" THEN <<Tab("JMPREL", "plt")>> ELSE <<>>)
RelView == LET r == ExpRels IN
  [i \in 1..Len(r) |-> [name |-> r[i][1], rela |-> r[i][2],
                        ents |-> [j \in 1..Len(r[i][3]) |-> LET e == r[i][3][j] IN <<W(e[1]), W(e[2]), e[3], e[4], WS(e[5])>>]]]
DynView == [tags |-> [i \in 1..Len(ViewTags(o)) |-> TagView(o, ViewTags(o)[i])],
         syms |-> [i \in 1..mem.n |-> SymView(mem.tab[i])],
         byname |-> [k \in AllIds |-> {i \in 0..(mem.n - 1) : mem.tab[i + 1].nm = k}],
         count |-> [det |-> CountDet(o), n |-> mem.n],
         rels |-> RelView,
         \* a SHT_DYNAMIC section describes the array (FALSE: stale / wide / no such section - the segment views only)
         secview |-> SecViewDefined(o),
         \* no DT_RELA / DT_REL / DT_JMPREL / DT_RELR in the array: a reader finds no relocation table
         relfree |-> \A i \in 1..Len(ViewTags(o)) : ViewTags(o)[i].c \notin {C1(7), C1(17), C1(23), C1(36)},
         \* ld-style empty GNU table: the class of objects on which a reader trusting symoffset alone goes wrong
         cclass |-> IF ~HasG(o) /\ ~HasV(o) THEN "nohash"
                    ELSE IF HasG(o) /\ o.so = mem.n /\ o.ld /\ mem.n > 1 THEN (IF HasV(o) THEN "gnu-empty-ld+sysv" ELSE "gnu-empty-ld")
                    ELSE IF HasG(o) /\ o.so = mem.n THEN (IF HasV(o) THEN "gnu-empty+sysv" ELSE "gnu-empty")
                    ELSE o.hk]

(* -------------------------------- images ------------------------------- *)
ImWith == mem.im
ImStripped == [mem.im EXCEPT !.nosht = TRUE]
IsShdrChunk(im, ch) == ~im.nosht /\ ch[1] >= ShOff(im)
\* the two encodings as <<ELF header chunk, common chunks, section header chunks>>
Split(im) == LET cs == Chunks(im)
                 NotSh(ch) == ~IsShdrChunk(im, ch)
                 IsSh(ch) == IsShdrChunk(im, ch)
             IN [eh |-> cs[1], common |-> SelectSeq(Tail(cs), NotSh), sh |-> SelectSeq(Tail(cs), IsSh)]

(* ------------------------------ emission ------------------------------- *)
BindNames == << <<0, {"STB_LOCAL"}>>, <<1, {"STB_GLOBAL"}>>, <<2, {"STB_WEAK"}>> >>                                     \* gABI figure 4-17
TypeNames == << <<0, {"STT_NOTYPE"}>>, <<1, {"STT_OBJECT"}>>, <<2, {"STT_FUNC"}>>, <<3, {"STT_SECTION"}>>, <<4, {"STT_FILE"}>> >>   \* figure 4-18
ShnNames == << <<0, {"SHN_UNDEF"}>>, <<65521, {"SHN_ABS"}>> >>
\* where the fields a harness needs to find in a raw ELF header lie (gABI figures 4-3, 4-4): <<file offset, width>>
EhField(name, cls) == <<16 + FieldOff(EhdrF, cls, FieldIx(EhdrF, name)), Width(EhdrF[FieldIx(EhdrF, name)][2], cls)>>
EhLayout(cls) == [f \in {"e_machine", "e_shoff", "e_shentsize", "e_shnum", "e_shstrndx", "e_phoff", "e_phnum"} |-> EhField(f, cls)]
Tables == [bind |-> BindNames, type |-> TypeNames, shn |-> ShnNames,
           ehdr |-> [c32 |-> EhLayout(32), c64 |-> EhLayout(64), EI_CLASS |-> 4, EI_DATA |-> 5, EI_OSABI |-> 7],
           solaris |-> AllSolarisNames, names |-> NameSeq]
Brief == [mode |-> o.mode, cls |-> o.cls, le |-> o.le, machine |-> o.machine, osabi |-> o.osabi, layout |-> o.layout, variant |-> o.variant,
          mpos |-> o.mpos, hk |-> o.hk, nb |-> o.nb, so |-> o.so, ld |-> o.ld, ntags |-> Len(AllTags(o)),
          cut |-> o.cut, symlast |-> o.symlast, rels |-> o.rels]
\* three keyed lines per object (a line must stay below the 8 KB an append writes atomically)
Key == [b |-> Brief, fid |-> o.fid, tid |-> o.tid, sn |-> [i \in 1..Len(o.syms) |-> o.syms[i].nm]]
CaseA(a, b) ==
         [key |-> Key, part |-> "A", eh1 |-> a.eh, eh2 |-> b.eh, common |-> a.common,
          ix |-> [dyn |-> Ix(o).dyn, sym |-> Ix(o).sym, str |-> Ix(o).str, pdyn |-> mem.pdyn.index, nload |-> Len(mem.loads)]]
CaseS(a) == [key |-> Key, part |-> "S", sh |-> a.sh]
CaseB == [key |-> Key, part |-> "B", view |-> DynView]
\* (the state at the end of the segment read has one predecessor: every object is written once)
Emit == /\ (Done /\ rd.view = "seg" /\ rd.pc = "done" =>
               LET a == Split(ImWith)   b == Split(ImStripped) IN
               /\ CSVWrite("%1$s", <<ToJson(CaseA(a, b))>>, IOEnv.OUT)
               /\ CSVWrite("%1$s", <<ToJson(CaseS(a))>>, IOEnv.OUT)
               /\ CSVWrite("%1$s", <<ToJson(CaseB)>>, IOEnv.OUT))
        \* the name tables and header layouts (a few initial states; the driver takes the first)
        /\ (phase = "build" /\ o.cls = 64 /\ o.le /\ o.variant = "match" /\ o.machine = 62 /\ (o.mode = "tags" => Len(o.free) = 0)
              /\ (o.mode = "syms" => Len(o.syms) = 0) => CSVWrite("%1$s", <<ToJson([tables |-> Tables])>>, IOEnv.OUT))

(* ------------------------------ properties ----------------------------- *)
Finished(v) == Done /\ rd.view = v /\ rd.pc = "done"
ExpTags == LET ts == ViewTags(o) IN [i \in 1..Len(ts) |-> <<TagDigits(o, ts[i]), ValDigits(o, mem.P, ts[i])>>]
ExpStrs == LET ts == ViewTags(o) IN [i \in 1..Len(ts) |-> IF ts[i].k = "str" THEN NameSeq[ts[i].a] ELSE <<-1>>]
ExpSyms == [i \in 1..mem.n |-> LET s == mem.tab[i] IN
              <<NameSeq[s.nm], StrOffs[s.nm], Digits(s.value, Ws(o)), Digits(s.size, Ws(o)), s.info, s.other, s.shndx>>]
\* the array yields exactly the entries up to and including the terminator
TagsUpToAndInclNull == \A v \in {"sec", "seg"} : Finished(v) => rd.sc.out = ExpTags /\ rd.sc.n = Len(Body(o)) + 1
\* both reader views deliver the declarative view: tags, strings, symbols (hence they agree with each other, and - SameData -
\* the segment view of the stripped encoding is the segment view of the encoding with sections)
ViewsAgree == \A v \in {"sec", "seg"} : Finished(v) => rd.sc.out = ExpTags /\ rd.strs = ExpStrs /\ rd.syms = ExpSyms
\* every view reads back exactly the relocation tables of the abstract object - in particular the DT_JMPREL table in the
\* flavour DT_PLTREL names, whichever other tables exist
\* (the sweep objects carry the relocation tag codes with dummy values - names are swept there, no table is meant)
RelocsAgree == \A v \in {"sec", "seg"} : Finished(v) /\ o.mode # "sweep" => rd.rels = ExpRels
\* mode adj: the first byte of the second PT_LOAD in memory order is the end address of the first one, the two are not
\* adjacent in the file, and a dynamic pointer addresses that byte (the table `cut`; .dynamic itself is addressed by PT_DYNAMIC)
AdjBoundary ==
  Done /\ rd.view = "idle" /\ o.layout \in AdjLayouts =>
    LET ls == mem.loads
        A == ls[IF o.layout = "adj" THEN 1 ELSE 3]   B == ls[2]   C == ls[IF o.layout = "adj" THEN 3 ELSE 1] IN
    /\ B.va = Plus(A.va, A.fsz) /\ B.off # A.off + A.fsz /\ C.off = A.off + A.fsz /\ B.off = C.off + C.fsz
    /\ B.off = mem.offs[o.cut] /\ PtrToOffset(ls, B.va) = B.off /\ ~InLoad(A, B.va) /\ ~InLoad(C, B.va)
    /\ (o.cut < Ix(o).dyn => \E i \in 1..Len(ViewTags(o)) : IsPtr(ViewTags(o)[i]) /\ ValDigits(o, mem.P, ViewTags(o)[i]) = B.va)
\* a count recovered from a hash table is the true count; it is recovered whenever the view says it is determined
CountExact == /\ (Finished("sec") => rd.cnt = [det |-> TRUE, n |-> mem.n])
              /\ (Finished("seg") => rd.cnt.det = CountDet(o) /\ (rd.cnt.det => rd.cnt.n = mem.n) /\ rd.cnt.n <= mem.n)
\* the string table the section link designates is the one DT_STRTAB addresses
StrtabAgree == Done /\ rd.view = "idle" => /\ OffOfTag(ExpTags, DtStrtab) = mem.offs[Ix(o).str]
                                            /\ (SecViewDefined(o) => mem.im.secs[Ix(o).dyn].link.n = Ix(o).str)
\* The segment view takes its strings through DT_STRTAB and the PT_LOAD mapping whatever the section headers say: it reads the
\* table DT_STRTAB addresses and delivers the abstract strings in EVERY section header / segment relation; and where the header
\* is stale or wide it really names another table through which at least one string tag of the array (and a symbol name) would
\* read differently - so an image of these variants tells a reader that follows the header from one that follows the pointer.
ViaLink(out) == StringsOf(mem.offs[mem.im.secs[Ix(o).dyn].link.n], out)
SegmentByPointer ==
  Finished("seg") =>
    /\ rd.stroff = PtrToOffset(mem.loads, ValOf(rd.sc.out, DtStrtab)) /\ rd.stroff = mem.offs[Ix(o).str]
    /\ rd.strs = ExpStrs /\ rd.syms = ExpSyms
    /\ (IsStale(o) \/ IsWide(o) =>
          /\ mem.im.secs[Ix(o).dyn].link.n = Ix(o).decoy /\ mem.offs[Ix(o).decoy] # rd.stroff
          /\ ((\E i \in 1..Len(ExpStrs) : ExpStrs[i] # <<-1>>) => ViaLink(rd.sc.out) # ExpStrs))
\* the picture of the variants: S = [sh_offset, +sh_size) of the SHT_DYNAMIC section, P = [p_offset, +p_filesz) of PT_DYNAMIC
IsShtDynamic(sec) == sec.type = Sht("SHT_DYNAMIC")
ShdrRelation ==
  Done /\ rd.view = "idle" =>
    LET secs == mem.im.secs
        dynsecs == {k \in 1..Len(secs) : IsShtDynamic(secs[k])}
        e == DynEnt(o.cls)
        s0 == mem.offs[Ix(o).dyn]   s1 == s0 + secs[Ix(o).dyn].size.n
        p0 == mem.pdyn.off          p1 == p0 + mem.pdyn.size IN
    /\ dynsecs = IF NoDynSec(o) THEN {} ELSE {Ix(o).dyn}
    /\ CASE o.variant \in {"match", "matchdecoy", "nodyn"} -> s0 = p0 /\ s1 = p1
         [] o.variant = "split" -> s1 <= p0 /\ s1 - s0 = p1 - p0
         [] o.variant = "stale" -> s0 = p0 + e /\ s1 = p1 /\ s0 < s1
         [] o.variant = "wide" -> p0 = s0 + e /\ s1 = p1
    \* the array PT_DYNAMIC covers is the whole encoded array in every variant
    /\ SubSeq(mem.data, Rel(p0) + 1, Rel(p1)) = mem.dyn
\* a translated pointer lies inside the file-backed part of exactly the PT_LOAD that maps it, at the same distance from its start
PtrInsideSegment ==
  Done /\ rd.view = "idle" => LET ts == ViewTags(o) IN
          \A i \in 1..Len(ts) : IsPtr(ts[i]) =>
             LET a == ValDigits(o, mem.P, ts[i])   off == PtrToOffset(mem.loads, a) IN
             /\ off = TargetOff(o, ts[i])
             /\ (off >= 0 => \E j \in 1..Len(mem.loads) : LET g == mem.loads[j] IN
                                /\ g.off <= off /\ off < g.off + g.fsz /\ Plus(g.va, off - g.off) = a
                                /\ \A k \in 1..Len(mem.loads) : k # j => ~InLoad(mem.loads[k], a))
             /\ (off >= 0 => off < mem.dend)
\* the action-level scan stops in the state the closed form of the machine gives (used for trace validation)
RunAgrees == \A v \in {"sec", "seg"} : Finished(v) => rd.sc = Scan(mem.data, Rel(TabBase(v)), TabSize(v), o.cls, o.le)
\* the scan stays inside the table and ends
ScanBounded == rd.sc.n <= Len(Body(o)) + 1 /\ (Done => (Len(Body(o)) + 1) * DynEnt(o.cls) <= mem.pdyn.size)
NoFault == rd.pc # "fault"
ScanProgress == [][rd.pc = "scan" /\ rd'.pc = "scan" => rd'.sc.n = rd.sc.n + 1]_vars
\* the two encodings are the same bytes but for the ELF header and the section header table; PT_DYNAMIC covers the array;
\* variant "split": .dynamic's offset differs from PT_DYNAMIC's and holds the same bytes
SameData ==
  Done /\ rd.view = "idle" =>
    LET a == Split(ImWith)   b == Split(ImStripped) IN
    /\ a.common = b.common /\ b.sh = <<>> /\ a.sh # <<>>
    /\ EhdrRec(ImStripped).e_shoff = Z /\ EhdrRec(ImStripped).e_shnum = Z /\ EhdrRec(ImStripped).e_shstrndx = Z
    /\ (o.variant \in {"match", "matchdecoy", "nodyn"} <=> mem.pdyn.off = mem.offs[Ix(o).dyn])
    /\ (IsSplit(o) => mem.im.secs[Ix(o).copy].data = mem.im.secs[Ix(o).dyn].data)
ChunksOK == Done /\ rd.view = "idle" => ChunksDisjoint(ImWith) /\ ChunksDisjoint(ImStripped)
\* the offsets the writer placed the tables at are the offsets Elf.tla's layout gives the sections; the data region the reader
\* works on is the concatenation of the sections' bytes
PlacementOK ==
  Done /\ rd.view = "idle" =>
    /\ \A k \in 1..Len(mem.offs) : mem.offs[k] = SecOff(mem.im, k) /\ mem.lens[k] = Len(mem.im.secs[k].data)
    /\ Len(mem.im.secs) = Len(mem.offs) /\ mem.d0 = DataOff(mem.im) /\ mem.dend = DataOff(mem.im) + DataSize(mem.im)
    /\ mem.data = Flat([k \in 1..Len(mem.offs) |-> mem.im.secs[k].data])
=============================================================================
