----------------------------- MODULE Combinators -----------------------------
(***************************************************************************)
(* C16, second part - the COMPOSITION of decoders.                         *)
(*                                                                         *)
(* Prim.tla says what the leaves (LEB128, fixed ints, strings, blocks) do. *)
(* Every record decoder of the library is a term of a small combinator     *)
(* language over those leaves (the vendored construct 2.x library plus     *)
(* common/construct_utils.py).  This module is an explicit model of that   *)
(* language, transcribed from the combinators' documented contract         *)
(* (class / macro docstrings of construct 2.x: Struct, Embedded, Rename,   *)
(* Array, PrefixedArray, RepeatUntil[Excluding], Switch, If, IfThenElse,   *)
(* Enum, Value, Padding, Anchor/StreamOffset, String, Field, StaticField,  *)
(* BitStruct/BitField; "Flags are inherited from inner subconstructs to    *)
(* outer constructs"; "Subconstruct wraps an inner construct, inheriting   *)
(* its name"; Struct(nested=True) "creates a nested context", the parent   *)
(* being `_`), not from the _parse bodies:                                 *)
(*                                                                         *)
(*  (A) abstract syntax: records [k |-> kind, ...]  (cInt ... cBitStruct)  *)
(*  (B) writer: (expression, input) pairs; the expression is an entry of   *)
(*      a catalogue built here by composition (leaves x wrappers x struct  *)
(*      templates), the input grows one letter at a time, so every prefix  *)
(*      (truncation point) and every extension ("regardless of what        *)
(*      follows") of every input is a state of the same graph              *)
(*  (C) reader: the cursor/context machine Parse(con, bytes, pos, stk),    *)
(*      one clause per combinator; stk is the stack of context frames      *)
(*      (frame = the fields of the enclosing Struct decoded so far)        *)
(*  (D) what TLC checks on the spec itself, without any code:              *)
(*      ExtIndep      a finished parse is not changed by appending a letter*)
(*                    (nor is an unmapped-Enum / no-Switch-case failure)   *)
(*      NeedSound     the lower bound the writer prunes with is sound      *)
(*      PrefixTrunc   every proper prefix of a consumed encoding is        *)
(*                    "truncated"                                          *)
(*      StaticSize    size-static expressions consume SizeOf(expr), a      *)
(*                    declarative size function, and are truncated below it*)
(*      DynSize       dynamic ones consume SizeIn(expr, value, ctx), the   *)
(*                    value-directed declarative size (construct's         *)
(*                    sizeof(context) view)                                *)
(*      EmbedFlat     Struct(a, Embed(Struct(b, c)), d) = Struct(a,b,c,d)  *)
(*      RenameId      Rename changes names only                            *)
(*                                                                         *)
(* Configurations (spec/cfg/Combinators_*.cfg): quick = 228 expressions,   *)
(* letter 1 over {0,1,2,3,127,128,255}, letters 2..4 over {0,1,255}, later *)
(* ones over {0,1}, one trailing letter: 70 061 states; thorough = 229     *)
(* expressions (an 8-byte integer too), two head letters, span + 1, two    *)
(* trailing letters: 662 307 states.  All properties hold in both.         *)
(*                                                                         *)
(* Not asserted (the documentation is silent): where the cursor is left    *)
(* after a failure; the order of the keys of a Container; what a           *)
(* PrefixedArray's length field leaves in the enclosing context; negative  *)
(* or non-integer counts; If(pred, Embed(..)) followed by a nested Struct; *)
(* what parse returns for a bare Padding ("value is discarded" is about    *)
(* the enclosing Struct).                                                  *)
(* Failures are classified trunc / nomap (Enum without default) / nocase   *)
(* (Switch without default); the driver asks for the library's parse error *)
(* class in all three and keeps them under different clause names.         *)
(***************************************************************************)
EXTENDS Bytes, TLC, Json, CSV, IOUtils

CONSTANTS Groups,      \* which catalogue groups run in this configuration
          AlphaHead,   \* letters for input positions 1..HeadLen
          HeadLen,
          AlphaMid,    \* letters for positions HeadLen+1..MidLen
          MidLen,
          AlphaLate,   \* letters for later positions
          AlphaTrail,  \* letters appended behind a finished parse ("what follows")
          Trail,       \* how many of them
          Bonus,       \* an unfinished input grows up to Span(expr) + Bonus letters ...
          MaxLen       \* ... and never beyond MaxLen

VARIABLES e,           \* index into the catalogue
          inp,         \* the input so far
          res          \* what the reader machine makes of it: Run(expr, inp)
vars == <<e, inp, res>>

Full7 == {0, 1, 2, 3, 127, 128, 255}
Tail4 == {0, 1, 2, 255}
Tail3 == {0, 1, 255}
Two01 == {0, 1}
Two0ff == {0, 255}

(* ======================= (A) abstract syntax =========================== *)
\* a name "" stands for None (the field is parsed, its value is dropped)
cInt(nm, w, le, sg) == [k |-> "int", nm |-> nm, w |-> w, le |-> le, sg |-> sg]
cInt24(nm, le)      == [k |-> "int24", nm |-> nm, le |-> le]
cUleb(nm)           == [k |-> "uleb", nm |-> nm]
cSleb(nm)           == [k |-> "sleb", nm |-> nm]
cCStr(nm)           == [k |-> "cstr", nm |-> nm]
cField(nm, n)       == [k |-> "bytes", nm |-> nm, n |-> n]       \* Field(name, n)
cSField(nm, n)      == [k |-> "sfield", nm |-> nm, n |-> n]      \* StaticField(name, n)
cStr(nm, n)         == [k |-> "str", nm |-> nm, n |-> n]         \* String(name, n)
cFieldRef(nm, r)    == [k |-> "bytesref", nm |-> nm, r |-> r]    \* Field(name, lambda ctx: ...)
cPad(n)             == [k |-> "pad", n |-> n]
cPadRef(r)          == [k |-> "padref", r |-> r]
cOff(nm)            == [k |-> "offset", nm |-> nm]               \* StreamOffset
cVal(nm, fn, r1, r2) == [k |-> "value", nm |-> nm, fn |-> fn, r1 |-> r1, r2 |-> r2]   \* fn: copy | sum | diff
cPass               == [k |-> "pass"]
cStruct(nm, fs)     == [k |-> "struct", nm |-> nm, fs |-> fs]
cEmbed(c)           == [k |-> "embed", c |-> c]
cRename(nm, c)      == [k |-> "rename", nm |-> nm, c |-> c]
cArr(n, c)          == [k |-> "array", n |-> n, c |-> c]
cArrRef(r, c)       == [k |-> "arrayref", r |-> r, c |-> c]
cPArr(lc, c)        == [k |-> "parray", lc |-> lc, c |-> c]      \* PrefixedArray(c, lc)
cRue(p, c)          == [k |-> "rue", p |-> p, c |-> c]           \* RepeatUntilExcluding(p, c)
cSwitch(nm, r, cs, d) == [k |-> "switch", nm |-> nm, r |-> r, cs |-> cs, d |-> d]   \* cs: <<key value, con>>; d: <<>> | <<con>>
cIf(p, c)           == [k |-> "if", p |-> p, c |-> c]
cIfElse(nm, p, a, b) == [k |-> "ifelse", nm |-> nm, p |-> p, a |-> a, b |-> b]
cEnum(c, m, d)      == [k |-> "enum", c |-> c, m |-> m, d |-> d]      \* m: <<int, "NAME">>; d: "pass" | "none"
cBitStruct(nm, fs)  == [k |-> "bitstruct", nm |-> nm, fs |-> fs]
cBits(nm, n)        == [k |-> "bits", nm |-> nm, n |-> n]             \* BitField(name, n)
cBitPad(n)          == [k |-> "bitpad", n |-> n]                      \* Padding(n) inside a BitStruct

\* reference to an earlier field: `up` frames above the current one (ctx._ ...), name nm
Rf(up, nm) == [up |-> up, nm |-> nm]
\* predicate on the context / on a freshly parsed element (f = "": the element itself, else its field f)
Pd(r, op, v) == [r |-> r, op |-> op, v |-> v]          \* op: eq | ge | truthy
Ep(f, op, v) == [f |-> f, op |-> op, v |-> v]          \* op: eq | falsy

\* values: every parsed value is a record with a distinguishing domain
VI(n)  == [n |-> n]                \* a Small integer
VB(b)  == [b |-> b]                \* bytes
VNone  == [z |-> 0]
VL(s)  == [l |-> s]                \* list
VD(fr) == [f |-> fr]               \* container: sequence of <<name, value>>
VS(s)  == [e |-> s]                \* enum name
\* wide integers: [d |-> LE digits, s |-> signed] (Bytes!FixDec) and [g |-> 7-bit groups, s |-> signed] (LEB128 > 4 groups)

RECURSIVE NameOf(_)
NameOf(c) ==
  CASE c.k \in {"int", "int24", "uleb", "sleb", "cstr", "bytes", "sfield", "str", "bytesref", "offset", "value",
                "struct", "rename", "switch", "ifelse", "bitstruct", "bits"} -> c.nm
    [] c.k \in {"pad", "padref", "pass", "bitpad"} -> ""
    [] OTHER -> NameOf(c.c)          \* Subconstruct: "inheriting its name"

\* FLAG_EMBED: set by Embed, inherited by Switch/If from their cases, cleared by Struct
RECURSIVE IsEmb(_)
IsEmb(c) ==
  CASE c.k = "embed" -> TRUE
    [] c.k = "switch" -> \E i \in 1..Len(c.cs) : IsEmb(c.cs[i][2])
    [] c.k = "ifelse" -> IsEmb(c.a) \/ IsEmb(c.b)
    [] c.k = "if" -> IsEmb(c.c)
    [] OTHER -> FALSE

(* ================== declarative sizes (no cursor) ====================== *)
RECURSIVE BitsTotal(_)
BitsTotal(fs) == IF fs = <<>> THEN 0
                 ELSE (IF Head(fs).k = "enum" THEN Head(fs).c.n ELSE Head(fs).n) + BitsTotal(Tail(fs))

RECURSIVE Static(_)
Static(c) ==
  CASE c.k \in {"int", "int24", "bytes", "sfield", "str", "pad", "offset", "value", "pass", "bitstruct"} -> TRUE
    [] c.k = "struct" -> \A i \in 1..Len(c.fs) : Static(c.fs[i])
    [] c.k \in {"embed", "rename", "enum", "array"} -> Static(c.c)
    [] OTHER -> FALSE

RECURSIVE SizeOf(_)
SizeOf(c) ==
  CASE c.k = "int" -> c.w
    [] c.k = "int24" -> 3
    [] c.k \in {"bytes", "sfield", "str", "pad"} -> c.n
    [] c.k \in {"offset", "value", "pass"} -> 0
    [] c.k = "bitstruct" -> BitsTotal(c.fs) \div 8
    [] c.k = "struct" -> SumR([i \in 1..Len(c.fs) |-> SizeOf(c.fs[i])], 1, Len(c.fs))
    [] c.k \in {"embed", "rename", "enum"} -> SizeOf(c.c)
    [] c.k = "array" -> c.n * SizeOf(c.c)

\* lower bound of the bytes any successful parse consumes
RECURSIVE MinSize(_)
MinSize(c) ==
  CASE c.k = "int" -> c.w
    [] c.k = "int24" -> 3
    [] c.k \in {"uleb", "sleb", "cstr"} -> 1
    [] c.k \in {"bytes", "sfield", "str", "pad"} -> c.n
    [] c.k = "bitstruct" -> BitsTotal(c.fs) \div 8
    [] c.k = "struct" -> SumR([i \in 1..Len(c.fs) |-> MinSize(c.fs[i])], 1, Len(c.fs))
    [] c.k \in {"embed", "rename", "enum", "rue"} -> MinSize(c.c)      \* rue: at least the terminator
    [] c.k = "array" -> c.n * MinSize(c.c)
    [] c.k = "parray" -> MinSize(c.lc)
    [] OTHER -> 0
MinSizeFrom(fs, i) == SumR([j \in 1..Len(fs) |-> IF j >= i THEN MinSize(fs[j]) ELSE 0], 1, Len(fs))

\* how long an input has to be allowed to grow to see the interesting behaviours of c (counts up to 2)
RECURSIVE Span(_)
MaxOf(f, n) == IF n = 0 THEN 0 ELSE Max({f[i] : i \in 1..n})
Span(c) ==
  CASE c.k = "int" -> c.w
    [] c.k = "int24" -> 3
    [] c.k \in {"uleb", "sleb", "cstr"} -> 2
    [] c.k \in {"bytes", "sfield", "str", "pad"} -> c.n
    [] c.k \in {"bytesref", "padref"} -> 2
    [] c.k \in {"offset", "value", "pass"} -> 0
    [] c.k = "bitstruct" -> BitsTotal(c.fs) \div 8
    [] c.k = "struct" -> SumR([i \in 1..Len(c.fs) |-> Span(c.fs[i])], 1, Len(c.fs))
    [] c.k \in {"embed", "rename", "enum", "if"} -> Span(c.c)
    [] c.k = "array" -> c.n * Span(c.c)
    [] c.k = "arrayref" -> 2 * Span(c.c)
    [] c.k = "parray" -> MinSize(c.lc) + 2 * Span(c.c)
    [] c.k = "rue" -> Span(c.c) + MinSize(c.c)
    [] c.k = "switch" -> Max({MaxOf([i \in 1..Len(c.cs) |-> Span(c.cs[i][2])], Len(c.cs)),
                              IF c.d = <<>> THEN 0 ELSE Span(c.d[1])})
    [] c.k = "ifelse" -> Max({Span(c.a), Span(c.b)})

(* ===================== (C) the reader machine ========================== *)
Okay(v, p) == [ok |-> TRUE, why |-> "", val |-> v, pos |-> p, need |-> 0]
\* p: where the failure was detected; nd: for "trunc", a lower bound of the length of any completing extension
Bad(w, p, nd) == [ok |-> FALSE, why |-> w, val |-> VNone, pos |-> p, need |-> nd]
Huge == 100000

FrameGet(fr, nm) == fr[Max({i \in 1..Len(fr) : fr[i][1] = nm})][2]
Lookup(stk, r) == FrameGet(stk[Len(stk) - r.up], r.nm)
\* a count taken from the context: a Small, or (a wide LEB128) more than any input holds
CountOf(v) == IF "n" \in DOMAIN v THEN Min({v.n, Huge}) ELSE Huge

Truthy(v) == IF "n" \in DOMAIN v THEN v.n # 0
             ELSE IF "b" \in DOMAIN v THEN Len(v.b) > 0
             ELSE IF "l" \in DOMAIN v THEN Len(v.l) > 0
             ELSE IF "z" \in DOMAIN v THEN FALSE ELSE TRUE
Pred(p, stk) == LET v == Lookup(stk, p.r) IN
                CASE p.op = "eq" -> v = p.v
                  [] p.op = "ge" -> v.n >= p.v.n
                  [] p.op = "truthy" -> Truthy(v)
ElemPred(p, v) == LET t == IF p.f = "" THEN v ELSE FrameGet(v.f, p.f) IN
                  IF p.op = "eq" THEN t = p.v ELSE ~Truthy(t)
ValFn(c, stk) == CASE c.fn = "copy" -> Lookup(stk, c.r1)
                   [] c.fn = "sum" -> VI(Lookup(stk, c.r1).n + Lookup(stk, c.r2).n)
                   [] c.fn = "diff" -> VI(Lookup(stk, c.r1).n - Lookup(stk, c.r2).n)

ReadAt(bs, pos, n) == IF pos + n > Len(bs) THEN Bad("trunc", pos, pos + n)
                      ELSE Okay(VB(Slice(bs, pos + 1, n)), pos + n)

ParseLeb(bs, pos, sg) ==
  LET d == LebDec(Slice(bs, pos + 1, Len(bs) - pos), sg) IN
  IF ~d.ok THEN Bad("trunc", pos, Len(bs) + 1)
  ELSE Okay(IF d.used <= 4 THEN VI(GroupsInt(d.val.g, sg)) ELSE [g |-> d.val.g, s |-> sg], pos + d.used)

\* BitStruct: the bytes are one big-endian bit string, the first field takes the most significant bits
RECURSIVE BitFields(_, _, _, _, _, _)
BitFields(fs, i, nv, rem, fr, pos) ==
  IF i > Len(fs) THEN Okay(VD(fr), pos)
  ELSE LET f == fs[i]
           w == IF f.k = "enum" THEN f.c.n ELSE f.n
           raw == (nv \div Pow(2, rem - w)) % Pow(2, w)
       IN CASE f.k = "bitpad" -> BitFields(fs, i + 1, nv, rem - w, fr, pos)
            [] f.k = "bits" -> BitFields(fs, i + 1, nv, rem - w, Append(fr, <<f.nm, VI(raw)>>), pos)
            [] f.k = "enum" ->
                 LET hit == {j \in 1..Len(f.m) : f.m[j][1] = raw} IN
                 IF hit # {} THEN BitFields(fs, i + 1, nv, rem - w, Append(fr, <<f.c.nm, VS(f.m[Min(hit)][2])>>), pos)
                 ELSE IF f.d = "pass" THEN BitFields(fs, i + 1, nv, rem - w, Append(fr, <<f.c.nm, VI(raw)>>), pos)
                 ELSE Bad("nomap", pos, 0)

RECURSIVE Parse(_, _, _, _), ParseFields(_, _, _, _, _), ParseEmb(_, _, _, _), ParseN(_, _, _, _, _, _, _), ParseRue(_, _, _, _, _)

\* the fields of a Struct in order; stk's last frame is the container under construction (= the context the fields see)
ParseFields(fs, i, bs, pos, stk) ==
  IF i > Len(fs) THEN Okay(stk[Len(stk)], pos)
  ELSE LET f == fs[i]
           r == IF IsEmb(f) THEN ParseEmb(f, bs, pos, stk) ELSE Parse(f, bs, pos, stk)
       IN IF ~r.ok THEN (IF r.why = "trunc" THEN Bad("trunc", r.pos, r.need + MinSizeFrom(fs, i + 1)) ELSE r)
          ELSE LET top == stk[Len(stk)]
                   nm == NameOf(f)
                   top2 == IF IsEmb(f) THEN r.val ELSE IF nm = "" THEN top ELSE Append(top, <<nm, r.val>>)
               IN ParseFields(fs, i + 1, bs, r.pos, [stk EXCEPT ![Len(stk)] = top2])

\* an embedded construct adds its fields to the enclosing container and context; result value = the extended frame
ParseEmb(c, bs, pos, stk) ==
  CASE c.k = "embed" -> ParseEmb(c.c, bs, pos, stk)
    [] c.k = "struct" -> ParseFields(c.fs, 1, bs, pos, stk)
    [] c.k = "pass" -> Okay(stk[Len(stk)], pos)
    [] c.k = "switch" ->
         LET key == Lookup(stk, c.r)
             hit == {i \in 1..Len(c.cs) : c.cs[i][1] = key}
         IN IF hit # {} THEN ParseEmb(c.cs[Min(hit)][2], bs, pos, stk)
            ELSE IF c.d = <<>> THEN Bad("nocase", pos, 0) ELSE ParseEmb(c.d[1], bs, pos, stk)
    [] c.k = "ifelse" -> IF Pred(c.p, stk) THEN ParseEmb(c.a, bs, pos, stk) ELSE ParseEmb(c.b, bs, pos, stk)
    [] c.k = "if" -> IF Pred(c.p, stk) THEN ParseEmb(c.c, bs, pos, stk) ELSE Okay(stk[Len(stk)], pos)

\* exactly n elements, each seeing the same context
ParseN(c, n, i, bs, pos, stk, acc) ==
  IF i > n THEN Okay(VL(acc), pos)
  ELSE LET r == Parse(c, bs, pos, stk) IN
       IF ~r.ok THEN (IF r.why = "trunc" THEN Bad("trunc", r.pos, Max({r.need, pos + (n - i + 1) * MinSize(c)})) ELSE r)
       \* an element that consumed nothing: the remaining ones see the same bytes, cursor and context, hence are equal to it
       ELSE IF r.pos = pos THEN Okay(VL(acc \o Rep(r.val, n - i + 1)), pos)
       ELSE ParseN(c, n, i + 1, bs, r.pos, stk, Append(acc, r.val))

\* elements until the predicate holds; the terminating element is consumed and not part of the value
ParseRue(c, bs, pos, stk, acc) ==
  LET r == Parse(c.c, bs, pos, stk) IN
  IF ~r.ok THEN r
  ELSE IF ElemPred(c.p, r.val) THEN Okay(VL(acc), r.pos)
  ELSE ParseRue(c, bs, r.pos, stk, Append(acc, r.val))

Parse(c, bs, pos, stk) ==
  CASE c.k = "int" ->
         LET r == ReadAt(bs, pos, c.w) IN
         IF ~r.ok THEN r
         ELSE Okay(IF c.w <= 2 THEN VI(SmallDec(r.val.b, c.le, c.sg)) ELSE FixDec(r.val.b, c.le, c.sg), r.pos)
    [] c.k = "int24" ->
         LET r == ReadAt(bs, pos, 3) IN
         IF ~r.ok THEN r ELSE Okay(VI(SmallDec(r.val.b, c.le, FALSE)), r.pos)
    [] c.k = "uleb" -> ParseLeb(bs, pos, FALSE)
    [] c.k = "sleb" -> ParseLeb(bs, pos, TRUE)
    [] c.k = "cstr" ->
         LET d == CStrAt(bs, pos) IN
         IF d.ok THEN Okay(VB(d.s), pos + d.used) ELSE Bad("trunc", pos, Len(bs) + 1)
    [] c.k \in {"bytes", "sfield", "str"} -> ReadAt(bs, pos, c.n)
    [] c.k = "bytesref" -> ReadAt(bs, pos, CountOf(Lookup(stk, c.r)))
    [] c.k = "pad" -> LET r == ReadAt(bs, pos, c.n) IN IF r.ok THEN Okay(VNone, r.pos) ELSE r
    [] c.k = "padref" -> LET r == ReadAt(bs, pos, CountOf(Lookup(stk, c.r))) IN IF r.ok THEN Okay(VNone, r.pos) ELSE r
    [] c.k = "offset" -> Okay(VI(pos), pos)
    [] c.k = "value" -> Okay(ValFn(c, stk), pos)
    [] c.k = "pass" -> Okay(VNone, pos)
    [] c.k = "struct" ->                                   \* nested context: a new frame whose parent is stk's top
         LET r == ParseFields(c.fs, 1, bs, pos, Append(stk, <<>>)) IN
         IF r.ok THEN Okay(VD(r.val), r.pos) ELSE r
    [] c.k = "rename" -> Parse(c.c, bs, pos, stk)
    [] c.k = "array" -> ParseN(c.c, c.n, 1, bs, pos, stk, <<>>)
    [] c.k = "arrayref" -> ParseN(c.c, CountOf(Lookup(stk, c.r)), 1, bs, pos, stk, <<>>)
    [] c.k = "parray" ->
         LET h == Parse(c.lc, bs, pos, stk) IN
         IF ~h.ok THEN h ELSE ParseN(c.c, CountOf(h.val), 1, bs, h.pos, stk, <<>>)
    [] c.k = "rue" -> ParseRue(c, bs, pos, stk, <<>>)
    [] c.k = "switch" ->
         LET key == Lookup(stk, c.r)
             hit == {i \in 1..Len(c.cs) : c.cs[i][1] = key}
         IN IF hit # {} THEN Parse(c.cs[Min(hit)][2], bs, pos, stk)
            ELSE IF c.d = <<>> THEN Bad("nocase", pos, 0) ELSE Parse(c.d[1], bs, pos, stk)
    [] c.k = "if" -> IF Pred(c.p, stk) THEN Parse(c.c, bs, pos, stk) ELSE Okay(VNone, pos)
    [] c.k = "ifelse" -> IF Pred(c.p, stk) THEN Parse(c.a, bs, pos, stk) ELSE Parse(c.b, bs, pos, stk)
    [] c.k = "enum" ->
         LET r == Parse(c.c, bs, pos, stk) IN
         IF ~r.ok THEN r
         ELSE LET hit == {i \in 1..Len(c.m) : VI(c.m[i][1]) = r.val} IN
              IF hit # {} THEN Okay(VS(c.m[Min(hit)][2]), r.pos)
              ELSE IF c.d = "pass" THEN r ELSE Bad("nomap", r.pos, 0)
    [] c.k = "bitstruct" ->
         LET nb == BitsTotal(c.fs)
             r == ReadAt(bs, pos, nb \div 8)
         IN IF ~r.ok THEN r ELSE BitFields(c.fs, 1, SmallDec(r.val.b, FALSE, FALSE), nb, <<>>, r.pos)

\* parse_stream: offset 0, an empty root context
Root == << <<>> >>
Run(c, bs) == Parse(c, bs, 0, Root)

(* ============ value-directed declarative size (sizeof(ctx)) ============ *)
\* defined for expressions without LEB128 (a non-minimal encoding's length is not a function of its value) and
\* whose RepeatUntilExcluding terminator has a known size
RECURSIVE Sizeable(_)
Sizeable(c) ==
  CASE c.k \in {"uleb", "sleb"} -> FALSE
    [] c.k \in {"int", "int24", "cstr", "bytes", "sfield", "str", "bytesref", "pad", "padref", "offset", "value",
                "pass", "bitstruct"} -> TRUE
    [] c.k = "struct" -> \A i \in 1..Len(c.fs) : Sizeable(c.fs[i])
    [] c.k \in {"embed", "rename", "array", "arrayref", "if", "enum"} -> Sizeable(c.c)
    [] c.k = "parray" -> Static(c.lc) /\ Sizeable(c.c)
    [] c.k = "rue" -> Static(c.c) \/ (c.c.k = "cstr" /\ c.p.f = "")
    [] c.k = "switch" -> (\A i \in 1..Len(c.cs) : Sizeable(c.cs[i][2])) /\ (c.d = <<>> \/ Sizeable(c.d[1]))
    [] c.k = "ifelse" -> Sizeable(c.a) /\ Sizeable(c.b)

RECURSIVE SizeIn(_, _, _), SizeFields(_, _, _), SizeEmb(_, _, _)
\* fr is the complete container of the struct and the top of stk
SizeFields(fs, fr, stk) ==
  SumR([i \in 1..Len(fs) |->
          LET f == fs[i] IN
          IF IsEmb(f) THEN SizeEmb(f, fr, stk)
          ELSE SizeIn(f, IF NameOf(f) = "" THEN VNone ELSE FrameGet(fr, NameOf(f)), stk)], 1, Len(fs))
SizeEmb(c, fr, stk) ==
  CASE c.k = "embed" -> SizeEmb(c.c, fr, stk)
    [] c.k = "struct" -> SizeFields(c.fs, fr, stk)
    [] c.k = "pass" -> 0
    [] c.k = "switch" ->
         LET key == Lookup(stk, c.r)
             hit == {i \in 1..Len(c.cs) : c.cs[i][1] = key}
         IN IF hit # {} THEN SizeEmb(c.cs[Min(hit)][2], fr, stk) ELSE SizeEmb(c.d[1], fr, stk)
    [] c.k = "ifelse" -> IF Pred(c.p, stk) THEN SizeEmb(c.a, fr, stk) ELSE SizeEmb(c.b, fr, stk)
    [] c.k = "if" -> IF Pred(c.p, stk) THEN SizeEmb(c.c, fr, stk) ELSE 0
SizeIn(c, v, stk) ==
  CASE c.k = "int" -> c.w
    [] c.k = "int24" -> 3
    [] c.k = "cstr" -> Len(v.b) + 1
    [] c.k \in {"bytes", "sfield", "str", "pad"} -> c.n
    [] c.k = "bytesref" -> Len(v.b)
    [] c.k = "padref" -> Lookup(stk, c.r).n
    [] c.k \in {"offset", "value", "pass"} -> 0
    [] c.k = "bitstruct" -> BitsTotal(c.fs) \div 8
    [] c.k = "struct" -> SizeFields(c.fs, v.f, Append(stk, v.f))
    [] c.k = "rename" -> SizeIn(c.c, v, stk)
    [] c.k \in {"array", "arrayref"} -> SumR([i \in 1..Len(v.l) |-> SizeIn(c.c, v.l[i], stk)], 1, Len(v.l))
    [] c.k = "parray" -> SizeOf(c.lc) + SumR([i \in 1..Len(v.l) |-> SizeIn(c.c, v.l[i], stk)], 1, Len(v.l))
    [] c.k = "rue" -> SumR([i \in 1..Len(v.l) |-> SizeIn(c.c, v.l[i], stk)], 1, Len(v.l))
                      + (IF Static(c.c) THEN SizeOf(c.c) ELSE 1)
    [] c.k = "switch" ->
         LET key == Lookup(stk, c.r)
             hit == {i \in 1..Len(c.cs) : c.cs[i][1] = key}
         IN IF hit # {} THEN SizeIn(c.cs[Min(hit)][2], v, stk) ELSE SizeIn(c.d[1], v, stk)
    [] c.k = "if" -> IF Pred(c.p, stk) THEN SizeIn(c.c, v, stk) ELSE 0
    [] c.k = "ifelse" -> IF Pred(c.p, stk) THEN SizeIn(c.a, v, stk) ELSE SizeIn(c.b, v, stk)
    [] c.k = "enum" -> SizeOf(c.c)

(* ========= Embed(Struct(..)) spliced into the enclosing Struct ========= *)
RECURSIVE Fl(_)
FlSeq(fs) == Flat([i \in 1..Len(fs) |-> IF fs[i].k = "embed" /\ fs[i].c.k = "struct" THEN Fl(fs[i].c).fs ELSE <<Fl(fs[i])>>])
Fl(c) ==
  CASE c.k = "struct" -> [c EXCEPT !.fs = FlSeq(c.fs)]
    [] c.k \in {"embed", "rename", "array", "arrayref", "parray", "rue", "if", "enum"} -> [c EXCEPT !.c = Fl(c.c)]
    [] c.k = "ifelse" -> [c EXCEPT !.a = Fl(c.a), !.b = Fl(c.b)]
    [] c.k = "switch" -> [c EXCEPT !.cs = [i \in 1..Len(c.cs) |-> <<c.cs[i][1], Fl(c.cs[i][2])>>],
                                   !.d = IF c.d = <<>> THEN <<>> ELSE <<Fl(c.d[1])>>]
    [] OTHER -> c

RECURSIVE HasSplice(_)
HasSplice(c) ==
  CASE c.k = "struct" -> \E i \in 1..Len(c.fs) : (c.fs[i].k = "embed" /\ c.fs[i].c.k = "struct") \/ HasSplice(c.fs[i])
    [] c.k \in {"embed", "rename", "array", "arrayref", "parray", "rue", "if", "enum"} -> HasSplice(c.c)
    [] c.k = "ifelse" -> HasSplice(c.a) \/ HasSplice(c.b)
    [] c.k = "switch" -> (\E i \in 1..Len(c.cs) : HasSplice(c.cs[i][2])) \/ (c.d # <<>> /\ HasSplice(c.d[1]))
    [] OTHER -> FALSE

\* all Rename wrappers removed below the top (names inside a Struct matter; a bare or element Rename does not)
RECURSIVE Unren(_)
Unren(c) == IF c.k = "rename" THEN Unren(c.c) ELSE c

(* ====================== (B) the catalogue ============================== *)
U8(nm)   == cInt(nm, 1, TRUE, FALSE)
S8(nm)   == cInt(nm, 1, TRUE, TRUE)
U16L(nm) == cInt(nm, 2, TRUE, FALSE)
U16B(nm) == cInt(nm, 2, FALSE, FALSE)
S16L(nm) == cInt(nm, 2, TRUE, TRUE)
S16B(nm) == cInt(nm, 2, FALSE, TRUE)
U32L(nm) == cInt(nm, 4, TRUE, FALSE)
S32B(nm) == cInt(nm, 4, FALSE, TRUE)
U64L(nm) == cInt(nm, 8, TRUE, FALSE)
S64B(nm) == cInt(nm, 8, FALSE, TRUE)

EMap  == << <<0, "ZERO">>, <<1, "ONE">>, <<3, "THREE">>, <<128, "HI">> >>
TMap  == << <<0, "END">>, <<1, "ONE">>, <<2, "TWO">>, <<3, "BLK">> >>
NMap  == << <<0, "LOCAL">>, <<1, "GLOBAL">>, <<2, "WEAK">>, <<15, "HIPROC">> >>

Ent(x, g, cls) == [x |-> x, g |-> g, cls |-> cls]

\* --- bare leaves
Leaves == <<U8("a"), S8("a"), U16L("a"), U16B("a"), S16L("a"), S16B("a"), U32L("a"), S32B("a"),
            cInt24("a", TRUE), cInt24("a", FALSE), cUleb("a"), cSleb("a"), cCStr("a"),
            cField("a", 0), cField("a", 2), cSField("a", 0), cSField("a", 3), cStr("a", 2), cOff("a")>>
\* (a bare Padding is not in the catalogue: "value is discarded" says what a Struct does with it, not what parse returns)
LeafCat == [i \in 1..Len(Leaves) |-> Ent(Leaves[i], "leaf", Leaves[i].k)]
           \o <<Ent(S64B("a"), "leaf8", "int")>>

\* --- leaves x wrappers
ElemLeaves == <<U8("x"), S8("x"), U16L("x"), U16B("x"), cInt24("x", FALSE), cUleb("x"), cSleb("x"), cCStr("x"), cField("x", 2)>>
ShortLeaves == <<U8("x"), cUleb("x"), cCStr("x")>>
IntLeaves  == <<U8("x"), S8("x"), U16L("x"), U16B("x"), cUleb("x"), cSleb("x")>>
Wrappers(x) == <<cArr(0, x), cArr(2, x), cPArr(U8("len"), x), cPArr(cUleb("len"), x), cRename("r", x)>>
MoreWrappers(x) == <<cArr(1, x), cArr(3, x), cPArr(U16B("len"), x), cPArr(U16L("len"), x),
                     cPArr(U8("len"), cArr(2, x)), cArr(2, cPArr(U8("len"), x))>>
IntWrappers(x) == <<cRue(Ep("", "eq", VI(0)), x), cEnum(x, EMap, "pass"), cEnum(x, EMap, "none"),
                    cArr(2, cEnum(x, EMap, "pass")), cPArr(U8("len"), cEnum(x, EMap, "none")),
                    cRue(Ep("", "eq", VS("ZERO")), cEnum(x, EMap, "pass"))>>
WrapCat == Flat([i \in 1..Len(ElemLeaves) |->
                   LET ws == Wrappers(ElemLeaves[i]) IN [j \in 1..Len(ws) |-> Ent(ws[j], "wrap", ws[j].k)]])
           \o Flat([i \in 1..Len(ShortLeaves) |->
                   LET ws == MoreWrappers(ShortLeaves[i]) IN [j \in 1..Len(ws) |-> Ent(ws[j], "wrap", ws[j].k)]])
           \o Flat([i \in 1..Len(IntLeaves) |->
                   LET ws == IntWrappers(IntLeaves[i]) IN [j \in 1..Len(ws) |-> Ent(ws[j], "wrapint", ws[j].k)]])
           \o <<Ent(cRue(Ep("", "eq", VB(<<>>)), cCStr("x")), "wrapint", "rue"),
                Ent(cRue(Ep("", "falsy", VNone), cCStr("x")), "wrapint", "rue"),
                Ent(cRue(Ep("", "eq", VI(255)), cInt24("x", TRUE)), "wrapint", "rue")>>

\* --- sequencing: the cursor threads through two fields, values land under their names
SeqFirst  == <<U8("a"), U16B("a"), cInt24("a", TRUE), cUleb("a"), cSleb("a"), cCStr("a"), cField("a", 0), cStr("a", 2), cPad(1), cOff("a")>>
SeqSecond == <<U8("b"), cUleb("b"), cCStr("b"), cOff("b")>>
SeqCat == Flat([i \in 1..Len(SeqFirst) |-> [j \in 1..Len(SeqSecond) |->
                  Ent(cStruct("s", <<SeqFirst[i], SeqSecond[j]>>), "seq", "struct")]])

\* --- counts, lengths, keys and predicates taken from the context
R0(nm) == Rf(0, nm)
R1(nm) == Rf(1, nm)
SwCases == << <<VI(0), U8("v")>>, <<VI(1), U16L("v")>>, <<VI(2), cCStr("v")>>, <<VI(3), cField("v", 0)>> >>
CtxCat == <<
  Ent(cStruct("s", <<U8("n"), cArrRef(R0("n"), U8("a"))>>), "ctx", "arrayref"),
  Ent(cStruct("s", <<U8("n"), cArrRef(R0("n"), U16B("a")), U8("z")>>), "ctx", "arrayref"),
  Ent(cStruct("s", <<U8("n"), cArrRef(R0("n"), cCStr("a")), U8("z")>>), "ctx", "arrayref"),
  Ent(cStruct("s", <<cUleb("n"), cArrRef(R0("n"), cUleb("a"))>>), "ctx", "arrayref"),
  Ent(cStruct("s", <<U16L("n"), cArrRef(R0("n"), U8("a"))>>), "ctx", "arrayref"),
  Ent(cStruct("s", <<U8("n"), U8("m"), cArrRef(R0("n"), cArrRef(R0("m"), U8("g"))), U8("z")>>), "ctx", "arrayref.grid"),
  Ent(cStruct("s", <<U8("a"), U8("b"), cVal("n", "sum", R0("a"), R0("b")), cArrRef(R0("n"), U8("xs"))>>), "ctx", "arrayref.value"),
  Ent(cStruct("s", <<cRename("r", U8("a")), cArrRef(R0("r"), U8("xs"))>>), "ctx", "arrayref.rename"),
  Ent(cStruct("s", <<cUleb("n"), cFieldRef("d", R0("n"))>>), "ctx", "bytesref"),
  Ent(cStruct("s", <<U8("n"), cFieldRef("d", R0("n")), U8("z")>>), "ctx", "bytesref"),
  Ent(cStruct("s", <<U8("n"), cPadRef(R0("n")), U8("z")>>), "ctx", "padref"),
  Ent(cStruct("s", <<U8("a"), cPad(2), U8("b")>>), "ctx", "pad"),
  Ent(cStruct("s", <<U8("a"), cPad(0), U16L("b")>>), "ctx", "pad"),
  Ent(cStruct("s", <<U8("t"), cSwitch("v", R0("t"), SwCases, <<>>), U8("z")>>), "ctx", "switch.nodefault"),
  Ent(cStruct("s", <<U8("t"), cSwitch("v", R0("t"), SwCases, <<cPass>>), U8("z")>>), "ctx", "switch.pass"),
  Ent(cStruct("s", <<U8("t"), cSwitch("v", R0("t"), SwCases, <<cField("v", 1)>>), U8("z")>>), "ctx", "switch.default"),
  Ent(cStruct("s", <<cUleb("t"), cSwitch("v", R0("t"), SwCases, <<cPass>>)>>), "ctx", "switch.pass"),
  Ent(cStruct("s", <<cEnum(U8("t"), EMap, "pass"),
                     cSwitch("v", R0("t"), << <<VS("ZERO"), U8("v")>>, <<VS("ONE"), cCStr("v")>>, <<VI(2), U16B("v")>> >>, <<>>),
                     U8("z")>>), "ctx", "switch.enumkey"),
  Ent(cStruct("s", <<U8("t"), cIf(Pd(R0("t"), "truthy", VNone), U16B("v")), U8("z")>>), "ctx", "if"),
  Ent(cStruct("s", <<U8("t"), cIf(Pd(R0("t"), "ge", VI(2)), U8("v")), U8("z")>>), "ctx", "if"),
  Ent(cStruct("s", <<U8("first"), cIf(Pd(R0("first"), "eq", VI(255)), U16L("second"))>>), "ctx", "if"),
  Ent(cStruct("s", <<cCStr("name"), cIf(Pd(R0("name"), "truthy", VNone), cUleb("dir")), U8("z")>>), "ctx", "if"),
  Ent(cStruct("s", <<cEnum(cUleb("form"), EMap, "pass"), cIf(Pd(R0("form"), "eq", VS("ONE")), cSleb("v")), U8("z")>>), "ctx", "if.enum"),
  Ent(cStruct("s", <<U8("t"), cIfElse("v", Pd(R0("t"), "eq", VI(0)), U8("x"), cCStr("y")), U8("z")>>), "ctx", "ifelse"),
  Ent(cStruct("s", <<U8("t"), cIfElse("v", Pd(R0("t"), "ge", VI(2)), cUleb("x"), U16B("y"))>>), "ctx", "ifelse"),
  Ent(cStruct("s", <<cOff("o0"), cUleb("a"), cOff("o1"), cVal("len", "diff", R0("o1"), R0("o0"))>>), "ctx", "offset"),
  Ent(cStruct("s", <<U8("p"), cOff("o0"), cCStr("a"), cOff("o1"), cVal("len", "diff", R0("o1"), R0("o0")), U8("z")>>), "ctx", "offset"),
  Ent(cArr(2, cStruct("s", <<cOff("o0"), U16L("a"), cOff("o1")>>)), "ctx", "offset"),
  Ent(cStruct("s", <<U8("a"), U8("b"), cVal("s", "sum", R0("a"), R0("b")), cVal("c", "copy", R0("a"), R0("a"))>>), "ctx", "value"),
  Ent(cStruct("s", <<cCStr("fn"), cStr("ck", 2)>>), "ctx", "str"),
  \* the parent context `_`, shadowing, one fresh context per array element
  Ent(cStruct("s", <<U8("n"), cStruct("in", <<U8("m"), cArrRef(R1("n"), U8("a")), cArrRef(R0("m"), U8("b"))>>), U8("z")>>), "nest", "parent"),
  Ent(cStruct("s", <<U8("n"), cStruct("in", <<U8("n"), cArrRef(R0("n"), U8("a"))>>), cArrRef(R0("n"), U8("t"))>>), "nest", "shadow"),
  Ent(cStruct("s", <<U8("n"), cStruct("in", <<U8("n"), cArrRef(R1("n"), U8("a"))>>), U8("z")>>), "nest", "shadow"),
  Ent(cStruct("s", <<U8("k"), cArr(2, cStruct("es", <<U8("n"), cArrRef(R0("n"), U8("d")), cArrRef(R1("k"), U8("p"))>>))>>), "nest", "array.struct"),
  Ent(cStruct("s", <<U8("n"), cArrRef(R0("n"), cStruct("es", <<U8("n")>>)), cArrRef(R0("n"), U8("t"))>>), "nest", "shadow.array"),
  Ent(cStruct("s", <<U8("t"), cStruct("in", <<U8("t"), cSwitch("v", R0("t"), SwCases, <<cPass>>)>>), U8("z")>>), "nest", "shadow.switch"),
  Ent(cStruct("s", <<U8("t"), cStruct("in", <<U8("t"), cSwitch("v", R1("t"), SwCases, <<cPass>>)>>), U8("z")>>), "nest", "shadow.switch"),
  Ent(cStruct("s", <<U8("t"), cStruct("in", <<U8("t"), cIf(Pd(R1("t"), "truthy", VNone), U8("v"))>>), U8("z")>>), "nest", "shadow.if"),
  Ent(cStruct("s", <<U8("k"), cPArr(U8("cnt"), cStruct("es", <<U8("a"), cArrRef(R1("k"), U8("b"))>>)), U8("z")>>), "nest", "parray.struct"),
  Ent(cStruct("s", <<U8("k"), cStruct("mid", <<cStruct("in", <<cArrRef(Rf(2, "k"), U8("a"))>>)>>), U8("z")>>), "nest", "parent2"),
  Ent(cArr(2, cStruct("s", <<U8("a"), cCStr("b")>>)), "nest", "array.struct"),
  Ent(cPArr(U8("cnt"), cStruct("s", <<U8("n"), cFieldRef("d", R0("n"))>>)), "nest", "parray.struct"),
  Ent(cPArr(cUleb("cnt"), cStruct("s", <<cEnum(cUleb("ct"), EMap, "pass"), cEnum(cUleb("form"), EMap, "pass")>>)), "nest", "parray.struct"),
  \* RepeatUntilExcluding over records
  Ent(cStruct("s", <<cRue(Ep("t", "eq", VI(0)), cStruct("es", <<U8("t"), cIf(Pd(R0("t"), "ge", VI(2)), U8("v"))>>)), U8("z")>>), "rue", "rue.field"),
  Ent(cStruct("s", <<cRue(Ep("", "eq", VB(<<>>)), cCStr("dirs")), U8("z")>>), "rue", "rue.cstr"),
  Ent(cStruct("s", <<U8("k"), cRue(Ep("a", "eq", VI(0)), cStruct("es", <<U8("a"), cArrRef(R1("k"), U8("b"))>>)), U8("z")>>), "rue", "rue.parent"),
  Ent(cRue(Ep("name", "falsy", VNone),
           cStruct("fe", <<cCStr("name"), cIf(Pd(R0("name"), "truthy", VNone), cEmbed(cStruct("", <<cUleb("dir"), cUleb("mt")>>)))>>)), "rue", "rue.file_entry"),
  Ent(cRue(Ep("n", "eq", VS("ZERO")),
           cStruct("spec", <<cEnum(cUleb("n"), EMap, "pass"), cEnum(cUleb("f"), EMap, "pass"),
                             cIf(Pd(R0("f"), "eq", VS("THREE")), cSleb("v"))>>)), "rue", "rue.abbrev")
>>

\* --- Embed: the fields of the embedded struct live in the enclosing container and context
LocCases == << <<VS("END"), cStruct("e", <<>>)>>, <<VS("ONE"), cStruct("e", <<cUleb("x")>>)>>,
               <<VS("TWO"), cStruct("e", <<U8("x"), U16L("y")>>)>>,
               <<VS("BLK"), cStruct("e", <<cPArr(cUleb("l"), U8("blk"))>>)>> >>
LocEntry == cStruct("entry", <<cOff("o0"), cEnum(U8("ty"), TMap, "pass"), cEmbed(cSwitch("", R0("ty"), LocCases, <<>>)),
                               cOff("o1"), cVal("len", "diff", R0("o1"), R0("o0"))>>)
V5Hdr == cStruct("", <<cEnum(U8("ut"), TMap, "pass"),
                       cEmbed(cSwitch("", R0("ut"), << <<VS("ONE"), cStruct("", <<U8("asz")>>)>>,
                                                       <<VS("TWO"), cStruct("", <<U8("asz"), U16B("id")>>)>> >>, <<>>))>>)
V4Hdr == cStruct("", <<U16L("off"), U8("asz")>>)
EmbCat == <<
  Ent(cStruct("s", <<U8("a"), cEmbed(cStruct("", <<U8("n"), U8("b")>>)), cArrRef(R0("n"), U8("c"))>>), "emb", "embed.struct"),
  Ent(cStruct("s", <<cEmbed(cStruct("", <<cCStr("a")>>)), cEmbed(cStruct("", <<>>)), cEmbed(cStruct("", <<cOff("o"), cUleb("b")>>))>>), "emb", "embed.struct"),
  Ent(cStruct("s", <<U8("k"), cEmbed(cStruct("", <<cArrRef(R0("k"), U8("a")), cStruct("in", <<cArrRef(R1("k"), U8("b"))>>)>>)), U8("z")>>), "emb", "embed.ctx"),
  Ent(cStruct("s", <<U8("a"), cEmbed(cStruct("", <<U8("b"), cEmbed(cStruct("", <<U8("c")>>))>>)), cVal("s", "sum", R0("b"), R0("c"))>>), "emb", "embed.nested"),
  Ent(cArr(2, cStruct("s", <<cEmbed(cStruct("", <<U8("n")>>)), cArrRef(R0("n"), U8("a"))>>)), "emb", "embed.array"),
  Ent(LocEntry, "emb", "embed.switch"),
  Ent(cRue(Ep("ty", "eq", VS("END")), LocEntry), "emb", "embed.switch.rue"),
  Ent(cStruct("cu", <<U8("ver"), cIfElse("", Pd(R0("ver"), "ge", VI(2)), cEmbed(V5Hdr), cEmbed(V4Hdr))>>), "emb", "embed.ifelse"),
  Ent(cStruct("cu", <<U8("ver"), cIfElse("", Pd(R0("ver"), "ge", VI(2)), cEmbed(cStruct("", <<U8("asz"), U16L("off")>>)), cEmbed(V4Hdr)),
                      cArrRef(R0("asz"), U8("t"))>>), "emb", "embed.ifelse"),
  Ent(cStruct("fe", <<cCStr("name"), cIf(Pd(R0("name"), "truthy", VNone), cEmbed(cStruct("", <<cUleb("dir"), U8("len")>>))), U8("z")>>), "emb", "embed.if")
>>

\* --- BitStruct / BitField
BitCat == <<
  Ent(cBitStruct("i", <<cBits("hi", 4), cBits("lo", 4)>>), "bits", "bitstruct"),
  Ent(cBitStruct("i", <<cEnum(cBits("bind", 4), NMap, "pass"), cEnum(cBits("type", 4), NMap, "none")>>), "bits", "bitstruct.enum"),
  Ent(cBitStruct("o", <<cEnum(cBits("local", 3), NMap, "pass"), cBits("other", 2), cEnum(cBits("vis", 3), NMap, "pass")>>), "bits", "bitstruct.enum"),
  Ent(cBitStruct("w", <<cBits("a", 3), cBits("b", 1), cBitPad(3), cBits("c", 4), cBits("d", 5)>>), "bits", "bitstruct16"),
  Ent(cBitStruct("w", <<cBits("a", 1), cBits("b", 7)>>), "bits", "bitstruct"),
  Ent(cBitStruct("w", <<cBits("a", 12), cBits("b", 4)>>), "bits", "bitstruct16"),
  Ent(cStruct("sym", <<U8("x"), cBitStruct("info", <<cEnum(cBits("bind", 4), NMap, "pass"), cEnum(cBits("type", 4), NMap, "pass")>>),
                       cBitStruct("other", <<cBits("local", 3), cBits("o", 2), cBits("vis", 3)>>), U16L("y")>>), "bits", "bitstruct.struct"),
  Ent(cArr(2, cBitStruct("i", <<cBits("hi", 4), cBits("lo", 4)>>)), "bits", "bitstruct.array"),
  Ent(cStruct("s", <<U8("n"), cBitStruct("i", <<cBits("n", 4), cBits("lo", 4)>>), cArrRef(R0("n"), U8("xs"))>>), "bits", "bitstruct.ctx")
>>

Cat == LeafCat \o WrapCat \o SeqCat \o CtxCat \o EmbCat \o BitCat
NCat == Len(Cat)
\* explicit tables (function constructors are lazy in TLC: force them once)
CatX == TLCEval([i \in 1..NCat |-> Cat[i].x])
CatSpan == TLCEval([i \in 1..NCat |-> Span(Cat[i].x)])
CatStatic == TLCEval([i \in 1..NCat |-> Static(Cat[i].x)])
CatSizeable == TLCEval([i \in 1..NCat |-> Sizeable(Cat[i].x)])
CatFl == TLCEval([i \in 1..NCat |-> Fl(Cat[i].x)])
CatSplice == TLCEval([i \in 1..NCat |-> HasSplice(Cat[i].x)])

(* ============================ the writer ================================ *)
Alpha(p) == IF p <= HeadLen THEN AlphaHead ELSE IF p <= MidLen THEN AlphaMid ELSE AlphaLate
Lim(i) == Min({CatSpan[i] + Bonus, MaxLen})

Init == /\ e \in {i \in 1..NCat : Cat[i].g \in Groups}
        /\ inp = <<>>
        /\ res = Run(CatX[e], <<>>)

\* One more letter: an unfinished input while it can still finish within the expression's span (`need` is the reader's lower
\* bound of the length of any completing extension), a finished or failed one until Trail letters follow the point of decision.
\* The reader machine runs on the new input.
Next ==
  /\ UNCHANGED e
  /\ \/ /\ res.why = "trunc" /\ Len(inp) < Lim(e) /\ res.need <= Lim(e)
        /\ \E b \in Alpha(Len(inp) + 1) : inp' = Append(inp, b)
     \/ /\ res.why # "trunc" /\ Len(inp) < res.pos + Trail
        /\ \E b \in AlphaTrail : inp' = Append(inp, b)
  /\ res' = Run(CatX[e], inp')

Spec == Init /\ [][Next]_vars

\* one line per state: <<"c", expr id, input, "" | why, consumed, value>>; the expression itself once, with the empty input
Emit ==
  /\ (inp = <<>>) => CSVWrite("%1$s", <<ToJson(<<"x", e, Cat[e].g, Cat[e].cls, CatX[e]>>)>>, IOEnv.OUT)
  /\ CSVWrite("%1$s", <<ToJson(<<"c", e, inp, res.why, IF res.ok THEN res.pos ELSE 0, res.val>>)>>, IOEnv.OUT)

(* =================== (D) properties of the spec ======================== *)
TypeOK == e \in 1..NCat /\ inp \in Seq(Byte)

Sane ==
  /\ res.why \in {"", "trunc", "nomap", "nocase"}
  /\ res.ok <=> res.why = ""
  /\ res.pos \in 0..Len(inp)
  /\ res.ok => res.pos >= MinSize(CatX[e])
  /\ res.why = "trunc" => res.need > Len(inp)

\* (i) "regardless of what follows": a finished parse keeps value and consumption when a letter is appended;
\*     the same for failures that are not truncations
ExtIndep == [][res.why # "trunc" => res' = res]_vars
\* the writer's pruning bound is a true lower bound: nothing shorter than `need` completes
NeedSound == [][(res.why = "trunc" /\ Len(inp') < res.need) => ~res'.ok]_vars

\* (ii) every proper prefix of a consumed encoding is truncated
PrefixTrunc ==
  (res.ok /\ res.pos = Len(inp)) => \A n \in 0..(Len(inp) - 1) : Run(CatX[e], SubSeq(inp, 1, n)).why = "trunc"

\* (iii) static expressions: consumption is the declarative SizeOf, truncation only below it
StaticSize ==
  CatStatic[e] =>
    LET sz == SizeOf(CatX[e]) IN
    /\ res.ok => res.pos = sz
    /\ res.why = "trunc" => Len(inp) < sz
    /\ Len(inp) < sz => ~res.ok
\* dynamic expressions: consumption is the value-directed size
DynSize == (CatSizeable[e] /\ res.ok) => res.pos = SizeIn(CatX[e], res.val, Root)

\* (iv) embedding a Struct is splicing its fields
EmbedFlat == CatSplice[e] => res = Run(CatFl[e], inp)
\* Rename at the top of an expression changes nothing
RenameId == (CatX[e].k = "rename") => res = Run(Unren(CatX[e]), inp)

=============================================================================
