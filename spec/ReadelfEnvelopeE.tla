-------------------------- MODULE ReadelfEnvelopeE --------------------------
(***************************************************************************)
(* C18, option --debug-dump=info: location expressions in their UNIT        *)
(* CONTEXT, several contexts in one dump, several dumps in one process.     *)
(*                                                                         *)
(* DWARF 3-5, 7.4 / 7.5.1 and 2.5.1 / 2.6.1.1: how an operation's operands  *)
(* are laid out depends on the compilation unit that carries the            *)
(* expression - DW_OP_addr has address_size bytes, the DIE reference of     *)
(* DW_OP_call_ref / DW_OP_implicit_pointer / DW_OP_GNU_implicit_pointer has *)
(* 4 bytes in the 32-bit and 8 bytes in the 64-bit DWARF format - and on    *)
(* the byte order of the file; register operations are printed with the     *)
(* register names of the file's machine.  The description sweep             *)
(* (Envelope.tla, dw_op) has every operation in ONE context (DWARF4, 32-bit *)
(* format, 8-byte addresses, x86-64 LSB, one unit per file).  This module   *)
(* adds the dimension:                                                      *)
(*   files : .debug_info sections of 1..MaxUnits units, every unit with its *)
(*           own context [version, format, address size] out of UCtx, in    *)
(*           the file kinds FileKinds (byte order, class, machine).  Each   *)
(*           unit is a DW_TAG_compile_unit whose children are variables,    *)
(*           one per expression of ExprsOf: every context-sensitive         *)
(*           operation (and representatives of the others) alone and        *)
(*           followed by DW_OP_stack_value, with the operand representatives of   *)
(*           the Expr writer (C12), encoded by Expr!EncExpr under the       *)
(*           unit's context.  Versions 4 / 5 carry DW_FORM_exprloc, version *)
(*           3 DW_FORM_block1 (exprloc is new in DWARF 4).                  *)
(*           NESTING (round 5): every operation with a DIE-reference        *)
(*           operand also inside a DW_OP_entry_value / GNU_entry_value      *)
(*           block (2.5.1.7), inside a block inside a block (with a second  *)
(*           operation next to it), and right after a block (NestedExprs):  *)
(*           the unit context - in particular the unit's offset that turns  *)
(*           a unit-relative reference into the section-relative number     *)
(*           the dump shows - holds on every level, in every unit position. *)
(*   seqs  : sequences of SeqLen single-unit files dumped one after the     *)
(*           other by ONE process (action Dump) - the check runs the clone  *)
(*           in-process, and readelf.py keeps module-level state between    *)
(*           dumps (the machine for register names, expression dumpers).    *)
(*           What is expected of dump k of a sequence is what is expected   *)
(*           of the file alone: the text GNU readelf prints for it          *)
(*           (HistoryFree).                                                 *)
(* Checked by TLC on the specification: UnitsTile (a reader that follows    *)
(* unit_length - 7.5.1.1: 4 or 12 bytes of initial length - meets every     *)
(* unit header where the writer put it, reads the writer's version /        *)
(* address size there, and ends at the end of the section), ExprsDecode     *)
(* (Expr!Dec under the unit's context recovers every expression; ASSUME     *)
(* over the unit table's keys), NestingReached (the nested shapes have the  *)
(* depths they claim and cover every DIE-reference operation),              *)
(* ContextMatters (for the reference operations the encodings under the     *)
(* two formats differ, for DW_OP_addr those under the two address sizes:    *)
(* a dumper configured for another unit's context misreads them),           *)
(* HistoryFree.                                                             *)
(***************************************************************************)
EXTENDS Expr

CONSTANTS EModes,       \* subset of {"files", "seqs"}
          EVers,        \* unit versions (3..5)
          MaxUnits,     \* files mode: most units in a file
          SeqLen        \* seqs mode: length of a sequence of dumps

VARIABLES emode, file, hist
evars == <<emode, file, hist, vars>>

Z0 == N(0)
RECURSIVE Asc(_)
Asc(S) == IF S = {} THEN <<>> ELSE LET m == Min(S) IN <<m>> \o Asc(S \ {m})

\* <<little-endian, class, machine>>: x86-64, AArch64, 64-bit PowerPC; i386, ARM, PowerPC (gABI e_machine registry)
FileKinds == {<<TRUE, 64, 62>>, <<TRUE, 64, 183>>, <<FALSE, 64, 21>>, <<TRUE, 32, 3>>, <<TRUE, 32, 40>>, <<FALSE, 32, 20>>}
UCtx == {[ver |-> v, osz |-> o, asz |-> a] : v \in EVers, o \in {4, 8}, a \in {4, 8}}
UnitsFor(k) == {u \in UCtx : 8 * u.asz <= k[2]}
XCtx(k, u) == [asz |-> u.asz, osz |-> u.osz, le |-> k[1], ver |-> u.ver, lvl |-> 0]

(* ------------------------------ expressions ----------------------------- *)
\* addr; const4u, reg3, breg7, regx (register names); call2, call4, GNU_parameter_ref, const_type, regval_type, deref_type,
\* convert, reinterpret and the GCC forms of DWARF 2-4 producers GNU_const_type, GNU_regval_type, GNU_deref_type,
\* GNU_convert (unit-relative references: printed relative to the section); call_ref, implicit_pointer, GNU_implicit_pointer
\* (DW_OP_xderef_type, 0xa7, is outside the envelope: neither GNU readelf 2.40 nor the clone describes it)
EnvCodes == {3, 12, 83, 119, 144, 152, 153, 250, 164, 165, 166, 168, 169, 244, 245, 246, 247, 154, 160, 242}
\* the operations with a DIE-reference operand: DWARF5 2.5.1.5 (call2, call4: unit-relative; call_ref: section-relative), 2.5.1.6
\* (type operands: unit-relative), 2.6.1.1.4 (implicit_pointer: section-relative) and their GNU forms
UnitRefCodes == {152, 153, 250, 164, 165, 166, 168, 169, 244, 245, 246, 247}
DieRefCodes == UnitRefCodes \cup RefCodes
ASSUME EnvCodes \subseteq Codes /\ RefCodes \subseteq EnvCodes /\ DieRefCodes \subseteq EnvCodes /\ UnitRefCodes \cap RefCodes = {}
\* operands: the representatives of the Expr writer, except that a register NUMBER is one every machine of FileKinds has (5) and a
\* DIE REFERENCE designates a DIE: ru (unit-relative operands: call2, call4, GNU_parameter_ref, the type operand of const_type,
\* regval_type, deref_type, convert) is the offset of the unit's own compile-unit entry, rs (section-relative: call_ref,
\* implicit_pointer, GNU_implicit_pointer) that of the first unit's
Reg5 == [g |-> <<5>>, s |-> FALSE]
FixOf(n, k, c) == [d |-> LEn(n, Width(k, c)), s |-> FALSE]
LebOf(n) == [g |-> <<n>>, s |-> FALSE]
ASSUME KindsOf(152) = <<"u2">> /\ KindsOf(153) = <<"u4">> /\ KindsOf(250) = <<"u4">> /\ KindsOf(164) = <<"uleb", "tblob">>
       /\ KindsOf(165) = <<"uleb", "uleb">> /\ KindsOf(166) = <<"u1", "uleb">> /\ KindsOf(168) = <<"uleb">> /\ KindsOf(144) = <<"uleb">>
       /\ KindsOf(244) = KindsOf(164) /\ KindsOf(245) = KindsOf(165) /\ KindsOf(246) = KindsOf(166)
       /\ KindsOf(247) = KindsOf(168) /\ KindsOf(169) = KindsOf(168) /\ KindsOf(163) = <<"expr">> /\ KindsOf(243) = <<"expr">>
       /\ KindsOf(154) = <<"off">> /\ KindsOf(160) = <<"off", "sleb">> /\ KindsOf(242) = <<"off", "sleb">>
Op(code, c, ru, rs) ==
  LET rep == SeqArgs(code, c) IN
  [code |-> code,
   args |-> CASE code \in {152, 153, 250} -> <<FixOf(ru, KindsOf(code)[1], c)>>
              [] code \in {164, 244} -> <<LebOf(ru), rep[2]>>
              [] code \in {165, 245} -> <<Reg5, LebOf(ru)>>
              [] code \in {166, 246} -> <<rep[1], LebOf(ru)>>
              [] code \in {168, 247, 169} -> <<LebOf(ru)>>
              [] code = 144 -> <<Reg5>>
              [] code = 154 -> <<FixOf(rs, "off", c)>>
              [] code \in {160, 242} -> <<FixOf(rs, "off", c), rep[2]>>
              [] OTHER -> rep]
After == 159                                                   \* DW_OP_stack_value follows (no operands: it is met where the operation before it ends)
FlatExprs(c, ru, rs) ==
  LET cs == Asc(EnvCodes \cap CodesIn(c)) IN
  [i \in 1..(2 * Len(cs)) |-> IF (i % 2) = 1 THEN <<Op(cs[(i + 1) \div 2], c, ru, rs)>>
                               ELSE <<Op(cs[i \div 2], c, ru, rs), Op(After, c, ru, rs)>>]
\* NESTING (DWARF5 2.5.1.7: the operand of DW_OP_entry_value - GCC before DWARF 5: DW_OP_GNU_entry_value - is a block that holds
\* a DWARF expression or a register location description, evaluated in the context of the same unit): every operation with a
\* DIE-reference operand inside an entry-value block of either opcode, inside a block inside a block, and right AFTER a block
\* (the unit context holds on every level and is not lost when a block has been left).  GCC emits e.g.
\* DW_OP_GNU_entry_value (DW_OP_GNU_regval_type ...) for floating-point parameters.
InBlock(nest, e) == [code |-> nest, args |-> <<[e |-> e, lp |-> 0]>>]
NestShapes == 5
NestedOf(o, c, k) ==
  CASE k = 1 -> <<InBlock(163, <<o>>)>>
    [] k = 2 -> <<InBlock(243, <<o>>)>>
    [] k = 3 -> <<InBlock(163, <<InBlock(163, <<o>>)>>)>>
    [] k = 4 -> <<InBlock(243, <<InBlock(163, <<Op(144, c, 0, 0), o>>)>>), Op(After, c, 0, 0)>>
    [] k = 5 -> <<InBlock(163, <<Op(144, c, 0, 0)>>), o>>
NestedExprs(c, ru, rs) ==
  LET cs == Asc(DieRefCodes \cap CodesIn(c)) IN
  [i \in 1..(NestShapes * Len(cs)) |-> NestedOf(Op(cs[((i - 1) \div NestShapes) + 1], c, ru, rs), c, ((i - 1) % NestShapes) + 1)]
ExprsOf(c, ru, rs) == FlatExprs(c, ru, rs) \o NestedExprs(c, ru, rs)

(* --------------------------------- units -------------------------------- *)
\* abbreviations: 1 DW_TAG_compile_unit, children, no attributes; 2 DW_TAG_variable, DW_AT_location DW_FORM_exprloc;
\* 3 DW_TAG_variable, DW_AT_location DW_FORM_block1 (DWARF 3)
Abbrev == <<1, 17, 1, 0, 0, 2, 52, 0, 2, 24, 0, 0, 3, 52, 0, 2, 10, 0, 0, 0>>
VarDie(u, bs) == IF u.ver >= 4 THEN <<2>> \o UlebOfNat(Len(bs)) \o bs ELSE <<3, Len(bs)>> \o bs
\* 7.5.1.1: the length of a unit header = the offset of the unit's first entry
HdrLen(u) == (IF u.osz = 4 THEN 4 ELSE 12) + 2 + u.osz + 1 + (IF u.ver >= 5 THEN 1 ELSE 0)
\* (h1: where the first unit's compile-unit entry lies - the target of the section-relative references)
UnitExprs(k, u, h1) == ExprsOf(XCtx(k, u), HdrLen(u), h1)
UnitBody(k, u, h1) ==
  LET c == XCtx(k, u)
      es == UnitExprs(k, u, h1)
  IN <<1>> \o Flat([i \in 1..Len(es) |-> VarDie(u, EncExpr(es[i], c))]) \o <<0>>
\* 7.5.1.1: version (2), [DWARF 5: unit_type = DW_UT_compile (1), address_size (1)], debug_abbrev_offset (4 / 8), [DWARF 2-4: address_size]
UnitHeader(k, u) ==
  IF u.ver >= 5 THEN Fix(N(u.ver), 2, k[1]) \o <<1, u.asz>> \o Fix(Z0, u.osz, k[1])
  ELSE Fix(N(u.ver), 2, k[1]) \o Fix(Z0, u.osz, k[1]) \o <<u.asz>>
LengthField(n, osz, le) == IF osz = 4 THEN Fix(N(n), 4, le) ELSE <<255, 255, 255, 255>> \o Fix(N(n), 8, le)
UnitBytesAt(k, u, h1) == LET rest == UnitHeader(k, u) \o UnitBody(k, u, h1) IN LengthField(Len(rest), u.osz, k[1]) \o rest
\* (TLC does not memoise: the bytes of a unit are a function of <<file kind, unit context, h1>>, tabulated once)
HdrLens == {HdrLen(u) : u \in UCtx}
UnitKeys == UNION {{<<k, u, h>> : u \in UnitsFor(k), h \in HdrLens} : k \in FileKinds}
UnitTab == TLCEval([x \in UnitKeys |-> UnitBytesAt(x[1], x[2], x[3])])
UnitBytes(k, u, u1) == UnitTab[<<k, u, HdrLen(u1)>>]
InfoBytes(f) == Flat([i \in 1..Len(f.units) |-> UnitBytes(f.kind, f.units[i], f.units[1])])

(* -------------------------------- machine ------------------------------- *)
NoFile == [kind |-> <<TRUE, 64, 62>>, units |-> <<>>]
Frozen == ctx = [asz |-> 4, osz |-> 4, le |-> TRUE, ver |-> 4, lvl |-> 0] /\ expr = <<>> /\ rd = Idle      \* (the variables of Expr are not used)
InitE ==
  /\ Frozen /\ emode \in EModes /\ phase = "write" /\ hist = <<>>
  /\ IF emode = "files" THEN \E k \in FileKinds : file = [kind |-> k, units |-> <<>>] ELSE file = NoFile
AddUnit ==
  /\ emode = "files" /\ phase = "write" /\ Len(file.units) < MaxUnits
  /\ \E u \in UnitsFor(file.kind) : file' = [file EXCEPT !.units = Append(@, u)]
  /\ UNCHANGED <<emode, hist, vars>>
FinishFile ==
  /\ emode = "files" /\ phase = "write" /\ file.units # <<>> /\ phase' = "done"
  /\ UNCHANGED <<emode, file, hist, ctx, expr, rd>>
\* one process dumps a single-unit file, then another one, ...
Singles == UNION {{[kind |-> k, units |-> <<u>>] : u \in UnitsFor(k)} : k \in FileKinds}
Dump ==
  /\ emode = "seqs" /\ phase = "write" /\ Len(hist) < SeqLen
  /\ \E f \in Singles : (IF hist = <<>> THEN TRUE ELSE f # hist[Len(hist)]) /\ hist' = Append(hist, f)
  /\ phase' = IF Len(hist) + 1 = SeqLen THEN "done" ELSE "write"
  /\ UNCHANGED <<emode, file, ctx, expr, rd>>
NextE == AddUnit \/ FinishFile \/ Dump
SpecE == InitE /\ [][NextE]_evars

(* ------------------------------- properties ----------------------------- *)
\* the reader of 7.5.1.1: <<offset of the unit, version, address size, is 64-bit>> per unit, and where it stops
RECURSIVE WalkUnits(_, _, _)
WalkUnits(bs, at, le) ==
  IF at >= Len(bs) THEN [units |-> <<>>, end |-> at]
  ELSE LET il == InitialLength(SubSeq(bs, at + 1, Len(bs)), le)
           osz == IF il.is64 THEN 8 ELSE 4
           h == at + il.used                                  \* offset of the version field
           ver == NatOf(IF le THEN Slice(bs, h + 1, 2) ELSE Rev(Slice(bs, h + 1, 2)))
           asz == IF ver >= 5 THEN bs[h + 4] ELSE bs[h + 2 + osz + 1]
           r == WalkUnits(bs, h + NatOf(SubSeq(il.len.d, 1, 3)), le)
       IN [units |-> <<<<at, ver, asz, il.is64>>>> \o r.units, end |-> r.end]
Done == phase = "done"
UnitsTile ==
  (Done /\ emode = "files") =>
    LET bs == InfoBytes(file)
        w == WalkUnits(bs, 0, file.kind[1])
    IN /\ w.end = Len(bs) /\ Len(w.units) = Len(file.units)
       /\ \A i \in 1..Len(file.units) :
            /\ w.units[i][1] = Len(InfoBytes([file EXCEPT !.units = SubSeq(@, 1, i - 1)]))
            /\ w.units[i][2] = file.units[i].ver /\ w.units[i][3] = file.units[i].asz /\ w.units[i][4] = (file.units[i].osz = 8)
            \* the references of the expressions designate entries: HdrLen is where the unit's first entry (abbreviation 1) lies
            /\ Len(LengthField(0, file.units[i].osz, file.kind[1])) + Len(UnitHeader(file.kind, file.units[i])) = HdrLen(file.units[i])
            /\ bs[w.units[i][1] + HdrLen(file.units[i]) + 1] = 1
\* (a property of the unit contexts, not of the files that combine them: checked once, over the table's keys)
ExprsDecode ==
  \A x \in UnitKeys :
      LET c == XCtx(x[1], x[2])
          es == UnitExprs(x[1], x[2], x[3])
      IN \A j \in 1..Len(es) : LET bs == EncExpr(es[j], c) IN
           /\ Dec(bs, c) = [ok |-> TRUE, out |-> Annot(es[j], c), pos |-> Len(bs)]
           /\ Len(bs) < 128
ASSUME ExprsDecode
\* the nested expressions reach the depths their shapes say (Expr!Depth counts the entry-value blocks around the innermost
\* operation), every DIE-reference operation of the context is among them, and in a unit that is not the first of its section a
\* unit-relative reference and the section-relative offset of its target differ (that is what the dump has to add)
ShapeDepth == <<1, 1, 2, 2, 1>>
NestingReached ==
  \A x \in UnitKeys :
      LET c == XCtx(x[1], x[2])
          ns == NestedExprs(c, HdrLen(x[2]), x[3])
      IN /\ Len(ns) = NestShapes * Cardinality(DieRefCodes \cap CodesIn(c)) /\ UnitRefCodes \subseteq CodesIn(c)
         /\ \A i \in 1..Len(ns) : Depth(ns[i]) = ShapeDepth[((i - 1) % NestShapes) + 1]
ASSUME NestingReached /\ Len(ShapeDepth) = NestShapes
\* a dumper set up for the other format / the other address size does not see the same operation (constant level)
Other(c, f) == IF f = "osz" THEN [c EXCEPT !.osz = 12 - @] ELSE [c EXCEPT !.asz = 12 - @]
ContextMatters ==
  \A k \in FileKinds : \A u \in UnitsFor(k) :
    LET c == XCtx(k, u) IN
    /\ \A code \in RefCodes \cap CodesIn(c) : LET bs == EncExpr(<<Op(code, c, 11, 11)>>, c) IN Dec(bs, Other(c, "osz")) # Dec(bs, c)
    /\ LET bs == EncExpr(<<Op(3, c, 11, 11)>>, c) IN Dec(bs, Other(c, "asz")) # Dec(bs, c)
ASSUME ContextMatters
\* what dump k of a sequence is compared with does not depend on the dumps before it: the expectation is a function of the file
Expected(f) == [le |-> f.kind[1], cls |-> f.kind[2], machine |-> f.kind[3], info |-> InfoBytes(f), abbrev |-> Abbrev]
HistoryFree ==
  emode = "seqs" => \A i \in 1..Len(hist) : \A j \in 1..Len(hist) : hist[i] = hist[j] => Expected(hist[i]) = Expected(hist[j])

(* -------------------------------- emission ------------------------------ *)
UKey(u) == <<u.ver, u.osz, u.asz>>
FKey(f) == ToString(<<f.kind, [i \in 1..Len(f.units) |-> UKey(f.units[i])]>>)
RECURSIVE Join(_, _)
Join(ss, sep) == IF ss = <<>> THEN "" ELSE IF Len(ss) = 1 THEN ss[1] ELSE ss[1] \o sep \o Join(Tail(ss), sep)
\* class of a file / sequence: the formats and address sizes it meets, in order
UClass(u) == "o" \o ToString(u.osz) \o "a" \o ToString(u.asz)
FClass(f) == Join([i \in 1..Len(f.units) |-> UClass(f.units[i])], ">")
EmitE ==
  Done =>
    IF emode = "files"
    THEN CSVWrite("%1$s", <<ToJson([mode |-> "file", key |-> FKey(file), tag |-> "units/" \o FClass(file), le |-> file.kind[1], cls |-> file.kind[2],
                                    machine |-> file.kind[3], units |-> [i \in 1..Len(file.units) |-> UKey(file.units[i])],
                                    info |-> InfoBytes(file), abbrev |-> Abbrev])>>, IOEnv.OUT)
    ELSE CSVWrite("%1$s", <<ToJson([mode |-> "seq", tag |-> "seq/" \o Join([i \in 1..Len(hist) |-> UClass(hist[i].units[1])], ">"),
                                    keys |-> [i \in 1..Len(hist) |-> FKey(hist[i])]])>>, IOEnv.OUT)

\* cfg
VersQuick == {4, 5}
VersAll == {3, 4, 5}
=============================================================================
