-------------------------- MODULE ReadelfEnvelopeV --------------------------
(***************************************************************************)
(* C18, cross-writer sweep, option -V (version information).               *)
(*                                                                         *)
(* The objects of the Versions writer (C15: definition / requirement       *)
(* chains in four placement patterns, six index assignments, versym        *)
(* tables) rendered as a LOADABLE dynamic object: GNU readelf does not     *)
(* read .gnu.version through its section header but through the dynamic    *)
(* entry DT_VERSYM (an address, translated to a file offset through the    *)
(* PT_LOAD program headers), and it resolves the version names of the      *)
(* symbols through DT_VERDEF / DT_VERNEED.  So inside the envelope both    *)
(* tools implement, an image has                                           *)
(*   - the writer's five sections, unchanged bytes, each with              *)
(*     sh_addr = LoadBase + its file offset,                               *)
(*   - a .dynamic section (gABI figure 5-10; LSB Core "Dynamic Section":   *)
(*     DT_VERSYM, DT_VERDEF, DT_VERDEFNUM, DT_VERNEED, DT_VERNEEDNUM)      *)
(*     naming the addresses of those sections, DT_NULL last,               *)
(*   - one PT_LOAD segment mapping the whole file at LoadBase and a        *)
(*     PT_DYNAMIC segment designating .dynamic.                            *)
(* Everything is computed with Elf!Chunks; the text is GNU readelf's.      *)
(*                                                                         *)
(* The version INDICES are re-assigned (EnvObj): the Versions writer looks  *)
(* at each section on its own, so its definition and requirement chains    *)
(* may carry the same index and its versym tables name indices nobody      *)
(* carries (C15 asks for them on purpose).  For a whole-file dump that is   *)
(* malformed input (GNU readelf prints "*both*" / a bare number, the clone  *)
(* has nothing to print): inside the envelope every index is carried by at  *)
(* most one record - definitions keep the writer's index without the hidden *)
(* bit (vd_ndx has none), requirement indices are moved up by 32 - and the  *)
(* versym table names local, global, every carried index, and the hidden    *)
(* twins of the definition indices other than 1 (0x8001 is not a reference  *)
(* to definition 1).  Requirement indices carry no hidden bit, neither in   *)
(* vna_other nor in versym: link editors set the bit only for versioned     *)
(* symbols DEFINED in the object, and the two tools treat a hidden          *)
(* requirement differently (GNU compares the 16 bits, the clone masks the   *)
(* versym entry only).  Placement patterns, shapes, flags, hashes, names    *)
(* and containers are the writer's.                                         *)
(*                                                                         *)
(* Outside the envelope (not generated): the "decoy" container - GNU       *)
(* readelf finds the dynamic string table by the section NAME .dynstr and  *)
(* refuses files that have several ("File contains multiple dynamic        *)
(* string tables"); the library goes by sh_link (C15 checks that).         *)
(*                                                                         *)
(* Checked by TLC here: EnvelopeOK = AddressesResolve (every address the   *)
(* dynamic section names is translated by the PT_LOAD segment to the file  *)
(* offset of the section the writer meant, and the section header says the *)
(* same), DynamicTerminated, LoadableDisjoint, SectionsUntouched (the      *)
(* version sections' bytes are the Versions writer's).                     *)
(***************************************************************************)
EXTENDS Versions

LoadBase == 4194304                                   \* 0x400000
DotDynamic == <<46, 100, 121, 110, 97, 109, 105, 99>>
DynEntSize(cls) == IF cls = 32 THEN 8 ELSE 16
\* gABI figure 5-10 and LSB Core, "Additional Dynamic Entries"
DtNull == Z
DtStrtab == N(5)
DtSymtab == N(6)
DtStrsz == N(10)
DtSyment == N(11)
DtVersym == W(<<240, 255, 255, 111>>)                 \* 0x6ffffff0
DtVerdef == W(<<252, 255, 255, 111>>)                 \* 0x6ffffffc
DtVerdefnum == W(<<253, 255, 255, 111>>)              \* 0x6ffffffd
DtVerneed == W(<<254, 255, 255, 111>>)                \* 0x6ffffffe
DtVerneednum == W(<<255, 255, 255, 111>>)             \* 0x6fffffff
ASSUME /\ Reg["DT_VERSYM"] = DtVersym.d /\ Reg["DT_VERDEF"] = DtVerdef.d /\ Reg["DT_VERNEED"] = DtVerneed.d
       /\ Reg["DT_STRTAB"] = <<5>> /\ Reg["DT_SYMTAB"] = <<6>> /\ Reg["DT_STRSZ"] = <<10>> /\ Reg["DT_SYMENT"] = <<11>>

\* position of a section kind among the user sections of the container
PosOf(cont, kind) == CHOOSE p \in 1..Len(SecOrder(cont)) : SecOrder(cont)[p] = kind

\* the tags of the dynamic section: a chain section is announced only when it has entries (the link editor omits
\* DT_VERDEF / DT_VERNEED for objects that define / require nothing)
DynTags(o, g, addr) ==
  << <<DtStrtab, N(addr["dynstr"])>>, <<DtSymtab, N(addr["dynsym"])>>, <<DtStrsz, N(Len(g.str))>>,
     <<DtSyment, N(SizeOf(SymF(o.cls), o.cls))>>, <<DtVersym, N(addr["versym"])>> >>
  \o (IF g.count.def > 0 THEN << <<DtVerdef, N(addr["verdef"])>>, <<DtVerdefnum, N(g.count.def)>> >> ELSE <<>>)
  \o (IF g.count.need > 0 THEN << <<DtVerneed, N(addr["verneed"])>>, <<DtVerneednum, N(g.count.need)>> >> ELSE <<>>)
  \o << <<DtNull, Z>> >>
DynBytes(o, tags) == Flat([i \in 1..Len(tags) |-> Ser(DynF, [d_tag |-> tags[i][1], d_val |-> tags[i][2]], o.cls, o.le)])

Kinds == {"dynsym", "dynstr", "versym", "verdef", "verneed"}
NoAddr == [k \in Kinds |-> 0]
\* stage 1: the writer's sections + a .dynamic of the final size + two program headers: fixes every file offset
Stage1(o, g) ==
  LET b == ImageOf(o, g)
      dyn == DynBytes(o, DynTags(o, g, NoAddr))
  IN [b EXCEPT !.secs = Append(@, Sec(DotDynamic, N(6), N(3), Z, dyn, N(Len(dyn)), N(SIdx(o.cont, "dynstr")), Z, N(8), N(DynEntSize(o.cls)))),
               !.segs = <<Seg(N(1), N(6), Z, N(LoadBase), N(LoadBase), Z, Z, N(4096)),
                          Seg(N(2), N(6), Z, Z, Z, N(Len(dyn)), N(Len(dyn)), N(8))>>]
\* stage 2: addresses follow the offsets
Loadable(o, g) ==
  LET s1 == Stage1(o, g)
      n == Len(s1.secs)
      addr == TLCEval([k \in Kinds |-> LoadBase + SecOff(s1, PosOf(o.cont, k))])
      dyn == DynBytes(o, DynTags(o, g, addr))
      fsz == FileSize(s1)
  \* (TLCEval: a function constructor is re-evaluated at every application otherwise)
  IN [s1 EXCEPT !.secs = TLCEval([k \in 1..n |-> IF k = n THEN [s1.secs[k] EXCEPT !.data = dyn, !.addr = N(LoadBase + SecOff(s1, k))]
                                                  ELSE [s1.secs[k] EXCEPT !.addr = N(LoadBase + SecOff(s1, k))]]),
                 !.segs = <<[s1.segs[1] EXCEPT !.filesz = N(fsz), !.memsz = N(fsz)],
                            [s1.segs[2] EXCEPT !.offset = N(SecOff(s1, n)), !.vaddr = N(LoadBase + SecOff(s1, n)),
                                               !.paddr = N(LoadBase + SecOff(s1, n))]>>]

(* ------------------------- envelope object ------------------------------ *)
Low(x) == x % Hidden
HiddenBit(x) == x - Low(x)
NeedShift == 32
EnvDefs(o) == [k \in 1..Len(o.def) |-> [o.def[k] EXCEPT !.ndx = Low(@)]]
EnvNeeds(o) == [k \in 1..Len(o.need) |->
                 [o.need[k] EXCEPT !.auxes = [j \in 1..Len(o.need[k].auxes) |->
                                                [o.need[k].auxes[j] EXCEPT !.other = IF @ = 0 THEN 0 ELSE Low(@) + NeedShift]]]]
Others(needs) == Flat([k \in 1..Len(needs) |-> SelectSeq([j \in 1..Len(needs[k].auxes) |-> needs[k].auxes[j].other], LAMBDA x : x # 0)])
EnvVersym(o, defs, needs) ==
  IF o.mode = "versym" THEN [i \in 1..Len(o.versym) |-> IF Low(o.versym[i]) \in {0, 1} THEN o.versym[i] ELSE 1]
  ELSE LET dn == [k \in 1..Len(defs) |-> defs[k].ndx]
           no == Others(needs)
           \* hidden twins: of every definition index except 1 (0x8001 is "hidden *global*", not a reference to definition 1:
           \* GNU readelf prints no name for it); requirement indices have no hidden bit and no twin (see the module header)
           tw == SelectSeq(dn, LAMBDA x : x # 1)
       IN <<0, 1>> \o dn \o no \o [i \in 1..Len(tw) |-> Flip(tw[i])]
EnvObj(o) ==
  LET defs == EnvDefs(o)
      needs == EnvNeeds(o)
      vs == EnvVersym(o, defs, needs)
  IN [o EXCEPT !.def = defs, !.need = needs, !.versym = vs, !.syms = [i \in 1..Len(vs) |-> SymName(i - 1)]]

(* ------------------------------- machine -------------------------------- *)
\* the writer of Versions without its reader: build, finish, emit
NextV == AddEntry \/ AddAux \/ Finish
SpecV == Init /\ [][NextV]_vars

TagV == Tag \o "/d" \o ToString(Shape(obj.def)) \o "n" \o ToString(Shape(obj.need))
EmitV ==
  phase = "walk" =>
    LET o == EnvObj(obj)
        cs == Chunks(Loadable(o, EncAll(o)))
        pcs == Flat([i \in 1..Len(cs) |-> SplitChunk(cs[i])])
        key == CaseKey
    IN \A i \in 1..Len(pcs) :
         CSVWrite("%1$s", <<ToJson([k |-> key, n |-> Len(pcs), i |-> i, tag |-> TagV, v |-> pcs[i]])>>, IOEnv.OUT)

(* ------------------------------ properties ------------------------------ *)
\* what a reader that goes through the program headers does with an address (gABI ch.5 "Base Address"/"Segment Contents")
VmaToOff(im, a) ==
  LET hits == {j \in 1..Len(im.segs) : /\ im.segs[j].type = N(1) /\ a >= im.segs[j].vaddr.n
                                        /\ a < im.segs[j].vaddr.n + im.segs[j].filesz.n}
  IN IF hits = {} THEN -1 ELSE LET j == CHOOSE x \in hits : TRUE IN a - im.segs[j].vaddr.n + im.segs[j].offset.n
TagVal(tags, t) == LET hits == {i \in 1..Len(tags) : tags[i][1] = t} IN IF hits = {} THEN -1 ELSE tags[CHOOSE i \in hits : TRUE][2].n
\* one invariant, so that the image is computed once per finished object:
\*  AddressesResolve   every address the dynamic section names is translated by the PT_LOAD segment to the file offset of the
\*                     section the writer meant, and the section headers / PT_DYNAMIC say the same
\*  DynamicTerminated  DT_NULL is the last entry and only the last
\*  LoadableDisjoint   no two chunks claim one byte
\*  SectionsUntouched  the version sections' bytes are the Versions writer's
EnvelopeOK ==
  phase = "walk" =>
    LET o == EnvObj(obj)
        g == EncAll(o)
        im == Loadable(o, g)
        n == Len(im.secs)
        offs == TLCEval([k \in 1..n |-> SecOff(im, k)])
        P(kind) == PosOf(o.cont, kind)
        addr == [k \in Kinds |-> im.secs[P(k)].addr.n]
        tags == DynTags(o, g, addr)
        At(t, kind) == TagVal(tags, t) # -1 => VmaToOff(im, TagVal(tags, t)) = offs[P(kind)]
        D(kind) == im.secs[P(kind)].data
    IN /\ im.secs[n].data = DynBytes(o, tags)
       /\ At(DtVersym, "versym") /\ At(DtVerdef, "verdef") /\ At(DtVerneed, "verneed") /\ At(DtStrtab, "dynstr") /\ At(DtSymtab, "dynsym")
       /\ TagVal(tags, DtVersym) # -1
       /\ (Len(o.def) > 0 <=> TagVal(tags, DtVerdef) # -1) /\ (Len(o.need) > 0 <=> TagVal(tags, DtVerneed) # -1)
       /\ \A k \in 1..n : VmaToOff(im, im.secs[k].addr.n) = offs[k]
       /\ im.segs[2].offset.n = offs[n] /\ im.segs[2].filesz.n = Len(im.secs[n].data)
       /\ im.segs[1].filesz.n = FileSize(im)
       /\ tags[Len(tags)][1] = DtNull /\ \A i \in 1..(Len(tags) - 1) : tags[i][1] # DtNull
       /\ ChunksDisjoint(im)
       /\ D("verdef") = g.def /\ D("verneed") = g.need /\ D("versym") = g.vs /\ D("dynsym") = g.sym /\ D("dynstr") = g.str
       /\ o.cont # "decoy"
\* the re-assigned indices: no index is carried twice, every versym entry is local, global or carried (hidden bit aside),
\* definition indices have no hidden bit; shapes, placement and everything else are the Versions writer's
EnvObjOK ==
  phase = "walk" =>
    LET o == EnvObj(obj)
        dc == DefCarried(o)
        nf == NeedCarried(o) \ {0}
        nc == {Low(x) : x \in nf}
    IN /\ dc \cap nc = {} /\ \A x \in dc \cup nf : x < Hidden /\ x > 0
       /\ Cardinality(dc) = Len(o.def) /\ Cardinality(nc) = Len(Others(o.need))
       /\ \A i \in 1..Len(o.versym) : o.versym[i] \in {0, 1} \cup nf \/ (Low(o.versym[i]) \in dc /\ o.versym[i] # Hidden + 1)
       /\ Len(o.syms) = Len(o.versym)
       /\ Shape(o.def) = Shape(obj.def) /\ Shape(o.need) = Shape(obj.need) /\ o.pattern = obj.pattern
       /\ DefLayout(o) = DefLayout(obj) /\ NeedLayout(o) = NeedLayout(obj)
=============================================================================
