------------------------------ MODULE ApiTypes ------------------------------
(***************************************************************************)
(* C10, generated files: .debug_types sections whose units' signatures come *)
(* from an alphabet WITH REPETITION.                                        *)
(*                                                                         *)
(* DWARF4 7.5.1.2 / E.2.3: a type unit header carries an 8-byte type        *)
(* signature; the units of .debug_types follow each other, each unit_length *)
(* giving the next one's offset.  Identical types of several translation    *)
(* units are emitted as COMDAT copies under ONE signature; a relocatable     *)
(* link (ld -r) or a linker unaware of section groups keeps all copies in    *)
(* the one output section.  The section then has two views with different   *)
(* cardinality:                                                             *)
(*   Enumeration   every unit in section order (what iter_TUs must yield)   *)
(*   SigIndex      signature -> one unit (what a by-signature map holds)     *)
(* and the second cannot stand for the first (IndexIsLossy).  Which copy a   *)
(* lookup by signature returns is not fixed by the standard: the driver      *)
(* never asserts it - the truth of every query stays "the same query on a    *)
(* freshly opened object".                                                  *)
(*                                                                         *)
(* Writer: AddTU(s) appends a type unit (the unit kinds' small tree of       *)
(* DieEnc, type_offset designating its second entry) with signature s \in     *)
(* Sigs; Finish closes the section after >= 2 units.  The referring compile  *)
(* unit (alone in .debug_info, private abbreviation table) has one entry per *)
(* signature of the alphabet in DW_FORM_ref_sig8.                            *)
(* TLC checks: UnitsTile (walking by unit_length from 0 lands on the         *)
(* writer's offsets and ends at the section size), EntriesTile (byte-level   *)
(* reader = writer offsets inside every unit), IndexIsLossy, RefsDesignate.  *)
(***************************************************************************)
EXTENDS DieEnc, Json, CSV, IOUtils

CONSTANTS MaxTU          \* units per section: 2..MaxTU

VARIABLES ctx, tus, fin
vars == <<ctx, tus, fin>>

\* the signature alphabet: the two signatures the referring unit of DieEnc names
Sigs == <<U0.sig, Sig2>>
\* one byte order / address size per file; the offset size may differ between the section's units and the referring unit
Ctxs == {Ctx(4, 32, 8, TRUE), Ctx(4, 64, 8, TRUE), Ctx(4, 32, 4, FALSE), Ctx(4, 64, 4, TRUE)}

Init == ctx \in Ctxs /\ tus = <<>> /\ fin = FALSE
AddTU(s) == /\ ~fin /\ Len(tus) < MaxTU
            /\ tus' = Append(tus, [MkUnit(ctx, "tu4", 0) EXCEPT !.sig = Sigs[s]])
            /\ UNCHANGED <<ctx, fin>>
Finish == /\ ~fin /\ Len(tus) >= 2 /\ fin' = TRUE /\ UNCHANGED <<ctx, tus>>
Next == Finish \/ \E s \in 1..Len(Sigs) : AddTU(s)
Spec == Init /\ [][Next]_vars

(* ------------------------------- the views ------------------------------ *)
All == FinalOf(tus \o <<SigRefCU(ctx)>>, FALSE)                 \* type_offset and the private table's offset fixed up
TUs == SubSeq(All, 1, Len(tus))
CU == All[Len(All)]
TypesSec == InfoBytes(TUs)
\* every unit in section order
Enumeration == [k \in 1..Len(TUs) |-> [off |-> UnitOffs(TUs, k), sig |-> TUs[k].sig, typedie |-> UnitOffs(TUs, k) + TUs[k].typeoff]]
\* signature -> the units that carry it (a map keeps one of them)
Carriers(s) == {k \in 1..Len(TUs) : TUs[k].sig = s}
SigsPresent == {TUs[k].sig : k \in 1..Len(TUs)}
HasDup == Cardinality(SigsPresent) < Len(TUs)
SigSeq == [k \in 1..Len(tus) |-> CHOOSE s \in 1..Len(Sigs) : Sigs[s] = tus[k].sig]

(* ------------------------------ properties ------------------------------ *)
\* walking the section by unit_length (what a reader does) finds the writer's units, and nothing else
RECURSIVE Walk(_, _, _)
Walk(bs, at, acc) ==        \* at: 0-based offset of the next unit header; DWARF4 7.4: 0xffffffff escapes to the 64-bit format
  IF at >= Len(bs) THEN acc
  ELSE LET il == InitialLength(SubSeq(bs, at + 1, Len(bs)), ctx.le)          \* Bytes.tla: the reader's decoder of the field
           n == NatOf(SubSeq(il.len.d, 1, 3))                                 \* (units of this writer are < 2^24 bytes)
       IN IF ~il.ok THEN Append(acc, -1) ELSE Walk(bs, at + n + il.used, Append(acc, at))
UnitsTile ==
  fin => LET w == Walk(TypesSec, 0, <<>>) IN
         /\ Len(w) = Len(TUs)
         /\ \A k \in 1..Len(w) : w[k] = UnitOffs(TUs, k)
         /\ UnitOffs(TUs, Len(TUs)) + UnitSize(TUs[Len(TUs)]) = Len(TypesSec)
EntriesTile ==
  fin => \A k \in 1..Len(TUs) :
           LET u == TUs[k]   bs == UnitBytes(u)   v == UnitView(u, 0)   starts == ReadDies(bs, HeaderSize(u) + 1, u, <<>>) IN
           /\ Len(starts) = Len(u.dies)
           /\ \A i \in 1..Len(starts) : starts[i] = v.dies[i].off
           /\ v.dies[2].off = u.typeoff                          \* type_offset designates the second entry
\* the by-signature view has one unit per signature: with a repeated signature it is strictly smaller than the enumeration, and
\* no order of its values is the section order of all units
IndexIsLossy ==
  fin => /\ Cardinality(SigsPresent) <= Len(Enumeration)
         /\ (HasDup <=> \E s \in SigsPresent : Cardinality(Carriers(s)) > 1)
         /\ (HasDup => Cardinality(SigsPresent) < Len(Enumeration))
\* every reference of the compile unit names a signature of the alphabet; it designates a unit iff the section carries that signature
RefsDesignate ==
  fin => \A i \in 2..3 : LET s == CU.dies[i].attrs[1].v IN
           /\ \E j \in 1..Len(Sigs) : Sigs[j] = s
           /\ (Carriers(s) # {} <=> s \in SigsPresent)

(* ------------------------------- emission ------------------------------- *)
Case ==
  [tag |-> "sigs" \o (IF HasDup THEN "-dup" ELSE "-uniq"), mode |-> "types", le |-> ctx.le, asz |-> ctx.asz, fmt |-> ctx.fmt,
   types |-> TypesSec, info |-> UnitBytes(CU), abbrev |-> AbbrevSecOf(tus \o <<SigRefCU(ctx)>>, FALSE), str |-> StrSec,
   dup |-> HasDup, sigseq |-> SigSeq, nunits |-> Len(TUs), nsigs |-> Cardinality(SigsPresent),
   offs |-> [k \in 1..Len(TUs) |-> UnitOffs(TUs, k)]]
Emit == fin => CSVWrite("%1$s", <<ToJson(Case)>>, IOEnv.OUT)
=============================================================================
