#!/usr/bin/env python3
"""tools/finding.py fixed <property> <finding id> <commit> <what failed>
   tools/finding.py known <property> <finding id> <signature|-> <what fails>
Maintains /verif/KNOWN_FINDINGS.json (committed; never written by a check at run time)."""
import json, os, sys
P = os.path.join(os.path.dirname(os.path.dirname(os.path.abspath(__file__))), 'KNOWN_FINDINGS.json')
d = json.load(open(P)) if os.path.exists(P) else {'format': 'known: entries silence exactly one named deviation/signature and print KNOWN-FINDING; fixed: entries suppress nothing', 'findings': []}
kind, prop, fid = sys.argv[1:4]
d['findings'] = [f for f in d['findings'] if f['id'] != fid]
if kind == 'fixed':
    commit, what = sys.argv[4], ' '.join(sys.argv[5:])
    d['findings'].append({'property': prop, 'id': fid, 'status': 'fixed', 'commit': commit, 'description': what,
                          'line': 'fixed: property=%s %s %s' % (prop, commit, what)})
else:
    sig, what = sys.argv[4], ' '.join(sys.argv[5:])
    e = {'property': prop, 'id': fid, 'status': 'known', 'description': what,
         'line': 'known: property=%s %s %s' % (prop, fid, what)}
    if sig != '-':
        e['signature'] = sig
    d['findings'].append(e)
json.dump(d, open(P, 'w'), indent=1)
print(len(d['findings']), 'entries')
