#!/usr/bin/env python3
"""Regenerates /verif/MANIFEST.json from the table below (single source, always schema-valid)."""
import json
import os

HERE = os.path.dirname(os.path.dirname(os.path.abspath(__file__)))

# id -> (category, technique, level text, level note, design ref)
CHECKS = {}
PENDING = {}


def claim(pid, cat, technique, text, note, ref, engine='tlc'):
    CHECKS[pid] = dict(category=cat, technique=technique, text=text, note=note, ref=ref, engine=engine)


exec(open(os.path.join(HERE, 'tools', 'claims.py')).read())

props = [json.loads(l)['id'] for l in open(os.path.join(HERE, 'properties.jsonl'))]
checks = []
for pid in props:
    if pid not in CHECKS:
        continue
    c = CHECKS[pid]
    checks.append({
        'property_id': pid,
        'quick_cmd': './check %s --tier quick' % pid,
        'thorough_cmd': './check %s --tier thorough' % pid,
        'evidence_file': 'evidence/%s.json' % pid,
        'replay_cmd_template': './check %s --replay {path}' % pid,
        'engine': c['engine'],
        'level_claimed': {'category': c['category'], 'text': c['text'], 'design_ref': c['ref']},
        'level_note': c['note'],
        'technique': c['technique'],
    })
na = [{'property_id': p, 'reason': PENDING.get(p, 'check not built yet in this round; the property is not claimed until its TLA+ module and conformance driver exist')}
      for p in props if p not in CHECKS]
hooks = json.load(open(os.path.join(HERE, 'tools', 'hooks.json')))
man = {
    'version': 1,
    'setup_cmd': './setup.sh',
    'hooks': hooks,
    'engines': [
        {'name': 'tlc', 'path': 'spec/', 'serves_properties': sorted(CHECKS),
         'kind_free_text': 'explicit TLA+ specification (spec/*.tla) checked by TLC 1.8; behaviours emitted by TLC are '
                           'replayed into the real code (G) and traces recorded from the real code are validated by '
                           'TLC against the same specification (T); Python harness in vf/'},
    ],
    'checks': checks,
    'not_applicable': na,
    'notes': 'Entry point ./check <id> [--tier quick|thorough]. VERIF_REPO overrides the tree under test (default /repo). '
             'Exit 0 held / 1 VIOLATION / 2 machinery failure. Known findings: KNOWN_FINDINGS.json. See DESIGN.md.',
}
with open(os.path.join(HERE, 'MANIFEST.json'), 'w') as f:
    json.dump(man, f, indent=1)
print('MANIFEST.json: %d checks, %d not claimed' % (len(checks), len(na)))
