# claims: one claim(...) per property that has a check.  Executed by tools/mkmanifest.py.
claim('C16', 'model_checking',
      'TLA+ spec of the primitive decoders (spec/Prim.tla, Bytes.tla) model-checked by TLC; every reachable input state '
      'emitted by TLC is replayed into the real decoders (value, bytes consumed, error class)',
      'TLC exhaustively enumerates the input writer (all 1- and 2-byte LEB128 prefixes, third byte from class alphabets, '
      'fixed-width/int24/string/initial-length/array letters) and checks operational = denotational decoding, independence '
      'from trailing bytes, truncation and round trips on the specification; each state is then one conformance case for '
      'struct_parse on the real primitives. Small-scope exhaustive plus seeded simulation to 20-byte encodings.',
      'trusts TLC, the 5-line denote() from digit/group strings to Python ints, and the transcription of DWARF 7.4/7.6 in Bytes.tla; '
      'initial lengths 0xffffff00..0xffffffef are reserved in DWARF 2-4 and valid in DWARF 5, both answers accepted',
      'DESIGN.md 5/C16')
