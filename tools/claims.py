# claims: one claim(...) per property that has a check.  Executed by tools/mkmanifest.py.
claim('C16', 'model_checking',
      'TLA+ spec of the primitive decoders (spec/Prim.tla, Bytes.tla) and of the combinator language they are composed with (spec/Combinators.tla: '
      'cursor/context machine Parse over Struct/Embed/Rename/Array/PrefixedArray/RepeatUntilExcluding/Switch/If/Enum/Value/Padding/BitStruct) model-checked by TLC; '
      'every reachable input state / (expression, input) pair emitted by TLC is replayed into the real decoders and combinators (value, bytes consumed, error class)',
      'TLC exhaustively enumerates the input writer (all 1- and 2-byte LEB128 prefixes, third byte from class alphabets, '
      'fixed-width/int24/string/initial-length/array letters) and checks operational = denotational decoding, independence '
      'from trailing bytes, truncation and round trips on the specification; each state is then one conformance case for '
      'struct_parse on the real primitives. Small-scope exhaustive plus seeded simulation to 20-byte encodings. For compositions TLC checks extension-independence, '
      'truncation of every proper prefix, consumed = declarative size (static and value-directed), Embed flattening and Rename identity over a catalogue of ~230 expressions.',
      'trusts TLC, the 5-line denote() from digit/group strings to Python ints, and the transcription of DWARF 7.4/7.6 in Bytes.tla; '
      'initial lengths 0xffffff00..0xffffffef are reserved in DWARF 2-4 and valid in DWARF 5: decoders configured for versions 2-4 must reject them, for version 5 both answers are accepted',
      'DESIGN.md 5/C16')
claim('C17', 'other',
      'vendored registry as TLA+ data (spec/RegistryData.tla from glibc elf.h + LLVM BinaryFormat); every exported (table, name, value) '
      'pair of the tree is recorded as a trace and validated by TLC against Reg[name] (spec/trace/RegistryTrace.tla)',
      'Exhaustive table conformance, not a state-space argument: all ~2900 exported name/value pairs are compared with an '
      'independent registry; 2500 are asserted, the rest are names the registry does not define. The same registry feeds the other '
      'modules, so a wrong code is also caught end to end by the property that decodes it.',
      'trusts the glibc and LLVM 14 headers as registries and tools/mkregistry.py (C constant-expression evaluation); names on which '
      'the two sources disagree (5) are excluded', 'DESIGN.md 5/C17')
claim('C01', 'model_checking',
      'TLA+ abstract ELF writer + declarative reader view (spec/ElfImage.tla over Elf.tla, RegistryData.tla) model-checked by TLC; '
      'every finished image is emitted as bytes and replayed into ELFFile, all header/section/segment observables compared',
      'TLC enumerates the writer (class x byte order x machines x section/segment kinds x table placement and entry-size options x '
      'one image per registry code of every enumerated field x numeric boundary values x extended numbering) and checks on the '
      'specification that chunks never overlap, that the gABI reader procedure recovers counts and name-table index through the '
      'escapes, that tables tile and names resolve. Each emitted image is a conformance case for the real ELFFile.',
      'trusts TLC, the sparse writer (10 lines), the transcription of the gABI layouts in Elf.tla, and the vendored registry; names the '
      'registry does not define are not asserted; special section types get minimal valid content', 'DESIGN.md 5/C01')
claim('C04', 'model_checking',
      'TLA+ DWARF unit/abbreviation/entry writer with byte-level Enc, form table and declarative view (spec/DieTree.tla, DwarfForms.tla) '
      'model-checked by TLC (Tiling via a byte-level reader, NestingMatches, NullsClose, SiblingShortcutSound); every emitted object '
      'is replayed into DWARFInfo under three access orders',
      'TLC enumerates the complete product form x value class x DWARF version 2-5 x 32/64-bit format x address size x byte order, '
      'every unit-header kind, mixed-parameter unit sequences, v4 type units and every tree shape in bounds (sibling attributes in '
      'several reference forms, cross-unit references, non-minimal null entries) and checks tiling/nesting on the specification; '
      'each object is a conformance case for iter_CUs/iter_DIEs/attributes/iter_children/get_parent/get_DIE_from_attribute.',
      'trusts TLC, the transcription of DWARF 7.5 in DwarfForms.tla/DieTree.tla, and the value normaliser; small-scope: trees of <= 5 (quick) '
      '/ 6 (thorough) entries over <= 2 units; tag/attribute names asserted only where the vendored registry defines them',
      'DESIGN.md 5/C04')
claim('C12', 'model_checking',
      'TLA+ DW_OP table, Enc and reader machine (spec/Expr.tla) model-checked by TLC (RoundTrip, Tiling, NamesBijective, termination variant); '
      'emitted expressions replayed into DWARFExprParser.parse_expr; corpus expressions validated as traces (spec/trace/ExprTrace.tla)',
      'TLC enumerates every opcode x operand class x address size x format x byte order, sequences and nested entry-value blocks, '
      'checks the reader machine against the writer on the specification, and each case is a conformance case for parse_expr; '
      'expressions recorded from corpus DIEs/location lists are re-decoded by the spec decoder inside TLC (total verdict).',
      'trusts TLC, the transcription of DWARF5 Table 7.9 + GNU/WASM extensions, denote(); vendor opcodes outside the table are not generated',
      'DESIGN.md 5/C12')
claim('C14', 'model_checking',
      'TLA+ note extent writer + walker machine + descriptor layouts (spec/Notes.tla, NoteWalk.tla) model-checked by TLC (EveryNoteOnce, '
      'ExtentConsumed, SectionViewEqualsSegmentView, progress/termination; 3 Apalache obligations on the progress measure); emitted ELF images '
      'replayed into NoteSection/NoteSegment/StabSection; corpus note extents validated as walker traces (spec/trace/NotesTrace.tla)',
      'TLC enumerates note extents over every size residue, final header-only notes, owners/types, 4 class/byte-order combinations, ET_CORE vs '
      'other, GNU property lists, prpsinfo/NT_FILE layouts and stabs, and checks the walker against the declarative view; every image is a '
      'conformance case through 8 consumption patterns; all corpus note sections/segments are validated against the walker machine.',
      'trusts TLC, Apalache (informational obligations), the gABI/GNU property transcription; n_type names asserted only where the owner defines the code',
      'DESIGN.md 5/C14')
claim('C20', 'model_checking',
      'TLA+ build-attribute section writer + three-level walker machine (spec/Attrs.tla) and EHABI prel31/classification/byte-code table + reader '
      'machine (spec/Ehabi.tla) model-checked by TLC; emitted ARM/RISC-V ELF images replayed through five consumption patterns',
      'TLC enumerates sections of 1..3 subsections x sub-subsections x attribute lists over the ARM/RISC-V tag tables and exidx/extab contents over '
      'every displacement class, entry kind and the full byte-code space, checks EverySubsectionOnce/ExtentConsumed/ReaderAgrees/PrelAgrees/'
      'CodeRoundTrip on the specification; every image is a conformance case for iter_subsections/.../get_ehabi_infos.',
      'trusts TLC and the transcription of the ARM ABI addenda, RISC-V psABI and EHABI 10.3; mnemonics compared at class level, not as text',
      'DESIGN.md 5/C20')
claim('C13', 'model_checking',
      'TLA+ aranges/pubnames writers with byte-level Enc, the bisect lookup model vs the declarative CuAt, and the unit-cache machine '
      '(spec/Lookup.tla) model-checked by TLC (BisectEqDecl, round trips, UnitsRight over every cache state); emitted tables, query grids and '
      'lookup histories replayed into get_aranges/get_pubnames/get_pubtypes/get_CU_containing/get_CU_at/get_DIE_from_lut_entry',
      'TLC enumerates every table of <= 4 non-overlapping tuples in every order and split into sets x every grid address (inside, first/last byte, '
      'one past, gaps, below, above), name tables over multi-unit sections, and every order of first touches of the unit cache followed by a probe '
      'at every offset; the operational bisect model is proved equal to the declarative lookup on the specification; each case is replayed.',
      'trusts TLC and the transcription of DWARF 6.1/7.19/7.21; 32-bit format tables, aligned sets only (padding origin is not fixed by the standard '
      'for unaligned sets: parameterised, the library\'s choice is asserted only with C13_UNALIGNED=section), no overlapping or zero-length ranges; which publication of a '
      'repeated name wins is not fixed either (C13_DUP_POLICY=last asserts the present choice)', 'DESIGN.md 5/C13')
claim('C15', 'model_checking',
      'TLA+ verdef/verneed/versym writers with displacement-linked placement patterns and the chain walker machine (spec/Versions.tla) model-checked by '
      'TLC (ChainFollowsLinks, IndexResolution, HasIndexes, progress); emitted ELF images replayed into the GNUVer* sections through five '
      'consumption patterns; corpus version sections validated as traces on their raw bytes (spec/trace/VersionsTrace.tla)',
      'TLC enumerates definition/requirement chains x auxiliary chains x placement patterns (packed, padded, reversed, striped) x index assignments '
      'incl. hidden bit x 4 class/byte-order combinations and checks the walker against the declarative view; all 94 corpus version sections are '
      're-walked by the chain machine inside TLC.',
      'trusts TLC and the transcription of the LSB symbol-versioning record layouts; well-formed sections only (counts agree with chains)',
      'DESIGN.md 5/C15')
claim('C10', 'model_checking',
      'TLA+ API-level machine of the lazily caching reader (spec/Reader.tla: unit cache, entry cache, parent/terminator links, live generator frames, '
      'stream repositioning as an action parameter) model-checked by TLC over all call interleavings up to the depth bound; the labelled state graph is '
      'emitted edge by edge and every edge replayed into the real code; plus TLC-generated histories and exhaustive generator patterns over the wider '
      'API (spec/Api.tla) replayed on corpus files against a freshly opened object per query',
      'TLC verifies ResultEqualsFresh (every answer = declarative truth), ParentLinksTrue, TermLinksTrue, GeneratorYieldsKth and CachesConsistent over every '
      'reachable cache state x every call x stream repositioning on three constant files (with/without/mixed sibling attributes, 1-3 units) and each '
      'of the ~10^5 edges is executed on a fresh object from a shortest path; the cache projection of the implementation is monitored (DRIFT, not a '
      'violation). Long histories and every (generator kind x repositioning / interleaving / query-in-between / held-object / revisit) pattern are replayed on 10-19 corpus files and on a sample of the images the other properties\' writers generate.',
      'pruning hypothesis: hidden state = projected caches + generator frames + stream positions; bounded depth (4-5 calls) for exhaustive exploration, '
      'longer histories only by seeded simulation; truth for corpus files is the same query on a fresh object', 'DESIGN.md 5/C10')
claim('C07', 'model_checking',
      'TLA+ DW_LLE/DW_RLE entry tables, v2-4 pair format, v5 unit blocks with offset tables, address table and attribute classification '
      '(spec/LocRange.tla) model-checked by TLC (RoundTrip by a byte-level list reader, ListEndsAtTerminator, IndexResolves, BlocksTile, '
      'ClassifyTotal); emitted sections + minimal units replayed into LocationLists/RangeLists/LocationParser',
      'TLC enumerates every entry kind x operand class x address size x byte order x format, lists of <= 3-4 entries, sections of 1..3 unit blocks with '
      'offset_entry_count in {0,1,3}, gaps and view pairs, attributes in every list-capable form, and the classification cube; the byte-level '
      'reader is checked against the writer on the specification; each case is replayed through every fetch/enumeration API.',
      'trusts TLC and the transcription of DWARF 2.6/2.17/7.7.3/7.25/7.28/7.29 and the attribute class tables; one address size per file; '
      'enumeration order not asserted; rows the class tables leave open are set-valued', 'DESIGN.md 5/C07')
claim('C06', 'model_checking',
      'TLA+ CFI section writer/scanner (.debug_frame and .eh_frame encodings), DW_CFA instruction table and the DWARF 6.4 interpreter '
      '(spec/CFI.tla) model-checked by TLC (ReaderEqView, EntriesInOrder, FDELinkedToDesignatedCIE, SplitExact, StackDiscipline, '
      'RestoreUsesInitial); emitted sections/programs replayed into CallFrameInfo; every corpus CIE/FDE validated as a trace with the same '
      'interpreter operators (spec/trace/CFITrace.tla)',
      'TLC enumerates sections of <= 3 entries over CIE versions, DWARF32/64, augmentations and pointer encodings x pcrel x section addresses, FDE-before-CIE '
      'orders, every single instruction x operand classes x alignment factors, programs of length <= 3 plus simulated programs of 30 instructions, and '
      'checks scan/split/interpreter properties on the specification; each case is replayed; unwind tables are compared as functions '
      'location -> rules; 772 (quick) / 5157 (thorough) corpus entries are re-interpreted inside TLC.',
      'trusts TLC and the transcription of DWARF5 6.4/7.24 and the LSB .eh_frame chapter; operands < 2^21; DW_EH_PE_indirect/datarel etc. and the 64-bit '
      '.eh_frame length form are outside the quantifier; records after an .eh_frame terminator are set-valued (LSB 10.6.1 vs 10.6.1.1)', 'DESIGN.md 5/C06')
claim('C08', 'model_checking',
      'TLA+ REL/RELA/MIPS64 decode, the RELR anchor/bitmap machine, the psABI recipe table over Wide arithmetic and the apply machine '
      '(spec/Reloc.tla) model-checked by TLC (DecodeRoundTrip, RelrMachineIsDenotation, RelrRoundTrip, ApplyTouchesOnlyField, ApplyIsFold); emitted '
      'tables/streams/ET_REL images replayed into RelocationSection/RelrRelocationSection/get_dwarf_info; corpus relocations validated as traces '
      '(spec/trace/RelocTrace.tla)',
      'TLC enumerates relocation tables x 4 class/byte-order combinations x MIPS64 sub-fields, RELR word streams and address sets, the complete product of '
      'supported (machine, type) rows x symbol/addend/in-place value classes x field offsets, unsupported types, wrong flavours and bad symbol indices; '
      'every relocated byte of the debug stream and every untouched byte is compared; 9k (quick) / 21k (thorough) corpus relocations are re-applied '
      'inside TLC.',
      'trusts TLC, the psABI transcriptions (x86, x86-64, ARM, AArch64, MIPS, PPC64, S390x, LoongArch) and Wide ripple-carry arithmetic; BPF and '
      'composed MIPS64 relocations are not asserted', 'DESIGN.md 5/C08')
claim('C05', 'model_checking',
      'TLA+ line-number state machine (DWARF 6.2, one operator per opcode incl. VLIW op_index), header writers v2-v5 and a byte-level reader '
      '(spec/LineProgram.tla) model-checked by TLC (MachineIsRun, OpIndexInRange, RowFlagsClearedAfterRow, SequenceReset, ConsumesExtent, '
      'HeaderGeometry, TablesRoundTrip); emitted .debug_line/.debug_info sections replayed through line_program_for_CU; corpus line programs '
      'validated as traces (spec/trace/LineProgramTrace.tla)',
      'TLC enumerates 12-18 header configurations x all programs of <= 2 (quick) / 3 (thorough) instructions over an (opcode kind x operand class) '
      'alphabet, header table variants v2-v5, two programs per section reached from several units, plus seeded simulation of 40-instruction programs, and '
      'checks the byte machine against the abstract machine on the specification; each case is replayed field by field; 106 (quick) / 197 (thorough) '
      'corpus programs are re-executed by the spec machine inside TLC.',
      'trusts TLC and the transcription of DWARF 6.2; LEB operands <= 5 bytes; CU and line program share format/address size/version',
      'DESIGN.md 5/C05')
claim('C03', 'model_checking',
      'TLA+ symbol-table writer, string-table builder, SysV and GNU hash builders and the lookup/count reader machines in 16-bit limb arithmetic '
      '(spec/SymHash.tla, HashWalk.tla) model-checked by TLC (LookupSound, LookupComplete, CountExact, ChainProgress, SymRoundTrip); emitted ELF '
      'images replayed into SymbolTableSection/ELFHashSection/GNUHashSection; corpus hash tables validated as traces on their raw bytes '
      '(spec/trace/SymHashTrace.tla)',
      'TLC enumerates symbol tables (duplicate/empty/UTF-8/70-byte names, every st_info/st_other value, reserved section indices, SHN_XINDEX '
      'companions, syminfo) x 4 class/byte-order combinations x SysV nbucket and GNU nbuckets/symoffset/bloom/shift parameters x every query name '
      '(present, absent, hash- and bucket-colliding) and checks soundness/completeness/counts of the reader machines on the specification; each image '
      'is replayed; 61 corpus hash tables are re-walked inside TLC for 5k-12k queries.',
      'trusts TLC and the transcription of gABI fig. 5-13, the GNU hash format description and Elf_Sym layouts; count exactness is not asserted '
      'for GNU hash tables with no populated bucket (the format does not determine the count there)', 'DESIGN.md 5/C03')
claim('C02', 'model_checking',
      'TLA+ geometry module (spec/Geometry.tla): transcription of the strict section-in-segment macro vs an independent interval formulation, '
      'AddressOffsets over PT_LOAD layouts, the chunked string reader vs the declarative C string, data paths with zlib stored-block streams and '
      'Adler-32 written by the specification; model-checked by TLC (MacroEqGeometric, ChunkedEqDeclarative, DeflateRoundTrip, '
      'OffsetsInsideSegments); emitted images replayed into Section.data/get_string/address_offsets/section_in_segment/Segment.data',
      'TLC enumerates the complete geometry grid (12 segment types x TLS/ALLOC/NOBITS x displacements -1..+4 x sizes 0..3 x filesz/memsz classes: '
      '276k section/segment pairs), three PT_LOAD layouts x 115 ranges, strings of every length class around the 64-byte read chunk at four section '
      'alignments, sizes {0,1,63,64,65,300,4096,70000} x raw/NOBITS/Chdr32/Chdr64 x valid, bad-size and unknown-type compression; every pair/query '
      'is a conformance case; compressed payloads are additionally recompressed at zlib levels 1/6/9.',
      "trusts TLC, the transcription of binutils' macro (clause groups the property names), Python zlib for the recompression variants",
      'DESIGN.md 5/C02')
claim('C18', 'translation_validation',
      'differential against GNU readelf 2.40 under a vendored copy of the project\'s tolerance rules; population = the readelf regression corpus x 18 '
      'options, the description sweeps generated by the TLA+ specification (spec/Envelope.tla: one image per entry of every description table) and the '
      'cross-writer sweep (vf/c18_writers.py, spec/ReadelfEnvelope*.tla): the images the other properties\' TLA+ writers emit, dumped under the option that shows them',
      'Every (file, option) pair - or sequence of files dumped by one process - runs both tools and compares their text. The specification does not model GNU '
      'readelf\'s formatting (that would be a second readelf); it generates the images (ELF-level tables, relocation names of 9 machines, DW_TAG / coded attribute '
      'values, every DW_OP and DW_CFA, section-to-segment geometry; versions, notes, dynamic, symbols/hash, relocations with named symbols, attributes, headers, line '
      'programs, CFI incl. nested remember/restore, DIE trees, expression contexts across units, hex/string dumps) and defines the envelope (GNU readelf accepts the '
      'image without warning; stated predicates per source). ~800 corpus pairs + ~9000 generated pairs in the quick tier.',
      'GNU binutils readelf 2.40 is the oracle (the project targets >= 2.41: seven corpus pairs that differ only for that reason are excluded with the '
      'reason); inputs on which the clone claims no support (unknown d_tag codes, DWARF 5 index forms without text, ...) are outside the envelope by stated predicates; '
      'known text deviations are listed in KNOWN_FINDINGS.json by signature', 'DESIGN.md 5/C18', engine='tlc')
claim('C11', 'model_checking',
      'TLA+ debug-section loading pipeline (spec/Container.tla): writer of container encodings of one payload (plain, SHF_COMPRESSED, legacy .zdebug, '
      'debug links with CRC slot, supplementary links) and a byte-level reader machine (Build, CheckLink, FollowDebugLink, ReadSection, InflateGabi, '
      'InflateLegacy, LoadSupplementary) model-checked by TLC (Invariance, HasDwarfExact, BadCrcRejected, BadSizeRejected, BadFramingRejected, Progress); '
      'emitted images replayed into ELFFile.get_dwarf_info and full DWARF dumps compared with the plain encoding; the same transforms applied '
      'harness-side to corpus files (metamorphic) and, in the thorough tier, by objcopy',
      'TLC enumerates 1300 (quick) / 2020 (thorough) configurations: class/byte order x DWARF version/format x 15 encoding plans x link kinds x loader/'
      'follow_links, and checks on the specification that every valid encoding loads the payload and every bad CRC/size/framing is rejected; each final '
      'state is a conformance case (presence, link, outcome class, full dump of units/DIEs/line rows/CFI); 10-30 corpus files are re-encoded at zlib '
      'levels 0/1/6/9 in both namings, split behind debug links, and compared with their plain dumps.',
      'zlib inflate of non-stored streams and CRC-32 are uninterpreted (Python zlib/binascii, objcopy 2.40 trusted); location/range/aranges/pubnames tables are '
      'not in the dump', 'DESIGN.md 5/C11')
claim('C09', 'model_checking',
      'TLA+ abstract dynamic object writer (tag sequence, string/symbol/hash tables, PT_LOAD layouts), both encodings (with section headers / stripped) and the '
      'tag-scan and pointer-to-offset reader machines (spec/Dynamic.tla, DynScan.tla) model-checked by TLC (TagsUpToAndInclNull, ViewsAgree, CountExact, '
      'StrtabAgree, PtrInsideSegment, ScanBounded, ScanProgress, RunAgrees, SameData, PlacementOK); each object is emitted as two images and replayed into '
      'DynamicSection / DynamicSegment (three views compared); corpus dynamic scans validated as traces (spec/trace/DynamicTrace.tla)',
      'TLC enumerates tag sequences x machine/OS-ABI tag tables x tails after DT_NULL x PT_LOAD layouts (incl. zero-fill) x symbol tables x hash kinds '
      '(SysV, GNU, GNU-empty, none) x string-table variants (match, decoy .dynstr, split .dynamic offset) and checks that the declarative view, the '
      'scan machine and the closed form agree; every object is one conformance case for the section view, the segment view and the stripped view; '
      '148 corpus scans are re-run inside TLC.',
      'trusts TLC, the gABI/gnu-hash transcription and the vendored registry; the symbol count is asserted only where a hash table determines it; '
      'relocation tables are asserted by C08; duplicate/absent DT_STRTAB/DT_SYMTAB and overlapping PT_LOADs are outside the quantifier', 'DESIGN.md 5/C09')
claim('C19', 'fault_enumeration',
      'TLA+ fault-plan machine over record locations the specification finds itself (spec/Faults.tla over Elf.tla), a constructor outcome model, and walker '
      'machines for every count/size/offset/link driven loop (spec/FaultWalk.tla: guarded readers satisfy Halts/Linear/NoStall under TLC, the loops as the '
      'format text implies them are refuted and every refuting fault set is emitted as a witness); every plan is applied to the seed bytes and run against '
      'ELFFile() and a fixed enumeration battery under read-call, byte and allocation bounds',
      'TLC enumerates every truncation length, every single-byte substitution of the header region, single and paired field faults with boundary values on '
      'every located record (Ehdr, Shdr, Phdr, Dyn, Nhdr, SysV/GNU hash, verdef/verdaux/verneed/vernaux) of 4 synthesised and 6 (quick) / 12 (thorough) corpus '
      'seeds, 20000 random strings, and the minimal fault sets the walker model shows to exceed the bound; the outcome class of the constructor is compared with the '
      'model, termination is judged by work counters (reads <= 48(size+1), bytes <= 640(size+1), peak <= 1024 size + 1 MiB), not wall time.',
      'trusts TLC, the record locator (checked by LocateRoundTrip against the writer), the counting stream and tracemalloc sampling (every 8th plan and all witness plans); '
      'streams are io.BytesIO; the battery covers headers, sections, segments, symbol counts, dynamic tags, notes, hash and version walks - not data(), DWARF or relocations',
      'DESIGN.md 5/C19')
