# claims: one claim(...) per property that has a check.  Executed by tools/mkmanifest.py.
claim('C16', 'model_checking',
      'TLA+ spec of the primitive decoders (spec/Prim.tla, Bytes.tla) model-checked by TLC; every reachable input state '
      'emitted by TLC is replayed into the real decoders (value, bytes consumed, error class)',
      'TLC exhaustively enumerates the input writer (all 1- and 2-byte LEB128 prefixes, third byte from class alphabets, '
      'fixed-width/int24/string/initial-length/array letters) and checks operational = denotational decoding, independence '
      'from trailing bytes, truncation and round trips on the specification; each state is then one conformance case for '
      'struct_parse on the real primitives. Small-scope exhaustive plus seeded simulation to 20-byte encodings.',
      'trusts TLC, the 5-line denote() from digit/group strings to Python ints, and the transcription of DWARF 7.4/7.6 in Bytes.tla; '
      'initial lengths 0xffffff00..0xffffffef are reserved in DWARF 2-4 and valid in DWARF 5, both answers accepted',
      'DESIGN.md 5/C16')
claim('C17', 'other',
      'vendored registry as TLA+ data (spec/RegistryData.tla from glibc elf.h + LLVM BinaryFormat); every exported (table, name, value) '
      'pair of the tree is recorded as a trace and validated by TLC against Reg[name] (spec/trace/RegistryTrace.tla)',
      'Exhaustive table conformance, not a state-space argument: all ~2900 exported name/value pairs are compared with an '
      'independent registry; 2500 are asserted, the rest are names the registry does not define. The same registry feeds the other '
      'modules, so a wrong code is also caught end to end by the property that decodes it.',
      'trusts the glibc and LLVM 14 headers as registries and tools/mkregistry.py (C constant-expression evaluation); names on which '
      'the two sources disagree (5) are excluded', 'DESIGN.md 5/C17')
claim('C01', 'model_checking',
      'TLA+ abstract ELF writer + declarative reader view (spec/ElfImage.tla over Elf.tla, RegistryData.tla) model-checked by TLC; '
      'every finished image is emitted as bytes and replayed into ELFFile, all header/section/segment observables compared',
      'TLC enumerates the writer (class x byte order x machines x section/segment kinds x table placement and entry-size options x '
      'one image per registry code of every enumerated field x numeric boundary values x extended numbering) and checks on the '
      'specification that chunks never overlap, that the gABI reader procedure recovers counts and name-table index through the '
      'escapes, that tables tile and names resolve. Each emitted image is a conformance case for the real ELFFile.',
      'trusts TLC, the sparse writer (10 lines), the transcription of the gABI layouts in Elf.tla, and the vendored registry; names the '
      'registry does not define are not asserted; special section types get minimal valid content', 'DESIGN.md 5/C01')
claim('C04', 'model_checking',
      'TLA+ DWARF unit/abbreviation/entry writer with byte-level Enc, form table and declarative view (spec/DieTree.tla, DwarfForms.tla) '
      'model-checked by TLC (Tiling via a byte-level reader, NestingMatches, NullsClose, SiblingShortcutSound); every emitted object '
      'is replayed into DWARFInfo under three access orders',
      'TLC enumerates the complete product form x value class x DWARF version 2-5 x 32/64-bit format x address size x byte order, '
      'every unit-header kind, mixed-parameter unit sequences, v4 type units and every tree shape in bounds (sibling attributes in '
      'several reference forms, cross-unit references, non-minimal null entries) and checks tiling/nesting on the specification; '
      'each object is a conformance case for iter_CUs/iter_DIEs/attributes/iter_children/get_parent/get_DIE_from_attribute.',
      'trusts TLC, the transcription of DWARF 7.5 in DwarfForms.tla/DieTree.tla, and the value normaliser; small-scope: trees of <= 5 (quick) '
      '/ 6 (thorough) entries over <= 2 units; tag/attribute names asserted only where the vendored registry defines them',
      'DESIGN.md 5/C04')
