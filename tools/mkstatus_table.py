#!/usr/bin/env python3
"""Regenerates the status table of DESIGN.md section 0 (between the STATUS markers) from evidence/*.json (quick tier runs on /repo)."""
import glob, json, os, re
V = os.path.dirname(os.path.dirname(os.path.abspath(__file__)))
rows = ['| id | level | TLA+ modules run (quick) | TLC distinct states | cases replayed / pairs compared | validated against the code | wall (s) |', '|---|---|---|---|---|---|---|']
for p in sorted(glob.glob(V + '/evidence/C*.json')):
    d = json.load(open(p))
    c = d['coverage']
    mods = []
    for r in c.get('tlc_runs', []):
        m = r.get('module') or r.get('spec') or ''
        if m and m not in mods:
            mods.append(m)
    rows.append('| %s | %s | %s | %s | %s | %s | %s |' % (d['property_id'], d['level'], ', '.join(mods)[:160], c.get('states', ''), c.get('evaluations', ''),
                                                         c.get('traces_validated_against_impl', ''), int(d.get('wall_s', 0))))
blk = '<!-- STATUS:BEGIN -->\n' + '\n'.join(rows) + '\n<!-- STATUS:END -->\n'
txt = open(V + '/DESIGN.md').read()
if '<!-- STATUS:BEGIN -->' in txt:
    txt = re.sub(r'<!-- STATUS:BEGIN -->.*<!-- STATUS:END -->\n', lambda m: blk, txt, flags=re.S)
    open(V + '/DESIGN.md', 'w').write(txt)
    print('status table regenerated (%d rows)' % (len(rows) - 2))
else:
    print(blk)
