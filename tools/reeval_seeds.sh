#!/bin/sh
# tools/reeval_seeds.sh <stream k> <of n>: re-run every kept seeded change (seeded/<id>/) against the CURRENT /repo HEAD in a fresh scratch
# worktree (/tmp/reeval-<k>), with the checks recorded in its meta.json; writes seeded/<id>/final.json.  Streams partition the list.
k=$1; n=$2; wt=/tmp/reeval-$k
git -C /repo worktree remove --force $wt 2>/dev/null; rm -rf $wt
git -C /repo worktree add -q --detach $wt HEAD || exit 2
head=$(git -C /repo log --format=%h -1)
i=0
for d in $(ls -d /verif/seeded/*/ | sort); do
  i=$((i+1)); [ $((i % n)) -eq $((k % n)) ] || continue
  id=$(basename $d)
  git -C $wt checkout -q -- . ; git -C $wt clean -fdq 2>/dev/null
  checks=$(python3 -c "import json;print(' '.join(sorted(json.load(open('$d/meta.json')).get('checks_run',{}))))")
  [ -n "$checks" ] || checks=$(echo $id | cut -c1-3)
  if ! git -C $wt apply --check $d/patch.diff 2>/dev/null; then
    python3 - "$d" "$head" <<'PY'
import json,sys
json.dump({'head':sys.argv[2],'applies':False,'note':'the patch no longer applies to this HEAD (a later fix: commit changed the same lines); earlier result in meta.json stands'},open(sys.argv[1]+'/final.json','w'),indent=1)
PY
    echo "$id: patch does not apply at $head"; continue
  fi
  u=$(cd $wt && timeout 300 /venv/bin/python $d/demo.py $wt >/dev/null 2>&1; echo $?)
  git -C $wt apply $d/patch.diff
  p=$(cd $wt && timeout 300 /venv/bin/python $d/demo.py $wt >/dev/null 2>&1; echo $?)
  suite=$(cd $wt && /venv/bin/python -m pytest -q -p no:cacheprovider --timeout=900 --continue-on-collection-errors 2>&1 | tail -1)
  res=""
  for c in $checks; do
    out=$(VERIF_REPO=$wt VERIF_WORKERS=5 /verif/check $c 2>&1); rc=$?
    sig=$(echo "$out" | grep "clause=" | head -2 | sed 's/^ *//' | tr '\n' ';' | tr '"' "'")
    res="$res$c:$rc:$sig|"
  done
  python3 - "$d" "$head" "$u" "$p" "$suite" "$res" <<'PY'
import json,sys
d,head,u,p,suite,res=sys.argv[1:7]
checks={}
for part in res.split('|'):
    if part:
        c,rc,sig=part.split(':',2); checks[c]={'exit':int(rc),'first_clauses':sig}
json.dump({'head':head,'applies':True,'demo_unpatched_exit':int(u),'demo_patched_exit':int(p),'suite':suite,'checks':checks,
           'caught':any(v['exit']==1 for v in checks.values())},open(d+'/final.json','w'),indent=1)
PY
  echo "$id: demo $u/$p; $(echo $res | tr '|' ' ' | cut -c1-160)"
done
git -C $wt checkout -q -- . ; git -C /repo worktree remove --force $wt
