#!/bin/sh
# tools/seed_eval.sh <PID> <k> [check ids...]: confirm a seeded change (suite green, demo 0/1) and run checks against it
pid=$1; k=$2; shift 2; checks=${*:-$pid}
wt=/tmp/${SEEDPFX:-seed}-$pid; d=$wt/out/$k; tagk=${SEEDTAG:-}$k
[ -f $d/patch.diff ] || { echo "no patch $d"; exit 2; }
git -C $wt checkout -q -- . ; git -C $wt clean -fdq -e out 2>/dev/null
u=$(cd $wt && /venv/bin/python $d/demo.py $wt >/dev/null 2>&1; echo $?)
git -C $wt apply $d/patch.diff || { echo "patch does not apply"; exit 2; }
suite=$(cd $wt && /venv/bin/python -m pytest -q -p no:cacheprovider --timeout=900 --continue-on-collection-errors 2>&1 | tail -1)
p=$(cd $wt && /venv/bin/python $d/demo.py $wt >/dev/null 2>&1; echo $?)
echo "$pid/$tagk demo unpatched=$u patched=$p suite: $suite"
res=""
for c in $checks; do
  out=$(VERIF_REPO=$wt /verif/check $c 2>&1); rc=$?
  sig=$(echo "$out" | grep "clause=" | head -3 | sed 's/^ *//' | tr '\n' ';')
  echo "   check $c rc=$rc $sig"
  res="$res $c:$rc"
done
git -C $wt checkout -q -- .
mkdir -p /verif/seeded/$pid-$tagk && cp $d/patch.diff $d/demo.py /verif/seeded/$pid-$tagk/
python3 - "$d/meta.json" "/verif/seeded/$pid-$tagk/meta.json" "$u" "$p" "$suite" "$res" <<'PY'
import json,sys
m=json.load(open(sys.argv[1]))
m.update({'confirmed_demo_unpatched_exit':int(sys.argv[3]),'confirmed_demo_patched_exit':int(sys.argv[4]),'confirmed_suite':sys.argv[5],
          'checks_run':{x.split(':')[0]:int(x.split(':')[1]) for x in sys.argv[6].split()},
          'how_run':'patch applied in a scratch worktree of /repo HEAD; suite; demo with/without; ./check with VERIF_REPO=<worktree>'})
json.dump(m,open(sys.argv[2],'w'),indent=1)
PY
