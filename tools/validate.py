#!/usr/bin/env python3
import json, sys, glob, jsonschema
m = json.load(open('/verif/MANIFEST.json'))
jsonschema.validate(m, json.load(open('/root/.vp/MANIFEST.schema.json')))
es = json.load(open('/root/.vp/EVIDENCE.schema.json'))
bad = 0
for c in m['checks']:
    p = '/verif/' + c['evidence_file']
    try:
        e = json.load(open(p))
        jsonschema.validate(e, es)
        assert e['level'] == c['level_claimed']['category'], 'level mismatch %s' % p
        print('ok', p, e['tier'], e['wall_s'], 'viol', e.get('violations'))
    except Exception as ex:
        bad += 1
        print('BAD', p, str(ex)[:300])
sys.exit(1 if bad else 0)
